(** C02_safe for the composed logging path of Safety/Top.v: for every configuration file content, every exec
    input and every environment (world), the run never faults, the message buffer is NUL-terminated within
    the size the configuration gives it, both limits anywhere in [HARDMIN, HARDMAX]. *)
From Snoopy Require Import Lib.CStr Safety.Mem Safety.CLib Safety.Consts Safety.Lits Safety.Str Safety.Filter Safety.Conf Safety.Ds Safety.Out Safety.Top
     Safety.P_Str Safety.P_Filter Safety.P_Conf Safety.P_Ini Safety.P_Ds Safety.P_Out Safety.Cgroup Safety.P_Cgroup Safety.Rpname Safety.P_Rpname Expand.Model Datasource.Cmdline.
From Coq Require Import ZifyBool ZifyN ZifyNat.
Local Open Scope N_scope.

Section P_Top.
  Variable c : safety_consts.
  Hypothesis Hok : safety_consts_ok c = true.
  Variable e : expand_consts.
  Hypothesis Hek : expand_consts_ok e = true.
  Hypothesis Hlits : nonul (e_close e) /\ nonul (e_nf1 e) /\ nonul (e_nf2 e) /\ nonul (e_f1 e) /\ nonul (e_f2 e) /\ nonul (e_f3 e).
  Variable cc : cmdline_consts.
  Hypothesis Hsep : nonul (sep cc).
  Hypothesis Hunk : nonul (unknown cc).

  Definition in_limits (cf : cfg) : Prop :=
    s_hardmin_log c <= g_llog cf /\ g_llog cf <= s_hardmax_log c /\ s_hardmin_ds c <= g_lds cf /\ g_lds cf <= s_hardmax_ds c.
  Definition cfg_wf (cf : cfg) : Prop :=
    nonul (g_message_format cf) /\ nonul (g_filter_chain cf) /\ len (g_filter_chain cf) <= s_fname_max c /\
    nonul (g_output cf) /\ nonul (g_output_arg cf) /\ nonul (g_ident cf) /\ in_limits cf.

  Definition opt_nonul (o : option (list byte)) : Prop := forall x, o = Some x -> nonul x.
  Definition proc_terminates (w : world) : Prop :=
    forall raw toks, toks_wf raw toks -> reaches c (w_procstat w) (w_scan w) raw toks (w_proc_fuel w) (w_ppid w).
  Definition world_wf (w : world) : Prop :=
    opt_nonul (w_file w) /\ (forall l, w_argv w = Some l -> Forall nonul l) /\ (forall l, w_environ w = Some l -> Forall nonul l) /\
    nonul (w_host w) /\ nonul (w_errno w) /\ opt_nonul (w_getlogin w) /\ opt_nonul (w_sudo_user w) /\ opt_nonul (w_logname w) /\
    (forall f, nonul (w_strftime w f)) /\ (forall n a t, snd (w_other_ds w n a) = Some t -> nonul t) /\ proc_terminates w /\
    nonul (w_pid_text w) /\ nonul (w_open_err w) /\
    (* /proc/<pid>/status as the kernel writes it ("Key:<tab>value<newline>"), parent chain finite *)
    status_wf (w_status w) /\
    chain {| path_cap := s_rp_path c; val_max := s_rp_val_max c; ret_cap := s_rp_ret_cap c |} (w_status w) (w_rp_fuel w) (Z.of_N (w_pid w)).

  (** ** facts from the constants *)
  Ltac okf := pose proof Hok as Hk; unfold safety_consts_ok in Hk; repeat (apply andb_true_iff in Hk as [Hk ?]).
  Lemma ok_top :
    s_ini_max_line c <= s_fname_max c + 2 /\ s_log_malloc_adj c = s_log_size_adj c /\ 1 <= s_log_size_adj c /\ 1 <= s_ds_size_adj c /\
    s_hardmin_log c <= s_default_log c /\ s_default_log c <= s_hardmax_log c /\ s_hardmin_ds c <= s_default_ds c /\ s_default_ds c <= s_hardmax_ds c /\
    s_hardmax_log c < s_int_max c /\ s_hardmax_ds c < s_int_max c /\ s_hardmin_log c <= s_hardmax_log c /\ s_hardmin_ds c <= s_hardmax_ds c /\
    s_env_trunc_sub c + 1 <= s_hardmin_ds c /\ s_env_trunc_sub c + 1 <= s_ident_buf c /\ s_env_trunc_sub c + 1 <= s_path_max c /\
    1 <= s_ident_buf c /\ 1 <= s_path_max c /\ 1 <= s_cg_path c /\ 1 <= s_rp_path c /\ s_rp_val_max c < s_rp_ret_cap c.
  Proof.
    okf.
    repeat match goal with
    | H : (_ <=? _) = true |- _ => apply N.leb_le in H
    | H : (_ <? _) = true |- _ => apply N.ltb_lt in H
    | H : (_ =? _) = true |- _ => apply N.eqb_eq in H
    end.
    repeat split; assumption.
  Qed.

  Lemma strdup_ok s : exists a, Conf.strdup s = Ok a.
  Proof.
    unfold Conf.strdup, c_store. destruct (wrs_ok (fresh (len s + 1)) 0 (s ++ [NUL])) as [a E]; [rewrite cap_fresh, len_app; cbn; lia|]. eauto.
  Qed.

  (** ** configuration *)
  Lemma apply_option_safe cf t : cfg_wf cf -> call_ok c t -> exists cf', apply_option c cf t = Ok cf' /\ cfg_wf cf'.
  Proof.
    intros Hwf Hc. destruct t as [[sec name] value]. destruct Hc as (Hs & Hn & Hv & Hlv & _ & _).
    destruct ok_top as (Hml & _ & _ & _ & Hd1 & Hd2 & Hd3 & Hd4 & Hi1 & Hi2 & Hm1 & Hm2 & _).
    destruct Hwf as (W1 & W2 & W3 & W4 & W5 & W6 & (L1 & L2 & L3 & L4)).
    unfold apply_option.
    destruct (negb (list_eqb sec lit_snoopy_section)); [exists cf; split; [reflexivity|repeat split; assumption]|].
    destruct (list_eqb name opt_error_logging).
    { destruct (getboolean_safe c Hok value) as [b Eb]. rewrite Eb. cbn [bind]. eexists. split; [reflexivity|]. repeat split; assumption. }
    destruct (list_eqb name opt_filter_chain).
    { destruct (strdup_ok value) as [a Ea]. rewrite Ea. cbn [bind]. eexists. split; [reflexivity|]. repeat split; cbn; try assumption. lia. }
    destruct (list_eqb name opt_message_format).
    { destruct (strdup_ok value) as [a Ea]. rewrite Ea. cbn [bind]. eexists. split; [reflexivity|]. repeat split; cbn; assumption. }
    destruct (list_eqb name opt_output).
    { destruct (output_split_safe c Hok value Hv) as (n & a & f & Eo & Hnn & Hna & _ & _). rewrite Eo. cbn [bind].
      destruct (strdup_ok n) as [a1 E1]. rewrite E1. cbn [bind]. destruct (strdup_ok a) as [a2 E2]. rewrite E2. cbn [bind].
      eexists. split; [reflexivity|]. repeat split; cbn; try assumption. destruct f; [assumption|intros []]. }
    destruct (list_eqb name opt_syslog_facility).
    { destruct (syslog_value_safe c Hok false value Hv) as [t Et]. rewrite Et. cbn [bind]. eexists. split; [reflexivity|]. repeat split; assumption. }
    destruct (list_eqb name opt_syslog_ident).
    { destruct (strdup_ok value) as [a Ea]. rewrite Ea. cbn [bind]. eexists. split; [reflexivity|]. repeat split; cbn; assumption. }
    destruct (list_eqb name opt_syslog_level).
    { destruct (syslog_value_safe c Hok true value Hv) as [t Et]. rewrite Et. cbn [bind]. eexists. split; [reflexivity|]. repeat split; assumption. }
    destruct (list_eqb name opt_ds_max).
    { destruct (byte_length_safe c Hok value (s_hardmin_ds c) (s_hardmax_ds c) (s_default_ds c) Hv Hm2 ltac:(lia)) as [r [Er Hr]].
      rewrite Er. cbn [bind]. eexists. split; [reflexivity|]. repeat split; cbn; try assumption; lia. }
    destruct (list_eqb name opt_log_max).
    { destruct (byte_length_safe c Hok value (s_hardmin_log c) (s_hardmax_log c) (s_default_log c) Hv Hm1 ltac:(lia)) as [r [Er Hr]].
      rewrite Er. cbn [bind]. eexists. split; [reflexivity|]. repeat split; cbn; try assumption; lia. }
    exists cf. split; [reflexivity|repeat split; assumption].
  Qed.

  Lemma apply_options_safe l : forall cf, cfg_wf cf -> Forall (call_ok c) l -> exists cf', apply_options c cf l = Ok cf' /\ cfg_wf cf'.
  Proof.
    induction l as [|t l IH]; intros cf Hwf Hl; cbn [apply_options]; [eauto|].
    inversion Hl as [|? ? Ht Hl']; subst.
    destruct (apply_option_safe cf t Hwf Ht) as [cf1 [E1 W1]]. rewrite E1. cbn [bind]. now apply IH.
  Qed.

  Theorem load_config_safe dflt ini : cfg_wf dflt -> exists cf, load_config c dflt ini = Ok cf /\ cfg_wf cf.
  Proof.
    intros Hwf. destruct ini as [content|]; cbn [load_config]; [|eauto].
    destruct (ini_parse_safe c Hok (fun _ _ _ => true) content) as [st [Es Hc]]. rewrite Es. cbn [bind].
    apply apply_options_safe; [assumption|]. apply Forall_rev. exact Hc.
  Qed.

  (** ** data sources *)
  Variable w : world.
  Hypothesis Hw : world_wf w.

  Lemma top_ds_contract size : s_env_trunc_sub c + 1 <= size -> 1 <= size -> ds_contract (top_ds c cc w) size.
  Proof.
    intros Hsz H1 name arg a Hn Ha Hc H0.
    destruct Hw as (Wf & Wa & We & Wh & Wer & Wg & Wsu & Wl & Wst & Wo & _ & Wpt & Woe & Wsw & Wch).
    destruct ok_top as (_ & _ & _ & _ & _ & _ & _ & _ & _ & _ & _ & _ & _ & _ & _ & _ & _ & Hcg & Hrp & Hrv).
    assert (R : forall r, ds_result_ok a size r -> forall fl : bool, exists a' failed s, @bind (arr * N) (arr * bool) r (fun x => Ok (fst x, fl)) = Ok (a', failed) /\ cap a' = cap a /\ cstr a' 0 = Ok s /\ len s < size).
    { intros r (a' & n & s & -> & C & S & L) fl. cbn [bind fst]. exists a', fl, s. repeat split; assumption. }
    unfold top_ds.
    destruct (list_eqb name ds_cmdline).
    { destruct (cmdline_buf_safe c Hok cc Hsep Hunk a size (w_file w) (w_argv w) H1 Hc Wf Wa) as (a' & n & E & C & S & L).
      rewrite E. cbn [bind fst]. exists a', false, (cmdline cc (w_file w) (w_argv w) size). repeat split; assumption. }
    destruct (list_eqb name ds_env_all); [apply R; now apply env_all_safe|].
    destruct (list_eqb name ds_hostname); [apply R; now apply (hostname_safe c Hok)|].
    destruct (list_eqb name ds_login); [apply R; now apply login_safe|].
    destruct (list_eqb name ds_datetime); [apply R; apply datetime_safe; try assumption; apply Wst|].
    destruct (list_eqb name ds_cgroup).
    { destruct (cgroup_safe c Hok (s_cg_path c) a size arg (w_pid_text w) (w_cgroup_file w) (w_open_err w) Hcg H1 Hc Ha Wpt Woe) as (a' & fl & E & C & s & S & L).
      exists a', fl, s. repeat split; assumption. }
    destruct (list_eqb name ds_rpname).
    { apply R. destruct (rpname_fuel {| path_cap := s_rp_path c; val_max := s_rp_val_max c; ret_cap := s_rp_ret_cap c |} Hrp Hrv (w_status w) (w_rp_fuel w) (w_rp_fuel w) (w_pid w) a size Wch (le_n _) Wsw H1 Hc) as (a' & n & E & C & s & S & L).
      exists a', n, s. repeat split; assumption. }
    destruct (w_other_ds w name arg) as [failed text] eqn:Eo.
    destruct text as [t|].
    - apply R. apply (ds_snprintf_safe c Hok); try assumption. apply (Wo name arg). now rewrite Eo.
    - exists a, failed, []. repeat split; try assumption. rewrite len_nil. lia.
  Qed.

  Lemma top_gen_safe log bufsize third fmt : s_env_trunc_sub c + 1 <= third ->
    (exists s0, cstr log 0 = Ok s0 /\ len s0 < bufsize) -> 1 <= bufsize -> bufsize <= cap log -> 1 <= third -> nonul fmt ->
    exists log' s, top_gen c e cc w log bufsize third fmt = Ok log' /\ cap log' = cap log /\ cstr log' 0 = Ok s /\ len s < bufsize.
  Proof.
    intros Ht H0 Hb Hc H1 Hf. unfold top_gen.
    apply (generate_buf_safe c Hok e Hek Hlits (w_known_ds w) (top_ds c cc w) log bufsize third fmt); try assumption.
    apply top_ds_contract; assumption.
  Qed.

  (** ** filters *)
  Lemma exclude_spawns_of_fuel arg : nonul arg -> exists r, exclude_spawns_of c (w_procstat w) (w_scan w) (w_proc_fuel w) (w_ppid w) arg = Ok r.
  Proof.
    intros Ha. destruct Hw as (_ & _ & _ & _ & _ & _ & _ & _ & _ & _ & Hp & _).
    unfold exclude_spawns_of, c_store.
    destruct (wrs_ok (fresh (len arg + 1)) 0 (arg ++ [NUL])) as [raw Er]; [rewrite cap_fresh, len_app; cbn; lia|].
    rewrite Er. cbn [bind].
    assert (Hs : cstr raw 0 = Ok arg) by (apply (cstr_wrs_here _ 0 arg [] raw Er Ha)).
    destruct (token_array_safe raw arg Hs) as [r [Et Hr]]. rewrite Et. cbn [bind].
    destruct r as [[raw' toks]|]; [|eauto].
    destruct (ancestors_fuel c (w_procstat w) (w_scan w) (w_proc_fuel w) (w_proc_fuel w) (w_ppid w) raw' toks (Hp raw' toks Hr) (le_n _)) as [a Ea].
    rewrite Ea. cbn [bind]. eauto.
  Qed.

  Lemma top_filter_safe n a : nonul n -> nonul a -> exists r, top_filter c w n a = Ok r.
  Proof.
    intros Hn Ha. unfold top_filter.
    destruct (list_eqb n f_only_uid || list_eqb n f_exclude_uid).
    { destruct (uid_filter_args_safe c Hok a Ha) as [l [El _]]. rewrite El. cbn [bind]. eauto. }
    destruct (list_eqb n f_exclude_spawns_of); [now apply exclude_spawns_of_fuel|eauto].
  Qed.

  (** ** outputs *)
  Lemma dispatch_safe cf msg : cfg_wf cf -> nonul msg -> exists o, dispatch c e cc w cf msg = Ok o.
  Proof.
    intros (W1 & W2 & W3 & W4 & W5 & W6 & _) Hm. unfold dispatch. destruct msg as [|b m]; [eauto|].
    destruct ok_top as (_ & _ & _ & _ & _ & _ & _ & _ & _ & _ & _ & _ & _ & He2 & He3 & Hi & Hp & _).
    assert (G : forall a bs th fmt, (bs = s_ident_buf c \/ bs = s_path_max c) -> th = bs ->
               (exists s0, cstr a 0 = Ok s0 /\ len s0 < bs) -> 1 <= bs -> bs <= cap a -> 1 <= th -> nonul fmt ->
               exists a' s, top_gen c e cc w a bs th fmt = Ok a' /\ cap a' = cap a /\ cstr a' 0 = Ok s /\ len s < bs).
    { intros a bs th fmt Hwhich -> H0 H1 H2 H3 H4. apply top_gen_safe; try assumption. destruct Hwhich as [-> | ->]; assumption. }
    destruct (list_eqb (g_output cf) o_devlog).
    { destruct (devlog_safe c Hok (top_gen c e cc w) G (b :: m) (g_ident cf) (w_pri w) (w_pid w) Hm W6) as [r Er]. rewrite Er. cbn [bind]. eauto. }
    destruct (list_eqb (g_output cf) o_file).
    { destruct (file_line_safe c Hok (top_gen c e cc w) G (b :: m) (g_output_arg cf) Hm W5) as [r Er]. rewrite Er. cbn [bind]. eauto. }
    destruct (list_eqb (g_output cf) o_socket).
    { destruct (socket_addr_safe c Hok (g_output_arg cf) W5) as [n [En _]]. rewrite En. cbn [bind]. eauto. }
    eauto.
  Qed.

  (** ** the whole call *)
  Theorem log_call_safe dflt ini : cfg_wf dflt ->
    exists r, log_call c e cc dflt w ini = Ok r /\ in_limits (r_cfg r) /\
              r_bufsize r = g_llog (r_cfg r) + s_log_size_adj c /\ r_bufsize r <= cap (r_log r) /\
              exists s, cstr (r_log r) 0 = Ok s /\ len s < r_bufsize r.
  Proof.
    intros Hd. unfold log_call.
    destruct (load_config_safe dflt ini Hd) as [cf [Ec Hwf]]. rewrite Ec. cbn [bind].
    pose proof Hwf as (W1 & W2 & W3 & W4 & W5 & W6 & (L1 & L2 & L3 & L4)).
    destruct ok_top as (_ & Hadj & Hs1 & Hs2 & _ & _ & _ & _ & _ & _ & _ & _ & He1 & _).
    destruct (check_chain_safe c Hok (w_known_filter w) (top_filter c w) top_filter_safe (g_filter_chain cf) W2 W3) as [pass Ep].
    rewrite Ep. cbn [bind].
    destruct (wrs_ok (fresh (g_llog cf + s_log_malloc_adj c)) 0 [NUL]) as [log0 E0]; [rewrite cap_fresh; cbn; lia|].
    unfold wr. rewrite E0. cbn [bind].
    assert (H0 : cstr log0 0 = Ok []) by (apply (cstr_wrs_here _ 0 [] [] log0 E0); intros []).
    pose proof (cap_wrs _ _ _ _ E0) as C0. rewrite cap_fresh in C0.
    destruct (negb pass).
    { eexists. split; [reflexivity|]. cbn. split; [repeat split; assumption|]. split; [reflexivity|]. split; [lia|].
      exists []. split; [assumption|]. rewrite len_nil. lia. }
    destruct (top_gen_safe log0 (g_llog cf + s_log_size_adj c) (g_lds cf + s_ds_size_adj c) (g_message_format cf)) as (log & s & Eg & Cg & Sg & Lg);
      try lia; try assumption.
    { exists []. split; [assumption|]. rewrite len_nil. lia. }
    rewrite Eg. cbn [bind].
    assert (Eh : exists b, (if g_error_logging cf then handler c (w_nref w) 4 true lit_refused else Ok true) = Ok b).
    { destruct (g_error_logging cf); [|eauto].
      destruct (error_dispatch_terminates_depth2 c Hok (w_nref w) 4 true lit_refused ltac:(lia)) as [r [Er _]]. eauto. }
    destruct Eh as [bh Eh]. rewrite Eh. cbn [bind]. rewrite Sg. cbn [bind].
    destruct (dispatch_safe cf s Hwf (cstr_nonul _ _ _ Sg)) as [o Eo]. rewrite Eo. cbn [bind].
    eexists. split; [reflexivity|]. cbn. split; [repeat split; assumption|]. split; [reflexivity|]. split; [lia|].
    exists s. split; assumption.
  Qed.
End P_Top.

Print Assumptions load_config_safe.
Print Assumptions top_ds_contract.
Print Assumptions log_call_safe.
