(** Buffer-level model of src/datasource/rpname.c:
    [read_proc_property], [get_parent_pid], [get_rpname], [snoopy_datasource_rpname].

    Style of Safety/Ds.v and Safety/Filter.v: every C buffer is an [arr] with its capacity, every read and
    write is bounds-checked, reading an indeterminate byte is a fault.  Everything is executable.

    What is modelled, statement by statement (C line numbers of rpname.c):
      97  char pid_file[ST_PATH_SIZE_MAX]                       [fresh (path_cap sz)]
      104 char returnValue[PROC_PID_STATUS_VAL_MAX_LENGTH_STR] = ""   [zeroed (ret_cap sz)]
      107 snprintf(pid_file, ST_PATH_SIZE_MAX, "/proc/%d/status", pid)
      108 fopen(pid_file, "r")       reads the path string; the oracle [status] answers ([None] = NULL)
      114 getline(&line, &lineLen, fp)   the next chunk of the file up to and including '\n' (or up to EOF),
                                     stored NUL-terminated in a block of max(120, chunk + 1) bytes whose
                                     remaining bytes are indeterminate ([getline_block])
      122 0 == lineLen, strstr(line, ":")
      131 strchr(line, ':'),  135 *v = '\0',  136 v++,  138 strcmp(prop_name, k)
      140 v++,  141 vLen = strlen(v),  142 v[vLen-1] = 0 (size_t arithmetic: [sub64]),  143 vLen--
      149-154 the two strncpy branches (PROC_PID_STATUS_VAL_MAX_LENGTH_STR-1 expands to NAME_MAX + 1-1)
      159 strdup(returnValue)
      187 atoi(ppid_str)             pure function on the NUL-free string, unbounded ([atoi]; the int overflow of
                                     atoi is outside the model)
      204-218 get_rpname             recursion over the parent chain with explicit fuel

    Not modelled: malloc/getline/strdup failing with ENOMEM, free/fclose bookkeeping (every path frees [line]
    once and closes [fp] once), the C stack depth of the recursion (= the fuel).

    Conservative choices: the line buffer is re-created for every line with the SMALLEST capacity glibc may give
    it and with indeterminate bytes behind the terminator (in C the block is reused, so those bytes hold either
    malloc garbage or stale text of an earlier line: nothing the program may rely on).  Pids are [Z] inside the
    model because atoi may deliver a negative number; "/proc/-5/status" never exists, so a negative pid is an
    unreadable one ([status_of]). *)
From Snoopy Require Import Lib.CStr Safety.Mem Safety.CLib Safety.Consts Safety.Lits.
From Coq Require Import ZifyBool ZifyN ZifyNat.
Local Open Scope N_scope.

(** literals (checked against their text in [RpnameTests] below) *)
Definition lit_status : list byte := [x2f; x73; x74; x61; x74; x75; x73].          (* "/status" *)
Definition KEY_NAME : list byte := [x4e; x61; x6d; x65].                          (* "Name" *)
Definition KEY_PPID : list byte := [x50; x50; x69; x64].                          (* "PPid" *)
Definition lit_unknown : list byte := [x28; x75; x6e; x6b; x6e; x6f; x77; x6e; x29].   (* "(unknown)" *)
Definition MINUS := x2d.
Definition PLUS := x2b.

(** the sizes of rpname.c *)
Record rp_sizes := {
  path_cap : N;     (* ST_PATH_SIZE_MAX: char pid_file[..] and the snprintf size *)
  val_max : N;      (* PROC_PID_STATUS_VAL_MAX_LENGTH = NAME_MAX *)
  ret_cap : N       (* char returnValue[PROC_PID_STATUS_VAL_MAX_LENGTH_STR] = NAME_MAX + 1 *)
}.
Definition rp_sizes_c : rp_sizes := {| path_cap := 32; val_max := 255; ret_cap := 256 |}.

(** * pure helpers *)

(** the file as getline delivers it: chunks ending in '\n', the last one possibly without *)
Fixpoint lines (s : list byte) : list (list byte) :=
  match s with
  | [] => []
  | b :: s' =>
    if beq b NL then [b] :: lines s'
    else match lines s' with
         | [] => [[b]]
         | l :: ls => (b :: l) :: ls
         end
  end.

(** the C string that starts a byte sequence: the bytes before the first NUL *)
Definition notnul (b : byte) : bool := negb (beq b NUL).
Definition cprefix (t : list byte) : list byte := takeN (span notnul t) t.

(** N <-> Z conversions under their own names (definitionally [Z.of_N] / [Z.to_N]): the extraction of the stdlib's
    [Z.of_N] / [Z.to_N] would take the identifiers [of_N] / [to_N] that ocaml/common.ml expects to be [Byte]'s. *)
Definition z_of_n (n : N) : Z := match n with N0 => Z0 | Npos p => Zpos p end.
Definition z_to_n (z : Z) : N := match z with Zpos p => Npos p | _ => N0 end.
Lemma z_of_n_eq n : z_of_n n = Z.of_N n.  Proof. reflexivity. Qed.
Lemma z_to_n_eq z : z_to_n z = Z.to_N z.  Proof. reflexivity. Qed.


(** atoi: isspace*, optional sign, digits; unbounded *)
Definition atoi (s : list byte) : Z :=
  let s1 := dropN (span is_space s) s in
  let num (t : list byte) : Z := z_of_n (digits_val (takeN (span is_digit t) t)) in
  match s1 with
  | [] => 0%Z
  | b :: s2 => if beq b MINUS then (- num s2)%Z else if beq b PLUS then num s2 else num s1
  end.

(** printf("%d") *)
Definition dec_z (z : Z) : list byte := if (z <? 0)%Z then MINUS :: dec (Z.abs_N z) else dec (z_to_n z).

(** getline's block for one chunk *)
Definition getline_block (chunk : list byte) : res arr :=
  wrs (fresh (N.max 120 (len chunk + 1))) 0 (chunk ++ [NUL]).

Section Rpname.
  Variable sz : rp_sizes.
  (** /proc/<pid>/status as fopen + getline see it: [None] = fopen failed; ARBITRARY bytes otherwise *)
  Variable status : N -> option (list byte).

  Definition status_of (pid : Z) : option (list byte) := if (pid <? 0)%Z then None else status (z_to_n pid).

  (** the  while (getline(..) != -1)  loop; result: the strdup'ed block or NULL *)
  Fixpoint rpp_loop (prop : list byte) (chunks : list (list byte)) : res (option arr) :=
    match chunks with
    | [] => Ok None                                          (* getline == -1 *)
    | chunk :: rest =>
      line <- getline_block chunk ;;
      if cap line =? 0 then Ok None else                     (* 0 == lineLen (the allocation size, never 0) *)
      s <- cstr line 0 ;;                                    (* strstr / strchr read the string *)
      match strstr s [COLONB] with
      | None => Ok None                                      (* goto RETURN_FREE_LINE_AND_CLOSE_FILE *)
      | Some _ =>
        match index COLONB s with
        | None => rpp_loop prop rest                         (* continue (dead code: strstr found one) *)
        | Some k =>
          let k := N.of_nat k in
          line1 <- wr line k NUL ;;                          (* *v = '\0' *)
          let v := k + 1 in                                  (* v++ *)
          key <- cstr line1 0 ;;                             (* strcmp(prop_name, k) *)
          if list_eqb prop key then
            let v := v + 1 in                                (* v++: "one tab in front" *)
            vs <- cstr line1 v ;;                            (* strlen(v) *)
            let vLen := len vs in
            line2 <- wr line1 (v + sub64 vLen 1) NUL ;;      (* v[vLen-1] = 0 *)
            let vLen := sub64 vLen 1 in                      (* vLen-- *)
            src <- cstr line2 v ;;                           (* strncpy reads v *)
            let ret0 := zeroed (ret_cap sz) in               (* char returnValue[..] = "" *)
            ret <- (if val_max sz <? vLen then
                      r1 <- c_strncpy ret0 0 src (val_max sz) ;;
                      wr r1 (val_max sz + 1 - 1) NUL         (* returnValue[NAME_MAX + 1-1] = 0 *)
                    else c_strncpy ret0 0 src (val_max sz + 1 - 1)) ;;
            rs <- cstr ret 0 ;;                              (* strdup(returnValue) *)
            dup <- c_store (fresh (len rs + 1)) 0 rs ;;
            Ok (Some dup)
          else rpp_loop prop rest
        end
      end
    end.

  Definition read_proc_property (pid : Z) (prop : list byte) : res (option arr) :=
    pf <- c_snprintf (fresh (path_cap sz)) 0 (path_cap sz) (lit_proc ++ dec_z pid ++ lit_status) ;;
    _ <- cstr (fst pf) 0 ;;                                  (* fopen reads pid_file *)
    match status_of pid with
    | None => Ok None
    | Some content => rpp_loop prop (lines content)
    end.

  Definition get_parent_pid (pid : Z) : res Z :=
    r <- read_proc_property pid KEY_PPID ;;
    match r with
    | Some blk => s <- cstr blk 0 ;; Ok (atoi s)
    | None => Ok (-1)%Z                                      (* PID_UNKNOWN *)
    end.

  Fixpoint get_rpname (fuel : nat) (pid : Z) (buf : arr) (size : N) : res (arr * N) :=
    match fuel with
    | O => Fault Out_of_fuel
    | S fuel' =>
      pp <- get_parent_pid pid ;;
      if (pp =? 1)%Z || (pp =? 0)%Z then
        r <- read_proc_property pid KEY_NAME ;;
        match r with
        | Some blk => name <- cstr blk 0 ;; c_snprintf buf 0 size name
        | None => c_snprintf buf 0 size lit_unknown
        end
      else if (pp =? -1)%Z then c_snprintf buf 0 size lit_unknown
      else get_rpname fuel' pp buf size
    end.
End Rpname.

(** snoopy_datasource_rpname(resultBuf, resultBufSize, arg) with getpid() = [pid] *)
Definition rpname_buf (sz : rp_sizes) (status : N -> option (list byte)) (fuel : nat) (pid : N) (buf : arr) (size : N)
  : res (arr * N) :=
  get_rpname sz status fuel (z_of_n pid) buf size.

(** * reference semantics (pure): what [read_proc_property] returns and when it is defined *)

(** the value of the matching line whose first ':' (inside the C string) is at [k] *)
Definition line_value (sz : rp_sizes) (chunk : list byte) (k : N) : list byte :=
  let vs := cprefix (dropN (k + 2) chunk) in
  takeN (val_max sz) (takeN (len vs - 1) vs).

Fixpoint prop_value (sz : rp_sizes) (prop : list byte) (chunks : list (list byte)) : option (list byte) :=
  match chunks with
  | [] => None
  | chunk :: rest =>
    let s := cprefix chunk in
    match index COLONB s with
    | None => None
    | Some k => if list_eqb prop (takeN (N.of_nat k) s) then Some (line_value sz chunk (N.of_nat k)) else prop_value sz prop rest
    end
  end.

(** the lines the loop looks at are fine for [prop]: the first line whose key is [prop] (and that is not
    preceded by a line without ':') has a non-NUL byte two places behind its ':' *)
Fixpoint prop_wf (prop : list byte) (chunks : list (list byte)) : bool :=
  match chunks with
  | [] => true
  | chunk :: rest =>
    let s := cprefix chunk in
    match index COLONB s with
    | None => true
    | Some k => if list_eqb prop (takeN (N.of_nat k) s) then negb (beq (nthN (N.of_nat k + 2) chunk) NUL) else prop_wf prop rest
    end
  end.

Definition content_wf (content : list byte) : bool :=
  prop_wf KEY_PPID (lines content) && prop_wf KEY_NAME (lines content).

(** * statement tests *)
Module RpnameTests.
  Import Coq.Strings.String.

  Example lit_status_text : lit_status = bytes "/status".  Proof. reflexivity. Qed.
  Example key_name_text : KEY_NAME = bytes "Name".  Proof. reflexivity. Qed.
  Example key_ppid_text : KEY_PPID = bytes "PPid".  Proof. reflexivity. Qed.
  Example lit_unknown_text : lit_unknown = bytes "(unknown)".  Proof. reflexivity. Qed.

  Definition kv (key value : list byte) : list byte := key ++ [COLONB; TAB] ++ value ++ [NL].
  Definition proc (name ppid : list byte) : list byte :=
    kv (bytes "Name") name ++ kv (bytes "Umask") (bytes "0022") ++ kv (bytes "State") (bytes "S (sleeping)")
    ++ kv (bytes "Tgid") (bytes "7") ++ kv (bytes "Pid") (bytes "7") ++ kv (bytes "PPid") ppid ++ kv (bytes "TracerPid") (bytes "0").

  Definition buf0 : arr := fresh 64.
  Definition text_of (r : res (arr * N)) : res (list byte * N) :=
    match r with Ok (a, n) => s <- cstr a 0 ;; Ok (s, n) | Fault f => Fault f end.

  (** a chain 700 -> 50 -> 1 *)
  Definition st3 (pid : N) : option (list byte) :=
    if pid =? 700 then Some (proc (bytes "ls") (bytes "50"))
    else if pid =? 50 then Some (proc (bytes "bash") (bytes "1"))
    else if pid =? 1 then Some (proc (bytes "systemd") (bytes "0"))
    else None.

  Example lines_ex : lines (bytes "ab" ++ [NL; NL] ++ bytes "c") = [bytes "ab" ++ [NL]; [NL]; bytes "c"].
  Proof. vm_compute. reflexivity. Qed.
  Example atoi_ex : (atoi (bytes " 50 kB"), atoi (bytes "-17"), atoi (bytes "+4x"), atoi (bytes "x")) = (50, -17, 4, 0)%Z.
  Proof. vm_compute. reflexivity. Qed.

  Example chain3 : text_of (rpname_buf rp_sizes_c st3 3 700 buf0 64) = Ok (bytes "bash", 4).
  Proof. vm_compute. reflexivity. Qed.
  Example chain3_from_root : text_of (rpname_buf rp_sizes_c st3 1 1 buf0 64) = Ok (bytes "systemd", 7).
  Proof. vm_compute. reflexivity. Qed.
  Example chain3_small_result : text_of (rpname_buf rp_sizes_c st3 3 700 buf0 3) = Ok (bytes "ba", 4).
  Proof. vm_compute. reflexivity. Qed.
  Example chain3_fuel : rpname_buf rp_sizes_c st3 1 700 buf0 64 = Fault Out_of_fuel.
  Proof. vm_compute. reflexivity. Qed.
  Example chain3_values :
    (prop_value rp_sizes_c KEY_PPID (lines (proc (bytes "ls") (bytes "50"))), prop_value rp_sizes_c KEY_NAME (lines (proc (bytes "ls") (bytes "50"))))
    = (Some (bytes "50"), Some (bytes "ls")).
  Proof. vm_compute. reflexivity. Qed.

  (** a name of 300 bytes (the kernel allows 15): cut at NAME_MAX by the first strncpy branch *)
  Definition long_name : list byte := repeat x61 300.
  Definition st_long (pid : N) : option (list byte) := if pid =? 9 then Some (proc long_name (bytes "1")) else None.
  Definition buf1 : arr := fresh 400.
  Example name300 : text_of (rpname_buf rp_sizes_c st_long 1 9 buf1 400) = Ok (repeat x61 255, 255).
  Proof. vm_compute. reflexivity. Qed.
  Example name255 : text_of (rpname_buf rp_sizes_c (fun p => if p =? 9 then Some (proc (repeat x61 255) (bytes "1")) else None) 1 9 buf1 400)
                    = Ok (repeat x61 255, 255).
  Proof. vm_compute. reflexivity. Qed.

  (** a file without "PPid": PID_UNKNOWN *)
  Definition st_noppid (pid : N) : option (list byte) := if pid =? 9 then Some (kv (bytes "Name") (bytes "x") ++ kv (bytes "Pid") (bytes "9")) else None.
  Example no_ppid : text_of (rpname_buf rp_sizes_c st_noppid 5 9 buf0 64) = Ok (bytes "(unknown)", 9).
  Proof. vm_compute. reflexivity. Qed.

  (** a line without ':' in front of the key ends the search *)
  Example bail_out : text_of (rpname_buf rp_sizes_c (fun p => if p =? 9 then Some (bytes "garbage" ++ [NL] ++ proc (bytes "x") (bytes "1")) else None) 5 9 buf0 64)
                     = Ok (bytes "(unknown)", 9).
  Proof. vm_compute. reflexivity. Qed.

  (** an unreadable pid, an unreadable parent, a negative parent *)
  Example unreadable : text_of (rpname_buf rp_sizes_c (fun _ => None) 1 4242 buf0 64) = Ok (bytes "(unknown)", 9).
  Proof. vm_compute. reflexivity. Qed.
  Example unreadable_parent : text_of (rpname_buf rp_sizes_c (fun p => if p =? 9 then Some (proc (bytes "x") (bytes "8")) else None) 2 9 buf0 64) = Ok (bytes "(unknown)", 9).
  Proof. vm_compute. reflexivity. Qed.
  Example negative_parent : text_of (rpname_buf rp_sizes_c (fun p => if p =? 9 then Some (proc (bytes "x") (bytes "-5")) else None) 2 9 buf0 64) = Ok (bytes "(unknown)", 9).
  Proof. vm_compute. reflexivity. Qed.

  (** bytes behind an embedded NUL are not part of the key line's C string, but they are part of the block *)
  Example embedded_nul : text_of (rpname_buf rp_sizes_c (fun p => if p =? 9 then Some (bytes "PPid:" ++ [NUL] ++ bytes "1" ++ [NL] ++ bytes "Name:" ++ [NUL] ++ bytes "n" ++ [NL]) else None) 2 9 buf0 64)
                         = Ok (bytes "n", 1).
  Proof. vm_compute. reflexivity. Qed.

  (** the well-formedness test *)
  Example wf_kernel : content_wf (proc (bytes "ls") (bytes "50")) = true.  Proof. vm_compute. reflexivity. Qed.
  Example wf_not : content_wf (bytes "PPid:") = false.  Proof. vm_compute. reflexivity. Qed.
End RpnameTests.
