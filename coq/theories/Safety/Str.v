(** Buffer-level models of src/util/string.c (snoopy_util_string_append) and src/message.c
    (snoopy_message_append, snoopy_message_generateFromFormat as now written: strndup'ed
    literal and tag, data-source scratch buffer of the size passed by the caller). *)
From Snoopy Require Import Lib.CStr Safety.Mem Safety.CLib Safety.Consts Expand.Model.
From Coq Require Import ZifyBool ZifyN ZifyNat.
Local Open Scope N_scope.

Section Str.
  Variable c : safety_consts.
  Variable e : expand_consts.       (* the literals of message.c (Gen_Expand) *)

  (** util/string.c: returns the array and [Some appended_size] or [None] = SNOOPY_ERROR *)
  Definition string_append (dest : arr) (bufsize : N) (app : list byte) : res (arr * option N) :=
    dsz <- c_strlen dest 0 ;;
    let asz := len app in
    let remaining := sub64 bufsize dsz in
    if (if s_append_strict c then remaining <=? asz else remaining <? asz) then Ok (dest, None)
    else dest' <- c_store dest dsz app ;; Ok (dest', Some asz).

  (** message.c snoopy_message_append: a refusal goes to the error handler (Safety/Out.v), which
      does not touch the message buffer *)
  Definition message_append (log : arr) (bufsize : N) (app : list byte) : res arr :=
    r <- string_append log bufsize app ;; Ok (fst r).

  (** strndup(s, n): a fresh heap block of exactly min(n, strlen s) + 1 bytes *)
  Definition strndup (s : list byte) (n : N) : res arr :=
    let k := N.min n (len s) in c_store (fresh (k + 1)) 0 (takeN k s).

  (** data sources: (name, arg, scratch buffer, its size) -> (buffer, failed?) *)
  Variable known : list byte -> bool.
  Variable ds : list byte -> list byte -> arr -> N -> res (arr * bool).

  Definition tag_split (tag : arr) : res (arr * list byte * list byte) :=
    t <- cstr tag 0 ;;
    match strstr t (tag_colon e) with
    | None =>
      (* char dataSourceArg[SNOOPY_DATASOURCE_ARG_MAX_SIZE]; dataSourceArg[0] = '\0' *)
      argbuf <- wr (fresh (s_ds_arg_max c)) 0 NUL ;;
      arg <- cstr argbuf 0 ;;
      Ok (tag, t, arg)
    | Some k =>
      let k := N.of_nat k in
      tag' <- wr tag k NUL ;;
      name <- cstr tag' 0 ;;
      arg <- cstr tag' (k + 1) ;;
      Ok (tag', name, arg)
    end.

  Fixpoint expand_loop (fuel : nat) (log : arr) (bufsize : N) (dsm : arr) (dsbuf : N) (cur : list byte) : res arr :=
    match fuel with
    | O => Fault Out_of_fuel
    | S fuel' =>
      match strstr cur (tag_open e) with
      | None => message_append log bufsize cur
      | Some i =>
        let i := N.of_nat i in
        lit <- strndup cur i ;;
        lits <- cstr lit 0 ;;
        log1 <- message_append log bufsize lits ;;
        let nft := dropN i cur in
        match strstr nft (tag_close e) with
        | None => message_append log1 bufsize (e_close e)
        | Some j =>
          let j := N.of_nat j in
          (* strndup(nft + 2, (size_t)(close - (nft + 2))) *)
          tag <- strndup (dropN (s_tag_skip c) nft) (sub64 j (s_tag_skip c)) ;;
          sp <- tag_split tag ;;
          let '(_, name, arg) := sp in
          if negb (known name) then
            l2 <- message_append log1 bufsize (e_nf1 e) ;;
            l3 <- message_append l2 bufsize name ;;
            message_append l3 bufsize (e_nf2 e)
          else
            dsm0 <- (if s_ds_pre_nul c then wr dsm 0 NUL else Ok dsm) ;;
            r <- ds name arg dsm0 dsbuf ;;
            let '(dsm1, failed) := r in
            txt <- cstr dsm1 0 ;;
            log2 <- (if failed then
                       l2 <- message_append log1 bufsize (e_f1 e) ;;
                       l3 <- message_append l2 bufsize name ;;
                       l4 <- message_append l3 bufsize (e_f2 e) ;;
                       l5 <- message_append l4 bufsize txt ;;
                       message_append l5 bufsize (e_f3 e)
                     else message_append log1 bufsize txt) ;;
            expand_loop fuel' log2 bufsize dsm1 dsbuf (dropN (j + s_close_skip c) nft)
        end
      end
    end.

  (** snoopy_message_generateFromFormat(logMessage, logMessageBufSize, dataSourceMsgMaxLength, fmt) *)
  Definition generate_buf (log : arr) (bufsize third : N) (fmt : list byte) : res arr :=
    let dsbuf := third + s_ds_buf_adj c in
    let dsm := fresh dsbuf in                        (* malloc(dataSourceMsgBufSize) *)
    match fmt with
    | [] => Ok log                                   (* while (strlen(..) > 0) not entered *)
    | _ => expand_loop (S (List.length fmt)) log bufsize dsm dsbuf fmt
    end.
End Str.
