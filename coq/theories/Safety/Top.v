(** The logging path of one exec call, composed from the buffer-level models:
    configuration file -> option parsers -> filter chain -> message -> (error handler) -> output.
    Everything the process and the operating system contribute is a field of [world]. *)
From Snoopy Require Import Lib.CStr Safety.Mem Safety.CLib Safety.Consts Safety.Lits Safety.Str Safety.Filter Safety.Conf Safety.Ds Safety.Out Safety.Cgroup Safety.Rpname
     Expand.Model Datasource.Cmdline.
From Coq Require Import ZifyBool ZifyN ZifyNat.
Local Open Scope N_scope.

Record cfg := {
  g_message_format : list byte; g_filter_chain : list byte; g_output : list byte; g_output_arg : list byte;
  g_ident : list byte; g_facility : list byte; g_level : list byte; g_error_logging : bool; g_llog : N; g_lds : N
}.

Record world := {
  w_file : option (list byte);                     (* path handed to exec (NULL only together with data sources that test it) *)
  w_argv : option (list (list byte));
  w_environ : option (list (list byte));           (* None: environ == NULL *)
  w_host : list byte; w_errno : list byte;
  w_getlogin : option (list byte); w_sudo_user : option (list byte); w_logname : option (list byte);
  w_strftime : list byte -> list byte;             (* format -> what strftime would produce unbounded *)
  w_dt_default : list byte;                        (* SNOOPY_DATASOURCE_DATETIME_defaultFormat *)
  w_cgroup_file : option (list byte); w_pid_text : list byte; w_open_err : list byte;   (* /proc/<pid>/cgroup content (None: unreadable), "%d" of the pid, strerror text *)
  w_status : N -> option (list byte); w_rp_fuel : nat;                              (* /proc/<pid>/status per pid, bound on the parent chain *)
  w_other_ds : list byte -> list byte -> bool * option (list byte);   (* any other data source: failed?, text it prints through snprintf (None: prints nothing) *)
  w_known_ds : list byte -> bool;
  w_known_filter : list byte -> bool;
  w_filter_verdict : list byte -> list byte -> bool;                  (* what a filter answers (uid, tty, ...), after its argument handling *)
  w_ppid : N; w_procstat : N -> option (list byte); w_scan : list byte -> option N; w_proc_fuel : nat;
  w_pri : N; w_pid : N;
  w_nref : list byte -> N                          (* refused appends while an output expands its own template *)
}.

Inductive out_event :=
| OutNone | OutDatagram (d : list byte) | OutFile (path line : list byte) | OutSocket (addrlen : N) | OutOther (msg : list byte).

Record call_result := { r_dropped : bool; r_cfg : cfg; r_log : arr; r_bufsize : N; r_out : out_event }.

Section Top.
  Variable c : safety_consts.
  Variable e : expand_consts.
  Variable cc : cmdline_consts.
  Variable dflt : cfg.                              (* the compiled-in configuration *)
  Variable w : world.

  (** configfile.c callback for one (section, name, value) *)
  Definition apply_option (cf : cfg) (t : list byte * list byte * list byte) : res cfg :=
    let '(sec, name, value) := t in
    if negb (list_eqb sec lit_snoopy_section) then Ok cf else
    let upd mf fc o oa id fa lv el ll ld :=
      {| g_message_format := mf; g_filter_chain := fc; g_output := o; g_output_arg := oa; g_ident := id; g_facility := fa; g_level := lv;
         g_error_logging := el; g_llog := ll; g_lds := ld |} in
    let '(mf, fc, o, oa, id, fa, lv, el, ll, ld) :=
      (g_message_format cf, g_filter_chain cf, g_output cf, g_output_arg cf, g_ident cf, g_facility cf, g_level cf, g_error_logging cf, g_llog cf, g_lds cf) in
    if list_eqb name opt_error_logging then
      b <- getboolean value ;; Ok (upd mf fc o oa id fa lv (match b with Some v => v | None => el end) ll ld)
    else if list_eqb name opt_filter_chain then _ <- strdup value ;; Ok (upd mf value o oa id fa lv el ll ld)
    else if list_eqb name opt_message_format then _ <- strdup value ;; Ok (upd value fc o oa id fa lv el ll ld)
    else if list_eqb name opt_output then
      r <- output_split c value ;; let '(n, a, f) := r in
      _ <- strdup n ;; _ <- strdup a ;; Ok (upd mf fc n (if f then a else []) id fa lv el ll ld)
    else if list_eqb name opt_syslog_facility then t <- syslog_value c false value ;; Ok (upd mf fc o oa id t lv el ll ld)
    else if list_eqb name opt_syslog_ident then _ <- strdup value ;; Ok (upd mf fc o oa value fa lv el ll ld)
    else if list_eqb name opt_syslog_level then t <- syslog_value c true value ;; Ok (upd mf fc o oa id fa t el ll ld)
    else if list_eqb name opt_ds_max then
      n <- byte_length c value (s_hardmin_ds c) (s_hardmax_ds c) (s_default_ds c) ;; Ok (upd mf fc o oa id fa lv el ll n)
    else if list_eqb name opt_log_max then
      n <- byte_length c value (s_hardmin_log c) (s_hardmax_log c) (s_default_log c) ;; Ok (upd mf fc o oa id fa lv el n ld)
    else Ok cf.

  Fixpoint apply_options (cf : cfg) (l : list (list byte * list byte * list byte)) : res cfg :=
    match l with
    | [] => Ok cf
    | t :: l' => cf' <- apply_option cf t ;; apply_options cf' l'
    end.

  Definition load_config (ini : option (list byte)) : res cfg :=
    match ini with
    | None => Ok dflt
    | Some content => st <- ini_parse c (fun _ _ _ => true) content ;; apply_options dflt (rev (i_calls st))
    end.

  (** the data source registry: buffer-level models where there is one, the snprintf shape otherwise *)
  Definition top_ds (name arg : list byte) (buf : arr) (size : N) : res (arr * bool) :=
    if list_eqb name ds_cmdline then r <- cmdline_buf cc buf size (w_file w) (w_argv w) ;; Ok (fst r, false)
    else if list_eqb name ds_env_all then r <- env_all_buf c buf size (w_environ w) ;; Ok (fst r, false)
    else if list_eqb name ds_hostname then r <- hostname_buf buf size (w_host w) (w_errno w) ;; Ok (fst r, false)
    else if list_eqb name ds_login then r <- login_buf c buf size (w_getlogin w) (w_sudo_user w) (w_logname w) ;; Ok (fst r, false)
    else if list_eqb name ds_datetime then
      r <- datetime_buf c buf size (w_strftime w (match arg with [] => w_dt_default w | _ => arg end)) ;; Ok (fst r, false)
    else if list_eqb name ds_cgroup then cgroup_buf c (s_cg_path c) buf size arg (w_pid_text w) (w_cgroup_file w) (w_open_err w)
    else if list_eqb name ds_rpname then
      r <- rpname_buf {| path_cap := s_rp_path c; val_max := s_rp_val_max c; ret_cap := s_rp_ret_cap c |} (w_status w) (w_rp_fuel w) (w_pid w) buf size ;;
      Ok (fst r, false)
    else
      let '(failed, text) := w_other_ds w name arg in
      match text with
      | Some t => r <- ds_snprintf buf size t ;; Ok (fst r, failed)
      | None => Ok (buf, failed)
      end.

  (** the filter registry *)
  Definition top_filter (name arg : list byte) : res bool :=
    if list_eqb name f_only_uid || list_eqb name f_exclude_uid then
      _ <- uid_filter_args c arg ;; Ok (w_filter_verdict w name arg)
    else if list_eqb name f_exclude_spawns_of then
      exclude_spawns_of c (w_procstat w) (w_scan w) (w_proc_fuel w) (w_ppid w) arg
    else Ok (w_filter_verdict w name arg).

  Definition top_gen (log : arr) (bufsize third : N) (fmt : list byte) : res arr :=
    generate_buf c e (w_known_ds w) top_ds log bufsize third fmt.

  Definition dispatch (cf : cfg) (msg : list byte) : res out_event :=
    match msg with
    | [] => Ok OutNone
    | _ =>
      if list_eqb (g_output cf) o_devlog then
        r <- devlog_datagram c top_gen msg (g_ident cf) (w_pri w) (w_pid w) ;;
        Ok (match r with Some d => OutDatagram d | None => OutNone end)
      else if list_eqb (g_output cf) o_file then
        r <- file_line c top_gen msg (g_output_arg cf) ;;
        Ok (match r with Some (p, l) => OutFile p l | None => OutNone end)
      else if list_eqb (g_output cf) o_socket then n <- socket_addr c (g_output_arg cf) ;; Ok (OutSocket n)
      else Ok (OutOther msg)
    end.

  (** snoopy_action_log_syscall_exec after snoopy_init *)
  Definition log_call (ini : option (list byte)) : res call_result :=
    cf <- load_config ini ;;
    pass <- check_chain c (w_known_filter w) top_filter (g_filter_chain cf) ;;
    let bufsize := g_llog cf + s_log_size_adj c in
    log0 <- wr (fresh (g_llog cf + s_log_malloc_adj c)) 0 NUL ;;
    if negb pass then Ok {| r_dropped := true; r_cfg := cf; r_log := log0; r_bufsize := bufsize; r_out := OutNone |} else
    log <- top_gen log0 bufsize (g_lds cf + s_ds_size_adj c) (g_message_format cf) ;;
    (* refused appends raise errors: the handler formats its own buffer and dispatches with error logging switched off *)
    _ <- (if g_error_logging cf then handler c (w_nref w) 4 true lit_refused else Ok true) ;;
    msg <- cstr log 0 ;;
    out <- dispatch cf msg ;;
    Ok {| r_dropped := false; r_cfg := cf; r_log := log; r_bufsize := bufsize; r_out := out |}.
End Top.
