(** Executable entry points of the exclude_spawns_of model for the correspondence run, and the
    boolean form of the C15 specification evaluated on implementation outputs. *)
From Coq Require Import ZArith.
From Snoopy Require Import Lib.CStr Spawns.Model.
Local Open Scope nat_scope.

Fixpoint lookup {A} (l : list (Z * A)) (p : Z) : option A :=
  match l with
  | [] => None
  | (q, a) :: l' => if (q =? p)%Z then Some a else lookup l' p
  end.

(** the filter on a finite table of stat contents; fuel = number of entries + 2 *)
Definition filter_run (c : spawns_consts) (arg : list byte) (self ppid : Z) (tl : list (Z * list byte))
  : res verdict * list Z :=
  let fuel := S (S (length tl)) in
  (filter c (lookup tl) arg self ppid fuel, filter_trace c (lookup tl) arg self ppid fuel).

(** boolean [listed_ancestor] *)
Fixpoint la_b (pt : Z -> option (list byte * Z)) (names : list (list byte)) (p : Z) (fuel : nat) : bool :=
  match fuel with
  | 0 => false
  | S f =>
    if (p =? 0)%Z then false else
    match pt p with
    | None => false
    | Some (comm, pp) => existsb (list_eqb comm) names || la_b pt names pp f
    end
  end.

(** C15 as a checker on an observed verdict: the process table is given abstractly
    (pid -> name, parent; absent = cannot be read), independent of any parsing *)
Definition spec_C15_ok (arg : list byte) (ppid : Z) (pl : list (Z * (list byte * Z))) (observed : verdict) : bool :=
  let want := la_b (lookup pl) (names_of arg) ppid (S (S (length pl))) in
  match observed with DROP => want | PASS => negb want end.

(** the rendering assumption, checked against bytes the kernel produced *)
Definition render_check (pid : Z) (comm : list byte) (st : byte) (ppid : Z) (content : list byte) : bool :=
  prefixb (render_stat pid comm st ppid ++ [SP]) content.
