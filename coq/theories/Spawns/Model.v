(** Model of src/filter/exclude_spawns_of.c, path by path.

    - [token_array]  string_to_token_array: strtok_r on PROGLISTSEP into a calloc'd array of
                     sepcount+1 slots followed by the NULL terminator ([None] = NULL slot)
    - [find_string]  find_string_in_array: strcmp against every slot up to the first NULL
    - [parse_stat]   the body of the loop in find_ancestor_in_list from fread to sscanf
    - [walk]         the loop itself, from the start pid upward while pid <> 0
    - [filter]       snoopy_filter_exclude_spawns_of

    External behaviour: [tree : Z -> option (list byte)], the content of /proc/<pid>/stat
    ([None] = fopen fails).  Pids are [Z] (pid_t = int; "%d").
    Every size, the separator, the parentheses, the two format strings, the start query and the
    shape tests the theorems rely on are fields of [spawns_consts], regenerated from the
    source on every run (Gen_Spawns.v). *)
From Coq Require Import ZArith Strings.String.
From Snoopy Require Import Lib.CStr.
Local Open Scope nat_scope.
Local Open Scope list_scope.

Record spawns_consts := {
  sp_sep          : byte;        (* PROGLISTSEP *)
  sp_strtok_delim_is_sep : bool; (* delim[] = { PROGLISTSEP, '\0' } and strtok_r(p, delim, &saveptr) *)
  sp_comm_max     : N;           (* ST_COMM_SIZE_MAX (st_comm_buf size) *)
  sp_buf_size     : N;           (* ST_BUF_SIZE (st_buf size) *)
  sp_read_adj     : N;           (* fread(st_buf, 1, ST_BUF_SIZE - sp_read_adj, statf) *)
  sp_size_min     : N;           (* ST_SIZE_MIN *)
  sp_path_max     : N;           (* ST_PATH_SIZE_MAX *)
  sp_path_fmt     : list byte;   (* "/proc/%d/stat" *)
  sp_scan_fmt     : list byte;   (* " %c %d" *)
  sp_lparen       : byte;        (* strchr(st_buf, '(') *)
  sp_rparen       : byte;        (* strrchr(st_buf, ')') *)
  sp_left_first   : bool;        (* left found with strchr (first) *)
  sp_right_last   : bool;        (* right found with strrchr (last) *)
  sp_reject_empty : bool;        (* the length window also rejects len = 0 *)
  sp_start_parent : bool;        (* the walk starts at getppid() (false: getpid(), or unrecognised) *)
  sp_loop_while_nonzero : bool;  (* while (ppid != 0) *)
  sp_cmp_exact    : bool;        (* strcmp(str, *p) == 0 *)
  sp_drop_iff_found : bool;      (* return (x == 1) ? DROP : PASS, with the found/notfound/error codes 1/0/-1 *)
  sp_pass : Z; sp_drop : Z       (* SNOOPY_FILTER_PASS / SNOOPY_FILTER_DROP *)
}.

Definition LP := x28.  Definition RP := x29.  Definition PLUS := x2b.  Definition MINUS := x2d.

(** What the theorems need from the constants (checked by computation on Gen). *)
Definition spawns_consts_ok (c : spawns_consts) : bool :=
  beq (sp_sep c) COMMA && sp_strtok_delim_is_sep c
  && beq (sp_lparen c) LP && beq (sp_rparen c) RP && sp_left_first c && sp_right_last c
  && (sp_read_adj c =? 1)%N
  && (16 <=? sp_comm_max c)%N                              (* room for the kernel's TASK_COMM_LEN - 1 = 15 bytes *)
  && (46 + sp_comm_max c <=? sp_buf_size c)%N              (* 20-digit pid, " (", comm, ") ", state, " ", 20-digit ppid, NUL *)
  && (sp_size_min c <=? 8)%N                               (* "1 () S 0" *)
  && (23 <=? sp_path_max c)%N                              (* "/proc/-2147483648/stat" + NUL *)
  && list_eqb (sp_path_fmt c) (bytes "/proc/%d/stat")
  && list_eqb (sp_scan_fmt c) (bytes " %c %d")
  && negb (sp_reject_empty c)
  && sp_start_parent c && sp_loop_while_nonzero c && sp_cmp_exact c && sp_drop_iff_found c
  && negb (Z.eqb (sp_pass c) (sp_drop c)).

(** * small string helpers *)
Fixpoint takewhile (f : byte -> bool) (s : list byte) : list byte :=
  match s with b :: s' => if f b then b :: takewhile f s' else [] | [] => [] end.
Fixpoint dropwhile (f : byte -> bool) (s : list byte) : list byte :=
  match s with b :: s' => if f b then dropwhile f s' else s | [] => [] end.

(** the C string held by a buffer: bytes before the first NUL *)
Definition cstr (s : list byte) : list byte := takewhile (fun b => negb (beq b NUL)) s.

Fixpoint count_byte (c : byte) (s : list byte) : nat :=
  match s with [] => 0 | b :: s' => (if beq b c then 1 else 0) + count_byte c s' end.

Definition is_nil {A} (l : list A) : bool := match l with [] => true | _ => false end.

(** [Z.of_N] / [Z.to_N] under local names (keeps the extracted top-level names of Byte.of_N / Byte.to_N free) *)
Definition z_of_n (n : N) : Z := match n with N0 => Z0 | Npos p => Zpos p end.
Definition n_of_z (z : Z) : N := match z with Zpos p => Npos p | _ => N0 end.
Lemma z_of_n_eq n : z_of_n n = Z.of_N n.  Proof. reflexivity. Qed.
Lemma n_of_z_eq z : n_of_z z = Z.to_N z.  Proof. destruct z; reflexivity. Qed.

Inductive verdict := PASS | DROP.
Inductive wres := Found | NotFound | WError.     (* 1 / 0 / -1 of find_ancestor_in_list *)

Section Spawns.
  Variable c : spawns_consts.

  (** ** string_to_token_array *)
  Definition is_sep (b : byte) : bool := beq b (sp_sep c).

  (** strtok_r(str-or-saveptr, ",", &saveptr): skip delimiters, token up to the next delimiter,
      saveptr after it.  Returns (token or NULL, saveptr). *)
  Fixpoint span_tok (s : list byte) : list byte * list byte :=
    match s with
    | [] => ([], [])
    | b :: s' => if is_sep b then ([], s') else let (t, r) := span_tok s' in (b :: t, r)
    end.
  Definition strtok (s : list byte) : option (list byte) * list byte :=
    match dropwhile is_sep s with
    | [] => (None, [])
    | s1 => let (t, r) := span_tok s1 in (Some t, r)
    end.
  Fixpoint fill (n : nat) (s : list byte) : list (option (list byte)) :=
    match n with 0 => [] | S n' => let (t, r) := strtok s in t :: fill n' r end.

  (** [None] = the function returns NULL (empty argument); otherwise the array:
      token_count = sepcount + 1 slots filled by strtok_r, then token_array[token_count] = NULL *)
  Definition token_array (arg : list byte) : option (list (option (list byte))) :=
    match arg with
    | [] => None
    | _ => Some (fill (S (count_byte (sp_sep c) arg)) arg ++ [None])
    end.

  (** ** find_string_in_array: running past the end of the array would be an out-of-bounds read *)
  Fixpoint find_string (str : list byte) (arr : list (option (list byte))) : res bool :=
    match arr with
    | [] => Fault OOB_read
    | None :: _ => Ok false
    | Some t :: r => if list_eqb str t then Ok true else find_string str r
    end.

  (** ** sscanf(right + 1, " %c %d", &st_state, &ppid)  (glibc: %d goes through strtol and is
      stored as (int) of the saturated long) *)
  Definition to_int32 (v : Z) : Z :=
    let m := (v mod 4294967296)%Z in if (m <? 2147483648)%Z then m else (m - 4294967296)%Z.
  Definition sat_long (v : Z) : Z := Z.max (-9223372036854775808)%Z (Z.min v 9223372036854775807%Z).
  Definition scan_int (s : list byte) : option Z :=
    let '(neg, s1) := match s with
                      | b :: t => if beq b MINUS then (true, t) else if beq b PLUS then (false, t) else (false, s)
                      | [] => (false, [])
                      end in
    match takewhile is_digit s1 with
    | [] => None
    | ds => let v := z_of_n (digits_val ds) in Some (to_int32 (sat_long (if neg then (- v)%Z else v)))
    end.
  Definition scan_c_d (s : list byte) : option (byte * Z) :=
    match dropwhile is_space s with
    | [] => None                                  (* input failure before the first conversion *)
    | st :: s1 => match scan_int (dropwhile is_space s1) with
                  | Some v => Some (st, v)
                  | None => None
                  end
    end.

  (** ** one round of the loop, from fread to sscanf: [Some (comm, ppid)] or [None] = return -1 *)
  Definition parse_stat (content : list byte) : option (list byte * Z) :=
    let raw := takeN (sp_buf_size c - sp_read_adj c) content in      (* fread(st_buf, 1, ST_BUF_SIZE - 1) *)
    if (len raw <? sp_size_min c)%N then None else
    let s := cstr raw in                                              (* st_buf[rc] = 0; string functions stop at a NUL *)
    match index (sp_lparen c) s, rindex (sp_rparen c) s with
    | Some l, Some r =>
      if r <=? l then None                                            (* size_t len wraps to a huge value *)
      else let n := r - l - 1 in
           if (sp_reject_empty c && (n =? 0)) || (sp_comm_max c <=? N.of_nat n)%N then None
           else let comm := firstn n (skipn (S l) s) in
                match scan_c_d (skipn (S r) s) with
                | Some (_, pp) => Some (comm, pp)
                | None => None
                end
    | _, _ => None
    end.

  (** ** the loop *)
  Variable tree : Z -> option (list byte).

  Fixpoint walk (arr : list (option (list byte))) (p : Z) (fuel : nat) : res wres :=
    match fuel with
    | 0 => Fault Out_of_fuel
    | S f =>
      if (p =? 0)%Z then Ok NotFound else
      match tree p with
      | None => Ok WError
      | Some content =>
        match parse_stat content with
        | None => Ok WError
        | Some (comm, pp) =>
          match find_string comm arr with
          | Fault e => Fault e
          | Ok true => Ok Found
          | Ok false => walk arr pp f
          end
        end
      end
    end.

  (** pids whose stat file the loop opens, in order (observable in the correspondence) *)
  Fixpoint walk_trace (arr : list (option (list byte))) (p : Z) (fuel : nat) : list Z :=
    match fuel with
    | 0 => []
    | S f =>
      if (p =? 0)%Z then [] else
      p :: match tree p with
           | None => []
           | Some content =>
             match parse_stat content with
             | None => []
             | Some (comm, pp) =>
               match find_string comm arr with
               | Ok false => walk_trace arr pp f
               | _ => []
               end
             end
           end
    end.

  Definition start_pid (self ppid : Z) : Z := if sp_start_parent c then ppid else self.

  (** ** snoopy_filter_exclude_spawns_of *)
  Definition filter (arg : list byte) (self ppid : Z) (fuel : nat) : res verdict :=
    match token_array arg with
    | None => Ok PASS
    | Some arr =>
      match walk arr (start_pid self ppid) fuel with
      | Fault e => Fault e
      | Ok Found => Ok DROP
      | Ok _ => Ok PASS
      end
    end.
  Definition filter_trace (arg : list byte) (self ppid : Z) (fuel : nat) : list Z :=
    match token_array arg with
    | None => []
    | Some arr => walk_trace arr (start_pid self ppid) fuel
    end.
End Spawns.

(** * the kernel's rendering of the head of /proc/<pid>/stat: "%d (%s) %c %d" (fs/proc/array.c do_task_stat) *)
Definition render_stat (pid : Z) (comm : list byte) (st : byte) (ppid : Z) : list byte :=
  dec (n_of_z pid) ++ [SP; LP] ++ comm ++ [RP; SP] ++ [st] ++ [SP] ++ dec (n_of_z ppid).

(** * Specification layer: no buffers, no parsing *)
(** the listed names: the non-empty fields of the argument *)
Definition names_of (arg : list byte) : list (list byte) :=
  List.filter (fun t => negb (is_nil t)) (split_on COMMA arg).

(** [pt p] = what can be read about process [p]: its name and its parent ([None] = unreadable).
    [listed_ancestor pt names p]: walking up from [p] through readable processes meets one whose
    name is listed, before meeting an unreadable one or pid 0. *)
Inductive listed_ancestor (pt : Z -> option (list byte * Z)) (names : list (list byte)) : Z -> Prop :=
| la_here : forall p comm pp, p <> 0%Z -> pt p = Some (comm, pp) -> In comm names -> listed_ancestor pt names p
| la_up   : forall p comm pp, p <> 0%Z -> pt p = Some (comm, pp) -> listed_ancestor pt names pp -> listed_ancestor pt names p.

(** the parent relation and its transitive closure *)
Inductive anc (pt : Z -> option (list byte * Z)) : Z -> Z -> Prop :=
| anc_step  : forall p comm pp, p <> 0%Z -> pt p = Some (comm, pp) -> anc pt p pp
| anc_trans : forall p q r, anc pt p q -> anc pt q r -> anc pt p r.
Definition acyclic (pt : Z -> option (list byte * Z)) : Prop := forall p, ~ anc pt p p.
