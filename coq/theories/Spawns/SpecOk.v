(** The boolean checker [spec_C15_ok] that the correspondence run evaluates on implementation verdicts
    decides the specification [listed_ancestor] on every finite acyclic process table. *)
From Coq Require Import ZArith.
From Snoopy Require Import Lib.CStr Spawns.Model Spawns.Exec Spawns.Tokens Spawns.Stat Spawns.Walk.
Local Open Scope nat_scope.

Lemma la_b_walkn pt names fuel : forall p,
  la_b pt names p fuel = match walkn pt names p fuel with Ok Found => true | _ => false end.
Proof.
  induction fuel as [|f IH]; intros p; [reflexivity|]. cbn [la_b walkn].
  destruct (p =? 0)%Z; [reflexivity|]. destruct (pt p) as [[comm pp]|]; [|reflexivity].
  destruct (existsb (list_eqb comm) names); [reflexivity|]. cbn [orb]. apply IH.
Qed.

Lemma lookup_dom {A} (pl : list (Z * A)) p : lookup pl p <> None -> In p (map fst pl).
Proof.
  induction pl as [|[q a] pl IH]; cbn; [congruence|].
  destruct (q =? p)%Z eqn:E; [apply Z.eqb_eq in E; now left|]. intros H; right; now apply IH.
Qed.

Theorem spec_C15_ok_correct arg ppid pl v : acyclic (lookup pl) ->
  (spec_C15_ok arg ppid pl v = true <-> (v = DROP <-> listed_ancestor (lookup pl) (names_of arg) ppid)).
Proof.
  intros AC. unfold spec_C15_ok. rewrite la_b_walkn.
  pose proof (walkn_terminates (lookup pl) (names_of arg) (map fst pl) (lookup_dom pl) AC ppid (S (S (length pl)))) as T.
  rewrite map_length in T. specialize (T ltac:(lia)).
  destruct (walkn (lookup pl) (names_of arg) ppid (S (S (length pl)))) as [r|e] eqn:E.
  - assert (F : r = Found <-> listed_ancestor (lookup pl) (names_of arg) ppid).
    { split.
      - intros ->. eapply walkn_sound; eauto.
      - intros L. destruct (walkn_complete _ _ _ L (S (S (length pl)))) as [H|H]; rewrite H in E; congruence. }
    destruct r, v; cbn; intuition (try discriminate; try congruence).
  - exfalso. apply T. f_equal. eapply walkn_fault; eauto.
Qed.
