(** The stat round trip: [parse_stat] (the fread / strchr / strrchr / length window / sscanf path of
    find_ancestor_in_list) recovers name and parent from the kernel's rendering of the head of
    /proc/<pid>/stat, for every name the window admits (parentheses, spaces, any non-NUL byte),
    and whatever follows and wherever the read cuts it.  Stdlib only. *)
From Coq Require Import ZArith.
From Snoopy Require Import Lib.CStr Spawns.Model.
Local Open Scope nat_scope.

Lemma consts_ok_inv c : spawns_consts_ok c = true ->
  sp_sep c = COMMA /\ sp_lparen c = LP /\ sp_rparen c = RP /\ sp_read_adj c = 1%N /\ (16 <= sp_comm_max c)%N
  /\ (46 + sp_comm_max c <= sp_buf_size c)%N /\ (sp_size_min c <= 8)%N /\ sp_reject_empty c = false /\ sp_start_parent c = true.
Proof.
  unfold spawns_consts_ok. rewrite !andb_true_iff, !negb_true_iff. intros H.
  repeat match goal with H : _ /\ _ |- _ => destruct H end.
  repeat match goal with H : beq _ _ = true |- _ => apply beq_eq in H end.
  repeat match goal with H : (_ <=? _)%N = true |- _ => apply N.leb_le in H end.
  repeat match goal with H : (_ =? _)%N = true |- _ => apply N.eqb_eq in H end.
  repeat split; assumption.
Qed.

(** * decimal rendering *)
Definition isdig (b : byte) : Prop := is_digit b = true.
Definition dv (a : N) (ds : list byte) : N := fold_left (fun acc d => (acc * 10 + digit_val d)%N) ds a.

Lemma digit_byte_spec d : (d < 10)%N -> isdig (digit_byte d) /\ digit_val (digit_byte d) = d.
Proof.
  intros H.
  assert (C : (d = 0 \/ d = 1 \/ d = 2 \/ d = 3 \/ d = 4 \/ d = 5 \/ d = 6 \/ d = 7 \/ d = 8 \/ d = 9)%N) by lia.
  do 9 (destruct C as [C|C]; [subst; split; reflexivity|]). subst; split; reflexivity.
Qed.

Lemma dec_aux_spec f : forall n acc, (n < 2 ^ N.of_nat f)%N ->
  exists ds, dec_aux f n acc = ds ++ acc /\ Forall isdig ds /\ dv 0 ds = n /\ (f <> 0 -> ds <> [])
             /\ (forall m, 1 <= m -> (n < 10 ^ N.of_nat m)%N -> length ds <= m).
Proof.
  induction f as [|f IH]; intros n acc Hn.
  - exists []. cbn in Hn. assert (n = 0%N) by lia. subst. repeat split; try constructor; try congruence. intros; cbn; lia.
  - cbn [dec_aux]. assert (Hm : (n mod 10 < 10)%N) by (apply N.mod_lt; lia).
    destruct (digit_byte_spec _ Hm) as [D1 D2].
    destruct (n <? 10)%N eqn:E.
    + apply N.ltb_lt in E. exists [digit_byte (n mod 10)]. repeat split.
      * constructor; [assumption|constructor].
      * cbn. rewrite D2. rewrite N.mod_small by assumption. reflexivity.
      * discriminate.
      * intros; cbn; lia.
    + apply N.ltb_ge in E.
      assert (Hd : (n / 10 < 2 ^ N.of_nat f)%N).
      { apply N.div_lt_upper_bound; [lia|]. rewrite Nat2N.inj_succ, N.pow_succ_r' in Hn. lia. }
      destruct (IH (n / 10)%N (digit_byte (n mod 10) :: acc) Hd) as [ds [E1 [E2 [E3 [_ E5]]]]].
      exists (ds ++ [digit_byte (n mod 10)]). repeat split.
      * rewrite E1, <- app_assoc. reflexivity.
      * apply Forall_app. split; [assumption|constructor; [assumption|constructor]].
      * unfold dv in *. rewrite fold_left_app, E3. cbn. rewrite D2.
        rewrite (N.div_mod n 10) at 3 by lia. lia.
      * intros _ F. apply app_eq_nil in F as [_ F]. discriminate.
      * intros m Hm1 Hm2. rewrite app_length. cbn [length].
        destruct m as [|[|m]]; [lia| cbn in Hm2; lia |].
        assert (length ds <= S m); [|lia]. apply E5; [lia|].
        apply N.div_lt_upper_bound; [lia|]. rewrite (Nat2N.inj_succ (S m)), N.pow_succ_r' in Hm2. exact Hm2.
Qed.

Lemma dec_spec n : exists ds, dec n = ds /\ Forall isdig ds /\ ds <> [] /\ digits_val ds = n
                               /\ (forall m, 1 <= m -> (n < 10 ^ N.of_nat m)%N -> length ds <= m).
Proof.
  unfold dec.
  assert (Hn : (n < 2 ^ N.of_nat (S (N.to_nat (N.log2 n))))%N).
  { rewrite Nat2N.inj_succ, N2Nat.id. destruct n as [|p]; [cbn; lia|]. apply N.log2_spec. lia. }
  destruct (dec_aux_spec _ n [] Hn) as [ds [E1 [E2 [E3 [E4 E5]]]]]. rewrite app_nil_r in E1.
  exists ds. repeat split; try assumption. apply E4. discriminate.
Qed.

Lemma dec_digits n : Forall isdig (dec n).
Proof. destruct (dec_spec n) as [ds [-> [H _]]]. exact H. Qed.
Lemma dec_nonnil n : dec n <> [].
Proof. destruct (dec_spec n) as [ds [-> [_ [H _]]]]. exact H. Qed.
Lemma dec_val n : digits_val (dec n) = n.
Proof. destruct (dec_spec n) as [ds [-> [_ [_ [H _]]]]]. exact H. Qed.
Lemma dec_len n m : 1 <= m -> (n < 10 ^ N.of_nat m)%N -> length (dec n) <= m.
Proof. destruct (dec_spec n) as [ds [-> [_ [_ [_ H]]]]]. apply H. Qed.

(** * byte facts (by enumeration) *)
Lemma digit_facts b : isdig b -> is_space b = false /\ beq b MINUS = false /\ beq b PLUS = false /\ b <> LP /\ b <> RP /\ b <> NUL /\ b <> SP.
Proof. unfold isdig. destruct b; vm_compute; intros H; try discriminate H; repeat split; congruence. Qed.

(** * list helpers *)
Lemma takewhile_app_all f a b : Forall (fun x => f x = true) a -> takewhile f (a ++ b) = a ++ takewhile f b.
Proof. induction 1 as [|x a Hx _ IH]; [reflexivity|]. cbn. now rewrite Hx, IH. Qed.
Lemma takewhile_sub f s x : In x (takewhile f s) -> In x s.
Proof. induction s as [|b s IH]; cbn; [tauto|]. destruct (f b); cbn; [|tauto]. intros [H|H]; [now left|right; now apply IH]. Qed.

Definition nodigit_head (s : list byte) : Prop := match s with [] => True | b :: _ => is_digit b = false end.
Lemma takewhile_digits ds r : Forall isdig ds -> nodigit_head r -> takewhile is_digit (ds ++ r) = ds.
Proof.
  intros H1 H2. rewrite takewhile_app_all by exact H1.
  destruct r as [|b r]; cbn; [now rewrite app_nil_r|]. cbn in H2. rewrite H2. now rewrite app_nil_r.
Qed.

Lemma index_app_notin ch x y : ~ In ch x -> index ch (x ++ ch :: y) = Some (length x).
Proof.
  induction x as [|b x IH]; intros H; cbn [app index length].
  - now rewrite beq_refl.
  - assert (E : beq b ch = false) by (apply beq_neq; intros ->; apply H; now left).
    rewrite E, IH by (intros F; apply H; now right). reflexivity.
Qed.
Lemma rindex_app_notin ch x y : ~ In ch y -> rindex ch (x ++ ch :: y) = Some (length x).
Proof.
  intros H. unfold rindex. rewrite rev_app_distr. cbn [rev]. rewrite <- app_assoc. cbn [app].
  rewrite index_app_notin by (rewrite <- in_rev; exact H).
  rewrite rev_length, app_length. cbn [length]. f_equal. lia.
Qed.
Lemma firstn_app_ge {A} n (a b : list A) : length a <= n -> firstn n (a ++ b) = a ++ firstn (n - length a) b.
Proof. intros H. rewrite firstn_app, firstn_all2 by lia. reflexivity. Qed.
Lemma skipn_app_exact {A} (a b : list A) n : n = length a -> skipn n (a ++ b) = b.
Proof. intros ->. rewrite skipn_app, skipn_all, Nat.sub_diag. reflexivity. Qed.
Lemma firstn_app_exact {A} (a b : list A) n : n = length a -> firstn n (a ++ b) = a.
Proof. intros ->. rewrite firstn_app, firstn_all, Nat.sub_diag. cbn. now rewrite app_nil_r. Qed.

Lemma nodigit_head_vis k rest : nodigit_head rest -> nodigit_head (cstr (firstn k rest)).
Proof.
  destruct rest as [|b r]; [now rewrite firstn_nil|]. destruct k; [exact (fun _ => I)|].
  cbn. intros H. destruct (negb (beq b NUL)); cbn; [exact H|exact I].
Qed.
Lemma notin_vis ch k rest : ~ In ch rest -> ~ In ch (cstr (firstn k rest)).
Proof. intros H F. apply H. apply takewhile_sub in F. eapply In_firstn; eauto. Qed.

(** * the value stored by %d for a parent pid in the range of pid_t *)
Lemma int_value v : (0 <= v < 2147483648)%Z -> to_int32 (sat_long v) = v.
Proof.
  intros H. unfold to_int32, sat_long.
  rewrite Z.min_l, Z.max_r by lia. rewrite Z.mod_small by lia.
  destruct (v <? 2147483648)%Z eqn:E; [reflexivity|]. apply Z.ltb_ge in E. lia.
Qed.

Section Roundtrip.
  Variable c : spawns_consts.
  Hypothesis OK : spawns_consts_ok c = true.

  (** what the loop body sees of the continuation: the part inside the read window, up to a NUL *)
  Definition visible (headlen : nat) (rest : list byte) : list byte :=
    cstr (firstn (N.to_nat (sp_buf_size c - 1) - headlen) rest).

  (** the general form, over the pieces of the head: any decimal strings as first field and parent *)
  Lemma parse_pieces D1 comm st D2 rest :
    Forall isdig D1 -> Forall isdig D2 -> D2 <> [] ->
    nonul comm -> (N.of_nat (length comm) < sp_comm_max c)%N ->
    is_space st = false -> st <> NUL -> st <> RP ->
    let head := D1 ++ [SP; LP] ++ comm ++ [RP; SP] ++ [st] ++ [SP] ++ D2 in
    length head <= N.to_nat (sp_buf_size c - 1) -> 8 <= length head ->
    ~ In RP (visible (length head) rest) -> nodigit_head (visible (length head) rest) ->
    parse_stat c (head ++ rest) = Some (comm, to_int32 (sat_long (z_of_n (digits_val D2)))).
  Proof.
    intros HD1 HD2 ND2 NUc Lc Sst Nst Rst head Hfit Hmin HR HN.
    destruct (consts_ok_inv c OK) as [_ [ELP [ERP [EADJ [_ [_ [EMIN [EREJ _]]]]]]]].
    unfold parse_stat. rewrite EADJ, ELP, ERP, EREJ. unfold takeN.
    rewrite firstn_app_ge by exact Hfit.
    set (R := firstn (N.to_nat (sp_buf_size c - 1) - length head) rest) in *.
    (* size test *)
    assert (Hlen : (len (head ++ R) <? sp_size_min c)%N = false).
    { apply N.ltb_ge. unfold len. rewrite app_length. lia. }
    rewrite Hlen.
    (* the C string *)
    assert (Hnonul : Forall (fun x => negb (beq x NUL) = true) head).
    { unfold head. repeat (apply Forall_app; split); repeat constructor;
        try (apply negb_true_iff, beq_neq; congruence).
      - eapply Forall_impl; [|exact HD1]. intros a Ha. apply negb_true_iff, beq_neq. destruct (digit_facts a Ha) as (_ & _ & _ & _ & _ & H6 & _). exact H6.
      - apply Forall_forall. intros a Ha. apply negb_true_iff, beq_neq. intros ->. apply NUc. exact Ha.
      - eapply Forall_impl; [|exact HD2]. intros a Ha. apply negb_true_iff, beq_neq. destruct (digit_facts a Ha) as (_ & _ & _ & _ & _ & H6 & _). exact H6. }
    change (cstr R) with (visible (length head) rest) in *.
    set (V := visible (length head) rest) in *.
    assert (Ecs : cstr (head ++ R) = head ++ V).
    { unfold cstr at 1. rewrite takewhile_app_all by exact Hnonul. reflexivity. }
    cbv zeta. rewrite !Ecs.
    (* regroup around the two parentheses *)
    set (A := D1 ++ [SP]).
    set (B := [SP; st; SP] ++ D2 ++ V).
    assert (Es : head ++ V = A ++ LP :: (comm ++ RP :: B)).
    { unfold head, A, B. rewrite <- !app_assoc. reflexivity. }
    assert (Es2 : head ++ V = (A ++ LP :: comm) ++ RP :: B).
    { rewrite Es. rewrite <- app_assoc. reflexivity. }
    assert (NA : ~ In LP A).
    { unfold A. rewrite in_app_iff. intros [F|[F|[]]]; [|discriminate].
      rewrite Forall_forall in HD1. destruct (digit_facts _ (HD1 _ F)) as (_ & _ & _ & H4 & _). apply H4. reflexivity. }
    assert (NB : ~ In RP B).
    { unfold B. cbn [app]. intros [F|[F|[F|F]]]; try discriminate; [congruence|].
      apply in_app_iff in F as [F|F]; [|contradiction].
      rewrite Forall_forall in HD2. destruct (digit_facts _ (HD2 _ F)) as (_ & _ & _ & _ & H5 & _). apply H5. reflexivity. }
    set (S0 := A ++ LP :: (comm ++ RP :: B)) in *.
    assert (I1 : index LP S0 = Some (length A)) by (apply index_app_notin; exact NA).
    assert (I2 : rindex RP S0 = Some (length A + S (length comm))).
    { unfold S0. replace (A ++ LP :: comm ++ RP :: B) with ((A ++ LP :: comm) ++ RP :: B) by (rewrite <- app_assoc; reflexivity).
      rewrite (rindex_app_notin RP _ B NB), app_length. reflexivity. }
    assert (K1 : firstn (length comm) (skipn (S (length A)) S0) = comm).
    { unfold S0. replace (A ++ LP :: comm ++ RP :: B) with ((A ++ [LP]) ++ comm ++ RP :: B) by (rewrite <- app_assoc; reflexivity).
      rewrite (skipn_app_exact (A ++ [LP])) by (rewrite app_length; change (length [LP]) with 1; lia).
      apply firstn_app_exact. reflexivity. }
    assert (K2 : skipn (S (length A + S (length comm))) S0 = B).
    { unfold S0. replace (A ++ LP :: comm ++ RP :: B) with (((A ++ LP :: comm) ++ [RP]) ++ B) by (rewrite <- !app_assoc; reflexivity).
      apply skipn_app_exact. rewrite !app_length. change (length [RP]) with 1. change (length (LP :: comm)) with (S (length comm)). lia. }
    rewrite !Es. rewrite I1, I2.
    replace (length A + S (length comm) <=? length A) with false by (symmetry; apply Nat.leb_gt; lia).
    replace (length A + S (length comm) - length A - 1) with (length comm) by lia.
    cbn [andb orb].
    replace (sp_comm_max c <=? N.of_nat (length comm))%N with false by (symmetry; apply N.leb_gt; exact Lc).
    rewrite K1, K2.
    unfold B, scan_c_d. cbn [app dropwhile].
    replace (is_space SP) with true by reflexivity. rewrite Sst. cbn [dropwhile].
    replace (is_space SP) with true by reflexivity.
    destruct D2 as [|d D2']; [congruence|]. cbn [app dropwhile].
    assert (Hd : isdig d) by (inversion HD2; assumption).
    destruct (digit_facts d Hd) as [F1 [F2 [F3 _]]]. rewrite F1.
    unfold scan_int. rewrite F2, F3.
    change (d :: D2' ++ V) with ((d :: D2') ++ V). rewrite (takewhile_digits _ _ HD2 HN).
    reflexivity.
  Qed.
End Roundtrip.

Section RoundtripRender.
  Variable c : spawns_consts.
  Hypothesis OK : spawns_consts_ok c = true.

  (** state letters and such: one byte that is neither white space, NUL nor ')' *)
  Definition state_ok (st : byte) : Prop := is_space st = false /\ st <> NUL /\ st <> RP.

  Lemma render_fits pid comm st ppid :
    (0 <= pid < 10 ^ 20)%Z -> (0 <= ppid < 2147483648)%Z -> (N.of_nat (length comm) < sp_comm_max c)%N ->
    8 <= length (render_stat pid comm st ppid) <= N.to_nat (sp_buf_size c - 1).
  Proof.
    intros Hp Hpp Hc. destruct (consts_ok_inv c OK) as (_ & _ & _ & _ & _ & HB & _).
    unfold render_stat. rewrite !app_length. cbn [length].
    assert (L1 : length (dec (n_of_z pid)) <= 20).
    { apply dec_len; [lia|]. rewrite n_of_z_eq. change (10 ^ N.of_nat 20)%N with (Z.to_N (10 ^ 20)). lia. }
    assert (L2 : length (dec (n_of_z ppid)) <= 10).
    { apply dec_len; [lia|]. rewrite n_of_z_eq. change (10 ^ N.of_nat 10)%N with (Z.to_N 10000000000). lia. }
    pose proof (dec_nonnil (n_of_z pid)) as N1. pose proof (dec_nonnil (n_of_z ppid)) as N2.
    destruct (dec (n_of_z pid)); [congruence|]. destruct (dec (n_of_z ppid)); [congruence|]. cbn [length] in *. lia.
  Qed.

  (** C15_stat_roundtrip, general form: every pid of up to 20 digits, every parent in the range of pid_t,
      every name of 0 .. ST_COMM_SIZE_MAX-1 non-NUL bytes, every state byte, every continuation: as long as
      the part of the continuation that the loop sees (inside the ST_BUF_SIZE-1 window, before a NUL)
      holds no ')' and does not begin with a digit. *)
  Theorem stat_roundtrip_visible pid comm st ppid rest :
    (0 <= pid < 10 ^ 20)%Z -> (0 <= ppid < 2147483648)%Z ->
    nonul comm -> (N.of_nat (length comm) < sp_comm_max c)%N -> state_ok st ->
    let head := render_stat pid comm st ppid in
    ~ In RP (visible c (length head) rest) -> nodigit_head (visible c (length head) rest) ->
    parse_stat c (head ++ rest) = Some (comm, ppid).
  Proof.
    intros Hp Hpp NU Lc [S1 [S2 S3]] head HR HN.
    pose proof (render_fits pid comm st ppid Hp Hpp Lc) as [F1 F2].
    unfold head, render_stat in *.
    rewrite (parse_pieces c OK (dec (n_of_z pid)) comm st (dec (n_of_z ppid)) rest); try assumption.
    - rewrite dec_val, z_of_n_eq, n_of_z_eq, Z2N.id by lia. now rewrite int_value.
    - apply dec_digits.
    - apply dec_digits.
    - apply dec_nonnil.
  Qed.

  (** wherever the read cuts the continuation: a continuation without ')' that does not begin with a digit
      (the kernel continues with " <pgrp> <session> ...": digits, spaces, '-') never disturbs the result *)
  Theorem stat_roundtrip pid comm st ppid rest :
    (0 <= pid < 10 ^ 20)%Z -> (0 <= ppid < 2147483648)%Z ->
    nonul comm -> (N.of_nat (length comm) < sp_comm_max c)%N -> state_ok st ->
    ~ In RP rest -> nodigit_head rest ->
    parse_stat c (render_stat pid comm st ppid ++ rest) = Some (comm, ppid).
  Proof.
    intros. apply stat_roundtrip_visible; try assumption.
    - now apply notin_vis.
    - now apply nodigit_head_vis.
  Qed.
End RoundtripRender.
