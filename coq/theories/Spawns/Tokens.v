(** string_to_token_array / find_string_in_array: the array built by the strtok_r loop holds exactly
    the non-empty comma-separated fields of the argument, in order, followed by NULL slots; the lookup
    is exact equality with one of them.  Stdlib only. *)
From Coq Require Import ZArith.
From Snoopy Require Import Lib.CStr Spawns.Model.
Local Open Scope nat_scope.

Definition ne (l : list (list byte)) : list (list byte) := List.filter (fun t => negb (is_nil t)) l.

Section Tokens.
  Variable c : spawns_consts.

  Lemma split_on_cons_sep b s : beq b (sp_sep c) = true -> split_on (sp_sep c) (b :: s) = [] :: split_on (sp_sep c) s.
  Proof. intros H. cbn [split_on]. now rewrite H. Qed.

  Lemma split_on_cons_nonsep b s : beq b (sp_sep c) = false ->
    exists f fs, split_on (sp_sep c) s = f :: fs /\ split_on (sp_sep c) (b :: s) = (b :: f) :: fs.
  Proof.
    intros H. cbn [split_on]. rewrite H. pose proof (split_on_nonnil (sp_sep c) s) as NN.
    destruct (split_on (sp_sep c) s) as [|f fs]; [congruence|]. now exists f, fs.
  Qed.

  Lemma ne_dropwhile s : ne (split_on (sp_sep c) (dropwhile (is_sep c) s)) = ne (split_on (sp_sep c) s).
  Proof.
    induction s as [|b s IH]; [reflexivity|]. cbn [dropwhile]. unfold is_sep at 1. 
    destruct (beq b (sp_sep c)) eqn:E; [|reflexivity].
    rewrite (split_on_cons_sep _ _ E). cbn. exact IH.
  Qed.

  Lemma span_tok_spec s : forall t r, span_tok c s = (t, r) ->
    ne (split_on (sp_sep c) s) = ne (t :: split_on (sp_sep c) r) /\ (forall b s', s = b :: s' -> is_sep c b = false -> t <> []).
  Proof.
    induction s as [|b s IH]; intros t r; cbn [span_tok].
    - intros H; injection H as <- <-. split; [reflexivity|intros; discriminate].
    - unfold is_sep at 1.  destruct (beq b (sp_sep c)) eqn:E.
      + intros H; injection H as <- <-. rewrite (split_on_cons_sep _ _ E). split; [reflexivity|].
        intros b' s' H1 H2. injection H1 as <- <-. unfold is_sep in H2.  congruence.
      + destruct (span_tok c s) as [t' r'] eqn:Es. intros H; injection H as <- <-.
        destruct (IH t' r' eq_refl) as [IH1 _].
        destruct (split_on_cons_nonsep _ s E) as [f [fs [E1 E2]]]. rewrite E2. split; [|intros; discriminate].
        rewrite E1 in IH1. cbn in IH1 |- *. destruct f as [|x f]; destruct t' as [|y t']; cbn in IH1 |- *.
        * rewrite IH1. reflexivity.
        * (* f = [] but t' non-empty: first field of s is empty while the token is not *)
          (* ne (fs) = (y::t') :: ne (split r')  *)
          rewrite IH1. (* goal: [b] :: (y :: t') :: ... = (b :: y :: t') :: ... impossible unless we look closer *)
          exfalso. clear IH1 E2.
          (* split_on (sp_sep c) s = [] :: fs means s starts with (sp_sep c) or is empty; then span_tok s = ([], _) *)
          destruct s as [|a s]; cbn in Es; [congruence|]. unfold is_sep in Es. 
          destruct (beq a (sp_sep c)) eqn:Ea; [congruence|].
          destruct (split_on_cons_nonsep _ s Ea) as [g [gs [_ G2]]]. rewrite G2 in E1. discriminate.
        * exfalso. clear E2.
          destruct s as [|a s]; cbn in E1; [discriminate|].
          cbn in Es. unfold is_sep in Es. 
          destruct (beq a (sp_sep c)) eqn:Ea; [discriminate|].
          destruct (span_tok c s) as [t2 r2]. congruence.
        * injection IH1 as -> -> ->. reflexivity.
  Qed.
End Tokens.

Section Tokens2.
  Variable c : spawns_consts.

  Lemma dropwhile_head s b s' : dropwhile (is_sep c) s = b :: s' -> is_sep c b = false.
  Proof.
    induction s as [|a s IH]; cbn [dropwhile]; [discriminate|].
    destruct (is_sep c a) eqn:E; [exact IH|]. intros H; injection H as <- <-. exact E.
  Qed.

  (** one strtok_r call: NULL iff no non-empty field is left; otherwise the first non-empty field,
      and the save pointer holds the remaining fields *)
  Lemma strtok_spec s :
    match strtok c s with
    | (None, r) => ne (split_on (sp_sep c) s) = [] /\ r = []
    | (Some t, r) => ne (split_on (sp_sep c) s) = t :: ne (split_on (sp_sep c) r)
    end.
  Proof.
    unfold strtok. rewrite <- (ne_dropwhile c s). 
    destruct (dropwhile (is_sep c) s) as [|b s1] eqn:E; [split; reflexivity|].
    destruct (span_tok c (b :: s1)) as [t r] eqn:Es.
    destruct (span_tok_spec c _ _ _ Es) as [H1 H2].  rewrite H1.
    specialize (H2 b s1 eq_refl (dropwhile_head _ _ _ E)).
    destruct t; [congruence|reflexivity].
  Qed.

  Lemma fill_spec n : forall s,
    fill c n s = map Some (firstn n (ne (split_on (sp_sep c) s))) ++ repeat None (n - length (ne (split_on (sp_sep c) s))).
  Proof.
    induction n as [|n IH]; intros s; [reflexivity|]. cbn [fill].
    pose proof (strtok_spec s) as H. destruct (strtok c s) as [[t|] r].
    - rewrite H. cbn [firstn map length Nat.sub app]. rewrite IH. reflexivity.
    - destruct H as [H ->]. rewrite H. cbn [firstn map length Nat.sub app]. rewrite IH.
      cbn. rewrite firstn_nil. cbn. now rewrite Nat.sub_0_r.
  Qed.

  Lemma split_on_length s : length (split_on (sp_sep c) s) = S (count_byte (sp_sep c) s).
  Proof.
    induction s as [|b s IH]; [reflexivity|]. cbn [split_on count_byte].
    destruct (beq b (sp_sep c)) eqn:E; cbn [length]; [now rewrite IH|].
    pose proof (split_on_nonnil (sp_sep c) s). destruct (split_on (sp_sep c) s) as [|f fs]; [congruence|]. cbn [length] in *. lia.
  Qed.
  Lemma ne_length l : length (ne l) <= length l.
  Proof. unfold ne. induction l as [|a l IH]; cbn; [lia|]. destruct (negb (is_nil a)); cbn; lia. Qed.

  (** the array: all non-empty fields, then only NULL slots, at least one *)
  Theorem token_array_spec arg : arg <> [] ->
    exists k, token_array c arg = Some (map Some (ne (split_on (sp_sep c) arg)) ++ repeat None (S k)).
  Proof.
    intros NE. unfold token_array. destruct arg as [|b arg]; [congruence|].
    rewrite fill_spec. 
    pose proof (ne_length (split_on (sp_sep c) (b :: arg))) as L. rewrite split_on_length in L.
    rewrite firstn_all2 by lia.
    exists (S (count_byte (sp_sep c) (b :: arg)) - length (ne (split_on (sp_sep c) (b :: arg)))).
    rewrite <- app_assoc. do 2 f_equal.
    replace [@None (list byte)] with (repeat (@None (list byte)) 1) by reflexivity.
    rewrite <- repeat_app. f_equal. lia.
  Qed.

  Lemma find_string_spec str ts k :
    find_string str (map Some ts ++ repeat None (S k)) = Ok (existsb (list_eqb str) ts).
  Proof.
    induction ts as [|t ts IH]; [reflexivity|]. cbn [map app find_string existsb].
    destruct (list_eqb str t); [reflexivity|]. exact IH.
  Qed.
End Tokens2.

(** the argument read as a list: when the separator is the comma, the tokens are [names_of arg] *)
Lemma names_of_ne arg : names_of arg = ne (split_on COMMA arg).
Proof. reflexivity. Qed.

Lemma existsb_list_eqb_In s l : existsb (list_eqb s) l = true <-> In s l.
Proof.
  rewrite existsb_exists. split.
  - intros [x [H E]]. apply list_eqb_eq in E. now subst.
  - intros H. exists s. split; [assumption|apply list_eqb_refl].
Qed.

(** [split_on] inverts [join] on separator-free items *)
Lemma split_on_app_nosep c x s : ~ In c x ->
  split_on c (x ++ c :: s) = x :: split_on c s.
Proof.
  induction x as [|b x IH]; intros H; cbn [app split_on].
  - now rewrite beq_refl.
  - assert (E : beq b c = false) by (apply beq_neq; intros ->; apply H; now left).
    rewrite E. rewrite IH by (intros F; apply H; now right). reflexivity.
Qed.
Lemma split_on_nosep c x : ~ In c x -> split_on c x = [x].
Proof.
  induction x as [|b x IH]; intros H; cbn [split_on]; [reflexivity|].
  assert (E : beq b c = false) by (apply beq_neq; intros ->; apply H; now left).
  rewrite E, IH by (intros F; apply H; now right). reflexivity.
Qed.
Lemma split_on_join c (l : list (list byte)) : l <> [] -> (forall x, In x l -> ~ In c x) ->
  split_on c (join [c] l) = l.
Proof.
  induction l as [|x l IH]; intros NE H; [congruence|].
  destruct l as [|y l].
  - cbn [join]. apply split_on_nosep. apply H. now left.
  - rewrite join_cons2. cbn [app]. rewrite split_on_app_nosep by (apply H; now left).
    rewrite IH; [reflexivity|discriminate|]. intros z Hz. apply H. now right.
Qed.

(** a list of names (comma-free, possibly with empty items and duplicates) written as an argument
    lists exactly its non-empty items *)
Theorem names_of_join (l : list (list byte)) : (forall x, In x l -> ~ In COMMA x) ->
  names_of (join [COMMA] l) = ne l.
Proof.
  intros H. destruct l as [|x l]; [reflexivity|].
  rewrite names_of_ne, split_on_join; [reflexivity|discriminate|exact H].
Qed.
Lemma In_ne x l : In x (ne l) <-> In x l /\ x <> [].
Proof.
  unfold ne. rewrite filter_In. split; intros [H1 H2]; split; try assumption.
  - intros ->. discriminate.
  - destruct x; [congruence|reflexivity].
Qed.
