(** The walk and the filter: drop exactly when walking up from the parent meets a readable process
    with a listed name before an unreadable one or pid 0; errors pass; the caller's own entry is never
    consulted; fuel = number of stat files + 1 suffices on acyclic trees.  Stdlib only. *)
From Coq Require Import ZArith.
From Snoopy Require Import Lib.CStr Spawns.Model Spawns.Tokens Spawns.Stat.
Local Open Scope nat_scope.

Section Abs.
  Variable pt : Z -> option (list byte * Z).
  Variable names : list (list byte).

  (** the loop over the list of names instead of the array *)
  Fixpoint walkn (names : list (list byte)) (p : Z) (fuel : nat) : res wres :=
    match fuel with
    | 0 => Fault Out_of_fuel
    | S f =>
      if (p =? 0)%Z then Ok NotFound else
      match pt p with
      | None => Ok WError
      | Some (comm, pp) => if existsb (list_eqb comm) names then Ok Found else walkn names pp f
      end
    end.

    Notation la := (listed_ancestor pt names).

    Lemma walkn_sound fuel : forall p, walkn names p fuel = Ok Found -> la p.
    Proof.
      induction fuel as [|f IH]; intros p; cbn [walkn]; [discriminate|].
      destruct (p =? 0)%Z eqn:Ez; [discriminate|]. apply Z.eqb_neq in Ez.
      destruct (pt p) as [[comm pp]|] eqn:Ep; [|discriminate].
      destruct (existsb (list_eqb comm) names) eqn:Ex.
      - intros _. apply existsb_list_eqb_In in Ex. eapply la_here; eauto.
      - intros H. eapply la_up; eauto.
    Qed.

    Lemma walkn_complete p : la p -> forall fuel, walkn names p fuel = Ok Found \/ walkn names p fuel = Fault Out_of_fuel.
    Proof.
      induction 1 as [p comm pp Hz Hp Hin | p comm pp Hz Hp _ IH]; intros [|f]; cbn [walkn]; try (now right).
      - apply Z.eqb_neq in Hz. rewrite Hz, Hp.
        apply existsb_list_eqb_In in Hin. rewrite Hin. now left.
      - apply Z.eqb_neq in Hz. rewrite Hz, Hp. destruct (existsb (list_eqb comm) names); [now left|apply IH].
    Qed.

    Lemma walkn_fault fuel : forall p e, walkn names p fuel = Fault e -> e = Out_of_fuel.
    Proof.
      induction fuel as [|f IH]; intros p e; cbn [walkn]; [congruence|].
      destruct (p =? 0)%Z; [discriminate|]. destruct (pt p) as [[comm pp]|]; [|discriminate].
      destruct (existsb (list_eqb comm) names); [discriminate|apply IH].
    Qed.

    (** ** termination *)
    Fixpoint chain (p : Z) (l : list Z) : Prop :=
      match l with
      | [] => True
      | q :: l' => q = p /\ p <> 0%Z /\ exists comm pp, pt p = Some (comm, pp) /\ chain pp l'
      end.

    Lemma out_of_fuel_chain fuel : forall p, walkn names p fuel = Fault Out_of_fuel -> exists l, length l = fuel /\ chain p l.
    Proof.
      induction fuel as [|f IH]; intros p; cbn [walkn]; [exists []; split; [reflexivity|exact I]|].
      destruct (p =? 0)%Z eqn:Ez; [discriminate|]. apply Z.eqb_neq in Ez.
      destruct (pt p) as [[comm pp]|] eqn:Ep; [|discriminate].
      destruct (existsb (list_eqb comm) names); [discriminate|]. intros H.
      destruct (IH pp H) as [l [L C]]. exists (p :: l). split; [cbn; now rewrite L|].
      cbn. repeat split; try assumption. now exists comm, pp.
    Qed.

    Lemma chain_anc l : forall p q, chain p (p :: l) -> In q l -> anc pt p q.
    Proof.
      induction l as [|x l IH]; intros p q C Hin; [contradiction|].
      cbn in C. destruct C as (_ & Hz & comm & pp & Hp & Hx & Hxz & Crest).
      subst x. assert (A1 : anc pt p pp) by (eapply anc_step; eauto).
      destruct Hin as [<-|Hin]; [exact A1|].
      eapply anc_trans; [exact A1|]. apply IH; [|exact Hin]. cbn. repeat split; assumption.
    Qed.

    Lemma chain_nodup : acyclic pt -> forall l p, chain p l -> NoDup l.
    Proof.
      intros AC. induction l as [|x l IH]; intros p C; [constructor|].
      assert (x = p) by (cbn in C; tauto). subst x. constructor.
      - intros Hin. apply (AC p). eapply chain_anc; eauto.
      - cbn in C. destruct C as (_ & _ & comm & pp & _ & C). eapply IH; eauto.
    Qed.

    Lemma chain_readable : forall l p q, chain p l -> In q l -> pt q <> None.
    Proof.
      induction l as [|x l IH]; intros p q C Hin; [contradiction|].
      cbn in C. destruct C as (-> & _ & comm & pp & Hp & C). destruct Hin as [<-|Hin].
      - congruence.
      - eapply IH; eauto.
    Qed.

    (** fuel = number of stat files + 1 always suffices on a tree without cycles *)
    Theorem walkn_terminates (dom : list Z) : (forall p, pt p <> None -> In p dom) -> acyclic pt ->
      forall p fuel, length dom < fuel -> walkn names p fuel <> Fault Out_of_fuel.
    Proof.
      intros Hdom AC p fuel Hf H. destruct (out_of_fuel_chain _ _ H) as [l [L C]].
      assert (length l <= length dom); [|lia].
      apply NoDup_incl_length; [eapply chain_nodup; eauto|].
      intros q Hq. apply Hdom. eapply chain_readable; eauto.
    Qed.

    (** ** errors *)
    (** walking up from [p] through readable, unlisted processes arrives at [q] *)
    Inductive reaches : Z -> Z -> Prop :=
    | r_refl : forall p, reaches p p
    | r_step : forall p comm pp q, p <> 0%Z -> pt p = Some (comm, pp) -> ~ In comm names -> reaches pp q -> reaches p q.

    Lemma walkn_reaches p q : reaches p q -> forall fuel,
      walkn names p fuel = Fault Out_of_fuel \/ exists f', walkn names p fuel = walkn names q (S f').
    Proof.
      induction 1 as [p | p comm pp q Hz Hp Hn _ IH]; intros [|f]; try (now left).
      - right. now exists f.
      - cbn [walkn]. apply Z.eqb_neq in Hz. rewrite Hz, Hp.
        assert (E : existsb (list_eqb comm) names = false).
        { destruct (existsb (list_eqb comm) names) eqn:E; [|reflexivity]. apply existsb_list_eqb_In in E. contradiction. }
        rewrite E. destruct f as [|f]; [now left|]. destruct (IH (S f)) as [H|[f' H]]; [now left|right; now exists f'].
    Qed.

    Theorem walkn_error p q : reaches p q -> q <> 0%Z -> pt q = None -> forall fuel,
      walkn names p fuel = Ok WError \/ walkn names p fuel = Fault Out_of_fuel.
    Proof.
      intros R Hz Hq fuel. destruct (walkn_reaches _ _ R fuel) as [H|[f' H]]; [now right|left].
      rewrite H. cbn [walkn]. apply Z.eqb_neq in Hz. now rewrite Hz, Hq.
    Qed.
    Theorem walkn_top p : reaches p 0%Z -> forall fuel,
      walkn names p fuel = Ok NotFound \/ walkn names p fuel = Fault Out_of_fuel.
    Proof.
      intros R fuel. destruct (walkn_reaches _ _ R fuel) as [H|[f' H]]; [now right|left]. rewrite H. reflexivity.
    Qed.
End Abs.

Section Walk.
  Variable c : spawns_consts.
  Hypothesis OK : spawns_consts_ok c = true.
  Variable tree : Z -> option (list byte).

  (** what the loop reads about a process: name and parent, or nothing *)
  Definition pt_of (p : Z) : option (list byte * Z) :=
    match tree p with Some content => parse_stat c content | None => None end.

  Lemma walk_walkn names k p fuel :
    walk c tree (map Some names ++ repeat None (S k)) p fuel = walkn pt_of names p fuel.
  Proof.
    revert p; induction fuel as [|f IH]; intros p; [reflexivity|]. cbn [walk walkn]. unfold pt_of at 1.
    destruct (p =? 0)%Z; [reflexivity|]. destruct (tree p) as [content|]; [|reflexivity].
    destruct (parse_stat c content) as [[comm pp]|]; [|reflexivity].
    rewrite find_string_spec. destruct (existsb (list_eqb comm) names); [reflexivity|apply IH].
  Qed.

  Lemma sep_comma : sp_sep c = COMMA.
  Proof. apply (consts_ok_inv c OK). Qed.
  Lemma start_parent : forall self ppid, start_pid c self ppid = ppid.
  Proof. intros. unfold start_pid. destruct (consts_ok_inv c OK) as (_ & _ & _ & _ & _ & _ & _ & _ & ->). reflexivity. Qed.

  (** the filter in terms of [walkn] and [names_of] *)
  Lemma filter_walkn arg self ppid fuel :
    filter c tree arg self ppid fuel =
    match arg with
    | [] => Ok PASS
    | _ => match walkn pt_of (names_of arg) ppid fuel with
           | Fault e => Fault e
           | Ok Found => Ok DROP
           | Ok _ => Ok PASS
           end
    end.
  Proof.
    unfold filter. destruct arg as [|b arg]; [reflexivity|].
    destruct (token_array_spec c (b :: arg)) as [k E]; [discriminate|]. rewrite E, start_parent.
    rewrite sep_comma, <- names_of_ne. rewrite walk_walkn. reflexivity.
  Qed.


  (** ** the filter *)
  Lemma la_nil p : ~ listed_ancestor pt_of [] p.
  Proof. induction 1; contradiction. Qed.

  (** whenever the walk finishes: DROP iff there is a listed ancestor (for every fuel) *)
  Theorem filter_exact_fuel arg self ppid fuel v :
    filter c tree arg self ppid fuel = Ok v -> (v = DROP <-> listed_ancestor pt_of (names_of arg) ppid).
  Proof.
    rewrite filter_walkn. destruct arg as [|b arg].
    - intros H; injection H as <-. split; [discriminate|]. intros H. exfalso. exact (la_nil _ H).
    - set (names := names_of (b :: arg)).
      destruct (walkn pt_of names ppid fuel) as [r|e] eqn:E; [|discriminate].
      split.
      + intros ->. destruct r; try discriminate. eapply walkn_sound; eauto.
      + intros L. destruct (walkn_complete pt_of names ppid L fuel) as [F|F]; rewrite F in E; [|discriminate].
        injection E as <-. congruence.
  Qed.

  (** the only possible fault is running out of fuel, and the filter never faults when the walk does not *)
  Theorem filter_fault arg self ppid fuel e : filter c tree arg self ppid fuel = Fault e -> e = Out_of_fuel.
  Proof.
    rewrite filter_walkn. destruct arg as [|b arg]; [discriminate|].
    destruct (walkn pt_of (names_of (b :: arg)) ppid fuel) as [r|e'] eqn:E.
    - destruct r; discriminate.
    - intros H; injection H as <-. eapply walkn_fault; eauto.
  Qed.

  (** termination: as many rounds as there are stat files, plus one *)
  Theorem filter_terminates (dom : list Z) : (forall p, tree p <> None -> In p dom) -> acyclic pt_of ->
    forall arg self ppid, exists v, filter c tree arg self ppid (S (length dom)) = Ok v.
  Proof.
    intros Hdom AC arg self ppid. rewrite filter_walkn. destruct arg as [|b arg]; [now exists PASS|].
    assert (Hdom' : forall p, pt_of p <> None -> In p dom).
    { intros p H. apply Hdom. unfold pt_of in H. destruct (tree p); congruence. }
    pose proof (walkn_terminates pt_of (names_of (b :: arg)) dom Hdom' AC ppid (S (length dom)) (Nat.lt_succ_diag_r _)) as T.
    destruct (walkn pt_of (names_of (b :: arg)) ppid (S (length dom))) as [r|e] eqn:E.
    - destruct r; eauto.
    - exfalso. apply T. f_equal. eapply walkn_fault; eauto.
  Qed.

  (** C15_exact on the bytes: for every acyclic tree with finitely many stat files and every argument *)
  Theorem filter_exact (dom : list Z) : (forall p, tree p <> None -> In p dom) -> acyclic pt_of ->
    forall arg self ppid,
      (filter c tree arg self ppid (S (length dom)) = Ok DROP <-> listed_ancestor pt_of (names_of arg) ppid)
      /\ (filter c tree arg self ppid (S (length dom)) = Ok PASS <-> ~ listed_ancestor pt_of (names_of arg) ppid).
  Proof.
    intros Hdom AC arg self ppid. destruct (filter_terminates dom Hdom AC arg self ppid) as [v E].
    pose proof (filter_exact_fuel _ _ _ _ _ E) as X. rewrite E. destruct v; split; split; intros H; try congruence.
    - exfalso. apply X in H. discriminate.
    - intros L. apply X in L. discriminate.
    - apply X. reflexivity.
    - exfalso. apply H. apply X. reflexivity.
  Qed.

  (** C15_error_pass: a process that cannot be read or parsed, met before any listed one, means PASS *)
  Theorem filter_error_pass arg self ppid q fuel :
    reaches pt_of (names_of arg) ppid q -> q <> 0%Z -> pt_of q = None ->
    filter c tree arg self ppid fuel = Ok PASS \/ filter c tree arg self ppid fuel = Fault Out_of_fuel.
  Proof.
    intros R Hz Hq. rewrite filter_walkn. destruct arg as [|b arg]; [now left|].
    destruct (walkn_error _ _ _ _ R Hz Hq fuel) as [H|H]; rewrite H; [now left|now right].
  Qed.
  (** ... and so does reaching pid 0 *)
  Theorem filter_top_pass arg self ppid fuel :
    reaches pt_of (names_of arg) ppid 0%Z ->
    filter c tree arg self ppid fuel = Ok PASS \/ filter c tree arg self ppid fuel = Fault Out_of_fuel.
  Proof.
    intros R. rewrite filter_walkn. destruct arg as [|b arg]; [now left|].
    destruct (walkn_top _ _ _ R fuel) as [H|H]; rewrite H; [now left|now right].
  Qed.

  (** C15_not_self (1): the verdict does not depend on which pid is the caller *)
  Theorem filter_not_self_pid arg self self' ppid fuel :
    filter c tree arg self ppid fuel = filter c tree arg self' ppid fuel.
  Proof. rewrite !filter_walkn. reflexivity. Qed.
End Walk.

(** C15_not_self (2): nor on the content of the caller's own stat file, for every tree in which the caller
    is not its own ancestor *)
Section NotSelf.
  Variable c : spawns_consts.
  Hypothesis OK : spawns_consts_ok c = true.
  Variables tree tree' : Z -> option (list byte).
  Variable self : Z.
  Hypothesis agree : forall p, p <> self -> tree p = tree' p.

  Lemma walkn_agree names fuel : forall p, p <> self -> ~ anc (pt_of c tree) p self ->
    walkn (pt_of c tree) names p fuel = walkn (pt_of c tree') names p fuel.
  Proof.
    induction fuel as [|f IH]; intros p Hne Hanc; [reflexivity|]. cbn [walkn].
    destruct (p =? 0)%Z eqn:Ez; [reflexivity|]. apply Z.eqb_neq in Ez.
    assert (E : pt_of c tree' p = pt_of c tree p) by (unfold pt_of; now rewrite (agree p Hne)).
    rewrite E. destruct (pt_of c tree p) as [[comm pp]|] eqn:Ep; [|reflexivity].
    destruct (existsb (list_eqb comm) names); [reflexivity|].
    assert (A : anc (pt_of c tree) p pp) by (eapply anc_step; eauto).
    apply IH.
    - intros ->. contradiction.
    - intros A2. apply Hanc. eapply anc_trans; eauto.
  Qed.

  Theorem filter_not_self arg ppid fuel : ppid <> self -> ~ anc (pt_of c tree) ppid self ->
    filter c tree arg self ppid fuel = filter c tree' arg self ppid fuel.
  Proof.
    intros H1 H2. rewrite !filter_walkn by exact OK. destruct arg as [|b arg]; [reflexivity|].
    rewrite (walkn_agree _ _ _ H1 H2). reflexivity.
  Qed.
End NotSelf.

(** * process tables rendered by the kernel *)
Section Procs.
  Variable c : spawns_consts.
  Hypothesis OK : spawns_consts_ok c = true.

  Record proc := { p_comm : list byte; p_state : byte; p_ppid : Z; p_rest : list byte }.
  Variable ptab : Z -> option proc.

  Definition proc_ok (pid : Z) (e : proc) : Prop :=
    (0 <= pid < 10 ^ 20)%Z /\ (0 <= p_ppid e < 2147483648)%Z /\ nonul (p_comm e)
    /\ (N.of_nat (length (p_comm e)) < sp_comm_max c)%N /\ state_ok (p_state e)
    /\ ~ In RP (p_rest e) /\ nodigit_head (p_rest e).
  Hypothesis WF : forall pid e, ptab pid = Some e -> proc_ok pid e.

  Definition proc_tree (pid : Z) : option (list byte) :=
    match ptab pid with
    | Some e => Some (render_stat pid (p_comm e) (p_state e) (p_ppid e) ++ p_rest e)
    | None => None
    end.
  Definition proc_abs (pid : Z) : option (list byte * Z) :=
    match ptab pid with Some e => Some (p_comm e, p_ppid e) | None => None end.

  Lemma pt_of_proc_tree pid : pt_of c proc_tree pid = proc_abs pid.
  Proof.
    unfold pt_of, proc_tree, proc_abs. destruct (ptab pid) as [e|] eqn:E; [|reflexivity].
    destruct (WF _ _ E) as (H1 & H2 & H3 & H4 & H5 & H6 & H7). exact (stat_roundtrip c OK pid (p_comm e) (p_state e) (p_ppid e) (p_rest e) H1 H2 H3 H4 H5 H6 H7).
  Qed.

  Lemma la_ext pt1 pt2 names : (forall p, pt1 p = pt2 p) -> forall p, listed_ancestor pt1 names p -> listed_ancestor pt2 names p.
  Proof.
    intros E p. induction 1 as [p comm pp Hz Hp Hin | p comm pp Hz Hp _ IH].
    - eapply la_here; [exact Hz | rewrite <- E; exact Hp | exact Hin].
    - eapply la_up; [exact Hz | rewrite <- E; exact Hp | exact IH].
  Qed.
  Lemma anc_ext pt1 pt2 : (forall p, pt1 p = pt2 p) -> forall p q, anc pt1 p q -> anc pt2 p q.
  Proof.
    intros E p q. induction 1 as [p comm pp Hz Hp | p q r _ IH1 _ IH2].
    - eapply anc_step; [exact Hz | rewrite <- E; exact Hp].
    - eapply anc_trans; eauto.
  Qed.

  (** C15_exact: for every well-founded process table in the kernel's rendering and every argument, the
      filter run at a process whose parent is [ppid] drops iff walking up from the parent meets a
      listed name (exact equality with a non-empty item of the argument) before an unreadable process
      or pid 0 *)
  Theorem filter_exact_procs (dom : list Z) : (forall p, ptab p <> None -> In p dom) -> acyclic proc_abs ->
    forall arg self ppid,
      (filter c proc_tree arg self ppid (S (length dom)) = Ok DROP <-> listed_ancestor proc_abs (names_of arg) ppid)
      /\ (filter c proc_tree arg self ppid (S (length dom)) = Ok PASS <-> ~ listed_ancestor proc_abs (names_of arg) ppid).
  Proof.
    intros Hdom AC arg self ppid.
    assert (Hdom' : forall p, proc_tree p <> None -> In p dom).
    { intros p H. apply Hdom. unfold proc_tree in H. destruct (ptab p); congruence. }
    assert (AC' : acyclic (pt_of c proc_tree)).
    { intros p A. apply (AC p). eapply anc_ext; [|exact A]. exact pt_of_proc_tree. }
    destruct (filter_exact c OK proc_tree dom Hdom' AC' arg self ppid) as [D P].
    split.
    - rewrite D. split; apply la_ext; intros p; [|symmetry]; apply pt_of_proc_tree.
    - rewrite P. split; intros N L; apply N; revert L; apply la_ext; intros p; [symmetry|]; apply pt_of_proc_tree.
  Qed.
End Procs.

(** * the argument as a list of names; the lookup *)
Section Lists.
  Variable c : spawns_consts.
  Hypothesis OK : spawns_consts_ok c = true.

  (** the array built from a non-empty argument is searched for exact equality with a listed name *)
  Theorem lookup_exact arg comm : arg <> [] ->
    exists arr, token_array c arg = Some arr /\ find_string comm arr = Ok (existsb (list_eqb comm) (names_of arg)).
  Proof.
    intros NE. destruct (token_array_spec c arg NE) as [k E]. eexists. split; [exact E|].
    rewrite find_string_spec, (sep_comma c OK), <- names_of_ne. reflexivity.
  Qed.

  (** for a list [L] of comma-free names (duplicates and empty items allowed) written as "a,b,...":
      the listed names are the non-empty items of [L], compared for equality *)
  Theorem filter_exact_procs_list ptab (WF : forall pid e, ptab pid = Some e -> proc_ok c pid e)
          (dom : list Z) : (forall p, ptab p <> None -> In p dom) -> acyclic (proc_abs ptab) ->
    forall (L : list (list byte)) self ppid, (forall x, In x L -> ~ In COMMA x) ->
      (filter c (proc_tree ptab) (join [COMMA] L) self ppid (S (length dom)) = Ok DROP
         <-> listed_ancestor (proc_abs ptab) (ne L) ppid)
      /\ (filter c (proc_tree ptab) (join [COMMA] L) self ppid (S (length dom)) = Ok PASS
         <-> ~ listed_ancestor (proc_abs ptab) (ne L) ppid).
  Proof.
    intros Hdom AC L self ppid HL. rewrite <- (names_of_join L HL).
    apply (filter_exact_procs c OK ptab WF dom Hdom AC).
  Qed.
End Lists.

(** names of at most 15 bytes (TASK_COMM_LEN - 1) are inside the window *)
Lemma comm15_in_window c : spawns_consts_ok c = true -> forall comm : list byte, length comm <= 15 -> (N.of_nat (length comm) < sp_comm_max c)%N.
Proof. intros OK comm H. destruct (consts_ok_inv c OK) as (_ & _ & _ & _ & H16 & _). lia. Qed.

Theorem stat_roundtrip_15 c (OK : spawns_consts_ok c = true) pid comm st ppid rest :
  (0 <= pid < 10 ^ 20)%Z -> (0 <= ppid < 2147483648)%Z -> nonul comm -> length comm <= 15 -> state_ok st ->
  ~ In RP rest -> nodigit_head rest ->
  parse_stat c (render_stat pid comm st ppid ++ rest) = Some (comm, ppid).
Proof. intros. apply stat_roundtrip; try assumption. now apply comm15_in_window. Qed.

(** boolean form of [proc_ok] (for concrete tables) *)
Definition proc_okb (c : spawns_consts) (pid : Z) (e : proc) : bool :=
  (0 <=? pid)%Z && (pid <? 10 ^ 20)%Z && (0 <=? p_ppid e)%Z && (p_ppid e <? 2147483648)%Z
  && nonulb (p_comm e) && (N.of_nat (length (p_comm e)) <? sp_comm_max c)%N
  && negb (is_space (p_state e)) && negb (beq (p_state e) NUL) && negb (beq (p_state e) RP)
  && negb (existsb (beq RP) (p_rest e))
  && match p_rest e with [] => true | b :: _ => negb (is_digit b) end.
Lemma proc_okb_ok c pid e : proc_okb c pid e = true -> proc_ok c pid e.
Proof.
  unfold proc_okb, proc_ok, state_ok. rewrite !andb_true_iff, !negb_true_iff.
  intros ((((((((((H1 & H2) & H3) & H4) & H5) & H6) & H7) & H8) & H9) & H10) & H11).
  apply Z.leb_le in H1, H3. apply Z.ltb_lt in H2, H4. apply nonulb_spec in H5. apply N.ltb_lt in H6.
  apply beq_neq in H8, H9.
  repeat split; try assumption; try lia.
  - intros F. assert (X : existsb (beq RP) (p_rest e) = true) by (apply existsb_exists; exists RP; split; [exact F|apply beq_refl]). congruence.
  - destruct (p_rest e) as [|b r]; [exact I|]. cbn. now apply negb_true_iff in H11.
Qed.
