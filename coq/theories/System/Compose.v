(** The whole logging path of one wrapped exec call, composed from the area models:

      snoopy.ini bytes --Config.load--> settings
        --Filter.check_chain--> pass / drop
        --Expand.log_message (+ Expand.Errors: refused appends)--> message
        --Output.action_el (ident / path templates through Expand again)--> records handed to the sinks

    This is src/action/log-syscall-exec.c driven by src/configuration.c, as a pure function of the
    configuration file content, the registered filters' verdicts in the current process state, the data
    source registry of the current call, and the pid.  No proofs in this file. *)
From Snoopy Require Import Lib.CStr Lib.Skel Config.Model Filter.Model Expand.Model Expand.Proofs Expand.Errors Output.Model Output.Errors.
From Coq Require Import Strings.String.
Local Open Scope N_scope.
Local Open Scope list_scope.

Record sys_consts := {
  sc_cfg : config_consts;
  sc_flt : filter_consts;
  sc_exp : expand_consts;
  sc_out : output_consts;
  sc_err : list byte;          (* the text message.c hands to the error handler on a refused append *)
  sc_filtering : bool          (* SNOOPY_FILTERING_ENABLED compiled in *)
}.

(** output names of src/outputregistry.c *)
Definition okind_of_name (n : list byte) : okind :=
  if list_eqb n (bytes "file") then OFile
  else if list_eqb n (bytes "devtty") then ODevtty
  else if list_eqb n (bytes "devnull") then ODevnull
  else if list_eqb n (bytes "stdout") then OStdout
  else if list_eqb n (bytes "stderr") then OStderr
  else if list_eqb n (bytes "socket") then OSocket
  else if list_eqb n (bytes "devlog") then ODevlog
  else if list_eqb n (bytes "noop") then ONoop
  else OUnknown.

Section System.
  Variable C : sys_consts.
  Variable fverdict : fimpl -> list byte -> bool.                 (* registered filters in the current process state; true = PASS *)
  Variable known : list byte -> bool.                             (* data source registry *)
  Variable ds : list byte -> list byte -> N -> bool * list byte.  (* data sources for the current call *)
  Variable pid : N.

  (** configuration in force for this call: built-in defaults, then the file if there is a readable one *)
  Definition settings (file : option (list byte)) : cfg :=
    match file with
    | None => defaults (sc_cfg C)
    | Some data => load (sc_cfg C) (defaults (sc_cfg C)) data
    end.

  Definition template (bufsize : N) (fmt : list byte) : list byte := generate (sc_exp C) known ds bufsize bufsize fmt.
  Definition template_errors (bufsize : N) (fmt : list byte) : nat := generate_errors (sc_exp C) known ds bufsize bufsize fmt.

  Definition out_env (g : cfg) : env :=
    {| e_path_of := template (path_buf (sc_exp C));
       e_ident := template (ident_buf (sc_exp C)) (syslog_ident g);
       e_prio := N.lor (syslog_facility g) (syslog_level g);
       e_pid := pid |}.

  (** refused appends inside the output's own template expansion for the record of the message *)
  Definition out_errors (g : cfg) (k : okind) : nat :=
    match k with
    | OFile => template_errors (path_buf (sc_exp C)) (output_arg g)
    | ODevlog => template_errors (ident_buf (sc_exp C)) (syslog_ident g)
    | _ => O
    end.

  Definition the_message (g : cfg) : list byte :=
    log_message (sc_exp C) known ds (log_max_len g) (ds_max_len g) (message_format g).
  Definition message_errors (g : cfg) : nat :=
    generate_errors (sc_exp C) known ds (log_max_len g + call_log_adj (sc_exp C)) (ds_max_len g + call_ds_adj (sc_exp C)) (message_format g).

  (** everything one wrapped call hands to the operating system before the real exec *)
  Definition log_with (g : cfg) : res (list record) :=
    pass <- (if sc_filtering C then check_chain (sc_flt C) fverdict (filter_chain g) else Ok true) ;;
    let k := okind_of_name (output g) in
    Ok (action_el (sc_out C) (out_env g) (error_logging g) (sc_filtering C) (negb pass) k (output_arg g)
                  (message_errors g) (out_errors g k) (sc_err C) (the_message g)).
  Definition log_exec (file : option (list byte)) : res (list record) := log_with (settings file).
End System.
