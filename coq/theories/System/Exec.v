(** Executable instance of the end-to-end model for the whole-run correspondence: built-in filters as modelled by
    Filter.Model.builtin in a process state (real uid, effective uid, stdin on a terminal), the six deterministic data
    sources of Expand.Exec, the records as (sink tag, sink name, bytes). *)
From Snoopy Require Import Lib.CStr Config.Model Filter.Model Filter.Exec Expand.Model Expand.Exec Datasource.Cmdline Output.Model Output.Exec System.Compose.
Local Open Scope N_scope.

Definition sys_run (C : sys_consts) (dc : ds_consts) (cc : cmdline_consts)
           (file : option (list byte)) (w : world) (ruid euid : N) (tty : bool) (pid : N) : res (list record) :=
  log_exec C (builtin (sc_flt C) (mk_ps ruid euid tty)) known_det (ds_det dc cc w) pid file.

(** the settings in force, rendered for diagnosis *)
Definition sys_settings (C : sys_consts) (file : option (list byte)) : cfg := settings C file.
