(** The end-to-end model with the data sources of C12: [known] / [ds] of System.Compose instantiated with the generated
    description of every data source the registry binds (DsTruth.Model.eval_ds over Gen_Ds, plus the cgroup / rpname models)
    evaluated in a process state.  This covers the compiled-in default message format (uid, sid, tty, cwd, filename, cmdline). *)
From Coq Require Import String ZArith NArith List Bool.
From Snoopy Require Import Lib.CStr Config.Model Filter.Model Filter.Exec Expand.Model Datasource.Cmdline Output.Model DsTruth.Model DsTruth.Exec System.Compose.
Import ListNotations.
Local Open Scope N_scope.

(** message.c: SNOOPY_DATASOURCE_FAILED(retVal) = retVal < 0; the scratch buffer was cleared before the call *)
Definition ds_of_outcome (o : option outcome) : bool * list byte :=
  match o with
  | Some r => (Z.ltb (o_ret r) 0, match o_buf r with Some b => b | None => [] end)
  | None => (false, [])                 (* a data source outside the modelled table: not used by the correspondence *)
  end.

Definition ds_full (g : ds_gen) (cc : cmdline_consts) (d : pstate_data) (name arg : list byte) (sz : N) : bool * list byte :=
  let n := string_of_list_byte name in
  let st := mk_pstate d in
  ds_of_outcome (if seq n "cgroup" then cgroup_ds (g_consts g) st arg sz
                 else if seq n "rpname" then rpname_ds (g_consts g) (S (length (d_status d))) st sz
                 else eval_ds g cc n st arg sz).

Definition known_full (g : ds_gen) (name : list byte) : bool :=
  existsb (fun e => String.eqb (de_name e) (string_of_list_byte name)) (g_table g).

(** one wrapped call in process state [d] (which carries the exec call itself: d_file / d_argv, and the environment) *)
Definition sys_run_full (C : sys_consts) (g : ds_gen) (cc : cmdline_consts) (file : option (list byte)) (d : pstate_data) (tty : bool) : res (list record) :=
  log_exec C (builtin (sc_flt C) (mk_ps (zn (idn d 0)) (zn (idn d 1)) tty)) (known_full g) (ds_full g cc d) (zn (idn d 6)) file.
