(** C11 joined with C08 and the end-to-end model: the life-cycle model of the configuration record
    (CfgLife.Model, over the skeletons regenerated from configuration.c / configfile.c / tsrm.c) is instantiated with the REAL
    file -> settings function ([Config.Model.load]), the record being read through the ten settings the INI layer can change.
    Consequence: for every history of configuration files, in both build variants, the settings in force for call k are
    [settings C file_k], hence (System.Compose) what call k hands to the sinks is [log_exec ... file_k]. *)
From Coq Require Import String List Bool.
From Snoopy Require Import Lib.CStr Lib.Skel Lib.ResFlow CfgLife.Model CfgLife.Proofs Config.Model System.Compose.
Import ListNotations.
Local Open Scope string_scope.

(** values held by the fields of snoopy_configuration_t that the INI layer can change *)
Inductive sval := SVb (b : bool) | SVn (n : N) | SVs (s : list byte) | SVother.
Definition as_b (v : sval) : bool := match v with SVb b => b | _ => false end.
Definition as_n (v : sval) : N := match v with SVn n => n | _ => 0%N end.
Definition as_s (v : sval) : list byte := match v with SVs s => s | _ => [] end.

Definition F_el := "error_logging_enabled".      Definition F_fmt := "message_format".       Definition F_chain := "filter_chain".
Definition F_out := "output".                    Definition F_arg := "output_arg".           Definition F_fac := "syslog_facility".
Definition F_ident := "syslog_ident_format".     Definition F_lvl := "syslog_level".
Definition F_ds := "datasource_message_max_length".   Definition F_log := "log_message_max_length".
Definition setting_fields : list string := [F_el; F_fmt; F_chain; F_out; F_arg; F_fac; F_ident; F_lvl; F_ds; F_log].

Definition rcfg := CfgLife.Model.cfg sval.    (* string -> sval: the C record, field by field *)

(** the settings, read off the record *)
Definition proj (c : rcfg) : Config.Model.cfg :=
  {| error_logging := as_b (c F_el); message_format := as_s (c F_fmt); filter_chain := as_s (c F_chain);
     output := as_s (c F_out); output_arg := as_s (c F_arg); syslog_facility := as_n (c F_fac);
     syslog_ident := as_s (c F_ident); syslog_level := as_n (c F_lvl); ds_max_len := as_n (c F_ds); log_max_len := as_n (c F_log) |}.

(** the record after the settings [g] were written into it (all other fields as before) *)
Definition embed (g : Config.Model.cfg) (c : rcfg) : rcfg := fun f =>
  if String.eqb f F_el then SVb (error_logging g) else if String.eqb f F_fmt then SVs (message_format g)
  else if String.eqb f F_chain then SVs (filter_chain g) else if String.eqb f F_out then SVs (output g)
  else if String.eqb f F_arg then SVs (output_arg g) else if String.eqb f F_fac then SVn (syslog_facility g)
  else if String.eqb f F_ident then SVs (syslog_ident g) else if String.eqb f F_lvl then SVn (syslog_level g)
  else if String.eqb f F_ds then SVn (ds_max_len g) else if String.eqb f F_log then SVn (log_max_len g)
  else c f.

Lemma proj_embed g c : proj (embed g c) = g.
Proof. destruct g. reflexivity. Qed.

Section Hist.
  Variable C : config_consts.
  Variable G : cfg_gen.
  Hypothesis Hfacts : vfacts_ok G = true.
  Hypothesis Hfields : forallb (fun f => str_in f (g_fields G)) setting_fields = true.

  (** snoopy_configuration_ctor's file step: an absent / unreadable file leaves the record as it is *)
  Definition parse_real (c : rcfg) (fl : option (list byte)) : rcfg :=
    match fl with
    | None => c
    | Some data => embed (load C (proj c) data) c
    end.

  Lemma field_in f : In f setting_fields -> In f (g_fields G).
  Proof.
    intros H. rewrite forallb_forall in Hfields. apply str_in_In. now apply Hfields.
  Qed.

  Lemma proj_ext c c' : (forall f, In f (g_fields G) -> c f = c' f) -> proj c = proj c'.
  Proof.
    intros H. unfold proj.
    rewrite (H F_el), (H F_fmt), (H F_chain), (H F_out), (H F_arg), (H F_fac), (H F_ident), (H F_lvl), (H F_ds), (H F_log);
      try reflexivity; apply field_in; unfold setting_fields; simpl; tauto.
  Qed.

  Lemma parse_real_ext : forall c c' fl, (forall f, In f (g_fields G) -> c f = c' f) ->
      forall f, In f (g_fields G) -> parse_real c fl f = parse_real c' fl f.
  Proof.
    intros c c' [data|] H f Hf; cbn [parse_real]; [|now apply H].
    rewrite (proj_ext c c' H). unfold embed.
    repeat match goal with |- context [String.eqb f ?x] => destruct (String.eqb f x); [reflexivity|] end.
    now apply H.
  Qed.

  (** the record setDefaults produces, as a field function *)
  Variable dv : rcfg.
  Hypothesis Hdv : proj dv = defaults C.

  (** For every history of configuration files (rewritten, emptied, deleted = None, corrupted), any garbage in freshly allocated
      records, whatever the use phase writes into the settings, both build variants, from a fresh process: the settings in force for
      call k are the built-in defaults overlaid with file k - nothing of calls 0..k-1. *)
  Theorem effective_settings : forall (v : variant) (h : list (hcall sval (list byte))) (s : vstate sval) (k : nat) (c : hcall sval (list byte)),
      (v_init s = false \/ forall f, In f (g_fields G) -> v_cfg s f = dv f) ->
      nth_error h k = Some c ->
      exists e, nth_error (effs G sval (list byte) dv parse_real v s h) k = Some e
                /\ proj e = match h_file c with None => defaults C | Some data => load C (defaults C) data end.
  Proof.
    intros v h s k c Hs Hk.
    destruct (history_free_nth G sval (list byte) dv parse_real Hfacts parse_real_ext v h s k c Hs Hk) as [e [He Hf]].
    exists e. split; [exact He|].
    rewrite (proj_ext e (parse_real dv (h_file c)) Hf).
    destruct (h_file c) as [data|]; cbn [parse_real]; [|exact Hdv].
    now rewrite proj_embed, Hdv.
  Qed.
End Hist.
