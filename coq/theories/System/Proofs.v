(** End-to-end theorems about [log_exec], obtained by composing the area theorems:
    C08 (settings = load defaults file), C07 (decision = conjunction over the chain's elements),
    C05 (message = documented expansion when it fits), C04 (one framed record / none / error records). *)
From Snoopy Require Import Lib.CStr Lib.Skel Config.Model Filter.Model Filter.Proofs Expand.Model Expand.Proofs Expand.Errors Expand.Tokens
     Output.Model Output.Proofs Output.Errors System.Compose.
From Coq Require Import ZifyBool ZifyN ZifyNat.
Local Open Scope N_scope.
Local Open Scope list_scope.

Section SysProofs.
  Variable C : sys_consts.
  Hypothesis Hflt : chain_consts_ok (sc_flt C) = true.
  Hypothesis Hexp : expand_consts_ok (sc_exp C) = true.
  Hypothesis Hout : output_consts_ok (sc_out C) = true.
  Hypothesis Hfe : sc_filtering C = true.
  Variable fverdict : fimpl -> list byte -> bool.
  Variable known : list byte -> bool.
  Variable ds : list byte -> list byte -> N -> bool * list byte.
  Variable pid : N.

  Notation settings := (settings C).
  Notation log_exec := (log_exec C fverdict known ds pid).
  Notation feval := (Filter.Model.eval (sc_flt C) fverdict).

  (** the decision taken for a configuration file: the conjunction over the elements of ITS filter chain *)
  Definition decision (file : option (list byte)) : bool := forallb feval (elements (filter_chain (settings file))).

  Lemma chain_decides file : len (filter_chain (settings file)) < ini_max_line (sc_flt C) ->
    check_chain (sc_flt C) fverdict (filter_chain (settings file)) = Ok (decision file).
  Proof. intros L. now apply chain_conjunction. Qed.

  (** a call the chain drops hands nothing to any sink, error logging or not *)
  Theorem sys_dropped_silent file : len (filter_chain (settings file)) < ini_max_line (sc_flt C) ->
    decision file = false -> log_exec file = Ok [].
  Proof.
    intros L D. unfold Compose.log_exec, Compose.log_with. rewrite Hfe, chain_decides by assumption. cbn [bind]. rewrite D. cbn [negb].
    now rewrite action_el_dropped.
  Qed.

  (** the ideal expansion of the configured message format under the configured data source limit *)
  Definition ideal (file : option (list byte)) : list byte :=
    let g := settings file in full (sc_exp C) known ds (ds_max_len g + call_ds_adj (sc_exp C)) (message_format g).

  (** a passing call whose expansion fits: exactly one record, at the configured sink, carrying the documented frame of
      the documented expansion; nothing else anywhere - whatever the error-logging switch says *)
  Theorem sys_one_record file :
    let g := settings file in
    let k := okind_of_name (output g) in
    len (filter_chain g) < ini_max_line (sc_flt C) -> decision file = true ->
    len (ideal file) <= log_max_len g -> ideal file <> [] ->
    has_sink (sc_out C) k (output_arg g) -> out_errors C known ds g k = O ->
    e_prio (out_env C known ds pid g) < 2 ^ 32 -> pid < 2 ^ 32 ->
    log_exec file = Ok [(sink_of (sc_out C) (out_env C known ds pid g) k (output_arg g),
                         documented_frame (devlog_prec (sc_out C)) (out_env C known ds pid g) k (ideal file))].
  Proof.
    intros g k L D Hfit Hne Hs He Hp Hq. unfold Compose.log_exec, Compose.log_with. fold g. rewrite Hfe.
    unfold g in L |- *. rewrite chain_decides by assumption. cbn [bind]. rewrite D. cbn [negb]. fold g k.
    assert (Em : the_message C known ds g = ideal file).
    { unfold the_message, ideal. fold g. now apply log_message_exact. }
    assert (En : message_errors C known ds g = O).
    { unfold message_errors. apply no_errors_when_fits; [exact Hexp|].
      destruct (ok_adj (sc_exp C) Hexp) as [_ [E1 _]]. unfold ideal in Hfit. fold g in Hfit. lia. }
    rewrite En, He, Em, action_el_none.
    f_equal. apply (one_record (sc_out C) Hout); assumption.
  Qed.

  (** ... and that expansion is the left-to-right rendering of the format's tokens (C05_full_is_documented) *)
  Theorem sys_ideal_is_documented file :
    let g := settings file in
    ideal file = Expand.Model.render (sc_exp C) known ds (ds_max_len g + call_ds_adj (sc_exp C) + ds_buf_adj (sc_exp C))
                        (tokens (S (length (message_format g))) (message_format g) []).
  Proof.
    intros g. unfold ideal. fold g. apply full_is_render.
    - unfold expand_consts_ok in Hexp. repeat (apply andb_true_iff in Hexp as [Hexp ?]).
      match goal with H : list_eqb (tag_open _) _ = true |- _ => now apply list_eqb_eq in H end.
    - unfold expand_consts_ok in Hexp. repeat (apply andb_true_iff in Hexp as [Hexp ?]).
      match goal with H : list_eqb (tag_close _) _ = true |- _ => now apply list_eqb_eq in H end.
    - unfold expand_consts_ok in Hexp. repeat (apply andb_true_iff in Hexp as [Hexp ?]).
      match goal with H : list_eqb (tag_colon _) _ = true |- _ => now apply list_eqb_eq in H end.
  Qed.

  (** no configuration file, or a file that does not mention an option: the compiled-in default is in force *)
  Theorem sys_absent_file_defaults : settings None = defaults (sc_cfg C).
  Proof. reflexivity. Qed.
End SysProofs.
