(** The input-data life-cycle facts (Datasource/Cmdline.v [ids_facts]) computed from the generated
    skeletons of init/cleanup, the input-data ctor/dtor/setDefaults, the three store functions and
    the wrapper's init. *)
From Coq Require Import String ZArith List Bool.
From Snoopy Require Import Lib.Skel Wrapper.Model Datasource.Cmdline.
Import ListNotations.
Local Open Scope string_scope.
Local Open Scope list_scope.

Definition calls (sk : fn_skel) (f : string) : bool := str_in f (body_calls (sk_body sk)).

(** [p->field = ...] at top level of the body, for the function's first parameter *)
Definition assigns_param_field (sk : fn_skel) (field : string) : bool :=
  existsb (fun s => match s with SAssign (XMember (XParam 0) fld) _ => String.eqb fld field | _ => false end) (sk_body sk).

(** [<storage>->field = <own parameter 0>] where <storage> is the accessor's result: either the call itself or a non-static local whose
    only value (initialiser or assignments) is that call -- the local's name is free *)
Definition is_get (e : sexpr) : bool :=
  match e with XCall f [] => String.eqb f "snoopy_inputdatastorage_get" | _ => false end.
Definition var_from_get (body : list sstmt) (v : string) : bool :=
  existsb (fun s => match s with
                    | SAssign (XVar w) e => String.eqb w v && is_get e
                    | SDecl w false (Some e) => String.eqb w v && is_get e
                    | _ => false end) body
  && forallb (fun s => match s with
                       | SAssign (XVar w) e => negb (String.eqb w v) || is_get e
                       | SDecl w st (Some e) => negb (String.eqb w v) || (negb st && is_get e)
                       | _ => true end) body.
Definition stores_param_into (sk : fn_skel) (field : string) : bool :=
  existsb (fun s => match s with
                    | SAssign (XMember base fld) (XParam 0) =>
                      String.eqb fld field && (is_get base || match base with XVar v => var_from_get (sk_body sk) v | _ => false end)
                    | _ => false end) (sk_body sk)
  && negb (existsb s_has_other (sk_body sk)).

Definition defaults_all (sk_defaults : fn_skel) : bool :=
  assigns_param_field sk_defaults "filename" && assigns_param_field sk_defaults "argv" && assigns_param_field sk_defaults "envp".

(** position of the first event satisfying p *)
Fixpoint pos_of (p : event -> bool) (tr : list event) : option nat :=
  match tr with [] => None | e :: tr' => if p e then Some 0 else option_map S (pos_of p tr') end.

Definition store_after_init (sk_winit : fn_skel) (store_fn : string) (param : nat) : bool :=
  match run [] (sk_body sk_winit) with
  | Some (tr, _) =>
    match pos_of (is_call_of "snoopy_init") tr,
          pos_of (fun e => match e with EvCall g [VParam i] => String.eqb g store_fn && Nat.eqb i param | _ => false end) tr with
    | Some a, Some b => Nat.ltb a b
    | _, _ => false
    end
  | None => false
  end.

Definition ids_facts_of (sk_init sk_cleanup sk_ctor sk_dtor sk_defaults sk_winit sk_sf sk_sa sk_se : fn_skel) : ids_facts :=
  {| ctor_resets := calls sk_init "snoopy_inputdatastorage_ctor" && calls sk_ctor "snoopy_inputdatastorage_setDefaults" && defaults_all sk_defaults;
     dtor_resets := calls sk_cleanup "snoopy_inputdatastorage_dtor" && calls sk_dtor "snoopy_inputdatastorage_setDefaults" && defaults_all sk_defaults;
     stores_file := store_after_init sk_winit "snoopy_inputdatastorage_store_filename" 0 && stores_param_into sk_sf "filename";
     stores_argv := store_after_init sk_winit "snoopy_inputdatastorage_store_argv" 1 && stores_param_into sk_sa "argv";
     stores_envp := store_after_init sk_winit "snoopy_inputdatastorage_store_envp" 2 && stores_param_into sk_se "envp" |}.
