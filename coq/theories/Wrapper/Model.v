(** C01: semantics of the exec wrappers' generated skeletons.

    A wrapper body in the straight-line fragment is run to a trace of events; the
    trace is then interpreted over an arbitrary world with arbitrary callee effects
    and an arbitrary real exec function.  [SIf]/[SLoop]/[SOther]/indirect calls other
    than the final one put a body outside the fragment ([None]). *)
From Coq Require Import String ZArith List Bool Lia.
From Snoopy Require Import Lib.Skel.
Import ListNotations.
Local Open Scope string_scope.
Local Open Scope list_scope.

Inductive value := VParam (i : nat) | VStr (s : string) | VInt (z : Z) | VLocal (name : string) | VOpaque.

Inductive event :=
| EvCall (f : string) (args : list value)      (* direct call of a named function *)
| EvReal (sym : string) (args : list value).   (* call through the pointer obtained from dlsym(RTLD_NEXT, sym) *)

Inductive retval := RReal | RConst (v : value) | RVoid.   (* RReal: exactly what the real function returned *)

Fixpoint eval (e : sexpr) : value :=
  match e with
  | XParam i => VParam i
  | XStr s => VStr s
  | XInt z => VInt z
  | XVar n => VLocal n
  | XCast e => eval e
  | _ => VOpaque
  end.

(** pure initialisers (no call inside) *)
Definition pure_expr (e : sexpr) : bool := match ecalls e with [] => negb (e_has_callptr e) | _ => false end.

Fixpoint lookup (env : list (string * string)) (v : string) : option string :=
  match env with
  | [] => None
  | (k, s) :: env' => if String.eqb k v then Some s else lookup env' v
  end.

(** [run env body] = Some (trace, return value) for bodies in the straight-line fragment that end in a return *)
Fixpoint run (env : list (string * string)) (body : list sstmt) : option (list event * retval) :=
  match body with
  | [] => Some ([], RVoid)
  | s :: rest =>
    match s with
    | SDecl _ _ None => run env rest
    | SDecl _ _ (Some init) => if pure_expr init && negb (e_addr_of_param init) then run env rest else None
    | SAssign (XVar v) (XCast (XCall "dlsym" [_; XStr sym])) =>
      match run ((v, sym) :: env) rest with
      | Some (tr, r) => Some (EvCall "dlsym" [VStr sym] :: tr, r)
      | None => None
      end
    | SExpr (XCall f args) =>
      if forallb pure_expr args && negb (existsb e_addr_of_param args) then
        match run env rest with
        | Some (tr, r) => Some (EvCall f (map eval args) :: tr, r)
        | None => None
        end
      else None
    | SReturn (Some (XCallPtr (XVar v) args)) =>
      match lookup env v with
      | Some sym => if forallb pure_expr args then Some ([EvReal sym (map eval args)], RReal) else None
      | None => None
      end
    | SReturn (Some e) => if pure_expr e then Some ([], RConst (eval e)) else None
    | SReturn None => Some ([], RVoid)
    | _ => None
    end
  end.

Fixpoint params (n : nat) : list value :=
  match n with O => [] | S k => params k ++ [VParam k] end.

Definition is_real (e : event) : bool := match e with EvReal _ _ => true | _ => false end.
Definition is_call_of (f : string) (e : event) : bool := match e with EvCall g _ => String.eqb f g | _ => false end.

(** the shape C01 needs: trace = pre ++ [EvReal api own-params], no other real call, the logging call
    and the init call that receives the parameters are in [pre], result is the real function's *)
Definition wrapper_ok (api : string) (nargs : nat) (log_fn : string) (sk : fn_skel) : bool :=
  match run [] (sk_body sk) with
  | Some (tr, RReal) =>
    match rev tr with
    | EvReal sym args :: pre_rev =>
      String.eqb sym api
      && (if list_eq_dec (fun a b : value => ltac:(decide equality; try apply string_dec; try apply Z.eq_dec; try apply Nat.eq_dec)) args (params nargs) then true else false)
      && negb (existsb is_real pre_rev)
      && existsb (is_call_of log_fn) pre_rev
    | _ => false
    end
  | _ => false
  end.

(** * Interpretation of a trace over an arbitrary world *)
Section Interp.
  Variable world : Type.
  Variable callee : string -> list value -> world -> world.      (* any effect a named callee may have (sinks, heap, ...) *)
  Variable real : string -> list value -> world -> world * Z.    (* the real libc function: any effect, any result *)

  (** returns final world, number of real calls, the result of the last real call, and whether any
      callee ran after a real call *)
  Fixpoint interp (tr : list event) (w : world) (nreal : nat) (last : option Z) (after : bool) : world * nat * option Z * bool :=
    match tr with
    | [] => (w, nreal, last, after)
    | EvCall f args :: tr' => interp tr' (callee f args w) nreal last (after || match nreal with O => false | _ => true end)
    | EvReal s args :: tr' => let '(w', z) := real s args w in interp tr' w' (S nreal) (Some z) after
    end.

  Fixpoint run_calls (tr : list event) (w : world) : world :=
    match tr with
    | [] => w
    | EvCall f args :: tr' => run_calls tr' (callee f args w)
    | EvReal _ _ :: tr' => run_calls tr' w
    end.

  Lemma interp_pre pre : forall w n l a, existsb is_real pre = false ->
      forall post, interp (pre ++ post) w n l a =
                   interp post (run_calls pre w) n l (a || match pre, n with [], _ => false | _, O => false | _, _ => true end).
  Proof.
    induction pre as [|e pre IH]; intros w n l a H post; cbn [app].
    - cbn. now rewrite orb_false_r.
    - destruct e as [f args|s args]; [|discriminate]. cbn [interp run_calls]. cbn in H.
      rewrite IH by assumption. f_equal. destruct pre, n; cbn; now rewrite ?orb_false_r, ?orb_true_r.
  Qed.

  (** C01 core: for every world, every callee behaviour and every real function, a wrapper whose
      trace is [pre ++ [EvReal api ps]] with no real call in [pre] calls the real function exactly
      once, on the world left by all the callees, after all of them, and nothing runs afterwards. *)
  Theorem once_last pre api ps w :
    existsb is_real pre = false ->
    interp (pre ++ [EvReal api ps]) w 0 None false =
      (fst (real api ps (run_calls pre w)), 1, Some (snd (real api ps (run_calls pre w))), false).
  Proof.
    intros H. rewrite interp_pre by assumption. cbn [interp].
    destruct (real api ps (run_calls pre w)) as [w' z]. cbn. destruct pre; reflexivity.
  Qed.
End Interp.

Lemma wrapper_ok_shape api nargs log_fn sk : wrapper_ok api nargs log_fn sk = true ->
  exists pre, run [] (sk_body sk) = Some (pre ++ [EvReal api (params nargs)], RReal)
              /\ existsb is_real pre = false /\ existsb (is_call_of log_fn) pre = true.
Proof.
  unfold wrapper_ok. destruct (run [] (sk_body sk)) as [[tr r]|]; [|discriminate]. destruct r; try discriminate.
  destruct (rev tr) as [|e pre_rev] eqn:E; [discriminate|]. destruct e as [|sym args]; [discriminate|].
  intros H. repeat (apply andb_true_iff in H as [H ?]).
  apply String.eqb_eq in H. subst sym.
  destruct (list_eq_dec _ args (params nargs)) as [->|]; [|discriminate].
  exists (rev pre_rev). assert (tr = rev pre_rev ++ [EvReal api (params nargs)]) as ->.
  { rewrite <- (rev_involutive tr), E. reflexivity. }
  split; [reflexivity|]. split.
  - rewrite negb_true_iff in *. destruct (existsb is_real (rev pre_rev)) eqn:X; [|reflexivity].
    apply existsb_exists in X as [x [Hx Hr]]. apply in_rev in Hx.
    assert (existsb is_real pre_rev = true) by (apply existsb_exists; eauto). congruence.
  - match goal with H : existsb (is_call_of log_fn) pre_rev = true |- _ => apply existsb_exists in H as [x [Hx Hc]] end.
    apply existsb_exists. exists x. split; [now apply in_rev in Hx|assumption].
Qed.

(** * The library's external call set (Gen_Calls): no other route to an exec, no process-state mutator *)
Definition exec_family : list string :=
  ["execv"; "execve"; "execvp"; "execvpe"; "execl"; "execlp"; "execle"; "fexecve"; "execveat"; "system"; "popen";
   "posix_spawn"; "posix_spawnp"; "fork"; "vfork"; "clone"; "clone3"; "_Fork"].
Definition no_return_family : list string :=
  ["exit"; "_exit"; "_Exit"; "abort"; "quick_exit"; "longjmp"; "siglongjmp"; "pthread_exit"; "raise"; "kill"; "pthread_kill"; "__assert_fail"].
(** libc interfaces that answer through one static object shared by the whole process (the caller may be holding such an answer when
    it calls exec, e.g. [execv(pw->pw_shell, ...)] after [getpwuid]), or keep a hidden cursor: the reentrant twins are what the library may use *)
Definition static_result_family : list string :=
  ["getpwuid"; "getpwnam"; "getpwent"; "getgrgid"; "getgrnam"; "getgrent"; "getspnam"; "getlogin"; "cuserid"; "ttyname"; "ctermid"; "ptsname";
   "localtime"; "gmtime"; "asctime"; "ctime"; "strtok"; "strerror"; "strsignal"; "gethostbyname"; "gethostbyaddr"; "gethostent";
   "getservbyname"; "getservbyport"; "getprotobyname"; "getnetbyname"; "inet_ntoa"; "ether_ntoa"; "readdir"; "getutent"; "getutid"; "getutline";
   "getmntent"; "basename"; "dirname"; "tmpnam"; "tempnam"; "crypt"; "ecvt"; "fcvt"; "l64a"; "getdate"; "nl_langinfo"; "setlocale";
   "getpass"; "rand"; "srand"; "random"; "srandom"; "drand48"; "lrand48"; "mrand48"; "hsearch"; "hcreate"].
Definition state_mutators : list string :=
  ["setenv"; "putenv"; "unsetenv"; "clearenv"; "chdir"; "fchdir"; "chroot"; "umask"; "sigprocmask"; "pthread_sigmask"; "signal"; "sigaction";
   "sigaltstack"; "setuid"; "seteuid"; "setreuid"; "setresuid"; "setgid"; "setegid"; "setregid"; "setresgid"; "setsid"; "setpgid";
   "setrlimit"; "prctl"; "nice"; "setpriority"; "dup2"; "dup3"; "closefrom"; "close_range"; "alarm"; "setitimer"; "atexit"; "on_exit"].
