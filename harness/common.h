/* Shared part of the implementation-side drivers (function level).
 *
 * Case lines:   fn<TAB>field<TAB>field...   byte strings in lowercase hex, "-" = empty, "~" = NULL,
 *               lists of strings "h1,h2,...", "[]" = empty list, "~" = NULL vector.
 * Result lines: one per case, in order: status<TAB>fields...
 *               status = ok | crash:<signal> | san:<asan|ubsan> | timeout | ...(driver specific)
 *
 * Cases run sequentially in a forked worker; when the worker dies (sanitizer abort, signal,
 * per-case alarm) the parent attributes the death to the case in flight, prints its status
 * and restarts a worker at the next case.
 */
#ifndef VERIF_COMMON_H
#define VERIF_COMMON_H
#define _GNU_SOURCE
#include <stdio.h>
#include <stdlib.h>
#include <string.h>
#include <unistd.h>
#include <signal.h>
#include <errno.h>
#include <sys/wait.h>
#include <sys/types.h>

#define MAXF 64

typedef struct { char *p; size_t n; int isnull; } vbytes;
typedef struct { char **v; size_t n; int isnull; } vlist;

static int hexval(int c) { return c <= '9' ? c - '0' : c - 'a' + 10; }

static vbytes parse_bytes(const char *h) {
    vbytes r = {0, 0, 0};
    if (!strcmp(h, "~")) { r.isnull = 1; return r; }
    if (!strcmp(h, "-")) { r.p = calloc(1, 1); return r; }
    size_t n = strlen(h) / 2;
    r.p = malloc(n + 1); r.n = n;
    for (size_t i = 0; i < n; i++) r.p[i] = (char)(hexval(h[2*i]) * 16 + hexval(h[2*i+1]));
    r.p[n] = 0;
    return r;
}

/* NULL-terminated vector of C strings */
static vlist parse_list(const char *h) {
    vlist r = {0, 0, 0};
    if (!strcmp(h, "~")) { r.isnull = 1; return r; }
    if (!strcmp(h, "[]")) { r.v = calloc(1, sizeof(char*)); return r; }
    size_t cnt = 1; for (const char *q = h; *q; q++) if (*q == ',') cnt++;
    r.v = calloc(cnt + 1, sizeof(char*)); r.n = cnt;
    char *dup = strdup(h), *save = 0; size_t i = 0;
    for (char *tok = strtok_r(dup, ",", &save); tok; tok = strtok_r(0, ",", &save)) r.v[i++] = parse_bytes(tok).p;
    r.v[i] = 0; r.n = i; free(dup);
    return r;
}

static void put_hex(FILE *o, const char *p, size_t n) {
    if (!p) { fputs("~", o); return; }
    if (!n) { fputs("-", o); return; }
    for (size_t i = 0; i < n; i++) fprintf(o, "%02x", (unsigned char)p[i]);
}
static void put_hexs(FILE *o, const char *s) { put_hex(o, s, s ? strlen(s) : 0); }

typedef void (*case_fn)(int nf, char **f, FILE *out);

static int split_tabs(char *line, char **f) {
    int nf = 0; char *p = line;
    while (nf < MAXF) { f[nf++] = p; char *t = strchr(p, '\t'); if (!t) break; *t = 0; p = t + 1; }
    return nf;
}

static int run_cases(FILE *in, case_fn handle, int per_case_alarm) {
    /* read all lines */
    size_t cap = 1024, n = 0; char **lines = malloc(cap * sizeof(char*));
    char *line = 0; size_t lcap = 0; ssize_t len;
    while ((len = getline(&line, &lcap, in)) >= 0) {
        while (len > 0 && (line[len-1] == '\n' || line[len-1] == '\r')) line[--len] = 0;
        if (n == cap) { cap *= 2; lines = realloc(lines, cap * sizeof(char*)); }
        lines[n++] = strdup(line);
    }
    size_t next = 0;
    int ntimeouts = 0;
    while (next < n) {
        if (ntimeouts >= 10) {
            /* a tree on which ten cases already hung is decided; do not spend per_case_alarm seconds on each remaining case */
            for (; next < n; next++) printf("skipped:after-10-timeouts\n");
            fflush(stdout);
            break;
        }
        int pfd[2]; if (pipe(pfd)) { perror("pipe"); return 2; }
        fflush(stdout);
        pid_t pid = fork();
        if (pid < 0) { perror("fork"); return 2; }
        if (pid == 0) {
            close(pfd[0]);
            FILE *prog = fdopen(pfd[1], "w");
            for (size_t i = next; i < n; i++) {
                char *f[MAXF]; char *copy = strdup(lines[i]); int nf = split_tabs(copy, f);
                fprintf(prog, "S %zu\n", i); fflush(prog);
                alarm(per_case_alarm);
                char *mb = 0; size_t ml = 0; FILE *m = open_memstream(&mb, &ml);
                handle(nf, f, m);
                alarm(0);
                fclose(m); fwrite(mb, 1, ml, stdout); free(mb);
                fputc('\n', stdout); fflush(stdout);
                fprintf(prog, "D %zu\n", i); fflush(prog);
                free(copy);
            }
            _exit(0);
        }
        close(pfd[1]);
        FILE *prog = fdopen(pfd[0], "r");
        char tag; size_t idx; size_t started = (size_t)-1, done = (size_t)-1;
        while (fscanf(prog, " %c %zu", &tag, &idx) == 2) { if (tag == 'S') started = idx; else done = idx; }
        fclose(prog);
        int st; waitpid(pid, &st, 0);
        if (WIFEXITED(st) && WEXITSTATUS(st) == 0 && done == n - 1) { next = n; break; }
        /* worker died in case `started` (or before starting any) */
        size_t dead = (started == (size_t)-1) ? next : started;
        if (done != (size_t)-1 && done == dead) dead = done + 1;   /* died between cases */
        if (dead >= n) { next = n; break; }
        if (WIFSIGNALED(st)) {
            int sg = WTERMSIG(st);
            if (sg == SIGALRM) { printf("timeout\n"); ntimeouts++; } else printf("crash:%d\n", sg);
        } else if (WEXITSTATUS(st) == 77) printf("san:asan\n");
        else if (WEXITSTATUS(st) == 78) printf("san:ubsan\n");
        else printf("exit:%d\n", WEXITSTATUS(st));
        fflush(stdout);
        next = dead + 1;
    }
    return 0;
}
#endif
