/* implementation-side driver, area "config": lib/inih ini.c, configfile.c (callback, value parsers, option-value API),
 * configuration.c, util/parser.c, util/syslog.c compiled from the snapshot (ASan+UBSan).
 * argv[1] or $VERIF_CASE_INI = scratch file the case's configuration bytes are written to. */
#include "common.h"
#include "snoopy.h"
#include "configuration.h"
#include "configfile.h"
#include "lib/inih/src/ini.h"

void snoopy_init(void);
void snoopy_cleanup(void);
static const char *ini_path;

typedef struct { char **v; size_t n, cap; } evlist;
static void ev_push(evlist *l, const char *s) {
    if (l->n == l->cap) { l->cap = l->cap ? l->cap * 2 : 64; l->v = realloc(l->v, l->cap * sizeof(char *)); }
    l->v[l->n++] = strdup(s ? s : "(null)");
}
static int rec_handler(void *user, const char *section, const char *name, const char *value) {
    evlist *l = user; ev_push(l, section); ev_push(l, name); ev_push(l, value); return 1;
}
static void write_file(vbytes d) {
    /* a NEW file is moved over the path for every case (a reader that kept the previous inode open would see stale text) */
    char tmp[4200]; snprintf(tmp, sizeof tmp, "%s.new", ini_path);
    FILE *f = fopen(tmp, "wb");
    if (!f) { perror("scratch ini"); _exit(3); }
    if (d.n) fwrite(d.p, 1, d.n, f);
    fclose(f);
    if (rename(tmp, ini_path)) { perror("rename scratch ini"); _exit(3); }
}
static void put_list(FILE *out, char **v, size_t n) {
    if (!n) { fputs("[]", out); return; }
    for (size_t i = 0; i < n; i++) { if (i) fputc(',', out); put_hexs(out, v[i]); }
}
static void put_cfg(FILE *out) {
    snoopy_configuration_t *CFG = snoopy_configuration_get();
    snoopy_configfile_option_t *reg = snoopy_configfile_optionRegistry_getAll();
    fprintf(out, "ok\t");
    int any = 0;
    for (int i = 0; 0 != strcmp(reg[i].name, ""); i++) {
        char *val = snoopy_configfile_optionRegistry_getOptionValueAsString(reg[i].name);
        if (any) fputc(',', out);
        any = 1;
        put_hexs(out, reg[i].name); fputc(',', out); put_hexs(out, val ? val : "(null)");
        free(val);
    }
    if (!any) fputs("[]", out);
    fprintf(out, "\t%d:%d:%d:%d:%d:", CFG->error_logging_enabled ? 1 : 0, CFG->syslog_facility, CFG->syslog_level,
            (int)CFG->datasource_message_max_length, (int)CFG->log_message_max_length);
    put_hexs(out, CFG->output); fputc(':', out); put_hexs(out, CFG->output_arg);
}

static void handle(int nf, char **f, FILE *out) {
    if (!strcmp(f[0], "ini") && nf == 2) {
        vbytes d = parse_bytes(f[1]);
        write_file(d);
        evlist a = {0, 0, 0};
        errno = EINTR;                       /* the caller may arrive with any errno (e.g. after an interrupted call) */
        int ret = ini_parse(ini_path, rec_handler, &a);
        if (!memchr(d.p, 0, d.n)) {          /* the string reader must agree with fgets on NUL-free input */
            evlist b = {0, 0, 0};
            int ret2 = ini_parse_string(d.p, rec_handler, &b);
            int same = ret == ret2 && a.n == b.n;
            for (size_t i = 0; same && i < a.n; i++) same = !strcmp(a.v[i], b.v[i]);
            if (!same) { fprintf(out, "strdiff\t%d\t%d", ret, ret2); return; }
        }
        fprintf(out, "ok\t%d\t", ret); put_list(out, a.v, a.n);
    } else if (!strcmp(f[0], "load") && nf == 2) {
        write_file(parse_bytes(f[1]));
        snoopy_configuration_preinit_enableAltConfigFileParsing((char *)ini_path);
        errno = EINTR;
        snoopy_init();
        put_cfg(out);
        snoopy_cleanup();
    } else if (!strcmp(f[0], "cb") && nf == 4) {
        vbytes s = parse_bytes(f[1]), n = parse_bytes(f[2]), v = parse_bytes(f[3]);
        snoopy_configuration_preinit_disableConfigFileParsing();
        snoopy_init();
        snoopy_configfile_iniParser_callback(snoopy_configuration_get(), s.p, n.p, v.p);
        put_cfg(out);
        snoopy_cleanup();
    } else fprintf(out, "driver-error:bad-case");
}

int main(int argc, char **argv) {
    ini_path = argc > 1 ? argv[1] : getenv("VERIF_CASE_INI");
    if (!ini_path) { fprintf(stderr, "no scratch ini path\n"); return 2; }
    return run_cases(stdin, handle, 5);
}
