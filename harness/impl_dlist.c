/* implementation-side driver for the function-level tie of C09 (T3): random operation sequences on the real
 * src/util/list.c of the snapshot (compiled into this translation unit so that calloc can be made to fail; ASan+UBSan build).
 * Same case/result grammar as ocaml/drv_conc.ml `dlist`:
 *   dlist <ops>   ops: p<v> push v | F<v> push v with a failing allocation | r<i> remove the i-th node | rN remove NULL
 *   -> ok <per-op results ;-separated>    each: <opresult>:<count>:<values seen by walking with fetchNextNode> */
#include "common.h"
#include <stdint.h>
static int fail_next_calloc;
static void *verif_calloc(size_t n, size_t s) { if (fail_next_calloc) { fail_next_calloc = 0; return NULL; } return calloc(n, s); }
#define calloc verif_calloc
#include "src/util/list.c"
#undef calloc

/* the driver is linked with the non-thread-safe objects (no tsrm.o): the one reference the thread-count data source keeps */
int snoopy_tsrm_get_threadCount(void) { return 1; }
void snoopy_init(void); void snoopy_cleanup(void);
void snoopy_configuration_preinit_disableConfigFileParsing(void);

int __lsan_do_recoverable_leak_check(void) __attribute__((weak));

static void walk(list_t *l, FILE *out, listNode_t **nodes, size_t *n) {
    listNode_t *cur = NULL; size_t k = 0; int first = 1;
    while (NULL != (cur = snoopy_util_list_fetchNextNode(l, cur))) {
        if (nodes && k < 4096) nodes[k] = cur;
        k++;
        if (out) { fprintf(out, "%s%lu", first ? "" : ",", (unsigned long)(uintptr_t) cur->value); first = 0; }
        if (k > 100000) break;
    }
    if (n) *n = k;
}

static void handle(int nf, char **f, FILE *out) {
    if (nf < 2 || strcmp(f[0], "dlist")) { fputs("driver-error:bad-case", out); return; }
    /* list.c reports its own errors through snoopy_error_handler, which reads the calling thread's configuration:
       run inside an initialised library, as the list functions always do in the library itself */
    snoopy_configuration_preinit_disableConfigFileParsing();
    snoopy_init();
    list_t L = { .first = NULL, .last = NULL, .count = 0 };
    static listNode_t *nodes[4096];
    fputs("ok\t", out);
    char *save = NULL; int firstop = 1;
    for (char *tok = strtok_r(f[1], ",", &save); tok; tok = strtok_r(NULL, ",", &save)) {
        if (!firstop) fputc(';', out);
        firstop = 0;
        char kind = tok[0]; const char *arg = tok + 1;
        if (kind == 'p' || kind == 'F') {
            if (kind == 'F') fail_next_calloc = 1;
            int r = snoopy_util_list_push(&L, (void *)(uintptr_t) strtoul(arg, NULL, 10));
            fail_next_calloc = 0;
            fputs(r == SNOOPY_SUCCESS ? "ok" : "err", out);
        } else if (kind == 'r') {
            size_t n = 0; walk(&L, NULL, nodes, &n);
            listNode_t *target = NULL;
            if (strcmp(arg, "N")) { size_t i = strtoul(arg, NULL, 10); if (i < n && i < 4096) target = nodes[i]; }
            void *v = snoopy_util_list_remove(&L, target);
            if (v) fprintf(out, "v%lu", (unsigned long)(uintptr_t) v); else fputs("null", out);
        } else fputs("badop", out);
        fprintf(out, ":%d:", L.count);
        walk(&L, out, NULL, NULL);
    }
    /* release what is left (LeakSanitizer is off, but keep the heap tidy for ASan's quarantine) */
    size_t n = 0; walk(&L, NULL, nodes, &n);
    for (size_t i = n; i-- > 0;) if (i < 4096) snoopy_util_list_remove(&L, nodes[i]);
    snoopy_cleanup();
    /* every node the list allocated must have been freed by now (LeakSanitizer, when the run enables it) */
    memset(nodes, 0, sizeof nodes);
    if (__lsan_do_recoverable_leak_check && __lsan_do_recoverable_leak_check()) fputs("\tLEAK", out);
}

int main(void) { return run_cases(stdin, handle, 10); }
