/* implementation-side driver, area "dstruth" (C12).
 *
 * One case line = one process state.  For every case a child process is forked which
 *   1. CONSTRUCTS the state (real/effective/saved ids, session / process group, working directory,
 *      stdin on a pty / pipe / closed, environment vector, ancestor chain, second thread, login uid,
 *      host name in a private UTS namespace, clock value, time zone, generated procfs text),
 *   2. MEASURES it independently of the libc wrappers the data sources use (raw getresuid/getresgid,
 *      own parsing of /proc/self/stat, /proc/thread-self, /proc/self/cwd, /proc/self/fd/N, raw TCGETS ioctl,
 *      fstat, /proc/sys/kernel/hostname, own reading of /etc/passwd and /etc/group, arch_prctl(ARCH_GET_FS), ...),
 *   3. RUNS every requested data source through the registry of the library objects built from the
 *      snapshot (ASan+UBSan) with several result-buffer sizes,
 * and prints one line:  ok <TAB> 14 state fields (grammar of the model driver's `st` line) <TAB> R <TAB> name|arghex|size|ret|bufhex ...
 * A worker that dies is reported as crash:<sig> / san:asan / san:ubsan / timeout / exit:<n>.
 *
 * Case line: state<TAB>key=value<TAB>...   (keys: uids gids sess cwd stdin env chain thread clock tz fmts login host
 *            sizes envnames cgargs exec procfake cgtext only lits)
 * argv[1] = scratch directory (cwd constructions, redirected procfs files).
 */
#include "common.h"
#include <dlfcn.h>
#include <fcntl.h>
#include <limits.h>
#include <pthread.h>
#include <pty.h>
#include <sched.h>
#include <sys/ioctl.h>
#include <sys/prctl.h>
#include <sys/stat.h>
#include <sys/syscall.h>
#include <sys/time.h>
#include <sys/utsname.h>
#include <time.h>
#include <asm/prctl.h>
#include <termios.h>
#include <utmp.h>
#include <grp.h>

extern char **environ;
void snoopy_init(void);
void snoopy_cleanup(void);
void snoopy_configuration_preinit_disableConfigFileParsing(void);
void snoopy_inputdatastorage_store_filename(const char *);
void snoopy_inputdatastorage_store_argv(char *const argv[]);
void snoopy_inputdatastorage_store_envp(char *const envp[]);
int snoopy_datasourceregistry_callByName(char const *const, char *const, size_t, char const *const);

static const char *scratch = "/tmp";
static FILE *OUT;      /* result pipe of the case */
static int case_no = 0;

/* ------------------------------------------------------------------ interposed clock and procfs redirection */
static int fake_clock = 0; static long fake_sec = 0, fake_usec = 0;
int gettimeofday(struct timeval *tv, void *tz) {
    if (fake_clock) { if (tv) { tv->tv_sec = fake_sec; tv->tv_usec = fake_usec; } return 0; }
    struct timespec ts; syscall(SYS_clock_gettime, CLOCK_REALTIME, &ts);
    if (tv) { tv->tv_sec = ts.tv_sec; tv->tv_usec = ts.tv_nsec / 1000; }
    return 0;
}
/* time() reads the kernel's COARSE clock (vDSO, CLOCK_REALTIME_COARSE): it lags the fine clock by up to one timer tick.
 * "coarse=<usec>" constructs that lag for the pinned clock. */
static long coarse_lag_usec = 0;
time_t time(time_t *t) {
    struct timeval tv; gettimeofday(&tv, 0);
    long long us = (long long)tv.tv_sec * 1000000 + tv.tv_usec - (fake_clock ? coarse_lag_usec : 0);
    time_t r = (time_t)(us >= 0 ? us / 1000000 : 0);
    if (t) *t = r;
    return r;
}

#define MAXFAKE 64
static int nfake = 0; static long fake_pid[MAXFAKE]; static char *fake_path[MAXFAKE];   /* /proc/<pid>/status -> file */
static int fake_status_on = 0;
static char *fake_cgroup = 0;          /* /proc/<own pid>/cgroup -> file */
static char *fake_hosts = 0;           /* /etc/hosts -> file */
static char *pwd_alias = 0;            /* "PWD=<alias path>" appended to the environment vector (cwd=symlink) */
static char *alt_utmp = 0;             /* utmpname() file written by the construction */
FILE *fopen(const char *path, const char *mode) {
    static FILE *(*real)(const char *, const char *) = 0;
    if (!real) real = (FILE *(*)(const char *, const char *))dlsym(RTLD_NEXT, "fopen");
    long n; char tail[32];
    if (fake_status_on && sscanf(path, "/proc/%ld/%31s", &n, tail) == 2 && !strcmp(tail, "status")) {
        for (int i = 0; i < nfake; i++) if (fake_pid[i] == n) return real(fake_path[i], mode);
        errno = ENOENT; return 0;
    }
    if (fake_cgroup && sscanf(path, "/proc/%ld/%31s", &n, tail) == 2 && !strcmp(tail, "cgroup")) return real(fake_cgroup, mode);
    if (fake_hosts && !strcmp(path, "/etc/hosts")) return real(fake_hosts, mode);
    return real(path, mode);
}

/* ------------------------------------------------------------------ small helpers */
static char *slurp(const char *path, size_t *len) {      /* raw open/read, no stdio */
    int fd = open(path, O_RDONLY); if (fd < 0) return 0;
    size_t cap = 65536, n = 0; char *b = malloc(cap + 1); ssize_t r;
    while ((r = read(fd, b + n, cap - n)) > 0) { n += r; if (n == cap) { cap *= 2; b = realloc(b, cap + 1); } }
    close(fd); b[n] = 0; if (len) *len = n; return b;
}
static void spit(const char *path, const char *p, size_t n) { int fd = open(path, O_WRONLY | O_CREAT | O_TRUNC, 0644); if (fd >= 0) { if (write(fd, p, n) < 0) {} close(fd); } }
static const char *kv(int nf, char **f, const char *key) {
    size_t k = strlen(key);
    for (int i = 1; i < nf; i++) if (!strncmp(f[i], key, k) && f[i][k] == '=') return f[i] + k + 1;
    return 0;
}
/* a waiting ancestor passes an abnormal end of its child on to the result pipe and to its own parent */
static void relay(int st) {
    if (WIFEXITED(st) && WEXITSTATUS(st) == 0) _exit(0);
    int code = WIFEXITED(st) ? WEXITSTATUS(st) : 128 + WTERMSIG(st);
    fprintf(OUT, "\001EXIT:%d\001", code); fflush(OUT); _exit(code > 255 ? 70 : code);
}
static void die(const char *what) { fprintf(OUT, "construct-failed:%s:%d\n", what, errno); fflush(OUT); _exit(3); }

/* field 4.. of /proc/<x>/stat after the last ')' : state ppid pgrp session */
static int stat_fields(const char *path, long *pid, long *ppid, long *pgrp, long *sess, char *comm, size_t commsz) {
    char *b = slurp(path, 0); if (!b) return -1;
    char *lp = strchr(b, '('), *rp = strrchr(b, ')'); if (!lp || !rp) { free(b); return -1; }
    *pid = atol(b);
    if (comm) { size_t n = rp - lp - 1; if (n >= commsz) n = commsz - 1; memcpy(comm, lp + 1, n); comm[n] = 0; }
    char st; int r = sscanf(rp + 1, " %c %ld %ld %ld", &st, ppid, pgrp, sess);
    free(b); return r == 4 ? 0 : -1;
}

/* /etc/passwd and /etc/group read by hand: "id:hexname,..." */
static void put_db(FILE *o, const char *path) {
    char *b = slurp(path, 0); int first = 1;
    if (!b) { fputs("[]", o); return; }
    char *save = 0;
    for (char *line = strtok_r(b, "\n", &save); line; line = strtok_r(0, "\n", &save)) {
        char *c1 = strchr(line, ':'); if (!c1) continue;
        char *c2 = strchr(c1 + 1, ':'); if (!c2) continue;
        char *c3 = strchr(c2 + 1, ':'); if (c3) *c3 = 0;
        *c1 = 0;
        /* the first entry for an id wins (what the files backend returns) */
        if (!first) fputc(',', o);
        fprintf(o, "%s:", c2 + 1); put_hexs(o, line); first = 0;
    }
    if (first) fputs("[]", o);
    free(b);
}
static char *db_name(const char *path, unsigned long id) {     /* first entry with that id */
    char *b = slurp(path, 0); if (!b) return 0; char *save = 0, *res = 0;
    for (char *line = strtok_r(b, "\n", &save); line && !res; line = strtok_r(0, "\n", &save)) {
        char *c1 = strchr(line, ':'); if (!c1) continue;
        char *c2 = strchr(c1 + 1, ':'); if (!c2) continue;
        if (strtoul(c2 + 1, 0, 10) == id && c2[1] >= '0' && c2[1] <= '9') { *c1 = 0; res = strdup(line); }
    }
    free(b); return res;
}

/* ------------------------------------------------------------------ the work done inside the constructed state */
struct job { int nf; char **f; const char *cwd_known; int cwd_none; const char *tag; };

static void put_list_field(FILE *o, char **v) {
    if (!v) { fputs("~", o); return; }
    if (!v[0]) { fputs("[]", o); return; }
    for (int i = 0; v[i]; i++) { if (i) fputc(',', o); put_hexs(o, v[i]); }
}

struct racer { const char *name; int n; char first[256]; char out[256]; int ret; };
static void *racer_main(void *p) {
    struct racer *r = p;
    snoopy_init();
    for (int i = 0; i < r->n; i++) {
        r->ret = snoopy_datasourceregistry_callByName(r->name, r->out, sizeof r->out, "");
        if (strcmp(r->out, r->first)) break;
    }
    snoopy_cleanup();
    return 0;
}

static void measure_and_run(struct job *j) {
    int nf = j->nf; char **f = j->f;
    FILE *o = OUT;
    alarm(60);
    /* ---------------- measure ---------------- */
    unsigned int ru, eu, su, rg, eg, sg;
    syscall(SYS_getresuid, &ru, &eu, &su); syscall(SYS_getresgid, &rg, &eg, &sg);
    long pid, ppid, pgrp, sess, tid, d1, d2, d3;
    if (stat_fields("/proc/self/stat", &pid, &ppid, &pgrp, &sess, 0, 0)) die("proc-self-stat");
    if (stat_fields("/proc/thread-self/stat", &tid, &d1, &d2, &d3, 0, 0)) die("proc-thread-self-stat");
    unsigned long fsbase = 0; syscall(SYS_arch_prctl, ARCH_GET_FS, &fsbase);
    struct timespec ts; syscall(SYS_clock_gettime, CLOCK_REALTIME, &ts);
    long sec = fake_clock ? fake_sec : ts.tv_sec, usec = fake_clock ? fake_usec : ts.tv_nsec / 1000;
    fprintf(o, "ok:%s\t%u,%u,%u,%u,%u,%u,%ld,%ld,%ld,%ld,%lu,%ld,%ld,%ld\t", j->tag ? j->tag : "main", ru, eu, su, rg, eg, sg, pid, ppid, sess, pgrp, fsbase, tid, sec, usec);
    /* cwd */
    {
        char lb[8192]; ssize_t n = readlink("/proc/self/cwd", lb, sizeof lb - 1);
        struct stat sb; int have = stat(".", &sb) == 0;
        if (j->cwd_none || (have && sb.st_nlink == 0)) fputs("~", o);
        else if (n > 0) { lb[n] = 0; put_hex(o, lb, n); }
        else if (j->cwd_known) put_hexs(o, j->cwd_known);
        else fputs("~", o);
    }
    fputc('\t', o);
    { size_t n = 0; char *h = slurp("/proc/sys/kernel/hostname", &n); if (h && n && h[n - 1] == '\n') n--; put_hex(o, h ? h : "", n); free(h); }
    fputc('\t', o);
    /* descriptors 0..2: closed / not a terminal / terminal with its path */
    char ownpath[3][256]; unsigned owner[3]; int isatty_[3] = {0, 0, 0};
    for (int fd = 0; fd < 3; fd++) {
        if (fd) fputc(',', o);
        struct termios tio; char lk[64], nm[256];
        if (fcntl(fd, F_GETFD) < 0) { fprintf(o, "%d:E:%d", fd, EBADF); continue; }
        if (syscall(SYS_ioctl, fd, TCGETS, &tio) < 0) { fprintf(o, "%d:E:%d", fd, ENOTTY); continue; }
        snprintf(lk, sizeof lk, "/proc/self/fd/%d", fd); ssize_t n = readlink(lk, nm, sizeof nm - 1); if (n < 0) n = 0; nm[n] = 0;
        struct stat sb; fstat(fd, &sb); owner[fd] = sb.st_uid; strcpy(ownpath[fd], nm); isatty_[fd] = 1;
        fprintf(o, "%d:N:", fd); put_hexs(o, nm);
    }
    fputc('\t', o);
    { int first = 1; for (int fd = 0; fd < 3; fd++) if (isatty_[fd]) { int dup = 0; for (int g = 0; g < fd; g++) if (isatty_[g] && !strcmp(ownpath[g], ownpath[fd])) dup = 1;
          if (dup) continue; if (!first) fputc(',', o); put_hexs(o, ownpath[fd]); fprintf(o, ":%u", owner[fd]); first = 0; }
      if (first) fputs("[]", o); }
    fputc('\t', o);
    /* login: /proc/self/loginuid, then the passwd file (glibc's rule: unset -> fails; uid without entry -> utmp entry of the terminal on fd 0) */
    {
        char *lu = slurp("/proc/self/loginuid", 0); char *nm = 0;
        int unset = 0;
        if (lu) { unsigned long u = strtoul(lu, 0, 10); if (u != 4294967295UL) nm = db_name("/etc/passwd", u); else unset = 1; }
        /* glibc: an unset login uid ends the search (ENXIO); a login uid without passwd entry falls back to utmp */
        if (!nm && !unset && alt_utmp && isatty_[0] && !strncmp(ownpath[0], "/dev/", 5)) {
            /* then the utmp entry of the terminal on fd 0 (read by hand from the file this harness wrote) */
            size_t n = 0; char *ub = slurp(alt_utmp, &n);
            for (size_t off = 0; ub && off + sizeof(struct utmp) <= n && !nm; off += sizeof(struct utmp)) {
                struct utmp *u = (struct utmp *)(ub + off);
                if ((u->ut_type == USER_PROCESS || u->ut_type == LOGIN_PROCESS) && !strncmp(u->ut_line, ownpath[0] + 5, sizeof u->ut_line)) nm = strndup(u->ut_user, sizeof u->ut_user);
            }
            free(ub);
        }
        put_hexs(o, nm); free(lu); free(nm);
    }
    fputc('\t', o);
    put_list_field(o, environ); fputc('\t', o);
    put_db(o, "/etc/passwd"); fputc('\t', o);
    put_db(o, "/etc/group"); fputc('\t', o);
    /* cgroup text (the redirected file when generated text is in force) */
    { char p[64]; snprintf(p, sizeof p, "/proc/%ld/cgroup", pid); size_t n = 0; char *t = slurp(fake_cgroup ? fake_cgroup : p, &n); if (t) put_hex(o, t, n); else fputs("~", o); free(t); }
    fputc('\t', o);
    /* /proc/<n>/status of the ancestors (real: walked through /proc/<n>/stat; generated: the table) */
    {
        int first = 1;
        if (fake_status_on) {
            for (int i = 0; i < nfake; i++) { size_t n = 0; char *t = slurp(fake_path[i], &n); if (!first) fputc(',', o); fprintf(o, "%ld:", fake_pid[i]); put_hex(o, t, n); first = 0; free(t); }
        } else {
            long p = pid; int guard = 0;
            while (p > 1 && guard++ < 64) {
                char sp[64]; snprintf(sp, sizeof sp, "/proc/%ld/status", p); size_t n = 0; char *t = slurp(sp, &n);
                if (!t) break;
                if (!first) fputc(',', o); fprintf(o, "%ld:", p); put_hex(o, t, n); first = 0; free(t);
                long a, pp, b, c2; snprintf(sp, sizeof sp, "/proc/%ld/stat", p);
                if (stat_fields(sp, &a, &pp, &b, &c2, 0, 0)) break;
                p = pp;
            }
        }
        if (first) fputs("[]", o);
    }
    fputc('\t', o);
    /* strftime oracle (glibc, trusted): every requested format and the empty one is not asked */
    vlist fmts = {0, 0, 1}; const char *fs = kv(nf, f, "fmts"); if (fs) fmts = parse_list(fs);
    {
        time_t t = sec; struct tm tmv; localtime_r(&t, &tmv); int first = 1;
        for (size_t i = 0; fmts.v && i < fmts.n; i++) {
            static char big[65536]; size_t n = strftime(big, sizeof big, fmts.v[i], &tmv);
            if (!first) fputc(',', o); put_hexs(o, fmts.v[i]); fputc(':', o); put_hex(o, big, n); first = 0;
        }
        if (first) fputs("[]", o);
    }
    fputc('\t', o);
    /* the exec call being logged */
    const char *ex = kv(nf, f, "exec"); vbytes file = {0, 0, 1}; vlist argv = {0, 0, 1};
    if (ex) { char *d = strdup(ex), *bar = strchr(d, '|'); if (bar) { *bar = 0; argv = parse_list(bar + 1); } file = parse_bytes(d); }
    if (file.isnull) fputs("~", o); else put_hex(o, file.p, file.n);
    fputc('\t', o);
    put_list_field(o, argv.isnull ? 0 : argv.v);
    fputs("\tR", o);
    fflush(o);
    /* ---------------- run ---------------- */
    snoopy_configuration_preinit_disableConfigFileParsing();
    snoopy_init();
    snoopy_inputdatastorage_store_filename(file.isnull ? 0 : file.p);
    snoopy_inputdatastorage_store_argv(argv.isnull ? 0 : argv.v);
    static char *noenv[] = {0};
    snoopy_inputdatastorage_store_envp(noenv);
    const char *only = kv(nf, f, "only");
    static const char *plain[] = {"uid", "euid", "gid", "egid", "pid", "ppid", "sid", "tid", "tid_kernel", "username", "eusername", "group", "egroup",
        "cwd", "hostname", "env_all", "tty", "tty_uid", "tty_username", "login", "timestamp_ms", "timestamp_us", "timestamp",
        "snoopy_version", "snoopy_configure_command", "rpname", "filename", "cmdline", "domain", "ipaddr", "systemd_unit_name", 0};
    vlist sizes = parse_list(kv(nf, f, "sizes") ? kv(nf, f, "sizes") : "323536");   /* hex of decimal strings */
    vlist envn = {0, 0, 1}, cga = {0, 0, 1}, lits = {0, 0, 1};
    if (kv(nf, f, "envnames")) envn = parse_list(kv(nf, f, "envnames"));
    if (kv(nf, f, "cgargs")) cga = parse_list(kv(nf, f, "cgargs"));
    if (kv(nf, f, "lits")) lits = parse_list(kv(nf, f, "lits"));
    for (size_t si = 0; si < sizes.n; si++) {
        size_t sz = strtoull(sizes.v[si], 0, 10);
        for (int pass = 0; pass < 5; pass++) {
            const char *name = 0; char **args = 0; size_t nargs = 1; static char *one[] = {"", 0};
            for (int k = 0;; k++) {
                if (pass == 0) { name = plain[k]; if (!name) break; args = one; nargs = 1; }
                else if (k > 0) break;
                else if (pass == 1) { name = "env"; args = envn.v; nargs = envn.isnull ? 0 : envn.n; }
                else if (pass == 2) { name = "cgroup"; args = cga.v; nargs = cga.isnull ? 0 : cga.n; }
                else if (pass == 3) { name = "datetime"; args = fmts.v; nargs = fmts.isnull ? 0 : fmts.n; }
                else { name = "snoopy_literal"; args = lits.v; nargs = lits.isnull ? 0 : lits.n; }
                if (!strcmp(name, "systemd_unit_name") && sz < 64) continue;   /* reads entry+16: needs the >= 256-byte buffers snoopy passes */
                if (!strcmp(name, "ipaddr") && sz < 64 && alt_utmp) continue;    /* strlen() of a buffer inet_ntop left alone: same */
                if (only) { char pat[80]; snprintf(pat, sizeof pat, ",%s,", name); char hay[2048]; snprintf(hay, sizeof hay, ",%s,", only); if (!strstr(hay, pat)) continue; }
                for (size_t a = 0; a < nargs; a++) {
                    const char *arg = args[a];
                    if (pass == 3 && !strcmp(arg, "%FT%T%z") && a + 1 == nargs) arg = "";     /* the last format doubles as the default request */
                    char *buf = malloc(sz ? sz : 1); memset(buf, 'Z', sz ? sz : 1);
                    int ret = snoopy_datasourceregistry_callByName(name, buf, sz, arg);
                    size_t n = strnlen(buf, sz);
                    fprintf(o, "\t%s|", name); put_hexs(o, arg); fprintf(o, "|%zu|%d|", sz, ret);
                    if (n >= sz) fputs("!", o); else put_hex(o, buf, n);
                    fflush(o);
                    free(buf);
                }
            }
        }
    }
    snoopy_cleanup();
    /* "race=N": username (real uid) and tty_username (owner of the terminal) evaluated N times each in two threads at once; each thread
     * reports its first result that differs from its own first (single-threaded) result, else its last one */
    const char *rc = kv(nf, f, "race");
    if (rc && atoi(rc) > 0) {
        static struct racer R[2]; pthread_t t[2];
        R[0].name = "username"; R[1].name = "tty_username";
        for (int i = 0; i < 2; i++) { R[i].n = atoi(rc); snoopy_datasourceregistry_callByName(R[i].name, R[i].first, sizeof R[i].first, ""); }
        for (int i = 0; i < 2; i++) pthread_create(&t[i], 0, racer_main, &R[i]);
        for (int i = 0; i < 2; i++) pthread_join(t[i], 0);
        for (int i = 0; i < 2; i++) { fprintf(o, "\t%s|-|%zu|%d|", R[i].name, sizeof R[i].out, R[i].ret); put_hexs(o, R[i].out); }
    }
    fputc('\n', o); fflush(o);
}

static void *thread_main(void *p) { measure_and_run((struct job *)p); return 0; }

/* ------------------------------------------------------------------ construction */
static void construct_and_run(int nf, char **f) {
    struct job j = {nf, f, 0, 0, "main"};
    const char *v;
    char dir[PATH_MAX]; snprintf(dir, sizeof dir, "%s/c%d_%d", scratch, case_no, (int)getpid()); mkdir(dir, 0755);   /* case number: pids are reused */
    if ((v = kv(nf, f, "clock")) && strcmp(v, "real")) { fake_clock = 1; fake_sec = atol(v); const char *d = strchr(v, '.'); fake_usec = d ? atol(d + 1) : 0; }
    if ((v = kv(nf, f, "coarse"))) coarse_lag_usec = atol(v);
    /* host name in a private UTS namespace */
    if ((v = kv(nf, f, "host")) && strcmp(v, "keep")) { vbytes h = parse_bytes(v); if (unshare(CLONE_NEWUTS)) die("unshare-uts"); if (sethostname(h.p, h.n)) die("sethostname"); }
    if ((v = kv(nf, f, "hosts"))) { vbytes t = parse_bytes(v); char p[PATH_MAX]; snprintf(p, sizeof p, "%s/hosts", dir); spit(p, t.p, t.n); fake_hosts = strdup(p); }
    /* login uid */
    if ((v = kv(nf, f, "login")) && !strncmp(v, "uid:", 4)) { int fd = open("/proc/self/loginuid", O_WRONLY); if (fd < 0 || write(fd, v + 4, strlen(v + 4)) < 0) die("loginuid"); close(fd); }
    /* generated procfs text */
    if ((v = kv(nf, f, "cgtext"))) { vbytes t = parse_bytes(v); char p[PATH_MAX]; snprintf(p, sizeof p, "%s/cgroup", dir); spit(p, t.p, t.n); fake_cgroup = strdup(p); }
    const char *procfake = kv(nf, f, "procfake");
    /* working directory */
    v = kv(nf, f, "cwd");
    if (v && strcmp(v, "keep")) {
        static char known[3 * PATH_MAX];
        if (chdir(dir)) die("chdir");
        strcpy(known, dir);
        if (!strncmp(v, "deep:", 5) || !strncmp(v, "long:", 5)) {
            /* deep: n levels of short names;  long: total length of at least n bytes with 200-byte components */
            long n = atol(v + 5); int islong = v[0] == 'l';
            char comp[256]; memset(comp, 'd', 200); comp[200] = 0;
            while (islong ? (long)strlen(known) < n : n-- > 0) {
                const char *c = islong ? comp : "d";
                if (mkdir(c, 0755) && errno != EEXIST) die("mkdir"); if (chdir(c)) die("chdir-deep");
                strcat(known, "/"); strcat(known, c);
                if (strlen(known) > 2 * PATH_MAX) break;
            }
        } else if (!strncmp(v, "dir:", 4)) {
            vbytes nm = parse_bytes(v + 4); if (mkdir(nm.p, 0755)) die("mkdir-name"); if (chdir(nm.p)) die("chdir-name");
            strcat(known, "/"); strcat(known, nm.p);
        } else if (!strcmp(v, "renamed")) {
            if (mkdir("before", 0755) || chdir("before")) die("mkdir-before");
            char a[PATH_MAX], b[PATH_MAX]; snprintf(a, sizeof a, "%s/before", dir); snprintf(b, sizeof b, "%s/after the move", dir);
            if (rename(a, b)) die("rename"); strcpy(known, b);
        } else if (!strcmp(v, "deleted")) {
            if (mkdir("gone", 0755) || chdir("gone")) die("mkdir-gone");
            char a[PATH_MAX]; snprintf(a, sizeof a, "%s/gone", dir); if (rmdir(a)) die("rmdir"); j.cwd_none = 1;
        } else if (!strcmp(v, "root")) { if (chdir("/")) die("chdir-root"); strcpy(known, "/"); }
        else if (!strcmp(v, "symlink")) {
            /* reached through a symbolic link, with PWD naming the alias (what a shell does after `cd alias`): the directory is the real one */
            char a[PATH_MAX], b[PATH_MAX]; snprintf(a, sizeof a, "%s/real dir", dir); snprintf(b, sizeof b, "%s/alias", dir);
            if (mkdir(a, 0755) || symlink(a, b) || chdir(b)) die("symlink-cwd");
            strcpy(known, a); static char pwd[PATH_MAX + 8]; snprintf(pwd, sizeof pwd, "PWD=%s", b); pwd_alias = pwd;
        }
        j.cwd_known = known;
    }
    /* stdin */
    v = kv(nf, f, "stdin");
    if (v && strcmp(v, "keep")) {
        if (!strncmp(v, "pty:", 4)) {
            int m, s; if (openpty(&m, &s, 0, 0, 0)) die("openpty");
            if (fchown(s, (uid_t)strtoul(v + 4, 0, 10), (gid_t)-1)) die("fchown-pty");
            dup2(s, 0); if (s > 2) close(s);
            /* the master stays open in this process (otherwise reads on the slave hang up); moved out of the way */
            int hm = fcntl(m, F_DUPFD, 200); close(m); (void)hm;
        } else if (!strcmp(v, "pipe")) { int p[2]; if (pipe(p)) die("pipe"); dup2(p[0], 0); close(p[0]); int hw = fcntl(p[1], F_DUPFD, 210); close(p[1]); (void)hw; }
        else if (!strcmp(v, "closed")) close(0);
        else if (!strcmp(v, "null")) { int d = open("/dev/null", O_RDONLY); dup2(d, 0); if (d > 2) close(d); }
        else if (!strcmp(v, "file")) { char p[PATH_MAX]; snprintf(p, sizeof p, "%s/stdin.txt", dir); int d = open(p, O_RDWR | O_CREAT, 0644); dup2(d, 0); if (d > 2) close(d); }
        /* stdout/stderr variants: "pty1:<uid>" puts a SECOND pty (other owner) on fd 1 and 2 is left alone */
    }
    if ((v = kv(nf, f, "stdout")) && !strncmp(v, "pty:", 4)) {
        int m, s; if (openpty(&m, &s, 0, 0, 0)) die("openpty1");
        if (fchown(s, (uid_t)strtoul(v + 4, 0, 10), (gid_t)-1)) die("fchown-pty1");
        dup2(s, 1); if (s > 2) close(s); int hm = fcntl(m, F_DUPFD, 220); close(m); (void)hm;
    }
    /* alternate utmp file (utmpname) with one USER_PROCESS entry for the terminal on fd 0: "utmp=<32 hex digits of ut_addr_v6>" */
    if ((v = kv(nf, f, "utmp"))) {
        char tn[128]; if (ttyname_r(0, tn, sizeof tn) == 0 && !strncmp(tn, "/dev/", 5)) {
            struct utmp u; memset(&u, 0, sizeof u); u.ut_type = USER_PROCESS; u.ut_pid = getpid();
            strncpy(u.ut_line, tn + 5, sizeof u.ut_line - 1); strncpy(u.ut_user, "verifuser", sizeof u.ut_user - 1);
            unsigned char *a = (unsigned char *)u.ut_addr_v6;
            for (int i = 0; i < 16 && v[2 * i] && v[2 * i + 1]; i++) a[i] = (unsigned char)(hexval(v[2 * i]) * 16 + hexval(v[2 * i + 1]));
            char p[PATH_MAX]; snprintf(p, sizeof p, "%s/utmp", dir); spit(p, (const char *)&u, sizeof u);
            chmod(p, 0644); utmpname(p); alt_utmp = strdup(p);
        }
    }
    /* multi-step states: "pre=1" evaluates every source once HERE, before the session / ancestor chain / environment / ids change
     * (in this process or in the children forked below), so that anything a source remembered from its first call shows later */
    if ((v = kv(nf, f, "pre")) && !strcmp(v, "1")) { struct job jp = j; jp.tag = "pre"; measure_and_run(&jp); }
    /* session / process group / ancestor chain: done by forking further; the leaf runs the sources */
    const char *sess = kv(nf, f, "sess"); const char *chain = kv(nf, f, "chain");
    int depth = 0; char rootname[64] = "";
    if (chain && strcmp(chain, "keep")) { depth = atoi(chain); const char *c = strchr(chain, ':'); if (c) { vbytes nm = parse_bytes(c + 1); snprintf(rootname, sizeof rootname, "%s", nm.p); } }
    if (depth > 0) {
        /* C -> I -> A: the intermediate I exits, A is re-parented to pid 1 (or the nearest subreaper) and becomes the
         * root ancestor; below A `depth` further levels, the last one runs the sources; every level waits for its child */
        pid_t i = fork(); if (i < 0) die("fork-i");
        if (i > 0) { int st; waitpid(i, &st, 0); _exit(0); }
        pid_t ipid = getpid();
        pid_t a = fork(); if (a < 0) die("fork-a");
        if (a > 0) _exit(0);
        for (int k = 0; k < 5000 && getppid() == ipid; k++) usleep(1000);
        if (getppid() == ipid) die("reparent");
        prctl(PR_SET_NAME, rootname[0] ? rootname : "rootanc");
        for (int d = 1; d <= depth; d++) {
            pid_t c = fork(); if (c < 0) die("fork-chain");
            if (c > 0) { int st; waitpid(c, &st, 0); relay(st); }
            char nm[16]; snprintf(nm, sizeof nm, "lvl%d", d); prctl(PR_SET_NAME, nm);
        }
    }
    if (sess && !strcmp(sess, "inplace")) {
        if (setsid() < 0) die("setsid-inplace");                             /* same process: not a group leader, so this is allowed */
    } else if (sess && !strcmp(sess, "setsid")) {
        pid_t c = fork(); if (c < 0) die("fork-sid");                       /* a group leader cannot setsid */
        if (c > 0) { int st; waitpid(c, &st, 0); relay(st); }
        if (setsid() < 0) die("setsid");
    } else if (sess && !strcmp(sess, "pgrp")) {
        pid_t c = fork(); if (c < 0) die("fork-sid");
        if (c > 0) { int st; waitpid(c, &st, 0); relay(st); }
        if (setsid() < 0) die("setsid");
        pid_t g = fork(); if (g < 0) die("fork-pgrp");
        if (g > 0) { int st; waitpid(g, &st, 0); relay(st); }
        if (setpgid(0, 0)) die("setpgid");                                  /* sid = parent, pgid = self */
    }
    if (procfake) {
        vlist l = parse_list("[]"); (void)l;
        char *d = strdup(procfake), *save = 0;
        for (char *tok = strtok_r(d, ",", &save); tok && nfake < MAXFAKE; tok = strtok_r(0, ",", &save)) {
            char *c = strchr(tok, ':'); if (!c) continue; *c = 0;
            long p = !strcmp(tok, "SELF") ? (long)getpid() : atol(tok);
            vbytes t = parse_bytes(c + 1); char pth[PATH_MAX]; snprintf(pth, sizeof pth, "%s/status.%d.%ld", dir, (int)getpid(), p);
            if (!t.isnull) { spit(pth, t.p, t.n); fake_pid[nfake] = p; fake_path[nfake] = strdup(pth); nfake++; }
        }
        fake_status_on = 1;
    }
    /* environment vector of the process */
    if ((v = kv(nf, f, "env"))) { vlist e = parse_list(v); environ = e.isnull ? 0 : e.v; }
    if (pwd_alias && environ) {
        size_t n = 0; while (environ[n]) n++;
        char **nv = calloc(n + 2, sizeof(char *)); memcpy(nv, environ, n * sizeof(char *)); nv[n] = pwd_alias; environ = nv;
    }
    tzset();      /* the zone of this process is what its environment says (TZ entry or none) */
    /* ids last */
    if ((v = kv(nf, f, "gids")) && strcmp(v, "keep")) { unsigned long r, e, s; if (sscanf(v, "%lu,%lu,%lu", &r, &e, &s) != 3) die("gids"); if (setgroups(0, 0)) {} if (syscall(SYS_setresgid, (gid_t)r, (gid_t)e, (gid_t)s)) die("setresgid"); }
    if ((v = kv(nf, f, "uids")) && strcmp(v, "keep")) { unsigned long r, e, s; if (sscanf(v, "%lu,%lu,%lu", &r, &e, &s) != 3) die("uids"); if (syscall(SYS_setresuid, (uid_t)r, (uid_t)e, (uid_t)s)) die("setresuid"); }
    v = kv(nf, f, "thread");
    if (v && !strcmp(v, "other")) { pthread_t t; if (pthread_create(&t, 0, thread_main, &j)) die("pthread"); pthread_join(t, 0); }
    else measure_and_run(&j);
    fflush(OUT);
    /* "post=fork|vfork": once more in a child of the process that has just evaluated everything */
    if ((v = kv(nf, f, "post"))) {
        struct job jq = j; jq.tag = "post";
        pid_t c = !strcmp(v, "vfork") ? vfork() : fork();
        if (c < 0) die("post-fork");
        if (c == 0) { measure_and_run(&jq); fflush(OUT); _exit(0); }
        int st; waitpid(c, &st, 0); relay(st);
    }
    _exit(0);
}

int main(int argc, char **argv) {
    if (argc > 1) scratch = argv[1];
    char *line = 0; size_t lcap = 0; ssize_t len;
    setvbuf(stdout, 0, _IOLBF, 0);
    while ((len = getline(&line, &lcap, stdin)) >= 0) {
        while (len > 0 && (line[len - 1] == '\n' || line[len - 1] == '\r')) line[--len] = 0;
        char *f[MAXF]; char *copy = strdup(line); int nf = split_tabs(copy, f);
        if (nf < 1 || strcmp(f[0], "state")) { printf("driver-error:bad-case\n"); continue; }
        int pfd[2]; if (pipe(pfd)) { perror("pipe"); return 2; }
        fflush(stdout); case_no++;
        pid_t pid = fork(); if (pid < 0) { perror("fork"); return 2; }
        if (pid == 0) {
            close(pfd[0]); int hi = fcntl(pfd[1], F_DUPFD, 100); close(pfd[1]);
            OUT = fdopen(hi, "w"); alarm(60);
            construct_and_run(nf, f);
            _exit(0);
        }
        close(pfd[1]);
        /* everything the case's processes write, until all of them are gone */
        char *res = 0; size_t rn = 0, rc = 0; char buf[65536]; ssize_t r;
        while ((r = read(pfd[0], buf, sizeof buf)) > 0) { if (rn + r + 1 > rc) { rc = (rn + r + 1) * 2; res = realloc(res, rc); } memcpy(res + rn, buf, r); rn += r; }
        close(pfd[0]);
        int st; waitpid(pid, &st, 0);
        int complete = rn > 0 && res[rn - 1] == '\n';
        int allok = complete && !memmem(res, rn, "\001EXIT:", 6);
        for (size_t i = 0; allok && i < rn; ) { if (strncmp(res + i, "ok:", 3)) allok = 0; char *nl = memchr(res + i, '\n', rn - i); i = nl ? (size_t)(nl - res) + 1 : rn; }
        if (allok) { for (size_t i = 0; i + 1 < rn; i++) if (res[i] == '\n') res[i] = '\036'; fwrite(res, 1, rn, stdout); }
        else if (complete && !strncmp(res, "construct-failed", 16)) { fwrite(res, 1, rn, stdout); }
        else {
            /* a descendant died while running the sources: classify by the partial output */
            char whyb[32]; const char *why = "died";
            int code = WIFSIGNALED(st) ? 128 + WTERMSIG(st) : WEXITSTATUS(st);
            char *mk = rn ? memmem(res, rn, "\001EXIT:", 6) : 0;
            if (mk) { code = atoi(mk + 6); rn = mk - res; }
            if (code == 128 + SIGALRM) why = "timeout";
            else if (code > 128) { snprintf(whyb, sizeof whyb, "crash:%d", code - 128); why = whyb; }
            else if (code == 77) why = "san:asan";
            else if (code == 78) why = "san:ubsan";
            else if (code) { snprintf(whyb, sizeof whyb, "exit:%d", code); why = whyb; }
            /* which data source was in flight: the text after the last tab of the partial line */
            printf("%s\t", why);
            for (size_t i = 0; i < rn; i++) if (res[i] == '\n') res[i] = ' ';
            if (rn) fwrite(res, 1, rn, stdout);
            printf("\n");
        }
        fflush(stdout); free(res); free(copy);
    }
    return 0;
}
