/* implementation-side driver, area "expand": message.c / string.c / cmdline.c / filename.c
 * compiled against the library objects built from the snapshot (ASan+UBSan). */
#include "common.h"
extern char **environ;
void snoopy_message_generateFromFormat(char *, size_t, size_t, const char *);
void snoopy_init(void);
void snoopy_cleanup(void);
void snoopy_configuration_preinit_disableConfigFileParsing(void);
void snoopy_inputdatastorage_store_filename(const char *);
void snoopy_inputdatastorage_store_argv(char *const argv[]);
void snoopy_inputdatastorage_store_envp(char *const envp[]);
int snoopy_datasource_cmdline(char *const, size_t, char const *const);
int snoopy_datasource_filename(char *const, size_t, char const *const);
int snoopy_datasourceregistry_getCount(void);
char *snoopy_datasourceregistry_getName(int);
int snoopy_datasourceregistry_callById(int, char *const, size_t, char const *const);

static char *empty_env[] = { NULL };

static void handle(int nf, char **f, FILE *out) {
    if (!strcmp(f[0], "gen") && nf == 7) {
        size_t bs = strtoull(f[1], 0, 10), th = strtoull(f[2], 0, 10);
        vbytes fmt = parse_bytes(f[3]), file = parse_bytes(f[4]);
        vlist argv = parse_list(f[5]), env = parse_list(f[6]);
        environ = env.v ? env.v : empty_env;
        snoopy_init();
        snoopy_inputdatastorage_store_filename(file.p);
        snoopy_inputdatastorage_store_argv(argv.v);
        snoopy_inputdatastorage_store_envp(empty_env);
        char *buf = malloc(bs); buf[0] = 0;
        snoopy_message_generateFromFormat(buf, bs, th, fmt.p);
        snoopy_cleanup();
        size_t n = strnlen(buf, bs);
        if (n >= bs) { fprintf(out, "unterminated"); return; }
        fprintf(out, "ok\t"); put_hex(out, buf, n);
        free(buf);
    } else if (!strcmp(f[0], "cmdline") && nf == 4) {
        size_t sz = strtoull(f[1], 0, 10);
        vbytes file = parse_bytes(f[2]); vlist argv = parse_list(f[3]);
        snoopy_init();
        snoopy_inputdatastorage_store_filename(file.p);
        snoopy_inputdatastorage_store_argv(argv.v);
        char *buf = malloc(sz); memset(buf, 'Z', sz);
        snoopy_datasource_cmdline(buf, sz, "");
        snoopy_cleanup();
        size_t n = strnlen(buf, sz);
        if (n >= sz) { fprintf(out, "unterminated"); return; }
        fprintf(out, "ok\t"); put_hex(out, buf, n);
        free(buf);
    } else if (!strcmp(f[0], "filename") && nf == 3) {
        size_t sz = strtoull(f[1], 0, 10);
        vbytes file = parse_bytes(f[2]);
        snoopy_init();
        snoopy_inputdatastorage_store_filename(file.p);
        char *buf = malloc(sz); memset(buf, 'Z', sz);
        snoopy_datasource_filename(buf, sz, "");
        snoopy_cleanup();
        size_t n = strnlen(buf, sz);
        if (n >= sz) { fprintf(out, "unterminated"); return; }
        fprintf(out, "ok\t"); put_hex(out, buf, n);
        free(buf);
    } else if (!strcmp(f[0], "dsall") && nf == 6) {
        /* dsall size arg filename argv env: EVERY data source of the registry into an exactly sized heap buffer (ASan watches the
         * red zone); prints name=len for each, or name=UNTERMINATED: the contract "strlen(result) < size" that C05_ds_bounded assumes */
        size_t sz = strtoull(f[1], 0, 10);
        vbytes arg = parse_bytes(f[2]), file = parse_bytes(f[3]);
        vlist argv = parse_list(f[4]), env = parse_list(f[5]);
        environ = env.isnull ? NULL : env.v;
        fprintf(out, "ok");
        int n = snoopy_datasourceregistry_getCount();
        for (int i = 0; i < n; i++) {
            snoopy_init();
            snoopy_inputdatastorage_store_filename(file.p);
            snoopy_inputdatastorage_store_argv(argv.v);
            snoopy_inputdatastorage_store_envp(env.isnull ? empty_env : env.v);
            char *buf = malloc(sz); memset(buf, 'Z', sz); buf[0] = 0;   /* message.c clears the first byte before every call */
            snoopy_datasourceregistry_callById(i, buf, sz, arg.p);
            snoopy_cleanup();
            size_t l = strnlen(buf, sz);
            if (l >= sz) fprintf(out, "\t%s=UNTERMINATED", snoopy_datasourceregistry_getName(i));
            else fprintf(out, "\t%s=%zu", snoopy_datasourceregistry_getName(i), l);
            free(buf);
        }
    } else fprintf(out, "driver-error:bad-case");
}

int main(void) {
    snoopy_configuration_preinit_disableConfigFileParsing();
    return run_cases(stdin, handle, 20);
}
