/* implementation-side driver, area "filter" (C07, C14): filtering.c / filterregistry.c / filter/*.c /
 * util/parser.c compiled from the snapshot (ASan+UBSan).  Every case first puts the worker process
 * into the requested state: real uid, (unrelated) effective uid, saved uid 0 so that the next case
 * can change again, and a pty slave or /dev/null on fd 0. */
#include "common.h"
#include <fcntl.h>
#include <pty.h>
#include <termios.h>
#include <sys/prctl.h>
#include <pthread.h>
#include <grp.h>
#include "snoopy.h"

int snoopy_filtering_check_chain(char const * const chain);
int snoopy_filterregistry_doesNameExist(char const * const name);
int snoopy_filterregistry_callByName(char const * const name, char const * const arg);
int snoopy_filter_only_uid(char const * const arg);
int snoopy_filter_exclude_uid(char const * const arg);
int snoopy_filter_only_root(char const * const arg);
int snoopy_util_parser_csvToArgList(char *argListRaw, char ***argListParsed);

static int pty_slave = -1, pty_master = -1, devnull = -1;

static int set_state(const char *r, const char *e, const char *tty, FILE *out) {
    uid_t ru = (uid_t) strtoul(r, 0, 10), eu = (uid_t) strtoul(e, 0, 10);
    if (seteuid(0) != 0) { fprintf(out, "driver-error:seteuid0"); return -1; }
    if (setresuid(ru, eu, 0) != 0) { fprintf(out, "driver-error:setresuid"); return -1; }
    if (getuid() != ru || geteuid() != eu) { fprintf(out, "driver-error:uid-state"); return -1; }
    prctl(PR_SET_DUMPABLE, 1);   /* as after a normal exec under that uid: /proc/self stays readable */
    if (!strcmp(tty, "1")) {
        if (pty_slave < 0) { fprintf(out, "nopty"); return -1; }
        dup2(pty_slave, 0);
    } else dup2(devnull, 0);
    return 0;
}

/* concurrent callers: every thread evaluates its own chain over and over; a decision must equal the one the same chain got
 * when it was evaluated alone (filters are functions of argument and process state) */
struct mt_job { const char *chain; int expect; long iters; long deviations; pthread_barrier_t *bar; };
static void *mt_worker(void *p) {
    struct mt_job *j = p;
    pthread_barrier_wait(j->bar);
    for (long k = 0; k < j->iters; k++) if (snoopy_filtering_check_chain(j->chain) != j->expect) j->deviations++;
    return NULL;
}

static void put_verdict(FILE *out, int v) {
    if (v == SNOOPY_FILTER_PASS) fprintf(out, "ok\tP");
    else if (v == SNOOPY_FILTER_DROP) fprintf(out, "ok\tD");
    else fprintf(out, "ok\t?%d", v);
}

static void handle(int nf, char **f, FILE *out) {
    if (!strcmp(f[0], "single") && nf == 6) {
        if (set_state(f[1], f[2], f[3], out)) return;
        vbytes name = parse_bytes(f[4]), arg = parse_bytes(f[5]);
        if (SNOOPY_FALSE == snoopy_filterregistry_doesNameExist(name.p)) { fprintf(out, "ok\tu"); return; }
        int v = snoopy_filterregistry_callByName(name.p, arg.p);
        fprintf(out, v == SNOOPY_FILTER_DROP ? "ok\td" : "ok\tp");
    } else if ((!strcmp(f[0], "chain") && nf == 6) || (!strcmp(f[0], "full") && nf == 5)) {
        if (set_state(f[1], f[2], f[3], out)) return;
        vbytes chain = parse_bytes(f[4]);
        /* exact-size heap copy: a read past the terminator is an ASan event */
        char *c = malloc(chain.n + 1); memcpy(c, chain.p, chain.n + 1);
        put_verdict(out, snoopy_filtering_check_chain(c));
        free(c);
    } else if (!strcmp(f[0], "mt") && nf == 6) {
        /* mt ruid euid tty iterations chain,chain,... */
        if (set_state(f[1], f[2], f[3], out)) return;
        long iters = strtol(f[4], 0, 10);
        vlist chains = parse_list(f[5]);
        size_t n = chains.n; if (n < 1 || n > 16) { fprintf(out, "driver-error:mt"); return; }
        struct mt_job job[16]; pthread_t th[16]; pthread_barrier_t bar;
        pthread_barrier_init(&bar, NULL, (unsigned) n);
        for (size_t i = 0; i < n; i++) { job[i].chain = chains.v[i]; job[i].expect = snoopy_filtering_check_chain(chains.v[i]); job[i].iters = iters; job[i].deviations = 0; job[i].bar = &bar; }
        for (size_t i = 0; i < n; i++) pthread_create(&th[i], NULL, mt_worker, &job[i]);
        for (size_t i = 0; i < n; i++) pthread_join(th[i], NULL);
        fprintf(out, "ok\t");
        for (size_t i = 0; i < n; i++) fprintf(out, "%s%c%ld", i ? "," : "", job[i].expect == SNOOPY_FILTER_PASS ? 'P' : 'D', job[i].deviations);
    } else if (!strcmp(f[0], "uidf") && (nf == 5 || nf == 6)) {
        if (set_state(f[2], f[3], "0", out)) return;
        vbytes a = parse_bytes(f[4]);
        char *c = malloc(a.n + 1); memcpy(c, a.p, a.n + 1);
        int v;
        errno = nf == 6 ? atoi(f[5]) : 0;     /* what the host program left in errno: the decision must not depend on it */
        if (!strcmp(f[1], "only")) v = snoopy_filter_only_uid(c);
        else if (!strcmp(f[1], "exclude")) v = snoopy_filter_exclude_uid(c);
        else v = snoopy_filter_only_root(c);
        put_verdict(out, v);
        free(c);
    } else if (!strcmp(f[0], "csv") && nf == 2) {
        vbytes a = parse_bytes(f[1]);
        char *c = malloc(a.n + 1); memcpy(c, a.p, a.n + 1);
        char **list = NULL;
        int n = snoopy_util_parser_csvToArgList(c, &list);
        fprintf(out, "ok\t%d\t", n);
        if (n <= 0) fprintf(out, "[]");
        for (int i = 0; i < n; i++) { if (i) fputc(',', out); put_hexs(out, list[i]); }
        free(list); free(c);
    } else fprintf(out, "driver-error:bad-case");
}

int main(void) {
    /* a group id that is no uid of any case (and differs from the real uid 0 too): a filter that looks at a gid shows */
    if (setgroups(0, NULL) != 0 || setresgid(4242, 4242, 4242) != 0) { /* not root: set_state reports it */ }
    devnull = open("/dev/null", O_RDONLY);
    if (openpty(&pty_master, &pty_slave, NULL, NULL, NULL) != 0) { pty_master = pty_slave = -1; }
    return run_cases(stdin, handle, 20);
}
