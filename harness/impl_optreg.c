/* Implementation-side driver for the EXTENSION of C13: the option registry of src/configfile.c.
 * Linked with configfile.o compiled from the snapshot under a synthetic config.h (everything else configfile.c refers to
 * is stubbed; nothing of it is called here).  Linked with -rdynamic so that dladdr() names the functions the table points to.
 *   optall                 -> ok <name>=<parser symbol>/<getter symbol>,...     (entries of getAll() before the sentinel)
 *   optid <hexname>        -> ok <getIdFromName> <parser symbol of that id | ~> <getter symbol | ~>
 */
#include "common.h"
#include <dlfcn.h>
#include "snoopy.h"
#include "configuration.h"
#include "configfile.h"

static const char *symname(void *p) {
    Dl_info di;
    if (p == NULL) return "NULL";
    if (dladdr(p, &di) && di.dli_sname && di.dli_saddr == p) return di.dli_sname;
    return "?";
}

static void handle(int nf, char **f, FILE *o) {
    snoopy_configfile_option_t *reg = snoopy_configfile_optionRegistry_getAll();
    if (!strcmp(f[0], "optall")) {
        fputs("ok\t", o);
        int i;
        for (i = 0; strcmp(reg[i].name, "") != 0; i++)
            fprintf(o, "%s%s=%s/%s", i ? "," : "", reg[i].name, symname((void *)reg[i].data.valueParserPtr), symname((void *)reg[i].data.getValueAsStringPtr));
        if (i == 0) fputs("[]", o);
    } else if (!strcmp(f[0], "optid") && nf >= 2) {
        vbytes n = parse_bytes(f[1]);
        int id = snoopy_configfile_optionRegistry_getIdFromName(n.p);
        if (id < 0) fprintf(o, "ok\t%d\t~\t~", id);
        else fprintf(o, "ok\t%d\t%s\t%s", id, symname((void *)reg[id].data.valueParserPtr), symname((void *)reg[id].data.getValueAsStringPtr));
    } else fputs("driver-error:bad-case", o);
}

int main(void) { return run_cases(stdin, handle, 10); }
