/* implementation-side tool for C17: calls the file-type outputs built from the snapshot.
 *   impl_output one <kind> <path> <size> <fillbyte>          one record (traced by strace from outside)
 *   impl_output stress <path> <writers> <records> <size>     concurrent writer processes, then nothing (python verifies the file) */
#define _GNU_SOURCE
#include <stdio.h>
#include <stdlib.h>
#include <string.h>
#include <unistd.h>
#include <sys/wait.h>
int snoopy_output_fileoutput(char const *const, char const *const);
int snoopy_output_devnulloutput(char const *const, char const *const);
int snoopy_output_devttyoutput(char const *const, char const *const);
void snoopy_init(void); void snoopy_cleanup(void);
void snoopy_configuration_preinit_disableConfigFileParsing(void);

int main(int argc, char **argv) {
    snoopy_configuration_preinit_disableConfigFileParsing();
    if (argc >= 6 && !strcmp(argv[1], "one")) {
        size_t n = strtoull(argv[4], 0, 10); char *m = malloc(n + 1); memset(m, argv[5][0], n); m[n] = 0;
        snoopy_init();
        int r;
        if (!strcmp(argv[2], "file")) r = snoopy_output_fileoutput(m, argv[3]);
        else if (!strcmp(argv[2], "devnull")) r = snoopy_output_devnulloutput(m, "");
        else r = snoopy_output_devttyoutput(m, "");
        snoopy_cleanup();
        printf("ret %d\n", r);
        return 0;
    }
    if (argc >= 6 && !strcmp(argv[1], "stress")) {
        int writers = atoi(argv[3]), records = atoi(argv[4]); size_t n = strtoull(argv[5], 0, 10);
        for (int w = 0; w < writers; w++) {
            if (fork() == 0) {
                char *m = malloc(n + 32);
                for (int r = 0; r < records; r++) {
                    /* record = "<w>:<r>:" + fill of a byte specific to the writer, so a torn record is recognisable */
                    int h = snprintf(m, 32, "%d:%d:", w, r);
                    size_t body = n > (size_t)h ? n - (size_t)h : 0;
                    memset(m + h, 'A' + (w % 26), body); m[h + body] = 0;
                    snoopy_init(); snoopy_output_fileoutput(m, argv[2]); snoopy_cleanup();
                }
                _exit(0);
            }
        }
        while (wait(NULL) > 0) {}
        return 0;
    }
    fprintf(stderr, "usage\n");
    return 2;
}
