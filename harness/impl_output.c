/* implementation-side tool for C17: calls the file-type outputs built from the snapshot.
 *   impl_output one <kind> <path> <size> <fillbyte>          one record (traced by strace from outside)
 *   impl_output seq <path> <size> <closed-stdin 0|1>          four records "1","2","3","4"-filled from ONE process: after record 1 the file is
 *                                                            renamed to <path>.1 (rotation), after record 3 the process closes every descriptor
 *                                                            above 2 and opens <path>.app itself; prints the number of open descriptors after each record
 *   impl_output stress <path> <writers> <records> <size>     concurrent writer processes, then nothing (python verifies the file) */
#define _GNU_SOURCE
#include <stdio.h>
#include <stdlib.h>
#include <string.h>
#include <unistd.h>
#include <sys/wait.h>
#include <dirent.h>
#include <fcntl.h>
static int nfds(void) { int n = 0; DIR *d = opendir("/proc/self/fd"); struct dirent *e; while (d && (e = readdir(d))) if (e->d_name[0] != '.') n++; if (d) closedir(d); return n - 1; }
int snoopy_output_fileoutput(char const *const, char const *const);
int snoopy_output_devnulloutput(char const *const, char const *const);
int snoopy_output_devttyoutput(char const *const, char const *const);
void snoopy_init(void); void snoopy_cleanup(void);
void snoopy_configuration_preinit_disableConfigFileParsing(void);

int main(int argc, char **argv) {
    snoopy_configuration_preinit_disableConfigFileParsing();
    if (argc >= 6 && !strcmp(argv[1], "one")) {
        size_t n = strtoull(argv[4], 0, 10); char *m = malloc(n + 1); memset(m, argv[5][0], n); m[n] = 0;
        snoopy_init();
        int r;
        if (!strcmp(argv[2], "file")) r = snoopy_output_fileoutput(m, argv[3]);
        else if (!strcmp(argv[2], "devnull")) r = snoopy_output_devnulloutput(m, "");
        else r = snoopy_output_devttyoutput(m, "");
        snoopy_cleanup();
        printf("ret %d\n", r);
        return 0;
    }
    if (argc >= 5 && !strcmp(argv[1], "seq")) {
        size_t n = strtoull(argv[3], 0, 10); char *m = malloc(n + 1); m[n] = 0;
        char rot[4096], app[4096]; snprintf(rot, sizeof rot, "%s.1", argv[2]); snprintf(app, sizeof app, "%s.app", argv[2]);
        if (atoi(argv[4])) close(0);
        int base = nfds();
        for (int k = 1; k <= 4; k++) {
            memset(m, '0' + k, n);
            snoopy_init(); int r = snoopy_output_fileoutput(m, argv[2]); snoopy_cleanup();
            printf("rec %d ret %d fds %d\n", k, r, nfds() - base);
            if (k == 1) rename(argv[2], rot);
            if (k == 3) { for (int fd = 3; fd < 256; fd++) close(fd); int a = open(app, O_WRONLY | O_CREAT | O_TRUNC, 0644); if (a >= 0) (void)!write(a, "APPDATA\n", 8); base = nfds(); }
        }
        return 0;
    }
    if (argc >= 6 && !strcmp(argv[1], "stress")) {
        int writers = atoi(argv[3]), records = atoi(argv[4]); size_t n = strtoull(argv[5], 0, 10);
        for (int w = 0; w < writers; w++) {
            if (fork() == 0) {
                char *m = malloc(n + 32);
                for (int r = 0; r < records; r++) {
                    /* record = "<w>:<r>:" + fill of a byte specific to the writer, so a torn record is recognisable */
                    int h = snprintf(m, 32, "%d:%d:", w, r);
                    size_t body = n > (size_t)h ? n - (size_t)h : 0;
                    memset(m + h, 'A' + (w % 26), body); m[h + body] = 0;
                    snoopy_init(); snoopy_output_fileoutput(m, argv[2]); snoopy_cleanup();
                }
                _exit(0);
            }
        }
        while (wait(NULL) > 0) {}
        return 0;
    }
    fprintf(stderr, "usage\n");
    return 2;
}
