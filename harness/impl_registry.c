/* Implementation-side driver for area "registry" (C13).
 *
 * Linked per build configuration with datasourceregistry.o / filterregistry.o / outputregistry.o compiled from the
 * snapshot under a synthetic config.h, genericregistry.o from the snapshot, and generated stubs: every implementation
 * symbol is a function that records its own name in verif_last_called (so "which implementation ran" is observable
 * even where real implementations are indistinguishable by value).
 *
 * Cases (extra trailing fields are ignored; the model driver needs the configuration there):
 *   byname <k> <hexname>   -> ok <called:SYM|unknown|fault> <doesNameExist 0/1> <getIdFromName>
 *   dispatch out <hexname> -> ok <called:SYM|unknown|fault> <1 iff the output got the message and CFG->output_arg | ->
 *                             (snoopy_outputregistry_dispatch with CFG->output = name; snoopy_configuration_get is provided here)
 *   dispatchs out <hexname> -> the same with CFG->output at one fixed address whose content changes from case to case
 *   exec <chain e1,..> <format d1,..> <hex output> -> ok <implementations run by snoopy_action_log_syscall_exec(), in order | []>
 *                             (filter_chain "e1;e2:a;...", message_format "m:%{d1}%{d2:noop}...", output; the snapshot's filtering.c, message.c,
 *                              log-syscall-exec.c, log-message-dispatch.c; filters answer PASS)
 *   threads ds <n=sym,...> -> ok <0|some> <first mismatch | ->   one thread per name formats %{n:a-n} 20000 times
 *   chain flt <e1,e2,...>  -> ok <implementations run by snoopy_filtering_check_chain("e1;e2:noop;e3;..."), in order | []>
 *   byid   <k> <int>       -> ok <called:SYM|unknown|fault> <getName or ~>
 *   count  <k>             -> ok <getCount>
 *   gid <hexlist> <hexname> / gcount <hexlist> / gname <hexlist> <i> / gidexist <hexlist> <i> / gnameexist <hexlist> <hexname>
 *                          -> snoopy_genericregistry_* on an explicit array
 */
#include "common.h"
#include "snoopy.h"
#include "genericregistry.h"
#include "datasourceregistry.h"
#include "filterregistry.h"
#include "outputregistry.h"

#include "configuration.h"
#include "filtering.h"
#include "message.h"
#include "action/log-syscall-exec.h"
#include <pthread.h>

extern const char *verif_last_called;
extern int verif_calls;
extern char verif_last_msg[512], verif_last_outarg[512]; /* output stubs: the text of the logMessage and of the arg they were handed */
extern char verif_log[8192];                           /* every stub appends its name: the sequence of implementations that ran */
extern int verif_stub_ret;                             /* what the stubs return (SNOOPY_FILTER_PASS while a chain is walked) */
extern int verif_threads_mode;                         /* stubs touch only their thread-local record */
extern __thread const char *verif_tl_last;             /* per thread: the stub that ran last, the argument text it was handed */
extern __thread char verif_tl_arg[64];

static void join_elems(char *dst, size_t cap, const char *list, const char *open, const char *sep, const char *close) {
    /* "e1,e2,e3" -> open e1 close sep open e2 ":noop" close ...   (an argument on every second element - itself a registered name of
     * every registry, so that a splitter that loses the name runs something; the element "-" stands for the empty name) */
    size_t len = 0; dst[0] = 0;
    if (!strcmp(list, "[]")) return;
    char *dup = strdup(list), *save = 0; int k = 0;
    for (char *tok = strtok_r(dup, ",", &save); tok; tok = strtok_r(0, ",", &save), k++)
        len += (size_t)snprintf(dst + len, cap - len, "%s%s%s%s%s", k ? sep : "", open, strcmp(tok, "-") ? tok : "", (k & 1) ? ":noop" : "", close);
    free(dup);
}

struct tjob { const char *name; const char *sym; int iters; long bad; char first[200]; };
static void *tworker(void *p) {
    struct tjob *j = p; char fmt[128], want[64], buf[512];
    snprintf(fmt, sizeof fmt, "%%{%s:a-%s}", j->name, j->name);
    snprintf(want, sizeof want, "a-%s", j->name);
    for (int i = 0; i < j->iters; i++) {
        verif_tl_last = NULL; verif_tl_arg[0] = 0; buf[0] = 0;
        snoopy_message_generateFromFormat(buf, sizeof buf, 256, fmt);
        if (verif_tl_last == NULL || strcmp(verif_tl_last, j->sym) || strcmp(verif_tl_arg, want)) {
            if (!j->bad) snprintf(j->first, sizeof j->first, "%%{%s:%s} ran %s with argument '%s'", j->name, want, verif_tl_last ? verif_tl_last : "nothing", verif_tl_arg);
            j->bad++;
        }
    }
    return NULL;
}

/* the configuration the registries see (outputregistry.c: dispatch reads CFG->output / CFG->output_arg) */
static snoopy_configuration_t verif_cfg;
snoopy_configuration_t *snoopy_configuration_get(void) { return &verif_cfg; }

static void outcome(FILE *o, int ret) {
    if (verif_calls == 1 && verif_last_called) fprintf(o, "called:%s", verif_last_called);
    else if (verif_calls == 0 && ret == -1) fputs("unknown", o);
    else fprintf(o, "fault:calls=%d,ret=%d", verif_calls, ret);
}

static const char *plain(const char *s) { return s == NULL ? "~" : (*s ? s : "-"); }

static void handle(int nf, char **f, FILE *o) {
    char buf[256];
    verif_last_called = NULL; verif_calls = 0; verif_log[0] = 0; verif_stub_ret = 0;
    if (!strcmp(f[0], "byname") && nf >= 3) {
        vbytes n = parse_bytes(f[2]);
        int ret, ex, id;
        if (!strcmp(f[1], "ds")) { ret = snoopy_datasourceregistry_callByName(n.p, buf, sizeof buf, ""); ex = snoopy_datasourceregistry_doesNameExist(n.p); id = snoopy_datasourceregistry_getIdFromName(n.p); }
        else if (!strcmp(f[1], "flt")) { ret = snoopy_filterregistry_callByName(n.p, ""); ex = snoopy_filterregistry_doesNameExist(n.p); id = snoopy_filterregistry_getIdFromName(n.p); }
        else { ret = snoopy_outputregistry_callByName(n.p, "msg", ""); ex = snoopy_outputregistry_doesNameExist(n.p); id = snoopy_outputregistry_getIdFromName(n.p); }
        fputs("ok\t", o); outcome(o, ret); fprintf(o, "\t%d\t%d", ex == SNOOPY_TRUE ? 1 : 0, id);
    } else if (!strcmp(f[0], "dispatch") && nf >= 3) {
        /* snoopy_outputregistry_dispatch with the configured output set to the given name */
        vbytes n = parse_bytes(f[2]);
        static char msg[] = "the message %{noop}", arg[] = "the-arg-%{noop}-%{nosuch}";
        verif_cfg.output = n.p; verif_cfg.output_arg = arg;
        verif_last_msg[0] = verif_last_outarg[0] = 0;
        int ret = snoopy_outputregistry_dispatch(msg);
        fputs("ok\t", o); outcome(o, ret);
        if (verif_calls == 1) fprintf(o, "\t%d", (!strcmp(verif_last_msg, msg) && !strcmp(verif_last_outarg, arg)) ? 1 : 0);
        else fputs("\t-", o);
    } else if (!strcmp(f[0], "dispatchs") && nf >= 3) {
        /* as dispatch, but CFG->output stays at ONE address for the whole sequence of cases and only its content changes
         * (a configuration string re-read into the same storage): the lookup must follow the content */
        static char outbuf[1024]; static char msg[] = "the message %{noop}", arg[] = "the-arg-%{noop}-%{nosuch}";
        vbytes n = parse_bytes(f[2]);
        snprintf(outbuf, sizeof outbuf, "%s", n.p);
        verif_cfg.output = outbuf; verif_cfg.output_arg = arg;
        verif_last_msg[0] = verif_last_outarg[0] = 0;
        int ret = snoopy_outputregistry_dispatch(msg);
        fputs("ok\t", o); outcome(o, ret);
        if (verif_calls == 1) fprintf(o, "\t%d", (!strcmp(verif_last_msg, msg) && !strcmp(verif_last_outarg, arg)) ? 1 : 0);
        else fputs("\t-", o);
    } else if (!strcmp(f[0], "exec") && nf >= 4) {
        /* the whole logging path through its real entry point snoopy_action_log_syscall_exec() */
        static char chain[4000], fmt[4000], outbuf[1024]; static char arg[] = "the-arg";
        join_elems(chain, sizeof chain, f[1], "", ";", "");
        snprintf(fmt, sizeof fmt, "m:");
        join_elems(fmt + 2, sizeof fmt - 2, f[2], "%{", "", "}");
        vbytes n = parse_bytes(f[3]);
        snprintf(outbuf, sizeof outbuf, "%s", n.p);
        verif_cfg.filtering_enabled = SNOOPY_TRUE; verif_cfg.filter_chain = chain;
        verif_cfg.message_format = fmt; verif_cfg.log_message_max_length = 3000; verif_cfg.datasource_message_max_length = 300;
        verif_cfg.output = outbuf; verif_cfg.output_arg = arg;
        verif_stub_ret = SNOOPY_FILTER_PASS;
        snoopy_action_log_syscall_exec();
        verif_stub_ret = 0;
        fprintf(o, "ok\t%s", verif_log[0] ? verif_log : "[]");
    } else if (!strcmp(f[0], "threads") && nf >= 3) {
        struct tjob jobs[8]; pthread_t th[8]; int n = 0;
        char *dup = strdup(f[2]), *save = 0;
        for (char *tok = strtok_r(dup, ",", &save); tok && n < 8; tok = strtok_r(0, ",", &save)) {
            char *eq = strchr(tok, '='); if (!eq) continue; *eq = 0;
            jobs[n].name = tok; jobs[n].sym = eq + 1; jobs[n].iters = 20000; jobs[n].bad = 0; jobs[n].first[0] = 0; n++;
        }
        verif_threads_mode = 1;
        for (int i = 0; i < n; i++) pthread_create(&th[i], NULL, tworker, &jobs[i]);
        long bad = 0; const char *first = "-";
        for (int i = 0; i < n; i++) { pthread_join(th[i], NULL); if (jobs[i].bad && !bad) first = jobs[i].first; bad += jobs[i].bad; }
        verif_threads_mode = 0;
        fprintf(o, "ok\t%s\t%s", bad ? "some" : "0", first);
    } else if (!strcmp(f[0], "chain") && nf >= 3) {
        /* snoopy_filtering_check_chain over "e1:a;e2;e3:a;..." with every (stub) filter answering PASS */
        char chain[4000];
        join_elems(chain, sizeof chain, f[2], "", ";", "");
        verif_stub_ret = SNOOPY_FILTER_PASS;
        (void)snoopy_filtering_check_chain(chain);
        verif_stub_ret = 0;
        fprintf(o, "ok\t%s", verif_log[0] ? verif_log : "[]");
    } else if (!strcmp(f[0], "byid") && nf >= 3) {
        int i = atoi(f[2]), ret; const char *nm;
        if (!strcmp(f[1], "ds")) { ret = snoopy_datasourceregistry_callById(i, buf, sizeof buf, ""); nm = snoopy_datasourceregistry_getName(i); }
        else if (!strcmp(f[1], "flt")) { ret = snoopy_filterregistry_callById(i, ""); nm = snoopy_filterregistry_getName(i); }
        else { ret = snoopy_outputregistry_callById(i, "msg", ""); nm = snoopy_outputregistry_getName(i); }
        fputs("ok\t", o); outcome(o, ret); fprintf(o, "\t%s", plain(nm));
    } else if (!strcmp(f[0], "count") && nf >= 2) {
        int c = !strcmp(f[1], "ds") ? snoopy_datasourceregistry_getCount() : !strcmp(f[1], "flt") ? snoopy_filterregistry_getCount() : snoopy_outputregistry_getCount();
        fprintf(o, "ok\t%d", c);
    } else if (!strcmp(f[0], "gid") && nf >= 3) {
        vlist a = parse_list(f[1]); vbytes n = parse_bytes(f[2]);
        fprintf(o, "ok\t%d", snoopy_genericregistry_getIdFromName(a.v, n.p));
    } else if (!strcmp(f[0], "gcount") && nf >= 2) {
        vlist a = parse_list(f[1]);
        fprintf(o, "ok\t%d", snoopy_genericregistry_getCount(a.v));
    } else if (!strcmp(f[0], "gname") && nf >= 3) {
        vlist a = parse_list(f[1]);
        char *s = snoopy_genericregistry_getName(a.v, atoi(f[2]));
        fputs("ok\t", o); put_hexs(o, s);
    } else if (!strcmp(f[0], "gidexist") && nf >= 3) {
        vlist a = parse_list(f[1]);
        fprintf(o, "ok\t%d", snoopy_genericregistry_doesIdExist(a.v, atoi(f[2])) == SNOOPY_TRUE ? 1 : 0);
    } else if (!strcmp(f[0], "gnameexist") && nf >= 3) {
        vlist a = parse_list(f[1]); vbytes n = parse_bytes(f[2]);
        fprintf(o, "ok\t%d", snoopy_genericregistry_doesNameExist(a.v, n.p) == SNOOPY_TRUE ? 1 : 0);
    } else fputs("driver-error:bad-case", o);
}

int main(void) { return run_cases(stdin, handle, 10); }
