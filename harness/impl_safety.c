/* implementation-side driver, area "safety" (C02): every modelled function of the snapshot, compiled
 * with ASan+UBSan, driven with the same case lines as ocaml/drv_safety.ml.  Case grammar: checks/c02.py.
 *
 * External state the functions look at is scripted by definitions in this executable that take
 * precedence over libc's (gethostname, getlogin_r, time, getpid, getppid, fopen of /proc/<n>/stat,
 * connect, send, open of the file output's path). */
#include "common.h"
#include <dlfcn.h>
#include <fcntl.h>
#include <stdarg.h>
#include <stdint.h>
#include <time.h>
#include <sys/socket.h>
#include <sys/syscall.h>
#include <sys/stat.h>
#include <sys/un.h>
#include "snoopy.h"
#include "configuration.h"

extern char **environ;
int  snoopy_util_string_append(char *, size_t, const char *);
void snoopy_message_generateFromFormat(char *, size_t, size_t, const char *);
void snoopy_init(void);
void snoopy_cleanup(void);
void snoopy_inputdatastorage_store_filename(const char *);
void snoopy_inputdatastorage_store_argv(char *const argv[]);
void snoopy_inputdatastorage_store_envp(char *const envp[]);
int  snoopy_filtering_check_chain(char const *const);
int  snoopy_util_parser_csvToArgList(char *, char ***);
int  snoopy_util_parser_strByteLength(char const *const, const int, const int, const int);
int  snoopy_util_syslog_convertFacilityToInt(const char *);
const char *snoopy_util_syslog_convertFacilityToStr(int);
int  snoopy_util_syslog_convertLevelToInt(const char *);
const char *snoopy_util_syslog_convertLevelToStr(int);
int  snoopy_configfile_parseValue_syslog_facility(const char *, snoopy_configuration_t *);
int  snoopy_configfile_parseValue_syslog_level(const char *, snoopy_configuration_t *);
int  snoopy_configfile_parseValue_output(const char *, snoopy_configuration_t *);
int  snoopy_configfile_getboolean(const char *, int);
int  snoopy_ini_parse(const char *, int (*)(void *, const char *, const char *, const char *), void *);
int  snoopy_datasourceregistry_callByName(char const *const, char *const, size_t, char const *const);
int  snoopy_datasourceregistry_doesNameExist(char const *const);
int  snoopy_filterregistry_callByName(char const *const, char const *const);
int  snoopy_filterregistry_doesNameExist(char const *const);
int  snoopy_outputregistry_callByName(char const *const, char const *const, char const *const);
int  snoopy_outputregistry_doesNameExist(char const *const);
int  snoopy_filter_exclude_spawns_of(char const *const);
void snoopy_error_handler(char const *const);
int  snoopy_output_socketoutput(char const *const, char const *const);
int  snoopy_output_devlogoutput(char const *const, char const *const);
int  snoopy_output_fileoutput(char const *const, char const *const);
int  snoopy_util_file_getSmallTextFileContent(char const *const, char **);
int  snoopy_configfile_load(char *);

static char *empty_env[] = { NULL };
static char TMPDIR_[512];

/* ------------------------------------------------------------------ scripted externals */
static const char *g_host = NULL;
int gethostname(char *name, size_t len) {
    if (!g_host) { errno = EFAULT; return -1; }
    size_t n = strlen(g_host) + 1;
    memcpy(name, g_host, n < len ? n : len);
    if (n > len) { errno = ENAMETOOLONG; return -1; }
    return 0;
}
static const char *g_login = NULL;
int getlogin_r(char *buf, size_t size) {
    if (!g_login) return ENXIO;
    if (strlen(g_login) + 1 > size) return ERANGE;
    strcpy(buf, g_login);
    return 0;
}
static int g_pw_fail = 0;
#include <pwd.h>
int getpwuid_r(uid_t uid, struct passwd *pwd, char *buf, size_t buflen, struct passwd **result) {
    static int (*real)(uid_t, struct passwd *, char *, size_t, struct passwd **);
    if (!real) real = (int (*)(uid_t, struct passwd *, char *, size_t, struct passwd **)) dlsym(RTLD_NEXT, "getpwuid_r");
    if (g_pw_fail) { *result = NULL; return EIO; }
    return real(uid, pwd, buf, buflen, result);
}
static int g_fixed_time = 0;
time_t time(time_t *t) {
    time_t v;
    if (g_fixed_time) v = 1700000000;
    else { struct timespec ts; clock_gettime(CLOCK_REALTIME, &ts); v = ts.tv_sec; }
    if (t) *t = v;
    return v;
}
static int g_fixed_pid = 0; static long g_self = 0;
pid_t getpid(void) { return g_fixed_pid == 1 ? 4242 : g_fixed_pid == 2 ? (pid_t) g_self : (pid_t) syscall(SYS_getpid); }
static long g_ppid = -1;
pid_t getppid(void) { return g_ppid >= 0 ? (pid_t) g_ppid : (pid_t) syscall(SYS_getppid); }

typedef struct { long pid; vbytes content; } statent;
static statent *g_stat = NULL; static size_t g_nstat = 0; static int g_stat_active = 0; static const char *g_stat_kind = "stat";
FILE *fopen(const char *path, const char *mode) {
    static FILE *(*real)(const char *, const char *);
    if (!real) real = (FILE *(*)(const char *, const char *)) dlsym(RTLD_NEXT, "fopen");
    long pid; char tail[16];
    if (g_stat_active && sscanf(path, "/proc/%ld/%15s", &pid, tail) == 2 && !strcmp(tail, g_stat_kind)) {
        for (size_t i = 0; i < g_nstat; i++) if (g_stat[i].pid == pid) {
            char p[600]; snprintf(p, sizeof p, "%s/%s.%ld", TMPDIR_, g_stat_kind, pid);
            FILE *w = real(p, "w"); fwrite(g_stat[i].content.p, 1, g_stat[i].content.n, w); fclose(w);
            return real(p, "r");
        }
        errno = ENOENT; return NULL;
    }
    return real(path, mode);
}
static void load_table(const char *spec) {
    g_nstat = 0; g_stat = calloc(256, sizeof *g_stat);
    if (strcmp(spec, "-")) {
        char *dup = strdup(spec), *save = 0;
        for (char *tok = strtok_r(dup, ",", &save); tok && g_nstat < 256; tok = strtok_r(0, ",", &save)) {
            char *c = strchr(tok, ':'); if (!c) continue; *c = 0;
            g_stat[g_nstat].pid = strtol(tok, 0, 10); g_stat[g_nstat].content = parse_bytes(c + 1); g_nstat++;
        }
    }
}
/* connect/send: capture instead of talking to the system */
static int g_net_capture = 0; static socklen_t g_addrlen = 0; static char g_sunpath[256]; static char *g_sent = NULL; static size_t g_sent_n = 0;
int connect(int fd, const struct sockaddr *addr, socklen_t len) {
    static int (*real)(int, const struct sockaddr *, socklen_t);
    if (!real) real = (int (*)(int, const struct sockaddr *, socklen_t)) dlsym(RTLD_NEXT, "connect");
    if (g_net_capture) {
        g_addrlen = len;
        size_t n = len > 2 ? len - 2 : 0; if (n > sizeof g_sunpath - 1) n = sizeof g_sunpath - 1;
        memcpy(g_sunpath, ((const struct sockaddr_un *)addr)->sun_path, n); g_sunpath[n] = 0;
        return g_net_capture >= 2 ? 0 : -1;
    }
    return real(fd, addr, len);
}
ssize_t send(int fd, const void *buf, size_t n, int flags) {
    static ssize_t (*real)(int, const void *, size_t, int);
    if (!real) real = (ssize_t (*)(int, const void *, size_t, int)) dlsym(RTLD_NEXT, "send");
    if (g_net_capture == 2) { free(g_sent); g_sent = malloc(n + 1); memcpy(g_sent, buf, n); g_sent_n = n; return (ssize_t) n; }
    if (g_net_capture == 3) { errno = EAGAIN; return -1; }      /* a receiver whose queue is full and never drained */
    return real(fd, buf, n, flags);
}
static int g_open_capture = 0; static char *g_open_path = NULL; static char g_open_tmp[600];
int open(const char *path, int flags, ...) {
    static int (*real)(const char *, int, ...);
    if (!real) real = (int (*)(const char *, int, ...)) dlsym(RTLD_NEXT, "open");
    mode_t mode = 0;
    if (flags & O_CREAT) { va_list ap; va_start(ap, flags); mode = (mode_t) va_arg(ap, int); va_end(ap); }
    if (g_open_capture) { free(g_open_path); g_open_path = strdup(path); return real(g_open_tmp, flags, mode); }
    return real(path, flags, mode);
}

/* ------------------------------------------------------------------ helpers */
static char *exact(const vbytes b) { char *p = malloc(b.n + 1); memcpy(p, b.p, b.n + 1); return p; }   /* string in a block of exactly len+1 bytes */
static void put_buf(FILE *out, const char *buf, size_t cap, long long ret, int with_ret) {
    size_t n = strnlen(buf, cap);
    if (n >= cap) { fprintf(out, "unterminated"); return; }
    fprintf(out, "ok\t"); put_hex(out, buf, n);
    if (with_ret) fprintf(out, "\t%llu", (unsigned long long) ret);
}
static void world(const char *file, const char *argv, const char *env) {
    vbytes f = parse_bytes(file); vlist a = parse_list(argv), e = parse_list(env);
    environ = e.isnull ? NULL : e.v;
    snoopy_init();
    snoopy_inputdatastorage_store_filename(f.isnull ? NULL : exact(f));
    snoopy_inputdatastorage_store_argv(a.isnull ? NULL : a.v);
    snoopy_inputdatastorage_store_envp(empty_env);
}
typedef struct { char *s[3]; } inicall;
static inicall *g_calls; static size_t g_ncalls, g_capcalls;
static int ini_rec(void *u, const char *sec, const char *name, const char *val) {
    (void) u;
    if (g_ncalls == g_capcalls) { g_capcalls = g_capcalls ? g_capcalls * 2 : 64; g_calls = realloc(g_calls, g_capcalls * sizeof *g_calls); }
    g_calls[g_ncalls].s[0] = strdup(sec); g_calls[g_ncalls].s[1] = strdup(name); g_calls[g_ncalls].s[2] = strdup(val); g_ncalls++;
    return 1;
}
static void write_file(const char *path, const char *p, size_t n) { int fd = open(path, O_WRONLY | O_CREAT | O_TRUNC, 0600); if (n) (void)!write(fd, p, n); close(fd); }
static void quiet_fd(int fd, int *saved) { fflush(NULL); *saved = dup(fd); int nul = open("/dev/null", O_WRONLY); dup2(nul, fd); close(nul); }
static void restore_fd(int fd, int saved) { fflush(NULL); dup2(saved, fd); close(saved); }

static void handle(int nf, char **f, FILE *out) {
    environ = empty_env;
    if (!strcmp(f[0], "append") && nf == 4) {
        size_t cap = strtoull(f[1], 0, 10); vbytes dst = parse_bytes(f[2]), app = parse_bytes(f[3]);
        char *buf = malloc(cap); memset(buf, 'Z', cap); memcpy(buf, dst.p, dst.n + 1);
        int r = snoopy_util_string_append(buf, cap, exact(app));
        put_buf(out, buf, cap, (long long) r, 1);
    } else if (!strcmp(f[0], "gen") && nf == 7) {
        size_t bs = strtoull(f[1], 0, 10), th = strtoull(f[2], 0, 10);
        vbytes fmt = parse_bytes(f[3]);
        world(f[4], f[5], f[6]);
        char *buf = malloc(bs); buf[0] = 0;
        snoopy_message_generateFromFormat(buf, bs, th, exact(fmt));
        snoopy_cleanup();
        put_buf(out, buf, bs, 0, 0);
    } else if (!strcmp(f[0], "chain") && nf == 3) {
        vbytes ch = parse_bytes(f[2]);
        snoopy_init();
        int r = snoopy_filtering_check_chain(exact(ch));
        snoopy_cleanup();
        fprintf(out, "ok\t%d", r == SNOOPY_FILTER_PASS ? 1 : 0);
    } else if (!strcmp(f[0], "csv") && nf == 2) {
        vbytes a = parse_bytes(f[1]); char *raw = exact(a); char **parsed = NULL;
        int n = snoopy_util_parser_csvToArgList(raw, &parsed);
        fprintf(out, "ok");
        for (int i = 0; i < n; i++) { fputc('\t', out); put_hexs(out, parsed[i]); }
        fprintf(out, "\t%d", n);
        free(parsed); free(raw);
    } else if (!strcmp(f[0], "bytelen") && nf == 5) {
        vbytes t = parse_bytes(f[1]);
        int r = snoopy_util_parser_strByteLength(exact(t), atoi(f[2]), atoi(f[3]), atoi(f[4]));
        fprintf(out, "ok\t%d", r);
    } else if ((!strcmp(f[0], "facility") || !strcmp(f[0], "level")) && nf == 2) {
        vbytes s = parse_bytes(f[1]); char *p = exact(s);
        fprintf(out, "ok\t");
        if (f[0][0] == 'f') put_hexs(out, snoopy_util_syslog_convertFacilityToStr(snoopy_util_syslog_convertFacilityToInt(p)));
        else put_hexs(out, snoopy_util_syslog_convertLevelToStr(snoopy_util_syslog_convertLevelToInt(p)));
    } else if (!strcmp(f[0], "sysval") && nf == 3) {
        vbytes s = parse_bytes(f[2]); char *p = exact(s);
        snoopy_init(); snoopy_configuration_t *CFG = snoopy_configuration_get();
        fprintf(out, "ok\t");
        if (f[1][0] == '1') { snoopy_configfile_parseValue_syslog_level(p, CFG); put_hexs(out, snoopy_util_syslog_convertLevelToStr(CFG->syslog_level)); }
        else { snoopy_configfile_parseValue_syslog_facility(p, CFG); put_hexs(out, snoopy_util_syslog_convertFacilityToStr(CFG->syslog_facility)); }
        snoopy_cleanup();
    } else if (!strcmp(f[0], "outsplit") && nf == 2) {
        vbytes s = parse_bytes(f[1]); char *p = exact(s);
        snoopy_init(); snoopy_configuration_t *CFG = snoopy_configuration_get();
        snoopy_configfile_parseValue_output(p, CFG);
        fprintf(out, "ok\t"); put_hexs(out, CFG->output); fputc('\t', out); put_hexs(out, CFG->output_arg);
        snoopy_cleanup();
    } else if (!strcmp(f[0], "getbool") && nf == 2) {
        vbytes s = parse_bytes(f[1]);
        fprintf(out, "ok\t%d", snoopy_configfile_getboolean(exact(s), 2));
    } else if (!strcmp(f[0], "ini") && nf == 2) {
        vbytes c = parse_bytes(f[1]); char p[600]; snprintf(p, sizeof p, "%s/case.ini", TMPDIR_);
        write_file(p, c.p, c.n);
        g_ncalls = 0;
        int e = snoopy_ini_parse(p, ini_rec, NULL);
        fprintf(out, "ok");
        for (size_t i = 0; i < g_ncalls; i++) for (int k = 0; k < 3; k++) { fputc('\t', out); put_hexs(out, g_calls[i].s[k]); }
        fprintf(out, "\t%d", e);
    } else if (!strcmp(f[0], "cmdline") && nf == 4) {
        size_t sz = strtoull(f[1], 0, 10);
        world(f[2], f[3], "[]");
        char *buf = malloc(sz); memset(buf, 'Z', sz);
        int r = snoopy_datasourceregistry_callByName("cmdline", buf, sz, "");
        snoopy_cleanup();
        put_buf(out, buf, sz, r, 1);
    } else if (!strcmp(f[0], "envall") && nf == 3) {
        size_t sz = strtoull(f[1], 0, 10); vlist e = parse_list(f[2]);
        environ = e.isnull ? NULL : e.v;
        char *buf = malloc(sz); memset(buf, 'Z', sz);
        int r = snoopy_datasourceregistry_callByName("env_all", buf, sz, "");
        environ = empty_env;
        put_buf(out, buf, sz, r, 1);
    } else if (!strcmp(f[0], "hostname") && nf == 4) {
        size_t sz = strtoull(f[1], 0, 10); g_host = parse_bytes(f[2]).p;
        char *buf = malloc(sz); memset(buf, 'Z', sz);
        int r = snoopy_datasourceregistry_callByName("hostname", buf, sz, "");
        put_buf(out, buf, sz, r, 1);
    } else if (!strcmp(f[0], "login") && nf == 5) {
        size_t sz = strtoull(f[1], 0, 10); vbytes gl = parse_bytes(f[2]), su = parse_bytes(f[3]), ln = parse_bytes(f[4]);
        g_login = gl.isnull ? NULL : gl.p;
        char *ev[3]; int k = 0; char *a = NULL, *b = NULL;
        if (!su.isnull) { a = malloc(su.n + 16); sprintf(a, "SUDO_USER=%s", su.p); ev[k++] = a; }
        if (!ln.isnull) { b = malloc(ln.n + 16); sprintf(b, "LOGNAME=%s", ln.p); ev[k++] = b; }
        ev[k] = NULL; environ = ev;
        char *buf = malloc(sz); memset(buf, 'Z', sz);
        int r = snoopy_datasourceregistry_callByName("login", buf, sz, "");
        environ = empty_env;
        put_buf(out, buf, sz, r, 1);
    } else if (!strcmp(f[0], "datetime") && nf == 4) {
        size_t sz = strtoull(f[1], 0, 10); vbytes fm = parse_bytes(f[2]);
        g_fixed_time = 1;
        static char *tzenv[] = { "TZ=UTC", NULL }; environ = tzenv;
        char *buf = malloc(sz); memset(buf, 'Z', sz);
        int r = snoopy_datasourceregistry_callByName("datetime", buf, sz, exact(fm));
        environ = empty_env;
        put_buf(out, buf, sz, r, 1);
    } else if (!strcmp(f[0], "snprintf") && nf == 3) {
        size_t sz = strtoull(f[1], 0, 10); vbytes t = parse_bytes(f[2]);
        char *buf = malloc(sz); memset(buf, 'Z', sz);
        int r = snoopy_datasourceregistry_callByName("snoopy_literal", buf, sz, exact(t));
        put_buf(out, buf, sz, r, 1);
    } else if (!strcmp(f[0], "spawns") && nf == 4) {
        g_ppid = strtol(f[1], 0, 10);
        load_table(f[2]); g_stat_kind = "stat";
        g_stat_active = 1;
        vbytes a = parse_bytes(f[3]);
        int r = snoopy_filter_exclude_spawns_of(exact(a));
        g_stat_active = 0;
        fprintf(out, "ok\t%d", r == SNOOPY_FILTER_PASS ? 1 : 0);
    } else if (!strcmp(f[0], "errcycle") && nf == 4) {
        long nr = strtol(f[2], 0, 10); vbytes m = parse_bytes(f[3]);
        snoopy_init(); snoopy_configuration_t *CFG = snoopy_configuration_get();
        CFG->error_logging_enabled = SNOOPY_TRUE;
        CFG->output = "devlog"; CFG->output_arg = "";
        char *ident = malloc(1200); strcpy(ident, "snoopy");
        for (long i = 0; i < nr && i < 3; i++) strcat(ident, "%{snoopy_literal:xxxxxxxxxxxxxxxxxxxxxxxxxxxxxxxxxxxxxxxxxxxxxxxxxxxxxxxxxxxxxxxxxxxxxxxxxxxxxxxxxxxxxxxxxxxxxxxxxxxxxxxxxxxxxxxxxxxxxxxxxxxxxxxxxxxxxxxxxxxxxxxxxxxxxxxxxxxxxxxxxxxxxxxxxxxxxxxxxxxxxxxxxxxxxxxxxxxxxxxxxxxxxxxxxxxxxxxxxxxxxxxxxxxxxxxxxxxxxxxxxxxxxxxxxxxxxxxxxxxxxxxxxxxxxxxxxxx}");
        CFG->syslog_ident_format = ident;
        g_net_capture = 1;
        snoopy_error_handler(exact(m));
        g_net_capture = 0;
        fprintf(out, "ok\t%d", CFG->error_logging_enabled == SNOOPY_TRUE ? 1 : 0);
        CFG->error_logging_enabled = SNOOPY_FALSE;
    } else if (!strcmp(f[0], "sockaddr") && nf == 2) {
        vbytes a = parse_bytes(f[1]);
        g_net_capture = 1; g_addrlen = 0;
        snoopy_output_socketoutput("x", exact(a));
        g_net_capture = 0;
        fprintf(out, "ok\t%u", (unsigned) g_addrlen);
    } else if (!strcmp(f[0], "devlog") && nf == 8) {
        vbytes m = parse_bytes(f[1]), id = parse_bytes(f[2]); int pri = atoi(f[3]);
        world(f[5], f[6], f[7]);
        snoopy_configuration_t *CFG = snoopy_configuration_get();
        CFG->syslog_ident_format = exact(id); CFG->syslog_facility = pri & ~7; CFG->syslog_level = pri & 7;
        g_fixed_pid = 1; g_net_capture = 2; free(g_sent); g_sent = NULL; g_sent_n = 0;
        snoopy_output_devlogoutput(exact(m), "");
        g_net_capture = 0; g_fixed_pid = 0;
        CFG->syslog_ident_format = "snoopy";
        fprintf(out, "ok");
        if (g_sent) { fputc('\t', out); put_hex(out, g_sent, g_sent_n); }
        snoopy_cleanup();
    } else if (!strcmp(f[0], "fileline") && nf == 6) {
        vbytes m = parse_bytes(f[1]), pf = parse_bytes(f[2]);
        world(f[3], f[4], f[5]);
        snprintf(g_open_tmp, sizeof g_open_tmp, "%s/fileout", TMPDIR_); unlink(g_open_tmp);
        g_open_capture = 1; free(g_open_path); g_open_path = NULL;
        snoopy_output_fileoutput(exact(m), exact(pf));
        g_open_capture = 0;
        snoopy_cleanup();
        fprintf(out, "ok");
        if (g_open_path) {
            fputc('\t', out); put_hexs(out, g_open_path);
            FILE *r = fopen(g_open_tmp, "r"); char *b = malloc(m.n + 16); size_t n = r ? fread(b, 1, m.n + 16, r) : 0; if (r) fclose(r);
            fputc('\t', out); put_hex(out, b, n);
        }
    } else if (!strcmp(f[0], "smallfile") && nf == 3) {
        vbytes c = parse_bytes(f[1]); char p[600]; snprintf(p, sizeof p, "%s/small.txt", TMPDIR_);
        write_file(p, c.p, c.n);
        char *content = NULL;
        int r = snoopy_util_file_getSmallTextFileContent(p, &content);
        fprintf(out, "ok\t"); put_hexs(out, content); fprintf(out, "\t%d", r >= 0 ? 1 : 0);
        free(content);
    } else if (!strcmp(f[0], "cfgload") && nf == 2) {
        /* the whole configuration file through ini.c and configfile.c's option parsers; strings not set by the file print as 01 */
        vbytes c = parse_bytes(f[1]); char p[600]; snprintf(p, sizeof p, "%s/load.ini", TMPDIR_);
        write_file(p, c.p, c.n);
        snoopy_init(); snoopy_configuration_t *CFG = snoopy_configuration_get();
        snoopy_configfile_load(p);
        fprintf(out, "ok\t");
        if (CFG->message_format_malloced) put_hexs(out, CFG->message_format); else fputs("01", out);
        fputc('\t', out);
        if (CFG->filter_chain_malloced) put_hexs(out, CFG->filter_chain); else fputs("01", out);
        fputc('\t', out);
        if (CFG->syslog_ident_format_malloced) put_hexs(out, CFG->syslog_ident_format); else fputs("01", out);
        fprintf(out, "\t%zu\t%zu\t%d", CFG->log_message_max_length, CFG->datasource_message_max_length, CFG->error_logging_enabled == SNOOPY_TRUE ? 1 : 0);
        snoopy_cleanup();
    } else if (!strcmp(f[0], "cgroup") && nf == 4) {
        /* cgroup size arg content(~ = unreadable) : /proc/<pid>/cgroup scripted, pid fixed */
        size_t sz = strtoull(f[1], 0, 10); vbytes a = parse_bytes(f[2]);
        g_fixed_pid = 1; g_stat_kind = "cgroup"; g_stat_active = 1;
        if (!strcmp(f[3], "~")) load_table("-"); else { char *spec = malloc(strlen(f[3]) + 16); sprintf(spec, "4242:%s", f[3]); load_table(spec); }
        char *buf = malloc(sz); memset(buf, 'Z', sz); buf[0] = 0;
        int r = snoopy_datasourceregistry_callByName("cgroup", buf, sz, exact(a));
        g_stat_active = 0; g_fixed_pid = 0;
        size_t n = strnlen(buf, sz);
        if (n >= sz) fprintf(out, "unterminated"); else { fprintf(out, "ok\t"); put_hex(out, buf, n); fprintf(out, "\t%d", r < 0 ? 1 : 0); }
    } else if (!strcmp(f[0], "rpname") && nf == 4) {
        /* rpname size table(pid:hex,...) selfpid : /proc/<pid>/status scripted */
        size_t sz = strtoull(f[1], 0, 10);
        load_table(f[2]); g_stat_kind = "status"; g_stat_active = 1;
        g_fixed_pid = 2; g_self = strtol(f[3], 0, 10);
        char *buf = malloc(sz); memset(buf, 'Z', sz); buf[0] = 0;
        int r = snoopy_datasourceregistry_callByName("rpname", buf, sz, "");
        g_stat_active = 0; g_fixed_pid = 0;
        put_buf(out, buf, sz, r, 1);
    } else if ((!strcmp(f[0], "ds") || !strcmp(f[0], "dspwfail")) && nf == 7) {
        g_pw_fail = f[0][2] == 'p';     /* dspwfail: getpwuid_r reports an error (EIO) */
        /* ds name size arg file argv env : any registered data source, observed only */
        vbytes nm = parse_bytes(f[1]), a = parse_bytes(f[3]); size_t sz = strtoull(f[2], 0, 10);
        world(f[4], f[5], f[6]);
        g_fixed_time = 0;
        char *buf = malloc(sz); buf[0] = 0;
        int r = snoopy_datasourceregistry_doesNameExist(nm.p) ? snoopy_datasourceregistry_callByName(nm.p, buf, sz, exact(a)) : -2;
        g_pw_fail = 0;
        snoopy_cleanup();
        size_t n = strnlen(buf, sz);
        if (n >= sz) fprintf(out, "unterminated"); else fprintf(out, "ok\t%zu\t%d", n, r < 0 ? -1 : 0);
    } else if (!strcmp(f[0], "sockeagain") && nf == 3) {
        /* sockeagain output-name msg : the receiver never takes the datagram (send -> EAGAIN every time): the output must give up, not wait */
        vbytes nm = parse_bytes(f[1]), m = parse_bytes(f[2]);
        snoopy_init();
        g_net_capture = 3;
        int r = !strcmp(nm.p, "devlog") ? snoopy_output_devlogoutput(exact(m), "") : snoopy_output_socketoutput(exact(m), "/tmp/nonexistent.sock");
        g_net_capture = 0;
        snoopy_cleanup();
        fprintf(out, "ok\t%d", r < 0 ? 1 : 0);
    } else if (!strcmp(f[0], "filter") && nf == 3) {
        vbytes nm = parse_bytes(f[1]), a = parse_bytes(f[2]);
        snoopy_init();
        int r = snoopy_filterregistry_doesNameExist(nm.p) ? snoopy_filterregistry_callByName(nm.p, exact(a)) : -2;
        snoopy_cleanup();
        fprintf(out, "ok\t%d", r == -2 ? 2 : 0);
    } else if (!strcmp(f[0], "output") && nf == 7) {
        /* output name arg msg file argv env */
        vbytes nm = parse_bytes(f[1]), a = parse_bytes(f[2]), m = parse_bytes(f[3]);
        world(f[4], f[5], f[6]);
        int s1, s2; quiet_fd(1, &s1); quiet_fd(2, &s2);
        snprintf(g_open_tmp, sizeof g_open_tmp, "%s/fileout", TMPDIR_);
        g_open_capture = !strcmp(nm.p, "file"); g_net_capture = 1;
        int r = snoopy_outputregistry_doesNameExist(nm.p) ? snoopy_outputregistry_callByName(nm.p, exact(m), exact(a)) : -2;
        g_open_capture = 0; g_net_capture = 0;
        restore_fd(1, s1); restore_fd(2, s2);
        snoopy_cleanup();
        fprintf(out, "ok\t%d", r == -2 ? 2 : 0);
    } else fprintf(out, "driver-error:bad-case");
}

int main(int argc, char **argv) {
    snprintf(TMPDIR_, sizeof TMPDIR_, "%s", argc > 1 ? argv[1] : "/tmp");
    setenv("TZ", "UTC", 1); tzset();
    snoopy_configuration_preinit_disableConfigFileParsing();
    return run_cases(stdin, handle, 30);
}
