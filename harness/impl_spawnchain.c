/* implementation-side driver, area "spawns" (C15), real process chains:
 * builds a fork chain of the requested depth whose members name themselves with prctl(PR_SET_NAME),
 * and at the bottom (the "caller") (1) reads, independently of the code under test, /proc/<pid>/stat
 * (whole), /proc/<pid>/comm and the State:/PPid: lines of /proc/<pid>/status of every ancestor up to
 * pid 0, (2) runs snoopy_filter_exclude_spawns_of (library objects of the snapshot, ASan+UBSan, the
 * real /proc) once per argument.
 *
 *   chain <id> <plain|orphan> <names hexlist, top..bottom> <selfname hex> <arg;arg;...>
 *        -> ok <drop|pass>,<drop|pass>,...
 * side file ($VERIF_SPAWN_SIDE, appended, one line per case; carries pids, so not part of the result):
 *   <id> <self> <ppid> <pid=stathex;...> <pid:commhex:statehex:ppid;...> <effective args hex;...>
 * orphan: every chain member exits at once, the caller waits until it has been re-parented; an argument
 * item "@P" is replaced by the kernel name of the new parent.
 */
#include "common.h"
#include <fcntl.h>
#include <sys/prctl.h>
#include "snoopy.h"

int snoopy_filter_exclude_spawns_of(char const * const arg);
int snoopy_filtering_check_chain(char const * const filterChain);
static int preset_errno;   /* hist step e: errno of the calling thread at every following call */

static ssize_t slurp(const char *path, char *buf, size_t cap) {
    int fd = open(path, O_RDONLY); if (fd < 0) return -1;
    size_t n = 0; ssize_t k;
    while (n < cap && (k = read(fd, buf + n, cap - n)) > 0) n += (size_t)k;
    close(fd); return (ssize_t)n;
}
static void hexout(FILE *o, const char *p, size_t n) { put_hex(o, p, n); }

/* snapshot of all ancestors, then one filter call per argument; reports "R v,v,.." and "S <side record>" */
static void report_calls(FILE *rep, const char *id, const char *argspec, int orphan);
static void propagate(int st);

/* the caller: snapshot, run, report through fd */
static void caller(int fd, const char *id, const char *argspec, int orphan, pid_t oldparent) {
    FILE *rep = fdopen(fd, "w");
    if (orphan) {
        for (int i = 0; i < 20000 && getppid() == oldparent; i++) usleep(1000);
        if (getppid() == oldparent) { fprintf(rep, "R skip\nS -\nD\n"); fflush(rep); _exit(0); }   /* not re-parented in 20 s: no verdict */
    }
    report_calls(rep, id, argspec, orphan);
    fprintf(rep, "D\n");
    fflush(rep);
    _exit(0);
}

static void report_calls(FILE *rep, const char *id, const char *argspec, int orphan) {
    char *side = 0; size_t sl = 0; FILE *s = open_memstream(&side, &sl);
    char *truth = 0; size_t tl = 0; FILE *t = open_memstream(&truth, &tl);
    pid_t self = getpid(), pp = getppid();
    char parentcomm[64] = ""; size_t parentcomm_n = 0;
    fprintf(s, "%s\t%d\t%d\t", id, (int)self, (int)pp);
    pid_t p = self; int first = 1, tfirst = 1;
    for (int depth = 0; depth < 64 && p != 0; depth++) {
        char path[64], buf[8192], cm[256], stt[8192];
        snprintf(path, sizeof path, "/proc/%d/stat", (int)p);
        ssize_t n = slurp(path, buf, sizeof buf);
        if (n < 0) break;
        fprintf(s, "%s%d=", first ? "" : ";", (int)p); hexout(s, buf, (size_t)n); first = 0;
        snprintf(path, sizeof path, "/proc/%d/comm", (int)p);
        ssize_t cn = slurp(path, cm, sizeof cm);
        snprintf(path, sizeof path, "/proc/%d/status", (int)p);
        ssize_t sn = slurp(path, stt, sizeof stt - 1);
        if (cn < 1 || sn < 0) break;
        cn--;                                   /* the final newline */
        stt[sn] = 0;
        char *st = strstr(stt, "\nState:\t"), *ppl = strstr(stt, "\nPPid:\t");
        if (!st || !ppl) break;
        int parent = atoi(ppl + 7);
        fprintf(t, "%s%d:", tfirst ? "" : ";", (int)p); hexout(t, cm, (size_t)cn); fprintf(t, ":%02x:%d", (unsigned char)st[8], parent); tfirst = 0;
        if (p == pp) { memcpy(parentcomm, cm, (size_t)cn); parentcomm_n = (size_t)cn; }
        p = parent;
    }
    if (first) fputs("[]", s);
    if (tfirst) fputs("[]", t);
    fclose(t);
    fprintf(s, "\t%s\t", truth);
    /* the arguments */
    char *spec = strdup(argspec), *save = 0; int k = 0;
    fprintf(rep, "R ");
    for (char *a = strtok_r(spec, ";", &save); a; a = strtok_r(0, ";", &save), k++) {
        vbytes arg = parse_bytes(a);
        char *eff = malloc(arg.n + 4 * parentcomm_n + 64); size_t en = 0;
        for (size_t i = 0; i < arg.n; ) {
            if (orphan && arg.p[i] == '@' && i + 1 < arg.n && arg.p[i + 1] == 'P') { memcpy(eff + en, parentcomm, parentcomm_n); en += parentcomm_n; i += 2; }
            else eff[en++] = arg.p[i++];
        }
        eff[en] = 0;
        char *exact = malloc(en + 1); memcpy(exact, eff, en + 1);
        errno = preset_errno;
        int r = snoopy_filter_exclude_spawns_of(exact);
        free(exact);
        int rc = r;
        if (!memchr(eff, ';', en) && en < 3000) {          /* the same call as the filter chain walker makes it */
            char *chain = malloc(en + 32); int pl = sprintf(chain, "exclude_spawns_of:"); memcpy(chain + pl, eff, en + 1);
            errno = preset_errno;
            rc = snoopy_filtering_check_chain(chain);
            free(chain);
        }
        const char *vd = r == SNOOPY_FILTER_DROP ? "drop" : r == SNOOPY_FILTER_PASS ? "pass" : "other";
        if (rc == r) fprintf(rep, "%s%s", k ? "," : "", vd);
        else fprintf(rep, "%s%s/chain:%s", k ? "," : "", vd, rc == SNOOPY_FILTER_DROP ? "drop" : rc == SNOOPY_FILTER_PASS ? "pass" : "other");
        fprintf(s, "%s", k ? ";" : ""); hexout(s, eff, en);
        free(eff);
    }
    fclose(s);
    fprintf(rep, "\nS %s\n", side);
    fflush(rep);
    free(spec); free(side); free(truth);
}

/* ---- histories: a sequence of steps carried out along one line of descent
 *   hist <id> <plain|ns> <step;step;...>      n:<namehex>  prctl(PR_SET_NAME)      f  fork, go on in the child
 *                                             F:<pid>      fork with that pid (clone3 set_tid; mode ns only)
 *                                             c:<arghex>   snapshot + filter call in the current process      z  close(0)
 *        -> ok <verdict of every c step, in order>      side records <id>#<k> (k-th call)
 * mode ns: the steps run below the init process of a fresh pid namespace with its own /proc (needs root; "ok skip" otherwise). */
#include <sched.h>
#include <stdint.h>
#include <sys/mount.h>
#include <sys/syscall.h>
#include <linux/sched.h>

static pid_t fork_with_pid(pid_t want) {
    if (want == 0) return fork();
    pid_t set_tid[1] = { want };
    struct clone_args ca; memset(&ca, 0, sizeof ca);
    ca.exit_signal = SIGCHLD; ca.set_tid = (uint64_t)(uintptr_t) set_tid; ca.set_tid_size = 1;
    return (pid_t) syscall(SYS_clone3, &ca, sizeof ca);
}

static void hist_steps(FILE *rep, const char *id, char *steps) {
    char *save = 0; int k = 0;
    for (char *st = strtok_r(steps, ";", &save); st; st = strtok_r(0, ";", &save)) {
        if (st[0] == 'n' && st[1] == ':') { vbytes nm = parse_bytes(st + 2); prctl(PR_SET_NAME, nm.p); }
        else if (st[0] == 'e') preset_errno = ERANGE;     /* a failed strtol/strtod/... earlier in the caller: errno is stale, never reset */
        else if (st[0] == 'z') close(0);                 /* the process (and its descendants) go on without descriptor 0 */
        else if (st[0] == 'c' && st[1] == ':') { char key[128]; snprintf(key, sizeof key, "%s#%d", id, k++); report_calls(rep, key, st + 2, 0); }
        else if (st[0] == 'f' || st[0] == 'F') {
            fflush(rep);
            pid_t ch = fork_with_pid(st[0] == 'F' ? (pid_t) atoi(st + 2) : 0);
            if (ch < 0) { fprintf(rep, "K\n"); fflush(rep); _exit(0); }
            if (ch > 0) { int ws; waitpid(ch, &ws, 0); propagate(ws); _exit(0); }
        }
    }
    fprintf(rep, "D\n"); fflush(rep);
    _exit(0);
}

static void propagate(int st) {
    if (WIFSIGNALED(st)) { signal(WTERMSIG(st), SIG_DFL); kill(getpid(), WTERMSIG(st)); _exit(99); }
    if (WEXITSTATUS(st)) _exit(WEXITSTATUS(st));
}

static void handle(int nf, char **f, FILE *out) {
    if (!strcmp(f[0], "chain") && nf == 6) {
        int orphan = !strcmp(f[2], "orphan");
        vlist names = parse_list(f[3]);
        vbytes selfname = parse_bytes(f[4]);
        int pfd[2]; if (pipe(pfd)) { fprintf(out, "driver-error:pipe"); return; }
        pid_t top = fork();
        if (top < 0) { fprintf(out, "driver-error:fork"); return; }
        if (top == 0) {
            close(pfd[0]);
            alarm(30);
            pid_t forked_by = getppid();
            for (size_t i = 0; ; i++) {
                /* I am chain member i (or the caller when i == names.n) */
                if (i == names.n) { prctl(PR_SET_NAME, selfname.p); caller(pfd[1], f[1], f[5], orphan, forked_by); }
                prctl(PR_SET_NAME, names.v[i]);
                forked_by = getpid();            /* taken before the fork: the child must not ask getppid() after its parent may have gone */
                pid_t ch = fork();
                if (ch < 0) _exit(98);
                if (ch > 0) {
                    close(pfd[1]);
                    if (orphan) _exit(0);
                    int st; waitpid(ch, &st, 0); propagate(st); _exit(0);
                }
            }
        }
        close(pfd[1]);
        FILE *rp = fdopen(pfd[0], "r");
        char *line = 0; size_t cap = 0; ssize_t len; int done = 0; char *res = 0, *side = 0;
        while ((len = getline(&line, &cap, rp)) >= 0) {
            if (len && line[len - 1] == '\n') line[--len] = 0;
            if (line[0] == 'R') res = strdup(line + 2);
            else if (line[0] == 'S') side = strdup(line + 2);
            else if (line[0] == 'D') done = 1;
        }
        fclose(rp);
        int st; waitpid(top, &st, 0);
        if (!orphan) propagate(st);
        if (!done || !res) { fprintf(out, "exit:lost"); return; }
        const char *sp = getenv("VERIF_SPAWN_SIDE");
        if (sp && side) { FILE *sf = fopen(sp, "a"); if (sf) { fprintf(sf, "%s\n", side); fclose(sf); } }
        fprintf(out, "ok\t%s", res);
    } else if (!strcmp(f[0], "hist") && nf == 4) {
        int ns = !strcmp(f[2], "ns");
        int pfd[2]; if (pipe(pfd)) { fprintf(out, "driver-error:pipe"); return; }
        pid_t top = fork();
        if (top < 0) { fprintf(out, "driver-error:fork"); return; }
        if (top == 0) {
            close(pfd[0]);
            FILE *rep = fdopen(pfd[1], "w");
            if (ns) {
                if (unshare(CLONE_NEWPID | CLONE_NEWNS)) { fprintf(rep, "K\n"); fflush(rep); _exit(0); }
                pid_t init = fork();
                if (init < 0) { fprintf(rep, "K\n"); fflush(rep); _exit(0); }
                if (init > 0) { int ws; waitpid(init, &ws, 0); propagate(ws); _exit(0); }
                if (mount(0, "/", 0, MS_REC | MS_PRIVATE, 0) || mount("proc", "/proc", "proc", 0, 0)) { fprintf(rep, "K\n"); fflush(rep); _exit(0); }
            }
            hist_steps(rep, f[1], f[3]);
        }
        close(pfd[1]);
        FILE *rp = fdopen(pfd[0], "r");
        char *line = 0; size_t cap = 0; ssize_t len; int done = 0, skip = 0, nres = 0;
        char *resb = 0; size_t resl = 0; FILE *res = open_memstream(&resb, &resl);
        char *sideb = 0; size_t sidel = 0; FILE *side = open_memstream(&sideb, &sidel);
        while ((len = getline(&line, &cap, rp)) >= 0) {
            if (len && line[len - 1] == '\n') line[--len] = 0;
            if (line[0] == 'R') { fprintf(res, "%s%s", nres++ ? "," : "", line + 2); }
            else if (line[0] == 'S') fprintf(side, "%s\n", line + 2);
            else if (line[0] == 'D') done = 1;
            else if (line[0] == 'K') skip = 1;
        }
        fclose(rp); fclose(res); fclose(side);
        int st; waitpid(top, &st, 0);
        propagate(st);
        if (skip) { fprintf(out, "ok\tskip"); return; }
        if (!done) { fprintf(out, "exit:lost"); return; }
        const char *sp = getenv("VERIF_SPAWN_SIDE");
        if (sp) { FILE *sf = fopen(sp, "a"); if (sf) { fputs(sideb, sf); fclose(sf); } }
        fprintf(out, "ok\t%s", nres ? resb : "-");
    } else fprintf(out, "driver-error:bad-case");
}

int main(void) { return run_cases(stdin, handle, 60); }
