/* implementation-side driver, area "spawns" (C15), function level with a synthetic /proc:
 * snoopy_filter_exclude_spawns_of from the library objects built from the snapshot (ASan+UBSan),
 * linked with -Wl,--wrap=fopen,--wrap=fopen64,--wrap=open,--wrap=open64,--wrap=getppid,--wrap=getpid
 * so that "/proc/<pid>/stat" is served from the case's table and the pid queries answer the case's pids.
 *
 *   filter <arghex> <self> <ppid> <pid=hex;pid=hex;...|[]>   ->   ok <drop|pass> <pids opened, in order|->
 *   cfilter ... the same through snoopy_filtering_check_chain("exclude_spawns_of:<arg>") (arguments without ';')
 */
#include "common.h"
#include <fcntl.h>
#include <stdarg.h>
#include <sys/mman.h>
#include "snoopy.h"

int snoopy_filter_exclude_spawns_of(char const * const arg);
int snoopy_filtering_check_chain(char const * const filterChain);

#define MAXT 64
static struct { long pid; vbytes content; } tab[MAXT];
static int ntab, active;
static long syn_self, syn_ppid;
static long opened[256]; static int nopened;

FILE *__real_fopen(const char *, const char *);
FILE *__real_fopen64(const char *, const char *);
int __real_open(const char *, int, ...);
int __real_open64(const char *, int, ...);
pid_t __real_getppid(void);
pid_t __real_getpid(void);

/* "/proc/<int>/stat" -> 1 and *pid */
static int stat_path(const char *path, long *pid) {
    if (!active || !path || strncmp(path, "/proc/", 6)) return 0;
    char *end; errno = 0;
    long v = strtol(path + 6, &end, 10);
    if (end == path + 6 || strcmp(end, "/stat")) return 0;
    *pid = v; return 1;
}
static int serve(long pid) {
    if (nopened < 256) opened[nopened++] = pid;
    for (int i = 0; i < ntab; i++) if (tab[i].pid == pid) {
        int fd = memfd_create("stat", 0);
        if (fd < 0) { perror("memfd_create"); _exit(3); }
        if (tab[i].content.n && write(fd, tab[i].content.p, tab[i].content.n) != (ssize_t)tab[i].content.n) { perror("write"); _exit(3); }
        lseek(fd, 0, SEEK_SET);
        return fd;
    }
    errno = ENOENT; return -1;
}
FILE *__wrap_fopen(const char *path, const char *mode) {
    long pid; if (!stat_path(path, &pid)) return __real_fopen(path, mode);
    int fd = serve(pid); return fd < 0 ? NULL : fdopen(fd, "r");
}
FILE *__wrap_fopen64(const char *path, const char *mode) { return __wrap_fopen(path, mode); }
int __wrap_open(const char *path, int flags, ...) {
    long pid; va_list ap; va_start(ap, flags); int mode = va_arg(ap, int); va_end(ap);
    if (!stat_path(path, &pid)) return __real_open(path, flags, mode);
    return serve(pid);
}
int __wrap_open64(const char *path, int flags, ...) {
    long pid; va_list ap; va_start(ap, flags); int mode = va_arg(ap, int); va_end(ap);
    if (!stat_path(path, &pid)) return __real_open64(path, flags, mode);
    return serve(pid);
}
pid_t __wrap_getppid(void) { return active ? (pid_t)syn_ppid : __real_getppid(); }
pid_t __wrap_getpid(void) { return active ? (pid_t)syn_self : __real_getpid(); }

static void handle(int nf, char **f, FILE *out) {
    int via_chain = !strcmp(f[0], "cfilter");        /* the same call made by the filter chain walker: "exclude_spawns_of:<arg>" */
    if ((!strcmp(f[0], "filter") || via_chain) && (nf == 5 || nf == 6)) {   /* a 6th field (the generator's abstract table) is for the spec only */
        vbytes arg = parse_bytes(f[1]);
        syn_self = strtol(f[2], 0, 10); syn_ppid = strtol(f[3], 0, 10);
        ntab = 0; nopened = 0;
        if (strcmp(f[4], "[]")) {
            char *save = 0;
            for (char *e = strtok_r(f[4], ";", &save); e && ntab < MAXT; e = strtok_r(0, ";", &save)) {
                char *eq = strchr(e, '='); if (!eq) { fprintf(out, "driver-error:tree"); return; }
                *eq = 0; tab[ntab].pid = strtol(e, 0, 10); tab[ntab].content = parse_bytes(eq + 1); ntab++;
            }
        }
        /* exact-size heap copy of the argument so that ASan sees any overread */
        static const char pre[] = "exclude_spawns_of:";
        size_t off = via_chain ? sizeof pre - 1 : 0;
        char *a = malloc(off + arg.n + 1); memcpy(a, pre, off); memcpy(a + off, arg.p, arg.n + 1);
        active = 1;
        int r = via_chain ? snoopy_filtering_check_chain(a) : snoopy_filter_exclude_spawns_of(a);
        active = 0;
        free(a);
        fprintf(out, "ok\t%s\t", r == SNOOPY_FILTER_DROP ? "drop" : r == SNOOPY_FILTER_PASS ? "pass" : "other");
        if (!nopened) fputc('-', out);
        for (int i = 0; i < nopened; i++) fprintf(out, "%s%ld", i ? "," : "", opened[i]);
    } else fprintf(out, "driver-error:bad-case");
}

int main(void) { return run_cases(stdin, handle, 5); }
