/* implementation-side driver, area "spawns" (C15), function level with a synthetic /proc:
 * snoopy_filter_exclude_spawns_of from the library objects built from the snapshot (ASan+UBSan),
 * linked with -Wl,--wrap=fopen,--wrap=fopen64,--wrap=open,--wrap=open64,--wrap=getppid,--wrap=getpid
 * so that "/proc/<pid>/stat" is served from the case's table and the pid queries answer the case's pids.
 *
 *   filter <arghex> <self> <ppid> <pid=hex;pid=hex;...|[]>   ->   ok <drop|pass> <pids opened, in order|->
 *   cfilter ... the same through snoopy_filtering_check_chain("exclude_spawns_of:<arg>") (arguments without ';')
 */
#include "common.h"
#include <fcntl.h>
#include <stdarg.h>
#include <sys/mman.h>
#include "snoopy.h"

int snoopy_filter_exclude_spawns_of(char const * const arg);
int snoopy_filtering_check_chain(char const * const filterChain);

#define MAXT 64
static struct { long pid; vbytes content; } tab[MAXT];
static int ntab, active, threaded, force_errno;   /* force_errno: value errno has when a served open returns successfully (a successful call may leave any value) */
static long syn_self, syn_ppid;
static long opened[256]; static int nopened;

FILE *__real_fopen(const char *, const char *);
FILE *__real_fopen64(const char *, const char *);
int __real_open(const char *, int, ...);
int __real_open64(const char *, int, ...);
pid_t __real_getppid(void);
pid_t __real_getpid(void);

/* "/proc/<int>/stat" -> 1 and *pid */
static int stat_path(const char *path, long *pid) {
    if (!active || !path || strncmp(path, "/proc/", 6)) return 0;
    char *end; errno = 0;
    long v = strtol(path + 6, &end, 10);
    if (end == path + 6 || strcmp(end, "/stat")) return 0;
    *pid = v; return 1;
}
static int serve(long pid) {
    if (!threaded && nopened < 256) opened[nopened++] = pid;
    for (int i = 0; i < ntab; i++) if (tab[i].pid == pid) {
        int fd = memfd_create("stat", 0);
        if (fd < 0) { perror("memfd_create"); _exit(3); }
        if (tab[i].content.n && write(fd, tab[i].content.p, tab[i].content.n) != (ssize_t)tab[i].content.n) { perror("write"); _exit(3); }
        lseek(fd, 0, SEEK_SET);
        return fd;
    }
    errno = ENOENT; return -1;
}
FILE *__wrap_fopen(const char *path, const char *mode) {
    long pid; if (!stat_path(path, &pid)) return __real_fopen(path, mode);
    int fd = serve(pid); if (fd < 0) return NULL;
    FILE *fp = fdopen(fd, "r"); if (fp && force_errno) errno = force_errno;
    return fp;
}
FILE *__wrap_fopen64(const char *path, const char *mode) { return __wrap_fopen(path, mode); }
int __wrap_open(const char *path, int flags, ...) {
    long pid; va_list ap; va_start(ap, flags); int mode = va_arg(ap, int); va_end(ap);
    if (!stat_path(path, &pid)) return __real_open(path, flags, mode);
    return serve(pid);
}
int __wrap_open64(const char *path, int flags, ...) {
    long pid; va_list ap; va_start(ap, flags); int mode = va_arg(ap, int); va_end(ap);
    if (!stat_path(path, &pid)) return __real_open64(path, flags, mode);
    return serve(pid);
}
pid_t __wrap_getppid(void) { return active ? (pid_t)syn_ppid : __real_getppid(); }
pid_t __wrap_getpid(void) { return active ? (pid_t)syn_self : __real_getpid(); }

/* one call: direct, or as the chain walker makes it ("exclude_spawns_of:<arg>[;exclude_spawns_of:<arg2>]") */
static int call_filter(int via_chain, vbytes arg, vbytes *arg2) {
    static const char pre[] = "exclude_spawns_of:";
    size_t pl = sizeof pre - 1, off = via_chain ? pl : 0, n2 = arg2 ? 1 + pl + arg2->n : 0;
    /* exact-size heap copy of the argument so that ASan sees any overread */
    char *a = malloc(off + arg.n + n2 + 1); memcpy(a, pre, off); memcpy(a + off, arg.p, arg.n + 1);
    if (arg2) { a[off + arg.n] = ';'; memcpy(a + off + arg.n + 1, pre, pl); memcpy(a + off + arg.n + 1 + pl, arg2->p, arg2->n + 1); }
    int r = via_chain ? snoopy_filtering_check_chain(a) : snoopy_filter_exclude_spawns_of(a);
    free(a);
    return r;
}
static const char *vname(int r) { return r == SNOOPY_FILTER_DROP ? "drop" : r == SNOOPY_FILTER_PASS ? "pass" : "other"; }

#include <pthread.h>
struct tjob { vbytes arg; int rounds; int first; int mixed; };
static void *tworker(void *x) {
    struct tjob *j = x;
    for (int k = 0; k < j->rounds; k++) {
        int r = call_filter(0, j->arg, 0);
        if (k == 0) j->first = r; else if (r != j->first) j->mixed = 1;
    }
    return 0;
}

static void handle(int nf, char **f, FILE *out) {
    /* filter / cfilter (through the chain walker) / filter0, cfilter0 (descriptor 0 closed during the call) /
       cfilter2 <arg> = "<hex1>+<hex2>" (two chain elements) / tfilter <arg> = "<hex>;<hex>;..." (one thread per argument, concurrently) */
    int via_chain = !strncmp(f[0], "cfilter", 7), fd0 = f[0][strlen(f[0]) - 1] == '0', two = !strcmp(f[0], "cfilter2"), thr = !strcmp(f[0], "tfilter"),
        erange = f[0][strlen(f[0]) - 1] == 'E';      /* filterE / cfilterE: the caller's errno is ERANGE when the call is made */
    if ((!strcmp(f[0], "filter") || !strcmp(f[0], "filter0") || !strcmp(f[0], "cfilter") || !strcmp(f[0], "cfilter0") || !strcmp(f[0], "filterE") || !strcmp(f[0], "cfilterE") || two || thr) && (nf == 5 || nf == 6)) {
        syn_self = strtol(f[2], 0, 10); syn_ppid = strtol(f[3], 0, 10);
        ntab = 0; nopened = 0; threaded = thr;
        if (strcmp(f[4], "[]")) {
            char *save = 0;
            for (char *e = strtok_r(f[4], ";", &save); e && ntab < MAXT; e = strtok_r(0, ";", &save)) {
                char *eq = strchr(e, '='); if (!eq) { fprintf(out, "driver-error:tree"); return; }
                *eq = 0; tab[ntab].pid = strtol(e, 0, 10); tab[ntab].content = parse_bytes(eq + 1); ntab++;
            }
        }
        if (thr) {
            struct tjob jobs[8]; pthread_t th[8]; int n = 0; char *save = 0;
            for (char *e = strtok_r(f[1], ";", &save); e && n < 8; e = strtok_r(0, ";", &save)) { jobs[n].arg = parse_bytes(e); jobs[n].rounds = 300; jobs[n].first = -1; jobs[n].mixed = 0; n++; }
            active = 1;
            for (int i = 0; i < n; i++) pthread_create(&th[i], 0, tworker, &jobs[i]);
            for (int i = 0; i < n; i++) pthread_join(th[i], 0);
            active = 0; threaded = 0;
            fprintf(out, "ok\t");
            for (int i = 0; i < n; i++) fprintf(out, "%s%s", i ? "," : "", jobs[i].mixed ? "mixed" : vname(jobs[i].first));
            return;
        }
        vbytes arg, arg2; char *plus = two ? strchr(f[1], '+') : 0;
        if (two && !plus) { fprintf(out, "driver-error:cfilter2"); return; }
        if (plus) { *plus = 0; arg2 = parse_bytes(plus + 1); }
        arg = parse_bytes(f[1]);
        int saved = -1;
        if (fd0) { saved = dup(0); close(0); }
        active = 1;
        force_errno = erange ? ERANGE : 0;
        errno = force_errno;
        int r = call_filter(via_chain, arg, plus ? &arg2 : 0);
        force_errno = 0;
        active = 0;
        if (fd0 && saved >= 0) { dup2(saved, 0); close(saved); }
        fprintf(out, "ok\t%s\t", vname(r));
        if (!nopened) fputc('-', out);
        for (int i = 0; i < nopened; i++) fprintf(out, "%s%ld", i ? "," : "", opened[i]);
    } else fprintf(out, "driver-error:bad-case");
}

int main(void) { return run_cases(stdin, handle, 5); }
