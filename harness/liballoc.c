/* liballoc.so — live-allocation accounting by call site (C11 growth / double free, C16 residue).
 *
 *   LD_PRELOAD="liballoc.so <libsnoopy.so> [libfaultlite.so] librecorder.so" tool_caller ...
 *
 * Interposes malloc / calloc / realloc / free / posix_memalign / aligned_alloc / memalign and (to see the library's own call
 * sites instead of libc's) strdup / strndup.  Every live block is kept in a fixed open-addressing table with the return address
 * of the allocating call.  A free() of a pointer that WAS live and has been released already is reported and not passed on.
 *
 * Reporting hook: the scripted caller's verif_sample_state() starts with mallinfo2(); this library interposes mallinfo2(), writes one line
 *     alloc<TAB>live=<n><TAB>bytes=<n><TAB>seq=<n><TAB>lib=<obj+off:count:bytes,...|-><TAB>other=<object:count:bytes,...|->
 * to the record file (verif_expect.rec_fd) — "lib" lists the live blocks whose allocating call site lies in an object whose name
 * contains $VERIF_ALLOC_OBJ (default "lib-prod"), "other" aggregates the rest by object — and then returns the real mallinfo2().
 * The line therefore directly precedes the "state" line of the same sampling point.
 * Errors are written as   allocerr<TAB><kind><TAB><site>   at the moment they happen.
 * No allocation is made by this library itself; dlsym()'s own calloc during start-up is served from a static arena. */
#define _GNU_SOURCE
#include <dlfcn.h>
#include <errno.h>
#include <malloc.h>
#include <pthread.h>
#include <stdint.h>
#include <stdio.h>
#include <stdlib.h>
#include <string.h>
#include <unistd.h>
#include "verif_shared.h"

#define TAB_BITS 17
#define TAB_SIZE (1u << TAB_BITS)
enum { EMPTY = 0, LIVE = 1, FREED = 2 };
struct ent { void *ptr; void *site; size_t size; unsigned long seq; int st; };
static struct ent tab[TAB_SIZE];
static unsigned long seqno;
static pthread_mutex_t mu = PTHREAD_RECURSIVE_MUTEX_INITIALIZER_NP;

static void *(*r_malloc)(size_t);
static void *(*r_calloc)(size_t, size_t);
static void *(*r_realloc)(void *, size_t);
static void (*r_free)(void *);
static int (*r_posix_memalign)(void **, size_t, size_t);
static void *(*r_aligned_alloc)(size_t, size_t);
static void *(*r_memalign)(size_t, size_t);
static struct mallinfo2 (*r_mallinfo2)(void);
static int resolving;

static char boot[1 << 16];
static size_t boot_used;
static int in_boot(void *p) { return (char *)p >= boot && (char *)p < boot + sizeof boot; }
static void *boot_alloc(size_t n) {
    n = (n + 15) & ~(size_t)15;
    if (boot_used + n > sizeof boot) return NULL;
    void *p = boot + boot_used; boot_used += n; memset(p, 0, n); return p;
}

static void resolve(void) {
    if (r_malloc || resolving) return;
    resolving = 1;
    r_calloc = (void *(*)(size_t, size_t)) dlsym(RTLD_NEXT, "calloc");
    r_malloc = (void *(*)(size_t)) dlsym(RTLD_NEXT, "malloc");
    r_realloc = (void *(*)(void *, size_t)) dlsym(RTLD_NEXT, "realloc");
    r_free = (void (*)(void *)) dlsym(RTLD_NEXT, "free");
    r_posix_memalign = (int (*)(void **, size_t, size_t)) dlsym(RTLD_NEXT, "posix_memalign");
    r_aligned_alloc = (void *(*)(size_t, size_t)) dlsym(RTLD_NEXT, "aligned_alloc");
    r_memalign = (void *(*)(size_t, size_t)) dlsym(RTLD_NEXT, "memalign");
    r_mallinfo2 = (struct mallinfo2 (*)(void)) dlsym(RTLD_NEXT, "mallinfo2");
    resolving = 0;
}

static unsigned hash(void *p) { uintptr_t x = (uintptr_t)p >> 4; x ^= x >> 17; x *= 0x9E3779B1u; return (unsigned)(x >> 3) & (TAB_SIZE - 1); }

static int rec_fd(void) {
    static struct verif_expect *ex;
    if (!ex) ex = (struct verif_expect *) dlsym(RTLD_DEFAULT, "verif_expect");
    return ex ? ex->rec_fd : -1;
}
static void wr(int fd, const char *s) { if (fd >= 0) (void)!write(fd, s, strlen(s)); }

static size_t fmt_site(char *buf, size_t n, void *site) {
    Dl_info di;
    if (site && dladdr(site, &di) && di.dli_fname) {
        const char *b = strrchr(di.dli_fname, '/'); b = b ? b + 1 : di.dli_fname;
        return (size_t) snprintf(buf, n, "%s+0x%lx", b, (unsigned long)((char *)site - (char *)di.dli_fbase));
    }
    return (size_t) snprintf(buf, n, "?+%p", site);
}

/* distinct allocating call sites seen so far (reported when the set has grown since the last report) */
#define MAXSITES 512
static void *allsites[MAXSITES]; static int nallsites, reported_sites;

static void note(void *p, size_t size, void *site) {
    if (!p || in_boot(p)) return;
    pthread_mutex_lock(&mu);
    { int i; for (i = 0; i < nallsites; i++) if (allsites[i] == site) break; if (i == nallsites && nallsites < MAXSITES) allsites[nallsites++] = site; }
    unsigned h = hash(p), first_free = TAB_SIZE;
    for (unsigned i = 0; i < TAB_SIZE; i++) {
        struct ent *e = &tab[(h + i) & (TAB_SIZE - 1)];
        if (e->st == EMPTY) { if (first_free == TAB_SIZE) first_free = (h + i) & (TAB_SIZE - 1); break; }
        if (e->ptr == p) { first_free = (h + i) & (TAB_SIZE - 1); break; }       /* re-use of an address: same slot */
    }
    if (first_free != TAB_SIZE) { struct ent *e = &tab[first_free]; e->ptr = p; e->site = site; e->size = size; e->seq = ++seqno; e->st = LIVE; }
    pthread_mutex_unlock(&mu);
}

/* returns 1 if the block was live, 0 if unknown to us, -1 if it had been released already */
static size_t last_size; static void *last_site;     /* of the block just forgotten (valid under the caller's use right after forget() == 1, single consumer: free) */
static int forget(void *p) {
    int r = 0;
    pthread_mutex_lock(&mu);
    unsigned h = hash(p);
    for (unsigned i = 0; i < TAB_SIZE; i++) {
        struct ent *e = &tab[(h + i) & (TAB_SIZE - 1)];
        if (e->st == EMPTY) break;
        if (e->ptr == p) { if (e->st == LIVE) { e->st = FREED; r = 1; last_size = e->size; last_site = e->site; } else r = -1; break; }
    }
    pthread_mutex_unlock(&mu);
    return r;
}

void *malloc(size_t n) {
    resolve();
    if (!r_malloc) return boot_alloc(n);
    void *p = r_malloc(n); note(p, n, __builtin_return_address(0)); return p;
}
void *calloc(size_t a, size_t b) {
    resolve();
    if (!r_calloc) return boot_alloc(a * b);
    void *p = r_calloc(a, b); note(p, a * b, __builtin_return_address(0)); return p;
}
void *realloc(void *old, size_t n) {
    resolve();
    if (in_boot(old)) { void *p = malloc(n); if (p) memcpy(p, old, n); return p; }
    if (old && forget(old) < 0) { char b[256] = "allocerr\trealloc-of-released\t"; fmt_site(b + strlen(b), 200, __builtin_return_address(0)); strcat(b, "\n"); wr(rec_fd(), b); return NULL; }
    void *p = r_realloc(old, n);
    if (p) note(p, n, __builtin_return_address(0)); else if (old && n) note(old, 0, __builtin_return_address(0));
    return p;
}
/* ---- quarantine ($VERIF_ALLOC_QUARANTINE=1): a block that was allocated from a call site in the library under test is not handed back to
 * the allocator when it is freed: it is filled with 0xA5 and parked (4 MiB / 2048 blocks, oldest leave first).  Its address is therefore not
 * re-used by the next allocation of that size, a stale pointer reads garbage, and a WRITE through a stale pointer is seen: at every report and
 * when a block leaves the quarantine the fill is verified   ->   allocerr<TAB>write-after-free<TAB><site that allocated the block> */
#define QMAX 2048
#define QBYTES (4u << 20)
static struct { void *p; size_t n; void *site; } quar[QMAX];
static unsigned qhead, qcount; static size_t qbytes; static int quarantine = -1;

static int in_target(void *site) {
    Dl_info di; const char *want = getenv("VERIF_ALLOC_OBJ"); if (!want) want = "lib-prod";
    return site && dladdr(site, &di) && di.dli_fname && strstr(di.dli_fname, want);
}
static void q_verify(unsigned i) {
    unsigned char *b = quar[i].p;
    for (size_t k = 0; k < quar[i].n; k++) if (b[k] != 0xA5) {
        char m[256] = "allocerr\twrite-after-free\t"; fmt_site(m + strlen(m), 200, quar[i].site); strcat(m, "\n"); wr(rec_fd(), m);
        memset(b, 0xA5, quar[i].n);
        break;
    }
}
static void q_verify_all(void) { pthread_mutex_lock(&mu); for (unsigned k = 0; k < qcount; k++) q_verify((qhead + k) % QMAX); pthread_mutex_unlock(&mu); }
static int q_park(void *p, size_t n, void *site) {
    if (quarantine < 0) { const char *e = getenv("VERIF_ALLOC_QUARANTINE"); quarantine = e && *e == '1'; }
    if (!quarantine || n == 0 || n > QBYTES / 4 || !in_target(site)) return 0;
    pthread_mutex_lock(&mu);
    while (qcount == QMAX || (qcount && qbytes + n > QBYTES)) {
        q_verify(qhead); void *old = quar[qhead].p; qbytes -= quar[qhead].n; qhead = (qhead + 1) % QMAX; qcount--;
        if (r_free) r_free(old);
    }
    memset(p, 0xA5, n);
    unsigned at = (qhead + qcount) % QMAX; quar[at].p = p; quar[at].n = n; quar[at].site = site; qcount++; qbytes += n;
    pthread_mutex_unlock(&mu);
    return 1;
}

void free(void *p) {
    if (!p || in_boot(p)) return;
    resolve();
    pthread_mutex_lock(&mu);
    int r = forget(p); size_t n = last_size; void *site = last_site;
    pthread_mutex_unlock(&mu);
    if (r < 0) {
        char b[256] = "allocerr\tdouble-free\t"; fmt_site(b + strlen(b), 200, __builtin_return_address(0)); strcat(b, "\n"); wr(rec_fd(), b);
        return;                                   /* keep the process alive so that the report is complete */
    }
    if (r == 1 && q_park(p, n, site)) return;
    if (r_free) r_free(p);
}
int posix_memalign(void **out, size_t al, size_t n) { resolve(); int r = r_posix_memalign(out, al, n); if (!r) note(*out, n, __builtin_return_address(0)); return r; }
void *aligned_alloc(size_t al, size_t n) { resolve(); void *p = r_aligned_alloc(al, n); note(p, n, __builtin_return_address(0)); return p; }
void *memalign(size_t al, size_t n) { resolve(); void *p = r_memalign(al, n); note(p, n, __builtin_return_address(0)); return p; }

char *strdup(const char *s) {
    resolve();
    size_t n = strlen(s) + 1; char *p = r_malloc(n);
    if (p) { memcpy(p, s, n); note(p, n, __builtin_return_address(0)); }
    return p;
}
char *strndup(const char *s, size_t k) {
    resolve();
    size_t n = strnlen(s, k); char *p = r_malloc(n + 1);
    if (p) { memcpy(p, s, n); p[n] = 0; note(p, n + 1, __builtin_return_address(0)); }
    return p;
}

/* ---- reporting hook */
#define MAXAGG 256
struct agg { char name[96]; unsigned long count, bytes; };

static void add_agg(struct agg *a, int *n, const char *name, size_t bytes) {
    for (int i = 0; i < *n; i++) if (!strcmp(a[i].name, name)) { a[i].count++; a[i].bytes += bytes; return; }
    if (*n < MAXAGG) { strncpy(a[*n].name, name, sizeof a[*n].name - 1); a[*n].name[sizeof a[*n].name - 1] = 0; a[*n].count = 1; a[*n].bytes = bytes; (*n)++; }
}

static void dump(void) {
    int fd = rec_fd();
    if (fd < 0) return;
    q_verify_all();
    const char *want = getenv("VERIF_ALLOC_OBJ"); if (!want) want = "lib-prod";
    static struct agg lib[MAXAGG], oth[MAXAGG];
    int nl = 0, no = 0; unsigned long live = 0, bytes = 0;
    pthread_mutex_lock(&mu);
    for (unsigned i = 0; i < TAB_SIZE; i++) {
        struct ent *e = &tab[i];
        if (e->st != LIVE) continue;
        live++; bytes += e->size;
        Dl_info di; char nm[96];
        if (e->site && dladdr(e->site, &di) && di.dli_fname) {
            const char *b = strrchr(di.dli_fname, '/'); b = b ? b + 1 : di.dli_fname;
            if (strstr(b, want)) { snprintf(nm, sizeof nm, "%s+0x%lx", b, (unsigned long)((char *)e->site - (char *)di.dli_fbase)); add_agg(lib, &nl, nm, e->size); }
            else { snprintf(nm, sizeof nm, "%s", b); add_agg(oth, &no, nm, e->size); }
        } else add_agg(oth, &no, "?", e->size);
    }
    unsigned long sq = seqno;
    pthread_mutex_unlock(&mu);
    static char out[MAXAGG * 140 * 2 + 256]; size_t o = 0;
    o += (size_t) snprintf(out + o, sizeof out - o, "alloc\tlive=%lu\tbytes=%lu\tseq=%lu\tlib=", live, bytes, sq);
    if (!nl) o += (size_t) snprintf(out + o, sizeof out - o, "-");
    for (int i = 0; i < nl; i++) o += (size_t) snprintf(out + o, sizeof out - o, "%s%s:%lu:%lu", i ? "," : "", lib[i].name, lib[i].count, lib[i].bytes);
    o += (size_t) snprintf(out + o, sizeof out - o, "\tother=");
    if (!no) o += (size_t) snprintf(out + o, sizeof out - o, "-");
    for (int i = 0; i < no; i++) o += (size_t) snprintf(out + o, sizeof out - o, "%s%s:%lu:%lu", i ? "," : "", oth[i].name, oth[i].count, oth[i].bytes);
    o += (size_t) snprintf(out + o, sizeof out - o, "\n");
    (void)!write(fd, out, o);
    if (nallsites > reported_sites) {       /* every call site in the library under test that has allocated so far */
        o = (size_t) snprintf(out, sizeof out, "allocsites\t");
        int first = 1;
        for (int i = 0; i < nallsites; i++) {
            Dl_info di;
            if (allsites[i] && dladdr(allsites[i], &di) && di.dli_fname && strstr(di.dli_fname, want)) {
                const char *b = strrchr(di.dli_fname, '/'); b = b ? b + 1 : di.dli_fname;
                o += (size_t) snprintf(out + o, sizeof out - o, "%s%s+0x%lx", first ? "" : ",", b, (unsigned long)((char *)allsites[i] - (char *)di.dli_fbase));
                first = 0;
            }
        }
        o += (size_t) snprintf(out + o, sizeof out - o, "\n");
        (void)!write(fd, out, o);
        reported_sites = nallsites;
    }
}

struct mallinfo2 mallinfo2(void) {
    resolve();
    dump();
    if (r_mallinfo2) return r_mallinfo2();
    struct mallinfo2 z; memset(&z, 0, sizeof z); return z;
}
