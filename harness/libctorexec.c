/* libctorexec.so — a preloaded library whose constructor issues exec calls BEFORE main(), and (depending on its place in
 * LD_PRELOAD) before the constructors of libsnoopy.so have run:  LD_PRELOAD="<libsnoopy.so> libctorexec.so librecorder.so" /bin/true
 * (initialisers of preloaded objects run last-loaded first).  It plays the caller's role of tool_caller for these two calls: it
 * exports verif_expect (scripted result -1/EACCES, then -1/ENOENT), so librecorder.so records what reaches the real functions.
 *   VERIF_CTOR_REC=<file>   record file (same grammar as tool_caller's)   */
#define _GNU_SOURCE
#include <errno.h>
#include <fcntl.h>
#include <stdio.h>
#include <stdlib.h>
#include <string.h>
#include <unistd.h>
#include "verif_shared.h"

struct verif_expect verif_expect;
static char *ARGV[] = { "ctor-argv0", "second arg", "", NULL };
static char *ENVP[] = { "CTOR=1", "NL=a\nb", NULL };

static void one(int idx, int is_execv, int ret, int err) {
    char b[128];
    verif_expect.path = "/ctor/exec/path"; verif_expect.argv = ARGV; verif_expect.envp = ENVP;
    verif_expect.is_execv = is_execv; verif_expect.mode = 0; verif_expect.ret = ret; verif_expect.err = err;
    verif_expect.call_index = idx; verif_expect.real_calls = 0;
    errno = 0;
    int r = is_execv ? execv(verif_expect.path, ARGV) : execve(verif_expect.path, ARGV, ENVP);
    int e = errno;
    int n = snprintf(b, sizeof b, "ret\t%d\t%d\t%d\t%d\n", idx, r, e, verif_expect.real_calls);
    (void)!write(verif_expect.rec_fd, b, (size_t)n);
}

__attribute__((constructor)) static void early_exec(void) {
    const char *rec = getenv("VERIF_CTOR_REC");
    if (!rec) return;
    int fd = open(rec, O_WRONLY | O_CREAT | O_APPEND | O_CLOEXEC, 0644);
    if (fd < 0) return;
    verif_expect.rec_fd = fcntl(fd, F_DUPFD_CLOEXEC, 200); close(fd);
    one(0, 0, -1, EACCES);
    one(1, 1, -1, ENOENT);
    (void)!write(verif_expect.rec_fd, "end\t2\n", 6);
}
