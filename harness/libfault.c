/* libfault.so — the oracle of coq/theories/Fault/IO.v made real (C03).
 *
 * LD_PRELOAD order:  libsnoopy.so  libfault.so  librecorder.so
 *   - every libc-boundary I/O function the library calls resolves here first; between the harness markers
 *     verif_fault_begin() and verif_fault_mark() each such call is (a) written to the record file as one line
 *         io <idx> <fn> <a1> <a2> <ret> <errno> <data-hex> <injected>
 *     and (b) made to FAIL with a chosen errno when the plan names its global index ("k:errno") or its
 *     (function, occurrence) pair ("fn#occ:errno"), both counted from 0 after the begin marker.
 *   - libfault's own execve/execv (what the wrappers' dlsym(RTLD_NEXT) finds) writes "mark exec", stops the trace and
 *     forwards to the next definition (librecorder's scripted real exec).
 *   - calls that glibc (or an NSS module) makes while one of these functions runs are not traced and never
 *     failed: a glibc-internal lookup is ONE abstract call of the model.
 *   - an injected failure of close()/fclose() still releases the descriptor/stream (as Linux does), so the
 *     harness itself leaks nothing.
 * No pids, addresses or times are written (pid-bearing procfs paths are canonicalised by the check). */
#define _GNU_SOURCE
#include <dlfcn.h>
#include <errno.h>
#include <fcntl.h>
#include <grp.h>
#include <pwd.h>
#include <stdarg.h>
#include <stdio.h>
#include <stdlib.h>
#include <string.h>
#include <syslog.h>
#include <time.h>
#include <unistd.h>
#include <utmp.h>
#include <sys/socket.h>
#include <sys/stat.h>
#include <sys/syscall.h>
#include <sys/time.h>
#include <sys/un.h>

#define MAXPLAN 64
struct plan_item { int by_index; long index; char fn[24]; long occ; int err; int used; };
static struct plan_item PLAN[MAXPLAN];
static int NPLAN;
static int active, depth, logfd = -1, quiet;     /* quiet: markers only (strace search) */
static long gidx;
#define MAXFN 48
static struct { char fn[24]; long n; } OCC[MAXFN];
static int NOCC;

static void raw_write(const char *s, size_t n) { while (n) { long k = syscall(SYS_write, logfd, s, n); if (k <= 0) return; s += k; n -= (size_t)k; } }

static void hexinto(char *out, size_t cap, const unsigned char *p, size_t n) {
    static const char hx[] = "0123456789abcdef";
    size_t j = 0;
    if (!p) { snprintf(out, cap, "~"); return; }
    if (!n) { snprintf(out, cap, "-"); return; }
    for (size_t i = 0; i < n && j + 3 < cap; i++) { out[j++] = hx[p[i] >> 4]; out[j++] = hx[p[i] & 15]; }
    out[j] = 0;
}

static long occ_of(const char *fn) {
    for (int i = 0; i < NOCC; i++) if (!strcmp(OCC[i].fn, fn)) return OCC[i].n++;
    if (NOCC < MAXFN) { strncpy(OCC[NOCC].fn, fn, sizeof OCC[NOCC].fn - 1); OCC[NOCC].n = 1; NOCC++; }
    return 0;
}

/* returns the errno to inject for this call (0: none); assigns the call its index */
static int decide(const char *fn, long *idx_out) {
    long idx = gidx++, occ = occ_of(fn);
    *idx_out = idx;
    for (int i = 0; i < NPLAN; i++) {
        struct plan_item *p = &PLAN[i];
        if (p->used) continue;
        if (!p->by_index && p->occ == -1 && !strcmp(p->fn, fn)) return p->err;          /* "fn#*:errno": every occurrence */
        if ((p->by_index && p->index == idx) || (!p->by_index && p->occ == occ && !strcmp(p->fn, fn))) { p->used = 1; return p->err; }
    }
    return 0;
}

static void logcall(long idx, const char *fn, const char *a1, const char *a2, long ret, int err, const unsigned char *data, size_t dn, int injected) {
    static char line[70000], hx[65600];
    if (quiet) return;
    hexinto(hx, sizeof hx, data, data ? (dn > 32000 ? 32000 : dn) : 0);
    if (!data) strcpy(hx, "-");
    int n = snprintf(line, sizeof line, "io\t%ld\t%s\t%s\t%s\t%ld\t%d\t%s\t%d\n", idx, fn, a1 && *a1 ? a1 : "-", a2 && *a2 ? a2 : "-", ret, err, hx, injected);
    if (n > 0) raw_write(line, (size_t)n);
}

static void hexarg(char *out, size_t cap, const char *s) { hexinto(out, cap, (const unsigned char *)s, s ? strlen(s) : 0); }

/* ------------------------------------------------------------------ harness API */
void verif_fault_begin(const char *plan, int fd) {
    NPLAN = 0; NOCC = 0; gidx = 0; logfd = fd;
    { const char *qv = getenv("VERIF_FAULT_QUIET"); quiet = qv && *qv == '1'; }
    char buf[4096]; strncpy(buf, plan ? plan : "", sizeof buf - 1); buf[sizeof buf - 1] = 0;
    for (char *sp = NULL, *t = strtok_r(buf, ",", &sp); t && NPLAN < MAXPLAN; t = strtok_r(NULL, ",", &sp)) {
        struct plan_item *p = &PLAN[NPLAN]; memset(p, 0, sizeof *p);
        char *colon = strrchr(t, ':'); if (!colon) continue;
        *colon = 0; p->err = atoi(colon + 1);
        char *hash = strchr(t, '#');
        if (hash) { *hash = 0; strncpy(p->fn, t, sizeof p->fn - 1); p->occ = hash[1] == '*' ? -1 : atol(hash + 1); p->by_index = 0; }
        else { p->index = atol(t); p->by_index = 1; }
        NPLAN++;
    }
    raw_write("mark\tbegin\n", 11);
    depth = 0; active = 1;
}
void verif_fault_mark(const char *what) {
    if (!active) return;
    active = 0;
    char b[64]; int n = snprintf(b, sizeof b, "mark\t%s\n", what); raw_write(b, (size_t)n);
}
void verif_fault_end(void) { if (active) { active = 0; raw_write("mark\tend-without-exec\n", 22); } }

/* the wrappers' dlsym(RTLD_NEXT, "execve") resolves here (libfault follows libsnoopy): the trace ends where the real exec begins */
extern char **environ;
int execve(const char *path, char *const argv[], char *const envp[]) {
    static int (*next)(const char *, char *const [], char *const []);
    if (!next) next = (int (*)(const char *, char *const [], char *const [])) dlsym(RTLD_NEXT, "execve");
    verif_fault_mark("exec");
    return next(path, argv, envp);
}
int execv(const char *path, char *const argv[]) {
    static int (*next)(const char *, char *const []);
    if (!next) next = (int (*)(const char *, char *const [])) dlsym(RTLD_NEXT, "execv");
    verif_fault_mark("exec");
    return next(path, argv);
}

#define REAL(ret, name, ...) static ret (*real_##name)(__VA_ARGS__); if (!real_##name) real_##name = (ret (*)(__VA_ARGS__)) dlsym(RTLD_NEXT, #name)
#define TRACED (active && depth == 0)

/* ------------------------------------------------------------------ stdio on files */
FILE *fopen(const char *path, const char *mode) {
    REAL(FILE *, fopen, const char *, const char *);
    if (!TRACED) return real_fopen(path, mode);
    long idx; int inj = decide("fopen", &idx); char a1[1100], a2[40]; hexarg(a1, sizeof a1, path); hexarg(a2, sizeof a2, mode);
    if (inj) { logcall(idx, "fopen", a1, a2, 0, inj, NULL, 0, 1); errno = inj; return NULL; }
    depth++; FILE *f = real_fopen(path, mode); int e = errno; depth--;
    logcall(idx, "fopen", a1, a2, f ? 1 : 0, f ? 0 : e, NULL, 0, 0); errno = e; return f;
}
size_t fread(void *ptr, size_t size, size_t n, FILE *fp) {
    REAL(size_t, fread, void *, size_t, size_t, FILE *);
    if (!TRACED) return real_fread(ptr, size, n, fp);
    long idx; int inj = decide("fread", &idx); char a1[32]; snprintf(a1, sizeof a1, "%zu", size * n);
    if (inj) { fp->_flags |= _IO_ERR_SEEN; logcall(idx, "fread", a1, "", 0, inj, NULL, 0, 1); errno = inj; return 0; }
    depth++; size_t r = real_fread(ptr, size, n, fp); int e = errno; depth--;
    char a2[16]; snprintf(a2, sizeof a2, "%s%s", feof(fp) ? "eof" : "", ferror(fp) ? "err" : "");
    logcall(idx, "fread", a1, a2, (long) r, ferror(fp) ? e : 0, ptr, r * size, 0); errno = e; return r;
}
char *fgets(char *buf, int n, FILE *fp) {
    REAL(char *, fgets, char *, int, FILE *);
    if (!TRACED) return real_fgets(buf, n, fp);
    long idx; int inj = decide("fgets", &idx); char a1[32]; snprintf(a1, sizeof a1, "%d", n);
    if (inj) { fp->_flags |= _IO_ERR_SEEN; logcall(idx, "fgets", a1, "", 0, inj, NULL, 0, 1); errno = inj; return NULL; }
    depth++; char *r = real_fgets(buf, n, fp); int e = errno; depth--;
    logcall(idx, "fgets", a1, "", r ? 1 : 0, 0, (unsigned char *)(r ? r : ""), r ? strlen(r) : 0, 0); errno = e; return r;
}
ssize_t __getdelim(char **lineptr, size_t *n, int delim, FILE *fp) {
    REAL(ssize_t, __getdelim, char **, size_t *, int, FILE *);
    if (!TRACED) return real___getdelim(lineptr, n, delim, fp);
    long idx; int inj = decide("getline", &idx);
    if (inj) { fp->_flags |= _IO_ERR_SEEN; logcall(idx, "getline", "", "", -1, inj, NULL, 0, 1); errno = inj; return -1; }
    depth++; ssize_t r = real___getdelim(lineptr, n, delim, fp); int e = errno; depth--;
    logcall(idx, "getline", "", "", r < 0 ? -1 : 1, 0, (unsigned char *)(r >= 0 ? *lineptr : ""), r >= 0 ? (size_t) r : 0, 0); errno = e; return r;
}
ssize_t getline(char **lineptr, size_t *n, FILE *fp) { return __getdelim(lineptr, n, '\n', fp); }
ssize_t getdelim(char **lineptr, size_t *n, int d, FILE *fp) { return __getdelim(lineptr, n, d, fp); }
int fclose(FILE *fp) {
    REAL(int, fclose, FILE *);
    if (!TRACED) return real_fclose(fp);
    long idx; int inj = decide("fclose", &idx);
    depth++; int r = real_fclose(fp); int e = errno; depth--;
    if (inj) { logcall(idx, "fclose", "", "", -1, inj, NULL, 0, 1); errno = inj; return EOF; }
    logcall(idx, "fclose", "", "", r, r ? e : 0, NULL, 0, 0); errno = e; return r;
}

/* ------------------------------------------------------------------ descriptors */
static const char *fdkind(int fd) {
    struct stat st; static char b[24];
    if (fstat(fd, &st)) return "bad";
    return S_ISSOCK(st.st_mode) ? "sock" : S_ISFIFO(st.st_mode) ? "fifo" : S_ISCHR(st.st_mode) ? "chr" : S_ISREG(st.st_mode) ? "reg" : "other";
}
int open(const char *path, int flags, ...) {
    REAL(int, open, const char *, int, ...);
    mode_t mode = 0; if (flags & (O_CREAT | O_TMPFILE)) { va_list ap; va_start(ap, flags); mode = va_arg(ap, mode_t); va_end(ap); }
    if (!TRACED) return real_open(path, flags, mode);
    long idx; int inj = decide("open", &idx); char a1[8300], a2[32]; hexarg(a1, sizeof a1, path); snprintf(a2, sizeof a2, "%d", flags & ~O_LARGEFILE);
    if (inj) { logcall(idx, "open", a1, a2, -1, inj, NULL, 0, 1); errno = inj; return -1; }
    depth++; int r = real_open(path, flags, mode); int e = errno; depth--;
    logcall(idx, "open", a1, a2, r < 0 ? -1 : 0, r < 0 ? e : 0, NULL, 0, 0); errno = e; return r;
}
int open64(const char *path, int flags, ...) {
    mode_t mode = 0; if (flags & (O_CREAT | O_TMPFILE)) { va_list ap; va_start(ap, flags); mode = va_arg(ap, mode_t); va_end(ap); }
    return open(path, flags, mode);
}
#define SHORT_COUNT 9999      /* plan "k:9999": not an error but a SHORT count (half of the bytes are really transferred) */
ssize_t write(int fd, const void *buf, size_t n) {
    if (!TRACED) return syscall(SYS_write, fd, buf, n);
    long idx; int inj = decide("write", &idx); char a1[24], a2[32]; snprintf(a1, sizeof a1, "%s", fdkind(fd)); snprintf(a2, sizeof a2, "%zu", n);
    if (inj == SHORT_COUNT) { depth++; ssize_t r = syscall(SYS_write, fd, buf, n / 2); int e = errno; depth--; logcall(idx, "write", a1, a2, r < 0 ? -1 : (long) r, r < 0 ? e : 0, NULL, 0, 1); errno = e; return r; }
    if (inj) { logcall(idx, "write", a1, a2, -1, inj, NULL, 0, 1); errno = inj; return -1; }
    depth++; ssize_t r = syscall(SYS_write, fd, buf, n); int e = errno; depth--;
    logcall(idx, "write", a1, a2, r < 0 ? -1 : (long) r, r < 0 ? e : 0, NULL, 0, 0); errno = e; return r;
}
int close(int fd) {
    if (!TRACED) return (int) syscall(SYS_close, fd);
    long idx; int inj = decide("close", &idx); char a1[24]; snprintf(a1, sizeof a1, "%s", fdkind(fd));
    depth++; int r = (int) syscall(SYS_close, fd); int e = errno; depth--;
    if (inj) { logcall(idx, "close", a1, "", -1, inj, NULL, 0, 1); errno = inj; return -1; }
    logcall(idx, "close", a1, "", r, r ? e : 0, NULL, 0, 0); errno = e; return r;
}
int socket(int dom, int type, int proto) {
    REAL(int, socket, int, int, int);
    if (!TRACED) return real_socket(dom, type, proto);
    long idx; int inj = decide("socket", &idx); char a1[24], a2[32]; snprintf(a1, sizeof a1, "%d", dom); snprintf(a2, sizeof a2, "%d", type);
    if (inj) { logcall(idx, "socket", a1, a2, -1, inj, NULL, 0, 1); errno = inj; return -1; }
    depth++; int r = real_socket(dom, type, proto); int e = errno; depth--;
    logcall(idx, "socket", a1, a2, r < 0 ? -1 : 0, r < 0 ? e : 0, NULL, 0, 0); errno = e; return r;
}
int connect(int fd, const struct sockaddr *addr, socklen_t len) {
    REAL(int, connect, int, const struct sockaddr *, socklen_t);
    if (!TRACED) return real_connect(fd, addr, len);
    long idx; int inj = decide("connect", &idx); char a1[300] = "-";
    if (addr && addr->sa_family == AF_UNIX) { const struct sockaddr_un *un = (const struct sockaddr_un *) addr; size_t pl = len > sizeof(sa_family_t) ? len - sizeof(sa_family_t) : 0; hexinto(a1, sizeof a1, (const unsigned char *) un->sun_path, strnlen(un->sun_path, pl)); }
    if (inj) { logcall(idx, "connect", a1, "", -1, inj, NULL, 0, 1); errno = inj; return -1; }
    depth++; int r = real_connect(fd, addr, len); int e = errno; depth--;     /* the next definition (librecorder) redirects /dev/log */
    logcall(idx, "connect", a1, "", r, r ? e : 0, NULL, 0, 0); errno = e; return r;
}
ssize_t send(int fd, const void *buf, size_t n, int flags) {
    REAL(ssize_t, send, int, const void *, size_t, int);
    if (!TRACED) return real_send(fd, buf, n, flags);
    long idx; int inj = decide("send", &idx); char a1[24], a2[32]; snprintf(a1, sizeof a1, "%d", flags); snprintf(a2, sizeof a2, "%zu", n);
    if (inj == SHORT_COUNT) { depth++; ssize_t r = real_send(fd, buf, n / 2, flags); int e = errno; depth--; logcall(idx, "send", a1, a2, r < 0 ? -1 : (long) r, r < 0 ? e : 0, NULL, 0, 1); errno = e; return r; }
    if (inj) { logcall(idx, "send", a1, a2, -1, inj, NULL, 0, 1); errno = inj; return -1; }
    depth++; ssize_t r = real_send(fd, buf, n, flags); int e = errno; depth--;
    logcall(idx, "send", a1, a2, r < 0 ? -1 : (long) r, r < 0 ? e : 0, NULL, 0, 0); errno = e; return r;
}
int dprintf(int fd, const char *fmt, ...) {
    va_list ap; va_start(ap, fmt);
    if (!TRACED) { int r = vdprintf(fd, fmt, ap); va_end(ap); return r; }
    long idx; int inj = decide("dprintf", &idx); char a1[24]; snprintf(a1, sizeof a1, "%d", fd);
    if (inj) { va_end(ap); logcall(idx, "dprintf", a1, "", -1, inj, NULL, 0, 1); errno = inj; return -1; }
    depth++; int r = vdprintf(fd, fmt, ap); int e = errno; depth--; va_end(ap);
    logcall(idx, "dprintf", a1, "", r < 0 ? -1 : r, r < 0 ? e : 0, NULL, 0, 0); errno = e; return r;
}
int fprintf(FILE *fp, const char *fmt, ...) {
    va_list ap; va_start(ap, fmt);
    if (!TRACED) { int r = vfprintf(fp, fmt, ap); va_end(ap); return r; }
    long idx; int inj = decide("fprintf", &idx); const char *a1 = fp == stderr ? "stderr" : fp == stdout ? "stdout" : "file";
    if (inj) { va_end(ap); logcall(idx, "fprintf", a1, "", -1, inj, NULL, 0, 1); errno = inj; return -1; }
    depth++; int r = vfprintf(fp, fmt, ap); int e = errno; depth--; va_end(ap);
    logcall(idx, "fprintf", a1, "", r < 0 ? -1 : r, r < 0 ? e : 0, NULL, 0, 0); errno = e; return r;
}

/* ------------------------------------------------------------------ path / identity / time queries */
int stat(const char *path, struct stat *st) {
    REAL(int, stat, const char *, struct stat *);
    if (!TRACED) return real_stat(path, st);
    long idx; int inj = decide("stat", &idx); char a1[1100]; hexarg(a1, sizeof a1, path);
    if (inj) { logcall(idx, "stat", a1, "", -1, inj, NULL, 0, 1); errno = inj; return -1; }
    depth++; int r = real_stat(path, st); int e = errno; depth--;
    logcall(idx, "stat", a1, "", r, r ? e : 0, NULL, 0, 0); errno = e; return r;
}
int access(const char *path, int mode) {
    REAL(int, access, const char *, int);
    if (!TRACED) return real_access(path, mode);
    long idx; int inj = decide("access", &idx); char a1[1100]; hexarg(a1, sizeof a1, path);
    if (inj) { logcall(idx, "access", a1, "", -1, inj, NULL, 0, 1); errno = inj; return -1; }
    depth++; int r = real_access(path, mode); int e = errno; depth--;
    logcall(idx, "access", a1, "", r, r ? e : 0, NULL, 0, 0); errno = e; return r;
}
ssize_t readlink(const char *path, char *buf, size_t n) {
    REAL(ssize_t, readlink, const char *, char *, size_t);
    if (!TRACED) return real_readlink(path, buf, n);
    long idx; int inj = decide("readlink", &idx); char a1[1100]; hexarg(a1, sizeof a1, path);
    if (inj) { logcall(idx, "readlink", a1, "", -1, inj, NULL, 0, 1); errno = inj; return -1; }
    depth++; ssize_t r = real_readlink(path, buf, n); int e = errno; depth--;
    logcall(idx, "readlink", a1, "", r < 0 ? -1 : (long) r, r < 0 ? e : 0, NULL, 0, 0); errno = e; return r;
}
char *getcwd(char *buf, size_t n) {
    REAL(char *, getcwd, char *, size_t);
    if (!TRACED) return real_getcwd(buf, n);
    long idx; int inj = decide("getcwd", &idx);
    if (inj) { logcall(idx, "getcwd", "", "", 0, inj, NULL, 0, 1); errno = inj; return NULL; }
    depth++; char *r = real_getcwd(buf, n); int e = errno; depth--;
    logcall(idx, "getcwd", "", "", r ? 1 : 0, r ? 0 : e, (unsigned char *)(r ? r : ""), r ? strlen(r) : 0, 0); errno = e; return r;
}
int ttyname_r(int fd, char *buf, size_t n) {
    REAL(int, ttyname_r, int, char *, size_t);
    if (!TRACED) return real_ttyname_r(fd, buf, n);
    long idx; int inj = decide("ttyname_r", &idx); char a1[24]; snprintf(a1, sizeof a1, "%d", fd);
    if (inj) { logcall(idx, "ttyname_r", a1, "", inj, inj, NULL, 0, 1); errno = inj; return inj; }
    depth++; int r = real_ttyname_r(fd, buf, n); int e = errno; depth--;
    logcall(idx, "ttyname_r", a1, "", r, r, (unsigned char *)(r ? "" : buf), r ? 0 : strlen(buf), 0); errno = e; return r;
}
int gethostname(char *buf, size_t n) {
    REAL(int, gethostname, char *, size_t);
    if (!TRACED) return real_gethostname(buf, n);
    long idx; int inj = decide("gethostname", &idx);
    if (inj) { logcall(idx, "gethostname", "", "", -1, inj, NULL, 0, 1); errno = inj; return -1; }
    depth++; int r = real_gethostname(buf, n); int e = errno; depth--;
    logcall(idx, "gethostname", "", "", r, r ? e : 0, (unsigned char *)(r ? "" : buf), r ? 0 : strnlen(buf, n), 0); errno = e; return r;
}
int getpwuid_r(uid_t uid, struct passwd *pw, char *buf, size_t n, struct passwd **res) {
    REAL(int, getpwuid_r, uid_t, struct passwd *, char *, size_t, struct passwd **);
    if (!TRACED) return real_getpwuid_r(uid, pw, buf, n, res);
    long idx; int inj = decide("getpwuid_r", &idx);
    if (inj) { *res = NULL; logcall(idx, "getpwuid_r", "", "", inj, inj, NULL, 0, 1); errno = inj; return inj; }
    depth++; int r = real_getpwuid_r(uid, pw, buf, n, res); int e = errno; depth--;
    logcall(idx, "getpwuid_r", (r == 0 && *res) ? "found" : "none", "", r, r, NULL, 0, 0); errno = e; return r;
}
int getgrgid_r(gid_t gid, struct group *gr, char *buf, size_t n, struct group **res) {
    REAL(int, getgrgid_r, gid_t, struct group *, char *, size_t, struct group **);
    if (!TRACED) return real_getgrgid_r(gid, gr, buf, n, res);
    long idx; int inj = decide("getgrgid_r", &idx);
    if (inj) { *res = NULL; logcall(idx, "getgrgid_r", "", "", inj, inj, NULL, 0, 1); errno = inj; return inj; }
    depth++; int r = real_getgrgid_r(gid, gr, buf, n, res); int e = errno; depth--;
    logcall(idx, "getgrgid_r", (r == 0 && *res) ? "found" : "none", "", r, r, NULL, 0, 0); errno = e; return r;
}
int getlogin_r(char *buf, size_t n) {
    REAL(int, getlogin_r, char *, size_t);
    if (!TRACED) return real_getlogin_r(buf, n);
    long idx; int inj = decide("getlogin_r", &idx);
    if (inj) { logcall(idx, "getlogin_r", "", "", inj, inj, NULL, 0, 1); errno = inj; return inj; }
    depth++; int r = real_getlogin_r(buf, n); int e = errno; depth--;
    logcall(idx, "getlogin_r", "", "", r, r, NULL, 0, 0); errno = e; return r;
}
time_t time(time_t *t) {
    REAL(time_t, time, time_t *);
    if (!TRACED) return real_time(t);
    long idx; int inj = decide("time", &idx);
    if (inj) { logcall(idx, "time", "", "", -1, inj, NULL, 0, 1); errno = inj; if (t) *t = (time_t) -1; return (time_t) -1; }
    depth++; time_t r = real_time(t); depth--;
    logcall(idx, "time", "", "", 0, 0, NULL, 0, 0); return r;
}
struct tm *localtime_r(const time_t *t, struct tm *res) {
    REAL(struct tm *, localtime_r, const time_t *, struct tm *);
    if (!TRACED) return real_localtime_r(t, res);
    long idx; int inj = decide("localtime_r", &idx);
    if (inj) { logcall(idx, "localtime_r", "", "", 0, inj, NULL, 0, 1); errno = inj; return NULL; }
    depth++; struct tm *r = real_localtime_r(t, res); int e = errno; depth--;
    logcall(idx, "localtime_r", "", "", r ? 1 : 0, r ? 0 : e, NULL, 0, 0); errno = e; return r;
}
int gettimeofday(struct timeval *tv, void *tz) {
    REAL(int, gettimeofday, struct timeval *, void *);
    if (!TRACED) return real_gettimeofday(tv, tz);
    long idx; int inj = decide("gettimeofday", &idx);
    if (inj) { logcall(idx, "gettimeofday", "", "", -1, inj, NULL, 0, 1); errno = inj; return -1; }
    depth++; int r = real_gettimeofday(tv, tz); int e = errno; depth--;
    logcall(idx, "gettimeofday", "", "", r, r ? e : 0, NULL, 0, 0); errno = e; return r;
}
void setutent(void) {
    REAL(void, setutent, void);
    if (!TRACED) { real_setutent(); return; }
    long idx; (void) decide("setutent", &idx); depth++; real_setutent(); depth--; logcall(idx, "setutent", "", "", 0, 0, NULL, 0, 0);
}
void endutent(void) {
    REAL(void, endutent, void);
    if (!TRACED) { real_endutent(); return; }
    long idx; (void) decide("endutent", &idx); depth++; real_endutent(); depth--; logcall(idx, "endutent", "", "", 0, 0, NULL, 0, 0);
}
int getutline_r(const struct utmp *ut, struct utmp *buf, struct utmp **res) {
    REAL(int, getutline_r, const struct utmp *, struct utmp *, struct utmp **);
    if (!TRACED) return real_getutline_r(ut, buf, res);
    long idx; int inj = decide("getutline_r", &idx);
    if (inj) { *res = NULL; logcall(idx, "getutline_r", "", "", -1, inj, NULL, 0, 1); errno = inj; return -1; }
    depth++; int r = real_getutline_r(ut, buf, res); int e = errno; depth--;
    logcall(idx, "getutline_r", r == 0 && buf && (buf->ut_addr_v6[0] | buf->ut_addr_v6[1] | buf->ut_addr_v6[2] | buf->ut_addr_v6[3]) ? "addr" : "noaddr", "", r, r ? e : 0, NULL, 0, 0); errno = e; return r;
}
pid_t getpid(void) {
    if (!TRACED) return (pid_t) syscall(SYS_getpid);
    long idx; (void) decide("getpid", &idx); pid_t r = (pid_t) syscall(SYS_getpid); logcall(idx, "getpid", "", "", (long) r, 0, NULL, 0, 0); return r;
}
pid_t getppid(void) {
    if (!TRACED) return (pid_t) syscall(SYS_getppid);
    long idx; (void) decide("getppid", &idx); pid_t r = (pid_t) syscall(SYS_getppid); logcall(idx, "getppid", "", "", (long) r, 0, NULL, 0, 0); return r;
}
void openlog(const char *ident, int opt, int fac) {
    REAL(void, openlog, const char *, int, int);
    if (!TRACED) { real_openlog(ident, opt, fac); return; }
    long idx; (void) decide("openlog", &idx); depth++; real_openlog(ident, opt, fac); depth--; logcall(idx, "openlog", "", "", 0, 0, NULL, 0, 0);
}
void closelog(void) {
    REAL(void, closelog, void);
    if (!TRACED) { real_closelog(); return; }
    long idx; (void) decide("closelog", &idx); depth++; real_closelog(); depth--; logcall(idx, "closelog", "", "", 0, 0, NULL, 0, 0);
}
void syslog(int pri, const char *fmt, ...) {
    va_list ap; va_start(ap, fmt);
    if (!TRACED) { vsyslog(pri, fmt, ap); va_end(ap); return; }
    long idx; (void) decide("syslog", &idx); depth++; vsyslog(pri, fmt, ap); depth--; va_end(ap); logcall(idx, "syslog", "", "", 0, 0, NULL, 0, 0);
}
