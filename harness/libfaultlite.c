/* libfaultlite.so — single injected I/O faults for the life-cycle / residue checks (C11 "file unreadable", C16 error paths).
 * (The full libc-boundary tracer with scripted fault plans is libfault.so of the C03 check; this one only fails the k-th call.)
 *
 *   LD_PRELOAD="... <libsnoopy.so> libfaultlite.so librecorder.so"      (before librecorder: its connect() is the next in the chain)
 *   VERIF_FAULT="fn:k:errno:calls[;fn:k:errno:calls...]"   fail the k-th call (1-based) of libc function fn that is made FROM the library
 *                                                        under test during the wrapped call(s) whose index is listed in `calls`
 *                                                        ("all", "N-" = from N on, or "i,j,...");  the counter restarts with every wrapped call
 *   VERIF_FAULT_TRACE=1                                  log every counted call:   ftrace<TAB>callidx<TAB>fn<TAB>k<TAB>callsite
 *   VERIF_FAULT_OBJ=<substring>                          object name of the library under test (default "lib-prod")
 *   VERIF_PROD_INI="<compiled-in path>=<file>"           production mode: the library's fopen of its COMPILED-IN configuration path is served from <file>, and the
 *                                                        test hook snoopy_configuration_preinit_enableAltConfigFileParsing is shadowed by a no-op, so that the
 *                                                        production branch of the ctor runs (put this library BEFORE the library under test for that)
 *   VERIF_UTMP=<file>                                    utmpname(<file>) at start-up
 * Every socket the library connects is logged with its close-on-exec flag:   cloexec<TAB>callidx<TAB>connect<TAB><0|1>
 * Injected faults are logged:   fault<TAB>callidx<TAB>fn<TAB>k<TAB>errno
 * Only calls whose return address lies in the library under test are counted, so the harness's own I/O is never disturbed. */
#define _GNU_SOURCE
#include <dlfcn.h>
#include <errno.h>
#include <fcntl.h>
#include <grp.h>
#include <pwd.h>
#include <stdarg.h>
#include <stdio.h>
#include <stdlib.h>
#include <string.h>
#include <unistd.h>
#include <sys/socket.h>
#include <sys/stat.h>
#include <sys/types.h>
#include "verif_shared.h"

#define MAXSPEC 8
#define NFN 24
static const char *FN[NFN] = { "fopen", "open", "socket", "connect", "send", "write", "fread", "fgets", "getline", "read", "access", "getcwd",
                               "ttyname_r", "gethostname", "getpwuid_r", "getgrgid_r", "getlogin_r", "stat", "fclose", "close", "readlink", "sysconf", "strerror_r", "time" };
struct spec { int fn; int k; int err; int all; int from; int calls[32]; int ncalls; };
static struct spec specs[MAXSPEC]; static int nspecs = -1;
static int counters[NFN]; static int counter_call = -2;
static int trace;
static const char *objname = "lib-prod";

static struct verif_expect *EX(void) { static struct verif_expect *ex; if (!ex) ex = (struct verif_expect *) dlsym(RTLD_DEFAULT, "verif_expect"); return ex; }
static void wr(int fd, const char *s) { if (fd >= 0) (void)!write(fd, s, strlen(s)); }

static char prod_from[512], prod_to[1024];
static int prod_init_done;
static void prod_init(void) {
    if (prod_init_done) return;
    prod_init_done = 1;
    const char *e = getenv("VERIF_PROD_INI");
    if (!e) return;
    const char *eq = strchr(e, '=');
    if (!eq || (size_t)(eq - e) >= sizeof prod_from) return;
    memcpy(prod_from, e, (size_t)(eq - e)); prod_from[eq - e] = 0;
    strncpy(prod_to, eq + 1, sizeof prod_to - 1);
}
/* the test hook of the library: forwarded unless production mode is on */
void snoopy_configuration_preinit_enableAltConfigFileParsing(char *const path) {
    prod_init();
    if (prod_from[0]) return;
    void (*real)(char *const) = (void (*)(char *const)) dlsym(RTLD_NEXT, "snoopy_configuration_preinit_enableAltConfigFileParsing");
    if (real) real(path);
}

/* VERIF_UTMP=<file>: the process's utmp file (utmpname), so that terminal look-ups run against a file the harness controls */
#include <utmp.h>
__attribute__((constructor)) static void set_utmp(void) { const char *u = getenv("VERIF_UTMP"); if (u && *u) utmpname(u); }

static int fn_index(const char *n) { for (int i = 0; i < NFN; i++) if (!strcmp(FN[i], n)) return i; return -1; }

static void init(void) {
    if (nspecs >= 0) return;
    nspecs = 0;
    const char *o = getenv("VERIF_FAULT_OBJ"); if (o && *o) objname = o;
    const char *t = getenv("VERIF_FAULT_TRACE"); trace = t && *t == '1';
    const char *e = getenv("VERIF_FAULT");
    if (!e) return;
    static char buf[1024]; strncpy(buf, e, sizeof buf - 1);
    char *save = 0;
    for (char *tok = strtok_r(buf, ";", &save); tok && nspecs < MAXSPEC; tok = strtok_r(0, ";", &save)) {
        char fn[32] = "", calls[256] = "all"; int k = 0, err = 0;
        if (sscanf(tok, "%31[^:]:%d:%d:%255s", fn, &k, &err, calls) < 3) continue;
        struct spec *s = &specs[nspecs]; memset(s, 0, sizeof *s);
        s->fn = fn_index(fn); s->k = k; s->err = err;
        if (s->fn < 0) continue;
        if (!strcmp(calls, "all")) s->all = 1;
        else if (strchr(calls, '-')) { s->from = atoi(calls); s->all = 2; }
        else { char *sv = 0; for (char *c = strtok_r(calls, ",", &sv); c && s->ncalls < 32; c = strtok_r(0, ",", &sv)) s->calls[s->ncalls++] = atoi(c); }
        nspecs++;
    }
}

/* returns the errno to inject, or 0.  `ra` = return address of the interposed function */
static int decide(int fn, void *ra) {
    init();
    if (!nspecs && !trace) return 0;
    Dl_info di;
    if (!dladdr(ra, &di) || !di.dli_fname || !strstr(di.dli_fname, objname)) return 0;
    struct verif_expect *ex = EX();
    if (!ex) return 0;
    int idx = ex->call_index;
    if (idx != counter_call) { memset(counters, 0, sizeof counters); counter_call = idx; }
    int k = ++counters[fn];
    if (trace) {
        const char *bn = strrchr(di.dli_fname, '/'); bn = bn ? bn + 1 : di.dli_fname;
        char b[256]; snprintf(b, sizeof b, "ftrace\t%d\t%s\t%d\t%s+0x%lx\n", idx, FN[fn], k, bn, (unsigned long)((char *)ra - (char *)di.dli_fbase)); wr(ex->rec_fd, b);
    }
    for (int i = 0; i < nspecs; i++) {
        struct spec *s = &specs[i];
        if (s->fn != fn || s->k != k) continue;
        int hit = s->all == 1 || (s->all == 2 && idx >= s->from);
        for (int j = 0; j < s->ncalls && !hit; j++) hit = s->calls[j] == idx;
        if (hit) { char b[128]; snprintf(b, sizeof b, "fault\t%d\t%s\t%d\t%d\n", idx, FN[fn], k, s->err); wr(ex->rec_fd, b); return s->err ? s->err : EIO; }
    }
    return 0;
}

#define NEXT(fn) static __typeof__(fn) *real; if (!real) real = (__typeof__(fn) *) dlsym(RTLD_NEXT, #fn)
#define RA __builtin_return_address(0)

FILE *fopen(const char *p, const char *m) {
    NEXT(fopen); int e = decide(0, RA); if (e) { errno = e; return NULL; }
    prod_init();
    if (prod_from[0] && p && !strcmp(p, prod_from)) { Dl_info di; if (dladdr(RA, &di) && di.dli_fname && strstr(di.dli_fname, objname)) return real(prod_to, m); }
    return real(p, m);
}
int open(const char *p, int fl, ...) {
    NEXT(open);
    mode_t md = 0; if (fl & (O_CREAT | O_TMPFILE)) { va_list ap; va_start(ap, fl); md = (mode_t) va_arg(ap, int); va_end(ap); }
    int e = decide(1, RA); if (e) { errno = e; return -1; }
    return real(p, fl, md);
}
int socket(int d, int t, int pr) { NEXT(socket); int e = decide(2, RA); if (e) { errno = e; return -1; } return real(d, t, pr); }
int connect(int fd, const struct sockaddr *a, socklen_t l) {
    NEXT(connect);
    { Dl_info di; struct verif_expect *ex = EX();       /* a descriptor of the library that another thread's / a forked child's exec would inherit right now? */
      if (ex && dladdr(RA, &di) && di.dli_fname && (init(), strstr(di.dli_fname, objname))) {
          int fl = fcntl(fd, F_GETFD); char b[96]; snprintf(b, sizeof b, "cloexec\t%d\tconnect\t%d\n", ex->call_index, fl >= 0 && (fl & FD_CLOEXEC) ? 1 : 0); wr(ex->rec_fd, b); } }
    int e = decide(3, RA); if (e) { errno = e; return -1; } return real(fd, a, l);
}
ssize_t send(int fd, const void *b, size_t n, int fl) { NEXT(send); int e = decide(4, RA); if (e) { errno = e; return -1; } return real(fd, b, n, fl); }
ssize_t write(int fd, const void *b, size_t n) { NEXT(write); int e = decide(5, RA); if (e) { errno = e; return -1; } return real(fd, b, n); }
size_t fread(void *b, size_t s, size_t n, FILE *f) { NEXT(fread); int e = decide(6, RA); if (e) { errno = e; return 0; } return real(b, s, n, f); }
char *fgets(char *b, int n, FILE *f) { NEXT(fgets); int e = decide(7, RA); if (e) { errno = e; return NULL; } return real(b, n, f); }
ssize_t getline(char **l, size_t *n, FILE *f) { NEXT(getline); int e = decide(8, RA); if (e) { errno = e; return -1; } return real(l, n, f); }
ssize_t read(int fd, void *b, size_t n) { NEXT(read); int e = decide(9, RA); if (e) { errno = e; return -1; } return real(fd, b, n); }
int access(const char *p, int m) { NEXT(access); int e = decide(10, RA); if (e) { errno = e; return -1; } return real(p, m); }
char *getcwd(char *b, size_t n) { NEXT(getcwd); int e = decide(11, RA); if (e) { errno = e; return NULL; } return real(b, n); }
int ttyname_r(int fd, char *b, size_t n) { NEXT(ttyname_r); int e = decide(12, RA); if (e) { errno = e; return e; } return real(fd, b, n); }
int gethostname(char *b, size_t n) { NEXT(gethostname); int e = decide(13, RA); if (e) { errno = e; return -1; } return real(b, n); }
int getpwuid_r(uid_t u, struct passwd *p, char *b, size_t n, struct passwd **r) { NEXT(getpwuid_r); int e = decide(14, RA); if (e) { *r = NULL; return e; } return real(u, p, b, n, r); }
int getgrgid_r(gid_t g, struct group *p, char *b, size_t n, struct group **r) { NEXT(getgrgid_r); int e = decide(15, RA); if (e) { *r = NULL; return e; } return real(g, p, b, n, r); }
int getlogin_r(char *b, size_t n) { NEXT(getlogin_r); int e = decide(16, RA); if (e) { return e; } return real(b, n); }
int stat(const char *p, struct stat *st) { NEXT(stat); int e = decide(17, RA); if (e) { errno = e; return -1; } return real(p, st); }
