/* liblifegate.so — "real exec" and a gate inside the logging path for the overlapping-threads experiment of C16 (tool_lifemt).
 *   LD_PRELOAD="liballoc.so <libsnoopy.so> liblifegate.so" tool_lifemt ...
 * execv/execve (what the wrappers' dlsym(RTLD_NEXT) finds) fail with ENOENT.  open() of a path containing "gate.log" (the configured file
 * output) by a thread that has announced an id parks that thread until the driver releases it: at that moment the thread is INSIDE the
 * wrapped call, after snoopy_init (its thread-repository entry exists) and before snoopy_cleanup. */
#define _GNU_SOURCE
#include <dlfcn.h>
#include <errno.h>
#include <fcntl.h>
#include <pthread.h>
#include <stdarg.h>
#include <string.h>
#include <sys/types.h>

static pthread_mutex_t mu = PTHREAD_MUTEX_INITIALIZER;
static pthread_cond_t cv = PTHREAD_COND_INITIALIZER;
static int arrived; static unsigned released;
static __thread int my_id = -1;

void lifegate_set_id(int id) { my_id = id; }
void lifegate_reset(void) { pthread_mutex_lock(&mu); arrived = 0; released = 0; pthread_mutex_unlock(&mu); }
void lifegate_wait_arrived(int n) { pthread_mutex_lock(&mu); while (arrived < n) pthread_cond_wait(&cv, &mu); pthread_mutex_unlock(&mu); }
void lifegate_release(unsigned mask) { pthread_mutex_lock(&mu); released |= mask; pthread_cond_broadcast(&cv); pthread_mutex_unlock(&mu); }

int open(const char *p, int fl, ...) {
    static int (*real)(const char *, int, ...);
    if (!real) real = (int (*)(const char *, int, ...)) dlsym(RTLD_NEXT, "open");
    mode_t md = 0; if (fl & (O_CREAT | O_TMPFILE)) { va_list ap; va_start(ap, fl); md = (mode_t) va_arg(ap, int); va_end(ap); }
    if (my_id >= 0 && p && strstr(p, "gate.log")) {
        pthread_mutex_lock(&mu);
        arrived++; pthread_cond_broadcast(&cv);
        while (!(released & (1u << my_id))) pthread_cond_wait(&cv, &mu);
        pthread_mutex_unlock(&mu);
    }
    return real(p, fl, md);
}
/* a try-lock attempted by a worker while the other workers are inside their calls may find the lock taken: the first attempt of every
 * worker thread reports EBUSY (a legal outcome whenever other threads use the library); the unchanged library never try-locks */
static __thread int tried;
int pthread_mutex_trylock(pthread_mutex_t *m) {
    static int (*real)(pthread_mutex_t *);
    if (!real) real = (int (*)(pthread_mutex_t *)) dlsym(RTLD_NEXT, "pthread_mutex_trylock");
    if (my_id >= 0 && !tried) { tried = 1; return EBUSY; }
    return real(m);
}
int execve(const char *p, char *const a[], char *const e[]) { (void)p; (void)a; (void)e; errno = ENOENT; return -1; }
int execv(const char *p, char *const a[]) { (void)p; (void)a; errno = ENOENT; return -1; }
