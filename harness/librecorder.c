/* librecorder.so — placed AFTER libsnoopy.so in LD_PRELOAD: provides the execv/execve that the
 * wrappers' dlsym(RTLD_NEXT, ...) resolves to.  Records what arrives (pointer identity against what
 * the caller announced, deep content), drains every registered sink AT EXEC ENTRY (what the operating
 * system holds at that instant), then returns the scripted (ret, errno) or simulates a successful exec
 * by _exit(0) (unflushed stdio buffers of the caller are lost, as in a real image replacement).
 * Also redirects connect("/dev/log") to a harness-owned socket path. */
#define _GNU_SOURCE
#include <dlfcn.h>
#include <errno.h>
#include <fcntl.h>
#include <stdio.h>
#include <stdlib.h>
#include <string.h>
#include <unistd.h>
#include <sys/socket.h>
#include <sys/un.h>
#include <sys/stat.h>
#include "verif_shared.h"

extern char **environ;
static struct verif_expect *EX(void) { return (struct verif_expect *) dlsym(RTLD_DEFAULT, "verif_expect"); }

static void wr(int fd, const char *s) { size_t n = strlen(s); while (n) { ssize_t k = write(fd, s, n); if (k <= 0) return; s += k; n -= (size_t)k; } }
static void wr_hex(int fd, const unsigned char *p, size_t n) {
    static const char hx[] = "0123456789abcdef";
    if (!p) { wr(fd, "~"); return; }
    if (!n) { wr(fd, "-"); return; }
    char buf[4096]; size_t j = 0;
    for (size_t i = 0; i < n; i++) { buf[j++] = hx[p[i] >> 4]; buf[j++] = hx[p[i] & 15]; if (j >= sizeof buf - 2) { (void)!write(fd, buf, j); j = 0; } }
    if (j) (void)!write(fd, buf, j);
}
static void wr_list(int fd, char *const *v) {
    if (!v) { wr(fd, "~"); return; }
    if (!v[0]) { wr(fd, "[]"); return; }
    for (size_t i = 0; v[i]; i++) { if (i) wr(fd, ","); wr_hex(fd, (const unsigned char *)v[i], strlen(v[i])); }
}
static void wr_int(int fd, long v) { char b[32]; snprintf(b, sizeof b, "%ld", v); wr(fd, b); }

/* drain one sink: everything the OS holds for it right now */
void verif_drain_sink(int rec, struct verif_sink *s, const char *phase, int idx) {
    unsigned char *buf = malloc(1 << 21);
    if (s->kind == SINK_FILE) {
        int fd = open(s->path, O_RDONLY | O_CLOEXEC);
        wr(rec, "sink\t"); wr(rec, phase); wr(rec, "\t"); wr_int(rec, idx); wr(rec, "\t"); wr(rec, s->name); wr(rec, "\t");
        if (fd < 0) { wr(rec, "~\n"); free(buf); return; }
        struct stat st; fstat(fd, &st);
        if (st.st_size < s->offset) { wr(rec, "TRUNCATED\n"); s->offset = st.st_size; close(fd); free(buf); return; }
        lseek(fd, s->offset, SEEK_SET);
        size_t tot = 0; ssize_t k;
        while ((k = read(fd, buf + tot, (1 << 21) - tot)) > 0) tot += (size_t)k;
        close(fd);
        s->offset += (long)tot;
        wr_hex(rec, buf, tot); wr(rec, "\n");
    } else if (s->kind == SINK_DGRAM) {
        for (;;) {
            ssize_t k = recv(s->fd, buf, 1 << 21, MSG_DONTWAIT);
            if (k < 0) break;
            wr(rec, "sink\t"); wr(rec, phase); wr(rec, "\t"); wr_int(rec, idx); wr(rec, "\t"); wr(rec, s->name); wr(rec, "\t");
            wr_hex(rec, buf, (size_t)k); wr(rec, "\n");
        }
    } else { /* pipe, tty master: byte stream */
        size_t tot = 0;
        int fl = fcntl(s->fd, F_GETFL); fcntl(s->fd, F_SETFL, fl | O_NONBLOCK);
        for (;;) { ssize_t k = read(s->fd, buf + tot, (1 << 21) - tot); if (k <= 0) break; tot += (size_t)k; }
        fcntl(s->fd, F_SETFL, fl);
        if (tot) {
            wr(rec, "sink\t"); wr(rec, phase); wr(rec, "\t"); wr_int(rec, idx); wr(rec, "\t"); wr(rec, s->name); wr(rec, "\t");
            wr_hex(rec, buf, tot); wr(rec, "\n");
        }
    }
    free(buf);
}

static int real_exec(const char *api, const char *path, char *const argv[], char *const envp[]) {
    struct verif_expect *ex = EX();
    if (!ex) { errno = ENOSYS; return -1; }
    int rec = ex->rec_fd;
    ex->real_calls++;
    wr(rec, "real\t"); wr_int(rec, ex->call_index); wr(rec, "\t"); wr(rec, api); wr(rec, "\t");
    int ptr_ok = (path == ex->path) && (argv == ex->argv) && (ex->is_execv ? 1 : (envp == ex->envp));
    wr_int(rec, ptr_ok); wr(rec, "\t");
    wr_hex(rec, (const unsigned char *)path, path ? strlen(path) : 0); wr(rec, "\t");
    wr_list(rec, argv); wr(rec, "\t");
    wr_list(rec, envp); wr(rec, "\t"); wr_int(rec, (long) getpid()); wr(rec, "\n");
    for (int i = 0; i < ex->nsinks; i++) verif_drain_sink(rec, &ex->sinks[i], "at-exec", ex->call_index);
    /* let the caller sample its own process state at this instant */
    void (*sample)(const char *) = (void (*)(const char *)) dlsym(RTLD_DEFAULT, "verif_sample_state");
    if (sample) sample("at-exec");
    if (ex->mode == 1) _exit(0);
    errno = ex->err;
    return ex->ret;
}

int execve(const char *path, char *const argv[], char *const envp[]) { return real_exec("execve", path, argv, envp); }
int execv(const char *path, char *const argv[]) { return real_exec("execv", path, argv, environ); }

int connect(int fd, const struct sockaddr *addr, socklen_t len) {
    static int (*real_connect)(int, const struct sockaddr *, socklen_t);
    if (!real_connect) real_connect = (int (*)(int, const struct sockaddr *, socklen_t)) dlsym(RTLD_NEXT, "connect");
    struct verif_expect *ex = EX();
    if (ex && ex->devlog_redirect[0] && addr && addr->sa_family == AF_UNIX) {
        const struct sockaddr_un *un = (const struct sockaddr_un *) addr;
        if (!strcmp(un->sun_path, "/dev/log")) {
            struct sockaddr_un r; memset(&r, 0, sizeof r); r.sun_family = AF_UNIX;
            strncpy(r.sun_path, ex->devlog_redirect, sizeof r.sun_path - 1);
            return real_connect(fd, (struct sockaddr *)&r, sizeof r);
        }
    }
    return real_connect(fd, addr, len);
}
