/* libsched.so — schedule forcing for C09 / C10 (system-level harness, no source change in the library under test).
 *
 * Placed AFTER libsnoopy.so in LD_PRELOAD ("libsnoopy.so libsched.so"):
 *   - interposes pthread_mutex_lock / pthread_mutex_unlock / pthread_once; operations on the library's repository mutex
 *     (symbol snoopy_tsrm_threadRepo_mutex) and its once control are SYNC POINTS of registered logical threads;
 *   - provides the execv/execve that the wrappers' dlsym(RTLD_NEXT) resolves to: records path/argv as they arrive, per
 *     logical thread, and fails with ENOENT (the exec calls of the scripted callers always fail);
 *   - exports the sched_* API used by harness/tool_mtcaller.c (found with dlsym(RTLD_DEFAULT)).
 *
 * Modes
 *   TRACE   sync points are only logged (with the library function they come from): calibration of the model's per-call program.
 *   FORCE   baton scheduling: at most one logical thread runs between sync points; the scripted schedule (a list of logical
 *           thread ids, one per sync point passed) says who goes next.  A thread arriving at a sync point first reports its
 *           previous step complete (pos++), then waits for its turn.  Waiting is a spin on plain atomics + nanosleep, which a
 *           ThreadSanitizer build of the library does not see as synchronisation (no happens-before edge is added by the harness).
 *   PARK    (C10) logical thread 1 stops right after its k-th acquisition of ANY lock (every pthread mutex, rwlock, flock) until the
 *           fork can no longer be affected by its leaving the window: the forking thread waits for a lock held by the parked
 *           thread (a locking prepare handler), or fork() has returned in the parent; plus a grace period.
 *   In TRACE mode every such acquisition is logged (acq lines): the windows are enumerated from what is OBSERVED.
 *
 * Everything is appended to the trace fd in whole lines with one write() each; no pids, addresses or times are logged
 * except where a line says so (tid map), which the check canonicalises. */
#define _GNU_SOURCE
#include <dlfcn.h>
#include <errno.h>
#include <fcntl.h>
#include <pthread.h>
#include <sched.h>
#include <stdarg.h>
#include <stdint.h>
#include <stdio.h>
#include <stdlib.h>
#include <string.h>
#include <time.h>
#include <unistd.h>
#include <sys/syscall.h>
#include <sys/file.h>
#include <signal.h>

enum { MODE_OFF = 0, MODE_TRACE = 1, MODE_FORCE = 2, MODE_PARK = 3, MODE_REENTER = 4 };
#define MAXSCHED 65536

static int g_mode = MODE_OFF;
static int g_trace_fd = -1;
static int g_sched[MAXSCHED];
static int g_len = 0;
static volatile int g_pos = 0;          /* next schedule entry to be granted */
static volatile int g_free_run = 0;     /* schedule exhausted or abandoned: everybody runs */
static volatile int g_mismatch = 0;
static volatile int g_seq = 0;
static void *g_mutex = NULL, *g_once = NULL;
/* PARK mode */
static int g_park_k = 0;
static volatile int g_parked = 0, g_released = 0, g_main_lock_attempt = 0, g_fork_returned = 0, g_acq_count = 0;
static int g_grace_ms = 150;
static volatile int g_quiet = 0;          /* the recorder logs nothing (fork stress) */
static volatile int g_main_waits = 0;    /* the forking thread asked for a lock the parked thread holds */
#define MAXHELD 64
static void *volatile g_held[MAXHELD];   /* locks currently held by logical thread 1 (PARK mode) */
static volatile int g_nheld = 0;

static __thread int my_id = -1;         /* logical thread id, -1 = not under control */
static __thread int my_running = 0;     /* this thread was granted a step that is not yet reported complete */
static __thread int my_call = -1;

static int (*real_lock)(pthread_mutex_t *);
static int (*real_unlock)(pthread_mutex_t *);
static int (*real_trylock)(pthread_mutex_t *);
static int (*real_once)(pthread_once_t *, void (*)(void));
static int (*real_rdlock)(pthread_rwlock_t *);
static int (*real_wrlock)(pthread_rwlock_t *);
static int (*real_rwunlock)(pthread_rwlock_t *);
static int (*real_flock)(int, int);

static void resolve(void) {
    if (!real_lock) real_lock = (int (*)(pthread_mutex_t *)) dlsym(RTLD_NEXT, "pthread_mutex_lock");
    if (!real_unlock) real_unlock = (int (*)(pthread_mutex_t *)) dlsym(RTLD_NEXT, "pthread_mutex_unlock");
    if (!real_once) real_once = (int (*)(pthread_once_t *, void (*)(void))) dlsym(RTLD_NEXT, "pthread_once");
    if (!real_trylock) real_trylock = (int (*)(pthread_mutex_t *)) dlsym(RTLD_NEXT, "pthread_mutex_trylock");
    if (!real_rdlock) real_rdlock = (int (*)(pthread_rwlock_t *)) dlsym(RTLD_NEXT, "pthread_rwlock_rdlock");
    if (!real_wrlock) real_wrlock = (int (*)(pthread_rwlock_t *)) dlsym(RTLD_NEXT, "pthread_rwlock_wrlock");
    if (!real_rwunlock) real_rwunlock = (int (*)(pthread_rwlock_t *)) dlsym(RTLD_NEXT, "pthread_rwlock_unlock");
    if (!real_flock) real_flock = (int (*)(int, int)) dlsym(RTLD_NEXT, "flock");
    if (!g_mutex) g_mutex = dlsym(RTLD_DEFAULT, "snoopy_tsrm_threadRepo_mutex");
    if (!g_once) g_once = dlsym(RTLD_DEFAULT, "snoopy_tsrm_init_onceControl");
}

static void tr(const char *fmt, ...) {
    if (g_trace_fd < 0) return;
    char buf[1024]; va_list ap; va_start(ap, fmt); int n = vsnprintf(buf, sizeof buf, fmt, ap); va_end(ap);
    if (n > (int) sizeof buf - 1) n = (int) sizeof buf - 1;
    if (n > 0) (void)!write(g_trace_fd, buf, (size_t) n);
}

static int g_jitter = 0;                 /* SCHED_JITTER=<seed>: random pauses of 0..0.8 ms around the file operations of logical threads */
static __thread uint64_t my_rng = 0;
static void jitter(void) {
    if (!g_jitter || my_id < 0) return;
    if (!my_rng) my_rng = 0x9E3779B97F4A7C15ULL * (uint64_t)(g_jitter * 131 + my_id + 1);
    my_rng ^= my_rng << 13; my_rng ^= my_rng >> 7; my_rng ^= my_rng << 17;
    struct timespec ts = { 0, (long)(my_rng % 800) * 1000 };
    if ((my_rng >> 20) % 3 != 0) nanosleep(&ts, NULL);
}

static void nap(long us) { struct timespec ts = { us / 1000000, (us % 1000000) * 1000 }; nanosleep(&ts, NULL); }

static const char *site_of(void *ra) {
    Dl_info di;
    if (ra && dladdr(ra, &di) && di.dli_sname) return di.dli_sname;
    return "?";
}

/* ---- API for the caller ------------------------------------------------------------------------------------- */
void sched_setup(int mode, int trace_fd, const char *schedule, int park_k, int grace_ms) {
    resolve();
    g_mode = mode; g_trace_fd = trace_fd; g_park_k = park_k; if (grace_ms > 0) g_grace_ms = grace_ms;
    g_jitter = getenv("SCHED_JITTER") ? atoi(getenv("SCHED_JITTER")) : 0;
    g_len = 0; g_pos = 0; g_free_run = 0;
    if (schedule && schedule[0] && strcmp(schedule, "-")) {
        const char *p = schedule;
        while (*p && g_len < MAXSCHED) {
            g_sched[g_len++] = (int) strtol(p, (char **) &p, 10);
            if (*p == ',') p++;
        }
    }
}
void sched_thread_begin(int id) { my_id = id; my_running = 0; my_call = -1; tr("tid\t%d\t%ld\n", id, (long) syscall(SYS_gettid)); }
int sched_my_id(void) { return my_id; }
void sched_set_call(int c) { my_call = c; }
int sched_parked(void) { return g_parked; }
int sched_released(void) { return g_released; }
void sched_fork_returned(void) { __atomic_store_n(&g_fork_returned, 1, __ATOMIC_SEQ_CST); }
int sched_mismatch(void) { return g_mismatch; }
int sched_pos(void) { return g_pos; }
void sched_detach(void) { my_id = -1; g_mode = MODE_OFF; }     /* used in forked children: no control any more */
void sched_trace(const char *line) { tr("%s\n", line); }
void sched_quiet(int q) { g_quiet = q; }

/* a sync point of kind `kind` ('S' call start, 'O' once, 'L' lock, 'U' unlock, 'X' thread end) */
static void sync_point(char kind, const char *site) {
    if (my_id < 0) return;
    if (g_mode == MODE_TRACE) { tr("sync\t%d\t%d\t%c\t%s\n", __atomic_fetch_add(&g_seq, 1, __ATOMIC_SEQ_CST), my_id, kind, site); return; }
    if (g_mode != MODE_FORCE) return;
    if (my_running) { my_running = 0; __atomic_fetch_add(&g_pos, 1, __ATOMIC_SEQ_CST); }
    if (kind == 'X') { tr("end\t%d\n", my_id); return; }
    long spins = 0;
    for (;;) {
        if (__atomic_load_n(&g_free_run, __ATOMIC_SEQ_CST)) break;
        int p = __atomic_load_n(&g_pos, __ATOMIC_SEQ_CST);
        if (p >= g_len) {           /* the schedule is exhausted but this thread still has steps: the model predicted fewer */
            g_mismatch = 1; tr("extra\t%d\t%c\t%d\n", my_id, kind, p);
            __atomic_store_n(&g_free_run, 1, __ATOMIC_SEQ_CST); break;
        }
        if (g_sched[p] == my_id) { my_running = 1; break; }
        if (++spins < 200) { sched_yield(); continue; }
        nap(spins < 2000 ? 20 : 200);
    }
    tr("sync\t%d\t%d\t%c\n", __atomic_fetch_add(&g_seq, 1, __ATOMIC_SEQ_CST), my_id, kind);
}
void sched_point(int kind) { sync_point((char) kind, "caller"); }
void sched_thread_end(void) { sync_point('X', "caller"); my_id = -1; }

/* ---- interposers -------------------------------------------------------------------------------------------- */
static void held_add(void *l) { int n = g_nheld; if (n < MAXHELD) { g_held[n] = l; __atomic_store_n(&g_nheld, n + 1, __ATOMIC_SEQ_CST); } }
static void held_del(void *l) { int n = g_nheld; for (int i = n - 1; i >= 0; i--) if (g_held[i] == l) { g_held[i] = g_held[n - 1]; __atomic_store_n(&g_nheld, n - 1, __ATOMIC_SEQ_CST); return; } }
static int held_has(void *l) { int n = __atomic_load_n(&g_nheld, __ATOMIC_SEQ_CST); for (int i = 0; i < n; i++) if (g_held[i] == l) return 1; return 0; }

/* PARK mode, forking thread: it is about to wait for lock l */
static void main_attempt(void *l) {
    if (my_id == 0 && g_parked && !g_released) {
        __atomic_store_n(&g_main_lock_attempt, 1, __ATOMIC_SEQ_CST);
        if (held_has(l)) __atomic_store_n(&g_main_waits, 1, __ATOMIC_SEQ_CST);
    }
}

/* an acquisition of ANY lock (kind: m mutex of the repository, M other mutex, r/w rwlock, f flock) by a logical thread */
static void acquired(char kind, void *l, void *ra) {
    if (my_id < 0) return;
    if (g_mode == MODE_TRACE) { tr("acq\t%d\t%d\t%c\t%s\n", __atomic_fetch_add(&g_seq, 1, __ATOMIC_SEQ_CST), my_id, kind, site_of(ra)); return; }
    if (g_mode == MODE_REENTER) {
        /* (C10) a signal arrives on logical thread 1 right after its k-th acquisition of the repository mutex: its handler (the caller's) forks */
        if (my_id == 1 && kind == 'm' && __atomic_add_fetch(&g_acq_count, 1, __ATOMIC_SEQ_CST) == g_park_k) {
            tr("signal\t%d\t%s\n", g_park_k, site_of(ra));
            raise(SIGUSR1);
            tr("signal-handler-returned\t%d\n", g_park_k);
        }
        return;
    }
    if (g_mode != MODE_PARK || my_id != 1) return;
    held_add(l);
    if (g_parked || __atomic_add_fetch(&g_acq_count, 1, __ATOMIC_SEQ_CST) != g_park_k) return;
    tr("parked\t%d\t%c\t%s\n", g_park_k, kind, site_of(ra));
    __atomic_store_n(&g_parked, 1, __ATOMIC_SEQ_CST);
    /* go on only when the fork can no longer be affected by this thread leaving the window: the forking thread is waiting for a lock
       held here (then it cannot fork before we release it), or fork() has returned in the parent */
    long waited = 0;
    while (!__atomic_load_n(&g_main_waits, __ATOMIC_SEQ_CST) && !__atomic_load_n(&g_fork_returned, __ATOMIC_SEQ_CST) && waited < 30000000) { nap(500); waited += 500; }
    nap((long) g_grace_ms * 1000);
    tr("release\t%s\n", g_fork_returned ? "after-fork-returned" : (g_main_waits ? "fork-waiting-for-a-lock-held-here" : "no-fork-seen"));
    __atomic_store_n(&g_released, 1, __ATOMIC_SEQ_CST);
}
static void released_lock(void *l) { if (g_mode == MODE_PARK && my_id == 1) held_del(l); }

int pthread_mutex_lock(pthread_mutex_t *m) {
    resolve();
    if (g_mode == MODE_OFF) return real_lock(m);
    int is_repo = g_mutex && (void *) m == g_mutex;
    if (g_mode == MODE_PARK || g_mode == MODE_REENTER) {
        main_attempt(m);
        int r = real_lock(m);
        if (r == 0) acquired(is_repo ? 'm' : 'M', m, __builtin_return_address(0));
        return r;
    }
    if (!is_repo) { int r = real_lock(m); if (r == 0) acquired('M', m, __builtin_return_address(0)); return r; }
    sync_point('L', site_of(__builtin_return_address(0)));
    int r = real_lock(m);
    if (r == 0) acquired('m', m, __builtin_return_address(0));
    return r;
}

int pthread_mutex_trylock(pthread_mutex_t *m) {
    resolve();
    /* a trylock of the repository mutex is a lock boundary like a lock (scheduled only when the model says the mutex is free) */
    if ((g_mode == MODE_TRACE || g_mode == MODE_FORCE) && g_mutex && (void *) m == g_mutex) sync_point('L', site_of(__builtin_return_address(0)));
    int r = real_trylock(m);
    if (g_mode != MODE_OFF && r == 0) acquired((g_mutex && (void *) m == g_mutex) ? 'm' : 'M', m, __builtin_return_address(0));
    return r;
}

int pthread_mutex_unlock(pthread_mutex_t *m) {
    resolve();
    if (g_mode == MODE_OFF) return real_unlock(m);
    if (g_mode == MODE_PARK || g_mode == MODE_REENTER) { released_lock(m); return real_unlock(m); }
    if ((void *) m != g_mutex || !g_mutex) return real_unlock(m);
    sync_point('U', site_of(__builtin_return_address(0)));
    return real_unlock(m);
}

int pthread_rwlock_rdlock(pthread_rwlock_t *l) {
    resolve();
    if (g_mode == MODE_PARK) main_attempt(l);
    int r = real_rdlock(l);
    if (g_mode != MODE_OFF && r == 0) acquired('r', l, __builtin_return_address(0));
    return r;
}
int pthread_rwlock_wrlock(pthread_rwlock_t *l) {
    resolve();
    if (g_mode == MODE_PARK) main_attempt(l);
    int r = real_wrlock(l);
    if (g_mode != MODE_OFF && r == 0) acquired('w', l, __builtin_return_address(0));
    return r;
}
int pthread_rwlock_unlock(pthread_rwlock_t *l) {
    resolve();
    if (g_mode != MODE_OFF) released_lock(l);
    return real_rwunlock(l);
}
int flock(int fd, int op) {
    resolve();
    int r = real_flock(fd, op);
    if (g_mode != MODE_OFF && r == 0 && (op & (LOCK_EX | LOCK_SH))) acquired('f', (void *)(long)(fd + 1), __builtin_return_address(0));
    return r;
}

int pthread_once(pthread_once_t *ctl, void (*fn)(void)) {
    resolve();
    if (g_mode == MODE_OFF || g_mode == MODE_PARK || g_mode == MODE_REENTER || (void *) ctl != g_once || !g_once) return real_once(ctl, fn);
    sync_point('O', site_of(__builtin_return_address(0)));
    return real_once(ctl, fn);
}

/* ---- the "real" exec behind the wrappers: record and fail ----------------------------------------------------- */
static void hex_into(char *out, size_t cap, size_t *j, const char *s) {
    static const char hx[] = "0123456789abcdef";
    if (!s) { if (*j + 1 < cap) out[(*j)++] = '~'; return; }
    if (!*s) { if (*j + 1 < cap) out[(*j)++] = '-'; return; }
    for (; *s && *j + 2 < cap; s++) { out[(*j)++] = hx[(unsigned char) *s >> 4]; out[(*j)++] = hx[(unsigned char) *s & 15]; }
}
static int record_exec(const char *api, const char *path, char *const argv[]) {
    if (g_quiet) { errno = ENOENT; return -1; }
    char buf[8192]; size_t j = 0;
    j += (size_t) snprintf(buf, sizeof buf, "real\t%d\t%d\t%s\t", my_id, my_call, api);
    hex_into(buf, sizeof buf - 2, &j, path);
    buf[j++] = '\t';
    if (!argv) buf[j++] = '~';
    else if (!argv[0]) { buf[j++] = '['; buf[j++] = ']'; }
    else for (int i = 0; argv[i] && j + 4 < sizeof buf; i++) { if (i) buf[j++] = ','; hex_into(buf, sizeof buf - 2, &j, argv[i]); }
    buf[j++] = '\n';
    if (g_trace_fd >= 0) (void)!write(g_trace_fd, buf, j);
    errno = ENOENT;
    return -1;
}
int execve(const char *path, char *const argv[], char *const envp[]) { (void) envp; return record_exec("execve", path, argv); }
int execv(const char *path, char *const argv[]) { return record_exec("execv", path, argv); }

/* ---- schedule perturbation for free-running stress (SCHED_JITTER): pauses around the library's file operations -------------- */
int open(const char *path, int flags, ...) {
    static int (*real_open)(const char *, int, ...);
    if (!real_open) real_open = (int (*)(const char *, int, ...)) dlsym(RTLD_NEXT, "open");
    mode_t mode = 0;
    if (flags & O_CREAT) { va_list ap; va_start(ap, flags); mode = (mode_t) va_arg(ap, int); va_end(ap); }
    jitter();
    int r = real_open(path, flags, mode);
    int e = errno; jitter(); errno = e;
    return r;
}
int fclose(FILE *f) {
    static int (*real_fclose)(FILE *);
    if (!real_fclose) real_fclose = (int (*)(FILE *)) dlsym(RTLD_NEXT, "fclose");
    int r = real_fclose(f);
    int e = errno; jitter(); errno = e;
    return r;
}
int close(int fd) {
    static int (*real_close)(int);
    if (!real_close) real_close = (int (*)(int)) dlsym(RTLD_NEXT, "close");
    jitter();
    return real_close(fd);
}
