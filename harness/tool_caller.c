/* tool_caller — scripted caller for the system-level harness.
 *   LD_PRELOAD="<libsnoopy.so> <librecorder.so>" tool_caller <script> <recfile> <inifile>
 * Script: one TAB-separated directive per line (see handle_line).  Everything observable is appended to
 * <recfile> by this program and by librecorder.so.  No pids, addresses or times are logged. */
#define _GNU_SOURCE
#include <dirent.h>
#include <dlfcn.h>
#include <errno.h>
#include <fcntl.h>
#include <malloc.h>
#include <grp.h>
#include <pthread.h>
#include <pty.h>
#include <pwd.h>
#include <signal.h>
#include <stdarg.h>
#include <stdint.h>
#include <stdio.h>
#include <stdlib.h>
#include <string.h>
#include <termios.h>
#include <unistd.h>
#include <sys/ioctl.h>
#include <sys/prctl.h>
#include <sys/socket.h>
#include <sys/stat.h>
#include <sys/syscall.h>
#include <sys/un.h>
#include <sys/wait.h>
#include "common.h"
#include "verif_shared.h"

extern char **environ;
struct verif_expect verif_expect;          /* exported (-rdynamic): found by librecorder via dlsym */
void verif_drain_sink(int rec, struct verif_sink *s, const char *phase, int idx) __attribute__((weak));   /* from librecorder.so */

static int REC = -1;
static const char *INI;
static int cur_idx = -1;

static void recf(const char *fmt, ...) {
    char buf[8192]; va_list ap; va_start(ap, fmt); int n = vsnprintf(buf, sizeof buf, fmt, ap); va_end(ap);
    if (n > 0) (void)!write(REC, buf, (size_t)n);
}

static uint64_t fnv(uint64_t h, const void *p, size_t n) { const unsigned char *b = p; for (size_t i = 0; i < n; i++) { h ^= b[i]; h *= 1099511628211ULL; } return h; }

/* process state sample; heap first (before this function allocates anything) */
void verif_sample_state(const char *phase) {
    struct mallinfo2 mi = mallinfo2();
    size_t heap = mi.uordblks, mm = mi.hblkhd;
    char fds[4096]; size_t fl = 0; fds[0] = 0;
    int dfd = open("/proc/self/fd", O_RDONLY | O_DIRECTORY | O_CLOEXEC);
    if (dfd >= 0) {
        char dbuf[8192];
        for (;;) {
            long k = syscall(SYS_getdents64, dfd, dbuf, sizeof dbuf);
            if (k <= 0) break;
            for (long off = 0; off < k;) {
                struct dirent64 { uint64_t ino; int64_t o; unsigned short reclen; unsigned char type; char name[]; } *d = (void *)(dbuf + off);
                if (d->name[0] != '.') {
                    int fd = atoi(d->name);
                    if (fd != dfd) {
                        char lnk[256], tgt[256]; snprintf(lnk, sizeof lnk, "/proc/self/fd/%d", fd);
                        ssize_t t = readlink(lnk, tgt, sizeof tgt - 1); if (t < 0) t = 0; tgt[t] = 0;
                        /* anonymous object ids (socket:[123], pipe:[456]) are kept: they are stable within a run */
                        fl += (size_t)snprintf(fds + fl, sizeof fds - fl, "%d=%s,", fd, tgt);
                    }
                }
                off += d->reclen;
            }
        }
        close(dfd);
    }
    char cwd[4096]; if (!getcwd(cwd, sizeof cwd)) strcpy(cwd, "?");
    mode_t um = umask(0); umask(um);
    sigset_t ss; sigprocmask(SIG_SETMASK, NULL, &ss);
    uint64_t sm = 0; for (int s = 1; s < 64; s++) if (sigismember(&ss, s)) sm |= 1ULL << s;
    uint64_t hh = 1469598103934665603ULL;
    for (int s = 1; s < 65; s++) { struct sigaction sa; if (sigaction(s, NULL, &sa) == 0) { hh = fnv(hh, &sa.sa_handler, sizeof sa.sa_handler); int fl = sa.sa_flags & ~0x04000000 /* SA_RESTORER: set by glibc's own sigaction wrapper whenever IT restores a disposition (getutline_r's lock timer); not a property of the disposition */; hh = fnv(hh, &fl, sizeof fl); } }
    uint64_t eh = 1469598103934665603ULL; long ne = -1;
    if (environ) { ne = 0; for (char **e = environ; *e; e++) { eh = fnv(eh, e, sizeof *e); eh = fnv(eh, *e, strlen(*e) + 1); ne++; } }
    uint64_t ep = (uint64_t)(uintptr_t) environ; eh = fnv(eh, &ep, sizeof ep);
    recf("state\t%s\t%d\theap=%zu\tmmap=%zu\tfds=%s\tcwd=", phase, cur_idx, heap, mm, fds);
    { FILE *m = fdopen(dup(REC), "a"); put_hexs(m, cwd); fclose(m); }
    recf("\tumask=%o\tsigmask=%llx\thandlers=%llx\tenv=%ld:%llx\n", um, (unsigned long long)sm, (unsigned long long)hh, ne, (unsigned long long)eh);
}

static void drain_all(const char *phase) {
    if (!verif_drain_sink) return;
    for (int i = 0; i < verif_expect.nsinks; i++) verif_drain_sink(REC, &verif_expect.sinks[i], phase, cur_idx);
}

static struct verif_sink *new_sink(int kind, const char *name) {
    struct verif_sink *s = &verif_expect.sinks[verif_expect.nsinks++];
    memset(s, 0, sizeof *s); s->kind = kind; s->fd = -1; strncpy(s->name, name, sizeof s->name - 1);
    return s;
}

static int bind_dgram(const char *path) {
    int fd = socket(AF_UNIX, SOCK_DGRAM | SOCK_CLOEXEC, 0);
    struct sockaddr_un a; memset(&a, 0, sizeof a); a.sun_family = AF_UNIX; strncpy(a.sun_path, path, sizeof a.sun_path - 1);
    unlink(path);
    if (bind(fd, (struct sockaddr *)&a, sizeof a) < 0) { perror("bind"); exit(3); }
    int big = 1 << 22; setsockopt(fd, SOL_SOCKET, SO_RCVBUF, &big, sizeof big);
    return fd;
}

/* "stack <KiB>": the following failing-exec calls are issued from a fresh thread with a stack of that size
 * (the library runs on the caller's stack: its stack use must not depend on the configuration) */
static size_t STACK_KIB = 0;
/* "errno <n>": errno as the following calls find it (a previous exec that failed, any earlier libc failure of the caller); default 0 */
static int PRESET_ERRNO = 0;
struct thr_call { int is_execv; int r; int e; };
static void *thr_call_main(void *p) {
    struct thr_call *x = p;
    errno = PRESET_ERRNO;
    x->r = x->is_execv ? execv(verif_expect.path, verif_expect.argv) : execve(verif_expect.path, verif_expect.argv, verif_expect.envp);
    x->e = errno;
    return NULL;
}

/* "libcbuf 1": the strings of the following calls live in libc's own static result buffers (getpwuid / getgrgid / getpwnam:
 * what a launcher does with execv(pw->pw_shell, {pw->pw_name, ...})).  The library shares libc with the caller: whatever it looks up
 * while logging must not go through the non-reentrant interfaces, or the caller's arguments change under its feet. */
static int LIBCBUF = 0;
static char *into_static(char *area, size_t room, char *s) {
    size_t n = strlen(s) + 1;
    if (!area || n > room) return s;
    memcpy(area, s, n);
    return area;
}
static void place_in_libc_buffers(vbytes *path, vlist *argv, vlist *envp) {
    struct passwd *pw = getpwuid(1); struct group *gr = getgrgid(1); struct passwd *pn = getpwnam("daemon");
    /* the record's strings start at pw_name / gr_name in glibc's static buffer (1024 bytes at least) */
    if (pw && !path->isnull) path->p = into_static(pw->pw_name, 200, path->p);
    if (gr && !argv->isnull && argv->v[0]) argv->v[0] = into_static(gr->gr_name, 200, argv->v[0]);
    if (pn && pn != pw && !envp->isnull && envp->v[0]) envp->v[0] = into_static(pn->pw_name, 200, envp->v[0]);
}

static int do_call(int nf, char **f) {
    /* call api path argv envp mode ret errno */
    if (nf < 8) return -1;
    int is_execv = !strcmp(f[1], "execv");
    vbytes path = parse_bytes(f[2]); vlist argv = parse_list(f[3]); vlist envp = parse_list(f[4]);
    int mode = atoi(f[5]), ret = atoi(f[6]), err = atoi(f[7]);
    if (LIBCBUF) place_in_libc_buffers(&path, &argv, &envp);
    cur_idx++;
    verif_expect.path = path.isnull ? NULL : path.p; verif_expect.argv = argv.isnull ? NULL : argv.v; verif_expect.envp = envp.isnull ? NULL : envp.v;
    verif_expect.is_execv = is_execv; verif_expect.mode = mode; verif_expect.ret = ret; verif_expect.err = err; verif_expect.call_index = cur_idx;
    verif_expect.real_calls = 0;
    /* deep hashes before (the library must not write through the pointers) */
    uint64_t hb = 1469598103934665603ULL;
    if (verif_expect.path) hb = fnv(hb, verif_expect.path, strlen(verif_expect.path) + 1);
    if (verif_expect.argv) for (char *const *a = verif_expect.argv; *a; a++) hb = fnv(hb, *a, strlen(*a) + 1);
    if (verif_expect.envp) for (char *const *a = verif_expect.envp; *a; a++) hb = fnv(hb, *a, strlen(*a) + 1);
    drain_all("before");
    verif_sample_state("before");
    if (mode == 1) {
        fflush(NULL);
        pid_t pid = fork();
        if (pid == 0) {
            if (is_execv) execv(verif_expect.path, verif_expect.argv); else execve(verif_expect.path, verif_expect.argv, verif_expect.envp);
            _exit(99);   /* the simulated success never returns */
        }
        int st; waitpid(pid, &st, 0);
        recf("ret\t%d\tchild\t%d\t%d\n", cur_idx, WIFEXITED(st) ? WEXITSTATUS(st) : -WTERMSIG(st), 0);
    } else {
        int r, e;
        if (STACK_KIB) {
            struct thr_call x = { is_execv, 0, 0 };
            pthread_attr_t at; pthread_attr_init(&at); pthread_attr_setstacksize(&at, STACK_KIB * 1024);
            pthread_t th;
            if (pthread_create(&th, &at, thr_call_main, &x)) { perror("pthread_create"); exit(3); }
            pthread_join(th, NULL);
            r = x.r; e = x.e;
        } else {
            errno = PRESET_ERRNO;
            r = is_execv ? execv(verif_expect.path, verif_expect.argv) : execve(verif_expect.path, verif_expect.argv, verif_expect.envp);
            e = errno;
        }
        recf("ret\t%d\t%d\t%d\t%d\n", cur_idx, r, e, verif_expect.real_calls);
    }
    verif_sample_state("after");
    /* make the caller's own stdio visible before draining "after" (lets a check see records that only sat in the stdio buffer) */
    drain_all("after");
    fflush(NULL);
    drain_all("after-flush");
    uint64_t ha = 1469598103934665603ULL;
    if (verif_expect.path) ha = fnv(ha, verif_expect.path, strlen(verif_expect.path) + 1);
    if (verif_expect.argv) for (char *const *a = verif_expect.argv; *a; a++) ha = fnv(ha, *a, strlen(*a) + 1);
    if (verif_expect.envp) for (char *const *a = verif_expect.envp; *a; a++) ha = fnv(ha, *a, strlen(*a) + 1);
    recf("deep\t%d\t%d\n", cur_idx, ha == hb);
    return 0;
}

static char BASEDIR[1024];
/* replace every "@D@" by the directory the caller was started in (scripts stay relocatable for replay) */
static char *subst(const char *in, size_t n, size_t *outn) {
    size_t bl = strlen(BASEDIR); char *out = malloc(n * (bl > 3 ? bl : 3) / 3 + n + 8); size_t j = 0;
    for (size_t i = 0; i < n;) {
        if (i + 3 <= n && in[i] == '@' && in[i+1] == 'D' && in[i+2] == '@') { memcpy(out + j, BASEDIR, bl); j += bl; i += 3; }
        else out[j++] = in[i++];
    }
    out[j] = 0; if (outn) *outn = j; return out;
}

static void handle_line(int nf, char **f) {
    if (!strcmp(f[0], "sink") && nf >= 4) f[3] = subst(f[3], strlen(f[3]), NULL);
    if (!strcmp(f[0], "sink") && nf >= 3) {
        if (!strcmp(f[1], "file") && nf >= 4) { struct verif_sink *s = new_sink(SINK_FILE, f[2]); strncpy(s->path, f[3], sizeof s->path - 1); struct stat st; s->offset = stat(s->path, &st) == 0 ? st.st_size : 0; }
        else if (!strcmp(f[1], "pipe") && nf >= 4) { int p[2]; if (pipe2(p, O_CLOEXEC)) exit(3); fcntl(p[1], F_SETPIPE_SZ, 1 << 20); int tfd = atoi(f[3]); dup2(p[1], tfd); close(p[1]); struct verif_sink *s = new_sink(SINK_PIPE, f[2]); s->fd = p[0]; }
        else if (!strcmp(f[1], "sockpair") && nf >= 4) { /* descriptor <n> is one end of a stream socket pair (a service started by systemd/inetd/sshd) */
            int p[2]; if (socketpair(AF_UNIX, SOCK_STREAM | SOCK_CLOEXEC, 0, p)) exit(3);
            int big = 1 << 21; setsockopt(p[1], SOL_SOCKET, SO_SNDBUF, &big, sizeof big); setsockopt(p[0], SOL_SOCKET, SO_RCVBUF, &big, sizeof big);
            int tfd = atoi(f[3]); dup2(p[1], tfd); close(p[1]); struct verif_sink *s = new_sink(SINK_PIPE, f[2]); s->fd = p[0]; }
        else if (!strcmp(f[1], "dgram") && nf >= 4) { struct verif_sink *s = new_sink(SINK_DGRAM, f[2]); strncpy(s->path, f[3], sizeof s->path - 1); s->fd = bind_dgram(f[3]); }
        else if (!strcmp(f[1], "devlog") && nf >= 4) { struct verif_sink *s = new_sink(SINK_DGRAM, f[2]); strncpy(s->path, f[3], sizeof s->path - 1); s->fd = bind_dgram(f[3]); strncpy(verif_expect.devlog_redirect, f[3], sizeof verif_expect.devlog_redirect - 1); }
        else if (!strcmp(f[1], "tty")) {
            int m, sl; if (openpty(&m, &sl, NULL, NULL, NULL)) { recf("note\tno-pty\n"); return; }
            struct termios t; tcgetattr(sl, &t); cfmakeraw(&t); tcsetattr(sl, TCSANOW, &t);
            setsid(); ioctl(sl, TIOCSCTTY, 0);
            fcntl(m, F_SETFD, FD_CLOEXEC); fcntl(sl, F_SETFD, FD_CLOEXEC);
            struct verif_sink *s = new_sink(SINK_TTY, f[2]); s->fd = m;
        }
    } else if (!strcmp(f[0], "ini") && nf >= 2) {
        if (!strcmp(f[1], "~")) unlink(INI);
        else { vbytes b = parse_bytes(f[1]); size_t sn; char *sb = subst(b.p, b.n, &sn); int fd = open(INI, O_WRONLY | O_CREAT | O_TRUNC | O_CLOEXEC, 0644); (void)!write(fd, sb, sn); close(fd); free(sb); }
    } else if (!strcmp(f[0], "inimode") && nf >= 2) { chmod(INI, (mode_t) strtol(f[1], 0, 8));
    } else if (!strcmp(f[0], "env") && nf >= 2) { vlist e = parse_list(f[1]); environ = e.isnull ? NULL : e.v;
    } else if (!strcmp(f[0], "chdir") && nf >= 2) { vbytes p = parse_bytes(f[1]); (void)!chdir(p.p);
    } else if (!strcmp(f[0], "umask") && nf >= 2) { umask((mode_t) strtol(f[1], 0, 8));
    } else if (!strcmp(f[0], "sigblock") && nf >= 2) { sigset_t s; sigemptyset(&s); sigaddset(&s, atoi(f[1])); sigprocmask(SIG_BLOCK, &s, NULL);
    } else if (!strcmp(f[0], "stdin") && nf >= 2) {
        if (!strcmp(f[1], "closed")) close(0);
        else if (!strcmp(f[1], "null")) { int fd = open("/dev/null", O_RDONLY); dup2(fd, 0); close(fd); }
    } else if (!strcmp(f[0], "rename") && nf >= 3) {
        /* log rotation between two calls of one process: what was there moves away, the next record must create the file anew */
        char *from = subst(f[1], strlen(f[1]), NULL), *to = subst(f[2], strlen(f[2]), NULL);
        (void)!rename(from, to);
        struct stat st; long tosz = stat(to, &st) == 0 ? (long) st.st_size : 0;
        for (int i = 0; i < verif_expect.nsinks; i++) {
            struct verif_sink *k = &verif_expect.sinks[i];
            if (k->kind == SINK_FILE && !strcmp(k->path, from)) k->offset = 0;
            else if (k->kind == SINK_FILE && !strcmp(k->path, to)) k->offset = tosz;
        }
    } else if (!strcmp(f[0], "comm") && nf >= 2) {
        /* the caller's own command name ("@PID@" = its pid): what its children find as their parent's name in /proc/<pid>/stat */
        vbytes b = parse_bytes(f[1]); char nm[64], pid[16]; snprintf(pid, sizeof pid, "%d", (int) getpid());
        char *at = strstr(b.p, "@PID@");
        if (at) snprintf(nm, sizeof nm, "%.*s%s%s", (int)(at - b.p), b.p, pid, at + 5); else snprintf(nm, sizeof nm, "%s", b.p);
        prctl(PR_SET_NAME, nm, 0, 0, 0);
    } else if (!strcmp(f[0], "symlink") && nf >= 3) {
        /* symlink <target> <linkpath>: the configured log path's last component may be a symbolic link (logrotate / relocated log directories) */
        char *tg = subst(f[1], strlen(f[1]), NULL), *ln = subst(f[2], strlen(f[2]), NULL);
        unlink(ln); if (symlink(tg, ln)) recf("note\tsymlink-failed\n");
    } else if (!strcmp(f[0], "ruid") && nf >= 2) {
        /* real uid <n>, effective and saved uid unchanged (the state of a set-uid-root program started by user <n>) */
        if (setresuid((uid_t) atol(f[1]), (uid_t) -1, (uid_t) -1)) recf("note\truid-failed\n");
    } else if (!strcmp(f[0], "stack") && nf >= 2) { STACK_KIB = (size_t) atol(f[1]);
    } else if (!strcmp(f[0], "libcbuf") && nf >= 2) { LIBCBUF = atoi(f[1]);
    } else if (!strcmp(f[0], "errno") && nf >= 2) { PRESET_ERRNO = atoi(f[1]);
    } else if (!strcmp(f[0], "call")) { do_call(nf, f);
    } else if (!strcmp(f[0], "state")) { verif_sample_state(nf >= 2 ? f[1] : "mark");
    }
}

int main(int argc, char **argv) {
    if (argc < 4) { fprintf(stderr, "usage: tool_caller script recfile inifile\n"); return 2; }
    REC = open(argv[2], O_WRONLY | O_CREAT | O_APPEND | O_CLOEXEC, 0644);
    if (REC < 0) { perror("rec"); return 2; }
    int hi = fcntl(REC, F_DUPFD_CLOEXEC, 200); close(REC); REC = hi;
    verif_expect.rec_fd = REC;
    INI = argv[3];
    if (!getcwd(BASEDIR, sizeof BASEDIR)) strcpy(BASEDIR, ".");
    signal(SIGPIPE, SIG_DFL);
    void (*alt)(char *) = (void (*)(char *)) dlsym(RTLD_DEFAULT, "snoopy_configuration_preinit_enableAltConfigFileParsing");
    if (alt) alt(argv[3]); else recf("note\tno-alt-config-symbol\n");
    FILE *in = fopen(argv[1], "r");
    if (!in) { perror("script"); return 2; }
    /* read the whole script first so that no stdio buffer of the script file is live during calls */
    size_t cap = 256, n = 0; char **lines = malloc(cap * sizeof *lines); char *line = NULL; size_t lc = 0; ssize_t len;
    while ((len = getline(&line, &lc, in)) >= 0) { while (len > 0 && (line[len-1] == '\n')) line[--len] = 0; if (n == cap) { cap *= 2; lines = realloc(lines, cap * sizeof *lines); } lines[n++] = strdup(line); }
    fclose(in); free(line);
    /* "minpid <N>": run the script in a descendant whose pid has at least that value (pid-width dependent framing: "<prio>ident[pid]: ") */
    for (size_t i = 0; i < n; i++) if (!strncmp(lines[i], "minpid\t", 7)) {
        long want = atol(lines[i] + 7);
        /* the parent burns pids with children that exit at once; the first child whose pid is large enough carries on as the caller */
        for (int tries = 0; getpid() < want && tries < 40000; tries++) {
            pid_t c = fork();
            if (c < 0) break;
            if (c == 0) { if (getpid() >= want) break; _exit(0); }
            int st; waitpid(c, &st, 0);
            if (c >= want) _exit(WIFEXITED(st) ? WEXITSTATUS(st) : 128 + WTERMSIG(st));
        }
        break;
    }
    for (size_t i = 0; i < n; i++) { char *f[MAXF]; int nf = split_tabs(lines[i], f); if (nf > 0 && f[0][0] && f[0][0] != '#') handle_line(nf, f); }
    recf("end\t%d\n", cur_idx + 1);
    return 0;
}
