/* tool_fcaller — scripted caller for C03 (fault injection and real sink states).
 *   LD_PRELOAD="<libsnoopy.so> <libfault.so> <librecorder.so>" tool_fcaller <script> <recfile> <inifile>
 * Script: one TAB-separated directive per line; "@D@" in a field is replaced by the start directory.
 *   ini <hex|~>                      write / remove the configuration file
 *   env <list>                       set environ
 *   chdir <hexpath>
 *   mkdir <path> <octal mode>        mkfile <path> <octal mode>       fifo <path>
 *   dgram <path> <fill 0|1>          bound, never read datagram socket; fill=1: queue filled until EAGAIN
 *   devlog <path> <fill 0|1>         same, and connect("/dev/log") is redirected to it (by librecorder)
 *   stalesock <path> / devlog-stale <path>   a socket file whose owner is gone (connect -> ECONNREFUSED)
 *   stream <path> / devlog-stream <path>   listening STREAM socket with a full accept backlog that nobody accepts from
 *   rmcwd <path>                     mkdir+chdir+rmdir: the working directory no longer exists
 *   flockfile <path>                 create the file and keep an exclusive flock on it through another open file description
 *   parentname <fmt>                 fork: the script continues in the child, the parent renames itself (fmt may hold %d = its pid) and waits
 *   stdfd <1|2> <pipe-noreader|pipe-full|null|file:<path>>      what the CALLER's descriptor is
 *   stdin <null|closed|pty>
 *   uid <n>                          drop to uid/gid n (mode-000 sinks are only effective for non-root)
 *   call <api> <path> <argv> <envp> <ret> <errno> <plan> [thread|errno=N]   one wrapped call under fault plan <plan> ("-" none); optionally made by a
 *                                    fresh thread, or with the caller's errno preset to N
 * Record lines (besides those of libfault "io/mark" and librecorder "real"):
 *   ret <idx> <ret> <errno> <real_calls> <elapsed_ms> <signals: comma list of numbers or ->
 *   fatal <idx> timeout|signal:<n>
 * The real exec is librecorder's; it calls verif_sample_state("at-exec") here, which stops the trace. */
#define _GNU_SOURCE
#include <dlfcn.h>
#include <errno.h>
#include <fcntl.h>
#include <pthread.h>
#include <grp.h>
#include <pty.h>
#include <signal.h>
#include <stdarg.h>
#include <stdint.h>
#include <stdio.h>
#include <stdlib.h>
#include <string.h>
#include <time.h>
#include <unistd.h>
#include <sys/file.h>
#include <sys/prctl.h>
#include <sys/socket.h>
#include <sys/stat.h>
#include <sys/syscall.h>
#include <sys/un.h>
#include <sys/wait.h>
#include "common.h"
#include "verif_shared.h"

extern char **environ;
struct verif_expect verif_expect;          /* exported (-rdynamic): found by librecorder via dlsym */
void verif_fault_begin(const char *plan, int fd) __attribute__((weak));
void verif_fault_mark(const char *what) __attribute__((weak));
void verif_fault_end(void) __attribute__((weak));

static int REC = -1;
static const char *INI;
static int cur_idx = -1;
static char BASEDIR[1024];
static volatile sig_atomic_t sigseen[65];
static struct timespec t_exec;
static int CALL_TIMEOUT = 8;

static void recf(const char *fmt, ...) {
    char buf[8192]; va_list ap; va_start(ap, fmt); int n = vsnprintf(buf, sizeof buf, fmt, ap); va_end(ap);
    if (n > 0) syscall(SYS_write, REC, buf, (size_t) n);
}

/* called by librecorder at the entry of the real exec */
void verif_sample_state(const char *phase) {
    if (!strcmp(phase, "at-exec")) { clock_gettime(CLOCK_MONOTONIC, &t_exec); if (verif_fault_mark) verif_fault_mark("exec"); }
}

static void on_signal(int s) { if (s > 0 && s < 65) sigseen[s]++; }
static void on_fatal(int s) {
    char b[64]; int n = snprintf(b, sizeof b, "fatal\t%d\t%s%d\n", cur_idx, s == SIGALRM ? "timeout:" : "signal:", s);
    syscall(SYS_write, REC, b, (size_t) n); _exit(s == SIGALRM ? 124 : 128 + s);
}
static const int WATCHED[] = { SIGPIPE, SIGHUP, SIGINT, SIGQUIT, SIGUSR1, SIGUSR2, SIGTERM, SIGCHLD, SIGIO, SIGURG, SIGTTOU, SIGTTIN, SIGXFSZ, SIGWINCH, 0 };
static void install_handlers(void) {
    static char altstack[1 << 16];
    stack_t ss; ss.ss_sp = altstack; ss.ss_size = sizeof altstack; ss.ss_flags = 0; sigaltstack(&ss, NULL);
    struct sigaction sa; memset(&sa, 0, sizeof sa); sigemptyset(&sa.sa_mask);
    sa.sa_handler = on_signal; sa.sa_flags = SA_RESTART;
    for (int i = 0; WATCHED[i]; i++) sigaction(WATCHED[i], &sa, NULL);
    sa.sa_handler = on_fatal; sa.sa_flags = SA_ONSTACK;
    sigaction(SIGALRM, &sa, NULL); sigaction(SIGSEGV, &sa, NULL); sigaction(SIGBUS, &sa, NULL); sigaction(SIGABRT, &sa, NULL); sigaction(SIGFPE, &sa, NULL); sigaction(SIGILL, &sa, NULL);
}

static char *subst(const char *in, size_t n, size_t *outn) {
    size_t bl = strlen(BASEDIR); char *out = malloc(n * (bl > 3 ? bl : 3) / 3 + n + 8); size_t j = 0;
    for (size_t i = 0; i < n;) {
        if (i + 3 <= n && in[i] == '@' && in[i+1] == 'D' && in[i+2] == '@') { memcpy(out + j, BASEDIR, bl); j += bl; i += 3; }
        else out[j++] = in[i++];
    }
    out[j] = 0; if (outn) *outn = j; return out;
}

static int bind_dgram(const char *path, int fill) {
    int fd = socket(AF_UNIX, SOCK_DGRAM | SOCK_CLOEXEC, 0);
    struct sockaddr_un a; memset(&a, 0, sizeof a); a.sun_family = AF_UNIX; strncpy(a.sun_path, path, sizeof a.sun_path - 1);
    unlink(path);
    if (bind(fd, (struct sockaddr *)&a, sizeof a) < 0) { perror("bind"); exit(3); }
    fd = fcntl(fd, F_DUPFD_CLOEXEC, 150);
    if (fill) {
        int s = socket(AF_UNIX, SOCK_DGRAM | SOCK_CLOEXEC | SOCK_NONBLOCK, 0); long n = 0;
        if (connect(s, (struct sockaddr *)&a, sizeof a) < 0) { perror("connect-fill"); exit(3); }
        char junk[64]; memset(junk, 'j', sizeof junk);
        while (send(s, junk, sizeof junk, MSG_DONTWAIT | MSG_NOSIGNAL) >= 0 && n < 1000000) n++;
        recf("note\tfilled\t%ld\t%d\n", n, errno);
        close(s);
    }
    return fd;
}

/* a LISTENING stream socket nobody accepts from, its accept backlog filled (a blocking connect() to it sleeps; a datagram connect gets EPROTOTYPE) */
static void bind_stream_full(const char *path) {
    int fd = socket(AF_UNIX, SOCK_STREAM | SOCK_CLOEXEC, 0);
    struct sockaddr_un a; memset(&a, 0, sizeof a); a.sun_family = AF_UNIX; strncpy(a.sun_path, path, sizeof a.sun_path - 1);
    unlink(path);
    if (bind(fd, (struct sockaddr *)&a, sizeof a) < 0 || listen(fd, 0) < 0) { perror("bind-stream"); exit(3); }
    fcntl(fd, F_DUPFD_CLOEXEC, 180); close(fd);
    long n = 0;
    for (; n < 64; n++) {
        int c = socket(AF_UNIX, SOCK_STREAM | SOCK_CLOEXEC | SOCK_NONBLOCK, 0);
        if (connect(c, (struct sockaddr *)&a, sizeof a) < 0) { close(c); break; }
        fcntl(c, F_DUPFD_CLOEXEC, 300); close(c);      /* keep the queued connection alive */
    }
    recf("note\tstream-backlog-filled\t%ld\t%d\n", n, errno);
}

static void set_stdfd(int tfd, const char *what) {
    if (!strcmp(what, "null")) { int fd = open("/dev/null", O_WRONLY); dup2(fd, tfd); close(fd); }
    else if (!strcmp(what, "pipe-noreader")) { int p[2]; if (pipe(p)) exit(3); close(p[0]); dup2(p[1], tfd); close(p[1]); }
    else if (!strcmp(what, "pipe-full")) {
        int p[2]; if (pipe(p)) exit(3); fcntl(p[1], F_SETPIPE_SZ, 4096);
        int fl = fcntl(p[1], F_GETFL); fcntl(p[1], F_SETFL, fl | O_NONBLOCK); char junk[512]; memset(junk, 'j', sizeof junk);
        while (write(p[1], junk, sizeof junk) > 0) {}
        fcntl(p[1], F_SETFL, fl); fcntl(p[0], F_DUPFD_CLOEXEC, 160); close(p[0]); dup2(p[1], tfd); close(p[1]);
    } else if (!strncmp(what, "file:", 5)) { char *p = subst(what + 5, strlen(what + 5), NULL); int fd = open(p, O_WRONLY | O_CREAT | O_APPEND, 0644); dup2(fd, tfd); close(fd); }
}

struct tcall { int is_execv; int r; int e; };
static void *thread_call(void *a) {
    struct tcall *tc = a;
    errno = 0;
    tc->r = tc->is_execv ? execv(verif_expect.path, verif_expect.argv) : execve(verif_expect.path, verif_expect.argv, verif_expect.envp);
    tc->e = errno;
    return NULL;
}

static int do_call(int nf, char **f) {
    if (nf < 8) return -1;
    int is_execv = !strcmp(f[1], "execv");
    vbytes path = parse_bytes(f[2]); vlist argv = parse_list(f[3]); vlist envp = parse_list(f[4]);
    int ret = atoi(f[5]), err = atoi(f[6]); const char *plan = strcmp(f[7], "-") ? f[7] : "";
    cur_idx++;
    verif_expect.path = path.isnull ? NULL : path.p; verif_expect.argv = argv.isnull ? NULL : argv.v; verif_expect.envp = envp.isnull ? NULL : envp.v;
    verif_expect.is_execv = is_execv; verif_expect.mode = 0; verif_expect.ret = ret; verif_expect.err = err; verif_expect.call_index = cur_idx;
    verif_expect.real_calls = 0;
    for (int s = 0; s < 65; s++) sigseen[s] = 0;
    recf("callbegin\t%d\n", cur_idx);
    struct timespec t0, t1; t_exec.tv_sec = 0; t_exec.tv_nsec = 0;
    alarm((unsigned) CALL_TIMEOUT);
    clock_gettime(CLOCK_MONOTONIC, &t0);
    if (verif_fault_begin) verif_fault_begin(plan, REC);
    int r, e;
    if (nf >= 9 && !strcmp(f[8], "thread")) {       /* the wrapped call is made by a FRESH thread (the main thread waits): locks a previous call left behind show up */
        struct tcall tc = { is_execv, 0, 0 }; pthread_t th;
        if (pthread_create(&th, NULL, thread_call, &tc)) { recf("note\tno-thread\n"); return -1; }
        pthread_join(th, NULL);
        r = tc.r; e = tc.e;
    } else {
        errno = (nf >= 9 && !strncmp(f[8], "errno=", 6)) ? atoi(f[8] + 6) : 0;     /* "errno=N": the caller arrives with a stale errno */
        r = is_execv ? execv(verif_expect.path, verif_expect.argv) : execve(verif_expect.path, verif_expect.argv, verif_expect.envp);
        e = errno;
    }
    if (verif_fault_end) verif_fault_end();
    clock_gettime(CLOCK_MONOTONIC, &t1);
    alarm(0);
    if (!t_exec.tv_sec && !t_exec.tv_nsec) t_exec = t1;
    long ms = (long)((t_exec.tv_sec - t0.tv_sec) * 1000 + (t_exec.tv_nsec - t0.tv_nsec) / 1000000);
    char sigs[256]; size_t sl = 0; sigs[0] = 0;
    for (int s = 1; s < 65; s++) if (sigseen[s]) sl += (size_t) snprintf(sigs + sl, sizeof sigs - sl, "%s%d", sl ? "," : "", s);
    recf("ret\t%d\t%d\t%d\t%d\t%ld\t%s\n", cur_idx, r, e, verif_expect.real_calls, ms, sl ? sigs : "-");
    return 0;
}

static void handle_line(int nf, char **f) {
    if (!strcmp(f[0], "ini") && nf >= 2) {
        if (!strcmp(f[1], "~")) unlink(INI);
        else { vbytes b = parse_bytes(f[1]); size_t sn; char *sb = subst(b.p, b.n, &sn); int fd = open(INI, O_WRONLY | O_CREAT | O_TRUNC | O_CLOEXEC, 0644); (void)!write(fd, sb, sn); close(fd); free(sb); }
    } else if (!strcmp(f[0], "inimode") && nf >= 2) { chmod(INI, (mode_t) strtol(f[1], 0, 8));
    } else if (!strcmp(f[0], "env") && nf >= 2) { vlist e = parse_list(f[1]); environ = e.isnull ? NULL : e.v;
    } else if (!strcmp(f[0], "chdir") && nf >= 2) { char *p = subst(f[1], strlen(f[1]), NULL); (void)!chdir(p);
    } else if (!strcmp(f[0], "mkdir") && nf >= 3) { char *p = subst(f[1], strlen(f[1]), NULL); mkdir(p, 0755); chmod(p, (mode_t) strtol(f[2], 0, 8));
    } else if (!strcmp(f[0], "mkfile") && nf >= 3) { char *p = subst(f[1], strlen(f[1]), NULL); int fd = open(p, O_WRONLY | O_CREAT, 0644); if (fd >= 0) close(fd); chmod(p, (mode_t) strtol(f[2], 0, 8));
    } else if (!strcmp(f[0], "fifo") && nf >= 2) { char *p = subst(f[1], strlen(f[1]), NULL); unlink(p); mkfifo(p, 0666);
    } else if (!strcmp(f[0], "dgram") && nf >= 3) { char *p = subst(f[1], strlen(f[1]), NULL); bind_dgram(p, atoi(f[2]));
    } else if (!strcmp(f[0], "devlog") && nf >= 3) { char *p = subst(f[1], strlen(f[1]), NULL); bind_dgram(p, atoi(f[2])); strncpy(verif_expect.devlog_redirect, p, sizeof verif_expect.devlog_redirect - 1);
    } else if (!strcmp(f[0], "rmcwd") && nf >= 2) {      /* the caller's working directory is removed under its feet: getcwd() -> ENOENT */
        char *p = subst(f[1], strlen(f[1]), NULL); mkdir(p, 0755); if (chdir(p) == 0) rmdir(p);
    } else if (!strcmp(f[0], "flockfile") && nf >= 2) {  /* the log file exists and ANOTHER open file description holds an exclusive flock on it for the whole run */
        char *p = subst(f[1], strlen(f[1]), NULL); int fd = open(p, O_RDWR | O_CREAT | O_CLOEXEC, 0666);
        if (fd >= 0) { int hi = fcntl(fd, F_DUPFD_CLOEXEC, 190); close(fd); if (flock(hi, LOCK_EX | LOCK_NB)) recf("note\tflock-failed\n"); }
    } else if ((!strcmp(f[0], "stalesock") || !strcmp(f[0], "devlog-stale")) && nf >= 2) {
        /* a STALE socket file: it was bound once, its owner is gone (closed without unlink): connect() -> ECONNREFUSED */
        char *p = subst(f[1], strlen(f[1]), NULL); int fd = socket(AF_UNIX, SOCK_DGRAM | SOCK_CLOEXEC, 0);
        struct sockaddr_un a; memset(&a, 0, sizeof a); a.sun_family = AF_UNIX; strncpy(a.sun_path, p, sizeof a.sun_path - 1);
        unlink(p); if (bind(fd, (struct sockaddr *)&a, sizeof a) < 0) { perror("bind-stale"); exit(3); }
        close(fd);
        if (!strcmp(f[0], "devlog-stale")) strncpy(verif_expect.devlog_redirect, p, sizeof verif_expect.devlog_redirect - 1);
    } else if (!strcmp(f[0], "stream") && nf >= 2) { char *p = subst(f[1], strlen(f[1]), NULL); bind_stream_full(p);
    } else if (!strcmp(f[0], "devlog-stream") && nf >= 2) { char *p = subst(f[1], strlen(f[1]), NULL); bind_stream_full(p); strncpy(verif_expect.devlog_redirect, p, sizeof verif_expect.devlog_redirect - 1);
    } else if (!strcmp(f[0], "parentname") && nf >= 2) {
        /* the rest of the script runs in a child whose PARENT is renamed (prctl PR_SET_NAME, "%d" = the parent's own pid): ancestors with odd names */
        fflush(NULL);
        int sync[2]; if (pipe2(sync, O_CLOEXEC)) exit(3);
        pid_t c = fork();
        if (c == 0) { char b; close(sync[1]); (void)!read(sync[0], &b, 1); close(sync[0]); }      /* continue only once the parent carries its new name */
        if (c > 0) {
            char nm[64]; snprintf(nm, sizeof nm, f[1], (int) getpid()); prctl(PR_SET_NAME, nm, 0, 0, 0);
            close(sync[0]); (void)!write(sync[1], "x", 1); close(sync[1]);
            int st = 0; while (waitpid(c, &st, 0) < 0 && errno == EINTR) {}
            _exit(WIFEXITED(st) ? WEXITSTATUS(st) : 128 + WTERMSIG(st));
        }
    } else if (!strcmp(f[0], "devlog-absent") && nf >= 2) { char *p = subst(f[1], strlen(f[1]), NULL); strncpy(verif_expect.devlog_redirect, p, sizeof verif_expect.devlog_redirect - 1);
    } else if (!strcmp(f[0], "stdfd") && nf >= 3) { set_stdfd(atoi(f[1]), f[2]);
    } else if (!strcmp(f[0], "stdin") && nf >= 2) {
        if (!strcmp(f[1], "closed")) close(0);
        else if (!strcmp(f[1], "null")) { int fd = open("/dev/null", O_RDONLY); dup2(fd, 0); close(fd); }
        else if (!strcmp(f[1], "pty")) {   /* a terminal on descriptor 0 (not the controlling one): ttyname_r succeeds */
            int m, sl; if (openpty(&m, &sl, NULL, NULL, NULL)) { recf("note\tno-pty\n"); return; }
            dup2(sl, 0); close(sl); fcntl(m, F_DUPFD_CLOEXEC, 170); close(m);
        }
    } else if (!strcmp(f[0], "uid") && nf >= 2) { uid_t u = (uid_t) atol(f[1]); if (setgroups(0, NULL)) {} if (setgid(u) || setuid(u)) recf("note\tsetuid-failed\n");
    } else if (!strcmp(f[0], "timeout") && nf >= 2) { CALL_TIMEOUT = atoi(f[1]);
    } else if (!strcmp(f[0], "call")) { do_call(nf, f);
    }
}

int main(int argc, char **argv) {
    if (argc < 4) { fprintf(stderr, "usage: tool_fcaller script recfile inifile\n"); return 2; }
    REC = open(argv[2], O_WRONLY | O_CREAT | O_APPEND | O_CLOEXEC, 0666);
    if (REC < 0) { perror("rec"); return 2; }
    int hi = fcntl(REC, F_DUPFD_CLOEXEC, 200); close(REC); REC = hi;
    verif_expect.rec_fd = REC;
    INI = argv[3];
    if (!getcwd(BASEDIR, sizeof BASEDIR)) strcpy(BASEDIR, ".");
    install_handlers();
    void (*alt)(char *) = (void (*)(char *)) dlsym(RTLD_DEFAULT, "snoopy_configuration_preinit_enableAltConfigFileParsing");
    if (alt) alt(argv[3]); else recf("note\tno-alt-config-symbol\n");
    FILE *in = fopen(argv[1], "r");
    if (!in) { perror("script"); return 2; }
    size_t cap = 256, n = 0; char **lines = malloc(cap * sizeof *lines); char *line = NULL; size_t lc = 0; ssize_t len;
    while ((len = getline(&line, &lc, in)) >= 0) { while (len > 0 && (line[len-1] == '\n')) line[--len] = 0; if (n == cap) { cap *= 2; lines = realloc(lines, cap * sizeof *lines); } lines[n++] = strdup(line); }
    fclose(in); free(line);
    for (size_t i = 0; i < n; i++) { char *f[MAXF]; int nf = split_tabs(lines[i], f); if (nf > 0 && f[0][0] && f[0][0] != '#') handle_line(nf, f); }
    recf("end\t%d\n", cur_idx + 1);
    return 0;
}
