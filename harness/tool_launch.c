/* Starts a program in a chosen initial process state (C20 tie):
 *   tool_launch [--close FD]... [--fsize BYTES] [--uid N] -- program args...
 * --uid N        the program runs as user and group N (a caller who is not root)
 * --close FD     the descriptor is closed before the exec (a daemon / cron style start without stdin, stdout or stderr)
 * --fsize BYTES  RLIMIT_FSIZE = BYTES with SIGXFSZ ignored: a write(2) that would cross the limit is cut short (returns the
 *                number of bytes that still fit) and the next one fails with EFBIG - real partial writes, which strace cannot inject. */
#define _GNU_SOURCE
#include <stdio.h>
#include <stdlib.h>
#include <string.h>
#include <signal.h>
#include <unistd.h>
#include <sys/resource.h>
#include <grp.h>

int main(int argc, char **argv) {
    int i = 1;
    int toclose[16], nclose = 0;
    long fsize = -1, uid = -1;
    for (; i < argc; i++) {
        if (!strcmp(argv[i], "--")) { i++; break; }
        if (!strcmp(argv[i], "--close") && i + 1 < argc) { if (nclose < 16) toclose[nclose++] = atoi(argv[++i]); }
        else if (!strcmp(argv[i], "--fsize") && i + 1 < argc) fsize = atol(argv[++i]);
        else if (!strcmp(argv[i], "--uid") && i + 1 < argc) uid = atol(argv[++i]);
        else { fprintf(stderr, "tool_launch: bad argument %s\n", argv[i]); return 2; }
    }
    if (i >= argc) { fprintf(stderr, "usage: tool_launch [--close FD]... [--fsize BYTES] -- program args...\n"); return 2; }
    if (fsize >= 0) {
        struct rlimit rl = { (rlim_t)fsize, (rlim_t)fsize };
        signal(SIGXFSZ, SIG_IGN);
        if (setrlimit(RLIMIT_FSIZE, &rl)) { perror("setrlimit"); return 2; }
    }
    if (uid >= 0) {
        if (setgroups(0, NULL) || setgid((gid_t)uid) || setuid((uid_t)uid)) { perror("setuid"); return 2; }
    }
    for (int k = 0; k < nclose; k++) close(toclose[k]);
    execv(argv[i], argv + i);
    return 126;
}
