/* tool_lifemt — overlapping wrapped calls from three threads (C16: what the thread repository keeps).
 *   LD_PRELOAD="liballoc.so <libsnoopy.so> liblifegate.so" tool_lifemt <recfile> <inifile> <rounds> <order>
 * <inifile> configures  output = file:<dir>/gate.log ; liblifegate parks each thread inside its call (at the output's open()).
 * Per round: thread 0 enters its call and parks, then thread 1, then thread 2 (so their repository entries are first / middle / last);
 * then they are released in <order> ("102": middle first, then first, then last; "012", "210", ...; "all": together) and joined.
 * After the warm-up call and after every round a line  mark<TAB><label>  is written and liballoc reports the live blocks (its mallinfo2 hook). */
#define _GNU_SOURCE
#include <dlfcn.h>
#include <errno.h>
#include <fcntl.h>
#include <malloc.h>
#include <pthread.h>
#include <signal.h>
#include <stdio.h>
#include <stdlib.h>
#include <string.h>
#include <unistd.h>
#include "verif_shared.h"

extern char **environ;
struct verif_expect verif_expect;       /* found by liballoc (rec_fd) */
void lifegate_set_id(int) __attribute__((weak));
void lifegate_reset(void) __attribute__((weak));
void lifegate_wait_arrived(int) __attribute__((weak));
void lifegate_release(unsigned) __attribute__((weak));

static void mark(const char *l, int n) { char b[64]; int k = snprintf(b, sizeof b, "mark\t%s\t%d\n", l, n); (void)!write(verif_expect.rec_fd, b, (size_t)k); (void) mallinfo2(); }

static unsigned long long maskbits(void) { sigset_t s; pthread_sigmask(SIG_SETMASK, NULL, &s); unsigned long long m = 0; for (int i = 1; i < 64; i++) if (sigismember(&s, i)) m |= 1ULL << i; return m; }
static int ROUND;
/* every worker has its own signal mask (SIGUSR1 / SIGUSR2 / SIGWINCH blocked) and must get it back:   mask<TAB>round<TAB>id<TAB>before<TAB>after */
static void *worker(void *p) {
    int id = (int)(long) p;
    static const int sig[3] = { SIGUSR1, SIGUSR2, SIGWINCH };
    sigset_t s; sigemptyset(&s); sigaddset(&s, sig[id % 3]); pthread_sigmask(SIG_SETMASK, &s, NULL);
    unsigned long long before = maskbits();
    lifegate_set_id(id);
    char a0[16]; snprintf(a0, sizeof a0, "T%d", id);
    char *argv[] = { a0, "arg", NULL };
    execve("/nonexistent/prog", argv, environ);
    unsigned long long after = maskbits();
    char b[96]; int k = snprintf(b, sizeof b, "mask\t%d\t%d\t%llx\t%llx\n", ROUND, id, before, after); (void)!write(verif_expect.rec_fd, b, (size_t) k);
    return NULL;
}

int main(int argc, char **argv) {
    if (argc < 5 || !lifegate_set_id) { fprintf(stderr, "usage: LD_PRELOAD=... tool_lifemt rec ini rounds order\n"); return 2; }
    int fd = open(argv[1], O_WRONLY | O_CREAT | O_APPEND | O_CLOEXEC, 0644);
    verif_expect.rec_fd = fcntl(fd, F_DUPFD_CLOEXEC, 200); close(fd);
    void (*alt)(char *) = (void (*)(char *)) dlsym(RTLD_DEFAULT, "snoopy_configuration_preinit_enableAltConfigFileParsing");
    if (!alt) { fprintf(stderr, "no alt-config symbol\n"); return 2; }
    alt(argv[2]);
    int rounds = atoi(argv[3]); const char *order = argv[4];
    { char *av[] = { "warm", NULL }; execve("/nonexistent/warm", av, environ); execv("/nonexistent/warm", av); }
    mark("warm", 0);
    for (int r = 1; r <= rounds; r++) {
        pthread_t th[3];
        ROUND = r;
        lifegate_reset();
        for (int i = 0; i < 3; i++) { pthread_create(&th[i], NULL, worker, (void *)(long) i); lifegate_wait_arrived(i + 1); }
        if (!strcmp(order, "all")) { lifegate_release(7u); for (int i = 0; i < 3; i++) pthread_join(th[i], NULL); }
        else for (const char *c = order; *c; c++) { int i = *c - '0'; if (i < 0 || i > 2) continue; lifegate_release(1u << i); pthread_join(th[i], NULL); }
        mark("round", r);
    }
    return 0;
}
