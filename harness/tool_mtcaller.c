/* tool_mtcaller — multi-threaded scripted caller for C09 / C10.
 *   LD_PRELOAD="<libsnoopy.so> <libsched.so>" tool_mtcaller <mode> <ini> <trace> <nthreads> <ncalls> <arg>
 *     mode trace   : free run, sync points logged with their call sites (calibration)            arg: -
 *     mode force   : forced schedule                                                              arg: t0,t1,t2,...
 *     mode stress  : free run, nothing logged but the real-exec records and the returns           arg: -
 *     mode fork    : C10: thread 1 parks after its k-th acquisition, thread 0 forks, the child execs under an alarm
 *                    arg: k[,g]  (g = 1: the child forks a grandchild which execs as well)
 *     mode forkrace: C10: the fork BEGINS before the library has ever been used: a prepare handler of the caller's own
 *                    (registered first, so it is the only one this fork knows) lets thread 1 make the process's first
 *                    wrapped call and waits until it is parked inside its first lock window; then the fork proceeds   arg: -
 * Thread i, call j executes  execve("/nonexistent/T<i>C<j>", {"T<i>C<j>", "a<i>", "<j+1 times 'x'>", NULL}, envp)
 * (odd j: execv).  The "real" exec is libsched's recorder, which fails with ENOENT.
 * Trace lines written here:  ret <thread> <call> <ret> <errno>;  fork <immediate|delayed> ;  child <done|signal N|exit N> ... */
#define _GNU_SOURCE
#include <dlfcn.h>
#include <errno.h>
#include <fcntl.h>
#include <pthread.h>
#include <signal.h>
#include <stdarg.h>
#include <stdio.h>
#include <stdlib.h>
#include <string.h>
#include <unistd.h>
#include <sys/wait.h>
#include <sys/syscall.h>

extern char **environ;
static int TR = -1;
static int NCALLS = 1;
static int MODE_FORCE_ON = 0;

static void (*p_setup)(int, int, const char *, int, int);
static void (*p_begin)(int);
static void (*p_point)(int);
static void (*p_end)(void);
static void (*p_set_call)(int);
static int (*p_parked)(void);
static int (*p_released)(void);
static void (*p_fork_returned)(void);
static void (*p_detach)(void);
static int (*p_mismatch)(void);
static int (*p_pos)(void);
static void (*p_quiet)(int);
static volatile int QUIET = 0, STOP = 0;

static void trf(const char *fmt, ...) {
    char buf[512]; va_list ap; va_start(ap, fmt); int n = vsnprintf(buf, sizeof buf, fmt, ap); va_end(ap);
    if (n > 0) (void)!write(TR, buf, (size_t) n);
}

static void one_call(int i, int j) {
    char path[64], a0[32], a1[32], a2[64];
    snprintf(path, sizeof path, "/nonexistent/T%dC%d", i, j);
    snprintf(a0, sizeof a0, "T%dC%d", i, j);
    snprintf(a1, sizeof a1, "a%d", i);
    int n = j + 1; if (n > 60) n = 60; memset(a2, 'x', (size_t) n); a2[n] = 0;
    char *argv[] = { a0, a1, a2, NULL };
    if (p_set_call) p_set_call(j);
    errno = 0;
    int r = (j & 1) ? execv(path, argv) : execve(path, argv, environ);
    int e = errno;
    if (!QUIET) trf("ret\t%d\t%d\t%d\t%d\n", i, j, r, e);
}

static void *worker(void *arg) {
    int i = (int)(long) arg;
    if (p_begin) p_begin(i);
    for (int j = 0; j < NCALLS; j++) {
        if (MODE_FORCE_ON && p_point) p_point('S');
        one_call(i, j);
    }
    if (p_end) p_end();
    return NULL;
}

static unsigned wd(unsigned dflt) { const char *e = getenv("MT_ALARM"); return (e && atoi(e) > 0) ? (unsigned) atoi(e) : dflt; }
static int mk_thread(pthread_t *t, void *(*fn)(void *), void *arg) {
    const char *e = getenv("MT_STACK_KB");
    if (e && atoi(e) > 0) {
        pthread_attr_t a; pthread_attr_init(&a); pthread_attr_setstacksize(&a, (size_t) atoi(e) * 1024);
        int r = pthread_create(t, &a, fn, arg); pthread_attr_destroy(&a); return r;
    }
    return pthread_create(t, NULL, fn, arg);
}
static void on_alarm(int sig) {
    (void) sig;
    static const char msg[] = "stuck\n";
    (void)!write(TR, msg, sizeof msg - 1);
    _exit(3);
}

static volatile int race_go;
static void race_prepare(void) {
    /* runs inside fork(), before the library under test has registered anything */
    race_go = 1;
    long w = 0; while (!p_parked() && w < 15000000) { usleep(200); w += 200; }
    trf("own-prepare\t%s\n", p_parked() ? "worker-parked" : "worker-not-parked");
}
static void *race_worker(void *arg) {
    (void) arg;
    if (p_begin) p_begin(1);
    while (!race_go) usleep(100);
    one_call(1, 0);
    return NULL;
}

/* sigfork: the handler of the signal that interrupts a lock window forks; the child execs under an alarm */
static void on_usr1(int sig) {
    (void) sig;
    pid_t pid = fork();
    if (pid == 0) { if (p_detach) p_detach(); signal(SIGALRM, SIG_DFL); alarm(5); one_call(0, 100); alarm(0); trf("child\tdone\n"); _exit(0); }
    trf("fork\treturned\n");
    int st; waitpid(pid, &st, 0);
    if (WIFSIGNALED(st)) trf("child\tsignal\t%d\n", WTERMSIG(st));
    else if (WEXITSTATUS(st)) trf("child\texit\t%d\n", WEXITSTATUS(st));
}
static void *loop_worker(void *arg) {
    int i = (int)(long) arg;
    for (int j = 0; !STOP; j++) one_call(i, j % 3);
    return NULL;
}

static void child_exec_and_report(const char *who, int call, int grand) {
    /* in a forked child: one thread, no scheduling control; the exec call must complete within the alarm */
    if (p_detach) p_detach();
    signal(SIGALRM, SIG_DFL);
    alarm(5);
    one_call(0, call);
    alarm(0);
    trf("%s\tdone\n", who);
    if (grand) {
        pid_t g = fork();
        if (g == 0) { signal(SIGALRM, SIG_DFL); alarm(5); one_call(0, call + 1); alarm(0); trf("grandchild\tdone\n"); _exit(0); }
        int st; waitpid(g, &st, 0);
        if (WIFSIGNALED(st)) trf("grandchild\tsignal\t%d\n", WTERMSIG(st));
        else if (WEXITSTATUS(st)) trf("grandchild\texit\t%d\n", WEXITSTATUS(st));
    }
    _exit(0);
}

int main(int argc, char **argv) {
    if (argc < 7) { fprintf(stderr, "usage: tool_mtcaller mode ini trace nthreads ncalls arg\n"); return 2; }
    const char *mode = argv[1];
    TR = open(argv[3], O_WRONLY | O_CREAT | O_APPEND | O_CLOEXEC, 0644);
    if (TR < 0) { perror("trace"); return 2; }
    int hi = fcntl(TR, F_DUPFD_CLOEXEC, 200); close(TR); TR = hi;
    int nthreads = atoi(argv[4]); NCALLS = atoi(argv[5]);
    p_setup = (void (*)(int, int, const char *, int, int)) dlsym(RTLD_DEFAULT, "sched_setup");
    p_begin = (void (*)(int)) dlsym(RTLD_DEFAULT, "sched_thread_begin");
    p_point = (void (*)(int)) dlsym(RTLD_DEFAULT, "sched_point");
    p_end = (void (*)(void)) dlsym(RTLD_DEFAULT, "sched_thread_end");
    p_set_call = (void (*)(int)) dlsym(RTLD_DEFAULT, "sched_set_call");
    p_parked = (int (*)(void)) dlsym(RTLD_DEFAULT, "sched_parked");
    p_released = (int (*)(void)) dlsym(RTLD_DEFAULT, "sched_released");
    p_fork_returned = (void (*)(void)) dlsym(RTLD_DEFAULT, "sched_fork_returned");
    p_detach = (void (*)(void)) dlsym(RTLD_DEFAULT, "sched_detach");
    p_mismatch = (int (*)(void)) dlsym(RTLD_DEFAULT, "sched_mismatch");
    p_pos = (int (*)(void)) dlsym(RTLD_DEFAULT, "sched_pos");
    p_quiet = (void (*)(int)) dlsym(RTLD_DEFAULT, "sched_quiet");
    if (!p_setup) { fprintf(stderr, "libsched.so is not loaded\n"); return 2; }
    void (*alt)(char *) = (void (*)(char *)) dlsym(RTLD_DEFAULT, "snoopy_configuration_preinit_enableAltConfigFileParsing");
    if (alt) alt(argv[2]); else trf("note\tno-alt-config-symbol\n");
    signal(SIGALRM, on_alarm);

    if (!strcmp(mode, "fork")) {
        int k = atoi(argv[6]); int grand = strchr(argv[6], ',') ? atoi(strchr(argv[6], ',') + 1) : 0;
        p_setup(3, TR, "-", k, 150);
        p_begin(0);
        pthread_t th; pthread_create(&th, NULL, worker, (void *)(long) 1);
        alarm(60);
        /* wait until the second thread is parked inside its k-th lock window (or has finished: k beyond the last window) */
        long waited = 0;
        while (!p_parked() && waited < 15000000) { usleep(500); waited += 500; }
        if (!p_parked()) { trf("fork\tnot-parked\n"); pthread_join(th, NULL); trf("end-main\n"); return 0; }
        pid_t pid = fork();
        if (pid == 0) child_exec_and_report("child", 100, grand);
        int rel = p_released();
        p_fork_returned();
        trf("fork\t%s\n", rel ? "delayed" : "immediate");
        int st; waitpid(pid, &st, 0);
        if (WIFSIGNALED(st)) trf("child\tsignal\t%d\n", WTERMSIG(st));
        else if (WEXITSTATUS(st)) trf("child\texit\t%d\n", WEXITSTATUS(st));
        pthread_join(th, NULL);
        /* the parent is unaffected: a later call of the forking thread completes */
        one_call(0, 200);
        trf("end-main\n");
        return 0;
    }

    if (!strcmp(mode, "sigfork")) {
        /* thread 1 makes one wrapped call; right after its k-th acquisition of the repository mutex SIGUSR1 arrives on it, the handler forks */
        int k = atoi(argv[6]);
        p_setup(4, TR, "-", k, 0);
        p_begin(0);
        signal(SIGUSR1, on_usr1);
        alarm(12);                       /* a fork() that never returns ends here: "stuck" */
        pthread_t th; pthread_create(&th, NULL, worker, (void *)(long) 1);
        pthread_join(th, NULL);
        trf("end-main\n");
        return 0;
    }
    if (!strcmp(mode, "forkstress")) {
        /* nthreads threads make wrapped calls in a loop, the main thread forks <arg> times; every child execs under a 5 s alarm */
        int forks = atoi(argv[6]);
        p_setup(0, TR, "-", 0, 0);
        QUIET = 1; if (p_quiet) p_quiet(1);
        alarm(wd(600));
        pthread_t *th = calloc((size_t) nthreads, sizeof *th);
        for (int i = 0; i < nthreads; i++) pthread_create(&th[i], NULL, loop_worker, (void *)(long)(i + 1));
        usleep(20000);
        int blocked = -1, f;
        for (f = 0; f < forks && blocked < 0; f++) {
            pid_t pid = fork();
            if (pid == 0) { signal(SIGALRM, SIG_DFL); alarm(5); one_call(0, 0); _exit(0); }
            int st; waitpid(pid, &st, 0);
            if (WIFSIGNALED(st) || WEXITSTATUS(st)) { blocked = f; trf("forkstress\tchild\t%d\t%s\t%d\n", f, WIFSIGNALED(st) ? "signal" : "exit", WIFSIGNALED(st) ? WTERMSIG(st) : WEXITSTATUS(st)); }
            usleep(300);
        }
        STOP = 1;
        for (int i = 0; i < nthreads; i++) pthread_join(th[i], NULL);
        trf("forkstress\tdone\t%d\n", f);
        trf("end-main\n");
        return 0;
    }
    if (!strcmp(mode, "forkrace")) {
        p_setup(3, TR, "-", 1, 150);
        p_begin(0);
        pthread_atfork(race_prepare, NULL, NULL);
        pthread_t th; pthread_create(&th, NULL, race_worker, NULL);
        alarm(60);
        pid_t pid = fork();
        if (pid == 0) child_exec_and_report("child", 100, 0);
        int rel = p_released();
        p_fork_returned();
        trf("fork\t%s\n", rel ? "delayed" : "immediate");
        int st; waitpid(pid, &st, 0);
        if (WIFSIGNALED(st)) trf("child\tsignal\t%d\n", WTERMSIG(st));
        else if (WEXITSTATUS(st)) trf("child\texit\t%d\n", WEXITSTATUS(st));
        pthread_join(th, NULL);
        one_call(0, 200);
        trf("end-main\n");
        return 0;
    }

    int m = !strcmp(mode, "trace") ? 1 : !strcmp(mode, "force") ? 2 : 0;
    MODE_FORCE_ON = (m == 2) || (m == 1);
    p_setup(m, TR, argv[6], 0, 0);
    alarm(wd(m == 2 ? 15 : 120));
    pthread_t *th = calloc((size_t) nthreads, sizeof *th);
    for (int i = 0; i < nthreads; i++) mk_thread(&th[i], worker, (void *)(long) i);
    for (int i = 0; i < nthreads; i++) pthread_join(th[i], NULL);
    if (m == 2) trf("finished\t%d\t%d\n", p_pos ? p_pos() : -1, p_mismatch ? p_mismatch() : -1);
    if (m != 1) {
        /* all calls have returned: a later lone call must see exactly one registered thread */
        trf("tid\t99\t%ld\n", (long) syscall(SYS_gettid));
        one_call(99, 0);
    }
    trf("end-main\n");
    return 0;
}
