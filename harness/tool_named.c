/* tool_named — become a process with the given kernel name (comm), then run the rest of the command line in a CHILD and wait
 * for it: the named process stays an ancestor of everything the command starts.  tool_named <name> <program> [args...]
 * (comm is reset by execve, so the named process itself must not exec.)  Not preloaded: it execs for real. */
#define _GNU_SOURCE
#include <stdio.h>
#include <stdlib.h>
#include <unistd.h>
#include <sys/prctl.h>
#include <sys/wait.h>

int main(int argc, char **argv) {
    if (argc < 3) { fprintf(stderr, "usage: tool_named name program [args]\n"); return 2; }
    if (prctl(PR_SET_NAME, argv[1], 0, 0, 0) != 0) { perror("tool_named: PR_SET_NAME"); return 3; }
    pid_t pid = fork();
    if (pid < 0) { perror("tool_named: fork"); return 3; }
    if (pid == 0) { execv(argv[2], argv + 2); perror("tool_named: execv"); _exit(3); }
    int st; if (waitpid(pid, &st, 0) < 0) return 3;
    return WIFEXITED(st) ? WEXITSTATUS(st) : 128 + WTERMSIG(st);
}
