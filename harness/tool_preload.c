/* Implementation-side driver for C18/C19/C20: runs the REAL snoopyctl (built from the snapshot) on
 * scripted ld.so.preload contents.
 *
 *   tool_preload <snoopyctl> <workdir>          < cases > results
 *
 * case:    run <TAB> path(hex) <TAB> content(hex | "-" empty | "~" absent) <TAB> ops     ops in {e,d,s}*
 * result:  ok <TAB> rc:after ...   one field per op;  after = file state (hex | - | ~), for `s` the hex of the
 *          "/etc/ld.so.preload:" line snoopyctl printed ("-" when there is none)
 *          a snoopyctl that dies on a signal gives "crash:<sig>", a sanitizer report "san" in place of rc.
 *
 * snoopyctl runs with cwd = workdir, SNOOPY_TEST_LD_SO_PRELOAD_PATH=ld.so.preload and
 * SNOOPY_TEST_LIBSNOOPY_SO_PATH=<path>; a relative library path is created (empty file) under workdir.
 * Nothing address-, pid- or time-dependent is printed. */
#include "common.h"
#include <fcntl.h>
#include <sys/stat.h>
#include <spawn.h>

extern char **environ;
static const char *ctl;
#define PRELOAD "ld.so.preload"

static void mkparents(const char *rel) {
    char *d = strdup(rel);
    for (char *p = d + 1; *p; p++) if (*p == '/') { *p = 0; mkdir(d, 0777); *p = '/'; }
    free(d);
}

static void ensure_lib(const char *path) {
    if (path[0] == '/' || !path[0]) return;          /* absolute paths must exist already */
    if (access(path, R_OK) == 0) return;
    mkparents(path);
    int fd = open(path, O_WRONLY | O_CREAT, 0644);
    if (fd >= 0) close(fd);
}

static char *slurp(const char *p, size_t *n) {
    int fd = open(p, O_RDONLY);
    if (fd < 0) { *n = 0; return NULL; }
    size_t cap = 4096, len = 0; char *b = malloc(cap + 1);
    for (;;) {
        if (len == cap) { cap *= 2; b = realloc(b, cap + 1); }
        ssize_t r = read(fd, b + len, cap - len);
        if (r <= 0) break;
        len += (size_t)r;
    }
    close(fd); b[len] = 0; *n = len;
    return b;
}

static void set_file(vbytes c) {
    if (c.isnull) { unlink(PRELOAD); return; }
    int fd = open(PRELOAD, O_WRONLY | O_CREAT | O_TRUNC, 0644);
    if (fd < 0) { perror("open preload"); exit(2); }
    size_t off = 0;
    while (off < c.n) { ssize_t w = write(fd, c.p + off, c.n - off); if (w <= 0) { perror("write"); exit(2); } off += (size_t)w; }
    close(fd);
}

/* returns rc (0..255), or -sig */
static int run_ctl(const char *action, const char *libpath) {
    char e1[64], *e2;
    snprintf(e1, sizeof e1, "SNOOPY_TEST_LD_SO_PRELOAD_PATH=%s", PRELOAD);
    if (asprintf(&e2, "SNOOPY_TEST_LIBSNOOPY_SO_PATH=%s", libpath) < 0) exit(2);
    char *envp[] = { e1, e2, "PATH=/usr/bin:/bin", "ASAN_OPTIONS=detect_leaks=0:exitcode=77:abort_on_error=0",
                     "UBSAN_OPTIONS=halt_on_error=1:exitcode=78", NULL };
    char *argv[] = { (char *)ctl, (char *)action, NULL };
    posix_spawn_file_actions_t fa;
    posix_spawn_file_actions_init(&fa);
    posix_spawn_file_actions_addopen(&fa, 0, "/dev/null", O_RDONLY, 0);
    posix_spawn_file_actions_addopen(&fa, 1, "out.txt", O_WRONLY | O_CREAT | O_TRUNC, 0644);
    posix_spawn_file_actions_addopen(&fa, 2, "err.txt", O_WRONLY | O_CREAT | O_TRUNC, 0644);
    pid_t pid;
    int r = posix_spawn(&pid, ctl, &fa, NULL, argv, envp);
    posix_spawn_file_actions_destroy(&fa);
    free(e2);
    if (r != 0) { fprintf(stderr, "posix_spawn %s: %s\n", ctl, strerror(r)); exit(2); }
    int st;
    if (waitpid(pid, &st, 0) < 0) { perror("waitpid"); exit(2); }
    if (WIFSIGNALED(st)) return -WTERMSIG(st);
    return WEXITSTATUS(st);
}

static void put_rc(FILE *o, int rc) {
    if (rc < 0) fprintf(o, "crash:%d", -rc);
    else if (rc == 77 || rc == 78) fprintf(o, "san");
    else fprintf(o, "%d", rc);
}

static void handle(int nf, char **f, FILE *o) {
    if (nf != 4 || strcmp(f[0], "run")) { fputs("driver-error:bad-case", o); return; }
    vbytes path = parse_bytes(f[1]);
    vbytes content = parse_bytes(f[2]);
    ensure_lib(path.p);
    set_file(content);
    unlink(PRELOAD ".snoopyctl-tmp");
    fputs("ok", o);
    for (const char *op = f[3]; *op; op++) {
        fputc('\t', o);
        if (*op == 'e' || *op == 'd') {
            int rc = run_ctl(*op == 'e' ? "enable" : "disable", path.p);
            put_rc(o, rc); fputc(':', o);
            size_t n; char *b = slurp(PRELOAD, &n);
            put_hex(o, b, n); free(b);
        } else if (*op == 's') {
            int rc = run_ctl("status", path.p);
            put_rc(o, rc); fputc(':', o);
            size_t n; char *b = slurp("out.txt", &n);
            const char *key = "/etc/ld.so.preload:";
            char *l = b ? strstr(b, key) : NULL;
            if (l && (l == b || l[-1] == '\n')) { char *e = strchr(l, '\n'); put_hex(o, l, e ? (size_t)(e - l) : strlen(l)); }
            else fputs("-", o);
            free(b);
        } else fputs("driver-error:bad-op", o);
    }
    free(path.p); free(content.p);
}

int main(int argc, char **argv) {
    if (argc < 3) { fprintf(stderr, "usage: tool_preload <snoopyctl> <workdir>\n"); return 2; }
    ctl = argv[1];
    if (chdir(argv[2])) { perror("chdir"); return 2; }
    /* sequential, in-process: snoopyctl itself is the forked child; run_cases' own worker isolation is not needed */
    char *line = 0; size_t cap = 0; ssize_t len;
    while ((len = getline(&line, &cap, stdin)) >= 0) {
        while (len > 0 && (line[len-1] == '\n' || line[len-1] == '\r')) line[--len] = 0;
        char *f[MAXF]; int nf = split_tabs(line, f);
        handle(nf, f, stdout);
        fputc('\n', stdout);
    }
    fflush(stdout);
    return 0;
}
