/* tool_runas — start a program under a given uid (real = effective = saved, so that the dynamic loader
 * is not in secure mode and honours LD_PRELOAD) with a pty slave or /dev/null on stdin.
 *   tool_runas <uid> <tty:0|1> <LD_PRELOAD value or -> <program> [args...]
 * Must itself be started WITHOUT the preload (it execs for real).  The pty master stays open in the
 * started program (inherited, high descriptor) so that the slave remains a live terminal. */
#define _GNU_SOURCE
#include <fcntl.h>
#include <grp.h>
#include <pty.h>
#include <stdio.h>
#include <stdlib.h>
#include <string.h>
#include <unistd.h>

int main(int argc, char **argv) {
    if (argc < 5) { fprintf(stderr, "usage: tool_runas uid tty preload program [args]\n"); return 2; }
    uid_t uid = (uid_t) strtoul(argv[1], 0, 10);
    if (!strcmp(argv[2], "1")) {
        int m, s;
        if (openpty(&m, &s, NULL, NULL, NULL) != 0) { fprintf(stderr, "tool_runas: no pty\n"); return 3; }
        int hi = fcntl(m, F_DUPFD, 250); close(m); (void) hi;
        dup2(s, 0); if (s != 0) close(s);
    } else {
        int fd = open("/dev/null", O_RDONLY); dup2(fd, 0); if (fd != 0) close(fd);
    }
    /* real gid != real uid (4242 is no uid of any run), no supplementary groups */
    if (setgroups(0, NULL) != 0 || setresgid(4242, 4242, 4242) != 0) { perror("tool_runas: setresgid"); return 3; }
    if (setresuid(uid, uid, uid) != 0) { perror("tool_runas: setresuid"); return 3; }
    if (strcmp(argv[3], "-")) setenv("LD_PRELOAD", argv[3], 1);
    execv(argv[4], argv + 4);
    perror("tool_runas: execv");
    return 3;
}
