/* tool_uidhist — one process image, several exec calls with the real uid (and gid) CHANGED between them.
 *   LD_PRELOAD="<libsnoopy.so> <librecorder.so>" tool_uidhist <inifile> <logfile> <uid[:gid],uid[:gid],...>
 * Started as root.  For every entry: setresgid/setresuid(id, id, saved 0) so that the next entry can change again, then one
 * execv() (the recorder behind libsnoopy returns -1: the call comes back), then the growth of <logfile> (the file output's
 * sink, pre-created world-writable by the harness) is printed: "<uid>\t<gid>\t<bytes appended>\t<ret>\t<errno>".
 * What a filter learned about the process in an earlier call (cached getuid(), AT_UID of the image, ...) is stale by then. */
#define _GNU_SOURCE
#include <dlfcn.h>
#include <errno.h>
#include <stdio.h>
#include <stdlib.h>
#include <string.h>
#include <unistd.h>
#include <sys/stat.h>
#include <sys/prctl.h>
#include <pthread.h>
#include <time.h>

/* an entry "uid:gid:t" makes its exec call from a NEW thread; the main thread waits at most 5 s for it ("blocked" otherwise:
 * e.g. a lock the previous, filtered-out call of another thread never released) */
struct tcall { char *mark; int r, e; };
static void *thread_call(void *p) {
    struct tcall *t = p; char *av[] = { t->mark, NULL };
    errno = 0; t->r = execv("/bin/prog", av); t->e = errno; return NULL;
}

static long fsize(const char *p) { struct stat st; return stat(p, &st) == 0 ? (long) st.st_size : 0; }

int main(int argc, char **argv) {
    if (argc < 4) { fprintf(stderr, "usage: tool_uidhist inifile logfile uid[:gid],...\n"); return 2; }
    void (*alt)(char *) = (void (*)(char *)) dlsym(RTLD_DEFAULT, "snoopy_configuration_preinit_enableAltConfigFileParsing");
    if (!alt) { fprintf(stderr, "tool_uidhist: no alt-config symbol (library not preloaded?)\n"); return 3; }
    alt(argv[1]);
    char *list = strdup(argv[3]), *save = NULL;
    int k = 0;
    for (char *tok = strtok_r(list, ",", &save); tok; tok = strtok_r(NULL, ",", &save), k++) {
        unsigned long uid = strtoul(tok, NULL, 10), gid = 4242;
        char *c = strchr(tok, ':'); if (c) gid = strtoul(c + 1, NULL, 10);
        int threaded = c && strchr(c + 1, ':') && strchr(c + 1, ':')[1] == 't';
        if (seteuid(0) != 0) { perror("tool_uidhist: seteuid(0)"); return 3; }
        if (setresgid((gid_t) gid, (gid_t) gid, 0) != 0) { perror("tool_uidhist: setresgid"); return 3; }
        if (setresuid((uid_t) uid, (uid_t) uid, 0) != 0) { perror("tool_uidhist: setresuid"); return 3; }
        prctl(PR_SET_DUMPABLE, 1);
        long before = fsize(argv[2]);
        char mark[64]; snprintf(mark, sizeof mark, "hist-%d-x", k);
        char *av[] = { mark, NULL };
        int r, e;
        if (threaded) {
            struct tcall t = { mark, 0, 0 }; pthread_t th; struct timespec ts;
            pthread_create(&th, NULL, thread_call, &t);
            clock_gettime(CLOCK_REALTIME, &ts); ts.tv_sec += 5;
            if (pthread_timedjoin_np(th, NULL, &ts) != 0) { printf("%lu\t%lu\t%ld\t%d\t%d\n", uid, gid, fsize(argv[2]) - before, -99, 0); fflush(stdout); _exit(0); }
            r = t.r; e = t.e;
        } else {
            errno = 0;
            r = execv("/bin/prog", av);
            e = errno;
        }
        printf("%lu\t%lu\t%ld\t%d\t%d\n", uid, gid, fsize(argv[2]) - before, r, e);
        fflush(stdout);
    }
    return 0;
}
