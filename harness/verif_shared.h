/* Shared between tool_caller (the scripted caller) and librecorder.so (the "real" exec that
 * dlsym(RTLD_NEXT) resolves to because it follows libsnoopy.so in LD_PRELOAD). */
#ifndef VERIF_SHARED_H
#define VERIF_SHARED_H
#include <stddef.h>

#define VERIF_MAX_SINKS 16
enum { SINK_FILE = 1, SINK_PIPE = 2, SINK_DGRAM = 3, SINK_TTY = 4 };

struct verif_sink { int kind; int fd; char name[64]; char path[512]; long offset; };

struct verif_expect {
    const char *path; char *const *argv; char *const *envp;   /* the pointers the caller is about to pass */
    int is_execv;
    int mode;       /* 0: return (ret, err); 1: simulate success: _exit(0) inside the real function */
    int ret, err;
    int call_index;
    int real_calls; /* incremented by the recorder */
    int rec_fd;     /* where both sides log */
    int nsinks;
    struct verif_sink sinks[VERIF_MAX_SINKS];
    char devlog_redirect[512];   /* connect("/dev/log") goes here when non-empty */
};
#endif
