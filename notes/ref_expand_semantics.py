import random, subprocess, sys
random.seed(int(sys.argv[1]))
LLOG=16383; LDS=2047
def ds(name,arg,size):
    if name==b"snoopy_literal": return (False, arg[:size-1])
    if name==b"failure": return (True, b"Artificial datasource failure triggered"[:size-1])
    if name==b"noop": return (False,b"")
    return None
def append(dst, app, cap):
    if cap-len(dst) <= len(app): return dst   # refused
    return dst+app
def expand(fmt, bufsz=LLOG+1, dsbuf=LDS+1):
    out=b""; cur=0
    while True:
        # loop condition: strlen(nextTag)>0 -- emulate: first iteration requires fmt nonempty
        if cur==0 and len(fmt)==0: return out
        i=fmt.find(b"%{",cur)
        if i<0: return append(out, fmt[cur:], bufsz)
        out=append(out, fmt[cur:i], bufsz)
        j=fmt.find(b"}",i)
        if j<0: return append(out, b"[ERROR: Closing data source tag ('}') not found.]", bufsz)
        tag=fmt[i+2:j]
        k=tag.find(b":")
        name,arg=(tag,b"") if k<0 else (tag[:k],tag[k+1:])
        r=ds(name,arg,dsbuf)
        if r is None:
            out=append(out,b"[ERROR: Data source '",bufsz); out=append(out,name,bufsz); out=append(out,b"' not found.]",bufsz); return out
        failed,txt=r
        if failed:
            for piece in (b"[ERROR: Data source '",name,b"' failed with the following error message: '",txt,b"']"): out=append(out,piece,bufsz)
        else: out=append(out,txt,bufsz)
        cur=j+1
def gen():
    parts=[]
    for _ in range(random.randint(0,7)):
        r=random.random()
        if r<0.35: parts.append(b"%{snoopy_literal:"+bytes(random.choice(b"abcXYZ:% {") for _ in range(random.choice([0,1,5,98,99,100,101,500,2046,2047,2048,2049,3000])))+b"}")
        elif r<0.45: parts.append(random.choice([b"%{failure}",b"%{noop}",b"%{failure:x}",b"%{nosuch}",b"%{:}",b"%{}",b"%{snoopy_literal",b"%{failure"]))
        elif r<0.55: parts.append(random.choice([b"%",b"{",b"}",b"%%{",b"%{%{noop}}",b":"]))
        else: parts.append(bytes(random.choice(b"lit ") for _ in range(random.choice([0,1,7,2046,2047,2048,2049,5000,8190,16383]))))
    return b"".join(parts)
bad=0; N=int(sys.argv[2])
for n in range(N):
    f=gen()
    if b"\0" in f or len(f)>120000: continue
    exp=expand(f)
    p=subprocess.run(["/tmp/fx/r/tests/bin/snoopy-test","run","messageformat",f],capture_output=True)
    got=p.stdout[:-1] if p.stdout.endswith(b"\n") else p.stdout
    if got!=exp or p.returncode!=0:
        bad+=1; print("MISMATCH rc",p.returncode,"fmtlen",len(f),"exp",len(exp),"got",len(got), f[:80])
print("bad",bad,"of",N)
