# Reference semantics of lib/inih/src/ini.c as compiled by snoopy (INI_MAX_LINE=1024, stack buffer, multiline, BOM,
# inline ';' comments, start comments ';#', no stop-on-error, no no-value names). Bytes in, handler calls out.
import sys, random, subprocess
MAXLINE=1024; MAX_SECTION=50; MAX_NAME=50
WS=b" \t\n\v\f\r"
def isspace(b): return b in WS
def fgets_chunks(data):
    i=0; n=len(data)
    while i<n:
        j=data.find(b"\n", i, i+MAXLINE-1)
        if j<0: j=min(n, i+MAXLINE-1)
        else: j+=1
        chunk=data[i:j]; i=j
        k=chunk.find(b"\0")
        yield chunk if k<0 else chunk[:k]      # C string view of the buffer
def rstrip(s):
    while s and isspace(s[-1:]): s=s[:-1]
    return s
def lskip(s):
    i=0
    while i<len(s) and isspace(s[i:i+1]): i+=1
    return s[i:]
def find_chars_or_comment(s, chars):
    was_space=False; i=0
    while i<len(s) and not (chars is not None and s[i:i+1] in chars) and not (was_space and s[i:i+1]==b";"):
        was_space=isspace(s[i:i+1]); i+=1
    return i
def parse(data):
    calls=[]; section=b""; prev=b""; lineno=0; error=0
    for line in fgets_chunks(data):
        lineno+=1
        start=line
        if lineno==1 and start[:3]==b"\xef\xbb\xbf": start=start[3:]; bom=3
        else: bom=0
        stripped=rstrip(start)
        s2=lskip(stripped)
        moved = (bom>0) or (len(s2)<len(stripped))      # start > line
        if s2[:1] in (b";",b"#") or s2==b"":
            pass
        elif prev and s2 and moved:
            calls.append((section,prev,s2))
        elif s2[:1]==b"[":
            e=find_chars_or_comment(s2[1:], b"]")
            if s2[1+e:2+e]==b"]":
                section=s2[1:1+e][:MAX_SECTION-1]; prev=b""
            elif not error: error=lineno
        else:
            e=find_chars_or_comment(s2, b"=:")
            if s2[e:e+1] in (b"=",b":") and e<len(s2):
                name=rstrip(s2[:e]); value=s2[e+1:]
                c=find_chars_or_comment(value, None)
                value=value[:c]
                value=rstrip(lskip(value))
                if value[:1]==b'"' and value[-1:]==b'"': value=value[1:-1] if len(value)>=2 else b""
                elif value[:1]==b"'" and value[-1:]==b"'": value=value[1:-1] if len(value)>=2 else b""
                prev=name[:MAX_NAME-1]
                calls.append((section,name,value))
            elif not error: error=lineno
    return calls,error
def hx(b): return "-" if b==b"" else b.hex()
if __name__=="__main__":
    random.seed(int(sys.argv[1])); N=int(sys.argv[2]); bad=0
    atoms=[b"[snoopy]",b"[other]",b"[snoopy",b" [snoopy] ; c",b"; comment",b"# comment",b"",b"  ",b"key = value",b"key=value ; inline",b"key : v:w",b"k = \"quoted\"",b"k = 'q'",b"k = \"",b"k = \"\"",b"k = 'x\"",b"  continuation line",b"\tcont ; not stripped",b"novalue",b"= noname",b"k =",b"k = a;b",b"k = a ;b",b"k=\"a ;b\"",b"\xef\xbb\xbfkey=v",b"x"*1022,b"k="+b"y"*1017,b"k="+b"y"*1018,b"k="+b"z"*1030,b"; "+b"c"*1015+b" k=injected",b"k = v\r",b"[sec] trailing",b"[a]b]",b"k\t=\tv\t"]
    for n in range(N):
        parts=[random.choice(atoms) for _ in range(random.randint(0,8))]
        if random.random()<0.3: parts.insert(0,b"\xef\xbb\xbf"+random.choice(atoms))
        data=b"\n".join(parts)+random.choice([b"\n",b"",b"\r\n"])
        if random.random()<0.2:
            d=bytearray(data)
            for _ in range(random.randint(1,4)):
                if d: d[random.randrange(len(d))]=random.choice(b" =:;#[]\"'\n\tab")
            data=bytes(d)
        open("/tmp/ini/t.ini","wb").write(data)
        out=subprocess.run(["/tmp/ini/drv","/tmp/ini/t.ini"],capture_output=True).stdout.decode().splitlines()
        calls,err=parse(data)
        exp=[f"{hx(s)} {hx(nm)} {hx(v)}" for s,nm,v in calls]+[f"ret {err}"]
        if out!=exp:
            bad+=1
            if bad<=5:
                print("MISMATCH", repr(data)[:200]); 
                for a,b in zip(out+["<end>"]*9,exp+["<end>"]*9):
                    if a!=b: print("  impl:",a[:120]); print("  ref :",b[:120]); break
    print("bad",bad,"of",N)
