import itertools, subprocess, os, sys
S="/tmp/fx/r/src/cli/snoopyctl"; P="/tmp/fx/r/src/.libs/libsnoopy.so"; F="/tmp/fx/pre.test"
env=dict(os.environ, SNOOPY_TEST_LIBSNOOPY_SO_PATH=P, SNOOPY_TEST_LD_SO_PRELOAD_PATH=F)
ALPHA=[b"/lib/foreign.so", b"# comment", b"# uses libsnoopy.so", b"# libsnoopy.so and libsnoopy.so", b"", P.encode(), P.encode()+b" ", P.encode()+b"\t# c", P.encode()+b"#c", P.encode()+b" /lib/other.so", b"/opt/x/libsnoopy.so", P.encode()+b".bak", b"/pre"+P.encode(), b"/lib/a.so # needs libsnoopy.so", b"  # indented libsnoopy.so", P.encode()+b"\r"]
def run(act, content):
    if content is None:
        if os.path.exists(F): os.unlink(F)
    else: open(F,"wb").write(content)
    p=subprocess.run([S,act],env=env,capture_output=True)
    new=open(F,"rb").read() if os.path.exists(F) else None
    return p.returncode,new,p.stdout
def lines(c): return c.split(b"\n")
def is_comment(l): return l.startswith(b"#")
def has_entry(c):
    pe=P.encode()
    return any(l.startswith(pe) and (len(l)==len(pe) or l[len(pe):len(pe)+1] in (b"#",b" ",b"\t")) for l in lines(c))
def active_mention(c): return any((not is_comment(l)) and b"libsnoopy.so" in l for l in lines(c))
def tokens(c):
    t=[]
    for l in lines(c):
        l=l.split(b"#")[0]
        t+= l.split()
    return t
bad=0; n=0
maxl=int(sys.argv[1])
for k in range(0,maxl+1):
    for combo in itertools.product(ALPHA, repeat=k):
        for final_nl in (True,False):
            if k==0 and not final_nl: continue
            c=b"\n".join(combo)+(b"\n" if final_nl and k>0 else b"")
            n+=1
            # ENABLE
            rc,new,out=run("enable",c)
            if has_entry(c): exp=("unch",0)
            elif active_mention(c): exp=("unch",127)
            else: exp=("new",0)
            if exp[0]=="unch": ok=(new==c and rc==exp[1])
            else:
                want=c+(b"" if (c==b"" or c.endswith(b"\n")) else b"\n")+P.encode()+b"\n"
                ok=(new==want and rc==0)
                if ok:
                    rc2,new2,_=run("enable",new); ok = ok and new2==new and rc2==0
                    rc3,_,out3=run("status",new); ok = ok and b"OK - Snoopy is enabled" in out3
                    # roundtrip
                    if ok and (c==b"" or c.endswith(b"\n")) and b"libsnoopy.so" not in c:
                        rc4,new4,_=run("disable",new); ok = ok and new4==c
            if not ok:
                bad+=1; print("ENABLE", repr(c)[:150], "rc",rc, "new", repr(new)[:150], "exp",exp)
            # DISABLE
            rc,new,out=run("disable",c)
            nact=sum(1 for l in lines(c) if (not is_comment(l)) and b"libsnoopy.so" in l)
            if nact>=2: ok=(new==c and rc!=0)
            elif not has_entry(c): ok=(new==c and rc==0)
            else:
                t0=tokens(c); t1=tokens(new)
                t0r=list(t0); 
                pe=P.encode()
                # every token other than path itself preserved in order
                t0x=[t for t in t0 if t!=pe]; t1x=[t for t in t1 if t!=pe]
                ok=(t0x==t1x) and rc==0 and not has_entry(new)
                # other lines byte-identical: all lines not starting with path remain
                l0=[l for l in lines(c) if not l.startswith(pe)]; l1=[l for l in lines(new) if True]
            if not ok:
                bad+=1; print("DISABLE", repr(c)[:150], "rc",rc,"new",repr(new)[:150])
print("cases",n,"bad",bad)
