#!/bin/bash
# Self-test of the C12 check: property-breaking edits of a PRIVATE copy of the tree (never /repo), each must give exit 1 with a
# concrete replay; harmless refactorings must give exit 0.  usage: notes/selftest-dstruth.sh /tmp/wk-ds/repo [name...]
R=${1:?private repo copy}; shift
V=$(cd "$(dirname "$0")/.." && pwd)
OUT=/tmp/verif-alt-out$(realpath "$R" | tr / _)
cd "$R" || exit 2
test -z "$(git status --porcelain -- src)" || { echo "tree not clean"; exit 2; }
run() {  # name expected-exit
  local name=$1 want=$2
  ( cd "$V" && VERIF_REPO=$R timeout 900 ./check C12 quick > /tmp/selftest-c12.out 2>&1 ); local rc=$?
  local sigs=$(for f in $(grep -o 'replay=[^ ]*' /tmp/selftest-c12.out | cut -d= -f2); do python3 -c "import json,sys;r=json.load(open('$f'));print(r['sig']+('' if r.get('failing_input') else '[no-failing-input]'))"; done | tr '\n' ' ')
  local ob=$(python3 -c "import json;e=json.load(open('$OUT/evidence/C12.json'));print('%d/%d' % (e['coverage']['discharged'], e['coverage']['obligations']))")
  printf '%-28s exit=%s (want %s) obligations=%s %s\n' "$name" "$rc" "$want" "$ob" "$sigs"
  git -C "$R" checkout -q -- . ; git -C "$R" revert --abort 2>/dev/null
}
want() { [ $# -eq 0 ] && return 0; for n in "$@"; do [ "$n" = "$CUR" ] && return 0; done; return 1; }
m() { CUR=$1; want "${SEL[@]}"; }
SEL=("$@")
m baseline && run baseline 0
m uid-geteuid && { sed -i 's/getuid()/geteuid()/' src/datasource/uid.c; run uid-geteuid 1; }
m euid-getuid && { sed -i 's/geteuid()/getuid()/' src/datasource/euid.c; run euid-getuid 1; }
m gid-getuid && { sed -i 's/getgid()/getuid()/' src/datasource/gid.c; run gid-getuid 1; }
m egid-getgid && { sed -i 's/getegid()/getgid()/' src/datasource/egid.c; run egid-getgid 1; }
m uid-percent-d && { sed -i 's/"%u", getuid/"%d", getuid/' src/datasource/uid.c; run uid-percent-d 1; }
m group-getegid && { sed -i 's/getgid()/getegid()/' src/datasource/group.c; run group-getegid 1; }
m eusername-getuid && { sed -i 's/geteuid()/getuid()/' src/datasource/eusername.c; run eusername-getuid 1; }
m sid-getpgrp && { sed -i 's/getsid(0)/getpgrp()/' src/datasource/sid.c; run sid-getpgrp 1; }
m ppid-getpid && { sed -i 's/getppid()/getpid()/' src/datasource/ppid.c; run ppid-getpid 1; }
m tty-fd1 && { sed -i 's/ttyname_r(0, ttyPath/ttyname_r(1, ttyPath/' src/datasource/tty.c; run tty-fd1 1; }
m ttycommon-fd1 && { sed -i 's/ttyname_r(0, ttyPath/ttyname_r(1, ttyPath/' src/datasource/tty__common.c; run ttycommon-fd1 1; }
m tid-kernel-getpid && { sed -i 's/syscall(SYS_gettid)/getpid()/' src/datasource/tid_kernel.c; run tid-kernel-getpid 1; }
m env-prefix && { python3 - <<'PY'
p='src/datasource/env.c'; s=open(p).read()
s=s.replace('#include <stdlib.h>','#include <stdlib.h>\n#include <string.h>\nextern char **environ;')
s=s.replace('    char *env = getenv(arg);','    char *env = NULL;\n    size_t l = strlen(arg);\n    for (char **e = environ; e && *e; e++) { if (0 == strncmp(*e, arg, l)) { char *q = strchr(*e, \'=\'); env = q ? q + 1 : NULL; break; } }')
open(p,'w').write(s)
PY
run env-prefix 1; }
m login-order && { sed -i 's/getenv("SUDO_USER")/getenv("LOGNAME_")/; s/getenv("LOGNAME")/getenv("SUDO_USER")/; s/getenv("LOGNAME_")/getenv("LOGNAME")/' src/datasource/login.c; run login-order 1; }
m ts-ms-div && { sed -i 's|tv.tv_usec/1000|tv.tv_usec/100|' src/datasource/timestamp_ms.c; run ts-ms-div 1; }
m cwd-pathmax && { sed -i 's/getcwd(cwdBuf, PATH_MAX+1)/getcwd(cwdBuf, 64)/' src/datasource/cwd.c; run cwd-pathmax 1; }
m cgroup-prefix && { sed -i 's/"%s:", arg/"%s", arg/' src/datasource/cgroup.c; run cgroup-prefix 1; }
m rpname-root2 && { sed -i 's/#define PID_ROOT                1/#define PID_ROOT                2/' src/datasource/rpname.c; run rpname-root2 1; }
m envall-sep && { sed -i "s/resultBuf\[resultSize\] = ',';/resultBuf[resultSize] = ';';/" src/datasource/env_all.c; run envall-sep 1; }
m registry-swap && { python3 - <<'PY'
p='src/datasourceregistry.c'; s=open(p).read()
i=s.index('snoopy_datasourceregistry_ptrs')
a=s[i:].replace('    snoopy_datasource_uid,','    snoopy_datasource_XX,',1).replace('    snoopy_datasource_euid,','    snoopy_datasource_uid,',1).replace('    snoopy_datasource_XX,','    snoopy_datasource_euid,',1)
open(p,'w').write(s[:i]+a)
PY
run registry-swap 1; }
m revert-D22 && { git revert -n 72e0a9a >/dev/null 2>&1; run revert-D22 1; }
m revert-D8 && { git revert -n f81eafe >/dev/null 2>&1; run revert-D8 1; }
m harmless-uid-local && { sed -i 's/    return snprintf(resultBuf, resultBufSize, "%u", getuid());/    uid_t me = getuid();\n    return snprintf(resultBuf, resultBufSize, "%u", me);/' src/datasource/uid.c; run harmless-uid-local 0; }
m harmless-env-rename && { sed -i 's/char \*env = getenv(arg);/char *value = getenv(arg);/; s/NULL == env/NULL == value/; s/"%s", env)/"%s", value)/' src/datasource/env.c; run harmless-env-rename 0; }
m harmless-username-order && { python3 - <<'PY'
p='src/util/pwd.c'; s=open(p).read()
s=s.replace('    if (NULL == pwd_uid) {\n        snprintf(username, LOGIN_NAME_MAX, "user-%u", (unsigned int)uid);\n    } else {\n        snprintf(username, LOGIN_NAME_MAX, "%s", pwd_uid->pw_name);\n    }','    if (pwd_uid != NULL) {\n        snprintf(username, LOGIN_NAME_MAX, "%s", pwd_uid->pw_name);\n    } else {\n        snprintf(username, LOGIN_NAME_MAX, "user-%u", (unsigned int)uid);\n    }')
open(p,'w').write(s)
PY
run harmless-username-order 0; }
m harmless-tty-else && { python3 - <<'PY'
p='src/datasource/tty.c'; s=open(p).read()
s=s.replace('    retVal = ttyname_r(0, ttyPath, ttyPathLen);\n    if (0 != retVal) {','    retVal = ttyname_r(STDIN_FILENO, ttyPath, ttyPathLen);\n    if (retVal != 0) {')
open(p,'w').write(s)
PY
run harmless-tty-else 0; }
true
