From Coq Require Import List Arith Lia Bool Strings.Byte Strings.String.
Import ListNotations.
Local Open Scope nat_scope.
Local Open Scope list_scope.
Notation length := List.length.
Local Open Scope string_scope.

Definition bytes (s : string) : list byte := list_byte_of_string s.
Local Close Scope string_scope.
Arguments bytes _%string_scope.

Fixpoint prefixb (p s : list byte) : bool :=
  match p, s with
  | [], _ => true
  | _ :: _, [] => false
  | a :: p', b :: s' => Byte.eqb a b && prefixb p' s'
  end.

Fixpoint strstr (s needle : list byte) : option nat :=
  if prefixb needle s then Some 0 else
  match s with
  | [] => None
  | _ :: s' => option_map S (strstr s' needle)
  end.

Lemma strstr_le s n k : strstr s n = Some k -> k <= length s.
Proof.
  revert k; induction s as [|b s IH]; intros k; cbn [strstr].
  - destruct (prefixb n []); [intros H; injection H as <-; simpl; lia | discriminate].
  - destruct (prefixb n (b :: s)); [intros H; injection H as <-; lia|].
    destruct (strstr s n) as [j|] eqn:E; simpl; [|discriminate].
    intros H; injection H as <-. specialize (IH j eq_refl). simpl; lia.
Qed.

Section Expand.
  Variable known : list byte -> bool.
  Variable ds : list byte -> list byte -> nat -> bool * list byte.

  Definition OPEN := bytes "%{".  Definition CLOSE := bytes "}".  Definition COLON := bytes ":".
  Definition E_CLOSE := bytes "[ERROR: Closing data source tag ('}') not found.]".
  Definition E_NF1 := bytes "[ERROR: Data source '".  Definition E_NF2 := bytes "' not found.]".
  Definition E_F2 := bytes "' failed with the following error message: '".  Definition E_F3 := bytes "']".

  Opaque OPEN CLOSE COLON E_CLOSE E_NF1 E_NF2 E_F2 E_F3.

  (* util/string.c after D1: refuse iff remaining <= len app; cap = None models "no limit" (the ideal expansion) *)
  Definition append (cap : option nat) (dst app : list byte) : list byte :=
    match cap with
    | None => dst ++ app
    | Some c => if Nat.leb (c - length dst) (length app) then dst else dst ++ app
    end.

  Definition split_colon (tag : list byte) : list byte * list byte :=
    match strstr tag COLON with
    | None => (tag, [])
    | Some i => (firstn i tag, skipn (S i) tag)
    end.

  Fixpoint expand_aux (fuel : nat) (cap : option nat) (dsbuf : nat) (out fmt : list byte) : list byte :=
    match fuel with
    | 0 => out
    | S fuel' =>
      match strstr fmt OPEN with
      | None => append cap out fmt
      | Some i =>
        let out1 := append cap out (firstn i fmt) in
        let rest := skipn i fmt in
        match strstr rest CLOSE with
        | None => append cap out1 E_CLOSE
        | Some j =>
          let tag := firstn (j - 2) (skipn 2 rest) in
          let '(name, arg) := split_colon tag in
          if negb (known name) then append cap (append cap (append cap out1 E_NF1) name) E_NF2
          else
            let '(failed, txt) := ds name arg dsbuf in
            let out2 :=
              if failed
              then append cap (append cap (append cap (append cap (append cap out1 E_NF1) name) E_F2) txt) E_F3
              else append cap out1 txt in
            expand_aux fuel' cap dsbuf out2 (skipn (S j) rest)
        end
      end
    end.

  Definition expand (Llog Lds : nat) (fmt : list byte) := expand_aux (S (length fmt)) (Some (Llog + 1)) (Lds + 1) [] fmt.
  Definition full (Lds : nat) (fmt : list byte) := expand_aux (S (length fmt)) None (Lds + 1) [] fmt.

  (* --- bounded --- *)
  Lemma append_lt c dst app : length dst < c -> length (append (Some c) dst app) < c.
  Proof.
    intros H; unfold append. destruct (Nat.leb_spec (c - length dst) (length app)); [exact H|].
    rewrite app_length; lia.
  Qed.

  Lemma expand_aux_lt fuel c dsbuf : forall out fmt, length out < c -> length (expand_aux fuel (Some c) dsbuf out fmt) < c.
  Proof.
    induction fuel as [|fuel IH]; intros out fmt H; cbn [expand_aux]; [exact H|].
    destruct (strstr fmt OPEN) as [i|]; [|now apply append_lt].
    destruct (strstr (skipn i fmt) CLOSE) as [j|]; [|now repeat apply append_lt].
    destruct (split_colon _) as [name arg].
    destruct (negb (known name)); [now repeat apply append_lt|].
    destruct (ds name arg dsbuf) as [failed txt].
    apply IH. destruct failed; now repeat apply append_lt.
  Qed.

  Theorem C05_bounded Llog Lds fmt : length (expand Llog Lds fmt) <= Llog.
  Proof.
    unfold expand. assert (H : length (@nil byte) < Llog + 1) by (simpl; lia).
    apply (expand_aux_lt (S (length fmt)) (Llog + 1) (Lds + 1) [] fmt) in H. lia.
  Qed.

  (* --- exact when it fits --- *)
  Lemma append_none_len dst app : length dst <= length (append None dst app).
  Proof. simpl. rewrite app_length. lia. Qed.

  Lemma full_grows fuel dsbuf : forall out fmt, length out <= length (expand_aux fuel None dsbuf out fmt).
  Proof.
    induction fuel as [|fuel IH]; intros out fmt; cbn [expand_aux]; [lia|].
    destruct (strstr fmt OPEN) as [i|]; [|apply append_none_len].
    destruct (strstr (skipn i fmt) CLOSE) as [j|].
    2:{ cbn [append]. rewrite !app_length. lia. }
    destruct (split_colon _) as [name arg].
    destruct (negb (known name)).
    { cbn [append]. rewrite !app_length. lia. }
    destruct (ds name arg dsbuf) as [failed txt].
    etransitivity; [|apply IH].
    destruct failed; cbn [append]; rewrite !app_length; lia.
  Qed.

  Lemma append_same c dst app : length (dst ++ app) < c -> append (Some c) dst app = append None dst app.
  Proof.
    intros H; unfold append. rewrite app_length in H.
    destruct (Nat.leb_spec (c - length dst) (length app)); [lia|reflexivity].
  Qed.

  Ltac same_step H :=
    rewrite append_same; [| eapply Nat.le_lt_trans; [|exact H]; clear H ].

  Lemma append_None dst app : append None dst app = dst ++ app.
  Proof. reflexivity. Qed.

  (* rewrite the innermost bounded append into the unbounded one, discharging the fit condition with lia *)
  Ltac inner_same :=
    match goal with
    | |- context [append (Some ?c) ?d ?a] =>
      lazymatch d with
      | context [append (Some _) _ _] => fail
      | _ => rewrite (append_same c d a) by (rewrite ?append_None in *; rewrite ?app_length in *; lia)
      end
    end.

  Lemma expand_exact_aux fuel c dsbuf : forall out fmt,
      length (expand_aux fuel None dsbuf out fmt) < c ->
      expand_aux fuel (Some c) dsbuf out fmt = expand_aux fuel None dsbuf out fmt.
  Proof.
    induction fuel as [|fuel IH]; intros out fmt H; cbn [expand_aux] in *; [reflexivity|].
    destruct (strstr fmt OPEN) as [i|].
    2:{ apply append_same. rewrite append_None in H. exact H. }
    destruct (strstr (skipn i fmt) CLOSE) as [j|].
    2:{ repeat inner_same. reflexivity. }
    destruct (split_colon _) as [name arg].
    destruct (negb (known name)).
    { repeat inner_same. reflexivity. }
    destruct (ds name arg dsbuf) as [failed txt].
    pose proof (full_grows fuel dsbuf) as G.
    destruct failed.
    - match type of H with length (expand_aux _ _ _ ?o _) < _ => pose proof (G o (skipn (S j) (skipn i fmt))) as G1 end.
      repeat inner_same. apply IH. exact H.
    - match type of H with length (expand_aux _ _ _ ?o _) < _ => pose proof (G o (skipn (S j) (skipn i fmt))) as G1 end.
      repeat inner_same. apply IH. exact H.
  Qed.

  Theorem C05_exact_when_fits Llog Lds fmt :
    length (full Lds fmt) <= Llog -> expand Llog Lds fmt = full Lds fmt.
  Proof. intros H. unfold expand, full in *. apply expand_exact_aux. lia. Qed.
End Expand.

Print Assumptions C05_exact_when_fits.
Print Assumptions C05_bounded.

(* non-vacuity / sanity by computation *)
Definition known0 (n : list byte) := orb (prefixb (bytes "lit") n && Nat.eqb (length n) 3) (prefixb (bytes "fail") n && Nat.eqb (length n) 4).
Definition ds0 (n a : list byte) (sz : nat) : bool * list byte :=
  if prefixb (bytes "fail") n then (true, firstn (sz - 1) (bytes "boom")) else (false, firstn (sz - 1) a).
Eval vm_compute in (string_of_list_byte (expand known0 ds0 300 255 (bytes "a %{lit:x:y} b %{fail} c %{nosuch} d"))).
Eval vm_compute in (string_of_list_byte (expand known0 ds0 300 255 (bytes "tail %{lit:zz"))).
