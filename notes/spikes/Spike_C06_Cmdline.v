From Coq Require Import List Arith Lia Bool Strings.Byte.
Import ListNotations.

(* Spike for C06: src/datasource/cmdline.c, the running-offset loop.
   State = (bytes actually in the buffer, bytesWrittenToResultBuf as the C code accumulates it). *)
Definition sp : byte := x20.

(* if (bytes < size) bytes += snprintf(buf + bytes, size - bytes, "%s", s); *)
Definition snprintf_at (sz : nat) (st : list byte * nat) (s : list byte) : list byte * nat :=
  let '(w, b) := st in
  if Nat.ltb b sz then (w ++ firstn (sz - b - 1) s, b + length s) else (w, b).

Fixpoint rest (sz : nat) (st : list byte * nat) (args : list (list byte)) : list byte * nat :=
  match args with
  | [] => st
  | a :: args' => rest sz (snprintf_at sz (snprintf_at sz st [sp]) a) args'
  end.

(* result buffer content (the final explicit terminator does not change it: see Inv) *)
Definition cmdline (sz : nat) (a0 : list byte) (args : list (list byte)) : list byte :=
  fst (rest sz (snprintf_at sz ([], 0) a0) args).

Definition joined (a0 : list byte) (args : list (list byte)) : list byte := a0 ++ flat_map (fun a => sp :: a) args.

Definition Inv (sz : nat) (st : list byte * nat) (j : list byte) : Prop :=
  let '(w, b) := st in
  (b < sz -> w = j /\ length j = b) /\ (sz <= b -> w = firstn (sz - 1) j /\ sz - 1 <= length j).

Lemma firstn_app_ge {A} n (l m : list A) : n <= length l -> firstn n (l ++ m) = firstn n l.
Proof. intros H. rewrite firstn_app. replace (n - length l) with 0 by lia. simpl. apply app_nil_r. Qed.

Lemma step_inv sz st j s : 0 < sz -> Inv sz st j -> Inv sz (snprintf_at sz st s) (j ++ s).
Proof.
  destruct st as [w b]. unfold Inv, snprintf_at. intros Hsz [H1 H2].
  destruct (Nat.ltb_spec b sz) as [Hlt|Hge].
  - destruct (H1 Hlt) as [-> Hlen]. split.
    + intros Hb. assert (length s <= sz - length j - 1) by lia. subst b.
      rewrite firstn_all2 by lia. split; [reflexivity|]. rewrite app_length. lia.
    + intros Hb. subst b. split.
      * rewrite firstn_app. replace (sz - 1 - length j) with (sz - length j - 1) by lia.
        rewrite (firstn_all2 j) by lia. reflexivity.
      * rewrite app_length. lia.
  - destruct (H2 Hge) as [-> Hlen]. split; [lia|]. intros _. split.
    + symmetry. apply firstn_app_ge. exact Hlen.
    + rewrite app_length. lia.
Qed.

Lemma rest_inv sz : 0 < sz -> forall args st j, Inv sz st j -> Inv sz (rest sz st args) (j ++ flat_map (fun a => sp :: a) args).
Proof.
  intros Hsz. induction args as [|a args IH]; intros st j H; simpl.
  - now rewrite app_nil_r.
  - replace (j ++ sp :: a ++ flat_map (fun a0 => sp :: a0) args)
      with (((j ++ [sp]) ++ a) ++ flat_map (fun a0 => sp :: a0) args)
      by (rewrite <- !app_assoc; reflexivity).
    apply IH. apply step_inv; [assumption|]. apply step_inv; assumption.
Qed.

Theorem C06_cmdline_join sz a0 args : 0 < sz -> cmdline sz a0 args = firstn (sz - 1) (joined a0 args).
Proof.
  intros Hsz. unfold cmdline, joined.
  assert (H0 : Inv sz ([], 0) []) by (simpl; split; [intros _; split; reflexivity | lia]).
  pose proof (step_inv sz _ _ a0 Hsz H0) as H1. simpl app in H1.
  pose proof (rest_inv sz Hsz args _ _ H1) as H.
  destruct (rest sz (snprintf_at sz ([], 0) a0) args) as [w b]. simpl fst. destruct H as [Ha Hb].
  destruct (Nat.lt_ge_cases b sz) as [Hlt|Hge].
  - destruct (Ha Hlt) as [-> Hlen]. symmetry. apply firstn_all2. lia.
  - now destruct (Hb Hge) as [-> _].
Qed.

(* the buffer is never overrun: at most sz-1 bytes plus the terminator *)
Corollary C06_cmdline_fits sz a0 args : 0 < sz -> length (cmdline sz a0 args) <= sz - 1.
Proof. intros H. rewrite C06_cmdline_join by assumption. apply firstn_le_length. Qed.
Print Assumptions C06_cmdline_join.
