From Coq Require Import List NArith Lia Bool.
Import ListNotations.
Local Open Scope N_scope.

(* Spike for C08: snoopy_util_parser_strByteLength after the planned repair (saturating accumulation).
   Digits are given as numbers 0..9; `suffix` is the factor selected by the character after the digits. *)
Definition digit_ok (d : N) := d <= 9.

(* C loop: if (number <= valMax) number = number*10 + d;   -- saturates above valMax *)
Fixpoint accum (vmax : N) (acc : N) (ds : list N) : N :=
  match ds with
  | [] => acc
  | d :: ds' => accum vmax (if acc <=? vmax then acc * 10 + d else acc) ds'
  end.

Fixpoint value (acc : N) (ds : list N) : N :=            (* the mathematical value of the numeral *)
  match ds with [] => acc | d :: ds' => value (acc * 10 + d) ds' end.

Definition clamp (lo hi x : N) : N := if x <? lo then lo else if hi <? x then hi else x.

Definition bytelen (vmin vmax vdef factor : N) (ds : list N) : N :=
  let n := accum vmax 0 ds in
  if n =? 0 then vdef else clamp vmin vmax (n * factor).

Definition bytelen_spec (vmin vmax vdef factor : N) (ds : list N) : N :=
  let v := value 0 ds in
  if v =? 0 then vdef else clamp vmin vmax (v * factor).

Lemma value_mono ds : forall a b, a <= b -> value a ds <= value b ds.
Proof. induction ds as [|d ds IH]; intros a b H; simpl; [assumption|]. apply IH. lia. Qed.

Lemma value_ge ds : forall a, a <= value a ds.
Proof. induction ds as [|d ds IH]; intros a; simpl; [lia|]. etransitivity; [|apply IH]. lia. Qed.

(* either the accumulator never saturated and is exact, or it is above vmax and so is the true value *)
Lemma accum_spec vmax ds : forall acc v, (acc <= vmax -> acc = v) -> (vmax < acc -> acc <= v) ->
  let a := accum vmax acc ds in let w := value v ds in (a <= vmax -> a = w) /\ (vmax < a -> a <= w).
Proof.
  induction ds as [|d ds IH]; intros acc v H1 H2; simpl.
  - split; assumption.
  - apply IH.
    + destruct (N.leb_spec acc vmax) as [Hle|Hgt].
      * intros _. rewrite (H1 Hle). reflexivity.
      * intros H. lia.
    + destruct (N.leb_spec acc vmax) as [Hle|Hgt].
      * intros _. rewrite (H1 Hle). lia.
      * intros _. specialize (H2 Hgt). lia.
Qed.

Theorem C08_len_matches_spec vmin vmax vdef factor ds :
  1 <= factor -> vmin <= vmax -> bytelen vmin vmax vdef factor ds = bytelen_spec vmin vmax vdef factor ds.
Proof.
  intros Hf Hmm. unfold bytelen, bytelen_spec.
  destruct (accum_spec vmax ds 0 0 (fun _ => eq_refl) (fun H => N.le_refl 0)) as [Ha Hb].
  set (a := accum vmax 0 ds) in *. set (v := value 0 ds) in *.
  destruct (N.le_gt_cases a vmax) as [Hle|Hgt].
  - now rewrite (Ha Hle).
  - specialize (Hb Hgt).
    destruct (N.eqb_spec a 0); [lia|]. destruct (N.eqb_spec v 0); [lia|].
    unfold clamp.
    destruct (N.ltb_spec (a * factor) vmin); [nia|]. destruct (N.ltb_spec (v * factor) vmin); [nia|].
    destruct (N.ltb_spec vmax (a * factor)); [|nia]. destruct (N.ltb_spec vmax (v * factor)); [reflexivity|nia].
Qed.

(* never decreasing as the number grows (numbers >= 1; all-zero numerals fall back to the default) *)
Theorem C08_len_monotone vmin vmax vdef factor d1 d2 :
  1 <= factor -> vmin <= vmax -> 1 <= value 0 d1 -> value 0 d1 <= value 0 d2 ->
  bytelen vmin vmax vdef factor d1 <= bytelen vmin vmax vdef factor d2.
Proof.
  intros Hf Hmm H1 H12. rewrite !C08_len_matches_spec by assumption. unfold bytelen_spec.
  destruct (N.eqb_spec (value 0 d1) 0); [lia|]. destruct (N.eqb_spec (value 0 d2) 0); [lia|].
  unfold clamp.
  destruct (N.ltb_spec (value 0 d1 * factor) vmin); destruct (N.ltb_spec (value 0 d2 * factor) vmin);
    destruct (N.ltb_spec vmax (value 0 d1 * factor)); destruct (N.ltb_spec vmax (value 0 d2 * factor)); nia.
Qed.

Theorem C08_len_in_range vmin vmax vdef factor ds :
  vmin <= vmax -> value 0 ds <> 0 -> 1 <= factor ->
  vmin <= bytelen vmin vmax vdef factor ds <= vmax.
Proof.
  intros Hmm Hv Hf. rewrite C08_len_matches_spec by assumption. unfold bytelen_spec.
  destruct (N.eqb_spec (value 0 ds) 0); [contradiction|]. unfold clamp.
  destruct (N.ltb_spec (value 0 ds * factor) vmin); [lia|]. destruct (N.ltb_spec vmax (value 0 ds * factor)); lia.
Qed.

Print Assumptions C08_len_monotone.
(* the witness that refutes monotonicity for the CURRENT code is the 32-bit wrap: 2048*2^20 = 2^31 *)
Eval vm_compute in (bytelen 255 1048575 16383 1048576 [2;0;4;8], bytelen 255 1048575 16383 1 [0], bytelen 255 1048575 16383 1 [9;9;9;9;9;9;9;9;9;9;9;9;9;9;9;9;9;9;9;9;9;9;9]).
