From Coq Require Import List Arith Lia Bool Permutation.
Import ListNotations.

(* Spike: src/util/list.c on an explicit heap.  addr 0 is NULL. *)
Definition addr := nat.
Record node := mkNode { next : addr; prev : addr; value : nat }.
Definition heap := addr -> option node.
Record dlist := mkList { first : addr; last : addr; count : nat }.

Definition hupd (h : heap) (a : addr) (n : option node) : heap := fun x => if Nat.eqb x a then n else h x.
Lemma hupd_same h a n : hupd h a n a = n. Proof. unfold hupd. now rewrite Nat.eqb_refl. Qed.
Lemma hupd_other h a n x : x <> a -> hupd h a n x = h x.
Proof. unfold hupd. intros H. destruct (Nat.eqb_spec x a); [contradiction|reflexivity]. Qed.

(* snoopy_util_list_push: `a` is the address calloc returns (fresh, non-NULL) *)
Definition push (h : heap) (l : dlist) (a : addr) (v : nat) : heap * dlist :=
  if Nat.eqb (last l) 0
  then (hupd h a (Some (mkNode 0 0 v)), mkList a a (S (count l)))
  else match h (last l) with
       | Some ln => (hupd (hupd h (last l) (Some (mkNode a (prev ln) (value ln)))) a (Some (mkNode 0 (last l) v)),
                     mkList (first l) a (S (count l)))
       | None => (h, l)   (* unreachable under the invariant *)
       end.

(* snoopy_util_list_remove, the four cases as written; note: removing the first node does NOT reset the new
   first node's prev (it dangles) *)
Definition remove (h : heap) (l : dlist) (n : addr) : heap * dlist * option nat :=
  match h n with
  | None => (h, l, None)
  | Some nd =>
    let '(h1, l1) :=
      if Nat.eqb n (first l) && Nat.eqb n (last l) then (h, mkList 0 0 (count l))
      else if Nat.eqb n (first l) then (h, mkList (next nd) (last l) (count l))
      else if Nat.eqb n (last l) then
        match h (prev nd) with
        | Some pn => (hupd h (prev nd) (Some (mkNode 0 (prev pn) (value pn))), mkList (first l) (prev nd) (count l))
        | None => (h, l)
        end
      else
        match h (next nd), h (prev nd) with
        | Some an, Some bn =>
          (hupd (hupd h (next nd) (Some (mkNode (next an) (prev nd) (value an))))
                (prev nd) (Some (mkNode (next nd) (prev bn) (value bn))), l)
        | _, _ => (h, l)
        end in
    (hupd h1 n None, mkList (first l1) (last l1) (pred (count l1)), Some (value nd))
  end.

(* representation: the chain of `next` pointers starting at a spells xs; every node but the first of the whole
   list has a correct prev (p = Some q); the first node's prev is unconstrained (p = None) *)
Fixpoint chain (h : heap) (a : addr) (p : option addr) (xs : list (addr * nat)) : Prop :=
  match xs with
  | [] => a = 0
  | (x, v) :: xs' => a = x /\ x <> 0 /\
      exists nd, h x = Some nd /\ value nd = v /\ (match p with Some q => prev nd = q | None => True end) /\
                 chain h (next nd) (Some x) xs'
  end.

Definition last_addr (xs : list (addr * nat)) : addr := match rev xs with [] => 0 | (x, _) :: _ => x end.

Record repr (h : heap) (l : dlist) (xs : list (addr * nat)) : Prop := {
  R_chain : chain h (first l) None xs;
  R_last  : last l = last_addr xs;
  R_count : count l = length xs;
  R_nodup : NoDup (map fst xs);
}.

Lemma last_addr_snoc xs a v : last_addr (xs ++ [(a, v)]) = a.
Proof. unfold last_addr. rewrite rev_app_distr. reflexivity. Qed.

Lemma last_addr_cons x y xs : last_addr (x :: y :: xs) = last_addr (y :: xs).
Proof.
  unfold last_addr. simpl. destruct (rev xs) as [|[z w] r] eqn:E; simpl; [reflexivity|].
  reflexivity.
Qed.

Lemma last_addr_in xs : xs <> [] -> In (last_addr xs) (map fst xs).
Proof.
  induction xs as [|[x v] xs IH]; [congruence|]. intros _.
  destruct xs as [|y xs]; [unfold last_addr; simpl; now left|].
  rewrite last_addr_cons. right. apply IH. discriminate.
Qed.

Lemma chain_in_nonzero h a p xs x : chain h a p xs -> In x (map fst xs) -> x <> 0.
Proof.
  revert a p; induction xs as [|[y v] xs IH]; simpl; intros a p H Hin; [contradiction|].
  destruct H as [_ [Hy [nd [_ [_ [_ Hc]]]]]]. destruct Hin as [<-|Hin]; [assumption|]. eapply IH; eassumption.
Qed.

Lemma chain_last_alloc h : forall xs a p, xs <> [] -> chain h a p xs -> exists ln, h (last_addr xs) = Some ln.
Proof.
  induction xs as [|[x v] xs IH]; intros a p Hne Hc; [congruence|].
  simpl in Hc. destruct Hc as [_ [_ [nd [Hh [_ [_ Hc]]]]]].
  destruct xs as [|y xs]; [unfold last_addr; simpl; eauto|].
  rewrite last_addr_cons. eapply IH; [discriminate|exact Hc].
Qed.

(* frame: writing at an address outside the segment leaves the segment intact *)
Lemma chain_frame h a p xs b n : ~ In b (map fst xs) -> chain h a p xs -> chain (hupd h b n) a p xs.
Proof.
  revert a p; induction xs as [|[y v] xs IH]; simpl; intros a p Hn H; [assumption|].
  destruct H as [-> [Hy [nd [Hh [Hv [Hp Hc]]]]]]. split; [reflexivity|]. split; [assumption|].
  exists nd. rewrite hupd_other by tauto. repeat split; try assumption. apply IH; [tauto|assumption].
Qed.

Lemma chain_cons_intro h x p v xs nd :
  x <> 0 -> h x = Some nd -> value nd = v -> (match p with Some q => prev nd = q | None => True end) ->
  chain h (next nd) (Some x) xs -> chain h x p ((x, v) :: xs).
Proof. intros. simpl. split; [reflexivity|]. split; [assumption|]. exists nd. auto. Qed.

(* appending a node at the end of a non-empty segment: the old last node gets next := a *)
Lemma chain_snoc h : forall xs a0 p a v,
  xs <> [] -> NoDup (map fst xs) -> ~ In a (map fst xs) -> a <> 0 ->
  chain h a0 p xs ->
  forall ln, h (last_addr xs) = Some ln ->
  chain (hupd (hupd h (last_addr xs) (Some (mkNode a (prev ln) (value ln)))) a (Some (mkNode 0 (last_addr xs) v)))
        a0 p (xs ++ [(a, v)]).
Proof.
  induction xs as [|[x w] xs IH]; intros a0 p a v Hne ND Hfresh Ha H ln Hln; [congruence|].
  simpl in H. destruct H as [-> [Hx [nd [Hh [Hv [Hp Hc]]]]]].
  inversion ND as [|? ? Hxn ND']; subst.
  destruct xs as [|[y u] xs].
  - (* x is the last node *)
    simpl in Hc. subst. unfold last_addr in *. simpl in *. rewrite Hh in Hln. injection Hln as <-.
    apply (chain_cons_intro _ x p _ [(a, v)] (mkNode a (prev nd) (value nd)));
      [ assumption
      | rewrite hupd_other by tauto; now rewrite hupd_same
      | reflexivity
      | assumption
      | ].
    cbn [next]. apply (chain_cons_intro _ a (Some x) v [] (mkNode 0 x v));
      [ assumption | now rewrite hupd_same | reflexivity | reflexivity | reflexivity ].
  - rewrite last_addr_cons in *.
    assert (Hxl : x <> last_addr ((y, u) :: xs)).
    { intros E. apply Hxn. rewrite E. apply last_addr_in. discriminate. }
    cbn [app]. apply (chain_cons_intro _ x p _ _ nd);
      [ assumption
      | rewrite hupd_other by (simpl in Hfresh; tauto); now rewrite hupd_other by assumption
      | reflexivity
      | assumption
      | ].
    apply (IH (next nd) (Some x) a v); try assumption; try discriminate.
    simpl in Hfresh |- *. tauto.
Qed.

Theorem push_refines h l xs a v :
  repr h l xs -> a <> 0 -> h a = None -> ~ In a (map fst xs) ->
  let '(h', l') := push h l a v in repr h' l' (xs ++ [(a, v)]).
Proof.
  intros [Hc Hl Hn ND] Ha Hfree Hfresh. unfold push.
  destruct xs as [|[x w] xs].
  - (* empty list *)
    simpl in Hc. unfold last_addr in Hl. simpl in Hl. rewrite Hl. simpl.
    split; simpl.
    + apply (chain_cons_intro _ a None v [] (mkNode 0 0 v));
        [ assumption | now rewrite hupd_same | reflexivity | exact I | reflexivity ].
    + reflexivity.
    + now rewrite Hn.
    + constructor; [simpl; tauto|constructor].
  - assert (Hlz : last l <> 0).
    { rewrite Hl. apply (chain_in_nonzero h (first l) None ((x, w) :: xs)); [assumption|].
      apply last_addr_in. discriminate. }
    destruct (Nat.eqb_spec (last l) 0); [contradiction|].
    (* the last node is allocated *)
    assert (exists ln, h (last l) = Some ln) as [ln Hln].
    { rewrite Hl. eapply chain_last_alloc; [|exact Hc]. discriminate. }
    rewrite Hln. rewrite Hl in *. split; cbn [first last count].
    + apply chain_snoc; try assumption; discriminate.
    + now rewrite last_addr_snoc.
    + rewrite app_length, Hn. simpl. lia.
    + rewrite map_app. simpl.
      assert (NoDup (a :: map fst ((x, w) :: xs))) as H by (constructor; assumption).
      apply Permutation_NoDup with (l := a :: map fst ((x, w) :: xs)); [|assumption].
      apply Permutation_cons_append.
Qed.
Print Assumptions push_refines.
