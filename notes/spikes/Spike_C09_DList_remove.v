From Coq Require Import List Arith Lia Bool Permutation.
Import ListNotations.

(* Spike: src/util/list.c remove() on an explicit heap; segment-based representation. addr 0 is NULL. *)
Definition addr := nat.
Record node := mkNode { next : addr; prev : addr; value : nat }.
Definition heap := addr -> option node.
Record dlist := mkList { first : addr; last : addr; count : nat }.

Definition hupd (h : heap) (a : addr) (n : option node) : heap := fun x => if Nat.eqb x a then n else h x.
Lemma hupd_same h a n : hupd h a n a = n. Proof. unfold hupd. now rewrite Nat.eqb_refl. Qed.
Lemma hupd_other h a n x : x <> a -> hupd h a n x = h x.
Proof. unfold hupd. intros H. destruct (Nat.eqb_spec x a); [contradiction|reflexivity]. Qed.

Lemma NoDup_app_l {A} (l m : list A) : NoDup (l ++ m) -> NoDup l.
Proof.
  induction l as [|a l IH]; simpl; intros H; [constructor|]. inversion H as [|? ? Ha Hl]; subst.
  constructor; [rewrite in_app_iff in Ha; tauto | now apply IH].
Qed.
Lemma NoDup_app_r {A} (l m : list A) : NoDup (l ++ m) -> NoDup m.
Proof. induction l as [|a l IH]; simpl; intros H; [assumption|]. inversion H; subst. now apply IH. Qed.

Definition remove (h : heap) (l : dlist) (n : addr) : heap * dlist * option nat :=
  match h n with
  | None => (h, l, None)
  | Some nd =>
    let '(h1, l1) :=
      if Nat.eqb n (first l) && Nat.eqb n (last l) then (h, mkList 0 0 (count l))
      else if Nat.eqb n (first l) then (h, mkList (next nd) (last l) (count l))
      else if Nat.eqb n (last l) then
        match h (prev nd) with
        | Some pn => (hupd h (prev nd) (Some (mkNode 0 (prev pn) (value pn))), mkList (first l) (prev nd) (count l))
        | None => (h, l)
        end
      else
        match h (next nd), h (prev nd) with
        | Some an, Some bn =>
          (hupd (hupd h (next nd) (Some (mkNode (next an) (prev nd) (value an))))
                (prev nd) (Some (mkNode (next nd) (prev bn) (value bn))), l)
        | _, _ => (h, l)
        end in
    (hupd h1 n None, mkList (first l1) (last l1) (pred (count l1)), Some (value nd))
  end.

(* seg h a p xs b: following next from a spells xs and ends at b; p = expected prev of the first node
   (None = unconstrained: the first node of the whole list may have a dangling prev) *)
Fixpoint seg (h : heap) (a : addr) (p : option addr) (xs : list (addr * nat)) (b : addr) : Prop :=
  match xs with
  | [] => a = b
  | (x, v) :: xs' => a = x /\ x <> 0 /\
      exists nd, h x = Some nd /\ value nd = v /\ (match p with Some q => prev nd = q | None => True end) /\
                 seg h (next nd) (Some x) xs' b
  end.

Definition last_addr (xs : list (addr * nat)) : addr := match rev xs with [] => 0 | (x, _) :: _ => x end.
Definition last_or (p : option addr) (xs : list (addr * nat)) : option addr :=
  match rev xs with [] => p | (x, _) :: _ => Some x end.

Record repr (h : heap) (l : dlist) (xs : list (addr * nat)) : Prop := {
  R_seg   : seg h (first l) None xs 0;
  R_last  : last l = last_addr xs;
  R_count : count l = length xs;
  R_nodup : NoDup (map fst xs);
}.

Lemma last_or_snoc p xs x v : last_or p (xs ++ [(x, v)]) = Some x.
Proof. unfold last_or. now rewrite rev_app_distr. Qed.
Lemma last_or_cons p y xs : last_or p (y :: xs) = last_or (Some (fst y)) xs.
Proof.
  unfold last_or. simpl. destruct (rev xs) as [|[z w] r]; simpl; [destruct y; reflexivity|reflexivity].
Qed.
Lemma last_addr_snoc xs x v : last_addr (xs ++ [(x, v)]) = x.
Proof. unfold last_addr. now rewrite rev_app_distr. Qed.

Lemma rev_nil_inv {A} (l : list A) : rev l = [] -> l = [].
Proof. intros H. apply (f_equal (@rev A)) in H. now rewrite rev_involutive in H. Qed.
Lemma last_addr_app xs ys : ys <> [] -> last_addr (xs ++ ys) = last_addr ys.
Proof.
  intros H. unfold last_addr. rewrite rev_app_distr. destruct (rev ys) as [|[z w] r] eqn:E; [apply rev_nil_inv in E; contradiction|reflexivity].
Qed.
Lemma last_addr_in ys : ys <> [] -> In (last_addr ys) (map fst ys).
Proof.
  intros H. unfold last_addr. destruct (rev ys) as [|[z w] r] eqn:E; [apply rev_nil_inv in E; contradiction|].
  assert (In (z, w) ys) by (apply in_rev; rewrite E; now left). change z with (fst (z, w)). now apply in_map.
Qed.

(* splitting and joining segments *)
Lemma seg_app h : forall xs a p ys c,
  seg h a p (xs ++ ys) c <-> exists b, seg h a p xs b /\ seg h b (last_or p xs) ys c.
Proof.
  induction xs as [|[x v] xs IH]; intros a p ys c; simpl.
  - split; [intros H; exists a; split; [reflexivity|exact H] | intros [b [-> H]]; exact H].
  - rewrite last_or_cons. simpl fst. split.
    + intros [-> [Hx [nd [Hh [Hv [Hp Hs]]]]]]. apply IH in Hs. destruct Hs as [b [H1 H2]].
      exists b. split; [|exact H2]. split; [reflexivity|]. split; [assumption|]. exists nd. auto.
    + intros [b [[-> [Hx [nd [Hh [Hv [Hp Hs]]]]]] H2]]. split; [reflexivity|]. split; [assumption|].
      exists nd. repeat split; try assumption. apply IH. exists b. now split.
Qed.

Lemma seg_frame h b n : forall xs a p c, ~ In b (map fst xs) -> seg h a p xs c -> seg (hupd h b n) a p xs c.
Proof.
  induction xs as [|[y v] xs IH]; simpl; intros a p c Hn H; [assumption|].
  destruct H as [-> [Hy [nd [Hh [Hv [Hp Hc]]]]]]. split; [reflexivity|]. split; [assumption|].
  exists nd. rewrite hupd_other by tauto. repeat split; try assumption. apply IH; [tauto|assumption].
Qed.

(* the expected prev of the first node may be forgotten (this is what makes the dangling prev harmless) *)
Lemma seg_forget_prev h xs a p c : seg h a p xs c -> seg h a None xs c.
Proof.
  destruct xs as [|[x v] xs]; simpl; [auto|].
  intros [-> [Hx [nd [Hh [Hv [_ Hs]]]]]]. split; [reflexivity|]. split; [assumption|]. exists nd. auto.
Qed.

(* rewriting the next pointer of the last node of a non-empty segment *)
Lemma seg_set_end h : forall xs a p x v c c' nd,
  NoDup (map fst (xs ++ [(x, v)])) -> seg h a p (xs ++ [(x, v)]) c -> h x = Some nd ->
  seg (hupd h x (Some (mkNode c' (prev nd) (value nd)))) a p (xs ++ [(x, v)]) c'.
Proof.
  intros xs a p x v c c' nd ND H Hx. apply seg_app in H. destruct H as [b [H1 H2]]. apply seg_app. exists b. split.
  - apply seg_frame; [|exact H1]. rewrite map_app in ND. simpl in ND. apply NoDup_remove_2 in ND. rewrite app_nil_r in ND. exact ND.
  - simpl in H2 |- *. destruct H2 as [-> [Hx0 [nd' [Hh [Hv [Hp _]]]]]]. rewrite Hx in Hh. injection Hh as <-.
    split; [reflexivity|]. split; [assumption|]. exists (mkNode c' (prev nd) (value nd)). rewrite hupd_same. auto.
Qed.

(* rewriting the prev pointer of the first node of a segment *)
Lemma seg_set_prev h x v xs q nd p c :
  ~ In x (map fst xs) -> seg h x p ((x, v) :: xs) c -> h x = Some nd ->
  seg (hupd h x (Some (mkNode (next nd) q (value nd)))) x (Some q) ((x, v) :: xs) c.
Proof.
  intros Hn H Hx. simpl in H |- *. destruct H as [_ [Hx0 [nd' [Hh [Hv [_ Hs]]]]]]. rewrite Hx in Hh. injection Hh as <-.
  split; [reflexivity|]. split; [assumption|]. exists (mkNode (next nd) q (value nd)). rewrite hupd_same.
  repeat split; try assumption. cbn [next]. now apply seg_frame.
Qed.

Lemma seg_in_nonzero h : forall xs a p c x, seg h a p xs c -> In x (map fst xs) -> x <> 0.
Proof.
  induction xs as [|[y v] xs IH]; simpl; intros a p c x H Hin; [contradiction|].
  destruct H as [_ [Hy [nd [_ [_ [_ Hs]]]]]]. destruct Hin as [<-|Hin]; [assumption|]. eapply IH; eassumption.
Qed.

Lemma seg_first h x v xs a p c : seg h a p ((x, v) :: xs) c -> a = x /\ exists nd, h x = Some nd /\ value nd = v /\ seg h (next nd) (Some x) xs c
                                  /\ match p with Some q => prev nd = q | None => True end.
Proof. simpl. intros [-> [_ [nd [Hh [Hv [Hp Hs]]]]]]. split; [reflexivity|]. exists nd. auto. Qed.

(* ---------------------------------------------------------------------------------------------- *)
Theorem remove_refines h l pre n v post :
  repr h l (pre ++ (n, v) :: post) ->
  let '(h', l', r) := remove h l n in r = Some v /\ h' n = None /\ repr h' l' (pre ++ post).
Proof.
  intros [Hs Hl Hc ND].
  assert (Hn0 : n <> 0).
  { eapply seg_in_nonzero; [exact Hs|]. rewrite map_app, in_app_iff. right. now left. }
  pose proof Hs as Hs0. apply seg_app in Hs. destruct Hs as [b [Hpre Hrest]].
  apply seg_first in Hrest. destruct Hrest as [-> [nd [Hh [Hv [Hpost Hp]]]]].
  assert (NDn : ~ In n (map fst pre) /\ ~ In n (map fst post)).
  { rewrite map_app in ND. simpl in ND. apply NoDup_remove_2 in ND. rewrite in_app_iff in ND. tauto. }
  assert (NDpp : NoDup (map fst (pre ++ post))).
  { rewrite map_app in *. simpl in ND. now apply NoDup_remove_1 in ND. }
  unfold remove. rewrite Hh.
  destruct pre as [|[x0 v0] pre'] using rev_ind; [|clear IHpre'].
  - (* n is the first node *)
    simpl in Hpre. subst n. rewrite Nat.eqb_refl. cbn [andb app] in *.
    destruct post as [|[y u] post'] using rev_ind; [|clear IHpost'].
    + (* ... and the last: the list becomes empty *)
      unfold last_addr in Hl. simpl in Hl. rewrite <- Hl, Nat.eqb_refl in *. cbn [first last count].
      split; [now rewrite Hv|]. split; [apply hupd_same|].
      split; cbn [first last count]; [reflexivity|reflexivity| simpl in Hc |- *; lia | constructor].
    + (* first but not last: first := next; the new first node keeps a dangling prev *)
      assert (Hfl : first l <> last l).
      { rewrite Hl. rewrite app_comm_cons, last_addr_snoc. intros E. apply (proj2 NDn). rewrite E, map_app, in_app_iff. right. now left. }
      destruct (Nat.eqb_spec (first l) (last l)); [contradiction|]. cbn [first last count].
      split; [now rewrite Hv|]. split; [apply hupd_same|].
      split; cbn [first last count].
      * apply seg_frame; [tauto|]. eapply seg_forget_prev. exact Hpost.
      * rewrite Hl. now rewrite app_comm_cons, !last_addr_snoc.
      * simpl in Hc. rewrite Hc. reflexivity.
      * assumption.
  - (* n is not the first node: prev nd = x0, the last node of pre *)
    rewrite last_or_snoc in Hp. simpl in Hp.
    assert (Hfirst : first l <> n).
    { intros E. apply (proj1 NDn). rewrite <- E. apply seg_app in Hpre. destruct Hpre as [b' [H1 _]].
      destruct pre' as [|[z w] pre'']; simpl in H1.
      - destruct H1. subst. rewrite map_app, in_app_iff. right. simpl.
        apply seg_app in Hs0. destruct Hs0 as [b2 [H3 _]]. simpl in H3. destruct H3 as [-> _]. now left.
      - destruct H1 as [-> _]. now left. }
    destruct (Nat.eqb_spec n (first l)); [congruence|]. cbn [andb].
    assert (Hx0n : x0 <> n).
    { intros ->. apply (proj1 NDn). rewrite map_app, in_app_iff. right. now left. }
    assert (exists pn, h x0 = Some pn) as [pn Hpn].
    { apply seg_app in Hpre. destruct Hpre as [b' [_ H2]]. simpl in H2. destruct H2 as [_ [_ [pn [Hh' _]]]]. eauto. }
    destruct post as [|[y u] post'].
    + (* n is the last node: the new last is x0, its next becomes NULL *)
      rewrite app_nil_r in *. rewrite last_addr_snoc in Hl. rewrite Hl, Nat.eqb_refl, Hp, Hpn. cbn [first last count].
      split; [now rewrite Hv|]. split; [apply hupd_same|].
      split; cbn [first last count].
      * apply seg_frame; [exact (proj1 NDn)|].
        apply (seg_set_end h pre' (first l) None x0 v0 n 0 pn); [|exact Hpre|exact Hpn].
        rewrite map_app in ND. apply NoDup_app_l in ND. exact ND.
      * now rewrite last_addr_snoc.
      * rewrite app_length in Hc. simpl in Hc. lia.
      * assumption.
    + (* n is in the middle: splice x0 and y together *)
      assert (Hnl : n <> last l).
      { rewrite Hl. intros E. apply (proj2 NDn). rewrite E.
        replace ((pre' ++ [(x0, v0)]) ++ (n, v) :: (y, u) :: post') with (((pre' ++ [(x0, v0)]) ++ [(n, v)]) ++ (y, u) :: post')
          by (rewrite <- !app_assoc; reflexivity).
        rewrite last_addr_app by discriminate. apply last_addr_in. discriminate. }
      destruct (Nat.eqb_spec n (last l)); [congruence|].
      apply seg_first in Hpost. destruct Hpost as [Hny [an [Han [Hav [Hpost' Hanp]]]]].
      rewrite Hny, Han, Hp, Hpn.
      split; [now rewrite Hv|]. split; [apply hupd_same|].
      assert (Hyn : y <> n) by (intros ->; apply (proj2 NDn); now left).
      assert (Hyx0 : y <> x0).
      { intros ->. rewrite map_app in NDpp. rewrite map_app in NDpp. simpl in NDpp.
        rewrite <- app_assoc in NDpp. simpl in NDpp. apply NoDup_remove_2 in NDpp. apply NDpp.
        rewrite in_app_iff. right. now left. }
      split; cbn [first last count].
      * apply seg_frame; [rewrite map_app, in_app_iff; tauto|].
        apply seg_app. exists y. split.
        -- (* pre with x0.next := y ; the write at y is outside pre *)
           assert (Hy_pre : ~ In y (map fst (pre' ++ [(x0, v0)]))).
           { intros Hin. rewrite map_app in NDpp. apply NoDup_app_r in NDpp || idtac.
             clear - Hin ND. rewrite map_app in ND. simpl in ND.
             assert (NoDup (map fst (pre' ++ [(x0, v0)]) ++ y :: map fst post')) as N2.
             { apply NoDup_remove_1 in ND. exact ND. }
             apply NoDup_remove_2 in N2. apply N2. rewrite in_app_iff. now left. }
           assert (Hseg1 : seg (hupd h y (Some (mkNode (next an) x0 (value an)))) (first l) None (pre' ++ [(x0, v0)]) n).
           { apply seg_frame; assumption. }
           apply (seg_set_end _ pre' (first l) None x0 v0 n y pn) in Hseg1.
           ++ exact Hseg1.
           ++ rewrite map_app in ND. apply NoDup_app_l in ND. exact ND.
           ++ rewrite hupd_other by congruence. exact Hpn.
        -- (* post with y.prev := x0 ; the write at x0 is outside post *)
           rewrite last_or_snoc.
           assert (Hx0_post : ~ In x0 (map fst ((y, u) :: post'))).
           { intros Hin. rewrite map_app in NDpp. rewrite map_app in NDpp. simpl in NDpp. rewrite <- app_assoc in NDpp. simpl in NDpp.
             apply NoDup_remove_2 in NDpp. apply NDpp. rewrite in_app_iff. right. exact Hin. }
           apply seg_frame; [exact Hx0_post|].
           assert (Hy_post : ~ In y (map fst post')).
           { rewrite map_app in NDpp. apply NoDup_app_r in NDpp. simpl in NDpp. now apply NoDup_cons_iff in NDpp. }
           assert (Hseg2 : seg h y (Some n) ((y, u) :: post') 0).
           { simpl. split; [reflexivity|]. split; [eapply seg_in_nonzero; [exact Hs0|]; rewrite map_app, in_app_iff; right; right; now left|].
             exists an. auto. }
           apply (seg_set_prev h y u post' x0 an (Some n) 0 Hy_post Hseg2 Han).
      * rewrite Hl. unfold last_addr. rewrite !rev_app_distr. simpl. rewrite <- !app_assoc. simpl.
        destruct (rev post') as [|[z w] r]; reflexivity.
      * rewrite !app_length in *. simpl in *. lia.
      * assumption.
Qed.
Print Assumptions remove_refines.
