From Coq Require Import List Arith Lia Bool.
Import ListNotations.

(* Spike: interleaving model of src/tsrm.c (one mutex, repository keyed by thread id).
   Any number of threads, any number of calls per thread, any number of accessor calls per call,
   any schedule.  Atomic steps: lock / list operation under the lock / unlock. *)

Definition tid := nat.

Inductive pc :=
| Out                                          (* outside the library *)
| C1 (k : nat) | C2 (k : nat) | C3 (k : nat)   (* tsrm_ctor: want lock / holding before push-if-absent / holding after *)
| W (k : nat)                                  (* inside the call, not holding, k accessor calls still to come *)
| A2 (k : nat) | A3 (k : nat)                  (* accessor: holding before lookup / holding after lookup *)
| D2 | D3                                      (* tsrm_dtor's own lookup: holding before / after *)
| D4 | D5 | D6.                                (* tsrm_dtor: want lock / holding before remove / holding after remove *)

Record state := { mtx : option tid; repo : list tid; cnt : nat; pcs : tid -> pc; todo : tid -> list nat }.

Definition holding (p : pc) : bool :=
  match p with C2 _ | C3 _ | A2 _ | A3 _ | D2 | D3 | D5 | D6 => true | _ => false end.
Definition registered (p : pc) : bool :=
  match p with C3 _ | W _ | A2 _ | A3 _ | D2 | D3 | D4 | D5 => true | _ => false end.

Definition upd {A} (f : tid -> A) (t : tid) (v : A) : tid -> A := fun u => if Nat.eqb u t then v else f u.
Definition free (s : state) := match mtx s with None => true | Some _ => false end.

Fixpoint remove_tid (t : tid) (l : list tid) : list tid :=
  match l with [] => [] | x :: l' => if Nat.eqb x t then l' else x :: remove_tid t l' end.

Definition mk m r c p td := {| mtx := m; repo := r; cnt := c; pcs := p; todo := td |}.

Definition step (t : tid) (s : state) : option state :=
  match pcs s t with
  | Out => match todo s t with
           | [] => None
           | k :: rest => Some (mk (mtx s) (repo s) (cnt s) (upd (pcs s) t (C1 k)) (upd (todo s) t rest))
           end
  | C1 k => if free s then Some (mk (Some t) (repo s) (cnt s) (upd (pcs s) t (C2 k)) (todo s)) else None
  | C2 k => if existsb (Nat.eqb t) (repo s)
            then Some (mk (mtx s) (repo s) (cnt s) (upd (pcs s) t (C3 k)) (todo s))
            else Some (mk (mtx s) (repo s ++ [t]) (S (cnt s)) (upd (pcs s) t (C3 k)) (todo s))
  | C3 k => Some (mk None (repo s) (cnt s) (upd (pcs s) t (W k)) (todo s))
  | W 0 => if free s then Some (mk (Some t) (repo s) (cnt s) (upd (pcs s) t D2) (todo s)) else None
  | W (S k) => if free s then Some (mk (Some t) (repo s) (cnt s) (upd (pcs s) t (A2 k)) (todo s)) else None
  | A2 k => Some (mk (mtx s) (repo s) (cnt s) (upd (pcs s) t (A3 k)) (todo s))
  | A3 k => Some (mk None (repo s) (cnt s) (upd (pcs s) t (W k)) (todo s))
  | D2 => Some (mk (mtx s) (repo s) (cnt s) (upd (pcs s) t D3) (todo s))
  | D3 => Some (mk None (repo s) (cnt s) (upd (pcs s) t D4) (todo s))
  | D4 => if free s then Some (mk (Some t) (repo s) (cnt s) (upd (pcs s) t D5) (todo s)) else None
  | D5 => Some (mk (mtx s) (remove_tid t (repo s)) (pred (cnt s)) (upd (pcs s) t D6) (todo s))
  | D6 => Some (mk None (repo s) (cnt s) (upd (pcs s) t Out) (todo s))
  end.

Definition init (progs : tid -> list nat) : state := mk None [] 0 (fun _ => Out) progs.

Inductive reachable (progs : tid -> list nat) : state -> Prop :=
| R_init : reachable progs (init progs)
| R_step : forall s t s', reachable progs s -> step t s = Some s' -> reachable progs s'.

Record Inv (s : state) : Prop := {
  I_mtx  : forall t, holding (pcs s t) = true <-> mtx s = Some t;
  I_reg  : forall t, In t (repo s) <-> registered (pcs s t) = true;
  I_nodup: NoDup (repo s);
  I_cnt  : cnt s = length (repo s);
}.

Lemma upd_same {A} (f : tid -> A) t v : upd f t v t = v.
Proof. unfold upd. now rewrite Nat.eqb_refl. Qed.
Lemma upd_other {A} (f : tid -> A) t v u : u <> t -> upd f t v u = f u.
Proof. unfold upd. intros H. destruct (Nat.eqb_spec u t); [contradiction|reflexivity]. Qed.

Lemma in_remove_tid t u l : NoDup l -> (In u (remove_tid t l) <-> In u l /\ u <> t).
Proof.
  induction l as [|x l IH]; intros ND; simpl.
  - tauto.
  - inversion ND as [|? ? Hx ND']; subst. destruct (Nat.eqb_spec x t) as [->|Hne].
    + split; [intros H; split; [now right| intros ->; contradiction] | intros [[->|H] Hn]; [contradiction|exact H]].
    + simpl. rewrite IH by assumption. split.
      * intros [->|[H1 H2]]; [split; [now left|assumption] | split; [now right|assumption]].
      * intros [[->|H1] H2]; [now left | right; split; assumption].
Qed.

Lemma nodup_remove_tid t l : NoDup l -> NoDup (remove_tid t l).
Proof.
  induction l as [|x l IH]; intros ND; simpl; [constructor|].
  inversion ND as [|? ? Hx ND']; subst. destruct (Nat.eqb_spec x t); [assumption|].
  constructor; [|now apply IH]. rewrite in_remove_tid by assumption. tauto.
Qed.

Lemma length_remove_tid t l : In t l -> length (remove_tid t l) = pred (length l).
Proof.
  induction l as [|x l IH]; simpl; [tauto|]. intros [->|H].
  - now rewrite Nat.eqb_refl.
  - destruct (Nat.eqb_spec x t); [reflexivity|]. simpl. rewrite IH by assumption. destruct l; [contradiction|reflexivity].
Qed.

Lemma existsb_in t l : existsb (Nat.eqb t) l = true <-> In t l.
Proof.
  rewrite existsb_exists. split.
  - intros [x [H E]]. apply Nat.eqb_eq in E. now subst.
  - intros H. exists t. split; [assumption|apply Nat.eqb_refl].
Qed.

Lemma nodup_snoc (t : tid) l : NoDup l -> ~ In t l -> NoDup (l ++ [t]).
Proof.
  intros ND Hn. induction l as [|x l IH]; simpl; [constructor; [tauto|constructor]|].
  inversion ND as [|? ? Hx ND']; subst. constructor.
  - rewrite in_app_iff. simpl. intros [H|[H|[]]]; [contradiction|]. subst. apply Hn. now left.
  - apply IH; [assumption|]. intros H. apply Hn. now right.
Qed.

Lemma free_none s : free s = true -> mtx s = None.
Proof. unfold free. destruct (mtx s); [discriminate|reflexivity]. Qed.

(* the two pointwise clauses, for a step of thread t that moves t to p' and sets the mutex to m' *)
Lemma mtx_clause s t p' m' :
  (forall u, holding (pcs s u) = true <-> mtx s = Some u) ->
  (holding p' = true <-> m' = Some t) ->
  (forall u, u <> t -> (mtx s = Some u <-> m' = Some u)) ->
  forall u, holding (upd (pcs s) t p' u) = true <-> m' = Some u.
Proof.
  intros Hm Hself Hoth u. destruct (Nat.eq_dec u t) as [->|Hne].
  - now rewrite upd_same.
  - rewrite upd_other by assumption. rewrite Hm. now apply Hoth.
Qed.

Lemma reg_clause s t p' r' :
  (forall u, In u (repo s) <-> registered (pcs s u) = true) ->
  (In t r' <-> registered p' = true) ->
  (forall u, u <> t -> (In u (repo s) <-> In u r')) ->
  forall u, In u r' <-> registered (upd (pcs s) t p' u) = true.
Proof.
  intros Hr Hself Hoth u. destruct (Nat.eq_dec u t) as [->|Hne].
  - now rewrite upd_same.
  - rewrite upd_other by assumption. rewrite <- Hr. symmetry. now apply Hoth.
Qed.

Theorem step_inv t s s' : Inv s -> step t s = Some s' -> Inv s'.
Proof.
  intros [Hm Hr Hn Hc] Hs. unfold step in Hs.
  pose proof (Hm t) as Hmt. pose proof (Hr t) as Hrt.
  destruct (pcs s t) as [|k|k|k|k|k|k| | | | |] eqn:Hp; simpl in Hmt, Hrt.
  - (* Out *) destruct (todo s t) as [|k rest]; [discriminate|]. injection Hs as <-. split; simpl; try assumption.
    + apply mtx_clause; [assumption| |tauto]. simpl. rewrite <- Hmt. tauto.
    + apply reg_clause; [assumption| |tauto]. simpl. tauto.
  - (* C1 *) destruct (free s) eqn:Hf; [|discriminate]. apply free_none in Hf. injection Hs as <-. split; simpl; try assumption.
    + apply mtx_clause; [assumption|simpl; tauto|]. intros u Hu. rewrite Hf. split; [discriminate|intros H; injection H as ->; contradiction].
    + apply reg_clause; [assumption| |tauto]. simpl. tauto.
  - (* C2 *) assert (Hmt' : mtx s = Some t) by (apply Hmt; reflexivity).
    destruct (existsb (Nat.eqb t) (repo s)) eqn:He; injection Hs as <-; split; simpl; try assumption.
    + apply mtx_clause; [assumption|simpl; tauto|tauto].
    + apply existsb_in in He. apply reg_clause; [assumption|simpl; tauto|tauto].
    + apply mtx_clause; [assumption|simpl; tauto|tauto].
    + apply reg_clause; [assumption| |].
      * simpl. rewrite in_app_iff. simpl. tauto.
      * intros u Hu. rewrite in_app_iff. simpl. split; [tauto|intros [H|[H|[]]]; [assumption|congruence]].
    + apply nodup_snoc; [assumption|]. intros H. apply Hrt in H. discriminate.
    + rewrite app_length. simpl. lia.
  - (* C3 *) assert (Hmt' : mtx s = Some t) by (apply Hmt; reflexivity). injection Hs as <-. split; simpl; try assumption.
    + apply mtx_clause; [assumption|simpl; split; discriminate|]. intros u Hu. rewrite Hmt'. split; [intros H; injection H as ->; contradiction|discriminate].
    + apply reg_clause; [assumption|simpl; tauto|tauto].
  - (* W *) destruct k as [|k]; destruct (free s) eqn:Hf; try discriminate; apply free_none in Hf; injection Hs as <-; split; simpl; try assumption.
    + apply mtx_clause; [assumption|simpl; tauto|]. intros u Hu. rewrite Hf. split; [discriminate|intros H; injection H as ->; contradiction].
    + apply reg_clause; [assumption|simpl; tauto|tauto].
    + apply mtx_clause; [assumption|simpl; tauto|]. intros u Hu. rewrite Hf. split; [discriminate|intros H; injection H as ->; contradiction].
    + apply reg_clause; [assumption|simpl; tauto|tauto].
  - (* A2 *) assert (Hmt' : mtx s = Some t) by (apply Hmt; reflexivity). injection Hs as <-. split; simpl; try assumption.
    + apply mtx_clause; [assumption|simpl; tauto|tauto].
    + apply reg_clause; [assumption|simpl; tauto|tauto].
  - (* A3 *) assert (Hmt' : mtx s = Some t) by (apply Hmt; reflexivity). injection Hs as <-. split; simpl; try assumption.
    + apply mtx_clause; [assumption|simpl; split; discriminate|]. intros u Hu. rewrite Hmt'. split; [intros H; injection H as ->; contradiction|discriminate].
    + apply reg_clause; [assumption|simpl; tauto|tauto].
  - (* D2 *) assert (Hmt' : mtx s = Some t) by (apply Hmt; reflexivity). injection Hs as <-. split; simpl; try assumption.
    + apply mtx_clause; [assumption|simpl; tauto|tauto].
    + apply reg_clause; [assumption|simpl; tauto|tauto].
  - (* D3 *) assert (Hmt' : mtx s = Some t) by (apply Hmt; reflexivity). injection Hs as <-. split; simpl; try assumption.
    + apply mtx_clause; [assumption|simpl; split; discriminate|]. intros u Hu. rewrite Hmt'. split; [intros H; injection H as ->; contradiction|discriminate].
    + apply reg_clause; [assumption|simpl; tauto|tauto].
  - (* D4 *) destruct (free s) eqn:Hf; [|discriminate]. apply free_none in Hf. injection Hs as <-. split; simpl; try assumption.
    + apply mtx_clause; [assumption|simpl; tauto|]. intros u Hu. rewrite Hf. split; [discriminate|intros H; injection H as ->; contradiction].
    + apply reg_clause; [assumption|simpl; tauto|tauto].
  - (* D5 *) assert (Hmt' : mtx s = Some t) by (apply Hmt; reflexivity). injection Hs as <-. split; simpl.
    + apply mtx_clause; [assumption|simpl; tauto|tauto].
    + apply reg_clause; [assumption| |].
      * simpl. rewrite in_remove_tid by assumption. split; [tauto|discriminate].
      * intros u Hu. rewrite in_remove_tid by assumption. tauto.
    + now apply nodup_remove_tid.
    + rewrite length_remove_tid; [now rewrite Hc | apply Hrt; reflexivity].
  - (* D6 *) assert (Hmt' : mtx s = Some t) by (apply Hmt; reflexivity). injection Hs as <-. split; simpl; try assumption.
    + apply mtx_clause; [assumption|simpl; split; discriminate|]. intros u Hu. rewrite Hmt'. split; [intros H; injection H as ->; contradiction|discriminate].
    + apply reg_clause; [assumption|simpl; tauto|tauto].
Qed.

Theorem C09_inv progs s : reachable progs s -> Inv s.
Proof.
  induction 1 as [|s t s' _ IH Hs].
  - split; simpl.
    + intros u; split; discriminate.
    + intros u; split; [tauto|discriminate].
    + constructor.
    + reflexivity.
  - eapply step_inv; eassumption.
Qed.

(* every accessor lookup (A2 -> A3) and the dtor's lookup find exactly the caller's own, unique entry *)
Corollary C09_own_entry progs s t k : reachable progs s -> pcs s t = A2 k \/ pcs s t = D2 ->
  In t (repo s) /\ NoDup (repo s) /\ mtx s = Some t.
Proof.
  intros R Hp. destruct (C09_inv _ _ R) as [Hm Hr Hn _].
  repeat split; [apply Hr | assumption | apply Hm]; destruct Hp as [-> | ->]; reflexivity.
Qed.

Definition finished (s : state) (t : tid) := pcs s t = Out /\ todo s t = [].

(* deadlock freedom: whenever some thread is unfinished, some thread can step *)
Theorem C09_progress progs s : reachable progs s -> (exists t, ~ finished s t) -> exists t s', step t s = Some s'.
Proof.
  intros R [t Hnf]. destruct (C09_inv _ _ R) as [Hm _ _ _].
  destruct (mtx s) as [u|] eqn:Hmu.
  - (* the holder can always move *)
    exists u. assert (Hh : holding (pcs s u) = true) by (apply Hm; reflexivity).
    unfold step. destruct (pcs s u); try discriminate Hh; try (eexists; reflexivity).
    destruct (existsb (Nat.eqb u) (repo s)); eexists; reflexivity.
  - (* nobody holds the mutex: the unfinished thread can move *)
    exists t. unfold step, free. rewrite Hmu. unfold finished in Hnf.
    destruct (pcs s t) as [|k|k|k|k|k|k| | | | |] eqn:Hp; try (eexists; reflexivity).
    + destruct (todo s t); [exfalso; apply Hnf; split; reflexivity | eexists; reflexivity].
    + destruct (existsb (Nat.eqb t) (repo s)); eexists; reflexivity.
    + destruct k; eexists; reflexivity.
Qed.

(* quiescence: when every thread is outside the library the repository is empty and the count is 0 *)
Theorem C09_quiescent progs s : reachable progs s -> (forall t, pcs s t = Out) -> repo s = [] /\ cnt s = 0.
Proof.
  intros R Hall. destruct (C09_inv _ _ R) as [_ Hr _ Hc].
  assert (repo s = []) as E.
  { destruct (repo s) as [|x l]; [reflexivity|]. exfalso.
    assert (In x (x :: l)) as H by now left. apply Hr in H. rewrite Hall in H. discriminate. }
  split; [assumption|]. rewrite Hc, E. reflexivity.
Qed.

Print Assumptions C09_inv.
Print Assumptions C09_progress.
Print Assumptions C09_quiescent.
