From Coq Require Import List Arith Lia Bool.
Import ListNotations.
Require Import Spike_C09_Tsrm.

(* Spike for C10: fork() copies the global state; in the child only the forking thread t exists. *)

(* Current code: no atfork handler, the child inherits the state as it is. *)
Definition child_current (s : state) : state := s.

(* Repaired code: prepare handler takes the mutex (so fork happens only when it is free or ours),
   child handler re-initialises the mutex and discards the inherited entries. *)
Definition fork_enabled_repaired (s : state) : bool := free s.
Definition child_repaired (s : state) : state := mk None [] 0 (pcs s) (todo s).

(* run thread t alone for n steps; None = t is blocked (cannot step although not finished) *)
Fixpoint run_alone (n : nat) (t : tid) (s : state) : option state :=
  match n with
  | 0 => Some s
  | S n' => match step t s with
            | None => None
            | Some s' => run_alone n' t s'
            end
  end.

(* --- refutation on the current code: two threads, thread 1 is inside the ctor's critical section --- *)
Definition progs2 : tid -> list nat := fun t => if Nat.leb t 1 then [0] else [].
Definition s_1 : state := match step 1 (init progs2) with Some s => s | None => init progs2 end.
Definition s_bad : state := match step 1 s_1 with Some s => s | None => s_1 end.

Lemma s_bad_reachable : reachable progs2 s_bad.
Proof.
  apply (R_step progs2 s_1 1 s_bad); [|reflexivity].
  apply (R_step progs2 (init progs2) 1 s_1); [apply R_init|reflexivity].
Qed.

Theorem C10_refuted :
  exists progs s t, reachable progs s /\ pcs s t = Out /\ todo s t <> [] /\
                    forall n, 2 <= n -> run_alone n t (child_current s) = None.
Proof.
  exists progs2, s_bad, 0. split; [apply s_bad_reachable|]. split; [reflexivity|]. split; [discriminate|].
  intros n Hn. destruct n as [|[|n]]; try lia. reflexivity.
Qed.

(* --- repaired: the child completes its call, whatever the parent was doing --- *)

(* single-thread execution lemmas *)
Lemma run_alone_app n m t s s' : run_alone n t s = Some s' -> run_alone (n + m) t s = run_alone m t s'.
Proof.
  revert s; induction n as [|n IH]; intros s; simpl.
  - intros H; injection H as <-; reflexivity.
  - destruct (step t s) as [s1|]; [apply IH|discriminate].
Qed.

Definition alone_ok (t : tid) (s : state) := mtx s = None /\ In t (repo s).

Lemma upd_same' {A} (f : tid -> A) t v : upd f t v t = v.
Proof. apply upd_same. Qed.

(* from W k with the mutex free and t registered, 3*k+2+3 steps bring t back to Out *)
Lemma accessors_then_dtor t : forall k s, pcs s t = W k -> mtx s = None -> In t (repo s) ->
  exists s', run_alone (3 * k + 6) t s = Some s' /\ pcs s' t = Out /\ todo s' t = todo s t /\ mtx s' = None.
Proof.
  induction k as [|k IH]; intros s Hp Hm Hin.
  - (* W 0 -> D2 -> D3 -> D4 -> D5 -> D6 -> Out *)
    simpl run_alone. unfold step at 1. rewrite Hp. unfold free. rewrite Hm. cbn [mk pcs mtx repo cnt todo].
    unfold step at 1. cbn [mk pcs mtx repo cnt todo]. rewrite upd_same.
    unfold step at 1. cbn [mk pcs mtx repo cnt todo]. rewrite upd_same.
    unfold step at 1. cbn [mk pcs mtx repo cnt todo]. rewrite upd_same. unfold free. cbn [mtx mk].
    unfold step at 1. cbn [mk pcs mtx repo cnt todo]. rewrite upd_same.
    unfold step at 1. cbn [mk pcs mtx repo cnt todo]. rewrite upd_same.
    eexists. split; [reflexivity|]. cbn [mk pcs mtx repo cnt todo]. rewrite upd_same. auto.
  - replace (3 * S k + 6) with (3 + (3 * k + 6)) by lia.
    assert (exists s1, run_alone 3 t s = Some s1 /\ pcs s1 t = W k /\ mtx s1 = None /\ repo s1 = repo s /\ todo s1 t = todo s t) as [s1 [R1 [P1 [M1 [Q1 T1]]]]].
    { simpl run_alone. unfold step at 1. rewrite Hp. unfold free. rewrite Hm. cbn [mk pcs mtx repo cnt todo].
      unfold step at 1. cbn [mk pcs mtx repo cnt todo]. rewrite upd_same.
      unfold step at 1. cbn [mk pcs mtx repo cnt todo]. rewrite upd_same.
      eexists. split; [reflexivity|]. cbn [mk pcs mtx repo cnt todo]. rewrite upd_same. auto. }
    rewrite (run_alone_app _ _ _ _ _ R1).
    destruct (IH s1 P1 M1) as [s' [R [P [T M]]]]; [now rewrite Q1|].
    exists s'. repeat split; try assumption. now rewrite T.
Qed.

Theorem C10_child_completes progs s t k rest :
  reachable progs s -> pcs s t = Out -> todo s t = k :: rest -> fork_enabled_repaired s = true ->
  exists n c', run_alone n t (child_repaired s) = Some c' /\ pcs c' t = Out /\ todo c' t = rest.
Proof.
  intros _ Hp Ht _.
  (* Out -> C1 -> C2 -> C3 -> W k : four steps, the entry is pushed because the child's repository is empty *)
  assert (exists s1, run_alone 4 t (child_repaired s) = Some s1 /\ pcs s1 t = W k /\ mtx s1 = None /\ In t (repo s1) /\ todo s1 t = rest)
    as [s1 [R1 [P1 [M1 [I1 T1]]]]].
  { unfold child_repaired. simpl run_alone.
    unfold step at 1. cbn [mk pcs mtx repo cnt todo]. rewrite Hp, Ht.
    unfold step at 1. cbn [mk pcs mtx repo cnt todo]. rewrite upd_same. unfold free. cbn [mtx mk].
    unfold step at 1. cbn [mk pcs mtx repo cnt todo existsb]. rewrite upd_same.
    unfold step at 1. cbn [mk pcs mtx repo cnt todo]. rewrite upd_same.
    eexists. split; [reflexivity|]. cbn [mk pcs mtx repo cnt todo]. rewrite !upd_same. simpl. auto. }
  destruct (accessors_then_dtor t k s1 P1 M1 I1) as [c' [R [P [T M]]]].
  exists (4 + (3 * k + 6)), c'. rewrite (run_alone_app _ _ _ _ _ R1). repeat split; try assumption. now rewrite T.
Qed.

Print Assumptions C10_refuted.
Print Assumptions C10_child_completes.
