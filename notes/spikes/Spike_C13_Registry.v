From Coq Require Import List Arith Lia Bool.
Import ListNotations.

(* Spike for C13: two parallel arrays whose rows carry preprocessor guards. *)
Section Registry.
  Variables (guard name impl : Type).
  Variable name_eqb : name -> name -> bool.
  Hypothesis name_eqb_spec : forall a b, reflect (a = b) (name_eqb a b).
  Variable guard_eqb : guard -> guard -> bool.
  Hypothesis guard_eqb_eq : forall a b, guard_eqb a b = true -> a = b.

  Definition row A := (list guard * A)%type.          (* conjunction of the #ifdef guards around the row *)
  Definition on (cfg : guard -> bool) {A} (r : row A) := forallb cfg (fst r).
  Definition select (cfg : guard -> bool) {A} (rows : list (row A)) : list A := map snd (filter (on cfg) rows).

  Fixpoint index (n : name) (l : list name) : option nat :=
    match l with [] => None | x :: l' => if name_eqb x n then Some 0 else option_map S (index n l') end.

  (* genericregistry.c: getIdFromName then ptrs[id] *)
  Definition call (cfg : guard -> bool) (ns : list (row name)) (ps : list (row impl)) (n : name) : option impl :=
    match index n (select cfg ns) with None => None | Some i => nth_error (select cfg ps) i end.

  (* what the translator's output is checked for, by computation *)
  Fixpoint guards_eqb (a b : list guard) : bool :=
    match a, b with [], [] => true | x :: a', y :: b' => guard_eqb x y && guards_eqb a' b' | _, _ => false end.
  Variable impl_of : name -> impl.
  Variable impl_eqb : impl -> impl -> bool.
  Hypothesis impl_eqb_eq : forall a b, impl_eqb a b = true -> a = b.
  Fixpoint aligned (ns : list (row name)) (ps : list (row impl)) : bool :=
    match ns, ps with
    | [], [] => true
    | (gn, n) :: ns', (gp, p) :: ps' => guards_eqb gn gp && impl_eqb p (impl_of n) && aligned ns' ps'
    | _, _ => false
    end.

  Lemma guards_eqb_eq a : forall b, guards_eqb a b = true -> a = b.
  Proof.
    induction a as [|x a IH]; intros [|y b]; simpl; try discriminate; [reflexivity|].
    intros H. apply andb_true_iff in H as [H1 H2]. f_equal; [now apply guard_eqb_eq | now apply IH].
  Qed.

  Lemma aligned_select cfg : forall ns ps, aligned ns ps = true -> select cfg ps = map impl_of (select cfg ns).
  Proof.
    induction ns as [|[gn n] ns IH]; intros [|[gp p] ps]; simpl; try discriminate; [reflexivity|].
    intros H. apply andb_true_iff in H as [H H3]. apply andb_true_iff in H as [H1 H2].
    apply guards_eqb_eq in H1. apply impl_eqb_eq in H2. subst.
    specialize (IH ps H3). unfold select in *. cbn [filter].
    assert (E1 : on cfg (gp, impl_of n) = forallb cfg gp) by reflexivity.
    assert (E2 : on cfg (gp, n) = forallb cfg gp) by reflexivity.
    rewrite E1, E2. destruct (forallb cfg gp); cbn [map snd]; [f_equal|]; exact IH.
  Qed.

  Lemma index_nth n : forall l i, index n l = Some i -> nth_error l i = Some n.
  Proof.
    induction l as [|x l IH]; intros i; simpl; [discriminate|].
    destruct (name_eqb_spec x n) as [->|Hne]; [intros H; injection H as <-; reflexivity|].
    destruct (index n l) as [j|]; simpl; [|discriminate]. intros H; injection H as <-. simpl. now apply IH.
  Qed.

  Lemma index_in n : forall l, In n l -> exists i, index n l = Some i.
  Proof.
    induction l as [|x l IH]; simpl; [tauto|]. intros H.
    destruct (name_eqb_spec x n); [now exists 0|]. destruct H as [->|H]; [contradiction|].
    destruct (IH H) as [i ->]. now exists (S i).
  Qed.

  (* every available name invokes its own implementation, in every configuration *)
  Theorem C13_lookup_own ns ps : aligned ns ps = true ->
    forall cfg n, In n (select cfg ns) -> call cfg ns ps n = Some (impl_of n).
  Proof.
    intros Ha cfg n Hin. unfold call. destruct (index_in n _ Hin) as [i Hi]. rewrite Hi.
    rewrite (aligned_select cfg ns ps Ha). rewrite nth_error_map. now rewrite (index_nth n _ i Hi).
  Qed.

  (* a switched-off feature is an unknown name *)
  Theorem C13_off_is_unknown ns ps cfg n :
    ~ In n (select cfg ns) -> call cfg ns ps n = None.
  Proof.
    intros Hn. unfold call. destruct (index n (select cfg ns)) as [i|] eqn:E; [|reflexivity].
    exfalso. apply Hn. apply index_nth in E. eapply nth_error_In; eassumption.
  Qed.
End Registry.
Print Assumptions C13_lookup_own.
