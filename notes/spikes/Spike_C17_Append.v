From Coq Require Import List Arith Lia Bool Permutation Strings.Byte.
Import ListNotations.

(* Spike for C17: writers issue append-writes on O_APPEND descriptors; the kernel serialises them. *)
Definition chunk := list byte.                       (* argument of one write() *)

(* an interleaving of the writers' sequences, preserving each writer's own order *)
Inductive Merge : list (list chunk) -> list chunk -> Prop :=
| M_done : forall ws, Forall (fun w => w = []) ws -> Merge ws []
| M_pick : forall pre x w post l, Merge (pre ++ w :: post) l -> Merge (pre ++ (x :: w) :: post) (x :: l).

Definition file_after (init : list byte) (sched : list chunk) : list byte := init ++ concat sched.

Lemma concat_all_nil (ws : list (list chunk)) : Forall (fun w => w = []) ws -> concat ws = [].
Proof. induction 1 as [|w ws Hw _ IH]; simpl; [reflexivity|]. now rewrite Hw, IH. Qed.

Lemma merge_perm ws l : Merge ws l -> Permutation l (concat ws).
Proof.
  induction 1 as [ws H|pre x w post l _ IH].
  - now rewrite concat_all_nil.
  - rewrite concat_app in *. cbn [concat] in *.
    etransitivity; [apply perm_skip; exact IH|].
    rewrite <- (app_comm_cons w (concat post) x).
    apply (Permutation_middle (concat pre) (w ++ concat post) x).
Qed.

(* whole records: if every record is issued as exactly one write, the file is the old content followed by
   the records of all writers in some order - none split, none lost, old content untouched *)
Theorem C17_whole_records init (ws : list (list chunk)) sched :
  Merge ws sched -> exists p, Permutation p (concat ws) /\ file_after init sched = init ++ concat p.
Proof. intros M. exists sched. split; [now apply merge_perm | reflexivity]. Qed.

(* and the converse hazard: a record issued as two writes can be torn by another writer *)
Definition b (n : nat) : byte := match Byte.of_nat n with Some x => x | None => x00 end.
Example C17_torn : exists sched, Merge [[[b 65]; [b 66]]; [[b 67]]] sched /\ file_after [] sched = [b 65; b 67; b 66].
Proof.
  exists [[b 65]; [b 67]; [b 66]]. split; [|reflexivity].
  apply (M_pick [] [b 65] [[b 66]] [[[b 67]]]). simpl.
  apply (M_pick [[[b 66]]] [b 67] [] []). simpl.
  apply (M_pick [] [b 66] [] [[]]). simpl.
  apply M_done. repeat constructor.
Qed.
Print Assumptions C17_whole_records.
