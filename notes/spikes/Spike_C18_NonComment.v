From Coq Require Import List Arith Lia Bool Strings.Byte.
Import ListNotations.

(* Spike for C18/C19: the repaired etcLdSoPreload_findNonCommentLineContainingString finds an occurrence
   iff some occurrence of the (newline-free, non-empty) needle lies on a line whose first byte is not '#'. *)
Definition NL := x0a.  Definition HASH := x23.

Fixpoint prefixb (p s : list byte) : bool :=
  match p, s with [], _ => true | _ :: _, [] => false | a :: p', b :: s' => Byte.eqb a b && prefixb p' s' end.
Fixpoint strstr (s needle : list byte) : option nat :=
  if prefixb needle s then Some 0 else match s with [] => None | _ :: s' => option_map S (strstr s' needle) end.

Lemma strstr_Some s n : forall k, strstr s n = Some k ->
  prefixb n (skipn k s) = true /\ forall m, m < k -> prefixb n (skipn m s) = false.
Proof.
  induction s as [|b s IH]; intros k; cbn [strstr].
  - destruct (prefixb n []) eqn:E; [|discriminate]. intros H; injection H as <-. split; [exact E|intros m Hm; lia].
  - destruct (prefixb n (b :: s)) eqn:E.
    + intros H; injection H as <-. split; [exact E|intros m Hm; lia].
    + destruct (strstr s n) as [j|]; simpl; [|discriminate]. intros H; injection H as <-.
      destruct (IH j eq_refl) as [H1 H2]. split; [exact H1|]. intros m Hm. destruct m; [exact E|]. simpl. apply H2. lia.
Qed.

Lemma strstr_None s n : strstr s n = None -> forall m, prefixb n (skipn m s) = false.
Proof.
  induction s as [|b s IH]; cbn [strstr].
  - destruct (prefixb n []) eqn:E; [discriminate|]. intros _ m. destruct m; exact E.
  - destruct (prefixb n (b :: s)) eqn:E; [discriminate|].
    destruct (strstr s n) as [j|] eqn:Ej; simpl; [discriminate|]. intros _ m. destruct m; [exact E|]. simpl. now apply IH.
Qed.

(* not in the 8.16 standard library *)
Lemma skipn_skipn {A} x y (l : list A) : skipn x (skipn y l) = skipn (x + y) l.
Proof.
  revert l; induction y as [|y IH]; intros l.
  - now rewrite Nat.add_0_r.
  - replace (x + S y) with (S (x + y)) by lia. destruct l as [|a l]; simpl; [now rewrite skipn_nil|apply IH].
Qed.
Lemma nth_skipn {A} n i (l : list A) d : nth i (skipn n l) d = nth (n + i) l d.
Proof.
  revert l; induction n as [|n IH]; intros l; [reflexivity|].
  destruct l as [|a l]; simpl; [destruct i; reflexivity|apply IH].
Qed.
Lemma nth_firstn_lt {A} n i (l : list A) d : i < n -> nth i (firstn n l) d = nth i l d.
Proof.
  revert i l; induction n as [|n IH]; intros i l H; [lia|].
  destruct l as [|a l]; simpl; [destruct i; reflexivity|]. destruct i; [reflexivity|apply IH; lia].
Qed.

Section Scan.
  Variable needle : list byte.
  Hypothesis needle_nonempty : needle <> [].
  Hypothesis needle_no_nl : ~ In NL needle.
  Variable content : list byte.

  Definition occ (f : nat) : Prop := prefixb needle (skipn f content) = true.

  (* number of non-newline bytes immediately before position f; line start = f - that *)
  Fixpoint run_len (l : list byte) : nat :=        (* l = bytes before f, nearest first *)
    match l with [] => 0 | c :: l' => if Byte.eqb c NL then 0 else S (run_len l') end.
  Definition lstart (f : nat) : nat := f - run_len (rev (firstn f content)).
  Definition active (f : nat) : bool := negb (Byte.eqb (nth (lstart f) content x00) HASH).

  (* the repaired loop *)
  Fixpoint find (fuel pos : nat) : option nat :=
    match fuel with
    | 0 => None
    | S fuel' =>
      match strstr (skipn pos content) needle with
      | None => None
      | Some k => let f := pos + k in if active f then Some (lstart f) else find fuel' (f + length needle)
      end
    end.

  (* --- facts about occurrences --- *)
  Lemma prefixb_app p : forall s, prefixb p s = true -> exists r, s = p ++ r.
  Proof.
    induction p as [|a p IH]; intros s H; [now exists s|]. destruct s as [|b s]; [discriminate|]. simpl in H.
    apply andb_true_iff in H as [E H]. apply Byte.byte_dec_bl in E. subst. destruct (IH s H) as [r ->]. now exists r.
  Qed.

  Lemma occ_bound f : occ f -> f + length needle <= length content.
  Proof.
    unfold occ. intros H. destruct (prefixb_app _ _ H) as [r E].
    assert (length (skipn f content) = length needle + length r) by (rewrite E, app_length; reflexivity).
    rewrite skipn_length in H0. destruct needle; [congruence|]. simpl in *. lia.
  Qed.

  (* bytes inside an occurrence are not newlines *)
  Lemma occ_no_nl f i : occ f -> i < length needle -> nth (f + i) content x00 <> NL.
  Proof.
    unfold occ. intros H Hi. destruct (prefixb_app _ _ H) as [r E].
    rewrite <- (firstn_skipn f content) at 1.
    pose proof (occ_bound f H) as Hb.
    rewrite app_nth2 by (rewrite firstn_length; lia). rewrite firstn_length. replace (f + i - Nat.min f (length content)) with i by lia.
    rewrite E. rewrite app_nth1 by assumption. intros En. apply needle_no_nl. rewrite <- En. now apply nth_In.
  Qed.

  (* run_len over a newline-free block adds its length *)
  Lemma run_len_app l m : ~ In NL l -> run_len (l ++ m) = length l + run_len m.
  Proof.
    induction l as [|c l IH]; intros H; simpl; [reflexivity|].
    destruct (Byte.eqb c NL) eqn:E; [apply Byte.byte_dec_bl in E; subst; exfalso; apply H; now left|].
    rewrite IH; [reflexivity|]. intros Hin. apply H. now right.
  Qed.

  (* positions f <= g with no newline in [f, g) are on the same line *)
  Lemma lstart_same f g : f <= g -> g <= length content ->
    (forall i, f <= i < g -> nth i content x00 <> NL) -> lstart g = lstart f.
  Proof.
    intros Hfg Hg Hno. unfold lstart.
    assert (E : firstn g content = firstn f content ++ firstn (g - f) (skipn f content)).
    { rewrite <- (firstn_skipn f content) at 1. rewrite firstn_app, firstn_firstn, firstn_length.
      replace (Nat.min g f) with f by lia. replace (g - Nat.min f (length content)) with (g - f) by lia. reflexivity. }
    rewrite E, rev_app_distr. rewrite run_len_app.
    - rewrite rev_length, firstn_length, skipn_length. lia.
    - rewrite <- in_rev. intros Hin. apply In_nth with (d := x00) in Hin. destruct Hin as [i [Hi Hn]].
      rewrite firstn_length, skipn_length in Hi.
      rewrite nth_firstn_lt in Hn by lia.
      rewrite nth_skipn in Hn. apply (Hno (f + i)); [lia|exact Hn].
  Qed.

  Definition spec (pos : nat) : Prop := exists g, pos <= g /\ occ g /\ active g = true.

  Lemma find_sound fuel : forall pos r, find fuel pos = Some r -> spec pos.
  Proof.
    induction fuel as [|fuel IH]; intros pos r; cbn [find]; [discriminate|].
    destruct (strstr (skipn pos content) needle) as [k|] eqn:E; [|discriminate].
    apply strstr_Some in E. destruct E as [E _]. rewrite skipn_skipn in E.
    destruct (active (pos + k)) eqn:A.
    - intros _. exists (pos + k). split; [lia|]. split; [|exact A]. unfold occ. now rewrite Nat.add_comm.
    - intros H. destruct (IH _ _ H) as [g [Hg [Ho Ha]]]. exists g. split; [lia|]. now split.
  Qed.

  Lemma find_complete fuel : forall pos, length content < pos + fuel -> spec pos -> exists r, find fuel pos = Some r.
  Proof.
    induction fuel as [|fuel IH]; intros pos Hfuel [g [Hg [Ho Ha]]].
    - pose proof (occ_bound g Ho). destruct needle; [congruence|]. simpl in *. lia.
    - cbn [find]. destruct (strstr (skipn pos content) needle) as [k|] eqn:E.
      + destruct (strstr_Some _ _ _ E) as [E1 E2]. rewrite skipn_skipn in E1.
        assert (Hof : occ (pos + k)) by (unfold occ; now rewrite Nat.add_comm).
        destruct (active (pos + k)) eqn:A; [eauto|].
        (* f = pos + k is the least occurrence >= pos, so f <= g *)
        assert (Hfg : pos + k <= g).
        { destruct (Nat.le_gt_cases (pos + k) g); [assumption|]. exfalso.
          specialize (E2 (g - pos) ltac:(lia)). rewrite skipn_skipn in E2. replace (g - pos + pos) with g in E2 by lia.
          unfold occ in Ho. congruence. }
        (* g cannot overlap the comment occurrence f: it would be on the same (comment) line *)
        assert (Hgf : pos + k + length needle <= g).
        { destruct (Nat.le_gt_cases (pos + k + length needle) g); [assumption|]. exfalso.
          assert (lstart g = lstart (pos + k)) as El.
          { apply lstart_same; [assumption| pose proof (occ_bound g Ho); lia |].
            intros i Hi. replace i with (pos + k + (i - (pos + k))) by lia. apply occ_no_nl; [assumption|lia]. }
          unfold active in Ha, A. rewrite El in Ha. congruence. }
        apply IH.
        * assert (length needle <> 0) by (destruct needle; [congruence|simpl; lia]). lia.
        * exists g. repeat split; assumption.
      + exfalso. pose proof (strstr_None _ _ E (g - pos)) as N. rewrite skipn_skipn in N.
        replace (g - pos + pos) with g in N by lia. unfold occ in Ho. congruence.
  Qed.

  (* the statement used by C18/C19 *)
  Theorem noncomment_spec :
    (exists r, find (S (length content)) 0 = Some r) <-> (exists g, occ g /\ active g = true).
  Proof.
    split.
    - intros [r H]. destruct (find_sound _ _ _ H) as [g [_ [Ho Ha]]]. eauto.
    - intros [g [Ho Ha]]. apply find_complete; [lia|]. exists g. split; [lia|]. now split.
  Qed.
End Scan.
Print Assumptions noncomment_spec.
