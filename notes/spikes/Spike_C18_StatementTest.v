From Coq Require Import List Arith Lia Bool Strings.Byte.
Import ListNotations.

(* Spike for C18: statement test (not a proof) of  find_noncomment_line <-> line-level spec,
   exhaustively over all strings of length <= 7 on a 4-letter alphabet. *)
Definition NL := x0a.  Definition HASH := x23.  Definition A := x61.  Definition B := x62.

Fixpoint prefixb (p s : list byte) : bool :=
  match p, s with [], _ => true | _ :: _, [] => false | a :: p', b :: s' => Byte.eqb a b && prefixb p' s' end.
Fixpoint strstr (s needle : list byte) : option nat :=
  if prefixb needle s then Some 0 else match s with [] => None | _ :: s' => option_map S (strstr s' needle) end.

(* scan backwards from position f (exclusive of nothing: the C loop starts AT f) down to `low`:
   returns the index of the line start as the C code computes it *)
Fixpoint back (content : list byte) (low : nat) (f : nat) (fuel : nat) : nat :=
  match fuel with
  | 0 => f
  | S fuel' =>
    if Nat.leb f low then f
    else if Byte.eqb (nth f content x00) NL then f
    else back content low (f - 1) fuel'
  end.
Definition line_start_c (content : list byte) (low f : nat) : nat :=
  let p := back content low f (S f) in
  if Byte.eqb (nth p content x00) NL then S p else p.

(* cli-subroutines.c:335-362; fixed = backward scan bounded by the start of the content (D19 repaired),
   otherwise bounded by the previous search position (current code) *)
Fixpoint find_ncl (fixed : bool) (content needle : list byte) (from : nat) (fuel : nat) : option nat :=
  match fuel with
  | 0 => None
  | S fuel' =>
    match strstr (skipn from content) needle with
    | None => None
    | Some k =>
      let f := from + k in
      let ls := line_start_c content (if fixed then 0 else from) f in
      if Byte.eqb (nth ls content x00) HASH
      then find_ncl fixed content needle (f + length needle) fuel'
      else Some ls
    end
  end.
Definition has_active_mention_c fixed content needle :=
  match find_ncl fixed content needle 0 (S (length content)) with Some _ => true | None => false end.

(* spec: some line that does not start with '#' contains the needle *)
Fixpoint lines_aux (cur : list byte) (s : list byte) : list (list byte) :=
  match s with
  | [] => [rev cur]
  | c :: s' => if Byte.eqb c NL then rev cur :: lines_aux [] s' else lines_aux (c :: cur) s'
  end.
Definition lines := lines_aux [].
Definition is_comment (l : list byte) := match l with c :: _ => Byte.eqb c HASH | [] => false end.
Definition contains (l needle : list byte) := match strstr l needle with Some _ => true | None => false end.
Definition has_active_mention_spec content needle := existsb (fun l => negb (is_comment l) && contains l needle) (lines content).

Fixpoint all_strings (alpha : list byte) (n : nat) : list (list byte) :=
  match n with 0 => [[]] | S n' => [] :: flat_map (fun s => map (fun c => c :: s) alpha) (all_strings alpha n') end.

Definition needle := [A; B].
Definition agree fixed s := Bool.eqb (has_active_mention_c fixed s needle) (has_active_mention_spec s needle).
Definition universe := all_strings [NL; HASH; A; B] 7.

Eval vm_compute in (length universe).
(* the repaired scan agrees with the line-level spec on the whole universe *)
Eval vm_compute in (forallb (agree true) universe).
(* the current scan does not: first counterexample (a comment line with two mentions) *)
Eval vm_compute in (find (fun s => negb (agree false s)) universe).
