#!/usr/bin/env python3
# Spike for tie T2: call skeleton of every function of a C file from clang's JSON AST.
# usage: ast_skeleton_spike.py /repo src/tsrm.c
import json, subprocess, sys
repo, rel = sys.argv[1], sys.argv[2]
txt = subprocess.run(["clang", "-fsyntax-only", "-I.", "-Isrc", "-DHAVE_CONFIG_H", "-Xclang", "-ast-dump=json", rel],
                     capture_output=True, text=True, cwd=repo).stdout
root = json.loads(txt)
def strip(x):
    while x.get('kind') in ('ImplicitCastExpr', 'ParenExpr') and 'inner' in x: x = x['inner'][0]
    return x
def callee(n):
    c = n['inner'][0]
    while c.get('kind') in ('ImplicitCastExpr', 'ParenExpr', 'UnaryOperator') and 'inner' in c: c = c['inner'][0]
    return c.get('referencedDecl', {}).get('name', '?')
def skel(n, depth, out):
    k = n.get('kind')
    if k == 'CallExpr':
        args = []
        for a in n['inner'][1:]:
            x = strip(a)
            if x.get('kind') == 'UnaryOperator' and x.get('opcode') == '&':
                args.append('&' + strip(x['inner'][0]).get('referencedDecl', {}).get('name', '?'))
            elif x.get('kind') == 'DeclRefExpr': args.append(x['referencedDecl']['name'])
            else: args.append(x.get('kind'))
        out.append('  ' * depth + f"Call {callee(n)}({', '.join(args)})")
    tag = {'IfStmt': 'If', 'WhileStmt': 'While', 'ForStmt': 'For', 'ReturnStmt': 'Return', 'GotoStmt': 'Goto',
           'LabelStmt': 'Label', 'ContinueStmt': 'Continue', 'BreakStmt': 'Break'}.get(k)
    if tag:
        out.append('  ' * depth + tag + (' ' + n.get('name', '') if k == 'LabelStmt' else '')); depth += 1
    for c in n.get('inner', []): skel(c, depth, out)
for d in root['inner']:
    if d.get('kind') != 'FunctionDecl': continue
    body = [c for c in d.get('inner', []) if c.get('kind') == 'CompoundStmt']
    if not body: continue
    out = []; skel(body[0], 0, out)
    print(d['name'] + ":"); print("\n".join("   " + l for l in out))
