From Coq Require Import List Arith Bool Strings.Byte Strings.String Extraction ExtrOcamlBasic.
Import ListNotations.
Require Import Spike_C05_Expand.

Definition is_name (s : String.string) (n : list byte) : bool := prefixb (bytes s) n && Nat.eqb (List.length n) (String.length s).
Definition known_det (n : list byte) : bool := is_name "snoopy_literal"%string n || is_name "failure"%string n || is_name "noop"%string n.
Definition ds_det (n a : list byte) (sz : nat) : bool * list byte :=
  if is_name "failure"%string n then (true, firstn (sz - 1) (bytes "Artificial datasource failure triggered"%string))
  else if is_name "noop"%string n then (false, [])
  else (false, firstn (sz - 1) a).
Definition expand_det (llog lds : nat) (fmt : list byte) : list byte := expand known_det ds_det llog lds fmt.
Extraction "model.ml" expand_det Byte.to_N Byte.of_N Nat.of_num_uint.
