#include <stdio.h>
#include <stdlib.h>
#include <string.h>
void snoopy_message_generateFromFormat(char*, size_t, size_t, const char*);
void snoopy_init(void); void snoopy_cleanup(void);
void snoopy_configuration_preinit_disableConfigFileParsing(void);
int main(){ static char line[4000000]; snoopy_configuration_preinit_disableConfigFileParsing();
 while(fgets(line,sizeof line,stdin)){ unsigned llog, lds; char *h=malloc(strlen(line)+1); if(sscanf(line,"%u %u %s",&llog,&lds,h)!=3) continue;
  size_t n=strcmp(h,"-")?strlen(h)/2:0; char*fmt=malloc(n+1); for(size_t i=0;i<n;i++){unsigned v; sscanf(h+2*i,"%2x",&v); fmt[i]=v;} fmt[n]=0;
  char*out=malloc(llog+1); out[0]=0; snoopy_init(); snoopy_message_generateFromFormat(out,llog+1,lds+1,fmt); snoopy_cleanup();
  if(!*out) printf("-"); for(char*p=out;*p;p++) printf("%02x",(unsigned char)*p); printf("\n"); free(out); free(fmt); free(h);} return 0; }
