(* reads lines: llog lds hexfmt ; prints hex of the model's expansion *)
open Model
let rec nat_of_int n = if n <= 0 then O else S (nat_of_int (n-1))
let rec pos_of_int i = if i = 1 then XH else if i land 1 = 0 then XO (pos_of_int (i lsr 1)) else XI (pos_of_int (i lsr 1))
let n_of_int (i:int) : n = if i = 0 then N0 else Npos (pos_of_int i)
let rec int_of_pos = function XH -> 1 | XO p -> 2 * int_of_pos p | XI p -> 2 * int_of_pos p + 1
let int_of_n = function N0 -> 0 | Npos p -> int_of_pos p
let byte_of_int i = match of_N (n_of_int i) with Some b -> b | None -> assert false
let table = Array.init 256 byte_of_int
let int_of_byte b = int_of_n (to_N b)
let unhex s = let n = String.length s / 2 in List.init n (fun i -> table.(int_of_string ("0x" ^ String.sub s (2*i) 2)))
let hex l = let b = Buffer.create 64 in List.iter (fun x -> Buffer.add_string b (Printf.sprintf "%02x" (int_of_byte x))) l; if Buffer.length b = 0 then "-" else Buffer.contents b
let () =
  try while true do
    let line = input_line stdin in
    match String.split_on_char ' ' line with
    | [a; b; h] -> let fmt = if h = "-" then [] else unhex h in
                   print_endline (hex (expand_det (nat_of_int (int_of_string a)) (nat_of_int (int_of_string b)) fmt))
    | _ -> print_endline "?"
  done with End_of_file -> ()
