import random, sys
random.seed(int(sys.argv[1])); N=int(sys.argv[2])
def lit(n): return bytes(random.choice(b"ab %{}:") for _ in range(n))
for _ in range(N):
    llog=random.choice([255,256,300,1000,2047]); lds=random.choice([255,256,300,1000])
    parts=[]
    for _ in range(random.randint(0,6)):
        r=random.random()
        if r<0.4: parts.append(b"%{snoopy_literal:"+lit(random.choice([0,1,5,99,lds-1,lds,lds+1,llog-1,llog,llog+1])).replace(b"}",b"")+b"}")
        elif r<0.55: parts.append(random.choice([b"%{failure}",b"%{noop}",b"%{failure:x}",b"%{nosuch}",b"%{:}",b"%{}",b"%{snoopy_literal",b"%{snoopy_literalx}",b"%{snoopy_litera}"]))
        else: parts.append(lit(random.choice([0,1,7,lds,lds+1,llog-50,llog-1,llog,llog+1])))
    f=b"".join(parts)
    print(llog,lds,f.hex() or "-")
