(* Common helpers for the model-side drivers.  This file is concatenated after
   "open Model_<area>" so that it refers to that extraction's own datatypes
   (positive, n, byte).  No Obj.magic; byte <-> int goes through the extracted
   Byte.of_N / Byte.to_N. *)
let rec pos_of_int i = if i = 1 then XH else if i land 1 = 0 then XO (pos_of_int (i lsr 1)) else XI (pos_of_int (i lsr 1))
let n_of_int (i:int) : n = if i <= 0 then N0 else Npos (pos_of_int i)
let rec int_of_pos = function XH -> 1 | XO p -> 2 * int_of_pos p | XI p -> 2 * int_of_pos p + 1
let int_of_n = function N0 -> 0 | Npos p -> int_of_pos p
(* numbers in case files fit OCaml's 63-bit int *)
let n_of_string (s:String.t) : n = n_of_int (int_of_string s)
let byte_of_int i = match of_N (n_of_int i) with Some b -> b | None -> failwith "byte_of_int"
let table = Array.init 256 byte_of_int
let int_of_byte b = int_of_n (to_N b)
let unhex (s:String.t) : byte list =
  if s = "-" then [] else
  let n = String.length s / 2 in
  let rec go i acc = if i < 0 then acc else go (i-1) (table.(int_of_string ("0x" ^ String.sub s (2*i) 2)) :: acc) in
  go (n-1) []
let unhex_opt s = if s = "~" then None else Some (unhex s)
let hexdigits = "0123456789abcdef"
let hex (l : byte list) : String.t =
  match l with [] -> "-" | _ ->
  let b = Buffer.create 256 in
  List.iter (fun x -> let v = int_of_byte x in Buffer.add_char b hexdigits.[v lsr 4]; Buffer.add_char b hexdigits.[v land 15]) l;
  Buffer.contents b
let hex_opt = function None -> "~" | Some l -> hex l
let unhexlist (s:String.t) : byte list list =
  if s = "[]" then [] else List.map unhex (String.split_on_char ',' s)
let unhexlist_opt s = if s = "~" then None else Some (unhexlist s)
let hexlist (l : byte list list) : String.t = match l with [] -> "[]" | _ -> String.concat "," (List.map hex l)
let of_str (s:String.t) : byte list = List.init (String.length s) (fun i -> table.(Char.code s.[i]))
let to_str (l : byte list) : String.t = let b = Buffer.create 64 in List.iter (fun x -> Buffer.add_char b (Char.chr (int_of_byte x))) l; Buffer.contents b

(* constants file: one "key<TAB>value" per line; values are hex byte strings or decimal numbers *)
let load_consts path : (String.t, String.t) Hashtbl.t =
  let h = Hashtbl.create 64 in
  (try
    let ic = open_in path in
    (try while true do
      let line = input_line ic in
      match String.index_opt line '\t' with
      | Some i -> Hashtbl.replace h (String.sub line 0 i) (String.sub line (i+1) (String.length line - i - 1))
      | None -> ()
    done with End_of_file -> close_in ic)
  with Sys_error _ -> ());
  h
let cget h k = try Hashtbl.find h k with Not_found -> failwith ("missing constant " ^ k)
let cbytes h k = unhex (cget h k)
let cnum h k = n_of_string (cget h k)
let cbool h k = (cget h k) = "1"

let main_loop (handle : String.t list -> String.t) =
  try while true do
    let line = input_line stdin in
    let f = String.split_on_char '\t' line in
    let r = try handle f with Failure m -> "driver-error:" ^ m | Not_found -> "driver-error:notfound" | Stack_overflow -> "driver-error:stack" in
    print_string r; print_char '\n'
  done with End_of_file -> ()
