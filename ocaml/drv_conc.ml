(* model-side driver, area "conc" (C09, C10).  argv[1] = constants tsv (h_prepare, h_parent, h_child).
   Cases:
     dlist <ops>                          ops: p<v> push v | F<v> push v with a failing allocation | r<i> remove the i-th node | rN remove NULL
                                          -> ok <per-op results ;-separated>   each result: <opresult>:<count>:<v,v,v (walk with fetchNext)>
     enum <T> <calls> <ops> <P> <cap>     all schedules of T threads x calls wrapped calls with at most P preemptions (macro steps)
                                          -> ok <n> <truncated 0/1> <sched;sched;...>      sched = ids|kinds|t:c.c,t:c.c
     sample <T> <calls> <ops> <P> <n> <seed>   n random schedules with at most P preemptions, same output
     run <T> <calls> <ops> <ids>          replay one schedule -> ok <ids>|<kinds>|<counts>  (or blocked@<pos>)
     fork <ops> <k>                       C10 experiment -> ok <immediate|delayed> <completes|blocks> <parent-ok|parent-bad>
   ops: one letter per accessor call of a wrapped call: e = per-thread data lookup, n = thread count. *)
let h = load_consts (if Array.length Sys.argv > 1 then Sys.argv.(1) else "/nonexistent")
let hget k d = try Hashtbl.find h k with Not_found -> d
let hs = { h_prepare = (hget "h_prepare" "1" = "1"); h_parent = (hget "h_parent" "1" = "1");
           h_child = (match hget "h_child" "3" with "0" -> CNone | "1" -> CUnlock | "2" -> CReinit | _ -> CReinitClear);
           h_preinit = (hget "h_preinit" "0" = "1") }

let rec nat_of_int i = if i <= 0 then O else S (nat_of_int (i - 1))
let rec int_of_nat = function O -> 0 | S n -> 1 + int_of_nat n

let ops_of_string (s : String.t) : op list =
  List.init (String.length s) (fun i -> match s.[i] with 'n' -> OpCount | 'w' -> OpWrite (Cfg, nat_of_int i) | 'i' -> OpRead Ids | _ -> OpRead Cfg)

(* ---------------------------------------------------------------- dlist *)
let dlist_case (ops : String.t) : String.t =
  let hp = ref empty_heap and l = ref empty_list and next_addr = ref 1 in
  let walk () =
    (* addresses and values in list order, by fetchNext from NULL *)
    let rec go cur acc fuel =
      if fuel = 0 then List.rev ((-1, -1) :: acc) else
      match fetchNext !hp !l cur with
      | None -> List.rev ((-2, -2) :: acc)
      | Some O -> List.rev acc
      | Some a -> (match !hp a with
                   | Some nd -> go a ((int_of_nat a, int_of_nat nd.value) :: acc) (fuel - 1)
                   | None -> List.rev ((-3, -3) :: acc))
    in go O [] 10000 in
  let results = List.map (fun (o : String.t) ->
    let kind = o.[0] and arg = String.sub o 1 (String.length o - 1) in
    let res =
      match kind with
      | 'p' | 'F' ->
        let a = if kind = 'p' then (let x = !next_addr in incr next_addr; x) else 0 in
        (match push !hp !l (nat_of_int a) (nat_of_int (int_of_string arg)) with
         | Some ((h', l'), okb) -> hp := h'; l := l'; if okb then "ok" else "err"
         | None -> "fault")
      | 'r' ->
        let nodes = walk () in
        let target = if arg = "N" then 0 else (let i = int_of_string arg in if i < List.length nodes then fst (List.nth nodes i) else 0) in
        (match remove !hp !l (nat_of_int target) with
         | Some ((h', l'), Some v) -> hp := h'; l := l'; "v" ^ string_of_int (int_of_nat v)
         | Some ((h', l'), None) -> hp := h'; l := l'; "null"
         | None -> "fault")
      | _ -> "badop" in
    res ^ ":" ^ string_of_int (int_of_nat !l.count) ^ ":" ^ String.concat "," (List.map (fun (_, v) -> string_of_int v) (walk ()))
  ) (String.split_on_char ',' ops) in
  "ok\t" ^ String.concat ";" results

(* ---------------------------------------------------------------- schedules *)
let kind_of = function LStart -> 'S' | LOnce -> 'O' | LLock -> 'L' | LUnlock -> 'U' | LFork -> 'F' | _ -> '?'

let init_state nthreads calls ops =
  let prog = List.init calls (fun _ -> Call ops) in
  init hs (fun t -> if int_of_nat t < nthreads then prog else [])

let tids n = List.init n (fun i -> i)

let render nthreads (s : state) (rev_sched : (int * char) list) : String.t =
  let sched = List.rev rev_sched in
  String.concat "," (List.map (fun (t, _) -> string_of_int t) sched) ^ "|" ^
  String.concat "" (List.map (fun (_, k) -> String.make 1 k) sched) ^ "|" ^
  String.concat "," (List.map (fun t -> string_of_int t ^ ":" ^ String.concat "." (List.map (fun n -> string_of_int (int_of_nat n)) (s.counts (nat_of_int t)))) (tids nthreads)) ^
  (match s.repo, s.mtx with [], None -> "" | _, _ -> "|residue")

let enabled nthreads s =
  List.filter_map (fun t -> match macro hs (nat_of_int t) s with Some (l, s') -> Some (t, l, s') | None -> None) (tids nthreads)
let all_finished nthreads s = List.for_all (fun t -> finished s (nat_of_int t)) (tids nthreads)

exception Cap
let enumerate nthreads calls ops maxp cap =
  let out = ref [] and n = ref 0 and truncated = ref false in
  let rec dfs s cur budget rev_sched =
    let en = enabled nthreads s in
    if en = [] then begin
      let line = if all_finished nthreads s then render nthreads s rev_sched else render nthreads s rev_sched ^ "|deadlock" in
      out := line :: !out; incr n; if !n >= cap then (truncated := true; raise Cap)
    end else begin
      let cur_enabled = List.exists (fun (t, _, _) -> t = cur) en in
      List.iter (fun (t, l, s') ->
        let cost = if cur_enabled && t <> cur then 1 else 0 in
        if cost <= budget then dfs s' t (budget - cost) ((t, kind_of l) :: rev_sched)) en
    end in
  (try dfs (init_state nthreads calls ops) (-1) maxp [] with Cap -> ());
  (!n, !truncated, List.rev !out)

let sample nthreads calls ops maxp count seed =
  Random.init seed;
  let total_steps = nthreads * calls * (2 + 2 * (List.length ops + 3)) in
  let one () =
    let rec go s cur budget rev_sched =
      let en = enabled nthreads s in
      if en = [] then (if all_finished nthreads s then render nthreads s rev_sched else render nthreads s rev_sched ^ "|deadlock")
      else begin
        let cur_en = List.filter (fun (t, _, _) -> t = cur) en in
        let others = List.filter (fun (t, _, _) -> t <> cur) en in
        let pick l = List.nth l (Random.int (List.length l)) in
        let (t, l, s'), cost =
          match cur_en with
          | [c] ->
            if budget > 0 && others <> [] && Random.int (max 1 (total_steps / (maxp + 1))) = 0 then (pick others, 1) else (c, 0)
          | _ -> (pick en, 0) in
        go s' t (budget - cost) ((t, kind_of l) :: rev_sched)
      end in
    go (init_state nthreads calls ops) (-1) maxp [] in
  List.init count (fun _ -> one ())

let replay nthreads calls ops (ids : int list) =
  let rec go s pos rev_sched = function
    | [] -> render nthreads s rev_sched ^ (if all_finished nthreads s then "" else "|unfinished")
    | t :: rest ->
      (match macro hs (nat_of_int t) s with
       | Some (l, s') -> go s' (pos + 1) ((t, kind_of l) :: rev_sched) rest
       | None -> render nthreads s rev_sched ^ "|blocked@" ^ string_of_int pos) in
  go (init_state nthreads calls ops) 0 [] ids

let handle = function
  | ["dlist"; ops] -> dlist_case ops
  | ["enum"; t; c; ops; p; cap] ->
    let (n, tr, l) = enumerate (int_of_string t) (int_of_string c) (ops_of_string ops) (int_of_string p) (int_of_string cap) in
    "ok\t" ^ string_of_int n ^ "\t" ^ (if tr then "1" else "0") ^ "\t" ^ String.concat ";" l
  | ["sample"; t; c; ops; p; n; seed] ->
    let l = sample (int_of_string t) (int_of_string c) (ops_of_string ops) (int_of_string p) (int_of_string n) (int_of_string seed) in
    "ok\t" ^ string_of_int (List.length l) ^ "\t0\t" ^ String.concat ";" l
  | ["run"; t; c; ops; ids] ->
    "ok\t" ^ replay (int_of_string t) (int_of_string c) (ops_of_string ops) (List.map int_of_string (String.split_on_char ',' ids))
  | ["fork"; ops; k] ->
    (match fork_experiment hs (ops_of_string ops) (nat_of_int (int_of_string k)) with
     | Some ((imm, comp), par) -> "ok\t" ^ (if imm then "immediate" else "delayed") ^ "\t" ^ (if comp then "completes" else "blocks") ^ "\t" ^ (if par then "parent-ok" else "parent-bad")
     | None -> "ok\tno-fork\t-\t-")
  | _ -> "driver-error:bad-case"
let () = main_loop handle
