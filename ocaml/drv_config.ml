(* model-side driver, area "config" (C08; reused by C02/C11) *)
let h = load_consts (if Array.length Sys.argv > 1 then Sys.argv.(1) else "/nonexistent")
let clist h k = let s = cget h k in if s = "[]" then [] else String.split_on_char ',' s
let opt_of = function
  | "OErrorLogging" -> OErrorLogging | "OFilterChain" -> OFilterChain | "OMessageFormat" -> OMessageFormat | "OOutput" -> OOutput
  | "OFacility" -> OFacility | "OIdent" -> OIdent | "OLevel" -> OLevel | "ODsLen" -> ODsLen | "OLogLen" -> OLogLen | _ -> OUnknown
let type_of = function "TBool" -> TBool | "TString" -> TString | "TInt" -> TInt | _ -> TNone
let row s = match String.split_on_char ':' s with
  | [n; t; p; r] -> { row_name = unhex n; row_type = type_of t; row_parse = opt_of p; row_render = opt_of r }
  | _ -> failwith "row"
let str_num s = match String.split_on_char ':' s with [n; v] -> (unhex n, n_of_string v) | _ -> failwith "str_num"
let num_str s = match String.split_on_char ':' s with [v; n] -> (n_of_string v, unhex n) | _ -> failwith "num_str"
let cbyte h k = match cbytes h k with [b] -> b | _ -> table.(0)
let cc = {
  ini_max_line = cnum h "ini_max_line"; ini_max_section = cnum h "ini_max_section"; ini_max_name = cnum h "ini_max_name";
  ini_start_comment = cbytes h "ini_start_comment"; ini_inline_comment = cbytes h "ini_inline_comment"; ini_flags_ok = cbool h "ini_flags_ok";
  section_name = cbytes h "section_name"; options = List.map row (clist h "options");
  bool_true = cbytes h "bool_true"; bool_false = cbytes h "bool_false"; bool_yes = cbytes h "bool_yes"; bool_no = cbytes h "bool_no";
  log_prefix = cbytes h "log_prefix"; cfg_strips = cbool h "cfg_strips"; util_strips = cbool h "util_strips";
  output_sep = cbyte h "output_sep"; output_names = List.map unhex (clist h "output_names");
  fac_to_int = List.map str_num (clist h "fac_to_int"); fac_to_str = List.map num_str (clist h "fac_to_str");
  lvl_to_int = List.map str_num (clist h "lvl_to_int"); lvl_to_str = List.map num_str (clist h "lvl_to_str");
  syslog_invalid = cbytes h "syslog_invalid"; len_saturating = cbool h "len_saturating";
  suffix_k = cbytes h "suffix_k"; factor_k = cnum h "factor_k"; suffix_m = cbytes h "suffix_m"; factor_m = cnum h "factor_m";
  d_error_logging = cbool h "d_error_logging"; d_message_format = cbytes h "d_message_format"; d_filter_chain = cbytes h "d_filter_chain";
  d_output = cbytes h "d_output"; d_output_arg = cbytes h "d_output_arg"; d_facility = cnum h "d_facility"; d_ident = cbytes h "d_ident";
  d_level = cnum h "d_level"; ds_min = cnum h "ds_min"; ds_max = cnum h "ds_max"; ds_def = cnum h "ds_def";
  log_min = cnum h "log_min"; log_max = cnum h "log_max"; log_def = cnum h "log_def";
  conf_header = cbytes h "conf_header"; conf_section = cbytes h "conf_section"; conf_assign = cbytes h "conf_assign";
  conf_quote = cbool h "conf_quote"; conf_cont = cbool h "conf_cont"; conf_cont_sep = cbytes h "conf_cont_sep";
  doc_options = List.map unhex (clist h "doc_options"); doc_fac = List.map str_num (clist h "doc_fac"); doc_lvl = List.map str_num (clist h "doc_lvl");
  doc_ds_min = cnum h "doc_ds_min"; doc_ds_max = cnum h "doc_ds_max"; doc_ds_def = cnum h "doc_ds_def";
  doc_log_min = cnum h "doc_log_min"; doc_log_max = cnum h "doc_log_max"; doc_log_def = cnum h "doc_log_def" }

let hx1 l = if l = [] then "-" else hex l
let events_str evs = match evs with [] -> "[]" | _ -> String.concat "," (List.concat_map (fun ((s, n), v) -> [hx1 s; hx1 n; hx1 v]) evs)
let rec triples = function a :: b :: c :: r -> ((a, b), c) :: triples r | [] -> [] | _ -> failwith "triples"
let rec pairs = function a :: b :: r -> (a, b) :: pairs r | [] -> [] | _ -> failwith "pairs"
let cfg_str (g : cfg) =
  let shown = shown_of cc g in
  let s = match shown with [] -> "[]" | _ -> String.concat "," (List.concat_map (fun (n, v) -> [hx1 n; hx1 v]) shown) in
  Printf.sprintf "ok\t%s\t%d:%d:%d:%d:%d:%s:%s" s (if g.error_logging then 1 else 0) (int_of_n g.syslog_facility) (int_of_n g.syslog_level)
    (int_of_n g.ds_max_len) (int_of_n g.log_max_len) (hx1 g.output) (hx1 g.output_arg)

(* AST: "bom" flag, then items separated by '|', fields by ';' *)
let eol_of = function "n" -> ELF | "r" -> ECRLF | _ -> ENONE
let q_of = function "1" -> QDouble | "2" -> QSingle | _ -> QNone
let b1 s = match unhex s with [b] -> b | _ -> failwith "b1"
let item s = match String.split_on_char ';' s with
  | ["B"; w; e] -> (IBlank (unhex w), eol_of e)
  | ["C"; w; m; t; e] -> (IComment (unhex w, b1 m, unhex t), eol_of e)
  | ["S"; w; n; t; e] -> (ISection (unhex w, unhex n, unhex t), eol_of e)
  | ["K"; w1; k; w2; sep; w3; q; v; w4; cm; e] ->
    (IKeyValue (unhex w1, unhex k, unhex w2, b1 sep, unhex w3, q_of q, unhex v, unhex w4, (if cm = "~" then None else Some (unhex cm))), eol_of e)
  | ["N"; w; v; e] -> (ICont (unhex w, unhex v), eol_of e)
  | _ -> failwith "item"
let ast bom s = { f_bom = (bom = "1"); f_items = (if s = "" || s = "-" then [] else List.map item (String.split_on_char '|' s)) }

let handle = function
  | ["ini"; data] -> let (evs, err) = ini_events cc (unhex data) in Printf.sprintf "ok\t%d\t%s" (int_of_n err) (events_str evs)
  | ["load"; data] -> cfg_str (model_load cc (unhex data))
  | ["cb"; sec; name; value] -> cfg_str (model_cb cc (unhex sec) (unhex name) (unhex value))
  | ["conf"; path; data] -> "ok\t" ^ hx1 (model_conf cc (unhex path) (unhex data))
  | ["ast"; bom; items] ->
    let ((w, r), m) = model_ast cc (ast bom items) in Printf.sprintf "ok\t%d\t%s\t%s" (if w then 1 else 0) (hx1 r) (events_str m)
  (* spec <events> <shown pairs>  ->  ok | bad *)
  | ["spec"; evs; shown] ->
    let e = if evs = "[]" then [] else triples (List.map unhex (String.split_on_char ',' evs)) in
    let s = if shown = "[]" then [] else pairs (List.map unhex (String.split_on_char ',' shown)) in
    if spec_load_ok cc e s then "ok" else
      (match List.filter (fun (n, v) -> let o = opt_of_name n in opt_eqb o OUnknown || not (spec_option_ok cc e o v)) s with
       | (n, _) :: _ -> "bad:" ^ to_str n
       | [] -> "bad:missing-option")
  | ["constsok"] -> if config_consts_ok cc then "ok" else "bad"
  | _ -> "driver-error:bad-case"
let () = main_loop handle
