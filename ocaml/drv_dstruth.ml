(* model-side driver, area "dstruth" (C12)
   st  <ids> <cwd> <hostname> <ttys> <owners> <login> <environ> <passwd> <group> <cgroup> <status> <strftime> <file> <argv>   -> ok   (sets the current state)
   ev  <name> <arghex> <size>   -> <ret> <bufhex|~> | none        (eval_ds of the expected table / own models)
   doc <name> <arghex> <size>   -> same grammar                   (the documented table)
   cgsel <contenthex> <arghex>  -> <model line|~> <spec line|~>
   envall <environ> <size>      -> <model|fault> <spec> *)
let h = load_consts (if Array.length Sys.argv > 1 then Sys.argv.(1) else "/nonexistent")
let dc = { ea_comma_min = cnum h "ea_comma_min"; ea_sep = cbytes h "ea_sep"; ea_whole_margin = cnum h "ea_whole_margin";
           ea_cut_margin = cnum h "ea_cut_margin"; ea_marker_size = cnum h "ea_marker_size"; ea_marker = cbytes h "ea_marker";
           ea_null_guard = cbool h "ea_null_guard"; cg_path_fmt = cbytes h "cg_path_fmt"; cg_pid_is_getpid = cbool h "cg_pid_is_getpid";
           cg_none = cbytes h "cg_none"; cg_missing_arg = cbytes h "cg_missing_arg"; cg_num_fmt = cbytes h "cg_num_fmt";
           cg_line_sep = cbytes h "cg_line_sep"; cg_file_max = cnum h "cg_file_max"; rp_key_name = cbytes h "rp_key_name";
           rp_key_ppid = cbytes h "rp_key_ppid"; rp_unknown = cbytes h "rp_unknown"; rp_root_pid = cnum h "rp_root_pid";
           rp_zero_pid = cnum h "rp_zero_pid"; rp_val_max = cnum h "rp_val_max"; rp_path_fmt = cbytes h "rp_path_fmt";
           rp_start_is_getpid = cbool h "rp_start_is_getpid"; dt_default_fmt = cbytes h "dt_default_fmt"; dt_buf = cnum h "dt_buf";
           cfg_version = cbytes h "cfg_version"; cfg_configure_command = cbytes h "cfg_configure_command"; path_max = cnum h "path_max";
           login_name_max = cnum h "login_name_max" }
let ts_wide = (try cbool h "ts_wide" with _ -> false)
let cc = { sep = cbytes h "cmdline_sep"; unknown = cbytes h "cmdline_unknown" }

let z_of_int i = if i = 0 then Z0 else if i > 0 then Zpos (pos_of_int i) else Zneg (pos_of_int (-i))
let z_of_string s = z_of_int (int_of_string s)
let int_of_z = function Z0 -> 0 | Zpos p -> int_of_pos p | Zneg p -> - (int_of_pos p)
let split_list s = if s = "[]" || s = "" then [] else String.split_on_char ',' s
let pair s = match String.index_opt s ':' with Some i -> (String.sub s 0 i, String.sub s (i+1) (String.length s - i - 1)) | None -> failwith "pair"
let ttys s = List.map (fun e -> match String.split_on_char ':' e with
    | [fd; "N"; nm] -> (z_of_string fd, TtyName (unhex nm))
    | [fd; "E"; c] -> (z_of_string fd, TtyErr (z_of_string c))
    | _ -> failwith "tty") (split_list s)
let zmap s = List.map (fun e -> let (a, b) = pair e in (z_of_string a, unhex b)) (split_list s)
let bmap s = List.map (fun e -> let (a, b) = pair e in (unhex a, unhex b)) (split_list s)
let omap s = List.map (fun e -> let (a, b) = pair e in (unhex a, z_of_string b)) (split_list s)
let empty = { d_ids = []; d_cwd = None; d_hostname = []; d_ttys = []; d_owners = []; d_login = None; d_environ = None; d_passwd = [];
              d_group = []; d_cgroup = None; d_status = []; d_strftime = []; d_file = None; d_argv = None }
let cur = ref empty
let show = function
  | None -> "none"
  | Some o -> string_of_int (int_of_z o.o_ret) ^ "\t" ^ hex_opt o.o_buf

let handle = function
  | ["st"; ids; cwd; host; tt; own; login; env; pw; gr; cg; status; sf; file; argv] ->
    cur := { d_ids = List.map z_of_string (split_list ids); d_cwd = unhex_opt cwd; d_hostname = unhex host; d_ttys = ttys tt;
             d_owners = omap own; d_login = unhex_opt login; d_environ = unhexlist_opt env; d_passwd = zmap pw; d_group = zmap gr;
             d_cgroup = unhex_opt cg; d_status = zmap status; d_strftime = bmap sf; d_file = unhex_opt file; d_argv = unhexlist_opt argv };
    "ok"
  | ["ev"; name; arg; sz] -> show (run_eval dc ts_wide cc (of_str name) !cur (unhex arg) (n_of_string sz))
  | ["doc"; name; arg; sz] -> show (run_doc dc (of_str name) !cur (unhex arg) (n_of_string sz))
  | ["cgsel"; content; arg] -> hex_opt (cgroup_select (unhex content) (unhex arg)) ^ "\t" ^ hex_opt (cgroup_spec (unhex content) (unhex arg))
  | ["envall"; env; sz] ->
    (match env_all dc (unhexlist_opt env) (n_of_string sz) with Some w -> hex w | None -> "fault") ^ "\t" ^ hex (env_all_spec (unhexlist_opt env) (n_of_string sz))
  | _ -> "driver-error:bad-case"
let () = main_loop handle
