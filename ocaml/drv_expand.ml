(* model-side driver, area "expand" (C05, C06) *)
let h = load_consts (if Array.length Sys.argv > 1 then Sys.argv.(1) else "/nonexistent")
let ec = { tag_open = cbytes h "tag_open"; tag_close = cbytes h "tag_close"; tag_colon = cbytes h "tag_colon";
           e_close = cbytes h "e_close"; e_nf1 = cbytes h "e_nf1"; e_nf2 = cbytes h "e_nf2"; e_f1 = cbytes h "e_f1";
           e_f2 = cbytes h "e_f2"; e_f3 = cbytes h "e_f3"; ds_buf_adj = cnum h "ds_buf_adj";
           append_strict = cbool h "append_strict"; call_log_adj = cnum h "call_log_adj"; call_ds_adj = cnum h "call_ds_adj";
           hardmin_log = cnum h "hardmin_log"; hardmax_log = cnum h "hardmax_log"; hardmin_ds = cnum h "hardmin_ds";
           hardmax_ds = cnum h "hardmax_ds"; ident_buf = cnum h "ident_buf"; path_buf = cnum h "path_buf" }
let dc = { env_undefined = cbytes h "env_undefined"; failure_text = cbytes h "failure_text" }
let cc = { sep = cbytes h "cmdline_sep"; unknown = cbytes h "cmdline_unknown" }

let handle = function
  (* gen bufsize third fmt filename argv env  ->  ok <hex> *)
  | ["gen"; bs; th; fmt; file; argv; env] ->
    let w = { w_env = unhexlist env; w_file = unhex_opt file; w_argv = unhexlist_opt argv } in
    "ok\t" ^ hex (generate_det ec dc cc w (n_of_string bs) (n_of_string th) (unhex fmt))
  (* spec <same fields> out  ->  ok | bad *)
  | ["spec"; bs; th; fmt; file; argv; env; out] ->
    let w = { w_env = unhexlist env; w_file = unhex_opt file; w_argv = unhexlist_opt argv } in
    if spec_det ec dc cc w (n_of_string bs) (n_of_string th) (unhex fmt) (unhex out) then "ok" else "bad"
  (* cmdline size filename argv -> ok <hex> *)
  (* generr <as gen> -> ok <number of refused appends> *)
  | ["generr"; bs; th; fmt; file; argv; env] ->
    let w = { w_env = unhexlist env; w_file = unhex_opt file; w_argv = unhexlist_opt argv } in
    let rec nat_to_int = function O -> 0 | S n -> 1 + nat_to_int n in
    "ok\t" ^ string_of_int (nat_to_int (errors_det ec dc cc w (n_of_string bs) (n_of_string th) (unhex fmt)))
  | ["cmdline"; sz; file; argv] ->
    "ok\t" ^ hex (cmdline cc (unhex_opt file) (unhexlist_opt argv) (n_of_string sz))
  | ["filename"; sz; file] ->
    "ok\t" ^ hex (filename_ds (unhex file) (n_of_string sz))
  | _ -> "driver-error:bad-case"
let () = main_loop handle
