(* model-side driver, area "fault" (C03): plays the extracted wrapper program against an observed libc-boundary trace *)
let h = load_consts (if Array.length Sys.argv > 1 then Sys.argv.(1) else "/nonexistent")
let ec = { tag_open = cbytes h "tag_open"; tag_close = cbytes h "tag_close"; tag_colon = cbytes h "tag_colon";
           e_close = cbytes h "e_close"; e_nf1 = cbytes h "e_nf1"; e_nf2 = cbytes h "e_nf2"; e_f1 = cbytes h "e_f1";
           e_f2 = cbytes h "e_f2"; e_f3 = cbytes h "e_f3"; ds_buf_adj = cnum h "ds_buf_adj";
           append_strict = cbool h "append_strict"; call_log_adj = cnum h "call_log_adj"; call_ds_adj = cnum h "call_ds_adj";
           hardmin_log = cnum h "hardmin_log"; hardmax_log = cnum h "hardmax_log"; hardmin_ds = cnum h "hardmin_ds";
           hardmax_ds = cnum h "hardmax_ds"; ident_buf = cnum h "ident_buf"; path_buf = cnum h "path_buf" }
let clist k = let s = cget h k in if s = "[]" || s = "" then [] else List.map unhex (String.split_on_char ',' s)
let fc = { b_af_unix = cnum h "b_af_unix"; b_sock_dgram = cnum h "b_sock_dgram"; b_sock_typemask = cnum h "b_sock_typemask";
           b_sock_nonblock = cnum h "b_sock_nonblock"; b_sock_cloexec = cnum h "b_sock_cloexec";
           b_msg_dontwait = cnum h "b_msg_dontwait"; b_msg_nosignal = cnum h "b_msg_nosignal";
           b_o_accmode = cnum h "b_o_accmode"; b_o_wronly = cnum h "b_o_wronly"; b_o_creat = cnum h "b_o_creat"; b_o_append = cnum h "b_o_append";
           b_o_nonblock = cnum h "b_o_nonblock"; b_o_trunc = cnum h "b_o_trunc";
           sock_dom = cnum h "sock_dom"; sock_ty = cnum h "sock_ty"; send_flags = cnum h "send_flags"; sock_path_max = cnum h "sock_path_max";
           file_oflags = cnum h "file_oflags"; devtty_path = cbytes h "devtty_path"; devnull_path = cbytes h "devnull_path"; devlog_path = cbytes h "devlog_path";
           mode_ini = cbytes h "mode_ini"; mode_file = cbytes h "mode_file"; mode_rpname = cbytes h "mode_rpname"; mode_spawns = cbytes h "mode_spawns";
           mode_domain = cbytes h "mode_domain"; hosts_path = cbytes h "hosts_path";
           file_max = cnum h "file_max"; file_fread = cnum h "file_fread"; sp_read = cnum h "sp_read"; sp_min = cnum h "sp_min"; sp_comm_max = cnum h "sp_comm_max";
           rp_val_max = cnum h "rp_val_max"; err_guarded = cbool h "err_guarded"; err_msg_len = cnum h "err_msg_len";
           outputs_enabled = clist "outputs_enabled"; datasources_enabled = clist "datasources_enabled"; filters_enabled = clist "filters_enabled";
           filtering_compiled = cbool h "filtering_compiled" }
let z_of_int (i:int) : z = if i = 0 then Z0 else if i > 0 then Zpos (pos_of_int i) else Zneg (pos_of_int (-i))

(* configuration: filtering chain format logmax dsmax output arg ident errlog  (9 fields) *)
let cfg_of = function
  | [fe; chain; fmt; lm; dm; out; arg; ident; el] ->
    { cf_filtering = (fe = "1"); cf_chain = unhex chain; cf_format = unhex fmt; cf_logmax = n_of_string lm; cf_dsmax = n_of_string dm;
      cf_output = unhex out; cf_output_arg = unhex arg; cf_ident = unhex ident; cf_errlog = (el = "1") }
  | _ -> failwith "cfg"
let rec take n l = if n = 0 then [] else match l with x :: r -> x :: take (n-1) r | [] -> failwith "short"
let rec drop n l = if n = 0 then l else match l with _ :: r -> drop (n-1) r | [] -> failwith "short"

(* how each function reports failure: by a zero/NULL result, a negative result, or a non-zero result *)
let fail_zero = ["fopen"; "fgets"; "getcwd"; "localtime_r"]
let fail_neg = ["getline"; "open"; "socket"; "send"; "write"; "dprintf"; "fprintf"; "time"]
let never = ["getpid"; "getppid"; "setutent"; "endutent"; "openlog"; "syslog"; "closelog"; "REALEXEC"]
let outcome_of fn a1 a2 ret err data : outcome =
  let e = n_of_int err in
  if fn = "fread" then (if err <> 0 then OErr e else OOk (z_of_int (if a2 = "eof" || a2 = "eoferr" then 1 else 0), unhex data))
  else if List.mem fn never then OOk (z_of_int ret, unhex data)
  else if List.mem fn fail_zero then (if ret = 0 then OErr e else OOk (z_of_int ret, unhex data))
  else if List.mem fn fail_neg then (if ret < 0 then OErr e else OOk (z_of_int ret, unhex data))
  else if fn = "getpwuid_r" || fn = "getgrgid_r" then (if ret <> 0 then OErr (n_of_int ret) else OOk (z_of_int (if a1 = "found" then 1 else 0), []))
  else (if ret <> 0 then OErr (if err <> 0 then e else n_of_int (abs ret)) else OOk (z_of_int 0, unhex data))

(* observed calls: groups of 6 fields: fn a1 a2 ret errno data ; a1/a2 are hex for path/mode/address arguments, decimal text otherwise *)
let hexarg_fns = ["fopen"; "open"; "connect"; "stat"; "access"; "readlink"]
let rec obs_of = function
  | [] -> []
  | fn :: a1 :: a2 :: ret :: err :: data :: rest ->
    let arg fnn a = if a = "-" then [] else if List.mem fnn hexarg_fns then unhex a else of_str a in
    let a2b = if fn = "fopen" then (if a2 = "-" then [] else unhex a2) else (if a2 = "-" then [] else of_str a2) in
    { ob_fn = of_str fn; ob_a1 = arg fn a1; ob_a2 = a2b; ob_out = outcome_of fn a1 a2 (int_of_string ret) (int_of_string err) data } :: obs_of rest
  | _ -> failwith "trace"

(* pure answers: "name=value,name=value" (names hex), value a decimal integer; a leading '!' marks failure; "*" = default *)
let pure_of (s : String.t) =
  let tbl = Hashtbl.create 16 in
  let def = ref "1" in
  if s <> "-" then List.iter (fun kv -> match String.index_opt kv '=' with
      | Some i -> let k = String.sub kv 0 i and v = String.sub kv (i+1) (String.length kv - i - 1) in
                  if k = "*" then def := v else Hashtbl.replace tbl (to_str (unhex k)) v
      | None -> ()) (String.split_on_char ',' s);
  fun (w : byte list) ->
    let v = try Hashtbl.find tbl (to_str w) with Not_found -> !def in
    if String.length v > 0 && v.[0] = '!' then OErr (n_of_int 1) else OOk (z_of_int (int_of_string v), [])

let world_of = function
  | [sk; f1; f2; nss] ->
    let s = (match sk with "ok" -> SkOk | "absent" -> SkAbsent | "noperm" -> SkNoPerm | "nospace" -> SkNoSpace | "dgramfull" -> SkDgramFullUnread
                          | "fifo" -> SkFifoNoReader | "ttystopped" -> SkTtyStopped | _ -> failwith "sink") in
    let f x = (match x with "plain" -> FdPlain | "noreader" -> FdPipeNoReader | "full" -> FdPipeFullUnread | _ -> failwith "fd") in
    { w_sink = s; w_fd1 = f f1; w_fd2 = f f2; w_nss_local = (nss = "1") }
  | _ -> failwith "world"

let nat_of_int n = let rec go k acc = if k = 0 then acc else go (k-1) (S acc) in go n O

let handle = function
  (* accept ini_path fuel <cfg_none:9> <cfg_some:9> pure <obs:6 each>...   ->  ok ncalls npure | mismatch i model observed | ... *)
  | "accept" :: ini :: fuel :: rest ->
    let cn = cfg_of (take 9 rest) in let cs = cfg_of (take 9 (drop 9 rest)) in
    let rest = drop 18 rest in
    (match rest with
     | pure :: tr ->
       (match accept_wrapper fc ec (unhex ini) (nat_of_int (int_of_string fuel)) cn cs (pure_of pure) (obs_of tr) with
        | VAccept (n, np) -> "ok\t" ^ string_of_int (int_of_n n) ^ "\t" ^ string_of_int (int_of_n np)
        | VMismatch (i, m, o) -> "mismatch\t" ^ string_of_int (int_of_n i) ^ "\t" ^ to_str m ^ "\t" ^ hex o
        | VModelEnded (i, o) -> "model-ended\t" ^ string_of_int (int_of_n i) ^ "\t" ^ to_str o
        | VModelWants (i, m) -> "model-wants\t" ^ string_of_int (int_of_n i) ^ "\t" ^ to_str m
        | VHang i -> "hang\t" ^ string_of_int (int_of_n i))
     | [] -> failwith "accept")
  (* spec sink fd1 fd2 nss <obs...>  ->  ok | bad <why> *)
  | "spec" :: sk :: f1 :: f2 :: nss :: tr ->
    (match spec_trace_bad fc (world_of [sk; f1; f2; nss]) (obs_of tr) with
     | None -> "ok"
     | Some why -> "bad\t" ^ to_str why)
  | ["consts_ok"] -> if fault_consts_ok fc then "ok" else "bad"
  | _ -> "driver-error:bad-case"
let () = main_loop handle
