(* model-side driver, area "filter" (C07, C14) *)
let h = load_consts (if Array.length Sys.argv > 1 then Sys.argv.(1) else "/nonexistent")
let z_of_string (s:String.t) : z =
  let i = int_of_string s in
  if i = 0 then Z0 else if i > 0 then Zpos (pos_of_int i) else Zneg (pos_of_int (- i))
let fimpl_of_tag = function "1" -> FOnlyUid | "2" -> FExcludeUid | "3" -> FOnlyRoot | "4" -> FOnlyTty | "5" -> FExcludeSpawnsOf | "6" -> FNoop | _ -> FOther
let query_of = function "getuid" -> QGetuid | "geteuid" -> QGeteuid | _ -> QOther
let conv_of = function "atol" -> ConvAtol | "atoi" -> ConvAtoi | _ -> ConvOther
let cast_of (s:String.t) =
  let b = n_of_string (String.sub s 1 (String.length s - 1)) in
  if s.[0] = 's' then CastS b else CastU b
let split_list s = if s = "[]" || s = "" then [] else String.split_on_char ',' s
let fc = { chain_max = cnum h "chain_max"; copy_n = cnum h "copy_n"; term_idx = cnum h "term_idx"; name_max = cnum h "name_max";
           arg_max = cnum h "arg_max"; chain_delim = cbytes h "chain_delim"; name_delim = cbytes h "name_delim";
           ini_max_line = cnum h "ini_max_line"; default_chain = cbytes h "default_chain";
           reg_names = unhexlist (cget h "reg_names"); reg_ptrs = List.map fimpl_of_tag (split_list (cget h "reg_ptrs"));
           pass_val = z_of_string (cget h "pass_val"); drop_val = z_of_string (cget h "drop_val"); true_val = z_of_string (cget h "true_val");
           long_bits = cnum h "long_bits"; uid_bits = cnum h "uid_bits";
           only_query = query_of (cget h "only_query"); exclude_query = query_of (cget h "exclude_query"); root_query = query_of (cget h "root_query");
           only_conv = conv_of (cget h "only_conv"); exclude_conv = conv_of (cget h "exclude_conv");
           only_casts = List.map cast_of (split_list (cget h "only_casts")); exclude_casts = List.map cast_of (split_list (cget h "exclude_casts"));
           root_value = z_of_string (cget h "root_value");
           csv_delim = (match cbytes h "csv_delim" with [b] -> b | _ -> table.(0)) }

let fault_name = function OOB_write -> "oob_write" | OOB_read -> "oob_read" | Null_deref -> "null" | Signed_overflow -> "overflow"
                        | Out_of_fuel -> "fuel" | Double_free -> "double_free" | Other_fault -> "other"
let pd b = if b then "P" else "D"
let res_pd = function Ok b -> "ok\t" ^ pd b | Fault f -> "fault:" ^ fault_name f
(* table entries: tag/arghex/p|d *)
let parse_tbl s =
  List.map (fun e -> match String.split_on_char '/' e with
                     | [t; a; v] -> ((fimpl_of_tag t, unhex a), v = "p")
                     | _ -> failwith "tbl") (split_list s)
let which_of = function "only" -> UOnly | "exclude" -> UExclude | "root" -> URoot | _ -> failwith "which"
let rec int_of_nat = function O -> 0 | S n -> 1 + int_of_nat n

let handle = function
  | ["constsok"] -> "ok\t" ^ (if filter_consts_ok fc then "1" else "0")
  | ["chainok"] -> "ok\t" ^ (if chain_consts_ok fc then "1" else "0")
  | ["uidok"] -> "ok\t" ^ (if uid_consts_ok fc then "1" else "0")
  (* elems chain -> ok (name/arg/tag)* ; tag u = unknown name *)
  | ["elems"; chain] ->
    "ok" ^ String.concat "" (List.map (fun ((n, a), b) ->
        "\t" ^ hex n ^ "/" ^ hex a ^ "/" ^ (match b with Some f -> string_of_int (int_of_n (fimpl_tag f)) | None -> "u")) (elems fc (unhex chain)))
  (* chain ruid euid tty chain tbl -> ok P|D  (the chain combinator over the measured verdicts) *)
  | ["chain"; _; _; _; chain; tbl] -> res_pd (chain_tab fc (parse_tbl tbl) (unhex chain))
  | ["spec07"; chain; tbl; v] -> if spec_C07_ok fc (parse_tbl tbl) (unhex chain) (v = "P") then "ok" else "bad"
  (* full ruid euid tty chain -> ok P|D  (built-in filters modelled) *)
  | ["full"; r; e; tty; chain] -> res_pd (chain_full fc (n_of_string r) (n_of_string e) (tty = "1") (unhex chain))
  | ["uidf"; w; r; e; arg] | ["uidf"; w; r; e; arg; _] -> "ok\t" ^ pd (uid_filter fc (n_of_string r) (n_of_string e) (which_of w) (unhex arg))
  | ["spec14"; w; r; arg; v] -> if spec_C14_ok (n_of_string r) (which_of w) (unhex arg) (v = "P") then "ok" else "bad"
  | ["compl"; a; b] -> if spec_C14_complement (a = "P") (b = "P") then "ok" else "bad"
  | ["wf"; arg] -> "ok\t" ^ (if wf_list (unhex arg) then "1" else "0")
  | ["csv"; raw] -> let (n, items) = csv fc (unhex raw) in "ok\t" ^ string_of_int (int_of_nat n) ^ "\t" ^ hexlist items
  | _ -> "driver-error:bad-case"
let () = main_loop handle
