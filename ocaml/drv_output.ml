(* model-side driver, area "output" (C04, C17) *)
let h = load_consts (if Array.length Sys.argv > 1 then Sys.argv.(1) else "/nonexistent")
let cfmt k : fseg list =
  let s = cget h k in
  if s = "none" || s = "" then [] else
  List.map (fun t -> if t = "int" then FInt else if t = "str" then FStr else if t = "starstr" then FStarStr
                     else if String.length t > 4 && String.sub t 0 4 = "lit:" then FLit (unhex (String.sub t 4 (String.length t - 4)))
                     else failwith "fmt") (String.split_on_char ';' s)
let oc = { file_open_append = cbool h "file_open_append"; file_single_write = cbool h "file_single_write"; file_suffix = cbytes h "file_suffix";
           file_empty_arg_fails = cbool h "file_empty_arg_fails"; devtty_path = cbytes h "devtty_path"; devnull_path = cbytes h "devnull_path";
           stdout_fmt = cfmt "stdout_fmt"; stdout_to_os = cbool h "stdout_to_os"; stderr_fmt = cfmt "stderr_fmt"; stderr_to_os = cbool h "stderr_to_os";
           sock_nonblock = cbool h "sock_nonblock"; sock_cloexec = cbool h "sock_cloexec"; send_dontwait = cbool h "send_dontwait";
           send_nosignal = cbool h "send_nosignal"; sock_path_size = cnum h "sock_path_size"; sock_skips_empty = cbool h "sock_skips_empty";
           devlog_fmt = cfmt "devlog_fmt"; devlog_prec = cnum h "devlog_prec"; devlog_extra = cnum h "devlog_extra";
           devlog_ident_buf = cnum h "devlog_ident_buf"; devlog_path = cbytes h "devlog_path"; devlog_skips_empty = cbool h "devlog_skips_empty" }
let handle = function
  (* predict kind arg path ident prio pid filtering drop msg -> ok <n> (<sinktag> <sinkname> <bytes>)* *)
  | ["predict"; k; arg; path; ident; prio; pid; fe; drop; msg] ->
    let rs = predict oc (n_of_string k) (unhex arg) (unhex path) (unhex ident) (n_of_string prio) (n_of_string pid) (fe = "1") (drop = "1") (unhex msg) in
    "ok\t" ^ string_of_int (List.length rs) ^
    String.concat "" (List.map (fun (s, b) -> "\t" ^ string_of_int (int_of_n (sink_tag s)) ^ "\t" ^ hex (sink_name s) ^ "\t" ^ hex b) rs)
  (* predict_el kind arg path ident prio pid el filtering drop n_msg n_path n_ident err msg *)
  | ["predict_el"; k; arg; path; ident; prio; pid; el; fe; drop; n1; n2; n3; err; msg] ->
    let rec nat_of_int i = if i <= 0 then O else S (nat_of_int (i - 1)) in
    let rs = predict_el oc (n_of_string k) (unhex arg) (unhex path) (unhex ident) (n_of_string prio) (n_of_string pid) (el = "1") (fe = "1") (drop = "1")
               (nat_of_int (int_of_string n1)) (nat_of_int (int_of_string n2)) (nat_of_int (int_of_string n3)) (unhex err) (unhex msg) in
    "ok\t" ^ string_of_int (List.length rs) ^
    String.concat "" (List.map (fun (s, b) -> "\t" ^ string_of_int (int_of_n (sink_tag s)) ^ "\t" ^ hex (sink_name s) ^ "\t" ^ hex b) rs)
  | _ -> "driver-error:bad-case"
let () = main_loop handle
