(* model-side driver, area "preload" (C18, C19, C20) *)
let h = load_consts (if Array.length Sys.argv > 1 then Sys.argv.(1) else "/nonexistent")
let pc = { lib_name = cbytes h "lib_name"; entry_delims = cbytes h "entry_delims";
           comment_ch = (match cbytes h "comment_ch" with [b] -> b | _ -> table.(0));
           dis_blanks = cbytes h "dis_blanks"; dis_stops = cbytes h "dis_stops"; enable_guard = cbool h "enable_guard" }

(* file state: None = absent *)
let content_of = function None -> [] | Some c -> c
let st_word = function StAbsent -> "absent" | StMultiple -> "multiple" | StAlien -> "alien" | StPresent -> "present"
let st_of_word = function "absent" -> StAbsent | "multiple" -> StMultiple | "alien" -> StAlien | "present" -> StPresent | w -> failwith ("status word " ^ w)
let apply st = function Write n -> Some n | _ -> st
let rc = function Refuse -> "127" | _ -> "0"
(* outcomes in spec lines: U | R | W:<hex> | B *)
let outcome_of (s : String.t) = match s with
  | "U" -> Some Unchanged | "R" -> Some Refuse
  | _ when String.length s >= 2 && String.sub s 0 2 = "W:" -> Some (Write (unhex (String.sub s 2 (String.length s - 2))))
  | _ -> None

let handle = function
  (* run path content ops  ->  ok  rc:after ... ; content "~" = absent file *)
  | ["run"; path; content; ops] ->
    let p = unhex path in
    let st = ref (unhex_opt content) in
    let out = Buffer.create 256 in
    Buffer.add_string out "ok";
    String.iter (fun op ->
      Buffer.add_char out '\t';
      (match op with
       | 'e' -> let o = enable pc (content_of !st) p in st := apply !st o; Buffer.add_string out (rc o ^ ":" ^ hex_opt !st)
       | 'd' -> let o = disable pc (content_of !st) p in st := apply !st o; Buffer.add_string out (rc o ^ ":" ^ hex_opt !st)
       | 's' -> let s = status pc (content_of !st) p in Buffer.add_string out ((match s with StMultiple -> "127" | _ -> "0") ^ ":" ^ st_word s)
       | _ -> failwith "bad op")) ops;
    Buffer.contents out
  (* specE path content o1 o2 st -> ok | bad:<which>      (enable; enable again; status) *)
  | ["specE"; path; content; o1; o2; st] ->
    let p = unhex path and c = content_of (unhex_opt content) in
    if not (domb c p) then "ok" else
    (match outcome_of o1, outcome_of o2 with
     | Some a, Some b ->
       if spec_C18_ok c p a b (st_of_word st) then "ok"
       (* which clause of spec_C18_ok failed: the outcome of enable, the second enable, or status afterwards *)
       else if not (outcome_eqb a (enable_spec c p)) then "bad:C18-enable"
       else if not (outcome_eqb b Unchanged) then "bad:C18-idempotent"
       else "bad:C18-status-after"
     | _ -> "bad:outcome")
  (* specD path content o -> ok | bad      (disable) *)
  | ["specD"; path; content; o] ->
    let p = unhex path and c = content_of (unhex_opt content) in
    if not (domb c p) then "ok" else
    (match outcome_of o with Some a -> if spec_C19_ok c p a then "ok" else "bad:C19" | None -> "bad:outcome")
  (* specR path content o1 o3 -> ok | bad      (enable; disable) *)
  | ["specR"; path; content; o1; o3] ->
    let p = unhex path and c = content_of (unhex_opt content) in
    if not (domb c p) then "ok" else
    (match outcome_of o1, outcome_of o3 with
     | Some a, Some d -> if spec_roundtrip_ok c p a d then "ok" else "bad:roundtrip"
     | _ -> "bad:outcome")
  | ["tokens"; content] -> "ok\t" ^ hexlist (tokens (unhex content))
  | _ -> "driver-error:bad-case"
let () = main_loop handle
