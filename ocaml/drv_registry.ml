(* model-side driver, area "registry" (C13).  Self-contained (does not use common.ml): concatenated after
   "open Model_registry", the per-run extraction that contains the regenerated tables.  No Obj.magic. *)
let ascii_of_char (c:char) : ascii =
  let n = Char.code c in let b i = (n lsr i) land 1 = 1 in
  Ascii (b 0, b 1, b 2, b 3, b 4, b 5, b 6, b 7)
let char_of_ascii (a:ascii) : char =
  match a with Ascii (b0,b1,b2,b3,b4,b5,b6,b7) ->
  let v b i = if b then 1 lsl i else 0 in
  Char.chr (v b0 0 + v b1 1 + v b2 2 + v b3 3 + v b4 4 + v b5 5 + v b6 6 + v b7 7)
let coq_of_str (s:String.t) : string =
  let rec go i = if i >= String.length s then EmptyString else String (ascii_of_char s.[i], go (i+1)) in go 0
let str_of_coq (s:string) : String.t =
  let b = Buffer.create 32 in
  let rec go = function EmptyString -> () | String (a, r) -> Buffer.add_char b (char_of_ascii a); go r in
  go s; Buffer.contents b
let rec int_of_nat = function O -> 0 | S n -> 1 + int_of_nat n
let rec pos_of_int i = if i = 1 then XH else if i land 1 = 0 then XO (pos_of_int (i lsr 1)) else XI (pos_of_int (i lsr 1))
let z_of_int i = if i = 0 then Z0 else if i > 0 then Zpos (pos_of_int i) else Zneg (pos_of_int (-i))
let unhex (s:String.t) : String.t =
  if s = "-" then "" else String.init (String.length s / 2) (fun i -> Char.chr (int_of_string ("0x" ^ String.sub s (2*i) 2)))
let tohex (s:String.t) : String.t =
  if s = "" then "-" else String.concat "" (List.map (fun c -> Printf.sprintf "%02x" (Char.code c)) (List.init (String.length s) (String.get s)))
let plain_list (l : String.t list) : String.t =
  match l with [] -> "[]" | _ -> String.concat "," (List.map (fun s -> if s = "" then "-" else s) l)
let parse_plain_list (s:String.t) : String.t list =
  if s = "[]" then [] else List.map (fun x -> if x = "-" then "" else x) (String.split_on_char ',' s)
let parse_hex_list (s:String.t) : String.t list =
  if s = "[]" then [] else List.map unhex (String.split_on_char ',' s)
let kind_of = function "ds" -> Datasource | "flt" -> Filter | "out" -> Output | _ -> failwith "kind"
let guards s = List.map coq_of_str (parse_plain_list s)
let c = consts
let show_outcome = function Called p -> "called:" ^ str_of_coq p | Unknown -> "unknown" | Fault -> "fault"
let parse_outcome (s:String.t) =
  if s = "unknown" then Unknown
  else if String.length s > 7 && String.sub s 0 7 = "called:" then Called (coq_of_str (String.sub s 7 (String.length s - 7)))
  else Fault
let handle = function
  | ["arrays"; k; g] ->
    let k = kind_of k and g = guards g in
    "ok\t" ^ plain_list (List.map str_of_coq (model_names_arr c k g)) ^ "\t" ^ plain_list (List.map str_of_coq (model_ptrs_arr c k g))
  | ["byname"; k; n; g] ->
    let k = kind_of k and g = guards g and n = coq_of_str (unhex n) in
    let arr = model_names_arr c k g in
    let ex = (match does_name_exist c.rc_sentinel arr n with Some true -> "1" | Some false -> "0" | None -> "oob") in
    let id = (match get_id c.rc_sentinel arr n with Found i -> string_of_int (int_of_nat i) | NotFound -> "-1" | OutOfBounds -> "oob") in
    "ok\t" ^ show_outcome (model_call c k g n) ^ "\t" ^ ex ^ "\t" ^ id
  | ["dispatch"; "out"; n; g] ->
    (* snoopy_outputregistry_dispatch with CFG->output = n; last field: did the output receive the message and CFG->output_arg *)
    let o = model_dispatch c (guards g) (coq_of_str (unhex n)) in
    "ok\t" ^ show_outcome o ^ "\t" ^ (match o with Called _ -> "1" | _ -> "-")
  | ["dispatchs"; "out"; n; g] ->
    (* as dispatch, CFG->output kept at the same address over the whole sequence of cases (the setting is re-read every time) *)
    let o = model_dispatch c (guards g) (coq_of_str (unhex n)) in
    "ok\t" ^ show_outcome o ^ "\t" ^ (match o with Called _ -> "1" | _ -> "-")
  | ["chain"; k; elems; g] ->
    (* snoopy_filtering_check_chain over "e1:a;e2;e3:a;..." with every filter answering PASS: implementations run, in order *)
    "ok\t" ^ plain_list (List.map str_of_coq (model_chain c (kind_of k) (guards g) (List.map coq_of_str (parse_plain_list elems))))
  | ["chainspec"; k; elems; g; obs] ->
    if spec_chain_ok c (kind_of k) (guards g) (List.map coq_of_str (parse_plain_list elems)) (List.map coq_of_str (parse_plain_list obs)) then "ok" else "bad"
  | ["exec"; chain; fmt; n; g] ->
    (* snoopy_action_log_syscall_exec with filter_chain = chain ("e1;e2:a;..."), message_format = "m:%{d1}%{d2:a}...", output = n *)
    "ok\t" ^ plain_list (List.map str_of_coq (model_exec c (guards g) (List.map coq_of_str (parse_plain_list chain))
                                                (List.map coq_of_str (parse_plain_list fmt)) (coq_of_str (unhex n))))
  | ["execspec"; chain; fmt; n; g; obs] ->
    if spec_exec_ok c (guards g) (List.map coq_of_str (parse_plain_list chain)) (List.map coq_of_str (parse_plain_list fmt))
         (coq_of_str (unhex n)) (List.map coq_of_str (parse_plain_list obs)) then "ok" else "bad"
  | ["threads"; "ds"; pairs; g] ->
    (* one thread per name formats %{name:a-name} over and over: every call must run that name's own data source *)
    let bad = List.filter (fun pr -> match String.index_opt pr '=' with
        | None -> true
        | Some i -> let n = String.sub pr 0 i and sym = String.sub pr (i+1) (String.length pr - i - 1) in
          (match model_thread_expect c (guards g) (coq_of_str n) with Some p -> str_of_coq p <> sym | None -> true)) (parse_plain_list pairs) in
    (match bad with [] -> "ok\t0\t-" | b :: _ -> "ok\tmodel-disagrees:" ^ b ^ "\t-")
  | ["byid"; k; i; g] ->
    let k = kind_of k and g = guards g and i = z_of_int (int_of_string i) in
    let nm = (match model_get_name c k g i with Some (Some s) -> (let s = str_of_coq s in if s = "" then "-" else s) | Some None -> "~" | None -> "oob") in
    "ok\t" ^ show_outcome (model_call_id c k g i) ^ "\t" ^ nm
  | ["count"; k; g] ->
    (match model_count c (kind_of k) (guards g) with Some n -> "ok\t" ^ string_of_int (int_of_nat n) | None -> "ok\toob")
  | ["spec"; k; n; g; o] ->
    if spec_C13_ok c (kind_of k) (guards g) (coq_of_str (unhex n)) (parse_outcome o) then "ok" else "bad"
  | ["fixed"; k] -> "ok\t" ^ plain_list (List.map str_of_coq (model_fixed c (kind_of k)))
  | ["allnames"; k] -> "ok\t" ^ plain_list (List.map str_of_coq (model_all_names c (kind_of k)))
  (* EXTENSION: option registry of configfile.c *)
  | ["optall"; g] ->
    let cfg = cfg_of (guards g) in
    let rec upto = function [] -> [] | (n, pg) :: t -> if str_of_coq n = str_of_coq options.o_sentinel then [] else (n, pg) :: upto t in
    "ok\t" ^ plain_list (List.map (fun (n, (p, gt)) -> str_of_coq n ^ "=" ^ str_of_coq p ^ "/" ^ str_of_coq gt) (upto (opt_select cfg options.o_rows)))
  | ["optid"; n; g] ->
    (match opt_find options (cfg_of (guards g)) (coq_of_str (unhex n)) with
     | OFound (i, p, gt) -> "ok\t" ^ string_of_int (int_of_nat i) ^ "\t" ^ str_of_coq p ^ "\t" ^ str_of_coq gt
     | ONotSupported -> "ok\t-1\t~\t~"
     | OOutOfBounds -> "oob")
  | ["optspec"; n; p; gt] ->
    let n = coq_of_str (unhex n) in
    if str_of_coq (parser_of n) = p && str_of_coq (getter_of n) = gt then "ok" else "bad"
  (* genericregistry.c on explicit arrays *)
  | ["gid"; arr; n] ->
    (match get_id c.rc_sentinel (List.map coq_of_str (parse_hex_list arr)) (coq_of_str (unhex n)) with
     | Found i -> "ok\t" ^ string_of_int (int_of_nat i) | NotFound -> "ok\t-1" | OutOfBounds -> "oob")
  | ["gcount"; arr] ->
    (match get_count c.rc_sentinel (List.map coq_of_str (parse_hex_list arr)) with Some n -> "ok\t" ^ string_of_int (int_of_nat n) | None -> "oob")
  | ["gname"; arr; i] ->
    (match get_name c.rc_sentinel (List.map coq_of_str (parse_hex_list arr)) (z_of_int (int_of_string i)) with
     | Some (Some s) -> "ok\t" ^ tohex (str_of_coq s) | Some None -> "ok\t~" | None -> "oob")
  | ["gidexist"; arr; i] ->
    (match does_id_exist c.rc_sentinel (List.map coq_of_str (parse_hex_list arr)) (z_of_int (int_of_string i)) with
     | Some b -> if b then "ok\t1" else "ok\t0" | None -> "oob")
  | ["gnameexist"; arr; n] ->
    (match does_name_exist c.rc_sentinel (List.map coq_of_str (parse_hex_list arr)) (coq_of_str (unhex n)) with
     | Some b -> if b then "ok\t1" else "ok\t0" | None -> "oob")
  | _ -> "driver-error:bad-case"
let () =
  try while true do
    let line = input_line stdin in
    let f = String.split_on_char '\t' line in
    let r = try handle f with Failure m -> "driver-error:" ^ m | Not_found -> "driver-error:notfound" | Stack_overflow -> "driver-error:stack" in
    print_string r; print_char '\n'
  done with End_of_file -> ()
