(* model-side driver, area "safety" (C02).  Case grammar: see checks/c02.py *)
(* big numbers (2^64-1) do not fit OCaml's int: print N in decimal through Z-free arithmetic *)
let rec string_of_pos p = (* decimal via repeated halving is awkward; convert through float-free bignum on lists *)
  let rec to_bits = function XH -> [1] | XO q -> 0 :: to_bits q | XI q -> 1 :: to_bits q in
  let bits = List.rev (to_bits p) in
  (* decimal digits little-endian *)
  let dbl_add ds c = let rec go ds c = match ds with [] -> if c = 0 then [] else [c] | d :: r -> let v = 2*d + c in (v mod 10) :: go r (v / 10) in go ds c in
  let ds = List.fold_left (fun ds b -> dbl_add ds b) [] bits in
  String.concat "" (List.rev_map string_of_int ds)
let string_of_n = function N0 -> "0" | Npos p -> string_of_pos p
(* decimal string -> N, any size *)
let n_of_dec (s:String.t) : n =
  if String.length s <= 17 then n_of_string s else begin
    (* repeated division by 2 on the decimal digits *)
    let ds = ref (List.init (String.length s) (fun i -> Char.code s.[i] - 48)) in
    let bits = ref [] in
    let is_zero l = List.for_all (fun d -> d = 0) l in
    while not (is_zero !ds) do
      let rem = ref 0 in
      ds := List.map (fun d -> let v = !rem * 10 + d in rem := v mod 2; v / 2) !ds;
      bits := !rem :: !bits
    done;
    (* bits: most significant first *)
    match !bits with
    | [] -> N0
    | _ :: rest -> Npos (List.fold_left (fun acc b -> if b = 1 then XI acc else XO acc) XH rest)
  end

let cnum h k = n_of_dec (cget h k)
let h = load_consts (if Array.length Sys.argv > 1 then Sys.argv.(1) else "/nonexistent")
let sc = { s_append_strict = cbool h "s_append_strict";
           s_ds_buf_adj = cnum h "s_ds_buf_adj";
           s_ds_arg_max = cnum h "s_ds_arg_max";
           s_ds_pre_nul = cbool h "s_ds_pre_nul";
           s_tag_skip = cnum h "s_tag_skip";
           s_close_skip = cnum h "s_close_skip";
           s_log_malloc_adj = cnum h "s_log_malloc_adj";
           s_log_size_adj = cnum h "s_log_size_adj";
           s_ds_size_adj = cnum h "s_ds_size_adj";
           s_hardmin_log = cnum h "s_hardmin_log";
           s_hardmax_log = cnum h "s_hardmax_log";
           s_hardmin_ds = cnum h "s_hardmin_ds";
           s_hardmax_ds = cnum h "s_hardmax_ds";
           s_default_log = cnum h "s_default_log";
           s_default_ds = cnum h "s_default_ds";
           s_chain_max = cnum h "s_chain_max";
           s_chain_copy_n = cnum h "s_chain_copy_n";
           s_chain_term_idx = cnum h "s_chain_term_idx";
           s_chain_term = cbool h "s_chain_term";
           s_fname_max = cnum h "s_fname_max";
           s_farg_max = cnum h "s_farg_max";
           s_fname_copy_exact = cbool h "s_fname_copy_exact";
           s_fname_term = cbool h "s_fname_term";
           s_default_chain_len = cnum h "s_default_chain_len";
           s_csv_extra_slots = cnum h "s_csv_extra_slots";
           s_bytelen_wide = cbool h "s_bytelen_wide";
           s_int_max = cnum h "s_int_max";
           s_llong_max = cnum h "s_llong_max";
           s_factor_k = cnum h "s_factor_k";
           s_factor_m = cnum h "s_factor_m";
           s_log_prefix = cbytes h "s_log_prefix";
           s_log_cmp_n = cnum h "s_log_cmp_n";
           s_log_skip = cnum h "s_log_skip";
           s_fac_guarded = cbool h "s_fac_guarded";
           s_lvl_guarded = cbool h "s_lvl_guarded";
           s_cfg_prefix = cbytes h "s_cfg_prefix";
           s_cfg_cmp_n = cnum h "s_cfg_cmp_n";
           s_cfg_skip = cnum h "s_cfg_skip";
           s_cfg_guarded = cbool h "s_cfg_guarded";
           s_out_split_strchr = cbool h "s_out_split_strchr";
           s_ini_line_cap = cnum h "s_ini_line_cap";
           s_ini_max_line = cnum h "s_ini_max_line";
           s_ini_use_stack = cbool h "s_ini_use_stack";
           s_ini_section_cap = cnum h "s_ini_section_cap";
           s_ini_name_cap = cnum h "s_ini_name_cap";
           s_ini_section_copy = cnum h "s_ini_section_copy";
           s_ini_name_copy = cnum h "s_ini_name_copy";
           s_ini_bom = cbool h "s_ini_bom";
           s_ini_multiline = cbool h "s_ini_multiline";
           s_ini_inline_comments = cbool h "s_ini_inline_comments";
           s_ini_strncpy0_term = cbool h "s_ini_strncpy0_term";
           s_env_comma_min = cnum h "s_env_comma_min";
           s_env_whole_slack = cnum h "s_env_whole_slack";
           s_env_trunc_sub = cnum h "s_env_trunc_sub";
           s_env_dots_size = cnum h "s_env_dots_size";
           s_env_dots = cbytes h "s_env_dots";
           s_env_null_guard = cbool h "s_env_null_guard";
           s_login_cap = cnum h "s_login_cap";
           s_login_with_nul = cnum h "s_login_with_nul";
           s_login_without_nul = cnum h "s_login_without_nul";
           s_login_unknown = cbytes h "s_login_unknown";
           s_dt_cap = cnum h "s_dt_cap";
           s_dt_size = cnum h "s_dt_size";
           s_st_buf = cnum h "s_st_buf";
           s_st_fread_n = cnum h "s_st_fread_n";
           s_st_comm = cnum h "s_st_comm";
           s_st_comm_limit = cnum h "s_st_comm_limit";
           s_st_size_min = cnum h "s_st_size_min";
           s_st_path = cnum h "s_st_path";
           s_err_buf = cnum h "s_err_buf";
           s_err_guard = cbool h "s_err_guard";
           s_ident_buf = cnum h "s_ident_buf";
           s_path_max = cnum h "s_path_max";
           s_devlog_extra = cnum h "s_devlog_extra";
           s_sock_path_size = cnum h "s_sock_path_size";
           s_sun_path_cap = cnum h "s_sun_path_cap";
           s_file_max = cnum h "s_file_max";
           s_file_fread = cnum h "s_file_fread";
           s_file_err_max = cnum h "s_file_err_max";
           s_cg_path = cnum h "s_cg_path";
           s_rp_path = cnum h "s_rp_path";
           s_rp_val_max = cnum h "s_rp_val_max";
           s_rp_ret_cap = cnum h "s_rp_ret_cap";
           s_cfg_strips = cbool h "s_cfg_strips";
           s_st_empty_ok = cbool h "s_st_empty_ok" }
let ec = { tag_open = cbytes h "tag_open"; tag_close = cbytes h "tag_close"; tag_colon = cbytes h "tag_colon";
           e_close = cbytes h "e_close"; e_nf1 = cbytes h "e_nf1"; e_nf2 = cbytes h "e_nf2"; e_f1 = cbytes h "e_f1";
           e_f2 = cbytes h "e_f2"; e_f3 = cbytes h "e_f3"; ds_buf_adj = cnum h "ds_buf_adj";
           append_strict = cbool h "append_strict"; call_log_adj = cnum h "call_log_adj"; call_ds_adj = cnum h "call_ds_adj";
           hardmin_log = cnum h "hardmin_log"; hardmax_log = cnum h "hardmax_log"; hardmin_ds = cnum h "hardmin_ds";
           hardmax_ds = cnum h "hardmax_ds"; ident_buf = cnum h "ident_buf"; path_buf = cnum h "path_buf" }
let dc = { env_undefined = cbytes h "env_undefined"; failure_text = cbytes h "failure_text" }
let cc = { sep = cbytes h "cmdline_sep"; unknown = cbytes h "cmdline_unknown" }

let show (r : outv res) : String.t =
  match r with
  | Fault _ -> "fault"
  | Ok (strs, nums) ->
    String.concat "\t" ("ok" :: (List.map hex strs @ List.map string_of_n nums))
let opt s = unhex_opt s
let world env file argv = { xw_env = unhexlist_opt env; xw_file = unhex_opt file; xw_argv = unhexlist_opt argv }
(* table "pid:hex,pid:hex" or "-" *)
let table (s:String.t) = if s = "-" then [] else
  List.map (fun it -> match String.index_opt it ':' with
                      | Some i -> (n_of_dec (String.sub it 0 i), unhex (String.sub it (i+1) (String.length it - i - 1)))
                      | None -> failwith "table") (String.split_on_char ',' s)

let handle = function
  | ["append"; cap; dst; app] -> show (x_append sc (n_of_dec cap) (unhex dst) (unhex app))
  | ["gen"; bs; th; fmt; file; argv; env] -> show (x_gen sc ec dc cc (world env file argv) (n_of_dec bs) (n_of_dec th) (unhex fmt))
  | ["chain"; uid; chain] -> show (x_chain sc (n_of_dec uid) (unhex chain))
  | ["csv"; arg] -> show (x_csv sc (unhex arg))
  | ["bytelen"; text; vmin; vmax; vdef] -> show (x_bytelen sc (unhex text) (n_of_dec vmin) (n_of_dec vmax) (n_of_dec vdef))
  | ["facility"; s] -> show (x_facility sc (unhex s))
  | ["level"; s] -> show (x_level sc (unhex s))
  | ["sysval"; lv; v] -> show (x_sysval sc (lv = "1") (unhex v))
  | ["outsplit"; v] -> show (x_outsplit sc (unhex v))
  | ["getbool"; v] -> show (x_getbool (unhex v))
  | ["ini"; file] -> show (x_ini sc (unhex file))
  | ["cmdline"; sz; file; argv] -> show (x_cmdline cc (n_of_dec sz) (unhex_opt file) (unhexlist_opt argv))
  | ["envall"; sz; env] -> show (x_envall sc (n_of_dec sz) (unhexlist_opt env))
  | ["hostname"; sz; host; etxt] -> show (x_hostname (n_of_dec sz) (unhex host) (unhex etxt))
  | ["login"; sz; gl; su; ln] -> show (x_login sc (n_of_dec sz) (opt gl) (opt su) (opt ln))
  | ["datetime"; sz; _fmt; formatted] -> show (x_datetime sc (n_of_dec sz) (unhex formatted))
  | ["snprintf"; sz; text] -> show (x_snprintf (n_of_dec sz) (unhex text))
  | ["spawns"; ppid; tbl; arg] -> show (x_spawns sc (n_of_dec ppid) (table tbl) (unhex arg))
  | ["cfgload"; ini] -> show (x_cfgload sc (unhex ini))
  | ["cgroup"; sz; arg; content] -> show (x_cgroup sc (n_of_dec sz) (unhex arg) (of_str "4242") (unhex_opt content) (of_str "No such file or directory"))
  | ["rpname"; sz; tbl; pid] -> show (x_rpname sc (n_of_dec sz) (table tbl) (n_of_dec pid))
  | ["errcycle"; depth; nr; msg] -> show (x_errcycle sc (n_of_dec depth) (n_of_dec nr) (unhex msg))
  | ["sockaddr"; arg] -> show (x_sockaddr sc (unhex arg))
  | ["devlog"; msg; ident; pri; pid; file; argv; env] -> show (x_devlog sc ec dc cc (world env file argv) (unhex msg) (unhex ident) (n_of_dec pri) (n_of_dec pid))
  | ["fileline"; msg; pathfmt; file; argv; env] -> show (x_fileline sc ec dc cc (world env file argv) (unhex msg) (unhex pathfmt))
  | ["smallfile"; content; toolarge] -> show (x_smallfile sc (unhex content) (unhex toolarge))
  | _ -> "driver-error:bad-case"
let () = main_loop handle
