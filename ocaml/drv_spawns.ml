(* model-side driver, area "spawns" (C15) *)
let h = load_consts (if Array.length Sys.argv > 1 then Sys.argv.(1) else "/nonexistent")
let z_of_int (i:int) : z = if i = 0 then Z0 else if i > 0 then Zpos (pos_of_int i) else Zneg (pos_of_int (-i))
let int_of_z = function Z0 -> 0 | Zpos p -> int_of_pos p | Zneg p -> - (int_of_pos p)
let z_of_string s = z_of_int (int_of_string s)
let cbyte h k = match cbytes h k with [b] -> b | _ -> failwith ("constant " ^ k ^ " is not one byte")
let sc = { sp_sep = cbyte h "sp_sep"; sp_strtok_delim_is_sep = cbool h "sp_strtok_delim_is_sep";
           sp_comm_max = cnum h "sp_comm_max"; sp_buf_size = cnum h "sp_buf_size"; sp_read_adj = cnum h "sp_read_adj";
           sp_size_min = cnum h "sp_size_min"; sp_path_max = cnum h "sp_path_max"; sp_path_fmt = cbytes h "sp_path_fmt";
           sp_scan_fmt = cbytes h "sp_scan_fmt"; sp_lparen = cbyte h "sp_lparen"; sp_rparen = cbyte h "sp_rparen";
           sp_left_first = cbool h "sp_left_first"; sp_right_last = cbool h "sp_right_last";
           sp_reject_empty = cbool h "sp_reject_empty"; sp_start_parent = cbool h "sp_start_parent";
           sp_loop_while_nonzero = cbool h "sp_loop_while_nonzero"; sp_cmp_exact = cbool h "sp_cmp_exact";
           sp_drop_iff_found = cbool h "sp_drop_iff_found"; sp_pass = z_of_string (cget h "sp_pass"); sp_drop = z_of_string (cget h "sp_drop") }

(* tree: "pid=hex;pid=hex" or "[]" ; abstract table: "pid:commhex:ppid;..." or "[]" *)
let parse_tree s = if s = "[]" then [] else
  List.map (fun e -> match String.index_opt e '=' with
    | Some i -> (z_of_string (String.sub e 0 i), unhex (String.sub e (i+1) (String.length e - i - 1)))
    | None -> failwith "tree entry") (String.split_on_char ';' s)
let parse_atab s = if s = "[]" then [] else
  List.map (fun e -> match String.split_on_char ':' e with
    | [p; c; pp] -> (z_of_string p, (unhex c, z_of_string pp))
    | _ -> failwith "atab entry") (String.split_on_char ';' s)
let fault_name = function OOB_write -> "oob_write" | OOB_read -> "oob_read" | Null_deref -> "null" | Signed_overflow -> "overflow"
  | Out_of_fuel -> "fuel" | Double_free -> "double_free" | Other_fault -> "other"
let trace_str l = match l with [] -> "-" | _ -> String.concat "," (List.map (fun z -> string_of_int (int_of_z z)) l)

let handle = function
  (* filter arg self ppid tree -> ok drop|pass trace *)
  | ["filter"; arg; self; ppid; tree] | ["filter"; arg; self; ppid; tree; _] | ["cfilter"; arg; self; ppid; tree; _]
  | ["filter0"; arg; self; ppid; tree; _] | ["cfilter0"; arg; self; ppid; tree; _]
  | ["filterE"; arg; self; ppid; tree; _] | ["cfilterE"; arg; self; ppid; tree; _] ->
    (match filter_run sc (unhex arg) (z_of_string self) (z_of_string ppid) (parse_tree tree) with
     | (Ok v, tr) -> "ok\t" ^ (match v with DROP -> "drop" | PASS -> "pass") ^ "\t" ^ trace_str tr
     | (Fault f, _) -> "fault:" ^ fault_name f)
  (* two elements of the filter chain: the walker stops at the first DROP *)
  | ["cfilter2"; args; self; ppid; tree; _] ->
    (match String.split_on_char '+' args with
     | [a1; a2] ->
       let t = parse_tree tree in
       (match filter_run sc (unhex a1) (z_of_string self) (z_of_string ppid) t with
        | (Ok DROP, tr) -> "ok\tdrop\t" ^ trace_str tr
        | (Ok PASS, tr1) ->
          (match filter_run sc (unhex a2) (z_of_string self) (z_of_string ppid) t with
           | (Ok v, tr2) -> "ok\t" ^ (match v with DROP -> "drop" | PASS -> "pass") ^ "\t" ^ trace_str (tr1 @ tr2)
           | (Fault f, _) -> "fault:" ^ fault_name f)
        | (Fault f, _) -> "fault:" ^ fault_name f)
     | _ -> "driver-error:cfilter2")
  (* one thread per argument on the same tree: every thread must see its own verdict *)
  | ["tfilter"; args; self; ppid; tree; _] ->
    let t = parse_tree tree in
    "ok\t" ^ String.concat "," (List.map (fun a ->
      match filter_run sc (unhex a) (z_of_string self) (z_of_string ppid) t with
      | (Ok DROP, _) -> "drop" | (Ok PASS, _) -> "pass" | (Fault f, _) -> "fault:" ^ fault_name f) (String.split_on_char ';' args))
  (* specm args(;) ppid atab verdicts(,) -> ok | bad *)
  | ["specm"; args; ppid; atab; vs] ->
    let al = String.split_on_char ';' args and vl = String.split_on_char ',' vs in
    if List.length al <> List.length vl then "bad" else
    if List.for_all2 (fun a v -> match v with
        | "drop" -> spec_C15_ok (unhex a) (z_of_string ppid) (parse_atab atab) DROP
        | "pass" -> spec_C15_ok (unhex a) (z_of_string ppid) (parse_atab atab) PASS
        | _ -> false) al vl then "ok" else "bad"
  (* spec arg ppid atab verdict -> ok | bad *)
  | ["spec"; arg; ppid; atab; v] ->
    let ob = (match v with "drop" -> DROP | "pass" -> PASS | _ -> failwith "verdict") in
    if spec_C15_ok (unhex arg) (z_of_string ppid) (parse_atab atab) ob then "ok" else "bad"
  (* render pid comm st ppid content -> ok | bad *)
  | ["render"; pid; comm; st; ppid; content] ->
    (match unhex st with
     | [s] -> if render_check (z_of_string pid) (unhex comm) s (z_of_string ppid) (unhex content) then "ok" else "bad"
     | _ -> "bad")
  (* parse content -> ok commhex ppid | none *)
  | ["parse"; content] ->
    (match parse_stat sc (unhex content) with
     | Some (cm, pp) -> "ok\t" ^ hex cm ^ "\t" ^ string_of_int (int_of_z pp)
     | None -> "none")
  (* names arg -> ok list *)
  | ["names"; arg] -> "ok\t" ^ hexlist (names_of (unhex arg))
  | _ -> "driver-error:bad-case"
let () = main_loop handle
