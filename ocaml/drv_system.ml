(* model-side driver, area "system" (whole-run correspondence of C04): per-run extraction, constants inside *)
let fault_name = function OOB_write -> "oob_write" | OOB_read -> "oob_read" | Null_deref -> "null" | Signed_overflow -> "overflow"
                        | Out_of_fuel -> "fuel" | Double_free -> "double_free" | Other_fault -> "other"
let z_of_int i = if i = 0 then Z0 else if i > 0 then Zpos (pos_of_int i) else Zneg (pos_of_int (-i))
let z_of_string s = z_of_int (int_of_string s)
let split_list s = if s = "[]" || s = "" then [] else String.split_on_char ',' s
let pair s = match String.index_opt s ':' with Some i -> (String.sub s 0 i, String.sub s (i+1) (String.length s - i - 1)) | None -> failwith "pair"
let ttys s = List.map (fun e -> match String.split_on_char ':' e with
    | [fd; "N"; nm] -> (z_of_string fd, TtyName (unhex nm))
    | [fd; "E"; c] -> (z_of_string fd, TtyErr (z_of_string c))
    | _ -> failwith "tty") (split_list s)
let zmap s = List.map (fun e -> let (a, b) = pair e in (z_of_string a, unhex b)) (split_list s)
let show = function
  | Ok rs -> "ok\t" ^ string_of_int (List.length rs) ^
             String.concat "" (List.map (fun (s, b) -> "\t" ^ string_of_int (int_of_n (sink_tag s)) ^ "\t" ^ hex (sink_name s) ^ "\t" ^ hex b) rs)
  | Fault f -> "fault:" ^ fault_name f
let handle = function
  (* sysfull ini|~ <ids> <cwd> <hostname> <ttys> <environ> <passwd> <group> <file> <argv> <stdin-is-tty>:
     ids = ruid euid suid rgid egid sgid pid ppid sid pgid pthread ktid sec usec *)
  | ["sysfull"; ini; ids; cwd; host; tt; env; pw; gr; file; argv; tty] ->
    let d = { d_ids = List.map z_of_string (split_list ids); d_cwd = unhex_opt cwd; d_hostname = unhex host; d_ttys = ttys tt;
              d_owners = []; d_login = None; d_environ = unhexlist_opt env; d_passwd = zmap pw; d_group = zmap gr;
              d_cgroup = None; d_status = []; d_strftime = []; d_file = unhex_opt file; d_argv = unhexlist_opt argv } in
    show (run_sys_full (unhex_opt ini) d (tty = "1"))
  (* sys ini|~ filename argv env ruid euid tty pid -> ok <n> (<sinktag> <sinkname> <bytes>)* *)
  | ["sys"; ini; file; argv; env; ru; eu; tty; pid] ->
    let w = { w_env = unhexlist env; w_file = unhex_opt file; w_argv = unhexlist_opt argv } in
    (match run_sys (unhex_opt ini) w (n_of_string ru) (n_of_string eu) (tty = "1") (n_of_string pid) with
     | Ok rs -> "ok\t" ^ string_of_int (List.length rs) ^
                String.concat "" (List.map (fun (s, b) -> "\t" ^ string_of_int (int_of_n (sink_tag s)) ^ "\t" ^ hex (sink_name s) ^ "\t" ^ hex b) rs)
     | Fault f -> "fault:" ^ fault_name f)
  | _ -> "driver-error:bad-case"
let () = main_loop handle
