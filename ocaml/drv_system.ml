(* model-side driver, area "system" (whole-run correspondence of C04): per-run extraction, constants inside *)
let fault_name = function OOB_write -> "oob_write" | OOB_read -> "oob_read" | Null_deref -> "null" | Signed_overflow -> "overflow"
                        | Out_of_fuel -> "fuel" | Double_free -> "double_free" | Other_fault -> "other"
let handle = function
  (* sys ini|~ filename argv env ruid euid tty pid -> ok <n> (<sinktag> <sinkname> <bytes>)* *)
  | ["sys"; ini; file; argv; env; ru; eu; tty; pid] ->
    let w = { w_env = unhexlist env; w_file = unhex_opt file; w_argv = unhexlist_opt argv } in
    (match run_sys (unhex_opt ini) w (n_of_string ru) (n_of_string eu) (tty = "1") (n_of_string pid) with
     | Ok rs -> "ok\t" ^ string_of_int (List.length rs) ^
                String.concat "" (List.map (fun (s, b) -> "\t" ^ string_of_int (int_of_n (sink_tag s)) ^ "\t" ^ hex (sink_name s) ^ "\t" ^ hex b) rs)
     | Fault f -> "fault:" ^ fault_name f)
  | _ -> "driver-error:bad-case"
let () = main_loop handle
