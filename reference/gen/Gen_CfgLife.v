(* GENERATED from the current /repo working tree by vlib/tr_life.py (clang AST) -- do not edit *)
From Coq Require Import String ZArith List.
From Snoopy Require Import Lib.Skel.
Import ListNotations.
Local Open Scope string_scope.

Definition sk_cfg_ctor : fn_skel := {| sk_name := "snoopy_configuration_ctor"; sk_nparams := 0; sk_body :=
 [(SIf (XOp "==" [(XInt (0)%Z); (XVar "snoopy_configuration_configFileParsingEnabled")]) [(SReturn None)] []);
 (SDecl "CFG" false (Some (XCall "snoopy_configuration_get" [])));
 (SIf (XOp "!=" [(XCast (XInt (0)%Z)); (XVar "snoopy_configuration_altConfigFilePath")]) [(SExpr (XCall "snoopy_configfile_load" [(XVar "snoopy_configuration_altConfigFilePath")]))] [(SExpr (XCall "snoopy_configfile_load" [(XMember (XVar "CFG") "configfile_path")]))])] |}.

Definition sk_cfg_dtor : fn_skel := {| sk_name := "snoopy_configuration_dtor"; sk_nparams := 0; sk_body :=
 [(SDecl "CFG" false None);
 (SAssign (XVar "CFG") (XCall "snoopy_configuration_get" []));
 (SAssign (XMember (XVar "CFG") "configfile_path") (XStr "/usr/local/etc/snoopy.ini"));
 (SIf (XOp "==" [(XInt (1)%Z); (XMember (XVar "CFG") "message_format_malloced")]) [(SExpr (XCall "free" [(XMember (XVar "CFG") "message_format")]));
 (SAssign (XMember (XVar "CFG") "message_format_malloced") (XInt (0)%Z));
 (SAssign (XMember (XVar "CFG") "message_format") (XStr "[uid:%{uid} sid:%{sid} tty:%{tty} cwd:%{cwd} filename:%{filename}]: %{cmdline}"))] []);
 (SIf (XOp "==" [(XInt (1)%Z); (XMember (XVar "CFG") "filter_chain_malloced")]) [(SExpr (XCall "free" [(XMember (XVar "CFG") "filter_chain")]));
 (SAssign (XMember (XVar "CFG") "filter_chain_malloced") (XInt (0)%Z));
 (SAssign (XMember (XVar "CFG") "filter_chain") (XStr ""))] []);
 (SIf (XOp "==" [(XInt (1)%Z); (XMember (XVar "CFG") "output_malloced")]) [(SExpr (XCall "free" [(XMember (XVar "CFG") "output")]));
 (SAssign (XMember (XVar "CFG") "output_malloced") (XInt (0)%Z));
 (SAssign (XMember (XVar "CFG") "output") (XStr "devlog"))] []);
 (SIf (XOp "==" [(XInt (1)%Z); (XMember (XVar "CFG") "output_arg_malloced")]) [(SExpr (XCall "free" [(XMember (XVar "CFG") "output_arg")]));
 (SAssign (XMember (XVar "CFG") "output_arg_malloced") (XInt (0)%Z));
 (SAssign (XMember (XVar "CFG") "output_arg") (XStr ""))] []);
 (SIf (XOp "==" [(XInt (1)%Z); (XMember (XVar "CFG") "syslog_ident_format_malloced")]) [(SExpr (XCall "free" [(XMember (XVar "CFG") "syslog_ident_format")]));
 (SAssign (XMember (XVar "CFG") "syslog_ident_format_malloced") (XInt (0)%Z));
 (SAssign (XMember (XVar "CFG") "syslog_ident_format") (XStr "snoopy"))] []);
 (SExpr (XCall "snoopy_configuration_setDefaults" [(XVar "CFG")]))] |}.

Definition sk_cfg_defaults : fn_skel := {| sk_name := "snoopy_configuration_setDefaults"; sk_nparams := 1; sk_body :=
 [(SAssign (XMember (XParam 0) "initialized") (XInt (1)%Z));
 (SAssign (XMember (XParam 0) "configfile_enabled") (XInt (1)%Z));
 (SAssign (XMember (XParam 0) "configfile_path") (XStr "/usr/local/etc/snoopy.ini"));
 (SAssign (XMember (XParam 0) "configfile_found") (XInt (0)%Z));
 (SAssign (XMember (XParam 0) "configfile_parsed") (XInt (0)%Z));
 (SAssign (XMember (XParam 0) "error_logging_enabled") (XInt (0)%Z));
 (SAssign (XMember (XParam 0) "message_format") (XStr "[uid:%{uid} sid:%{sid} tty:%{tty} cwd:%{cwd} filename:%{filename}]: %{cmdline}"));
 (SAssign (XMember (XParam 0) "message_format_malloced") (XInt (0)%Z));
 (SAssign (XMember (XParam 0) "filtering_enabled") (XInt (1)%Z));
 (SAssign (XMember (XParam 0) "filter_chain") (XStr ""));
 (SAssign (XMember (XParam 0) "filter_chain_malloced") (XInt (0)%Z));
 (SAssign (XMember (XParam 0) "output") (XStr "devlog"));
 (SAssign (XMember (XParam 0) "output_malloced") (XInt (0)%Z));
 (SAssign (XMember (XParam 0) "output_arg") (XStr ""));
 (SAssign (XMember (XParam 0) "output_arg_malloced") (XInt (0)%Z));
 (SAssign (XMember (XParam 0) "syslog_facility") (XOp "<<" [(XInt (10)%Z); (XInt (3)%Z)]));
 (SAssign (XMember (XParam 0) "syslog_ident_format") (XStr "snoopy"));
 (SAssign (XMember (XParam 0) "syslog_ident_format_malloced") (XInt (0)%Z));
 (SAssign (XMember (XParam 0) "syslog_level") (XInt (6)%Z));
 (SAssign (XMember (XParam 0) "datasource_message_max_length") (XInt (2047)%Z));
 (SAssign (XMember (XParam 0) "log_message_max_length") (XInt (16383)%Z))] |}.

Definition sk_cfg_uninit : fn_skel := {| sk_name := "snoopy_configuration_setUninitialized"; sk_nparams := 1; sk_body :=
 [(SAssign (XMember (XParam 0) "initialized") (XInt (0)%Z))] |}.

Definition sk_cfg_get_ts : fn_skel := {| sk_name := "snoopy_configuration_get"; sk_nparams := 0; sk_body :=
 [(SDecl "CFG" false None);
 (SAssign (XVar "CFG") (XCall "snoopy_tsrm_get_configuration" []));
 (SIf (XOp "!=" [(XInt (1)%Z); (XMember (XVar "CFG") "initialized")]) [(SExpr (XCall "snoopy_configuration_setDefaults" [(XVar "CFG")]))] []);
 (SReturn (Some (XVar "CFG")))] |}.

Definition sk_cfg_load : fn_skel := {| sk_name := "snoopy_configfile_load"; sk_nparams := 1; sk_body :=
 [(SDecl "iniParseStatus" false None);
 (SDecl "CFG" false None);
 (SAssign (XVar "CFG") (XCall "snoopy_configuration_get" []));
 (SAssign (XMember (XVar "CFG") "configfile_path") (XParam 0));
 (SAssign (XVar "iniParseStatus") (XCall "snoopy_ini_parse" [(XParam 0); (XFun "snoopy_configfile_iniParser_callback"); (XVar "CFG")]));
 (SIf (XOp "!=" [(XInt (0)%Z); (XVar "iniParseStatus")]) [(SReturn (Some (XOp "-" [(XInt (1)%Z)])))] []);
 (SAssign (XMember (XVar "CFG") "configfile_found") (XInt (1)%Z));
 (SAssign (XMember (XVar "CFG") "configfile_parsed") (XInt (1)%Z));
 (SReturn (Some (XInt (0)%Z)))] |}.

Definition sk_cfg_callback : fn_skel := {| sk_name := "snoopy_configfile_iniParser_callback"; sk_nparams := 4; sk_body :=
 [(SDecl "CFG" false (Some (XCast (XParam 0))));
 (SIf (XOp "!=" [(XInt (0)%Z); (XCall "strcmp" [(XParam 1); (XStr "snoopy")])]) [(SReturn (Some (XInt (1)%Z)))] []);
 (SDecl "optionId" false (Some (XCall "snoopy_configfile_optionRegistry_getIdFromName" [(XParam 2)])));
 (SIf (XOp "!=" [(XVar "optionId"); (XOp "-" [(XInt (1)%Z)])]) [(SReturn (Some (XCallPtr (XMember (XMember (XIndex (XVar "snoopy_configfile_optionRegistry") (XVar "optionId")) "data") "valueParserPtr") [(XParam 3); (XVar "CFG")])))] []);
 (SReturn (Some (XInt (1)%Z)))] |}.

Definition sk_tsrm_new : fn_skel := {| sk_name := "snoopy_tsrm_createNewThreadData"; sk_nparams := 1; sk_body :=
 [(SDecl "tData" false None);
 (SAssign (XVar "tData") (XCall "malloc" [(XOp "sizeof" [])]));
 (SAssign (XMember (XVar "tData") "configuration") (XCall "malloc" [(XOp "sizeof" [])]));
 (SAssign (XMember (XVar "tData") "inputdatastorage") (XCall "malloc" [(XOp "sizeof" [])]));
 (SAssign (XMember (XVar "tData") "threadId") (XParam 0));
 (SExpr (XCall "snoopy_configuration_setUninitialized" [(XMember (XVar "tData") "configuration")]));
 (SExpr (XCall "snoopy_inputdatastorage_setUninitialized" [(XMember (XVar "tData") "inputdatastorage")]));
 (SReturn (Some (XVar "tData")))] |}.

Definition sk_tsrm_ctor : fn_skel := {| sk_name := "snoopy_tsrm_ctor"; sk_nparams := 0; sk_body :=
 [(SDecl "curTid" false None);
 (SDecl "tData" false None);
 (SExpr (XCall "pthread_once" [(XAddr (XVar "snoopy_tsrm_init_onceControl")); (XAddr (XFun "snoopy_tsrm_init"))]));
 (SAssign (XVar "curTid") (XCall "snoopy_tsrm_getCurrentThreadId" []));
 (SExpr (XCall "pthread_mutex_lock" [(XAddr (XVar "snoopy_tsrm_threadRepo_mutex"))]));
 (SIf (XOp "==" [(XInt (0)%Z); (XCall "snoopy_tsrm_doesThreadRepoEntryExist" [(XVar "curTid"); (XInt (1)%Z)])]) [(SAssign (XVar "tData") (XCall "snoopy_tsrm_createNewThreadData" [(XVar "curTid")]));
 (SExpr (XCall "snoopy_util_list_push" [(XVar "snoopy_tsrm_threadRepo"); (XVar "tData")]))] []);
 (SExpr (XCall "pthread_mutex_unlock" [(XAddr (XVar "snoopy_tsrm_threadRepo_mutex"))]))] |}.

Definition sk_tsrm_dtor : fn_skel := {| sk_name := "snoopy_tsrm_dtor"; sk_nparams := 0; sk_body :=
 [(SDecl "tRepoEntry" false None);
 (SDecl "tData" false None);
 (SAssign (XVar "tRepoEntry") (XCall "snoopy_tsrm_getCurrentThreadRepoEntry" []));
 (SIf (XOp "==" [(XCast (XInt (0)%Z)); (XVar "tRepoEntry")]) [(SReturn None)] []);
 (SExpr (XCall "pthread_mutex_lock" [(XAddr (XVar "snoopy_tsrm_threadRepo_mutex"))]));
 (SAssign (XVar "tData") (XCall "snoopy_util_list_remove" [(XVar "snoopy_tsrm_threadRepo"); (XVar "tRepoEntry")]));
 (SExpr (XCall "pthread_mutex_unlock" [(XAddr (XVar "snoopy_tsrm_threadRepo_mutex"))]));
 (SExpr (XCall "free" [(XMember (XVar "tData") "inputdatastorage")]));
 (SExpr (XCall "free" [(XMember (XVar "tData") "configuration")]));
 (SExpr (XCall "free" [(XVar "tData")]));
 (SReturn None)] |}.

Definition sk_life_init_ts : fn_skel := {| sk_name := "snoopy_init"; sk_nparams := 0; sk_body :=
 [(SExpr (XCall "snoopy_tsrm_ctor" []));
 (SExpr (XCall "snoopy_configuration_ctor" []));
 (SExpr (XCall "snoopy_inputdatastorage_ctor" []))] |}.

Definition sk_life_cleanup_ts : fn_skel := {| sk_name := "snoopy_cleanup"; sk_nparams := 0; sk_body :=
 [(SExpr (XCall "snoopy_inputdatastorage_dtor" []));
 (SExpr (XCall "snoopy_configuration_dtor" []));
 (SExpr (XCall "snoopy_tsrm_dtor" []))] |}.

Definition sk_cfg_get_nts : fn_skel := {| sk_name := "snoopy_configuration_get"; sk_nparams := 0; sk_body :=
 [(SDecl "CFG" false None);
 (SAssign (XVar "CFG") (XAddr (XVar "snoopy_configuration_data")));
 (SIf (XOp "!=" [(XInt (1)%Z); (XMember (XVar "CFG") "initialized")]) [(SExpr (XCall "snoopy_configuration_setDefaults" [(XVar "CFG")]))] []);
 (SReturn (Some (XVar "CFG")))] |}.

Definition sk_life_init_nts : fn_skel := {| sk_name := "snoopy_init"; sk_nparams := 0; sk_body :=
 [(SExpr (XCall "snoopy_configuration_ctor" []));
 (SExpr (XCall "snoopy_inputdatastorage_ctor" []))] |}.

Definition sk_life_cleanup_nts : fn_skel := {| sk_name := "snoopy_cleanup"; sk_nparams := 0; sk_body :=
 [(SExpr (XCall "snoopy_inputdatastorage_dtor" []));
 (SExpr (XCall "snoopy_configuration_dtor" []))] |}.

Definition cfg_fields : list string :=
  ["initialized"; "configfile_enabled"; "configfile_path"; "configfile_found"; "configfile_parsed"; "error_logging_enabled"; "message_format"; "message_format_malloced"; "filtering_enabled"; "filter_chain"; "filter_chain_malloced"; "output"; "output_malloced"; "output_arg"; "output_arg_malloced"; "syslog_facility"; "syslog_level"; "syslog_ident_format_malloced"; "syslog_ident_format"; "datasource_message_max_length"; "log_message_max_length"].
Definition cfg_ptr_fields : list string :=
  ["configfile_path"; "message_format"; "filter_chain"; "output"; "output_arg"; "syslog_ident_format"].

Definition sk_parse_0 : fn_skel := {| sk_name := "snoopy_configfile_parseValue_error_logging"; sk_nparams := 2; sk_body :=
 [(SDecl "confValInt" false (Some (XCall "snoopy_configfile_getboolean" [(XParam 0); (XOp "-" [(XInt (1)%Z)])])));
 (SIf (XOp "!=" [(XOp "-" [(XInt (1)%Z)]); (XVar "confValInt")]) [(SAssign (XMember (XParam 1) "error_logging_enabled") (XVar "confValInt"))] []);
 (SReturn (Some (XInt (1)%Z)))] |}.

Definition sk_parse_1 : fn_skel := {| sk_name := "snoopy_configfile_parseValue_filter_chain"; sk_nparams := 2; sk_body :=
 [(SIf (XOp "==" [(XInt (1)%Z); (XMember (XParam 1) "filter_chain_malloced")]) [(SExpr (XCall "free" [(XMember (XParam 1) "filter_chain")]))] []);
 (SAssign (XMember (XParam 1) "filter_chain") (XCall "strdup" [(XParam 0)]));
 (SAssign (XMember (XParam 1) "filter_chain_malloced") (XInt (1)%Z));
 (SReturn (Some (XInt (1)%Z)))] |}.

Definition sk_parse_2 : fn_skel := {| sk_name := "snoopy_configfile_parseValue_message_format"; sk_nparams := 2; sk_body :=
 [(SIf (XOp "==" [(XInt (1)%Z); (XMember (XParam 1) "message_format_malloced")]) [(SExpr (XCall "free" [(XMember (XParam 1) "message_format")]))] []);
 (SAssign (XMember (XParam 1) "message_format") (XCall "strdup" [(XParam 0)]));
 (SAssign (XMember (XParam 1) "message_format_malloced") (XInt (1)%Z));
 (SReturn (Some (XInt (1)%Z)))] |}.

Definition sk_parse_3 : fn_skel := {| sk_name := "snoopy_configfile_parseValue_output"; sk_nparams := 2; sk_body :=
 [(SDecl "confVal" false None);
 (SDecl "colonPtr" false None);
 (SDecl "outputName" false None);
 (SDecl "outputArg" false None);
 (SDecl "outputArgFound" false (Some (XInt (0)%Z)));
 (SAssign (XVar "confVal") (XCall "strdup" [(XParam 0)]));
 (SIf (XOp "==" [(XInt (1)%Z); (XMember (XParam 1) "output_malloced")]) [(SExpr (XCall "free" [(XMember (XParam 1) "output")]));
 (SAssign (XMember (XParam 1) "output_malloced") (XInt (0)%Z))] []);
 (SIf (XOp "==" [(XInt (1)%Z); (XMember (XParam 1) "output_arg_malloced")]) [(SExpr (XCall "free" [(XMember (XParam 1) "output_arg")]));
 (SAssign (XMember (XParam 1) "output_arg_malloced") (XInt (0)%Z))] []);
 (SAssign (XVar "colonPtr") (XCall "strchr" [(XVar "confVal"); (XInt (58)%Z)]));
 (SIf (XOp "==" [(XCast (XInt (0)%Z)); (XVar "colonPtr")]) [(SAssign (XVar "outputName") (XVar "confVal"));
 (SAssign (XMember (XParam 1) "output_arg") (XStr ""));
 (SAssign (XMember (XParam 1) "output_arg_malloced") (XInt (0)%Z));
 (SAssign (XVar "outputArg") (XStr ""))] [(SAssign (XDeref (XVar "colonPtr")) (XInt (0)%Z));
 (SAssign (XVar "outputName") (XVar "confVal"));
 (SAssign (XVar "outputArg") (XOp "+" [(XVar "colonPtr"); (XInt (1)%Z)]));
 (SAssign (XVar "outputArgFound") (XInt (1)%Z))]);
 (SIf (XOp "==" [(XInt (1)%Z); (XCall "snoopy_outputregistry_doesNameExist" [(XVar "outputName")])]) [(SAssign (XMember (XParam 1) "output") (XCall "strdup" [(XVar "outputName")]));
 (SAssign (XMember (XParam 1) "output_malloced") (XInt (1)%Z));
 (SIf (XOp "==" [(XInt (1)%Z); (XVar "outputArgFound")]) [(SAssign (XMember (XParam 1) "output_arg") (XCall "strdup" [(XVar "outputArg")]));
 (SAssign (XMember (XParam 1) "output_arg_malloced") (XInt (1)%Z))] [])] [(SAssign (XMember (XParam 1) "output") (XStr "devlog"));
 (SAssign (XMember (XParam 1) "output_malloced") (XInt (0)%Z));
 (SAssign (XMember (XParam 1) "output_arg") (XStr ""));
 (SAssign (XMember (XParam 1) "output_arg_malloced") (XInt (0)%Z))]);
 (SExpr (XCall "free" [(XVar "confVal")]));
 (SReturn (Some (XInt (1)%Z)))] |}.

Definition sk_parse_4 : fn_skel := {| sk_name := "snoopy_configfile_parseValue_syslog_facility"; sk_nparams := 2; sk_body :=
 [(SDecl "confVal" false None);
 (SDecl "confValCleaned" false None);
 (SDecl "facilityInt" false None);
 (SAssign (XVar "confVal") (XCall "strdup" [(XParam 0)]));
 (SAssign (XVar "confValCleaned") (XCall "snoopy_configfile_syslog_value_cleanup" [(XVar "confVal")]));
 (SAssign (XVar "facilityInt") (XCall "snoopy_util_syslog_convertFacilityToInt" [(XVar "confValCleaned")]));
 (SIf (XOp "==" [(XOp "-" [(XInt (1)%Z)]); (XVar "facilityInt")]) [(SAssign (XMember (XParam 1) "syslog_facility") (XOp "<<" [(XInt (10)%Z); (XInt (3)%Z)]))] [(SAssign (XMember (XParam 1) "syslog_facility") (XVar "facilityInt"))]);
 (SExpr (XCall "free" [(XVar "confVal")]));
 (SReturn (Some (XInt (1)%Z)))] |}.

Definition sk_parse_5 : fn_skel := {| sk_name := "snoopy_configfile_parseValue_syslog_ident"; sk_nparams := 2; sk_body :=
 [(SIf (XOp "==" [(XInt (1)%Z); (XMember (XParam 1) "syslog_ident_format_malloced")]) [(SExpr (XCall "free" [(XMember (XParam 1) "syslog_ident_format")]))] []);
 (SAssign (XMember (XParam 1) "syslog_ident_format") (XCall "strdup" [(XParam 0)]));
 (SAssign (XMember (XParam 1) "syslog_ident_format_malloced") (XInt (1)%Z));
 (SReturn (Some (XInt (1)%Z)))] |}.

Definition sk_parse_6 : fn_skel := {| sk_name := "snoopy_configfile_parseValue_syslog_level"; sk_nparams := 2; sk_body :=
 [(SDecl "confVal" false None);
 (SDecl "confValCleaned" false None);
 (SDecl "levelInt" false None);
 (SAssign (XVar "confVal") (XCall "strdup" [(XParam 0)]));
 (SAssign (XVar "confValCleaned") (XCall "snoopy_configfile_syslog_value_cleanup" [(XVar "confVal")]));
 (SAssign (XVar "levelInt") (XCall "snoopy_util_syslog_convertLevelToInt" [(XVar "confValCleaned")]));
 (SIf (XOp "==" [(XOp "-" [(XInt (1)%Z)]); (XVar "levelInt")]) [(SAssign (XMember (XParam 1) "syslog_level") (XInt (6)%Z))] [(SAssign (XMember (XParam 1) "syslog_level") (XVar "levelInt"))]);
 (SExpr (XCall "free" [(XVar "confVal")]));
 (SReturn (Some (XInt (1)%Z)))] |}.

Definition sk_parse_7 : fn_skel := {| sk_name := "snoopy_configfile_parseValue_datasource_message_max_length"; sk_nparams := 2; sk_body :=
 [(SAssign (XMember (XParam 1) "datasource_message_max_length") (XCall "snoopy_util_parser_strByteLength" [(XParam 0); (XInt (255)%Z); (XInt (1048575)%Z); (XInt (2047)%Z)]));
 (SReturn (Some (XInt (1)%Z)))] |}.

Definition sk_parse_8 : fn_skel := {| sk_name := "snoopy_configfile_parseValue_log_message_max_length"; sk_nparams := 2; sk_body :=
 [(SAssign (XMember (XParam 1) "log_message_max_length") (XCall "snoopy_util_parser_strByteLength" [(XParam 0); (XInt (255)%Z); (XInt (1048575)%Z); (XInt (16383)%Z)]));
 (SReturn (Some (XInt (1)%Z)))] |}.

Definition cfg_parsers : list (string * fn_skel) :=
  [("error_logging", sk_parse_0);
   ("filter_chain", sk_parse_1);
   ("message_format", sk_parse_2);
   ("output", sk_parse_3);
   ("syslog_facility", sk_parse_4);
   ("syslog_ident", sk_parse_5);
   ("syslog_level", sk_parse_6);
   ("datasource_message_max_length", sk_parse_7);
   ("log_message_max_length", sk_parse_8)].

Definition cfg_neutral : list string :=
  ["pthread_mutex_lock"; "pthread_mutex_unlock"; "pthread_once"; "snoopy_configfile_getboolean"; "snoopy_configfile_optionRegistry_getIdFromName"; "snoopy_configfile_syslog_value_cleanup"; "snoopy_configuration_get"; "snoopy_configuration_setDefaults"; "snoopy_configuration_setUninitialized"; "snoopy_inputdatastorage_ctor"; "snoopy_inputdatastorage_dtor"; "snoopy_inputdatastorage_setUninitialized"; "snoopy_outputregistry_doesNameExist"; "snoopy_tsrm_doesThreadRepoEntryExist"; "snoopy_tsrm_getCurrentThreadId"; "snoopy_tsrm_getCurrentThreadRepoEntry"; "snoopy_tsrm_get_configuration"; "snoopy_util_parser_strByteLength"; "snoopy_util_syslog_convertFacilityToInt"; "snoopy_util_syslog_convertLevelToInt"; "strchr"; "strcmp"].

Definition cfg_writers : list (string * list string) :=
  [("snoopy_configfile_load", ["configfile_found"; "configfile_parsed"; "configfile_path"]);
   ("snoopy_configfile_parseValue_datasource_message_max_length", ["datasource_message_max_length"]);
   ("snoopy_configfile_parseValue_error_logging", ["error_logging_enabled"]);
   ("snoopy_configfile_parseValue_filter_chain", ["filter_chain"; "filter_chain_malloced"]);
   ("snoopy_configfile_parseValue_log_message_max_length", ["log_message_max_length"]);
   ("snoopy_configfile_parseValue_message_format", ["message_format"; "message_format_malloced"]);
   ("snoopy_configfile_parseValue_output", ["output"; "output_arg"; "output_arg_malloced"; "output_malloced"]);
   ("snoopy_configfile_parseValue_syslog_facility", ["syslog_facility"]);
   ("snoopy_configfile_parseValue_syslog_ident", ["syslog_ident_format"; "syslog_ident_format_malloced"]);
   ("snoopy_configfile_parseValue_syslog_level", ["syslog_level"]);
   ("snoopy_configuration_dtor", ["configfile_path"; "filter_chain"; "filter_chain_malloced"; "message_format"; "message_format_malloced"; "output"; "output_arg"; "output_arg_malloced"; "output_malloced"; "syslog_ident_format"; "syslog_ident_format_malloced"]);
   ("snoopy_configuration_setDefaults", ["configfile_enabled"; "configfile_found"; "configfile_parsed"; "configfile_path"; "datasource_message_max_length"; "error_logging_enabled"; "filter_chain"; "filter_chain_malloced"; "filtering_enabled"; "initialized"; "log_message_max_length"; "message_format"; "message_format_malloced"; "output"; "output_arg"; "output_arg_malloced"; "output_malloced"; "syslog_facility"; "syslog_ident_format"; "syslog_ident_format_malloced"; "syslog_level"]);
   ("snoopy_configuration_setUninitialized", ["initialized"]);
   ("snoopy_error_handler", ["error_logging_enabled"])].

Definition cfg_static_uninit : bool := true.

From Snoopy Require Import CfgLife.Model.
Definition gen : cfg_gen := {| g_fields := cfg_fields; g_ptr_fields := cfg_ptr_fields; g_ctor := sk_cfg_ctor; g_dtor := sk_cfg_dtor; g_defaults := sk_cfg_defaults; g_uninit := sk_cfg_uninit; g_get_ts := sk_cfg_get_ts; g_get_nts := sk_cfg_get_nts; g_load := sk_cfg_load; g_callback := sk_cfg_callback; g_tsrm_new := sk_tsrm_new; g_tsrm_ctor := sk_tsrm_ctor; g_tsrm_dtor := sk_tsrm_dtor; g_init_ts := sk_life_init_ts; g_cleanup_ts := sk_life_cleanup_ts; g_init_nts := sk_life_init_nts; g_cleanup_nts := sk_life_cleanup_nts; g_parsers := cfg_parsers; g_neutral := cfg_neutral; g_static_uninit := cfg_static_uninit; g_writers := cfg_writers |}.
