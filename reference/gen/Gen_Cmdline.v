(* GENERATED from the current /repo working tree by vlib/translate.py -- do not edit *)
From Snoopy Require Import Lib.CStr Datasource.Cmdline.
Definition consts : cmdline_consts :=
  {| sep := [x20];
     unknown := [x28; x75; x6e; x6b; x6e; x6f; x77; x6e; x29] |}.
