(* GENERATED from the current working tree of the repository by vlib/tr_conc.py (clang AST of src/tsrm.c) -- do not edit *)
From Coq Require Import String ZArith List.
From Snoopy Require Import Conc.LockSkel.
Import ListNotations.
Local Open Scope string_scope.

Definition lk_snoopy_tsrm_ctor : lkfn := {| lk_name := "snoopy_tsrm_ctor"; lk_nparams := 0; lk_body :=
  [(KOnce "snoopy_tsrm_init_onceControl" "snoopy_tsrm_init");
   (KCall "snoopy_tsrm_getCurrentThreadId" []);
   (KLock "snoopy_tsrm_threadRepo_mutex");
   (KCall "snoopy_tsrm_doesThreadRepoEntryExist" [KOpaque; (KInt (1)%Z)]);
   (KIf COther [(KCall "snoopy_tsrm_createNewThreadData" [KOpaque]); (KListOp "push" "snoopy_tsrm_threadRepo")] []);
   (KUnlock "snoopy_tsrm_threadRepo_mutex")] |}.

Definition lk_snoopy_tsrm_dtor : lkfn := {| lk_name := "snoopy_tsrm_dtor"; lk_nparams := 0; lk_body :=
  [(KCall "snoopy_tsrm_getCurrentThreadRepoEntry" []);
   (KIf COther [KReturn] []);
   (KLock "snoopy_tsrm_threadRepo_mutex");
   (KListOp "remove" "snoopy_tsrm_threadRepo");
   (KUnlock "snoopy_tsrm_threadRepo_mutex");
   (KExt "free");
   (KExt "free");
   (KExt "free");
   KReturn] |}.

Definition lk_snoopy_tsrm_init : lkfn := {| lk_name := "snoopy_tsrm_init"; lk_nparams := 0; lk_body :=
  [(KGlobal "snoopy_tsrm_threadRepo_mutexAttr" "&" true);
   (KExt "pthread_mutexattr_init");
   (KMutexType "snoopy_tsrm_threadRepo_mutexAttr" "PTHREAD_MUTEX_RECURSIVE");
   (KMutexInit "snoopy_tsrm_threadRepo_mutex");
   (KAtfork "snoopy_tsrm_atfork_prepare" "snoopy_tsrm_atfork_parent" "snoopy_tsrm_atfork_child")] |}.

Definition lk_snoopy_tsrm_onLoad : lkfn := {| lk_name := "snoopy_tsrm_onLoad"; lk_nparams := 0; lk_body :=
  [(KOnce "snoopy_tsrm_init_onceControl" "snoopy_tsrm_init")] |}.

Definition lk_snoopy_tsrm_atfork_prepare : lkfn := {| lk_name := "snoopy_tsrm_atfork_prepare"; lk_nparams := 0; lk_body :=
  [(KLock "snoopy_tsrm_threadRepo_mutex")] |}.

Definition lk_snoopy_tsrm_atfork_parent : lkfn := {| lk_name := "snoopy_tsrm_atfork_parent"; lk_nparams := 0; lk_body :=
  [(KUnlock "snoopy_tsrm_threadRepo_mutex")] |}.

Definition lk_snoopy_tsrm_atfork_child : lkfn := {| lk_name := "snoopy_tsrm_atfork_child"; lk_nparams := 0; lk_body :=
  [(KMutexInit "snoopy_tsrm_threadRepo_mutex");
   (KGlobal "snoopy_tsrm_threadRepo" "first" false);
   (KLoop [] [(KIf COther [(KExt "free"); (KExt "free"); (KExt "free")] []); (KExt "free")]);
   (KGlobal "snoopy_tsrm_threadRepo" "first" true);
   (KGlobal "snoopy_tsrm_threadRepo" "last" true);
   (KGlobal "snoopy_tsrm_threadRepo" "count" true)] |}.

Definition lk_snoopy_tsrm_doesThreadRepoEntryExist : lkfn := {| lk_name := "snoopy_tsrm_doesThreadRepoEntryExist"; lk_nparams := 2; lk_body :=
  [(KIf (CParamNe 1 (1)%Z) [(KLock "snoopy_tsrm_threadRepo_mutex")] []);
   (KLoop [(KListOp "fetchNextNode" "snoopy_tsrm_threadRepo")] [(KIf COther [KContinue] []); (KExt "pthread_equal"); (KIf COther [KBreak] [])]);
   (KIf (CParamNe 1 (1)%Z) [(KUnlock "snoopy_tsrm_threadRepo_mutex")] []);
   KReturn] |}.

Definition lk_snoopy_tsrm_createNewThreadData : lkfn := {| lk_name := "snoopy_tsrm_createNewThreadData"; lk_nparams := 1; lk_body :=
  [(KExt "malloc");
   (KExt "malloc");
   (KExt "malloc");
   (KExt "snoopy_configuration_setUninitialized");
   (KExt "snoopy_inputdatastorage_setUninitialized");
   KReturn] |}.

Definition lk_snoopy_tsrm_getCurrentThreadId : lkfn := {| lk_name := "snoopy_tsrm_getCurrentThreadId"; lk_nparams := 0; lk_body :=
  [(KExt "pthread_self");
   KReturn] |}.

Definition lk_snoopy_tsrm_getCurrentThreadRepoEntry : lkfn := {| lk_name := "snoopy_tsrm_getCurrentThreadRepoEntry"; lk_nparams := 0; lk_body :=
  [(KCall "snoopy_tsrm_getCurrentThreadId" []);
   (KLock "snoopy_tsrm_threadRepo_mutex");
   (KLoop [(KListOp "fetchNextNode" "snoopy_tsrm_threadRepo")] [(KIf COther [KContinue] []); (KExt "pthread_equal"); (KIf COther [KBreak] [])]);
   (KUnlock "snoopy_tsrm_threadRepo_mutex");
   KReturn] |}.

Definition lk_snoopy_tsrm_getCurrentThreadData : lkfn := {| lk_name := "snoopy_tsrm_getCurrentThreadData"; lk_nparams := 0; lk_body :=
  [(KCall "snoopy_tsrm_getCurrentThreadRepoEntry" []);
   (KIf COther [KReturn] []);
   KReturn] |}.

Definition lk_snoopy_tsrm_get_configuration : lkfn := {| lk_name := "snoopy_tsrm_get_configuration"; lk_nparams := 0; lk_body :=
  [(KCall "snoopy_tsrm_getCurrentThreadData" []);
   KReturn] |}.

Definition lk_snoopy_tsrm_get_inputdatastorage : lkfn := {| lk_name := "snoopy_tsrm_get_inputdatastorage"; lk_nparams := 0; lk_body :=
  [(KCall "snoopy_tsrm_getCurrentThreadData" []);
   KReturn] |}.

Definition lk_snoopy_tsrm_get_threadCount : lkfn := {| lk_name := "snoopy_tsrm_get_threadCount"; lk_nparams := 0; lk_body :=
  [(KLock "snoopy_tsrm_threadRepo_mutex");
   (KGlobal "snoopy_tsrm_threadRepo" "count" false);
   (KUnlock "snoopy_tsrm_threadRepo_mutex");
   KReturn] |}.

Definition lk_snoopy_tsrm_localtime_r : lkfn := {| lk_name := "snoopy_tsrm_localtime_r"; lk_nparams := 2; lk_body :=
  [(KLock "snoopy_tsrm_threadRepo_mutex");
   (KExt "localtime_r");
   (KUnlock "snoopy_tsrm_threadRepo_mutex");
   KReturn] |}.

Definition lk_snoopy_tsrm_strftime : lkfn := {| lk_name := "snoopy_tsrm_strftime"; lk_nparams := 4; lk_body :=
  [(KLock "snoopy_tsrm_threadRepo_mutex");
   (KExt "strftime");
   (KUnlock "snoopy_tsrm_threadRepo_mutex");
   KReturn] |}.

Definition lk_snoopy_tsrm_getutline : lkfn := {| lk_name := "snoopy_tsrm_getutline"; lk_nparams := 3; lk_body :=
  [(KLock "snoopy_tsrm_threadRepo_mutex");
   (KExt "setutent");
   (KExt "getutline_r");
   (KExt "endutent");
   (KUnlock "snoopy_tsrm_threadRepo_mutex");
   KReturn] |}.

Definition tsrm_fns : list lkfn := [lk_snoopy_tsrm_ctor; lk_snoopy_tsrm_dtor; lk_snoopy_tsrm_init; lk_snoopy_tsrm_onLoad; lk_snoopy_tsrm_atfork_prepare; lk_snoopy_tsrm_atfork_parent; lk_snoopy_tsrm_atfork_child; lk_snoopy_tsrm_doesThreadRepoEntryExist; lk_snoopy_tsrm_createNewThreadData; lk_snoopy_tsrm_getCurrentThreadId; lk_snoopy_tsrm_getCurrentThreadRepoEntry; lk_snoopy_tsrm_getCurrentThreadData; lk_snoopy_tsrm_get_configuration; lk_snoopy_tsrm_get_inputdatastorage; lk_snoopy_tsrm_get_threadCount; lk_snoopy_tsrm_localtime_r; lk_snoopy_tsrm_strftime; lk_snoopy_tsrm_getutline].
Definition inlined_helpers : list string := [].
(* functions of src/tsrm.c that carry __attribute__((constructor)) *)
Definition constructors : list string := ["snoopy_tsrm_onLoad"].
