(* GENERATED from the current /repo working tree by vlib/tr_ds.py -- do not edit *)
From Coq Require Import String ZArith NArith List.
From Snoopy Require Import Lib.CStr DsTruth.Model.
Import ListNotations.
Local Open Scope string_scope.

Definition consts : ds_consts :=
  {| ea_comma_min := 5%N;
     ea_sep := [x2c];
     ea_whole_margin := 4%N;
     ea_cut_margin := 3%N;
     ea_marker_size := 4%N;
     ea_marker := [x2e; x2e; x2e];
     ea_null_guard := true;
     cg_path_fmt := [x2f; x70; x72; x6f; x63; x2f; x25; x64; x2f; x63; x67; x72; x6f; x75; x70];
     cg_pid_is_getpid := true;
     cg_none := [x28; x6e; x6f; x6e; x65; x29];
     cg_missing_arg := [x4d; x69; x73; x73; x69; x6e; x67; x20; x63; x67; x72; x6f; x75; x70; x20; x73; x65; x6c; x65; x63; x74; x69; x6f; x6e; x20; x61; x72; x67; x75; x6d; x65; x6e; x74];
     cg_num_fmt := [x25; x73; x3a];
     cg_line_sep := [x0a];
     cg_file_max := 10240%N;
     rp_key_name := [x4e; x61; x6d; x65];
     rp_key_ppid := [x50; x50; x69; x64];
     rp_unknown := [x28; x75; x6e; x6b; x6e; x6f; x77; x6e; x29];
     rp_root_pid := 1%N;
     rp_zero_pid := 0%N;
     rp_val_max := 255%N;
     rp_path_fmt := [x2f; x70; x72; x6f; x63; x2f; x25; x64; x2f; x73; x74; x61; x74; x75; x73];
     rp_start_is_getpid := true;
     rp_value_verbatim := true;
     dt_default_fmt := [x25; x46; x54; x25; x54; x25; x7a];
     dt_buf := 80%N;
     cfg_version := [x37; x36; x35; x33; x37; x38; x61];
     cfg_configure_command := [x2e; x2f; x63; x6f; x6e; x66; x69; x67; x75; x72; x65; x20; x27; x43; x46; x4c; x41; x47; x53; x3d; x20; x2d; x57; x6e; x6f; x2d; x65; x72; x72; x6f; x72; x27];
     path_max := 4096%N;
     login_name_max := 256%N |}.

Definition table : list ds_entry := [
  {| de_name := "cgroup"; de_symbol := "snoopy_datasource_cgroup"; de_calls := ["strcmp"; "getpid"; "snoopy_util_file_getSmallTextFileContent"; "snoopy_util_string_containsOnlyDigits"; "strlen"; "snoopy_util_string_findLineStartingWith"; "snoopy_util_string_nullTerminateLine"; "strtok_r"; "strchr"]; de_tree :=
    (TOther "loop") |};
  {| de_name := "cmdline"; de_symbol := "snoopy_datasource_cmdline"; de_calls := ["snoopy_inputdatastorage_get"]; de_tree :=
    (TOther "loop") |};
  {| de_name := "cwd"; de_symbol := "snoopy_datasource_cwd"; de_calls := ["getcwd"]; de_tree :=
    (TIf (EOp "!=" [(ECall F_getcwd [(EOp "out" []); (EInt (4097)%Z)]); (EInt (0)%Z)])
     (TPrint [x25; x73] [(EOut F_getcwd [(EOp "out" []); (EInt (4097)%Z)] 0)])
     (TRet (EInt (-1)%Z)
           EBuf0)) |};
  {| de_name := "datetime"; de_symbol := "snoopy_datasource_datetime"; de_calls := ["time"; "localtime_r"; "strftime"]; de_tree :=
    (TIf (EOp "==" [(ECall F_time [(EOp "out" [])]); (EInt (-1)%Z)])
     (TPrint [x28; x65; x72; x72; x6f; x72; x20; x40; x20; x74; x69; x6d; x65; x28; x29; x3a; x20; x25; x64; x29] [(EErrno F_time [(EOp "out" [])])])
     (TIf (EOp "==" [(ECall F_localtime_r [(EOut F_time [(EOp "out" [])] 0); (EOp "out" [])]); (EInt (0)%Z)])
      (TPrint [x28; x65; x72; x72; x6f; x72; x20; x40; x20; x6c; x6f; x63; x61; x6c; x74; x69; x6d; x65; x5f; x72; x28; x29; x29] [])
      (TIf (EOp "!=" [(ECast true 32%N (EOp "byteat" [EArg; (EInt (0)%Z)])); (EInt (0)%Z)])
       (TIf (EOp "==" [(ECall F_strftime [(EOp "out" []); (EInt (80)%Z); EArg; (ECall F_localtime_r [(EOut F_time [(EOp "out" [])] 0); (EOp "out" [])])]); (EInt (0)%Z)])
        (TPrint [x28; x65; x72; x72; x6f; x72; x20; x40; x20; x73; x74; x72; x66; x74; x69; x6d; x65; x28; x29; x29] [])
        (TPrint [x25; x73] [(EOut F_strftime [(EOp "out" []); (EInt (80)%Z); EArg; (ECall F_localtime_r [(EOut F_time [(EOp "out" [])] 0); (EOp "out" [])])] 0)]))
       (TIf (EOp "==" [(ECall F_strftime [(EOp "out" []); (EInt (80)%Z); (EStr [x25; x46; x54; x25; x54; x25; x7a]); (ECall F_localtime_r [(EOut F_time [(EOp "out" [])] 0); (EOp "out" [])])]); (EInt (0)%Z)])
        (TPrint [x28; x65; x72; x72; x6f; x72; x20; x40; x20; x73; x74; x72; x66; x74; x69; x6d; x65; x28; x29; x29] [])
        (TPrint [x25; x73] [(EOut F_strftime [(EOp "out" []); (EInt (80)%Z); (EStr [x25; x46; x54; x25; x54; x25; x7a]); (ECall F_localtime_r [(EOut F_time [(EOp "out" [])] 0); (EOp "out" [])])] 0)]))))) |};
  {| de_name := "domain"; de_symbol := "snoopy_datasource_domain"; de_calls := ["gethostname"; "strlen"; "fopen"; "fgets"; "strchr"; "strcasestr"; "strtok_r"; "fclose"]; de_tree :=
    (TIf (EOp "!=" [(ECall F_gethostname [(EOp "out" []); (EInt (66)%Z)]); (EInt (0)%Z)])
     (TPrint [x28; x65; x72; x72; x6f; x72; x20; x40; x20; x67; x65; x74; x68; x6f; x73; x74; x6e; x61; x6d; x65; x28; x29; x3a; x20; x25; x64; x29] [(EErrno F_gethostname [(EOp "out" []); (EInt (66)%Z)])])
     (TIf (EOp "==" [(ECast true 32%N (ECall F_strlen [(EOp "setnul" [(EOut F_gethostname [(EOp "out" []); (EInt (66)%Z)] 0); (EInt (65)%Z)])])); (EInt (0)%Z)])
      (TRet (EInt (-1)%Z)
            (EFmt ESize [x47; x6f; x74; x20; x65; x6d; x70; x74; x79; x20; x68; x6f; x73; x74; x6e; x61; x6d; x65] []))
      (TIf (EOp ">" [(ECast true 32%N (ECall F_strlen [(EOp "setnul" [(EOut F_gethostname [(EOp "out" []); (EInt (66)%Z)] 0); (EInt (65)%Z)])])); (EInt (64)%Z)])
       (TRet (EInt (-1)%Z)
             (EFmt ESize [x49; x4e; x54; x45; x52; x4e; x41; x4c; x20; x45; x52; x52; x4f; x52; x3a; x20; x47; x6f; x74; x20; x74; x6f; x6f; x20; x6c; x6f; x6e; x67; x20; x68; x6f; x73; x74; x6e; x61; x6d; x65; x2c; x20; x6c; x65; x6e; x67; x74; x68; x3a; x20; x25; x64] [(ECast true 32%N (ECall F_strlen [(EOp "setnul" [(EOut F_gethostname [(EOp "out" []); (EInt (66)%Z)] 0); (EInt (65)%Z)])]))]))
       (TOther "store into a buffer")))) |};
  {| de_name := "egid"; de_symbol := "snoopy_datasource_egid"; de_calls := ["getegid"]; de_tree :=
    (TPrint [x25; x75] [(ECall F_getegid [])]) |};
  {| de_name := "egroup"; de_symbol := "snoopy_datasource_egroup"; de_calls := ["sysconf"; "getgrgid_r"; "getegid"]; de_tree :=
    (TIf (EOp "!=" [(ECall F_getgrgid_r [(ECall F_getegid []); (EOp "out" []); (EOp "out" [])]); (EInt (0)%Z)])
     (TPrint [x45; x52; x52; x4f; x52; x28; x67; x65; x74; x67; x72; x67; x69; x64; x5f; x72; x29] [])
     (TIf (EOp "==" [(EOut F_getgrgid_r [(ECall F_getegid []); (EOp "out" []); (EOp "out" [])] 4); (EInt (0)%Z)])
      (TPrint [x28; x75; x6e; x64; x65; x66; x69; x6e; x65; x64; x29] [])
      (TPrint [x25; x73] [(EField (EOut F_getgrgid_r [(ECall F_getegid []); (EOp "out" []); (EOp "out" [])] 4) "gr_name")]))) |};
  {| de_name := "env"; de_symbol := "snoopy_datasource_env"; de_calls := ["getenv"]; de_tree :=
    (TIf (EOp "==" [(ECall F_getenv [EArg]); (EInt (0)%Z)])
     (TPrint [x28; x75; x6e; x64; x65; x66; x69; x6e; x65; x64; x29] [])
     (TPrint [x25; x73] [(ECall F_getenv [EArg])])) |};
  {| de_name := "env_all"; de_symbol := "snoopy_datasource_env_all"; de_calls := ["strlen"]; de_tree :=
    (TOther "loop") |};
  {| de_name := "euid"; de_symbol := "snoopy_datasource_euid"; de_calls := ["geteuid"]; de_tree :=
    (TPrint [x25; x75] [(ECall F_geteuid [])]) |};
  {| de_name := "eusername"; de_symbol := "snoopy_datasource_eusername"; de_calls := ["sysconf"; "getpwuid_r"; "geteuid"]; de_tree :=
    (TIf (EOp "!=" [(ECall F_getpwuid_r [(ECall F_geteuid []); (EOp "out" []); (EOp "out" [])]); (EInt (0)%Z)])
     (TPrint [x45; x52; x52; x4f; x52; x28; x67; x65; x74; x70; x77; x75; x69; x64; x5f; x72; x29] [])
     (TIf (EOp "==" [(EOut F_getpwuid_r [(ECall F_geteuid []); (EOp "out" []); (EOp "out" [])] 4); (EInt (0)%Z)])
      (TPrint [x28; x75; x6e; x64; x65; x66; x69; x6e; x65; x64; x29] [])
      (TPrint [x25; x73] [(EField (EOut F_getpwuid_r [(ECall F_geteuid []); (EOp "out" []); (EOp "out" [])] 4) "pw_name")]))) |};
  {| de_name := "filename"; de_symbol := "snoopy_datasource_filename"; de_calls := ["snoopy_inputdatastorage_get"]; de_tree :=
    (TPrint [x25; x73] [(EIds "filename")]) |};
  {| de_name := "gid"; de_symbol := "snoopy_datasource_gid"; de_calls := ["getgid"]; de_tree :=
    (TPrint [x25; x75] [(ECall F_getgid [])]) |};
  {| de_name := "group"; de_symbol := "snoopy_datasource_group"; de_calls := ["sysconf"; "getgrgid_r"; "getgid"]; de_tree :=
    (TIf (EOp "!=" [(ECall F_getgrgid_r [(ECall F_getgid []); (EOp "out" []); (EOp "out" [])]); (EInt (0)%Z)])
     (TPrint [x45; x52; x52; x4f; x52; x28; x67; x65; x74; x67; x72; x67; x69; x64; x5f; x72; x29] [])
     (TIf (EOp "==" [(EOut F_getgrgid_r [(ECall F_getgid []); (EOp "out" []); (EOp "out" [])] 4); (EInt (0)%Z)])
      (TPrint [x28; x75; x6e; x64; x65; x66; x69; x6e; x65; x64; x29] [])
      (TPrint [x25; x73] [(EField (EOut F_getgrgid_r [(ECall F_getgid []); (EOp "out" []); (EOp "out" [])] 4) "gr_name")]))) |};
  {| de_name := "hostname"; de_symbol := "snoopy_datasource_hostname"; de_calls := ["gethostname"; "strlen"]; de_tree :=
    (TIf (EOp "!=" [(ECall F_gethostname [(EOp "out" []); ESize]); (EInt (0)%Z)])
     (TPrint [x28; x65; x72; x72; x6f; x72; x20; x40; x20; x67; x65; x74; x68; x6f; x73; x74; x6e; x61; x6d; x65; x28; x29; x3a; x20; x25; x64; x29] [(EErrno F_gethostname [(EOp "out" []); ESize])])
     (TRet (ECast true 32%N (ECall F_strlen [(EOp "setnul" [(EOut F_gethostname [(EOp "out" []); ESize] 0); (EOp "-" [ESize; (EInt (1)%Z)])])]))
           (EOp "setnul" [(EOut F_gethostname [(EOp "out" []); ESize] 0); (EOp "-" [ESize; (EInt (1)%Z)])]))) |};
  {| de_name := "ipaddr"; de_symbol := "snoopy_datasource_ipaddr"; de_calls := ["ttyname_r"; "snoopy_util_utmp_findUtmpEntryByPath"; "snoopy_util_utmp_doesEntryContainIpAddr"; "snoopy_util_utmp_getUtmpIpAddrAsString"; "strlen"]; de_tree :=
    (TIf (EOp "!=" [(ECall F_ttyname_r [(EInt (0)%Z); (EOp "out" []); (EInt (37)%Z)]); (EInt (0)%Z)])
     (TPrint [x2d] [])
     (TIf (EOp "!=" [(ECall (F_other "snoopy_util_utmp_findUtmpEntryByPath") [(EOp "setnul" [(EOut F_ttyname_r [(EInt (0)%Z); (EOp "out" []); (EInt (37)%Z)] 1); (EInt (36)%Z)]); (EOp "uninit" [])]); (EInt (1)%Z)])
      (TPrint [x2d] [])
      (TIf (EOp "!=" [(ECall (F_other "snoopy_util_utmp_doesEntryContainIpAddr") [(EOp "uninit" [])]); (EInt (1)%Z)])
       (TPrint [x2d] [])
       (TRet (ECast true 32%N (ECall F_strlen [EBuf0]))
             EBuf0)))) |};
  {| de_name := "login"; de_symbol := "snoopy_datasource_login"; de_calls := ["getlogin_r"; "getenv"; "strcpy"; "strncpy"; "strlen"]; de_tree :=
    (TIf (EOp "!=" [(ECall F_getlogin_r [(EOp "out" []); (EInt (255)%Z)]); (EInt (0)%Z)])
     (TIf (EOp "==" [(ECall F_getenv [(EStr [x53; x55; x44; x4f; x5f; x55; x53; x45; x52])]); (EInt (0)%Z)])
      (TIf (EOp "==" [(ECall F_getenv [(EStr [x4c; x4f; x47; x4e; x41; x4d; x45])]); (EInt (0)%Z)])
       (TPrint [x25; x73] [(EStr [x28; x75; x6e; x6b; x6e; x6f; x77; x6e; x29])])
       (TIf (EOp ">" [(ECast true 32%N (ECall F_strlen [(ECall F_getenv [(EStr [x4c; x4f; x47; x4e; x41; x4d; x45])])])); (EInt (254)%Z)])
        (TPrint [x25; x73] [(EOp "setnul" [(EOp "strncpy" [(ECall F_getenv [(EStr [x4c; x4f; x47; x4e; x41; x4d; x45])]); (EInt (254)%Z)]); (EInt (254)%Z)])])
        (TPrint [x25; x73] [(EOp "strncpy" [(ECall F_getenv [(EStr [x4c; x4f; x47; x4e; x41; x4d; x45])]); (EInt (254)%Z)])])))
      (TIf (EOp ">" [(ECast true 32%N (ECall F_strlen [(ECall F_getenv [(EStr [x53; x55; x44; x4f; x5f; x55; x53; x45; x52])])])); (EInt (254)%Z)])
       (TPrint [x25; x73] [(EOp "setnul" [(EOp "strncpy" [(ECall F_getenv [(EStr [x53; x55; x44; x4f; x5f; x55; x53; x45; x52])]); (EInt (254)%Z)]); (EInt (254)%Z)])])
       (TPrint [x25; x73] [(EOp "strncpy" [(ECall F_getenv [(EStr [x53; x55; x44; x4f; x5f; x55; x53; x45; x52])]); (EInt (254)%Z)])])))
     (TPrint [x25; x73] [(EOut F_getlogin_r [(EOp "out" []); (EInt (255)%Z)] 0)])) |};
  {| de_name := "pid"; de_symbol := "snoopy_datasource_pid"; de_calls := ["getpid"]; de_tree :=
    (TPrint [x25; x75] [(ECall F_getpid [])]) |};
  {| de_name := "ppid"; de_symbol := "snoopy_datasource_ppid"; de_calls := ["getppid"]; de_tree :=
    (TPrint [x25; x75] [(ECall F_getppid [])]) |};
  {| de_name := "rpname"; de_symbol := "snoopy_datasource_rpname"; de_calls := ["getpid"; "atoi"; "fopen"; "getline"; "strstr"; "strchr"; "strcmp"; "strlen"; "strncpy"; "fclose"; "strdup"]; de_tree :=
    (TRet (ECall (F_other "get_rpname") [(ECall F_getpid []); EBuf0; ESize])
          EBuf0) |};
  {| de_name := "sid"; de_symbol := "snoopy_datasource_sid"; de_calls := ["getsid"]; de_tree :=
    (TPrint [x25; x75] [(ECall F_getsid [(EInt (0)%Z)])]) |};
  {| de_name := "snoopy_configure_command"; de_symbol := "snoopy_datasource_snoopy_configure_command"; de_calls := []; de_tree :=
    (TPrint [x25; x73] [(EStr [x2e; x2f; x63; x6f; x6e; x66; x69; x67; x75; x72; x65; x20; x27; x43; x46; x4c; x41; x47; x53; x3d; x20; x2d; x57; x6e; x6f; x2d; x65; x72; x72; x6f; x72; x27])]) |};
  {| de_name := "snoopy_literal"; de_symbol := "snoopy_datasource_snoopy_literal"; de_calls := []; de_tree :=
    (TPrint [x25; x73] [EArg]) |};
  {| de_name := "snoopy_threads"; de_symbol := "snoopy_datasource_snoopy_threads"; de_calls := ["snoopy_tsrm_get_threadCount"]; de_tree :=
    (TPrint [x25; x64] [(ECall (F_other "snoopy_tsrm_get_threadCount") [])]) |};
  {| de_name := "snoopy_version"; de_symbol := "snoopy_datasource_snoopy_version"; de_calls := []; de_tree :=
    (TPrint [x25; x73] [(EStr [x37; x36; x35; x33; x37; x38; x61])]) |};
  {| de_name := "systemd_unit_name"; de_symbol := "snoopy_datasource_systemd_unit_name"; de_calls := ["snoopy_datasource_cgroup"; "strcmp"; "snoopy_util_systemd_convertCgroupEntryToUnitName"; "strlen"]; de_tree :=
    (TIf (EOp "==" [(ECall (F_other "snoopy_datasource_cgroup") [(EOp "uninit" []); ESize; (EStr [x6e; x61; x6d; x65; x3d; x73; x79; x73; x74; x65; x6d; x64])]); (EInt (-1)%Z)])
     (TRet (EInt (-1)%Z)
           (EFmt ESize [x43; x67; x72; x6f; x75; x70; x20; x65; x6e; x74; x72; x79; x20; x27; x6e; x61; x6d; x65; x3d; x73; x79; x73; x74; x65; x6d; x64; x27; x20; x6e; x6f; x74; x20; x66; x6f; x75; x6e; x64] []))
     (TIf (EOp "==" [(ECall F_strcmp [(EOp "uninit" []); (EStr [x28; x6e; x6f; x6e; x65; x29])]); (EInt (0)%Z)])
      (TRet (EInt (-1)%Z)
            (EFmt ESize [x43; x67; x72; x6f; x75; x70; x20; x65; x6e; x74; x72; x79; x20; x27; x6e; x61; x6d; x65; x3d; x73; x79; x73; x74; x65; x6d; x64; x27; x20; x6e; x6f; x74; x20; x66; x6f; x75; x6e; x64] []))
      (TIf (EOp "==" [(ECall (F_other "snoopy_util_systemd_convertCgroupEntryToUnitName") [(EOp "uninit" [])]); (EInt (0)%Z)])
       (TPrint [x25; x73] [(EUnknown "pointer arithmetic")])
       (TPrint [x25; x73] [(ECall (F_other "snoopy_util_systemd_convertCgroupEntryToUnitName") [(EOp "uninit" [])])])))) |};
  {| de_name := "tid"; de_symbol := "snoopy_datasource_tid"; de_calls := ["pthread_self"]; de_tree :=
    (TIf (EOp "==" [(ECall F_pthread_self []); (EInt (0)%Z)])
     (TPrint [x28; x65; x72; x72; x6f; x72; x20; x40; x20; x70; x74; x68; x72; x65; x61; x64; x5f; x73; x65; x6c; x66; x28; x29; x29] [])
     (TPrint [x25; x6c; x75] [(ECall F_pthread_self [])])) |};
  {| de_name := "tid_kernel"; de_symbol := "snoopy_datasource_tid_kernel"; de_calls := ["syscall"]; de_tree :=
    (TIf (EOp "==" [(ECast false 64%N (ECall F_syscall [(EInt (186)%Z)])); (EInt (0)%Z)])
     (TPrint [x28; x65; x72; x72; x6f; x72; x20; x40; x20; x73; x79; x73; x63; x61; x6c; x6c; x28; x53; x59; x53; x5f; x67; x65; x74; x74; x69; x64; x29; x29] [])
     (TPrint [x25; x6c; x75] [(ECast false 64%N (ECall F_syscall [(EInt (186)%Z)]))])) |};
  {| de_name := "timestamp"; de_symbol := "snoopy_datasource_timestamp"; de_calls := ["gettimeofday"]; de_tree :=
    (TIf (EOp "==" [(ECall F_gettimeofday [(EOp "out" []); (EInt (0)%Z)]); (EInt (0)%Z)])
     (TPrint [x25; x6c; x6c; x64] [(EField (EOut F_gettimeofday [(EOp "out" []); (EInt (0)%Z)] 0) "tv_sec")])
     (TPrint [x28; x65; x72; x72; x6f; x72; x3a; x20; x25; x64; x29] [(EErrno F_gettimeofday [(EOp "out" []); (EInt (0)%Z)])])) |};
  {| de_name := "timestamp_ms"; de_symbol := "snoopy_datasource_timestamp_ms"; de_calls := ["gettimeofday"]; de_tree :=
    (TIf (EOp "==" [(ECall F_gettimeofday [(EOp "out" []); (EInt (0)%Z)]); (EInt (0)%Z)])
     (TPrint [x25; x30; x33; x64] [(EOp "/" [(ECast true 32%N (EField (EOut F_gettimeofday [(EOp "out" []); (EInt (0)%Z)] 0) "tv_usec")); (EInt (1000)%Z)])])
     (TPrint [x28; x65; x72; x72; x6f; x72; x3a; x20; x25; x64; x29] [(EErrno F_gettimeofday [(EOp "out" []); (EInt (0)%Z)])])) |};
  {| de_name := "timestamp_us"; de_symbol := "snoopy_datasource_timestamp_us"; de_calls := ["gettimeofday"]; de_tree :=
    (TIf (EOp "==" [(ECall F_gettimeofday [(EOp "out" []); (EInt (0)%Z)]); (EInt (0)%Z)])
     (TPrint [x25; x30; x36; x64] [(ECast true 32%N (EField (EOut F_gettimeofday [(EOp "out" []); (EInt (0)%Z)] 0) "tv_usec"))])
     (TPrint [x28; x65; x72; x72; x6f; x72; x3a; x20; x25; x64; x29] [(EErrno F_gettimeofday [(EOp "out" []); (EInt (0)%Z)])])) |};
  {| de_name := "tty"; de_symbol := "snoopy_datasource_tty"; de_calls := ["ttyname_r"]; de_tree :=
    (TIf (EOp "!=" [(ECall F_ttyname_r [(EInt (0)%Z); (EOp "out" []); (EInt (4096)%Z)]); (EInt (0)%Z)])
     (TIf (EOp "==" [(ECall F_ttyname_r [(EInt (0)%Z); (EOp "out" []); (EInt (4096)%Z)]); (EInt (9)%Z)])
      (TPrint [x45; x52; x52; x4f; x52; x28; x74; x74; x79; x6e; x61; x6d; x65; x5f; x72; x2d; x3e; x45; x42; x41; x44; x46; x29] [])
      (TIf (EOp "==" [(ECall F_ttyname_r [(EInt (0)%Z); (EOp "out" []); (EInt (4096)%Z)]); (EInt (34)%Z)])
       (TPrint [x45; x52; x52; x4f; x52; x28; x74; x74; x79; x6e; x61; x6d; x65; x5f; x72; x2d; x3e; x45; x52; x41; x4e; x47; x45; x29] [])
       (TIf (EOp "==" [(ECall F_ttyname_r [(EInt (0)%Z); (EOp "out" []); (EInt (4096)%Z)]); (EInt (25)%Z)])
        (TPrint [x28; x6e; x6f; x6e; x65; x29] [])
        (TPrint [x28; x75; x6e; x6b; x6e; x6f; x77; x6e; x29] []))))
     (TPrint [x25; x73] [(EOut F_ttyname_r [(EInt (0)%Z); (EOp "out" []); (EInt (4096)%Z)] 1)])) |};
  {| de_name := "tty_uid"; de_symbol := "snoopy_datasource_tty_uid"; de_calls := ["snoopy_datasource_tty__get_tty_uid"; "ttyname_r"; "stat"]; de_tree :=
    (TIf (EOp "!=" [(ECall F_ttyname_r [(EInt (0)%Z); (EOp "out" []); (EInt (4096)%Z)]); (EInt (0)%Z)])
     (TIf (EOp "==" [(ECall F_ttyname_r [(EInt (0)%Z); (EOp "out" []); (EInt (4096)%Z)]); (EInt (9)%Z)])
      (TPrint [x45; x52; x52; x4f; x52; x28; x74; x74; x79; x6e; x61; x6d; x65; x5f; x72; x2d; x3e; x45; x42; x41; x44; x46; x29] [])
      (TIf (EOp "==" [(ECall F_ttyname_r [(EInt (0)%Z); (EOp "out" []); (EInt (4096)%Z)]); (EInt (34)%Z)])
       (TPrint [x45; x52; x52; x4f; x52; x28; x74; x74; x79; x6e; x61; x6d; x65; x5f; x72; x2d; x3e; x45; x52; x41; x4e; x47; x45; x29] [])
       (TIf (EOp "==" [(ECall F_ttyname_r [(EInt (0)%Z); (EOp "out" []); (EInt (4096)%Z)]); (EInt (25)%Z)])
        (TPrint [x28; x6e; x6f; x6e; x65; x29] [])
        (TPrint [x28; x75; x6e; x6b; x6e; x6f; x77; x6e; x29] []))))
     (TIf (EOp "==" [(ECall F_stat [(EOut F_ttyname_r [(EInt (0)%Z); (EOp "out" []); (EInt (4096)%Z)] 1); (EOp "out" [])]); (EInt (-1)%Z)])
      (TPrint [x45; x52; x52; x4f; x52; x28; x75; x6e; x61; x62; x6c; x65; x20; x74; x6f; x20; x73; x74; x61; x74; x28; x29; x20; x25; x73; x29] [(EOut F_ttyname_r [(EInt (0)%Z); (EOp "out" []); (EInt (4096)%Z)] 1)])
      (TPrint [x25; x75] [(EField (EOut F_stat [(EOut F_ttyname_r [(EInt (0)%Z); (EOp "out" []); (EInt (4096)%Z)] 1); (EOp "out" [])] 1) "st_uid")]))) |};
  {| de_name := "tty_username"; de_symbol := "snoopy_datasource_tty_username"; de_calls := ["snoopy_datasource_tty__get_tty_uid"; "snoopy_util_pwd_convertUidToUsername"; "ttyname_r"; "stat"; "sysconf"; "getpwuid_r"]; de_tree :=
    (TIf (EOp "!=" [(ECall F_ttyname_r [(EInt (0)%Z); (EOp "out" []); (EInt (4096)%Z)]); (EInt (0)%Z)])
     (TIf (EOp "==" [(ECall F_ttyname_r [(EInt (0)%Z); (EOp "out" []); (EInt (4096)%Z)]); (EInt (9)%Z)])
      (TPrint [x45; x52; x52; x4f; x52; x28; x74; x74; x79; x6e; x61; x6d; x65; x5f; x72; x2d; x3e; x45; x42; x41; x44; x46; x29] [])
      (TIf (EOp "==" [(ECall F_ttyname_r [(EInt (0)%Z); (EOp "out" []); (EInt (4096)%Z)]); (EInt (34)%Z)])
       (TPrint [x45; x52; x52; x4f; x52; x28; x74; x74; x79; x6e; x61; x6d; x65; x5f; x72; x2d; x3e; x45; x52; x41; x4e; x47; x45; x29] [])
       (TIf (EOp "==" [(ECall F_ttyname_r [(EInt (0)%Z); (EOp "out" []); (EInt (4096)%Z)]); (EInt (25)%Z)])
        (TPrint [x28; x6e; x6f; x6e; x65; x29] [])
        (TPrint [x28; x75; x6e; x6b; x6e; x6f; x77; x6e; x29] []))))
     (TIf (EOp "==" [(ECall F_stat [(EOut F_ttyname_r [(EInt (0)%Z); (EOp "out" []); (EInt (4096)%Z)] 1); (EOp "out" [])]); (EInt (-1)%Z)])
      (TPrint [x45; x52; x52; x4f; x52; x28; x75; x6e; x61; x62; x6c; x65; x20; x74; x6f; x20; x73; x74; x61; x74; x28; x29; x20; x25; x73; x29] [(EOut F_ttyname_r [(EInt (0)%Z); (EOp "out" []); (EInt (4096)%Z)] 1)])
      (TIf (EOp "!=" [(ECall F_getpwuid_r [(EField (EOut F_stat [(EOut F_ttyname_r [(EInt (0)%Z); (EOp "out" []); (EInt (4096)%Z)] 1); (EOp "out" [])] 1) "st_uid"); (EOp "out" []); (EOp "out" [])]); (EInt (0)%Z)])
       (TPrint [x55; x6e; x61; x62; x6c; x65; x20; x74; x6f; x20; x63; x6f; x6e; x76; x65; x72; x74; x20; x55; x49; x44; x20; x74; x6f; x20; x75; x73; x65; x72; x6e; x61; x6d; x65] [])
       (TIf (EOp "==" [(EOut F_getpwuid_r [(EField (EOut F_stat [(EOut F_ttyname_r [(EInt (0)%Z); (EOp "out" []); (EInt (4096)%Z)] 1); (EOp "out" [])] 1) "st_uid"); (EOp "out" []); (EOp "out" [])] 4); (EInt (0)%Z)])
        (TPrint [x25; x73] [(EOp "setnul" [(EFmt (EInt (256)%Z) [x75; x73; x65; x72; x2d; x25; x75] [(EField (EOut F_stat [(EOut F_ttyname_r [(EInt (0)%Z); (EOp "out" []); (EInt (4096)%Z)] 1); (EOp "out" [])] 1) "st_uid")]); (EInt (256)%Z)])])
        (TPrint [x25; x73] [(EOp "setnul" [(EFmt (EInt (256)%Z) [x25; x73] [(EField (EOut F_getpwuid_r [(EField (EOut F_stat [(EOut F_ttyname_r [(EInt (0)%Z); (EOp "out" []); (EInt (4096)%Z)] 1); (EOp "out" [])] 1) "st_uid"); (EOp "out" []); (EOp "out" [])] 4) "pw_name")]); (EInt (256)%Z)])]))))) |};
  {| de_name := "uid"; de_symbol := "snoopy_datasource_uid"; de_calls := ["getuid"]; de_tree :=
    (TPrint [x25; x75] [(ECall F_getuid [])]) |};
  {| de_name := "username"; de_symbol := "snoopy_datasource_username"; de_calls := ["snoopy_util_pwd_convertUidToUsername"; "getuid"; "sysconf"; "getpwuid_r"]; de_tree :=
    (TIf (EOp "!=" [(ECall F_getpwuid_r [(ECall F_getuid []); (EOp "out" []); (EOp "out" [])]); (EInt (0)%Z)])
     (TPrint [x55; x6e; x61; x62; x6c; x65; x20; x74; x6f; x20; x63; x6f; x6e; x76; x65; x72; x74; x20; x55; x49; x44; x20; x74; x6f; x20; x75; x73; x65; x72; x6e; x61; x6d; x65] [])
     (TIf (EOp "==" [(EOut F_getpwuid_r [(ECall F_getuid []); (EOp "out" []); (EOp "out" [])] 4); (EInt (0)%Z)])
      (TPrint [x25; x73] [(EOp "setnul" [(EFmt (EInt (256)%Z) [x75; x73; x65; x72; x2d; x25; x75] [(ECall F_getuid [])]); (EInt (256)%Z)])])
      (TPrint [x25; x73] [(EOp "setnul" [(EFmt (EInt (256)%Z) [x25; x73] [(EField (EOut F_getpwuid_r [(ECall F_getuid []); (EOp "out" []); (EOp "out" [])] 4) "pw_name")]); (EInt (256)%Z)])]))) |};
  {| de_name := "failure"; de_symbol := "snoopy_datasource_failure"; de_calls := []; de_tree :=
    (TRet (EInt (-1)%Z)
          (EFmt ESize [x41; x72; x74; x69; x66; x69; x63; x69; x61; x6c; x20; x64; x61; x74; x61; x73; x6f; x75; x72; x63; x65; x20; x66; x61; x69; x6c; x75; x72; x65; x20; x74; x72; x69; x67; x67; x65; x72; x65; x64] [])) |};
  {| de_name := "noop"; de_symbol := "snoopy_datasource_noop"; de_calls := []; de_tree :=
    (TRet (EInt (0)%Z)
          EBuf0) |}
].

Definition gen : ds_gen := {| g_consts := consts; g_table := table |}.
