(* GENERATED from the current /repo working tree by vlib/tr_output.py -- do not edit *)
From Snoopy Require Import Lib.CStr.
Definition err_append_text : list byte := [x4d; x61; x78; x69; x6d; x75; x6d; x20; x64; x65; x73; x74; x69; x6e; x61; x74; x69; x6f; x6e; x20; x73; x74; x72; x69; x6e; x67; x20; x73; x69; x7a; x65; x20; x65; x78; x63; x65; x65; x64; x65; x64].
Definition err_handler_ok : bool := true.
