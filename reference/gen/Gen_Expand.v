(* GENERATED from the current /repo working tree by vlib/translate.py -- do not edit *)
From Snoopy Require Import Lib.CStr Expand.Model.
Definition consts : expand_consts :=
  {| tag_open := [x25; x7b];
     tag_close := [x7d];
     tag_colon := [x3a];
     e_close := [x5b; x45; x52; x52; x4f; x52; x3a; x20; x43; x6c; x6f; x73; x69; x6e; x67; x20; x64; x61; x74; x61; x20; x73; x6f; x75; x72; x63; x65; x20; x74; x61; x67; x20; x28; x27; x7d; x27; x29; x20; x6e; x6f; x74; x20; x66; x6f; x75; x6e; x64; x2e; x5d];
     e_nf1 := [x5b; x45; x52; x52; x4f; x52; x3a; x20; x44; x61; x74; x61; x20; x73; x6f; x75; x72; x63; x65; x20; x27];
     e_nf2 := [x27; x20; x6e; x6f; x74; x20; x66; x6f; x75; x6e; x64; x2e; x5d];
     e_f1 := [x5b; x45; x52; x52; x4f; x52; x3a; x20; x44; x61; x74; x61; x20; x73; x6f; x75; x72; x63; x65; x20; x27];
     e_f2 := [x27; x20; x66; x61; x69; x6c; x65; x64; x20; x77; x69; x74; x68; x20; x74; x68; x65; x20; x66; x6f; x6c; x6c; x6f; x77; x69; x6e; x67; x20; x65; x72; x72; x6f; x72; x20; x6d; x65; x73; x73; x61; x67; x65; x3a; x20; x27];
     e_f3 := [x27; x5d];
     ds_buf_adj := 0%N;
     append_strict := true;
     call_log_adj := 1%N;
     call_ds_adj := 1%N;
     hardmin_log := 255%N;
     hardmax_log := 1048575%N;
     hardmin_ds := 255%N;
     hardmax_ds := 1048575%N;
     ident_buf := 256%N;
     path_buf := 4096%N |}.
