(* GENERATED from the current /repo working tree by vlib/tr_fault.py (clang AST) -- do not edit *)
From Coq Require Import String ZArith List.
From Snoopy Require Import Lib.Skel.
Import ListNotations.
Local Open Scope string_scope.

Definition sk_socketoutput : fn_skel := {| sk_name := "snoopy_output_socketoutput"; sk_nparams := 2; sk_body :=
 [(SDecl "s" false None);
 (SDecl "remote" false None);
 (SDecl "remoteLength" false None);
 (SIf (XOp "==" [(XInt (0)%Z); (XCall "strlen" [(XParam 0)])]) [(SReturn (Some (XInt (0)%Z)))] []);
 (SIf (XOp "==" [(XOp "=" [(XVar "s"); (XCall "socket" [(XInt (1)%Z); (XOp "|" [(XOp "|" [(XVar "SOCK_DGRAM"); (XVar "SOCK_CLOEXEC")]); (XVar "SOCK_NONBLOCK")]); (XInt (0)%Z)])]); (XOp "-" [(XInt (1)%Z)])]) [(SReturn (Some (XOp "-" [(XInt (1)%Z)])))] []);
 (SAssign (XMember (XVar "remote") "sun_family") (XInt (1)%Z));
 (SExpr (XCall "strncpy" [(XMember (XVar "remote") "sun_path"); (XParam 1); (XInt (107)%Z)]));
 (SIf (XOp ">" [(XCall "strlen" [(XParam 1)]); (XInt (107)%Z)]) [(SAssign (XIndex (XMember (XVar "remote") "sun_path") (XInt (107)%Z)) (XInt (0)%Z))] []);
 (SAssign (XVar "remoteLength") (XOp "+" [(XCast (XCall "strnlen" [(XMember (XVar "remote") "sun_path"); (XInt (107)%Z)])); (XCast (XOp "sizeof" []))]));
 (SIf (XOp "==" [(XCall "connect" [(XVar "s"); (XCast (XAddr (XVar "remote"))); (XVar "remoteLength")]); (XOp "-" [(XInt (1)%Z)])]) [(SExpr (XCall "close" [(XVar "s")]));
 (SReturn (Some (XOp "-" [(XInt (1)%Z)])))] []);
 (SIf (XOp "==" [(XCall "send" [(XVar "s"); (XParam 0); (XCall "strlen" [(XParam 0)]); (XOp "|" [(XVar "MSG_DONTWAIT"); (XVar "MSG_NOSIGNAL")])]); (XOp "-" [(XInt (1)%Z)])]) [(SExpr (XCall "close" [(XVar "s")]));
 (SReturn (Some (XOp "-" [(XInt (1)%Z)])))] []);
 (SExpr (XCall "close" [(XVar "s")]));
 (SReturn (Some (XCast (XCall "strlen" [(XParam 0)]))))] |}.

Definition sk_fileoutput : fn_skel := {| sk_name := "snoopy_output_fileoutput"; sk_nparams := 2; sk_body :=
 [(SDecl "filePathBuf" false (Some (XOp "initlist" [])));
 (SDecl "filePath" false (Some (XVar "filePathBuf")));
 (SDecl "fd" false None);
 (SDecl "lineBuf" false None);
 (SDecl "lineLen" false None);
 (SDecl "charCount" false None);
 (SIf (XOp "==" [(XInt (0)%Z); (XCall "strcmp" [(XParam 1); (XStr "")])]) [(SReturn (Some (XOp "-" [(XInt (1)%Z)])))] []);
 (SExpr (XCall "snoopy_message_generateFromFormat" [(XVar "filePath"); (XInt (4096)%Z); (XInt (4096)%Z); (XParam 1)]));
 (SAssign (XVar "fd") (XCall "open" [(XVar "filePath"); (XOp "|" [(XOp "|" [(XInt (1)%Z); (XInt (64)%Z)]); (XInt (1024)%Z)]); (XInt (438)%Z)]));
 (SIf (XOp "==" [(XOp "-" [(XInt (1)%Z)]); (XVar "fd")]) [(SReturn (Some (XOp "-" [(XInt (1)%Z)])))] []);
 (SAssign (XVar "lineLen") (XOp "+" [(XCall "strlen" [(XParam 0)]); (XInt (1)%Z)]));
 (SAssign (XVar "lineBuf") (XCall "malloc" [(XVar "lineLen")]));
 (SExpr (XCall "memcpy" [(XVar "lineBuf"); (XParam 0); (XOp "-" [(XVar "lineLen"); (XInt (1)%Z)])]));
 (SAssign (XIndex (XVar "lineBuf") (XOp "-" [(XVar "lineLen"); (XInt (1)%Z)])) (XInt (10)%Z));
 (SAssign (XVar "charCount") (XCast (XCall "write" [(XVar "fd"); (XVar "lineBuf"); (XVar "lineLen")])));
 (SExpr (XCall "free" [(XVar "lineBuf")]));
 (SExpr (XCall "close" [(XVar "fd")]));
 (SReturn (Some (XVar "charCount")))] |}.

Definition sk_devlogoutput : fn_skel := {| sk_name := "snoopy_output_devlogoutput"; sk_nparams := 2; sk_body :=
 [(SIf (XOp "==" [(XInt (0)%Z); (XCall "strlen" [(XParam 0)])]) [(SReturn (Some (XInt (0)%Z)))] []);
 (SDecl "CFG" false (Some (XCall "snoopy_configuration_get" [])));
 (SDecl "syslogIdent" false (Some (XOp "initlist" [])));
 (SExpr (XCall "snoopy_message_generateFromFormat" [(XVar "syslogIdent"); (XInt (256)%Z); (XInt (256)%Z); (XMember (XVar "CFG") "syslog_ident_format")]));
 (SDecl "logMessageWithPrefixSize" false (Some (XOp "+" [(XOp "+" [(XCall "strlen" [(XParam 0)]); (XInt (256)%Z)]); (XInt (100)%Z)])));
 (SDecl "logMessageWithPrefix" false (Some (XCall "malloc" [(XVar "logMessageWithPrefixSize")])));
 (SAssign (XIndex (XVar "logMessageWithPrefix") (XInt (0)%Z)) (XInt (0)%Z));
 (SExpr (XCall "snprintf" [(XVar "logMessageWithPrefix"); (XVar "logMessageWithPrefixSize"); (XStr "<%d>%.*s[%d]: %s"); (XOp "|" [(XMember (XVar "CFG") "syslog_facility"); (XMember (XVar "CFG") "syslog_level")]); (XOp "-" [(XInt (256)%Z); (XInt (1)%Z)]); (XVar "syslogIdent"); (XCall "getpid" []); (XParam 0)]));
 (SDecl "bytesWritten" false (Some (XCall "snoopy_output_socketoutput" [(XVar "logMessageWithPrefix"); (XStr "/dev/log")])));
 (SExpr (XCall "free" [(XVar "logMessageWithPrefix")]));
 (SReturn (Some (XVar "bytesWritten")))] |}.

Definition sk_devttyoutput : fn_skel := {| sk_name := "snoopy_output_devttyoutput"; sk_nparams := 2; sk_body :=
 [(SReturn (Some (XCall "snoopy_output_fileoutput" [(XParam 0); (XStr "/dev/tty")])))] |}.

Definition sk_devnulloutput : fn_skel := {| sk_name := "snoopy_output_devnulloutput"; sk_nparams := 2; sk_body :=
 [(SReturn (Some (XCall "snoopy_output_fileoutput" [(XParam 0); (XStr "/dev/null")])))] |}.

Definition sk_stdoutoutput : fn_skel := {| sk_name := "snoopy_output_stdoutoutput"; sk_nparams := 2; sk_body :=
 [(SReturn (Some (XCall "dprintf" [(XInt (1)%Z); (XStr "%s\x0a"); (XParam 0)])))] |}.

Definition sk_stderroutput : fn_skel := {| sk_name := "snoopy_output_stderroutput"; sk_nparams := 2; sk_body :=
 [(SReturn (Some (XCall "fprintf" [(XVar "stderr"); (XStr "%s\x0a"); (XParam 0)])))] |}.

Definition sk_syslogoutput : fn_skel := {| sk_name := "snoopy_output_syslogoutput"; sk_nparams := 2; sk_body :=
 [(SIf (XOp "==" [(XInt (0)%Z); (XCall "strlen" [(XParam 0)])]) [(SReturn (Some (XInt (0)%Z)))] []);
 (SDecl "CFG" false (Some (XCall "snoopy_configuration_get" [])));
 (SDecl "syslogIdent" false (Some (XOp "initlist" [])));
 (SExpr (XCall "snoopy_message_generateFromFormat" [(XVar "syslogIdent"); (XInt (256)%Z); (XInt (256)%Z); (XMember (XVar "CFG") "syslog_ident_format")]));
 (SExpr (XCall "openlog" [(XVar "syslogIdent"); (XInt (1)%Z); (XMember (XVar "CFG") "syslog_facility")]));
 (SExpr (XCall "syslog" [(XMember (XVar "CFG") "syslog_level"); (XStr "%s"); (XParam 0)]));
 (SExpr (XCall "closelog" []));
 (SReturn (Some (XCast (XCall "strlen" [(XParam 0)]))))] |}.

Definition sk_error_handler : fn_skel := {| sk_name := "snoopy_error_handler"; sk_nparams := 1; sk_body :=
 [(SDecl "CFG" false None);
 (SDecl "errorMsgFormatted" false None);
 (SAssign (XIndex (XVar "errorMsgFormatted") (XInt (0)%Z)) (XInt (0)%Z));
 (SAssign (XVar "CFG") (XCall "snoopy_configuration_get" []));
 (SIf (XOp "!=" [(XInt (1)%Z); (XMember (XVar "CFG") "error_logging_enabled")]) [(SReturn None)] []);
 (SExpr (XCall "snprintf" [(XVar "errorMsgFormatted"); (XInt (4096)%Z); (XStr "SNOOPY ERROR: %s"); (XParam 0)]));
 (SAssign (XIndex (XVar "errorMsgFormatted") (XOp "-" [(XInt (4096)%Z); (XInt (1)%Z)])) (XInt (0)%Z));
 (SAssign (XMember (XVar "CFG") "error_logging_enabled") (XInt (0)%Z));
 (SExpr (XCall "snoopy_action_log_message_dispatch" [(XParam 0)]));
 (SAssign (XMember (XVar "CFG") "error_logging_enabled") (XInt (1)%Z))] |}.

Definition sk_message_append : fn_skel := {| sk_name := "snoopy_message_append"; sk_nparams := 3; sk_body :=
 [(SIf (XOp "==" [(XOp "-" [(XInt (1)%Z)]); (XCall "snoopy_util_string_append" [(XParam 0); (XParam 1); (XParam 2)])]) [(SExpr (XCall "snoopy_error_handler" [(XStr "Maximum destination string size exceeded")]))] [])] |}.
