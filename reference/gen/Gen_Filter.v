(* GENERATED from the current /repo working tree by vlib/tr_filter.py -- do not edit *)
From Snoopy Require Import Lib.CStr Filter.Model.
Local Open Scope N_scope.
Definition consts : filter_consts :=
  {| chain_max := 4096;
     copy_n := 4095;
     term_idx := 4095;
     name_max := 1024;
     arg_max := 1024;
     chain_delim := [x3b];
     name_delim := [x3a];
     ini_max_line := 1024;
     default_chain := [];
     reg_names := [[x65; x78; x63; x6c; x75; x64; x65; x5f; x73; x70; x61; x77; x6e; x73; x5f; x6f; x66]; [x65; x78; x63; x6c; x75; x64; x65; x5f; x75; x69; x64]; [x6f; x6e; x6c; x79; x5f; x72; x6f; x6f; x74]; [x6f; x6e; x6c; x79; x5f; x74; x74; x79]; [x6f; x6e; x6c; x79; x5f; x75; x69; x64]; [x6e; x6f; x6f; x70]; []];
     reg_ptrs := [FExcludeSpawnsOf; FExcludeUid; FOnlyRoot; FOnlyTty; FOnlyUid; FNoop];
     pass_val := (1)%Z;
     drop_val := (0)%Z;
     true_val := (1)%Z;
     long_bits := 64;
     uid_bits := 32;
     only_query := QGetuid;
     exclude_query := QGetuid;
     root_query := QGetuid;
     only_conv := ConvAtol;
     exclude_conv := ConvAtol;
     only_casts := [CastS 32; CastU 32];
     exclude_casts := [CastU 32];
     root_value := (0)%Z;
     csv_delim := x2c |}.
