(* GENERATED from the current working tree of the repository by vlib/tr_conc.py (clang AST of every library source; nm) -- do not edit *)
From Coq Require Import String List Bool.
From Snoopy Require Import Conc.LockSkel.
Import ListNotations.
Local Open Scope string_scope.

Definition globals : list gobj := [
  mkGobj "empty_string" "snoopy_inputdatastorage_setDefaults" "src/inputdatastorage.c" "const char *" false false ""
    [mkAcc "src/inputdatastorage.c" "snoopy_inputdatastorage_setDefaults" "read" "="];
  mkGobj "empty_string_array" "snoopy_inputdatastorage_setDefaults" "src/inputdatastorage.c" "char *[1]" false false ""
    [mkAcc "src/inputdatastorage.c" "snoopy_inputdatastorage_setDefaults" "escape_ro" "stored"];
  mkGobj "snoopy_configfile_optionRegistry" "" "src/configfile.c" "snoopy_configfile_option_t[10]" false false ""
    [mkAcc "src/configfile.c" "snoopy_configfile_iniParser_callback" "read" "called"; mkAcc "src/configfile.c" "snoopy_configfile_optionRegistry_getAll" "escape" "returned"; mkAcc "src/configfile.c" "snoopy_configfile_optionRegistry_getIdFromName" "valarg" "strcmp:0:const"; mkAcc "src/configfile.c" "snoopy_configfile_optionRegistry_getOptionValueAsString" "read" "called"; mkAcc "src/configfile.c" "snoopy_configfile_optionRegistry_getOptionValueAsString" "valarg" "strcmp:0:const"];
  mkGobj "snoopy_configuration_altConfigFilePath" "" "src/configuration.c" "char *" false false ""
    [mkAcc "src/configuration.c" "snoopy_configuration_ctor" "read" "!="; mkAcc "src/configuration.c" "snoopy_configuration_ctor" "valarg" "snoopy_configfile_load:0:ro"; mkAcc "src/configuration.c" "snoopy_configuration_preinit_enableAltConfigFileParsing" "write" "="];
  mkGobj "snoopy_configuration_altConfigFilePathBuf" "" "src/configuration.c" "char[4096]" false false ""
    [mkAcc "src/configuration.c" "snoopy_configuration_preinit_setConfigFilePathFromEnv" "arg" "snoopy_configuration_preinit_enableAltConfigFileParsing:0:ro"; mkAcc "src/configuration.c" "snoopy_configuration_preinit_setConfigFilePathFromEnv" "arg" "strncpy:0:mut"; mkAcc "src/configuration.c" "snoopy_configuration_preinit_setConfigFilePathFromEnv" "write" "[]="];
  mkGobj "snoopy_configuration_configFileParsingEnabled" "" "src/configuration.c" "int" false false ""
    [mkAcc "src/configuration.c" "snoopy_configuration_ctor" "read" "=="; mkAcc "src/configuration.c" "snoopy_configuration_preinit_disableConfigFileParsing" "write" "="; mkAcc "src/configuration.c" "snoopy_configuration_preinit_enableAltConfigFileParsing" "write" "="];
  mkGobj "snoopy_datasourceregistry_names" "" "src/datasourceregistry.c" "char *[39]" false false ""
    [mkAcc "src/datasourceregistry.c" "snoopy_datasourceregistry_doesIdExist" "arg" "snoopy_genericregistry_doesIdExist:0:ro"; mkAcc "src/datasourceregistry.c" "snoopy_datasourceregistry_doesNameExist" "arg" "snoopy_genericregistry_doesNameExist:0:ro"; mkAcc "src/datasourceregistry.c" "snoopy_datasourceregistry_getCount" "arg" "snoopy_genericregistry_getCount:0:ro"; mkAcc "src/datasourceregistry.c" "snoopy_datasourceregistry_getIdFromName" "arg" "snoopy_genericregistry_getIdFromName:0:ro"; mkAcc "src/datasourceregistry.c" "snoopy_datasourceregistry_getName" "arg" "snoopy_genericregistry_getName:0:ro"];
  mkGobj "snoopy_datasourceregistry_ptrs" "" "src/datasourceregistry.c" "int (*[38])(char *const, size_t, const char *const)" false false ""
    [mkAcc "src/datasourceregistry.c" "snoopy_datasourceregistry_callById" "read" "called"; mkAcc "src/datasourceregistry.c" "snoopy_datasourceregistry_callByName" "read" "called"];
  mkGobj "snoopy_filterregistry_names" "" "src/filterregistry.c" "char *[7]" false false ""
    [mkAcc "src/filterregistry.c" "snoopy_filterregistry_doesIdExist" "arg" "snoopy_genericregistry_doesIdExist:0:ro"; mkAcc "src/filterregistry.c" "snoopy_filterregistry_doesNameExist" "arg" "snoopy_genericregistry_doesNameExist:0:ro"; mkAcc "src/filterregistry.c" "snoopy_filterregistry_getCount" "arg" "snoopy_genericregistry_getCount:0:ro"; mkAcc "src/filterregistry.c" "snoopy_filterregistry_getIdFromName" "arg" "snoopy_genericregistry_getIdFromName:0:ro"; mkAcc "src/filterregistry.c" "snoopy_filterregistry_getName" "arg" "snoopy_genericregistry_getName:0:ro"];
  mkGobj "snoopy_filterregistry_ptrs" "" "src/filterregistry.c" "int (*[6])(const char *const)" false false ""
    [mkAcc "src/filterregistry.c" "snoopy_filterregistry_callById" "read" "called"; mkAcc "src/filterregistry.c" "snoopy_filterregistry_callByName" "read" "called"];
  mkGobj "snoopy_outputregistry_names" "" "src/outputregistry.c" "char *[9]" false false ""
    [mkAcc "src/outputregistry.c" "snoopy_outputregistry_doesIdExist" "arg" "snoopy_genericregistry_doesIdExist:0:ro"; mkAcc "src/outputregistry.c" "snoopy_outputregistry_doesNameExist" "arg" "snoopy_genericregistry_doesNameExist:0:ro"; mkAcc "src/outputregistry.c" "snoopy_outputregistry_getCount" "arg" "snoopy_genericregistry_getCount:0:ro"; mkAcc "src/outputregistry.c" "snoopy_outputregistry_getIdFromName" "arg" "snoopy_genericregistry_getIdFromName:0:ro"; mkAcc "src/outputregistry.c" "snoopy_outputregistry_getName" "arg" "snoopy_genericregistry_getName:0:ro"];
  mkGobj "snoopy_outputregistry_ptrs" "" "src/outputregistry.c" "int (*[8])(const char *const, const char *const)" false false ""
    [mkAcc "src/outputregistry.c" "snoopy_outputregistry_callById" "read" "called"; mkAcc "src/outputregistry.c" "snoopy_outputregistry_callByName" "read" "called"];
  mkGobj "snoopy_tsrm_init_onceControl" "" "src/tsrm.c" "pthread_once_t" false false ""
    [mkAcc "src/tsrm.c" "snoopy_tsrm_ctor" "arg" "pthread_once:0:mut"; mkAcc "src/tsrm.c" "snoopy_tsrm_onLoad" "arg" "pthread_once:0:mut"];
  mkGobj "snoopy_tsrm_threadRepo" "" "src/tsrm.c" "list_t *" false false "snoopy_tsrm_threadRepo_data"
    [mkAcc "src/tsrm.c" "snoopy_tsrm_atfork_child" "arrow_read" "="; mkAcc "src/tsrm.c" "snoopy_tsrm_atfork_child" "arrow_write" "="; mkAcc "src/tsrm.c" "snoopy_tsrm_ctor" "valarg" "snoopy_util_list_push:0:mut"; mkAcc "src/tsrm.c" "snoopy_tsrm_doesThreadRepoEntryExist" "valarg" "snoopy_util_list_fetchNextNode:0:ro"; mkAcc "src/tsrm.c" "snoopy_tsrm_dtor" "valarg" "snoopy_util_list_remove:0:mut"; mkAcc "src/tsrm.c" "snoopy_tsrm_getCurrentThreadRepoEntry" "valarg" "snoopy_util_list_fetchNextNode:0:ro"; mkAcc "src/tsrm.c" "snoopy_tsrm_get_threadCount" "arrow_read" "="];
  mkGobj "snoopy_tsrm_threadRepo_data" "" "src/tsrm.c" "list_t" false false ""
    [];
  mkGobj "snoopy_tsrm_threadRepo_mutex" "" "src/tsrm.c" "pthread_mutex_t" false false ""
    [mkAcc "src/tsrm.c" "snoopy_tsrm_atfork_child" "arg" "pthread_mutex_init:0:mut"; mkAcc "src/tsrm.c" "snoopy_tsrm_atfork_parent" "arg" "pthread_mutex_unlock:0:mut"; mkAcc "src/tsrm.c" "snoopy_tsrm_atfork_prepare" "arg" "pthread_mutex_lock:0:mut"; mkAcc "src/tsrm.c" "snoopy_tsrm_ctor" "arg" "pthread_mutex_lock:0:mut"; mkAcc "src/tsrm.c" "snoopy_tsrm_ctor" "arg" "pthread_mutex_unlock:0:mut"; mkAcc "src/tsrm.c" "snoopy_tsrm_doesThreadRepoEntryExist" "arg" "pthread_mutex_lock:0:mut"; mkAcc "src/tsrm.c" "snoopy_tsrm_doesThreadRepoEntryExist" "arg" "pthread_mutex_unlock:0:mut"; mkAcc "src/tsrm.c" "snoopy_tsrm_dtor" "arg" "pthread_mutex_lock:0:mut"; mkAcc "src/tsrm.c" "snoopy_tsrm_dtor" "arg" "pthread_mutex_unlock:0:mut"; mkAcc "src/tsrm.c" "snoopy_tsrm_getCurrentThreadRepoEntry" "arg" "pthread_mutex_lock:0:mut"; mkAcc "src/tsrm.c" "snoopy_tsrm_getCurrentThreadRepoEntry" "arg" "pthread_mutex_unlock:0:mut"; mkAcc "src/tsrm.c" "snoopy_tsrm_get_threadCount" "arg" "pthread_mutex_lock:0:mut"; mkAcc "src/tsrm.c" "snoopy_tsrm_get_threadCount" "arg" "pthread_mutex_unlock:0:mut"; mkAcc "src/tsrm.c" "snoopy_tsrm_getutline" "arg" "pthread_mutex_lock:0:mut"; mkAcc "src/tsrm.c" "snoopy_tsrm_getutline" "arg" "pthread_mutex_unlock:0:mut"; mkAcc "src/tsrm.c" "snoopy_tsrm_init" "arg" "pthread_mutex_init:0:mut"; mkAcc "src/tsrm.c" "snoopy_tsrm_localtime_r" "arg" "pthread_mutex_lock:0:mut"; mkAcc "src/tsrm.c" "snoopy_tsrm_localtime_r" "arg" "pthread_mutex_unlock:0:mut"; mkAcc "src/tsrm.c" "snoopy_tsrm_strftime" "arg" "pthread_mutex_lock:0:mut"; mkAcc "src/tsrm.c" "snoopy_tsrm_strftime" "arg" "pthread_mutex_unlock:0:mut"];
  mkGobj "snoopy_tsrm_threadRepo_mutexAttr" "" "src/tsrm.c" "pthread_mutexattr_t" false false ""
    [mkAcc "src/tsrm.c" "snoopy_tsrm_atfork_child" "arg" "pthread_mutex_init:1:const"; mkAcc "src/tsrm.c" "snoopy_tsrm_init" "arg" "pthread_mutex_init:1:const"; mkAcc "src/tsrm.c" "snoopy_tsrm_init" "arg" "pthread_mutexattr_init:0:mut"; mkAcc "src/tsrm.c" "snoopy_tsrm_init" "arg" "pthread_mutexattr_settype:0:mut"]
].
Definition fn_refs : list (string * list string) := [
  ("cgroupEntry_movePastInitialChaff", ["strchr"]);
  ("doesCgroupEntryContainController", ["strchr"; "strcmp"]);
  ("execv", ["dlsym"; "snoopy_action_log_syscall_exec"; "snoopy_entrypoint_execve_wrapper_exit"; "snoopy_entrypoint_execve_wrapper_init"]);
  ("execve", ["dlsym"; "snoopy_action_log_syscall_exec"; "snoopy_entrypoint_execve_wrapper_exit"; "snoopy_entrypoint_execve_wrapper_init"]);
  ("find_ancestor_in_list", ["fclose"; "find_string_in_array"; "fopen"; "fread"; "getppid"; "memcpy"; "snprintf"; "sscanf"; "strchr"; "strrchr"]);
  ("find_chars_or_comment", ["__ctype_b_loc"; "strchr"]);
  ("find_string_in_array", ["strcmp"]);
  ("get_parent_pid", ["atoi"; "free"; "read_proc_property"]);
  ("get_rpname", ["free"; "get_parent_pid"; "get_rpname"; "read_proc_property"; "snprintf"]);
  ("ini_reader_string", []);
  ("lskip", ["__ctype_b_loc"]);
  ("read_proc_property", ["fclose"; "fopen"; "free"; "getline"; "snprintf"; "strchr"; "strcmp"; "strdup"; "strlen"; "strncpy"; "strstr"]);
  ("rstrip", ["__ctype_b_loc"; "strlen"]);
  ("snoopy_action_log_message_dispatch", ["snoopy_outputregistry_dispatch"; "strlen"]);
  ("snoopy_action_log_syscall_exec", ["free"; "malloc"; "snoopy_action_log_message_dispatch"; "snoopy_configuration_get"; "snoopy_filtering_check_chain"; "snoopy_message_generateFromFormat"]);
  ("snoopy_cleanup", ["snoopy_configuration_dtor"; "snoopy_inputdatastorage_dtor"; "snoopy_tsrm_dtor"]);
  ("snoopy_configfile_getOptionValueAsString_datasource_message_max_length", ["malloc"; "snoopy_configuration_get"; "snprintf"]);
  ("snoopy_configfile_getOptionValueAsString_error_logging", ["snoopy_configuration_get"; "strdup"]);
  ("snoopy_configfile_getOptionValueAsString_filter_chain", ["snoopy_configuration_get"; "strdup"]);
  ("snoopy_configfile_getOptionValueAsString_log_message_max_length", ["malloc"; "snoopy_configuration_get"; "snprintf"]);
  ("snoopy_configfile_getOptionValueAsString_message_format", ["snoopy_configuration_get"; "strdup"]);
  ("snoopy_configfile_getOptionValueAsString_output", ["malloc"; "snoopy_configuration_get"; "snprintf"; "strcmp"; "strdup"; "strlen"]);
  ("snoopy_configfile_getOptionValueAsString_syslog_facility", ["snoopy_configuration_get"; "snoopy_util_syslog_convertFacilityToStr"; "strdup"]);
  ("snoopy_configfile_getOptionValueAsString_syslog_ident", ["snoopy_configuration_get"; "strdup"]);
  ("snoopy_configfile_getOptionValueAsString_syslog_level", ["snoopy_configuration_get"; "snoopy_util_syslog_convertLevelToStr"; "strdup"]);
  ("snoopy_configfile_getboolean", []);
  ("snoopy_configfile_iniParser_callback", ["snoopy_configfile_optionRegistry_getIdFromName"; "strcmp"]);
  ("snoopy_configfile_load", ["snoopy_configfile_iniParser_callback"; "snoopy_configuration_get"; "snoopy_ini_parse"]);
  ("snoopy_configfile_optionRegistry_getAll", []);
  ("snoopy_configfile_optionRegistry_getIdFromName", ["strcmp"]);
  ("snoopy_configfile_optionRegistry_getOptionValueAsString", ["strcmp"]);
  ("snoopy_configfile_parseValue_datasource_message_max_length", ["snoopy_util_parser_strByteLength"]);
  ("snoopy_configfile_parseValue_error_logging", ["snoopy_configfile_getboolean"]);
  ("snoopy_configfile_parseValue_filter_chain", ["free"; "strdup"]);
  ("snoopy_configfile_parseValue_log_message_max_length", ["snoopy_util_parser_strByteLength"]);
  ("snoopy_configfile_parseValue_message_format", ["free"; "strdup"]);
  ("snoopy_configfile_parseValue_output", ["free"; "snoopy_outputregistry_doesNameExist"; "strchr"; "strdup"]);
  ("snoopy_configfile_parseValue_syslog_facility", ["free"; "snoopy_configfile_syslog_value_cleanup"; "snoopy_util_syslog_convertFacilityToInt"; "strdup"]);
  ("snoopy_configfile_parseValue_syslog_ident", ["free"; "strdup"]);
  ("snoopy_configfile_parseValue_syslog_level", ["free"; "snoopy_configfile_syslog_value_cleanup"; "snoopy_util_syslog_convertLevelToInt"; "strdup"]);
  ("snoopy_configfile_syslog_value_cleanup", ["snoopy_util_string_toUpper"]);
  ("snoopy_configfile_syslog_value_remove_prefix", ["strncmp"]);
  ("snoopy_configuration_ctor", ["snoopy_configfile_load"; "snoopy_configuration_get"]);
  ("snoopy_configuration_dtor", ["free"; "snoopy_configuration_get"; "snoopy_configuration_setDefaults"]);
  ("snoopy_configuration_get", ["snoopy_configuration_setDefaults"; "snoopy_tsrm_get_configuration"]);
  ("snoopy_configuration_preinit_disableConfigFileParsing", []);
  ("snoopy_configuration_preinit_enableAltConfigFileParsing", []);
  ("snoopy_configuration_preinit_setConfigFilePathFromEnv", ["access"; "getenv"; "snoopy_configuration_preinit_enableAltConfigFileParsing"; "strncpy"]);
  ("snoopy_configuration_setDefaults", []);
  ("snoopy_configuration_setUninitialized", []);
  ("snoopy_datasource_cgroup", ["doesCgroupEntryContainController"; "free"; "getpid"; "malloc"; "snoopy_util_file_getSmallTextFileContent"; "snoopy_util_string_containsOnlyDigits"; "snoopy_util_string_findLineStartingWith"; "snoopy_util_string_nullTerminateLine"; "snprintf"; "strcmp"; "strlen"; "strtok_r"]);
  ("snoopy_datasource_cmdline", ["snoopy_inputdatastorage_get"; "snprintf"]);
  ("snoopy_datasource_cwd", ["getcwd"; "snprintf"]);
  ("snoopy_datasource_datetime", ["__errno_location"; "snoopy_tsrm_localtime_r"; "snoopy_tsrm_strftime"; "snprintf"; "time"]);
  ("snoopy_datasource_domain", ["__errno_location"; "fclose"; "fgets"; "fopen"; "gethostname"; "snprintf"; "strcasestr"; "strchr"; "strlen"; "strtok_r"]);
  ("snoopy_datasource_egid", ["getegid"; "snprintf"]);
  ("snoopy_datasource_egroup", ["free"; "getegid"; "getgrgid_r"; "malloc"; "snprintf"; "sysconf"]);
  ("snoopy_datasource_env", ["getenv"; "snprintf"]);
  ("snoopy_datasource_env_all", ["snprintf"; "strlen"]);
  ("snoopy_datasource_euid", ["geteuid"; "snprintf"]);
  ("snoopy_datasource_eusername", ["free"; "geteuid"; "getpwuid_r"; "malloc"; "snprintf"; "sysconf"]);
  ("snoopy_datasource_failure", ["snprintf"]);
  ("snoopy_datasource_filename", ["snoopy_inputdatastorage_get"; "snprintf"]);
  ("snoopy_datasource_gid", ["getgid"; "snprintf"]);
  ("snoopy_datasource_group", ["free"; "getgid"; "getgrgid_r"; "malloc"; "snprintf"; "sysconf"]);
  ("snoopy_datasource_hostname", ["__errno_location"; "gethostname"; "snprintf"; "strlen"]);
  ("snoopy_datasource_ipaddr", ["snoopy_util_utmp_doesEntryContainIpAddr"; "snoopy_util_utmp_findUtmpEntryByPath"; "snoopy_util_utmp_getUtmpIpAddrAsString"; "snprintf"; "strlen"; "ttyname_r"]);
  ("snoopy_datasource_login", ["getenv"; "getlogin_r"; "snprintf"; "strcpy"; "strlen"; "strncpy"]);
  ("snoopy_datasource_noop", []);
  ("snoopy_datasource_pid", ["getpid"; "snprintf"]);
  ("snoopy_datasource_ppid", ["getppid"; "snprintf"]);
  ("snoopy_datasource_rpname", ["get_rpname"; "getpid"]);
  ("snoopy_datasource_sid", ["getsid"; "snprintf"]);
  ("snoopy_datasource_snoopy_configure_command", ["snprintf"]);
  ("snoopy_datasource_snoopy_literal", ["snprintf"]);
  ("snoopy_datasource_snoopy_threads", ["snoopy_tsrm_get_threadCount"; "snprintf"]);
  ("snoopy_datasource_snoopy_version", ["snprintf"]);
  ("snoopy_datasource_systemd_unit_name", ["free"; "malloc"; "snoopy_datasource_cgroup"; "snoopy_util_systemd_convertCgroupEntryToUnitName"; "snprintf"; "strcmp"; "strlen"]);
  ("snoopy_datasource_tid", ["pthread_self"; "snprintf"]);
  ("snoopy_datasource_tid_kernel", ["snprintf"; "syscall"]);
  ("snoopy_datasource_timestamp", ["__errno_location"; "gettimeofday"; "snprintf"]);
  ("snoopy_datasource_timestamp_ms", ["__errno_location"; "gettimeofday"; "snprintf"]);
  ("snoopy_datasource_timestamp_us", ["__errno_location"; "gettimeofday"; "snprintf"]);
  ("snoopy_datasource_tty", ["snprintf"; "ttyname_r"]);
  ("snoopy_datasource_tty__get_tty_uid", ["snprintf"; "stat"; "ttyname_r"]);
  ("snoopy_datasource_tty_uid", ["snoopy_datasource_tty__get_tty_uid"; "snprintf"]);
  ("snoopy_datasource_tty_username", ["free"; "snoopy_datasource_tty__get_tty_uid"; "snoopy_util_pwd_convertUidToUsername"; "snprintf"]);
  ("snoopy_datasource_uid", ["getuid"; "snprintf"]);
  ("snoopy_datasource_username", ["free"; "getuid"; "snoopy_util_pwd_convertUidToUsername"; "snprintf"]);
  ("snoopy_datasourceregistry_callById", ["snoopy_datasourceregistry_doesIdExist"]);
  ("snoopy_datasourceregistry_callByName", ["snoopy_datasourceregistry_getIdFromName"]);
  ("snoopy_datasourceregistry_doesIdExist", ["snoopy_genericregistry_doesIdExist"]);
  ("snoopy_datasourceregistry_doesNameExist", ["snoopy_genericregistry_doesNameExist"]);
  ("snoopy_datasourceregistry_getCount", ["snoopy_genericregistry_getCount"]);
  ("snoopy_datasourceregistry_getIdFromName", ["snoopy_genericregistry_getIdFromName"]);
  ("snoopy_datasourceregistry_getName", ["snoopy_genericregistry_getName"]);
  ("snoopy_entrypoint_execve_wrapper_exit", ["snoopy_cleanup"]);
  ("snoopy_entrypoint_execve_wrapper_init", ["snoopy_init"; "snoopy_inputdatastorage_store_argv"; "snoopy_inputdatastorage_store_envp"; "snoopy_inputdatastorage_store_filename"]);
  ("snoopy_error_handler", ["snoopy_action_log_message_dispatch"; "snoopy_configuration_get"; "snprintf"]);
  ("snoopy_filter_exclude_spawns_of", ["find_ancestor_in_list"; "free"; "strdup"; "string_to_token_array"]);
  ("snoopy_filter_exclude_uid", ["atol"; "free"; "getuid"; "snoopy_util_parser_csvToArgList"; "strdup"]);
  ("snoopy_filter_noop", []);
  ("snoopy_filter_only_root", ["getuid"]);
  ("snoopy_filter_only_tty", ["ttyname_r"]);
  ("snoopy_filter_only_uid", ["atol"; "free"; "getuid"; "snoopy_util_parser_csvToArgList"; "strdup"]);
  ("snoopy_filtering_check_chain", ["snoopy_filterregistry_callByName"; "snoopy_filterregistry_doesNameExist"; "strncpy"; "strstr"; "strtok_r"]);
  ("snoopy_filterregistry_callById", ["snoopy_filterregistry_doesIdExist"]);
  ("snoopy_filterregistry_callByName", ["snoopy_filterregistry_getIdFromName"]);
  ("snoopy_filterregistry_doesIdExist", ["snoopy_genericregistry_doesIdExist"]);
  ("snoopy_filterregistry_doesNameExist", ["snoopy_genericregistry_doesNameExist"]);
  ("snoopy_filterregistry_getCount", ["snoopy_genericregistry_getCount"]);
  ("snoopy_filterregistry_getIdFromName", ["snoopy_genericregistry_getIdFromName"]);
  ("snoopy_filterregistry_getName", ["snoopy_genericregistry_getName"]);
  ("snoopy_genericregistry_doesIdExist", ["snoopy_genericregistry_getCount"]);
  ("snoopy_genericregistry_doesNameExist", ["snoopy_genericregistry_getIdFromName"]);
  ("snoopy_genericregistry_getCount", ["strcmp"]);
  ("snoopy_genericregistry_getIdFromName", ["strcmp"]);
  ("snoopy_genericregistry_getName", ["snoopy_genericregistry_doesIdExist"]);
  ("snoopy_init", ["snoopy_configuration_ctor"; "snoopy_inputdatastorage_ctor"; "snoopy_tsrm_ctor"]);
  ("snoopy_inputdatastorage_ctor", ["snoopy_inputdatastorage_get"; "snoopy_inputdatastorage_setDefaults"]);
  ("snoopy_inputdatastorage_dtor", ["snoopy_inputdatastorage_get"; "snoopy_inputdatastorage_setDefaults"]);
  ("snoopy_inputdatastorage_get", ["snoopy_inputdatastorage_setDefaults"; "snoopy_tsrm_get_inputdatastorage"]);
  ("snoopy_inputdatastorage_setDefaults", []);
  ("snoopy_inputdatastorage_setUninitialized", []);
  ("snoopy_inputdatastorage_store_argv", ["snoopy_inputdatastorage_get"]);
  ("snoopy_inputdatastorage_store_envp", ["snoopy_inputdatastorage_get"]);
  ("snoopy_inputdatastorage_store_filename", ["snoopy_inputdatastorage_get"]);
  ("snoopy_message_append", ["snoopy_error_handler"; "snoopy_util_string_append"]);
  ("snoopy_message_generateFromFormat", ["free"; "malloc"; "snoopy_datasourceregistry_callByName"; "snoopy_datasourceregistry_doesNameExist"; "snoopy_message_append"; "strlen"; "strndup"; "strstr"]);
  ("snoopy_output_devlogoutput", ["free"; "getpid"; "malloc"; "snoopy_configuration_get"; "snoopy_message_generateFromFormat"; "snoopy_output_socketoutput"; "snprintf"; "strlen"]);
  ("snoopy_output_devnulloutput", ["snoopy_output_fileoutput"]);
  ("snoopy_output_devttyoutput", ["snoopy_output_fileoutput"]);
  ("snoopy_output_fileoutput", ["close"; "free"; "malloc"; "memcpy"; "open"; "snoopy_message_generateFromFormat"; "strcmp"; "strlen"; "write"]);
  ("snoopy_output_noopoutput", []);
  ("snoopy_output_socketoutput", ["close"; "connect"; "send"; "socket"; "strlen"; "strncpy"; "strnlen"]);
  ("snoopy_output_stderroutput", ["fprintf"]);
  ("snoopy_output_stdoutoutput", ["dprintf"]);
  ("snoopy_output_syslogoutput", ["closelog"; "openlog"; "snoopy_configuration_get"; "snoopy_message_generateFromFormat"; "strlen"; "syslog"]);
  ("snoopy_outputregistry_callById", ["snoopy_outputregistry_doesIdExist"]);
  ("snoopy_outputregistry_callByName", ["snoopy_outputregistry_getIdFromName"]);
  ("snoopy_outputregistry_dispatch", ["snoopy_configuration_get"; "snoopy_outputregistry_callByName"]);
  ("snoopy_outputregistry_doesIdExist", ["snoopy_genericregistry_doesIdExist"]);
  ("snoopy_outputregistry_doesNameExist", ["snoopy_genericregistry_doesNameExist"]);
  ("snoopy_outputregistry_getCount", ["snoopy_genericregistry_getCount"]);
  ("snoopy_outputregistry_getIdFromName", ["snoopy_genericregistry_getIdFromName"]);
  ("snoopy_outputregistry_getName", ["snoopy_genericregistry_getName"]);
  ("snoopy_tsrm_atfork_child", ["free"; "pthread_mutex_init"]);
  ("snoopy_tsrm_atfork_parent", ["pthread_mutex_unlock"]);
  ("snoopy_tsrm_atfork_prepare", ["pthread_mutex_lock"]);
  ("snoopy_tsrm_createNewThreadData", ["malloc"; "snoopy_configuration_setUninitialized"; "snoopy_inputdatastorage_setUninitialized"]);
  ("snoopy_tsrm_ctor", ["pthread_mutex_lock"; "pthread_mutex_unlock"; "pthread_once"; "snoopy_tsrm_createNewThreadData"; "snoopy_tsrm_doesThreadRepoEntryExist"; "snoopy_tsrm_getCurrentThreadId"; "snoopy_tsrm_init"; "snoopy_util_list_push"]);
  ("snoopy_tsrm_doesThreadRepoEntryExist", ["pthread_equal"; "pthread_mutex_lock"; "pthread_mutex_unlock"; "snoopy_util_list_fetchNextNode"]);
  ("snoopy_tsrm_dtor", ["free"; "pthread_mutex_lock"; "pthread_mutex_unlock"; "snoopy_tsrm_getCurrentThreadRepoEntry"; "snoopy_util_list_remove"]);
  ("snoopy_tsrm_getCurrentThreadData", ["snoopy_tsrm_getCurrentThreadRepoEntry"]);
  ("snoopy_tsrm_getCurrentThreadId", ["pthread_self"]);
  ("snoopy_tsrm_getCurrentThreadRepoEntry", ["pthread_equal"; "pthread_mutex_lock"; "pthread_mutex_unlock"; "snoopy_tsrm_getCurrentThreadId"; "snoopy_util_list_fetchNextNode"]);
  ("snoopy_tsrm_get_configuration", ["snoopy_tsrm_getCurrentThreadData"]);
  ("snoopy_tsrm_get_inputdatastorage", ["snoopy_tsrm_getCurrentThreadData"]);
  ("snoopy_tsrm_get_threadCount", ["pthread_mutex_lock"; "pthread_mutex_unlock"]);
  ("snoopy_tsrm_getutline", ["endutent"; "getutline_r"; "pthread_mutex_lock"; "pthread_mutex_unlock"; "setutent"]);
  ("snoopy_tsrm_init", ["pthread_atfork"; "pthread_mutex_init"; "pthread_mutexattr_init"; "pthread_mutexattr_settype"; "snoopy_tsrm_atfork_child"; "snoopy_tsrm_atfork_parent"; "snoopy_tsrm_atfork_prepare"]);
  ("snoopy_tsrm_localtime_r", ["localtime_r"; "pthread_mutex_lock"; "pthread_mutex_unlock"]);
  ("snoopy_tsrm_onLoad", ["pthread_once"; "snoopy_tsrm_init"]);
  ("snoopy_tsrm_strftime", ["pthread_mutex_lock"; "pthread_mutex_unlock"; "strftime"]);
  ("snoopy_util_file_getSmallTextFileContent", ["__errno_location"; "clearerr"; "fclose"; "feof"; "ferror"; "fopen"; "fread"; "free"; "malloc"; "snprintf"; "strerror_r"]);
  ("snoopy_util_list_fetchNextNode", []);
  ("snoopy_util_list_push", ["calloc"; "snoopy_error_handler"]);
  ("snoopy_util_list_remove", ["free"; "snoopy_error_handler"]);
  ("snoopy_util_parser_csvToArgList", ["malloc"; "snoopy_util_string_countChars"; "strchr"; "strlen"]);
  ("snoopy_util_parser_strByteLength", ["__ctype_b_loc"]);
  ("snoopy_util_pwd_convertUidToUsername", ["free"; "getpwuid_r"; "malloc"; "snprintf"; "sysconf"]);
  ("snoopy_util_string_append", ["strcat"; "strlen"]);
  ("snoopy_util_string_containsOnlyDigits", ["__ctype_b_loc"]);
  ("snoopy_util_string_copyLineFromContent", ["malloc"; "snoopy_util_string_getLineLength"; "strncpy"]);
  ("snoopy_util_string_countChars", []);
  ("snoopy_util_string_findLineStartingWith", ["strlen"; "strstr"]);
  ("snoopy_util_string_getLineLength", ["strchr"; "strlen"]);
  ("snoopy_util_string_nullTerminateLine", ["strchr"]);
  ("snoopy_util_string_toUpper", []);
  ("snoopy_util_syslog_convertFacilityToInt", ["strcmp"; "strncmp"]);
  ("snoopy_util_syslog_convertFacilityToStr", []);
  ("snoopy_util_syslog_convertLevelToInt", ["strcmp"; "strncmp"]);
  ("snoopy_util_syslog_convertLevelToStr", []);
  ("snoopy_util_systemd_convertCgroupEntryToUnitName", ["cgroupEntry_movePastInitialChaff"; "snoopy_util_systemd_convertUserSliceInfoToUsername"; "strchr"; "strcmp"; "strdup"; "strlen"; "strncmp"; "strndup"]);
  ("snoopy_util_systemd_convertUserSliceInfoToUsername", ["atoi"; "snoopy_util_pwd_convertUidToUsername"; "strchr"; "strncmp"]);
  ("snoopy_util_utmp_doesEntryContainIpAddr", []);
  ("snoopy_util_utmp_findUtmpEntryByLine", ["snoopy_tsrm_getutline"; "strncpy"]);
  ("snoopy_util_utmp_findUtmpEntryByPath", ["snoopy_util_utmp_findUtmpEntryByLine"; "strlen"; "strncmp"]);
  ("snoopy_util_utmp_getUtmpIpAddrAsString", ["inet_ntop"]);
  ("snoopy_util_utmp_test_setAlternateUtmpFilePath", ["utmpname"]);
  ("string_to_token_array", ["calloc"; "strchr"; "strtok_r"]);
  ("strncpy0", [])
].
Definition data_refs : list string := ["snoopy_configfile_getOptionValueAsString_datasource_message_max_length"; "snoopy_configfile_getOptionValueAsString_error_logging"; "snoopy_configfile_getOptionValueAsString_filter_chain"; "snoopy_configfile_getOptionValueAsString_log_message_max_length"; "snoopy_configfile_getOptionValueAsString_message_format"; "snoopy_configfile_getOptionValueAsString_output"; "snoopy_configfile_getOptionValueAsString_syslog_facility"; "snoopy_configfile_getOptionValueAsString_syslog_ident"; "snoopy_configfile_getOptionValueAsString_syslog_level"; "snoopy_configfile_parseValue_datasource_message_max_length"; "snoopy_configfile_parseValue_error_logging"; "snoopy_configfile_parseValue_filter_chain"; "snoopy_configfile_parseValue_log_message_max_length"; "snoopy_configfile_parseValue_message_format"; "snoopy_configfile_parseValue_output"; "snoopy_configfile_parseValue_syslog_facility"; "snoopy_configfile_parseValue_syslog_ident"; "snoopy_configfile_parseValue_syslog_level"; "snoopy_datasource_cgroup"; "snoopy_datasource_cmdline"; "snoopy_datasource_cwd"; "snoopy_datasource_datetime"; "snoopy_datasource_domain"; "snoopy_datasource_egid"; "snoopy_datasource_egroup"; "snoopy_datasource_env"; "snoopy_datasource_env_all"; "snoopy_datasource_euid"; "snoopy_datasource_eusername"; "snoopy_datasource_failure"; "snoopy_datasource_filename"; "snoopy_datasource_gid"; "snoopy_datasource_group"; "snoopy_datasource_hostname"; "snoopy_datasource_ipaddr"; "snoopy_datasource_login"; "snoopy_datasource_noop"; "snoopy_datasource_pid"; "snoopy_datasource_ppid"; "snoopy_datasource_rpname"; "snoopy_datasource_sid"; "snoopy_datasource_snoopy_configure_command"; "snoopy_datasource_snoopy_literal"; "snoopy_datasource_snoopy_threads"; "snoopy_datasource_snoopy_version"; "snoopy_datasource_systemd_unit_name"; "snoopy_datasource_tid"; "snoopy_datasource_tid_kernel"; "snoopy_datasource_timestamp"; "snoopy_datasource_timestamp_ms"; "snoopy_datasource_timestamp_us"; "snoopy_datasource_tty"; "snoopy_datasource_tty_uid"; "snoopy_datasource_tty_username"; "snoopy_datasource_uid"; "snoopy_datasource_username"; "snoopy_filter_exclude_spawns_of"; "snoopy_filter_exclude_uid"; "snoopy_filter_noop"; "snoopy_filter_only_root"; "snoopy_filter_only_tty"; "snoopy_filter_only_uid"; "snoopy_output_devlogoutput"; "snoopy_output_devnulloutput"; "snoopy_output_devttyoutput"; "snoopy_output_fileoutput"; "snoopy_output_noopoutput"; "snoopy_output_socketoutput"; "snoopy_output_stderroutput"; "snoopy_output_stdoutoutput"].
Definition nm_symbols : list string := ["empty_string_array.0"; "snoopy_configfile_optionRegistry"; "snoopy_configuration_altConfigFilePath"; "snoopy_configuration_altConfigFilePathBuf"; "snoopy_configuration_configFileParsingEnabled"; "snoopy_datasourceregistry_names"; "snoopy_datasourceregistry_ptrs"; "snoopy_filterregistry_names"; "snoopy_filterregistry_ptrs"; "snoopy_outputregistry_names"; "snoopy_outputregistry_ptrs"; "snoopy_tsrm_init_onceControl"; "snoopy_tsrm_threadRepo"; "snoopy_tsrm_threadRepo_data"; "snoopy_tsrm_threadRepo_mutex"; "snoopy_tsrm_threadRepo_mutexAttr"].
Definition unresolved_refs : list string := [].
