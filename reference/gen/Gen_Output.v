(* GENERATED from the current /repo working tree by vlib/tr_output.py -- do not edit *)
From Snoopy Require Import Lib.CStr Output.Model.
Definition consts : output_consts :=
  {| file_open_append := true;
     file_single_write := true;
     file_suffix := [x0a];
     file_empty_arg_fails := true;
     devtty_path := [x2f; x64; x65; x76; x2f; x74; x74; x79];
     devnull_path := [x2f; x64; x65; x76; x2f; x6e; x75; x6c; x6c];
     stdout_fmt := [FStr; FLit [x0a]];
     stdout_to_os := true;
     stderr_fmt := [FStr; FLit [x0a]];
     stderr_to_os := true;
     sock_nonblock := true;
     sock_cloexec := true;
     send_dontwait := true;
     send_nosignal := true;
     sock_path_size := 107%N;
     sock_skips_empty := true;
     devlog_fmt := [FLit [x3c]; FInt; FLit [x3e]; FStarStr; FLit [x5b]; FInt; FLit [x5d; x3a; x20]; FStr];
     devlog_prec := 255%N;
     devlog_extra := 100%N;
     devlog_ident_buf := 256%N;
     devlog_path := [x2f; x64; x65; x76; x2f; x6c; x6f; x67];
     devlog_skips_empty := true |}.
