(* GENERATED from the current /repo working tree by vlib/translate.py -- do not edit *)
From Snoopy Require Import Lib.CStr Preload.Model.
Definition consts : preload_consts :=
  {| lib_name := [x6c; x69; x62; x73; x6e; x6f; x6f; x70; x79; x2e; x73; x6f];
     entry_delims := [x0a; x23; x20; x09];
     comment_ch := x23;
     dis_blanks := [x20; x09];
     dis_stops := [x0a; x23];
     enable_guard := true |}.
