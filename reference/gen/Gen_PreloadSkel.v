(* GENERATED from the current /repo working tree by vlib/skel.py -- do not edit *)
From Coq Require Import String ZArith List.
From Snoopy Require Import Lib.Skel.
Import ListNotations.
Local Open Scope string_scope.

Definition sk_writeFile : fn_skel := {| sk_name := "etcLdSoPreload_writeFile"; sk_nparams := 1; sk_body :=
 [(SDecl "filePath" false None);
 (SDecl "tmpFilePath" false None);
 (SDecl "statBuf" false None);
 (SAssign (XVar "filePath") (XCall "etcLdSoPreload_getFilePath" []));
 (SIf (XOp ">=" [(XCall "snprintf" [(XVar "tmpFilePath"); (XInt (4096)%Z); (XStr "%s.snoopyctl-tmp"); (XVar "filePath")]); (XInt (4096)%Z)]) [(SExpr (XCall "printDiagValue" [(XStr "ld.so.preload path"); (XVar "filePath")]));
 (SExpr (XCall "fatalError" [(XStr "Path too long.")]))] []);
 (SDecl "fileHandle" false (Some (XCall "fopen" [(XVar "tmpFilePath"); (XStr "w")])));
 (SIf (XOp "==" [(XVar "fileHandle"); (XCast (XInt (0)%Z))]) [(SExpr (XCall "printDiagValue" [(XStr "ld.so.preload path"); (XVar "filePath")]));
 (SExpr (XCall "printDiagValue" [(XStr "Error message"); (XCall "strerror" [(XDeref (XCall "__errno_location" []))])]));
 (SExpr (XCall "fatalError" [(XStr "Unable to open file for writing (missing sudo, maybe?).")]))] []);
 (SIf (XOp "==" [(XInt (0)%Z); (XCall "stat" [(XVar "filePath"); (XAddr (XVar "statBuf"))])]) [(SIf (XOp "!=" [(XInt (0)%Z); (XCall "fchown" [(XCall "fileno" [(XVar "fileHandle")]); (XMember (XVar "statBuf") "st_uid"); (XMember (XVar "statBuf") "st_gid")])]) [] []);
 (SExpr (XCall "fchmod" [(XCall "fileno" [(XVar "fileHandle")]); (XOp "&" [(XMember (XVar "statBuf") "st_mode"); (XInt (4095)%Z)])]))] []);
 (SIf (XOp "||" [(XOp "||" [(XOp "<" [(XCall "fprintf" [(XVar "fileHandle"); (XStr "%s"); (XParam 0)]); (XInt (0)%Z)]); (XOp "!=" [(XCall "fflush" [(XVar "fileHandle")]); (XInt (0)%Z)])]); (XOp "!=" [(XCall "fsync" [(XCall "fileno" [(XVar "fileHandle")])]); (XInt (0)%Z)])]) [(SExpr (XCall "printDiagValue" [(XStr "ld.so.preload path"); (XVar "filePath")]));
 (SExpr (XCall "printDiagValue" [(XStr "Error message"); (XCall "strerror" [(XDeref (XCall "__errno_location" []))])]));
 (SExpr (XCall "fclose" [(XVar "fileHandle")]));
 (SExpr (XCall "unlink" [(XVar "tmpFilePath")]));
 (SExpr (XCall "fatalError" [(XStr "Unable to write to file.")]))] []);
 (SExpr (XCall "fclose" [(XVar "fileHandle")]));
 (SIf (XOp "!=" [(XInt (0)%Z); (XCall "rename" [(XVar "tmpFilePath"); (XVar "filePath")])]) [(SExpr (XCall "printDiagValue" [(XStr "ld.so.preload path"); (XVar "filePath")]));
 (SExpr (XCall "printDiagValue" [(XStr "Error message"); (XCall "strerror" [(XDeref (XCall "__errno_location" []))])]));
 (SExpr (XCall "unlink" [(XVar "tmpFilePath")]));
 (SExpr (XCall "fatalError" [(XStr "Unable to replace the file.")]))] [])] |}.

Definition sk_enable : fn_skel := {| sk_name := "snoopy_cli_action_enable"; sk_nparams := 0; sk_body :=
 [(SDecl "libsnoopySoPath" false None);
 (SDecl "curEtcLdSoPreloadContent" false (Some (XInt (0)%Z)));
 (SDecl "newEtcLdSoPreloadContent" false (Some (XInt (0)%Z)));
 (SDecl "newEtcLdSoPreloadContentLength" false None);
 (SDecl "newEtcLdSoPreloadContentLengthBuf" false None);
 (SDecl "strPosPtr" false (Some (XInt (0)%Z)));
 (SDecl "foundStringPos" false (Some (XCast (XInt (0)%Z))));
 (SAssign (XVar "libsnoopySoPath") (XCall "libsnoopySo_getFilePath" []));
 (SIf (XOp "!=" [(XCall "access" [(XVar "libsnoopySoPath"); (XInt (0)%Z)]); (XInt (0)%Z)]) [(SExpr (XCall "printDiagValue" [(XStr "libsnoopy.so path"); (XVar "libsnoopySoPath")]));
 (SExpr (XCall "fatalError" [(XStr "File not found")]))] []);
 (SIf (XOp "!=" [(XCall "access" [(XVar "libsnoopySoPath"); (XInt (4)%Z)]); (XInt (0)%Z)]) [(SExpr (XCall "printDiagValue" [(XStr "libsnoopy.so path"); (XVar "libsnoopySoPath")]));
 (SExpr (XCall "fatalError" [(XStr "File not readable")]))] []);
 (SAssign (XVar "curEtcLdSoPreloadContent") (XCall "etcLdSoPreload_readFile" []));
 (SIf (XCall "etcLdSoPreload_findEntry" [(XVar "curEtcLdSoPreloadContent"); (XVar "libsnoopySoPath")]) [(SAssign (XVar "foundStringPos") (XCall "etcLdSoPreload_findNonCommentLineContainingString" [(XVar "curEtcLdSoPreloadContent"); (XStr "libsnoopy.so")]));
 (SIf (XOp "&&" [(XOp "!=" [(XVar "foundStringPos"); (XCast (XInt (0)%Z))]); (XOp "!=" [(XCall "etcLdSoPreload_findNonCommentLineContainingString" [(XOp "+" [(XVar "foundStringPos"); (XCall "snoopy_util_string_getLineLength" [(XVar "foundStringPos")])]); (XStr "libsnoopy.so")]); (XCast (XInt (0)%Z))])]) [(SExpr (XCall "printDiagValue" [(XStr "ld.so.preload path"); (XVar "g_etcLdSoPreloadPath")]));
 (SExpr (XCall "printDiagValue" [(XStr "Search string"); (XStr "libsnoopy.so")]));
 (SExpr (XCall "fatalError" [(XStr "Another Snoopy instance encountered.")]))] []);
 (SExpr (XCall "free" [(XVar "curEtcLdSoPreloadContent")]));
 (SExpr (XCall "printDiagValue" [(XStr "ld.so.preload path"); (XVar "g_etcLdSoPreloadPath")]));
 (SExpr (XCall "printDiagValue" [(XStr "Search string"); (XVar "libsnoopySoPath")]));
 (SExpr (XCall "printNotice" [(XStr "Snoopy is already enabled in /etc/ld.so.preload.")]));
 (SReturn (Some (XInt (0)%Z)))] []);
 (SIf (XOp "!=" [(XCall "etcLdSoPreload_findNonCommentLineContainingString" [(XVar "curEtcLdSoPreloadContent"); (XStr "libsnoopy.so")]); (XCast (XInt (0)%Z))]) [(SExpr (XCall "printDiagValue" [(XStr "ld.so.preload path"); (XVar "g_etcLdSoPreloadPath")]));
 (SExpr (XCall "printDiagValue" [(XStr "Search string"); (XStr "libsnoopy.so")]));
 (SExpr (XCall "fatalError" [(XStr "Another Snoopy instance encountered.")]))] []);
 (SAssign (XVar "newEtcLdSoPreloadContentLength") (XOp "+" [(XOp "+" [(XCall "strlen" [(XVar "curEtcLdSoPreloadContent")]); (XCall "strlen" [(XVar "libsnoopySoPath")])]); (XInt (2)%Z)]));
 (SAssign (XVar "newEtcLdSoPreloadContentLengthBuf") (XOp "+" [(XVar "newEtcLdSoPreloadContentLength"); (XInt (1)%Z)]));
 (SAssign (XVar "newEtcLdSoPreloadContent") (XCall "malloc" [(XVar "newEtcLdSoPreloadContentLengthBuf")]));
 (SAssign (XIndex (XVar "newEtcLdSoPreloadContent") (XVar "newEtcLdSoPreloadContentLength")) (XInt (0)%Z));
 (SIf (XOp "==" [(XCall "strlen" [(XVar "curEtcLdSoPreloadContent")]); (XInt (0)%Z)]) [(SAssign (XVar "strPosPtr") (XVar "newEtcLdSoPreloadContent"))] [(SExpr (XCall "strncpy" [(XVar "newEtcLdSoPreloadContent"); (XVar "curEtcLdSoPreloadContent"); (XVar "newEtcLdSoPreloadContentLengthBuf")]));
 (SAssign (XVar "strPosPtr") (XOp "-" [(XOp "+" [(XVar "newEtcLdSoPreloadContent"); (XCall "strlen" [(XVar "curEtcLdSoPreloadContent")])]); (XInt (1)%Z)]));
 (SIf (XOp "!=" [(XDeref (XVar "strPosPtr")); (XInt (10)%Z)]) [(SExpr (XOp "++" [(XVar "strPosPtr")]));
 (SAssign (XDeref (XVar "strPosPtr")) (XInt (10)%Z))] []);
 (SExpr (XOp "++" [(XVar "strPosPtr")]))]);
 (SExpr (XCall "strncpy" [(XVar "strPosPtr"); (XVar "libsnoopySoPath"); (XOp "-" [(XVar "newEtcLdSoPreloadContentLengthBuf"); (XOp "-" [(XVar "strPosPtr"); (XVar "newEtcLdSoPreloadContent")])])]));
 (SAssign (XVar "strPosPtr") (XOp "+=" [(XVar "strPosPtr"); (XCall "strlen" [(XVar "libsnoopySoPath")])]));
 (SAssign (XDeref (XVar "strPosPtr")) (XInt (10)%Z));
 (SExpr (XOp "++" [(XVar "strPosPtr")]));
 (SAssign (XDeref (XVar "strPosPtr")) (XInt (0)%Z));
 (SExpr (XCall "etcLdSoPreload_writeFile" [(XVar "newEtcLdSoPreloadContent")]));
 (SExpr (XCall "printDiagValue" [(XStr "ld.so.preload path"); (XVar "g_etcLdSoPreloadPath")]));
 (SExpr (XCall "printDiagValue" [(XStr "Snoopy library path"); (XVar "libsnoopySoPath")]));
 (SExpr (XCall "printMessage" [(XStr "SUCCESS: Snoopy has been enabled.")]));
 (SExpr (XCall "free" [(XVar "curEtcLdSoPreloadContent")]));
 (SExpr (XCall "free" [(XVar "newEtcLdSoPreloadContent")]));
 (SReturn (Some (XInt (0)%Z)))] |}.

Definition sk_disable : fn_skel := {| sk_name := "snoopy_cli_action_disable"; sk_nparams := 0; sk_body :=
 [(SDecl "libsnoopySoPath" false None);
 (SDecl "curEtcLdSoPreloadContent" false (Some (XInt (0)%Z)));
 (SDecl "newEtcLdSoPreloadContent" false (Some (XInt (0)%Z)));
 (SDecl "newEtcLdSoPreloadContentLengthMax" false None);
 (SDecl "copyLength" false None);
 (SDecl "entryPtr" false (Some (XCast (XInt (0)%Z))));
 (SDecl "entryLine" false (Some (XCast (XInt (0)%Z))));
 (SDecl "srcPosPtr" false (Some (XInt (0)%Z)));
 (SDecl "destPosPtr" false (Some (XInt (0)%Z)));
 (SDecl "foundStringPos1" false (Some (XCast (XInt (0)%Z))));
 (SDecl "foundStringPos2" false (Some (XCast (XInt (0)%Z))));
 (SAssign (XVar "libsnoopySoPath") (XCall "libsnoopySo_getFilePathNoCheck" []));
 (SAssign (XVar "curEtcLdSoPreloadContent") (XCall "etcLdSoPreload_readFile" []));
 (SAssign (XVar "foundStringPos1") (XCall "etcLdSoPreload_findNonCommentLineContainingString" [(XVar "curEtcLdSoPreloadContent"); (XStr "libsnoopy.so")]));
 (SIf (XOp "!=" [(XVar "foundStringPos1"); (XCast (XInt (0)%Z))]) [(SAssign (XVar "foundStringPos2") (XCall "etcLdSoPreload_findNonCommentLineContainingString" [(XOp "+" [(XVar "foundStringPos1"); (XCall "snoopy_util_string_getLineLength" [(XVar "foundStringPos1")])]); (XStr "libsnoopy.so")]));
 (SIf (XOp "!=" [(XVar "foundStringPos2"); (XCast (XInt (0)%Z))]) [(SExpr (XCall "printDiagValue" [(XStr "Search string"); (XStr "libsnoopy.so")]));
 (SExpr (XCall "printDiagValue" [(XStr "ld.so.preload path"); (XVar "g_etcLdSoPreloadPath")]));
 (SExpr (XCall "fatalError" [(XStr "Duplicate libsnoopy.so entry encountered")]))] [])] []);
 (SAssign (XVar "entryPtr") (XCall "etcLdSoPreload_findEntry" [(XVar "curEtcLdSoPreloadContent"); (XVar "libsnoopySoPath")]));
 (SIf (XOp "==" [(XVar "entryPtr"); (XCast (XInt (0)%Z))]) [(SExpr (XCall "free" [(XVar "curEtcLdSoPreloadContent")]));
 (SExpr (XCall "printDiagValue" [(XStr "ld.so.preload path"); (XVar "g_etcLdSoPreloadPath")]));
 (SExpr (XCall "printDiagValue" [(XStr "libsnoopy.so path"); (XVar "libsnoopySoPath")]));
 (SExpr (XCall "printNotice" [(XStr "Snoopy library is already absent from the ld.so.preload file.")]));
 (SReturn (Some (XInt (0)%Z)))] []);
 (SAssign (XVar "newEtcLdSoPreloadContentLengthMax") (XCall "strlen" [(XVar "curEtcLdSoPreloadContent")]));
 (SAssign (XVar "newEtcLdSoPreloadContent") (XCall "malloc" [(XOp "+" [(XVar "newEtcLdSoPreloadContentLengthMax"); (XInt (1)%Z)])]));
 (SAssign (XIndex (XVar "newEtcLdSoPreloadContent") (XInt (0)%Z)) (XInt (0)%Z));
 (SAssign (XVar "destPosPtr") (XVar "newEtcLdSoPreloadContent"));
 (SAssign (XVar "srcPosPtr") (XVar "curEtcLdSoPreloadContent"));
 (SAssign (XVar "copyLength") (XCast (XOp "-" [(XVar "entryPtr"); (XVar "srcPosPtr")])));
 (SExpr (XCall "strncpy" [(XVar "destPosPtr"); (XVar "srcPosPtr"); (XVar "copyLength")]));
 (SAssign (XVar "destPosPtr") (XOp "+" [(XVar "newEtcLdSoPreloadContent"); (XVar "copyLength")]));
 (SAssign (XVar "entryLine") (XCall "snoopy_util_string_copyLineFromContent" [(XVar "entryPtr")]));
 (SAssign (XVar "srcPosPtr") (XOp "+" [(XVar "entryPtr"); (XCall "strlen" [(XVar "libsnoopySoPath")])]));
 (SLoop (XOp "||" [(XOp "==" [(XDeref (XVar "srcPosPtr")); (XInt (32)%Z)]); (XOp "==" [(XDeref (XVar "srcPosPtr")); (XInt (9)%Z)])]) [(SExpr (XOp "++" [(XVar "srcPosPtr")]))]);
 (SIf (XOp "&&" [(XOp "&&" [(XOp "!=" [(XDeref (XVar "srcPosPtr")); (XInt (0)%Z)]); (XOp "!=" [(XDeref (XVar "srcPosPtr")); (XInt (10)%Z)])]); (XOp "!=" [(XDeref (XVar "srcPosPtr")); (XInt (35)%Z)])]) [(SAssign (XVar "copyLength") (XCast (XCall "strlen" [(XVar "srcPosPtr")])))] [(SAssign (XVar "srcPosPtr") (XOp "+" [(XVar "entryPtr"); (XCall "strlen" [(XVar "entryLine")])]));
 (SAssign (XVar "copyLength") (XCast (XOp "-" [(XOp "-" [(XCall "strlen" [(XVar "curEtcLdSoPreloadContent")]); (XOp "-" [(XVar "entryPtr"); (XVar "curEtcLdSoPreloadContent")])]); (XCall "strlen" [(XVar "entryLine")])])));
 (SIf (XOp "==" [(XDeref (XVar "srcPosPtr")); (XInt (10)%Z)]) [(SExpr (XOp "++" [(XVar "srcPosPtr")]));
 (SExpr (XOp "--" [(XVar "copyLength")]))] [])]);
 (SExpr (XCall "strncpy" [(XVar "destPosPtr"); (XVar "srcPosPtr"); (XVar "copyLength")]));
 (SAssign (XVar "destPosPtr") (XOp "+=" [(XVar "destPosPtr"); (XVar "copyLength")]));
 (SAssign (XDeref (XVar "destPosPtr")) (XInt (0)%Z));
 (SExpr (XCall "etcLdSoPreload_writeFile" [(XVar "newEtcLdSoPreloadContent")]));
 (SExpr (XCall "printMessage" [(XStr "[SUCCESS] Snoopy has been removed from /etc/ld.so.preload.")]));
 (SExpr (XCall "printInfo" [(XStr "Existing processes may still have Snoopy enabled until they are restarted.")]));
 (SIf (XOp "!=" [(XCall "etcLdSoPreload_findNonCommentLineContainingString" [(XVar "newEtcLdSoPreloadContent"); (XStr "libsnoopy.so")]); (XCast (XInt (0)%Z))]) [(SExpr (XCall "printDiagValue" [(XStr "ld.so.preload path"); (XVar "g_etcLdSoPreloadPath")]));
 (SExpr (XCall "printDiagValue" [(XStr "Search string"); (XStr "libsnoopy.so")]));
 (SExpr (XCall "printWarning" [(XStr "Another Snoopy instance found in ld.so.preload file.")]))] []);
 (SExpr (XCall "free" [(XVar "curEtcLdSoPreloadContent")]));
 (SExpr (XCall "free" [(XVar "newEtcLdSoPreloadContent")]));
 (SExpr (XCall "free" [(XVar "entryLine")]));
 (SReturn (Some (XInt (0)%Z)))] |}.
