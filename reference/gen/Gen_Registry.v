(* GENERATED from the current working tree by vlib/tr_registry.py -- do not edit *)
From Coq Require Import String List.
From Snoopy Require Import Registry.Model Registry.Options.
Import ListNotations.
Local Open Scope string_scope.

Definition ds : registry :=
  {| r_kind := Datasource;
   r_names := [
     (["SNOOPY_CONF_DATASOURCE_ENABLED_cgroup"], "cgroup");
     (["SNOOPY_CONF_DATASOURCE_ENABLED_cmdline"], "cmdline");
     (["SNOOPY_CONF_DATASOURCE_ENABLED_cwd"], "cwd");
     (["SNOOPY_CONF_DATASOURCE_ENABLED_datetime"], "datetime");
     (["SNOOPY_CONF_DATASOURCE_ENABLED_domain"], "domain");
     (["SNOOPY_CONF_DATASOURCE_ENABLED_egid"], "egid");
     (["SNOOPY_CONF_DATASOURCE_ENABLED_egroup"], "egroup");
     (["SNOOPY_CONF_DATASOURCE_ENABLED_env"], "env");
     (["SNOOPY_CONF_DATASOURCE_ENABLED_env_all"], "env_all");
     (["SNOOPY_CONF_DATASOURCE_ENABLED_euid"], "euid");
     (["SNOOPY_CONF_DATASOURCE_ENABLED_eusername"], "eusername");
     (["SNOOPY_CONF_DATASOURCE_ENABLED_filename"], "filename");
     (["SNOOPY_CONF_DATASOURCE_ENABLED_gid"], "gid");
     (["SNOOPY_CONF_DATASOURCE_ENABLED_group"], "group");
     (["SNOOPY_CONF_DATASOURCE_ENABLED_hostname"], "hostname");
     (["SNOOPY_CONF_DATASOURCE_ENABLED_ipaddr"], "ipaddr");
     (["SNOOPY_CONF_DATASOURCE_ENABLED_login"], "login");
     (["SNOOPY_CONF_DATASOURCE_ENABLED_pid"], "pid");
     (["SNOOPY_CONF_DATASOURCE_ENABLED_ppid"], "ppid");
     (["SNOOPY_CONF_DATASOURCE_ENABLED_rpname"], "rpname");
     (["SNOOPY_CONF_DATASOURCE_ENABLED_sid"], "sid");
     (["SNOOPY_CONF_DATASOURCE_ENABLED_snoopy_configure_command"], "snoopy_configure_command");
     (["SNOOPY_CONF_DATASOURCE_ENABLED_snoopy_literal"], "snoopy_literal");
     (["SNOOPY_CONF_THREAD_SAFETY_ENABLED"; "SNOOPY_CONF_DATASOURCE_ENABLED_snoopy_threads"], "snoopy_threads");
     (["SNOOPY_CONF_DATASOURCE_ENABLED_snoopy_version"], "snoopy_version");
     (["SNOOPY_CONF_DATASOURCE_ENABLED_systemd_unit_name"], "systemd_unit_name");
     (["SNOOPY_CONF_DATASOURCE_ENABLED_tid"], "tid");
     (["SNOOPY_CONF_DATASOURCE_ENABLED_tid_kernel"], "tid_kernel");
     (["SNOOPY_CONF_DATASOURCE_ENABLED_timestamp"], "timestamp");
     (["SNOOPY_CONF_DATASOURCE_ENABLED_timestamp_ms"], "timestamp_ms");
     (["SNOOPY_CONF_DATASOURCE_ENABLED_timestamp_us"], "timestamp_us");
     (["SNOOPY_CONF_DATASOURCE_ENABLED_tty"], "tty");
     (["SNOOPY_CONF_DATASOURCE_ENABLED_tty_uid"], "tty_uid");
     (["SNOOPY_CONF_DATASOURCE_ENABLED_tty_username"], "tty_username");
     (["SNOOPY_CONF_DATASOURCE_ENABLED_uid"], "uid");
     (["SNOOPY_CONF_DATASOURCE_ENABLED_username"], "username");
     ([], "failure");
     ([], "noop");
     ([], "") ];
   r_ptrs := [
     (["SNOOPY_CONF_DATASOURCE_ENABLED_cgroup"], "snoopy_datasource_cgroup");
     (["SNOOPY_CONF_DATASOURCE_ENABLED_cmdline"], "snoopy_datasource_cmdline");
     (["SNOOPY_CONF_DATASOURCE_ENABLED_cwd"], "snoopy_datasource_cwd");
     (["SNOOPY_CONF_DATASOURCE_ENABLED_datetime"], "snoopy_datasource_datetime");
     (["SNOOPY_CONF_DATASOURCE_ENABLED_domain"], "snoopy_datasource_domain");
     (["SNOOPY_CONF_DATASOURCE_ENABLED_egid"], "snoopy_datasource_egid");
     (["SNOOPY_CONF_DATASOURCE_ENABLED_egroup"], "snoopy_datasource_egroup");
     (["SNOOPY_CONF_DATASOURCE_ENABLED_env"], "snoopy_datasource_env");
     (["SNOOPY_CONF_DATASOURCE_ENABLED_env_all"], "snoopy_datasource_env_all");
     (["SNOOPY_CONF_DATASOURCE_ENABLED_euid"], "snoopy_datasource_euid");
     (["SNOOPY_CONF_DATASOURCE_ENABLED_eusername"], "snoopy_datasource_eusername");
     (["SNOOPY_CONF_DATASOURCE_ENABLED_filename"], "snoopy_datasource_filename");
     (["SNOOPY_CONF_DATASOURCE_ENABLED_gid"], "snoopy_datasource_gid");
     (["SNOOPY_CONF_DATASOURCE_ENABLED_group"], "snoopy_datasource_group");
     (["SNOOPY_CONF_DATASOURCE_ENABLED_hostname"], "snoopy_datasource_hostname");
     (["SNOOPY_CONF_DATASOURCE_ENABLED_ipaddr"], "snoopy_datasource_ipaddr");
     (["SNOOPY_CONF_DATASOURCE_ENABLED_login"], "snoopy_datasource_login");
     (["SNOOPY_CONF_DATASOURCE_ENABLED_pid"], "snoopy_datasource_pid");
     (["SNOOPY_CONF_DATASOURCE_ENABLED_ppid"], "snoopy_datasource_ppid");
     (["SNOOPY_CONF_DATASOURCE_ENABLED_rpname"], "snoopy_datasource_rpname");
     (["SNOOPY_CONF_DATASOURCE_ENABLED_sid"], "snoopy_datasource_sid");
     (["SNOOPY_CONF_DATASOURCE_ENABLED_snoopy_configure_command"], "snoopy_datasource_snoopy_configure_command");
     (["SNOOPY_CONF_DATASOURCE_ENABLED_snoopy_literal"], "snoopy_datasource_snoopy_literal");
     (["SNOOPY_CONF_THREAD_SAFETY_ENABLED"; "SNOOPY_CONF_DATASOURCE_ENABLED_snoopy_threads"], "snoopy_datasource_snoopy_threads");
     (["SNOOPY_CONF_DATASOURCE_ENABLED_snoopy_version"], "snoopy_datasource_snoopy_version");
     (["SNOOPY_CONF_DATASOURCE_ENABLED_systemd_unit_name"], "snoopy_datasource_systemd_unit_name");
     (["SNOOPY_CONF_DATASOURCE_ENABLED_tid"], "snoopy_datasource_tid");
     (["SNOOPY_CONF_DATASOURCE_ENABLED_tid_kernel"], "snoopy_datasource_tid_kernel");
     (["SNOOPY_CONF_DATASOURCE_ENABLED_timestamp"], "snoopy_datasource_timestamp");
     (["SNOOPY_CONF_DATASOURCE_ENABLED_timestamp_ms"], "snoopy_datasource_timestamp_ms");
     (["SNOOPY_CONF_DATASOURCE_ENABLED_timestamp_us"], "snoopy_datasource_timestamp_us");
     (["SNOOPY_CONF_DATASOURCE_ENABLED_tty"], "snoopy_datasource_tty");
     (["SNOOPY_CONF_DATASOURCE_ENABLED_tty_uid"], "snoopy_datasource_tty_uid");
     (["SNOOPY_CONF_DATASOURCE_ENABLED_tty_username"], "snoopy_datasource_tty_username");
     (["SNOOPY_CONF_DATASOURCE_ENABLED_uid"], "snoopy_datasource_uid");
     (["SNOOPY_CONF_DATASOURCE_ENABLED_username"], "snoopy_datasource_username");
     ([], "snoopy_datasource_failure");
     ([], "snoopy_datasource_noop") ];
   r_lex_ok := true |}.

Definition flt : registry :=
  {| r_kind := Filter;
   r_names := [
     (["SNOOPY_CONF_FILTER_ENABLED_exclude_spawns_of"], "exclude_spawns_of");
     (["SNOOPY_CONF_FILTER_ENABLED_exclude_uid"], "exclude_uid");
     (["SNOOPY_CONF_FILTER_ENABLED_only_root"], "only_root");
     (["SNOOPY_CONF_FILTER_ENABLED_only_tty"], "only_tty");
     (["SNOOPY_CONF_FILTER_ENABLED_only_uid"], "only_uid");
     ([], "noop");
     ([], "") ];
   r_ptrs := [
     (["SNOOPY_CONF_FILTER_ENABLED_exclude_spawns_of"], "snoopy_filter_exclude_spawns_of");
     (["SNOOPY_CONF_FILTER_ENABLED_exclude_uid"], "snoopy_filter_exclude_uid");
     (["SNOOPY_CONF_FILTER_ENABLED_only_root"], "snoopy_filter_only_root");
     (["SNOOPY_CONF_FILTER_ENABLED_only_tty"], "snoopy_filter_only_tty");
     (["SNOOPY_CONF_FILTER_ENABLED_only_uid"], "snoopy_filter_only_uid");
     ([], "snoopy_filter_noop") ];
   r_lex_ok := true |}.

Definition out : registry :=
  {| r_kind := Output;
   r_names := [
     (["SNOOPY_CONF_OUTPUT_ENABLED_devlog"], "devlog");
     (["SNOOPY_CONF_OUTPUT_ENABLED_devnull"], "devnull");
     (["SNOOPY_CONF_OUTPUT_ENABLED_devtty"], "devtty");
     (["SNOOPY_CONF_OUTPUT_ENABLED_file"], "file");
     (["SNOOPY_CONF_OUTPUT_ENABLED_socket"], "socket");
     (["SNOOPY_CONF_OUTPUT_ENABLED_stderr"], "stderr");
     (["SNOOPY_CONF_OUTPUT_ENABLED_stdout"], "stdout");
     (["SNOOPY_CONF_OUTPUT_ENABLED_syslog"], "syslog");
     ([], "noop");
     ([], "") ];
   r_ptrs := [
     (["SNOOPY_CONF_OUTPUT_ENABLED_devlog"], "snoopy_output_devlogoutput");
     (["SNOOPY_CONF_OUTPUT_ENABLED_devnull"], "snoopy_output_devnulloutput");
     (["SNOOPY_CONF_OUTPUT_ENABLED_devtty"], "snoopy_output_devttyoutput");
     (["SNOOPY_CONF_OUTPUT_ENABLED_file"], "snoopy_output_fileoutput");
     (["SNOOPY_CONF_OUTPUT_ENABLED_socket"], "snoopy_output_socketoutput");
     (["SNOOPY_CONF_OUTPUT_ENABLED_stderr"], "snoopy_output_stderroutput");
     (["SNOOPY_CONF_OUTPUT_ENABLED_stdout"], "snoopy_output_stdoutoutput");
     (["SNOOPY_CONF_OUTPUT_ENABLED_syslog"], "snoopy_output_syslogoutput");
     ([], "snoopy_output_noopoutput") ];
   r_lex_ok := true |}.

Definition consts : registry_consts :=
  {| rc_sentinel := "";
     rc_lookup_ok := true;
     rc_entries_ok := true;
     rc_dispatch := DispatchCallByName;
     rc_callers := [("src/action/log-message-dispatch.c", "snoopy_outputregistry_dispatch"); ("src/configfile.c", "snoopy_outputregistry_doesNameExist"); ("src/filtering.c", "snoopy_filterregistry_callByName"); ("src/filtering.c", "snoopy_filterregistry_doesNameExist"); ("src/message.c", "snoopy_datasourceregistry_callByName"); ("src/message.c", "snoopy_datasourceregistry_doesNameExist")];
     rc_ds := ds; rc_flt := flt; rc_out := out;
     rc_configure_features := ["SNOOPY_CONF_DATASOURCE_ENABLED_cgroup"; "SNOOPY_CONF_DATASOURCE_ENABLED_cmdline"; "SNOOPY_CONF_DATASOURCE_ENABLED_cwd"; "SNOOPY_CONF_DATASOURCE_ENABLED_datetime"; "SNOOPY_CONF_DATASOURCE_ENABLED_domain"; "SNOOPY_CONF_DATASOURCE_ENABLED_egid"; "SNOOPY_CONF_DATASOURCE_ENABLED_egroup"; "SNOOPY_CONF_DATASOURCE_ENABLED_env"; "SNOOPY_CONF_DATASOURCE_ENABLED_env_all"; "SNOOPY_CONF_DATASOURCE_ENABLED_euid"; "SNOOPY_CONF_DATASOURCE_ENABLED_eusername"; "SNOOPY_CONF_DATASOURCE_ENABLED_filename"; "SNOOPY_CONF_DATASOURCE_ENABLED_gid"; "SNOOPY_CONF_DATASOURCE_ENABLED_group"; "SNOOPY_CONF_DATASOURCE_ENABLED_hostname"; "SNOOPY_CONF_DATASOURCE_ENABLED_ipaddr"; "SNOOPY_CONF_DATASOURCE_ENABLED_login"; "SNOOPY_CONF_DATASOURCE_ENABLED_pid"; "SNOOPY_CONF_DATASOURCE_ENABLED_ppid"; "SNOOPY_CONF_DATASOURCE_ENABLED_rpname"; "SNOOPY_CONF_DATASOURCE_ENABLED_sid"; "SNOOPY_CONF_DATASOURCE_ENABLED_snoopy_configure_command"; "SNOOPY_CONF_DATASOURCE_ENABLED_snoopy_literal"; "SNOOPY_CONF_DATASOURCE_ENABLED_snoopy_threads"; "SNOOPY_CONF_DATASOURCE_ENABLED_snoopy_version"; "SNOOPY_CONF_DATASOURCE_ENABLED_systemd_unit_name"; "SNOOPY_CONF_DATASOURCE_ENABLED_tid"; "SNOOPY_CONF_DATASOURCE_ENABLED_tid_kernel"; "SNOOPY_CONF_DATASOURCE_ENABLED_timestamp"; "SNOOPY_CONF_DATASOURCE_ENABLED_timestamp_ms"; "SNOOPY_CONF_DATASOURCE_ENABLED_timestamp_us"; "SNOOPY_CONF_DATASOURCE_ENABLED_tty"; "SNOOPY_CONF_DATASOURCE_ENABLED_tty_uid"; "SNOOPY_CONF_DATASOURCE_ENABLED_tty_username"; "SNOOPY_CONF_DATASOURCE_ENABLED_uid"; "SNOOPY_CONF_DATASOURCE_ENABLED_username"; "SNOOPY_CONF_FILTER_ENABLED_exclude_spawns_of"; "SNOOPY_CONF_FILTER_ENABLED_exclude_uid"; "SNOOPY_CONF_FILTER_ENABLED_only_root"; "SNOOPY_CONF_FILTER_ENABLED_only_tty"; "SNOOPY_CONF_FILTER_ENABLED_only_uid"; "SNOOPY_CONF_OUTPUT_ENABLED_devlog"; "SNOOPY_CONF_OUTPUT_ENABLED_devnull"; "SNOOPY_CONF_OUTPUT_ENABLED_devtty"; "SNOOPY_CONF_OUTPUT_ENABLED_file"; "SNOOPY_CONF_OUTPUT_ENABLED_socket"; "SNOOPY_CONF_OUTPUT_ENABLED_stderr"; "SNOOPY_CONF_OUTPUT_ENABLED_stdout"; "SNOOPY_CONF_OUTPUT_ENABLED_syslog"];
     rc_configure_generic := ["SNOOPY_CONF_THREAD_SAFETY_ENABLED"; "SNOOPY_CONF_FILTERING_ENABLED"; "SNOOPY_CONF_CODE_COVERAGE_ENABLED"; "SNOOPY_CONF_LIBDIR"; "SNOOPY_CONF_SBINDIR"; "SNOOPY_CONF_CONFIGFILE_ENABLED"; "SNOOPY_CONF_CONFIGFILE_PATH"; "SNOOPY_CONF_SYSCONFDIR"; "SNOOPY_CONF_ERROR_LOGGING_ENABLED"; "SNOOPY_CONF_MESSAGE_FORMAT"; "SNOOPY_CONF_FILTER_CHAIN"; "SNOOPY_CONF_OUTPUT_DEFAULT"; "SNOOPY_CONF_OUTPUT_DEFAULT_ARG"; "SNOOPY_CONF_SYSLOG_FACILITY"; "SNOOPY_CONF_SYSLOG_LEVEL"; "SNOOPY_CONF_SYSLOG_IDENT_FORMAT"];
     rc_confighin := ["SNOOPY_CONF_DATASOURCE_ENABLED_cgroup"; "SNOOPY_CONF_DATASOURCE_ENABLED_cmdline"; "SNOOPY_CONF_DATASOURCE_ENABLED_cwd"; "SNOOPY_CONF_DATASOURCE_ENABLED_datetime"; "SNOOPY_CONF_DATASOURCE_ENABLED_domain"; "SNOOPY_CONF_DATASOURCE_ENABLED_egid"; "SNOOPY_CONF_DATASOURCE_ENABLED_egroup"; "SNOOPY_CONF_DATASOURCE_ENABLED_env"; "SNOOPY_CONF_DATASOURCE_ENABLED_env_all"; "SNOOPY_CONF_DATASOURCE_ENABLED_euid"; "SNOOPY_CONF_DATASOURCE_ENABLED_eusername"; "SNOOPY_CONF_DATASOURCE_ENABLED_filename"; "SNOOPY_CONF_DATASOURCE_ENABLED_gid"; "SNOOPY_CONF_DATASOURCE_ENABLED_group"; "SNOOPY_CONF_DATASOURCE_ENABLED_hostname"; "SNOOPY_CONF_DATASOURCE_ENABLED_ipaddr"; "SNOOPY_CONF_DATASOURCE_ENABLED_login"; "SNOOPY_CONF_DATASOURCE_ENABLED_pid"; "SNOOPY_CONF_DATASOURCE_ENABLED_ppid"; "SNOOPY_CONF_DATASOURCE_ENABLED_rpname"; "SNOOPY_CONF_DATASOURCE_ENABLED_sid"; "SNOOPY_CONF_DATASOURCE_ENABLED_snoopy_configure_command"; "SNOOPY_CONF_DATASOURCE_ENABLED_snoopy_literal"; "SNOOPY_CONF_DATASOURCE_ENABLED_snoopy_threads"; "SNOOPY_CONF_DATASOURCE_ENABLED_snoopy_version"; "SNOOPY_CONF_DATASOURCE_ENABLED_systemd_unit_name"; "SNOOPY_CONF_DATASOURCE_ENABLED_tid"; "SNOOPY_CONF_DATASOURCE_ENABLED_tid_kernel"; "SNOOPY_CONF_DATASOURCE_ENABLED_timestamp"; "SNOOPY_CONF_DATASOURCE_ENABLED_timestamp_ms"; "SNOOPY_CONF_DATASOURCE_ENABLED_timestamp_us"; "SNOOPY_CONF_DATASOURCE_ENABLED_tty"; "SNOOPY_CONF_DATASOURCE_ENABLED_tty_uid"; "SNOOPY_CONF_DATASOURCE_ENABLED_tty_username"; "SNOOPY_CONF_DATASOURCE_ENABLED_uid"; "SNOOPY_CONF_DATASOURCE_ENABLED_username"; "SNOOPY_CONF_FILTER_ENABLED_exclude_spawns_of"; "SNOOPY_CONF_FILTER_ENABLED_exclude_uid"; "SNOOPY_CONF_FILTER_ENABLED_only_root"; "SNOOPY_CONF_FILTER_ENABLED_only_tty"; "SNOOPY_CONF_FILTER_ENABLED_only_uid"; "SNOOPY_CONF_OUTPUT_ENABLED_devlog"; "SNOOPY_CONF_OUTPUT_ENABLED_devnull"; "SNOOPY_CONF_OUTPUT_ENABLED_devtty"; "SNOOPY_CONF_OUTPUT_ENABLED_file"; "SNOOPY_CONF_OUTPUT_ENABLED_socket"; "SNOOPY_CONF_OUTPUT_ENABLED_stderr"; "SNOOPY_CONF_OUTPUT_ENABLED_stdout"; "SNOOPY_CONF_OUTPUT_ENABLED_syslog"] |}.

(* EXTENSION: option registry of src/configfile.c (guards rewritten to the configure switch they are derived from in snoopy.h) *)
Definition options : opt_registry :=
  {| o_rows := [
     ([], ("error_logging", ("snoopy_configfile_parseValue_error_logging", "snoopy_configfile_getOptionValueAsString_error_logging")));
     (["SNOOPY_CONF_FILTERING_ENABLED"], ("filter_chain", ("snoopy_configfile_parseValue_filter_chain", "snoopy_configfile_getOptionValueAsString_filter_chain")));
     ([], ("message_format", ("snoopy_configfile_parseValue_message_format", "snoopy_configfile_getOptionValueAsString_message_format")));
     ([], ("output", ("snoopy_configfile_parseValue_output", "snoopy_configfile_getOptionValueAsString_output")));
     ([], ("syslog_facility", ("snoopy_configfile_parseValue_syslog_facility", "snoopy_configfile_getOptionValueAsString_syslog_facility")));
     ([], ("syslog_ident", ("snoopy_configfile_parseValue_syslog_ident", "snoopy_configfile_getOptionValueAsString_syslog_ident")));
     ([], ("syslog_level", ("snoopy_configfile_parseValue_syslog_level", "snoopy_configfile_getOptionValueAsString_syslog_level")));
     ([], ("datasource_message_max_length", ("snoopy_configfile_parseValue_datasource_message_max_length", "snoopy_configfile_getOptionValueAsString_datasource_message_max_length")));
     ([], ("log_message_max_length", ("snoopy_configfile_parseValue_log_message_max_length", "snoopy_configfile_getOptionValueAsString_log_message_max_length")));
     ([], ("", ("NULL", "NULL"))) ];
     o_sentinel := "";
     o_lex_ok := true;
     o_lookup_ok := true |}.
