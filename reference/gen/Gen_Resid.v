(* GENERATED from the current /repo working tree by vlib/tr_life.py (clang AST of every library source) -- do not edit *)
From Coq Require Import String ZArith List.
From Snoopy Require Import Lib.Skel.
Import ListNotations.
Local Open Scope string_scope.

Definition rf_25 : fn_skel := {| sk_name := "snoopy_message_generateFromFormat"; sk_nparams := 4; sk_body :=
 [(SDecl "dataSourceMsgBufSize" false None);
 (SDecl "dataSourceMsg" false (Some (XCast (XInt (0)%Z))));
 (SDecl "fmtPos_cur" false None);
 (SDecl "fmtPos_nextFormatTag" false None);
 (SDecl "fmtPos_nextFormatTagClose" false None);
 (SDecl "retVal" false None);
 (SAssign (XVar "dataSourceMsgBufSize") (XParam 2));
 (SAssign (XVar "dataSourceMsg") (XCall "malloc" [(XVar "dataSourceMsgBufSize")]));
 (SAssign (XVar "fmtPos_cur") (XParam 3));
 (SAssign (XVar "fmtPos_nextFormatTag") (XParam 3));
 (SLoop (XOp ">" [(XCall "strlen" [(XVar "fmtPos_nextFormatTag")]); (XInt (0)%Z)]) [(SDecl "lengthToCopy" false None);
 (SDecl "dataSourceTag" false None);
 (SDecl "literalText" false None);
 (SDecl "fmtPos_dataSourceTagArg" false None);
 (SDecl "dataSourceNamePtr" false None);
 (SDecl "dataSourceArgPtr" false None);
 (SDecl "dataSourceArg" false None);
 (SAssign (XVar "fmtPos_nextFormatTag") (XCall "strstr" [(XVar "fmtPos_cur"); (XStr "%{")]));
 (SIf (XOp "==" [(XCast (XInt (0)%Z)); (XVar "fmtPos_nextFormatTag")]) [(SExpr (XCall "snoopy_message_append" [(XParam 0); (XParam 1); (XVar "fmtPos_cur")]));
 (SExpr (XCall "free" [(XVar "dataSourceMsg")]));
 (SReturn None)] []);
 (SAssign (XVar "lengthToCopy") (XCast (XOp "-" [(XVar "fmtPos_nextFormatTag"); (XVar "fmtPos_cur")])));
 (SAssign (XVar "literalText") (XCall "strndup" [(XVar "fmtPos_cur"); (XVar "lengthToCopy")]));
 (SExpr (XCall "snoopy_message_append" [(XParam 0); (XParam 1); (XVar "literalText")]));
 (SExpr (XCall "free" [(XVar "literalText")]));
 (SAssign (XVar "fmtPos_nextFormatTagClose") (XCall "strstr" [(XVar "fmtPos_nextFormatTag"); (XStr "}")]));
 (SIf (XOp "==" [(XCast (XInt (0)%Z)); (XVar "fmtPos_nextFormatTagClose")]) [(SExpr (XCall "snoopy_message_append" [(XParam 0); (XParam 1); (XStr "[ERROR: Closing data source tag ('}') not found.]")]));
 (SExpr (XCall "free" [(XVar "dataSourceMsg")]));
 (SReturn None)] []);
 (SAssign (XVar "dataSourceTag") (XCall "strndup" [(XOp "+" [(XVar "fmtPos_nextFormatTag"); (XInt (2)%Z)]); (XCast (XOp "-" [(XVar "fmtPos_nextFormatTagClose"); (XOp "+" [(XVar "fmtPos_nextFormatTag"); (XInt (2)%Z)])]))]));
 (SAssign (XVar "fmtPos_dataSourceTagArg") (XCall "strstr" [(XVar "dataSourceTag"); (XStr ":")]));
 (SIf (XOp "==" [(XCast (XInt (0)%Z)); (XVar "fmtPos_dataSourceTagArg")]) [(SAssign (XVar "dataSourceNamePtr") (XVar "dataSourceTag"));
 (SAssign (XIndex (XVar "dataSourceArg") (XInt (0)%Z)) (XInt (0)%Z));
 (SAssign (XVar "dataSourceArgPtr") (XVar "dataSourceArg"))] [(SAssign (XIndex (XVar "fmtPos_dataSourceTagArg") (XInt (0)%Z)) (XInt (0)%Z));
 (SAssign (XVar "dataSourceNamePtr") (XVar "dataSourceTag"));
 (SAssign (XVar "dataSourceArgPtr") (XOp "+" [(XVar "fmtPos_dataSourceTagArg"); (XInt (1)%Z)]))]);
 (SIf (XOp "!" [(XCall "snoopy_datasourceregistry_doesNameExist" [(XVar "dataSourceNamePtr")])]) [(SExpr (XCall "snoopy_message_append" [(XParam 0); (XParam 1); (XStr "[ERROR: Data source '")]));
 (SExpr (XCall "snoopy_message_append" [(XParam 0); (XParam 1); (XVar "dataSourceNamePtr")]));
 (SExpr (XCall "snoopy_message_append" [(XParam 0); (XParam 1); (XStr "' not found.]")]));
 (SExpr (XCall "free" [(XVar "dataSourceTag")]));
 (SExpr (XCall "free" [(XVar "dataSourceMsg")]));
 (SReturn None)] []);
 (SAssign (XIndex (XVar "dataSourceMsg") (XInt (0)%Z)) (XInt (0)%Z));
 (SAssign (XVar "retVal") (XCall "snoopy_datasourceregistry_callByName" [(XVar "dataSourceNamePtr"); (XVar "dataSourceMsg"); (XVar "dataSourceMsgBufSize"); (XVar "dataSourceArgPtr")]));
 (SIf (XOp "<" [(XVar "retVal"); (XInt (0)%Z)]) [(SExpr (XCall "snoopy_message_append" [(XParam 0); (XParam 1); (XStr "[ERROR: Data source '")]));
 (SExpr (XCall "snoopy_message_append" [(XParam 0); (XParam 1); (XVar "dataSourceNamePtr")]));
 (SExpr (XCall "snoopy_message_append" [(XParam 0); (XParam 1); (XStr "' failed with the following error message: '")]));
 (SExpr (XCall "snoopy_message_append" [(XParam 0); (XParam 1); (XVar "dataSourceMsg")]));
 (SExpr (XCall "snoopy_message_append" [(XParam 0); (XParam 1); (XStr "']")]))] [(SExpr (XCall "snoopy_message_append" [(XParam 0); (XParam 1); (XVar "dataSourceMsg")]))]);
 (SExpr (XCall "free" [(XVar "dataSourceTag")]));
 (SAssign (XVar "fmtPos_cur") (XOp "+" [(XVar "fmtPos_nextFormatTagClose"); (XInt (1)%Z)]))]);
 (SExpr (XCall "free" [(XVar "dataSourceMsg")]))] |}.

Definition rf_26 : fn_skel := {| sk_name := "snoopy_action_log_syscall_exec"; sk_nparams := 0; sk_body :=
 [(SDecl "CFG" false None);
 (SDecl "logMessage" false (Some (XCast (XInt (0)%Z))));
 (SAssign (XVar "CFG") (XCall "snoopy_configuration_get" []));
 (SIf (XOp "&&" [(XOp "==" [(XInt (1)%Z); (XMember (XVar "CFG") "filtering_enabled")]); (XOp "==" [(XInt (0)%Z); (XCall "snoopy_filtering_check_chain" [(XMember (XVar "CFG") "filter_chain")])])]) [(SReturn None)] []);
 (SAssign (XVar "logMessage") (XCall "malloc" [(XOp "+" [(XMember (XVar "CFG") "log_message_max_length"); (XInt (1)%Z)])]));
 (SAssign (XIndex (XVar "logMessage") (XInt (0)%Z)) (XInt (0)%Z));
 (SExpr (XCall "snoopy_message_generateFromFormat" [(XVar "logMessage"); (XOp "+" [(XMember (XVar "CFG") "log_message_max_length"); (XInt (1)%Z)]); (XOp "+" [(XMember (XVar "CFG") "datasource_message_max_length"); (XInt (1)%Z)]); (XMember (XVar "CFG") "message_format")]));
 (SExpr (XCall "snoopy_action_log_message_dispatch" [(XVar "logMessage")]));
 (SExpr (XCall "free" [(XVar "logMessage")]))] |}.

Definition rf_27 : fn_skel := {| sk_name := "snoopy_configuration_dtor"; sk_nparams := 0; sk_body :=
 [(SDecl "CFG" false None);
 (SAssign (XVar "CFG") (XCall "snoopy_configuration_get" []));
 (SAssign (XMember (XVar "CFG") "configfile_path") (XStr "/usr/local/etc/snoopy.ini"));
 (SIf (XOp "==" [(XInt (1)%Z); (XMember (XVar "CFG") "message_format_malloced")]) [(SExpr (XCall "free" [(XMember (XVar "CFG") "message_format")]));
 (SAssign (XMember (XVar "CFG") "message_format_malloced") (XInt (0)%Z));
 (SAssign (XMember (XVar "CFG") "message_format") (XStr "[uid:%{uid} sid:%{sid} tty:%{tty} cwd:%{cwd} filename:%{filename}]: %{cmdline}"))] []);
 (SIf (XOp "==" [(XInt (1)%Z); (XMember (XVar "CFG") "filter_chain_malloced")]) [(SExpr (XCall "free" [(XMember (XVar "CFG") "filter_chain")]));
 (SAssign (XMember (XVar "CFG") "filter_chain_malloced") (XInt (0)%Z));
 (SAssign (XMember (XVar "CFG") "filter_chain") (XStr ""))] []);
 (SIf (XOp "==" [(XInt (1)%Z); (XMember (XVar "CFG") "output_malloced")]) [(SExpr (XCall "free" [(XMember (XVar "CFG") "output")]));
 (SAssign (XMember (XVar "CFG") "output_malloced") (XInt (0)%Z));
 (SAssign (XMember (XVar "CFG") "output") (XStr "devlog"))] []);
 (SIf (XOp "==" [(XInt (1)%Z); (XMember (XVar "CFG") "output_arg_malloced")]) [(SExpr (XCall "free" [(XMember (XVar "CFG") "output_arg")]));
 (SAssign (XMember (XVar "CFG") "output_arg_malloced") (XInt (0)%Z));
 (SAssign (XMember (XVar "CFG") "output_arg") (XStr ""))] []);
 (SIf (XOp "==" [(XInt (1)%Z); (XMember (XVar "CFG") "syslog_ident_format_malloced")]) [(SExpr (XCall "free" [(XMember (XVar "CFG") "syslog_ident_format")]));
 (SAssign (XMember (XVar "CFG") "syslog_ident_format_malloced") (XInt (0)%Z));
 (SAssign (XMember (XVar "CFG") "syslog_ident_format") (XStr "snoopy"))] []);
 (SExpr (XCall "snoopy_configuration_setDefaults" [(XVar "CFG")]))] |}.

Definition rf_32 : fn_skel := {| sk_name := "snoopy_util_list_remove"; sk_nparams := 2; sk_body :=
 [(SDecl "retVal" false (Some (XCast (XInt (0)%Z))));
 (SIf (XOp "||" [(XOp "!" [(XMember (XParam 0) "first")]); (XOp "!" [(XMember (XParam 0) "last")])]) [(SExpr (XCall "snoopy_error_handler" [(XStr "The doubly linked list is empty")]));
 (SReturn (Some (XCast (XInt (0)%Z))))] []);
 (SIf (XOp "!" [(XParam 1)]) [(SExpr (XCall "snoopy_error_handler" [(XStr "No node given, unable to remove NULL")]));
 (SReturn (Some (XCast (XInt (0)%Z))))] []);
 (SIf (XOp "&&" [(XOp "==" [(XParam 1); (XMember (XParam 0) "first")]); (XOp "==" [(XParam 1); (XMember (XParam 0) "last")])]) [(SAssign (XMember (XParam 0) "first") (XCast (XInt (0)%Z)));
 (SAssign (XMember (XParam 0) "last") (XCast (XInt (0)%Z)))] [(SIf (XOp "==" [(XParam 1); (XMember (XParam 0) "first")]) [(SAssign (XMember (XParam 0) "first") (XMember (XParam 1) "next"))] [(SIf (XOp "==" [(XParam 1); (XMember (XParam 0) "last")]) [(SAssign (XMember (XParam 0) "last") (XMember (XParam 1) "prev"));
 (SAssign (XMember (XMember (XParam 0) "last") "next") (XCast (XInt (0)%Z)))] [(SDecl "nodeAfter" false (Some (XMember (XParam 1) "next")));
 (SDecl "nodeBefore" false (Some (XMember (XParam 1) "prev")));
 (SAssign (XMember (XVar "nodeAfter") "prev") (XVar "nodeBefore"));
 (SAssign (XMember (XVar "nodeBefore") "next") (XVar "nodeAfter"))])])]);
 (SExpr (XOp "--" [(XMember (XParam 0) "count")]));
 (SAssign (XVar "retVal") (XMember (XParam 1) "value"));
 (SExpr (XCall "free" [(XParam 1)]));
 (SReturn (Some (XVar "retVal")))] |}.

Definition rf_33 : fn_skel := {| sk_name := "snoopy_tsrm_dtor"; sk_nparams := 0; sk_body :=
 [(SDecl "tRepoEntry" false None);
 (SDecl "tData" false None);
 (SAssign (XVar "tRepoEntry") (XCall "snoopy_tsrm_getCurrentThreadRepoEntry" []));
 (SIf (XOp "==" [(XCast (XInt (0)%Z)); (XVar "tRepoEntry")]) [(SReturn None)] []);
 (SExpr (XCall "pthread_mutex_lock" [(XAddr (XVar "snoopy_tsrm_threadRepo_mutex"))]));
 (SAssign (XVar "tData") (XCall "snoopy_util_list_remove" [(XVar "snoopy_tsrm_threadRepo"); (XVar "tRepoEntry")]));
 (SExpr (XCall "pthread_mutex_unlock" [(XAddr (XVar "snoopy_tsrm_threadRepo_mutex"))]));
 (SExpr (XCall "free" [(XMember (XVar "tData") "inputdatastorage")]));
 (SExpr (XCall "free" [(XMember (XVar "tData") "configuration")]));
 (SExpr (XCall "free" [(XVar "tData")]));
 (SReturn None)] |}.

Definition rf_34 : fn_skel := {| sk_name := "snoopy_cleanup"; sk_nparams := 0; sk_body :=
 [(SExpr (XCall "snoopy_inputdatastorage_dtor" []));
 (SExpr (XCall "snoopy_configuration_dtor" []));
 (SExpr (XCall "snoopy_tsrm_dtor" []))] |}.

Definition rf_35 : fn_skel := {| sk_name := "snoopy_entrypoint_execve_wrapper_exit"; sk_nparams := 0; sk_body :=
 [(SExpr (XCall "snoopy_cleanup" []))] |}.

Definition rf_42 : fn_skel := {| sk_name := "snoopy_ini_parse"; sk_nparams := 3; sk_body :=
 [(SDecl "file" false None);
 (SDecl "error" false None);
 (SAssign (XVar "file") (XCall "fopen" [(XParam 0); (XStr "r")]));
 (SIf (XOp "!" [(XVar "file")]) [(SReturn (Some (XOp "-" [(XInt (1)%Z)])))] []);
 (SAssign (XVar "error") (XCall "snoopy_ini_parse_file" [(XVar "file"); (XParam 1); (XParam 2)]));
 (SExpr (XCall "fclose" [(XVar "file")]));
 (SReturn (Some (XVar "error")))] |}.

Definition rf_43 : fn_skel := {| sk_name := "snoopy_configfile_load"; sk_nparams := 1; sk_body :=
 [(SDecl "iniParseStatus" false None);
 (SDecl "CFG" false None);
 (SAssign (XVar "CFG") (XCall "snoopy_configuration_get" []));
 (SAssign (XMember (XVar "CFG") "configfile_path") (XParam 0));
 (SAssign (XVar "iniParseStatus") (XCall "snoopy_ini_parse" [(XParam 0); (XFun "snoopy_configfile_iniParser_callback"); (XVar "CFG")]));
 (SIf (XOp "!=" [(XInt (0)%Z); (XVar "iniParseStatus")]) [(SReturn (Some (XOp "-" [(XInt (1)%Z)])))] []);
 (SAssign (XMember (XVar "CFG") "configfile_found") (XInt (1)%Z));
 (SAssign (XMember (XVar "CFG") "configfile_parsed") (XInt (1)%Z));
 (SReturn (Some (XInt (0)%Z)))] |}.

Definition rf_44 : fn_skel := {| sk_name := "snoopy_configuration_ctor"; sk_nparams := 0; sk_body :=
 [(SIf (XOp "==" [(XInt (0)%Z); (XVar "snoopy_configuration_configFileParsingEnabled")]) [(SReturn None)] []);
 (SDecl "CFG" false (Some (XCall "snoopy_configuration_get" [])));
 (SIf (XOp "!=" [(XCast (XInt (0)%Z)); (XVar "snoopy_configuration_altConfigFilePath")]) [(SExpr (XCall "snoopy_configfile_load" [(XVar "snoopy_configuration_altConfigFilePath")]))] [(SExpr (XCall "snoopy_configfile_load" [(XMember (XVar "CFG") "configfile_path")]))])] |}.

Definition rf_48 : fn_skel := {| sk_name := "snoopy_tsrm_createNewThreadData"; sk_nparams := 1; sk_body :=
 [(SDecl "tData" false None);
 (SAssign (XVar "tData") (XCall "malloc" [(XOp "sizeof" [])]));
 (SAssign (XMember (XVar "tData") "configuration") (XCall "malloc" [(XOp "sizeof" [])]));
 (SAssign (XMember (XVar "tData") "inputdatastorage") (XCall "malloc" [(XOp "sizeof" [])]));
 (SAssign (XMember (XVar "tData") "threadId") (XParam 0));
 (SExpr (XCall "snoopy_configuration_setUninitialized" [(XMember (XVar "tData") "configuration")]));
 (SExpr (XCall "snoopy_inputdatastorage_setUninitialized" [(XMember (XVar "tData") "inputdatastorage")]));
 (SReturn (Some (XVar "tData")))] |}.

Definition rf_50 : fn_skel := {| sk_name := "snoopy_util_list_push"; sk_nparams := 2; sk_body :=
 [(SDecl "newNode" false None);
 (SAssign (XVar "newNode") (XCall "calloc" [(XInt (1)%Z); (XOp "sizeof" [])]));
 (SIf (XOp "!" [(XVar "newNode")]) [(SExpr (XCall "snoopy_error_handler" [(XStr "Unable to allocate memory for a new doubly linked list node")]));
 (SReturn (Some (XOp "-" [(XInt (1)%Z)])))] []);
 (SAssign (XMember (XVar "newNode") "value") (XParam 1));
 (SIf (XOp "==" [(XMember (XParam 0) "last"); (XCast (XInt (0)%Z))]) [(SAssign (XMember (XParam 0) "first") (XVar "newNode"));
 (SAssign (XMember (XParam 0) "last") (XVar "newNode"));
 (SAssign (XMember (XVar "newNode") "prev") (XCast (XInt (0)%Z)));
 (SAssign (XMember (XVar "newNode") "next") (XCast (XInt (0)%Z)))] [(SAssign (XMember (XMember (XParam 0) "last") "next") (XVar "newNode"));
 (SAssign (XMember (XVar "newNode") "prev") (XMember (XParam 0) "last"));
 (SAssign (XMember (XVar "newNode") "next") (XCast (XInt (0)%Z)));
 (SAssign (XMember (XParam 0) "last") (XVar "newNode"))]);
 (SExpr (XOp "++" [(XMember (XParam 0) "count")]));
 (SReturn (Some (XInt (1)%Z)))] |}.

Definition rf_51 : fn_skel := {| sk_name := "snoopy_tsrm_ctor"; sk_nparams := 0; sk_body :=
 [(SDecl "curTid" false None);
 (SDecl "tData" false None);
 (SExpr (XCall "pthread_once" [(XAddr (XVar "snoopy_tsrm_init_onceControl")); (XAddr (XFun "snoopy_tsrm_init"))]));
 (SAssign (XVar "curTid") (XCall "snoopy_tsrm_getCurrentThreadId" []));
 (SExpr (XCall "pthread_mutex_lock" [(XAddr (XVar "snoopy_tsrm_threadRepo_mutex"))]));
 (SIf (XOp "==" [(XInt (0)%Z); (XCall "snoopy_tsrm_doesThreadRepoEntryExist" [(XVar "curTid"); (XInt (1)%Z)])]) [(SAssign (XVar "tData") (XCall "snoopy_tsrm_createNewThreadData" [(XVar "curTid")]));
 (SExpr (XCall "snoopy_util_list_push" [(XVar "snoopy_tsrm_threadRepo"); (XVar "tData")]))] []);
 (SExpr (XCall "pthread_mutex_unlock" [(XAddr (XVar "snoopy_tsrm_threadRepo_mutex"))]))] |}.

Definition rf_52 : fn_skel := {| sk_name := "snoopy_init"; sk_nparams := 0; sk_body :=
 [(SExpr (XCall "snoopy_tsrm_ctor" []));
 (SExpr (XCall "snoopy_configuration_ctor" []));
 (SExpr (XCall "snoopy_inputdatastorage_ctor" []))] |}.

Definition rf_56 : fn_skel := {| sk_name := "snoopy_entrypoint_execve_wrapper_init"; sk_nparams := 3; sk_body :=
 [(SExpr (XCall "snoopy_init" []));
 (SExpr (XCall "snoopy_inputdatastorage_store_filename" [(XParam 0)]));
 (SExpr (XCall "snoopy_inputdatastorage_store_argv" [(XParam 1)]));
 (SExpr (XCall "snoopy_inputdatastorage_store_envp" [(XParam 2)]))] |}.

Definition rf_57 : fn_skel := {| sk_name := "execv"; sk_nparams := 2; sk_body :=
 [(SDecl "func" false None);
 (SAssign (XVar "func") (XCast (XCall "dlsym" [(XCast (XOp "-" [(XInt (1)%Z)])); (XStr "execv")])));
 (SDecl "envp" false (Some (XOp "initlist" [(XCast (XInt (0)%Z))])));
 (SExpr (XCall "snoopy_entrypoint_execve_wrapper_init" [(XParam 0); (XParam 1); (XVar "envp")]));
 (SExpr (XCall "snoopy_action_log_syscall_exec" []));
 (SExpr (XCall "snoopy_entrypoint_execve_wrapper_exit" []));
 (SReturn (Some (XCallPtr (XVar "func") [(XParam 0); (XParam 1)])))] |}.

Definition rf_58 : fn_skel := {| sk_name := "execve"; sk_nparams := 3; sk_body :=
 [(SDecl "func" false None);
 (SAssign (XVar "func") (XCast (XCall "dlsym" [(XCast (XOp "-" [(XInt (1)%Z)])); (XStr "execve")])));
 (SExpr (XCall "snoopy_entrypoint_execve_wrapper_init" [(XParam 0); (XParam 1); (XParam 2)]));
 (SExpr (XCall "snoopy_action_log_syscall_exec" []));
 (SExpr (XCall "snoopy_entrypoint_execve_wrapper_exit" []));
 (SReturn (Some (XCallPtr (XVar "func") [(XParam 0); (XParam 1); (XParam 2)])))] |}.

Definition rf_60 : fn_skel := {| sk_name := "find_ancestor_in_list"; sk_nparams := 1; sk_body :=
 [(SDecl "ppid" false None);
 (SDecl "stat_path" false None);
 (SDecl "statf" false None);
 (SDecl "rc" false None);
 (SDecl "found" false None);
 (SDecl "left" false None);
 (SDecl "right" false None);
 (SDecl "len" false None);
 (SDecl "st_buf" false None);
 (SDecl "st_comm_buf" false None);
 (SDecl "st_state" false None);
 (SIf (XOp "==" [(XParam 0); (XCast (XInt (0)%Z))]) [(SReturn (Some (XOp "-" [(XInt (1)%Z)])))] []);
 (SAssign (XVar "ppid") (XCall "getppid" []));
 (SLoop (XOp "!=" [(XVar "ppid"); (XInt (0)%Z)]) [(SExpr (XCall "snprintf" [(XVar "stat_path"); (XInt (32)%Z); (XStr "/proc/%d/stat"); (XVar "ppid")]));
 (SAssign (XVar "statf") (XCall "fopen" [(XVar "stat_path"); (XStr "r")]));
 (SIf (XOp "==" [(XVar "statf"); (XCast (XInt (0)%Z))]) [(SReturn (Some (XOp "-" [(XInt (1)%Z)])))] []);
 (SAssign (XVar "rc") (XCast (XCall "fread" [(XVar "st_buf"); (XInt (1)%Z); (XOp "-" [(XOp "+" [(XInt (46)%Z); (XInt (32)%Z)]); (XInt (1)%Z)]); (XVar "statf")])));
 (SAssign (XIndex (XVar "st_buf") (XVar "rc")) (XInt (0)%Z));
 (SExpr (XCall "fclose" [(XVar "statf")]));
 (SIf (XOp "<" [(XVar "rc"); (XInt (8)%Z)]) [(SReturn (Some (XOp "-" [(XInt (1)%Z)])))] []);
 (SAssign (XVar "left") (XCall "strchr" [(XVar "st_buf"); (XInt (40)%Z)]));
 (SAssign (XVar "right") (XCall "strrchr" [(XVar "st_buf"); (XInt (41)%Z)]));
 (SIf (XOp "||" [(XOp "==" [(XVar "left"); (XCast (XInt (0)%Z))]); (XOp "==" [(XVar "right"); (XCast (XInt (0)%Z))])]) [(SReturn (Some (XOp "-" [(XInt (1)%Z)])))] []);
 (SAssign (XVar "len") (XOp "-" [(XOp "-" [(XVar "right"); (XVar "left")]); (XInt (1)%Z)]));
 (SIf (XOp "||" [(XOp "<" [(XVar "right"); (XVar "left")]); (XOp ">=" [(XVar "len"); (XInt (32)%Z)])]) [(SReturn (Some (XOp "-" [(XInt (1)%Z)])))] []);
 (SExpr (XCall "memcpy" [(XVar "st_comm_buf"); (XOp "+" [(XVar "left"); (XInt (1)%Z)]); (XVar "len")]));
 (SAssign (XIndex (XVar "st_comm_buf") (XVar "len")) (XInt (0)%Z));
 (SAssign (XVar "rc") (XCall "sscanf" [(XOp "+" [(XVar "right"); (XInt (1)%Z)]); (XStr " %c %d"); (XAddr (XVar "st_state")); (XAddr (XVar "ppid"))]));
 (SIf (XOp "!=" [(XVar "rc"); (XInt (2)%Z)]) [(SReturn (Some (XOp "-" [(XInt (1)%Z)])))] []);
 (SAssign (XVar "found") (XCall "find_string_in_array" [(XVar "st_comm_buf"); (XParam 0)]));
 (SIf (XVar "found") [(SReturn (Some (XInt (1)%Z)))] [])]);
 (SReturn (Some (XInt (0)%Z)))] |}.

Definition rf_61 : fn_skel := {| sk_name := "read_proc_property"; sk_nparams := 2; sk_body :=
 [(SDecl "pid_file" false None);
 (SDecl "fp" false None);
 (SDecl "line" false (Some (XCast (XInt (0)%Z))));
 (SDecl "lineLen" false (Some (XInt (0)%Z)));
 (SDecl "k" false None);
 (SDecl "v" false None);
 (SDecl "vLen" false (Some (XInt (0)%Z)));
 (SDecl "returnValue" false (Some (XStr "")));
 (SExpr (XCall "snprintf" [(XVar "pid_file"); (XInt (32)%Z); (XStr "/proc/%d/status"); (XParam 0)]));
 (SAssign (XVar "fp") (XCall "fopen" [(XVar "pid_file"); (XStr "r")]));
 (SIf (XOp "==" [(XCast (XInt (0)%Z)); (XVar "fp")]) [(SReturn (Some (XCast (XInt (0)%Z))))] []);
 (SLoop (XOp "!=" [(XCall "getline" [(XAddr (XVar "line")); (XAddr (XVar "lineLen")); (XVar "fp")]); (XOp "-" [(XInt (1)%Z)])]) [(SIf (XOp "||" [(XOp "==" [(XInt (0)%Z); (XVar "lineLen")]); (XOp "==" [(XCast (XInt (0)%Z)); (XCall "strstr" [(XVar "line"); (XStr ":")])])]) [(SSeq [(SSeq [(SIf (XOp "!=" [(XCast (XInt (0)%Z)); (XVar "line")]) [(SExpr (XCall "free" [(XVar "line")]))] [])]);
 (SExpr (XCall "fclose" [(XVar "fp")]));
 (SReturn (Some (XCast (XInt (0)%Z))))])] []);
 (SAssign (XVar "k") (XVar "line"));
 (SAssign (XVar "v") (XCall "strchr" [(XVar "line"); (XInt (58)%Z)]));
 (SIf (XOp "==" [(XCast (XInt (0)%Z)); (XVar "v")]) [SContinue] []);
 (SAssign (XDeref (XVar "v")) (XInt (0)%Z));
 (SExpr (XOp "++" [(XVar "v")]));
 (SIf (XOp "==" [(XCall "strcmp" [(XParam 1); (XVar "k")]); (XInt (0)%Z)]) [(SExpr (XOp "++" [(XVar "v")]));
 (SAssign (XVar "vLen") (XCall "strlen" [(XVar "v")]));
 (SAssign (XIndex (XVar "v") (XOp "-" [(XVar "vLen"); (XInt (1)%Z)])) (XInt (0)%Z));
 (SExpr (XOp "--" [(XVar "vLen")]));
 (SIf (XOp ">" [(XVar "vLen"); (XInt (255)%Z)]) [(SExpr (XCall "strncpy" [(XVar "returnValue"); (XVar "v"); (XInt (255)%Z)]));
 (SAssign (XIndex (XVar "returnValue") (XOp "-" [(XOp "+" [(XInt (255)%Z); (XInt (1)%Z)]); (XInt (1)%Z)])) (XInt (0)%Z))] [(SExpr (XCall "strncpy" [(XVar "returnValue"); (XVar "v"); (XOp "-" [(XOp "+" [(XInt (255)%Z); (XInt (1)%Z)]); (XInt (1)%Z)])]))]);
 (SExpr (XCall "free" [(XVar "line")]));
 (SExpr (XCall "fclose" [(XVar "fp")]));
 (SReturn (Some (XCall "strdup" [(XVar "returnValue")])))] [])]);
 (SSeq [(SIf (XOp "!=" [(XCast (XInt (0)%Z)); (XVar "line")]) [(SExpr (XCall "free" [(XVar "line")]))] [])]);
 (SExpr (XCall "fclose" [(XVar "fp")]));
 (SReturn (Some (XCast (XInt (0)%Z))))] |}.

Definition rf_62 : fn_skel := {| sk_name := "get_parent_pid"; sk_nparams := 1; sk_body :=
 [(SDecl "ppid_str" false None);
 (SDecl "ppid_int" false None);
 (SAssign (XVar "ppid_str") (XCall "read_proc_property" [(XParam 0); (XStr "PPid")]));
 (SIf (XOp "!=" [(XCast (XInt (0)%Z)); (XVar "ppid_str")]) [(SAssign (XVar "ppid_int") (XCall "atoi" [(XVar "ppid_str")]));
 (SExpr (XCall "free" [(XVar "ppid_str")]));
 (SReturn (Some (XVar "ppid_int")))] []);
 (SReturn (Some (XOp "-" [(XInt (1)%Z)])))] |}.

Definition rf_63 : fn_skel := {| sk_name := "get_rpname"; sk_nparams := 3; sk_body :=
 [(SDecl "parentPid" false None);
 (SDecl "name" false None);
 (SDecl "nameLen" false None);
 (SAssign (XVar "parentPid") (XCall "get_parent_pid" [(XParam 0)]));
 (SIf (XOp "||" [(XOp "==" [(XInt (1)%Z); (XVar "parentPid")]); (XOp "==" [(XInt (0)%Z); (XVar "parentPid")])]) [(SAssign (XVar "name") (XCall "read_proc_property" [(XParam 0); (XStr "Name")]));
 (SIf (XOp "!=" [(XCast (XInt (0)%Z)); (XVar "name")]) [(SAssign (XVar "nameLen") (XCall "snprintf" [(XParam 1); (XParam 2); (XStr "%s"); (XVar "name")]));
 (SExpr (XCall "free" [(XVar "name")]))] [(SAssign (XVar "nameLen") (XCall "snprintf" [(XParam 1); (XParam 2); (XStr "%s"); (XStr "(unknown)")]))]);
 (SReturn (Some (XCast (XVar "nameLen"))))] [(SIf (XOp "==" [(XOp "-" [(XInt (1)%Z)]); (XVar "parentPid")]) [(SReturn (Some (XCall "snprintf" [(XParam 1); (XParam 2); (XStr "%s"); (XStr "(unknown)")])))] [(SReturn (Some (XCall "get_rpname" [(XVar "parentPid"); (XParam 1); (XParam 2)])))])])] |}.

Definition rf_65 : fn_skel := {| sk_name := "snoopy_configfile_getOptionValueAsString_datasource_message_max_length"; sk_nparams := 0; sk_body :=
 [(SDecl "CFG" false (Some (XCall "snoopy_configuration_get" [])));
 (SDecl "strBufSize" false (Some (XOp "+" [(XOp "*" [(XOp "sizeof" []); (XInt (8)%Z)]); (XInt (1)%Z)])));
 (SDecl "strBuf" false (Some (XCall "malloc" [(XVar "strBufSize")])));
 (SExpr (XCall "snprintf" [(XVar "strBuf"); (XVar "strBufSize"); (XStr "%zu"); (XMember (XVar "CFG") "datasource_message_max_length")]));
 (SReturn (Some (XVar "strBuf")))] |}.

Definition rf_66 : fn_skel := {| sk_name := "snoopy_configfile_getOptionValueAsString_error_logging"; sk_nparams := 0; sk_body :=
 [(SDecl "CFG" false (Some (XCall "snoopy_configuration_get" [])));
 (SIf (XOp "==" [(XMember (XVar "CFG") "error_logging_enabled"); (XInt (1)%Z)]) [(SReturn (Some (XCall "strdup" [(XStr "yes")])))] [(SReturn (Some (XCall "strdup" [(XStr "no")])))])] |}.

Definition rf_67 : fn_skel := {| sk_name := "snoopy_configfile_getOptionValueAsString_filter_chain"; sk_nparams := 0; sk_body :=
 [(SDecl "CFG" false (Some (XCall "snoopy_configuration_get" [])));
 (SReturn (Some (XCall "strdup" [(XMember (XVar "CFG") "filter_chain")])))] |}.

Definition rf_68 : fn_skel := {| sk_name := "snoopy_configfile_getOptionValueAsString_log_message_max_length"; sk_nparams := 0; sk_body :=
 [(SDecl "CFG" false (Some (XCall "snoopy_configuration_get" [])));
 (SDecl "strBufSize" false (Some (XOp "+" [(XOp "*" [(XOp "sizeof" []); (XInt (8)%Z)]); (XInt (1)%Z)])));
 (SDecl "strBuf" false (Some (XCall "malloc" [(XVar "strBufSize")])));
 (SExpr (XCall "snprintf" [(XVar "strBuf"); (XVar "strBufSize"); (XStr "%zu"); (XMember (XVar "CFG") "log_message_max_length")]));
 (SReturn (Some (XVar "strBuf")))] |}.

Definition rf_69 : fn_skel := {| sk_name := "snoopy_configfile_getOptionValueAsString_message_format"; sk_nparams := 0; sk_body :=
 [(SDecl "CFG" false (Some (XCall "snoopy_configuration_get" [])));
 (SReturn (Some (XCall "strdup" [(XMember (XVar "CFG") "message_format")])))] |}.

Definition rf_70 : fn_skel := {| sk_name := "snoopy_configfile_getOptionValueAsString_output"; sk_nparams := 0; sk_body :=
 [(SDecl "CFG" false (Some (XCall "snoopy_configuration_get" [])));
 (SDecl "outputString" false (Some (XCast (XInt (0)%Z))));
 (SIf (XOp "==" [(XInt (0)%Z); (XCall "strcmp" [(XStr ""); (XMember (XVar "CFG") "output_arg")])]) [(SAssign (XVar "outputString") (XCall "strdup" [(XMember (XVar "CFG") "output")]))] [(SDecl "outputStringBufSize" false (Some (XOp "+" [(XOp "+" [(XOp "+" [(XCall "strlen" [(XMember (XVar "CFG") "output")]); (XInt (1)%Z)]); (XCall "strlen" [(XMember (XVar "CFG") "output_arg")])]); (XInt (1)%Z)])));
 (SAssign (XVar "outputString") (XCall "malloc" [(XVar "outputStringBufSize")]));
 (SExpr (XCall "snprintf" [(XVar "outputString"); (XVar "outputStringBufSize"); (XStr "%s:%s"); (XMember (XVar "CFG") "output"); (XMember (XVar "CFG") "output_arg")]));
 (SAssign (XIndex (XVar "outputString") (XOp "-" [(XVar "outputStringBufSize"); (XInt (1)%Z)])) (XInt (0)%Z))]);
 (SReturn (Some (XVar "outputString")))] |}.

Definition rf_72 : fn_skel := {| sk_name := "snoopy_configfile_getOptionValueAsString_syslog_facility"; sk_nparams := 0; sk_body :=
 [(SDecl "CFG" false (Some (XCall "snoopy_configuration_get" [])));
 (SReturn (Some (XCall "strdup" [(XCall "snoopy_util_syslog_convertFacilityToStr" [(XMember (XVar "CFG") "syslog_facility")])])))] |}.

Definition rf_73 : fn_skel := {| sk_name := "snoopy_configfile_getOptionValueAsString_syslog_ident"; sk_nparams := 0; sk_body :=
 [(SDecl "CFG" false (Some (XCall "snoopy_configuration_get" [])));
 (SReturn (Some (XCall "strdup" [(XMember (XVar "CFG") "syslog_ident_format")])))] |}.

Definition rf_75 : fn_skel := {| sk_name := "snoopy_configfile_getOptionValueAsString_syslog_level"; sk_nparams := 0; sk_body :=
 [(SDecl "CFG" false (Some (XCall "snoopy_configuration_get" [])));
 (SReturn (Some (XCall "strdup" [(XCall "snoopy_util_syslog_convertLevelToStr" [(XMember (XVar "CFG") "syslog_level")])])))] |}.

Definition rf_84 : fn_skel := {| sk_name := "snoopy_configfile_parseValue_filter_chain"; sk_nparams := 2; sk_body :=
 [(SIf (XOp "==" [(XInt (1)%Z); (XMember (XParam 1) "filter_chain_malloced")]) [(SExpr (XCall "free" [(XMember (XParam 1) "filter_chain")]))] []);
 (SAssign (XMember (XParam 1) "filter_chain") (XCall "strdup" [(XParam 0)]));
 (SAssign (XMember (XParam 1) "filter_chain_malloced") (XInt (1)%Z));
 (SReturn (Some (XInt (1)%Z)))] |}.

Definition rf_86 : fn_skel := {| sk_name := "snoopy_configfile_parseValue_message_format"; sk_nparams := 2; sk_body :=
 [(SIf (XOp "==" [(XInt (1)%Z); (XMember (XParam 1) "message_format_malloced")]) [(SExpr (XCall "free" [(XMember (XParam 1) "message_format")]))] []);
 (SAssign (XMember (XParam 1) "message_format") (XCall "strdup" [(XParam 0)]));
 (SAssign (XMember (XParam 1) "message_format_malloced") (XInt (1)%Z));
 (SReturn (Some (XInt (1)%Z)))] |}.

Definition rf_88 : fn_skel := {| sk_name := "snoopy_configfile_parseValue_output"; sk_nparams := 2; sk_body :=
 [(SDecl "confVal" false None);
 (SDecl "colonPtr" false None);
 (SDecl "outputName" false None);
 (SDecl "outputArg" false None);
 (SDecl "outputArgFound" false (Some (XInt (0)%Z)));
 (SAssign (XVar "confVal") (XCall "strdup" [(XParam 0)]));
 (SIf (XOp "==" [(XInt (1)%Z); (XMember (XParam 1) "output_malloced")]) [(SExpr (XCall "free" [(XMember (XParam 1) "output")]));
 (SAssign (XMember (XParam 1) "output_malloced") (XInt (0)%Z))] []);
 (SIf (XOp "==" [(XInt (1)%Z); (XMember (XParam 1) "output_arg_malloced")]) [(SExpr (XCall "free" [(XMember (XParam 1) "output_arg")]));
 (SAssign (XMember (XParam 1) "output_arg_malloced") (XInt (0)%Z))] []);
 (SAssign (XVar "colonPtr") (XCall "strchr" [(XVar "confVal"); (XInt (58)%Z)]));
 (SIf (XOp "==" [(XCast (XInt (0)%Z)); (XVar "colonPtr")]) [(SAssign (XVar "outputName") (XVar "confVal"));
 (SAssign (XMember (XParam 1) "output_arg") (XStr ""));
 (SAssign (XMember (XParam 1) "output_arg_malloced") (XInt (0)%Z));
 (SAssign (XVar "outputArg") (XStr ""))] [(SAssign (XDeref (XVar "colonPtr")) (XInt (0)%Z));
 (SAssign (XVar "outputName") (XVar "confVal"));
 (SAssign (XVar "outputArg") (XOp "+" [(XVar "colonPtr"); (XInt (1)%Z)]));
 (SAssign (XVar "outputArgFound") (XInt (1)%Z))]);
 (SIf (XOp "==" [(XInt (1)%Z); (XCall "snoopy_outputregistry_doesNameExist" [(XVar "outputName")])]) [(SAssign (XMember (XParam 1) "output") (XCall "strdup" [(XVar "outputName")]));
 (SAssign (XMember (XParam 1) "output_malloced") (XInt (1)%Z));
 (SIf (XOp "==" [(XInt (1)%Z); (XVar "outputArgFound")]) [(SAssign (XMember (XParam 1) "output_arg") (XCall "strdup" [(XVar "outputArg")]));
 (SAssign (XMember (XParam 1) "output_arg_malloced") (XInt (1)%Z))] [])] [(SAssign (XMember (XParam 1) "output") (XStr "devlog"));
 (SAssign (XMember (XParam 1) "output_malloced") (XInt (0)%Z));
 (SAssign (XMember (XParam 1) "output_arg") (XStr ""));
 (SAssign (XMember (XParam 1) "output_arg_malloced") (XInt (0)%Z))]);
 (SExpr (XCall "free" [(XVar "confVal")]));
 (SReturn (Some (XInt (1)%Z)))] |}.

Definition rf_92 : fn_skel := {| sk_name := "snoopy_configfile_parseValue_syslog_facility"; sk_nparams := 2; sk_body :=
 [(SDecl "confVal" false None);
 (SDecl "confValCleaned" false None);
 (SDecl "facilityInt" false None);
 (SAssign (XVar "confVal") (XCall "strdup" [(XParam 0)]));
 (SAssign (XVar "confValCleaned") (XCall "snoopy_configfile_syslog_value_cleanup" [(XVar "confVal")]));
 (SAssign (XVar "facilityInt") (XCall "snoopy_util_syslog_convertFacilityToInt" [(XVar "confValCleaned")]));
 (SIf (XOp "==" [(XOp "-" [(XInt (1)%Z)]); (XVar "facilityInt")]) [(SAssign (XMember (XParam 1) "syslog_facility") (XOp "<<" [(XInt (10)%Z); (XInt (3)%Z)]))] [(SAssign (XMember (XParam 1) "syslog_facility") (XVar "facilityInt"))]);
 (SExpr (XCall "free" [(XVar "confVal")]));
 (SReturn (Some (XInt (1)%Z)))] |}.

Definition rf_93 : fn_skel := {| sk_name := "snoopy_configfile_parseValue_syslog_ident"; sk_nparams := 2; sk_body :=
 [(SIf (XOp "==" [(XInt (1)%Z); (XMember (XParam 1) "syslog_ident_format_malloced")]) [(SExpr (XCall "free" [(XMember (XParam 1) "syslog_ident_format")]))] []);
 (SAssign (XMember (XParam 1) "syslog_ident_format") (XCall "strdup" [(XParam 0)]));
 (SAssign (XMember (XParam 1) "syslog_ident_format_malloced") (XInt (1)%Z));
 (SReturn (Some (XInt (1)%Z)))] |}.

Definition rf_95 : fn_skel := {| sk_name := "snoopy_configfile_parseValue_syslog_level"; sk_nparams := 2; sk_body :=
 [(SDecl "confVal" false None);
 (SDecl "confValCleaned" false None);
 (SDecl "levelInt" false None);
 (SAssign (XVar "confVal") (XCall "strdup" [(XParam 0)]));
 (SAssign (XVar "confValCleaned") (XCall "snoopy_configfile_syslog_value_cleanup" [(XVar "confVal")]));
 (SAssign (XVar "levelInt") (XCall "snoopy_util_syslog_convertLevelToInt" [(XVar "confValCleaned")]));
 (SIf (XOp "==" [(XOp "-" [(XInt (1)%Z)]); (XVar "levelInt")]) [(SAssign (XMember (XParam 1) "syslog_level") (XInt (6)%Z))] [(SAssign (XMember (XParam 1) "syslog_level") (XVar "levelInt"))]);
 (SExpr (XCall "free" [(XVar "confVal")]));
 (SReturn (Some (XInt (1)%Z)))] |}.

Definition rf_100 : fn_skel := {| sk_name := "snoopy_util_file_getSmallTextFileContent"; sk_nparams := 2; sk_body :=
 [(SDecl "fileHandle" false None);
 (SDecl "contentPtr" false None);
 (SDecl "errorMsgBuf" false None);
 (SAssign (XVar "contentPtr") (XCall "malloc" [(XInt (10240)%Z)]));
 (SIf (XOp "==" [(XVar "contentPtr"); (XCast (XInt (0)%Z))]) [(SAssign (XVar "contentPtr") (XCall "malloc" [(XInt (1024)%Z)]));
 (SExpr (XCall "snprintf" [(XVar "contentPtr"); (XInt (1024)%Z); (XStr "Unable to malloc() %d bytes"); (XInt (10240)%Z)]));
 (SAssign (XIndex (XVar "contentPtr") (XOp "-" [(XInt (1024)%Z); (XInt (1)%Z)])) (XInt (0)%Z));
 (SAssign (XDeref (XParam 1)) (XVar "contentPtr"));
 (SReturn (Some (XOp "-" [(XInt (1)%Z)])))] []);
 (SAssign (XIndex (XVar "contentPtr") (XInt (0)%Z)) (XInt (0)%Z));
 (SAssign (XVar "fileHandle") (XCall "fopen" [(XParam 0); (XStr "r")]));
 (SIf (XOp "==" [(XVar "fileHandle"); (XCast (XInt (0)%Z))]) [(SExpr (XCall "free" [(XVar "contentPtr")]));
 (SAssign (XVar "contentPtr") (XCall "malloc" [(XInt (1024)%Z)]));
 (SAssign (XVar "errorMsgBuf") (XCall "malloc" [(XInt (1024)%Z)]));
 (SAssign (XIndex (XVar "errorMsgBuf") (XInt (0)%Z)) (XInt (0)%Z));
 (SExpr (XCall "strerror_r" [(XDeref (XCall "__errno_location" [])); (XVar "errorMsgBuf"); (XInt (1024)%Z)]));
 (SAssign (XIndex (XVar "errorMsgBuf") (XOp "-" [(XInt (1024)%Z); (XInt (1)%Z)])) (XInt (0)%Z));
 (SExpr (XCall "snprintf" [(XVar "contentPtr"); (XInt (1024)%Z); (XStr "Unable to open file %s for reading, reason: %s"); (XParam 0); (XVar "errorMsgBuf")]));
 (SAssign (XIndex (XVar "contentPtr") (XOp "-" [(XInt (1024)%Z); (XInt (1)%Z)])) (XInt (0)%Z));
 (SAssign (XDeref (XParam 1)) (XVar "contentPtr"));
 (SExpr (XCall "free" [(XVar "errorMsgBuf")]));
 (SReturn (Some (XOp "-" [(XInt (1)%Z)])))] []);
 (SDecl "bytesReadTotal" false (Some (XInt (0)%Z)));
 (SLoop (XOp "<" [(XVar "bytesReadTotal"); (XInt (10240)%Z)]) [(SDecl "bytesReadNow" false None);
 (SAssign (XVar "bytesReadNow") (XCall "fread" [(XOp "+" [(XVar "contentPtr"); (XVar "bytesReadTotal")]); (XInt (1)%Z); (XInt (1024)%Z); (XVar "fileHandle")]));
 (SExpr (XOp "+=" [(XVar "bytesReadTotal"); (XVar "bytesReadNow")]));
 (SIf (XCall "ferror" [(XVar "fileHandle")]) [(SExpr (XCall "free" [(XVar "contentPtr")]));
 (SAssign (XVar "contentPtr") (XCall "malloc" [(XInt (1024)%Z)]));
 (SAssign (XVar "errorMsgBuf") (XCall "malloc" [(XInt (1024)%Z)]));
 (SAssign (XIndex (XVar "errorMsgBuf") (XInt (0)%Z)) (XInt (0)%Z));
 (SExpr (XCall "strerror_r" [(XDeref (XCall "__errno_location" [])); (XVar "errorMsgBuf"); (XInt (1024)%Z)]));
 (SAssign (XIndex (XVar "errorMsgBuf") (XOp "-" [(XInt (1024)%Z); (XInt (1)%Z)])) (XInt (0)%Z));
 (SExpr (XCall "snprintf" [(XVar "contentPtr"); (XInt (1024)%Z); (XStr "Error reading file: %s"); (XVar "errorMsgBuf")]));
 (SAssign (XIndex (XVar "contentPtr") (XOp "-" [(XInt (1024)%Z); (XInt (1)%Z)])) (XInt (0)%Z));
 (SAssign (XDeref (XParam 1)) (XVar "contentPtr"));
 (SExpr (XCall "clearerr" [(XVar "fileHandle")]));
 (SExpr (XCall "fclose" [(XVar "fileHandle")]));
 (SExpr (XCall "free" [(XVar "errorMsgBuf")]));
 (SReturn (Some (XOp "-" [(XInt (1)%Z)])))] []);
 (SIf (XOp "||" [(XCall "feof" [(XVar "fileHandle")]); (XOp "<" [(XVar "bytesReadNow"); (XInt (1024)%Z)])]) [SBreak] [])]);
 (SIf (XOp ">=" [(XVar "bytesReadTotal"); (XInt (10240)%Z)]) [(SExpr (XCall "free" [(XVar "contentPtr")]));
 (SAssign (XVar "contentPtr") (XCall "malloc" [(XInt (1024)%Z)]));
 (SExpr (XCall "snprintf" [(XVar "contentPtr"); (XInt (1024)%Z); (XStr "INTERNAL ERROR: File too large for getSmallTextFileContent()")]));
 (SAssign (XIndex (XVar "contentPtr") (XOp "-" [(XInt (1024)%Z); (XInt (1)%Z)])) (XInt (0)%Z));
 (SAssign (XDeref (XParam 1)) (XVar "contentPtr"));
 (SExpr (XCall "fclose" [(XVar "fileHandle")]));
 (SReturn (Some (XOp "-" [(XInt (1)%Z)])))] []);
 (SIf (XOp "<" [(XVar "bytesReadTotal"); (XOp "-" [(XInt (10240)%Z); (XInt (1)%Z)])]) [(SAssign (XIndex (XVar "contentPtr") (XVar "bytesReadTotal")) (XInt (0)%Z))] [(SAssign (XIndex (XVar "contentPtr") (XOp "-" [(XInt (10240)%Z); (XInt (1)%Z)])) (XInt (0)%Z))]);
 (SExpr (XCall "fclose" [(XVar "fileHandle")]));
 (SAssign (XDeref (XParam 1)) (XVar "contentPtr"));
 (SReturn (Some (XCast (XVar "bytesReadTotal"))))] |}.

Definition rf_104 : fn_skel := {| sk_name := "snoopy_datasource_cgroup"; sk_nparams := 3; sk_body :=
 [(SDecl "myPid" false None);
 (SDecl "procPidCgroupFilePath" false None);
 (SDecl "procPidCgroupContent" false (Some (XCast (XInt (0)%Z))));
 (SDecl "cgroupEntry" false (Some (XCast (XInt (0)%Z))));
 (SDecl "retMsgLen" false None);
 (SIf (XOp "==" [(XInt (0)%Z); (XCall "strcmp" [(XParam 2); (XStr "")])]) [(SExpr (XCall "snprintf" [(XParam 0); (XParam 1); (XStr "Missing cgroup selection argument")]));
 (SReturn (Some (XOp "-" [(XInt (1)%Z)])))] []);
 (SAssign (XVar "myPid") (XCall "getpid" []));
 (SExpr (XCall "snprintf" [(XVar "procPidCgroupFilePath"); (XInt (32)%Z); (XStr "/proc/%d/cgroup"); (XVar "myPid")]));
 (SIf (XOp "<" [(XCall "snoopy_util_file_getSmallTextFileContent" [(XVar "procPidCgroupFilePath"); (XAddr (XVar "procPidCgroupContent"))]); (XInt (0)%Z)]) [(SExpr (XCall "snprintf" [(XParam 0); (XParam 1); (XStr "Unable to read file %s, reason: %s"); (XVar "procPidCgroupFilePath"); (XVar "procPidCgroupContent")]));
 (SExpr (XCall "free" [(XVar "procPidCgroupContent")]));
 (SReturn (Some (XOp "-" [(XInt (1)%Z)])))] []);
 (SIf (XOp "==" [(XInt (1)%Z); (XCall "snoopy_util_string_containsOnlyDigits" [(XParam 2)])]) [(SDecl "searchStringLen" false None);
 (SDecl "searchString" false (Some (XCast (XInt (0)%Z))));
 (SAssign (XVar "searchStringLen") (XOp "+" [(XCall "strlen" [(XParam 2)]); (XInt (2)%Z)]));
 (SAssign (XVar "searchString") (XCall "malloc" [(XVar "searchStringLen")]));
 (SExpr (XCall "snprintf" [(XVar "searchString"); (XVar "searchStringLen"); (XStr "%s:"); (XParam 2)]));
 (SAssign (XVar "cgroupEntry") (XCall "snoopy_util_string_findLineStartingWith" [(XVar "procPidCgroupContent"); (XVar "searchString")]));
 (SExpr (XCall "free" [(XVar "searchString")]));
 (SIf (XVar "cgroupEntry") [(SExpr (XCall "snoopy_util_string_nullTerminateLine" [(XVar "cgroupEntry")]))] [])] [(SDecl "nextEntry" false (Some (XCast (XInt (0)%Z))));
 (SAssign (XVar "cgroupEntry") (XCall "strtok_r" [(XVar "procPidCgroupContent"); (XStr "<literal with non-printable bytes #1d02614298>"); (XAddr (XVar "nextEntry"))]));
 (SLoop (XVar "cgroupEntry") [(SIf (XOp "==" [(XInt (1)%Z); (XCall "doesCgroupEntryContainController" [(XVar "cgroupEntry"); (XParam 2)])]) [SBreak] []);
 (SAssign (XVar "cgroupEntry") (XCall "strtok_r" [(XCast (XInt (0)%Z)); (XStr "<literal with non-printable bytes #1d02614298>"); (XAddr (XVar "nextEntry"))]))])]);
 (SIf (XOp "==" [(XCast (XInt (0)%Z)); (XVar "cgroupEntry")]) [(SExpr (XCall "free" [(XVar "procPidCgroupContent")]));
 (SReturn (Some (XCall "snprintf" [(XParam 0); (XParam 1); (XStr "%s"); (XStr "(none)")])))] []);
 (SAssign (XVar "retMsgLen") (XCall "snprintf" [(XParam 0); (XParam 1); (XStr "%s"); (XVar "cgroupEntry")]));
 (SExpr (XCall "free" [(XVar "procPidCgroupContent")]));
 (SReturn (Some (XVar "retMsgLen")))] |}.

Definition rf_110 : fn_skel := {| sk_name := "snoopy_datasource_domain"; sk_nparams := 3; sk_body :=
 [(SDecl "fp" false None);
 (SDecl "hostname" false None);
 (SDecl "line" false None);
 (SDecl "retVal" false None);
 (SDecl "hostnameLen" false None);
 (SAssign (XVar "retVal") (XCall "gethostname" [(XVar "hostname"); (XOp "+" [(XInt (64)%Z); (XInt (2)%Z)])]));
 (SIf (XOp "!=" [(XInt (0)%Z); (XVar "retVal")]) [(SReturn (Some (XCall "snprintf" [(XParam 0); (XParam 1); (XStr "(error @ gethostname(): %d)"); (XDeref (XCall "__errno_location" []))])))] []);
 (SAssign (XIndex (XVar "hostname") (XOp "-" [(XOp "+" [(XInt (64)%Z); (XInt (2)%Z)]); (XInt (1)%Z)])) (XInt (0)%Z));
 (SAssign (XVar "hostnameLen") (XCast (XCall "strlen" [(XVar "hostname")])));
 (SIf (XOp "==" [(XInt (0)%Z); (XVar "hostnameLen")]) [(SExpr (XCall "snprintf" [(XParam 0); (XParam 1); (XStr "Got empty hostname")]));
 (SReturn (Some (XOp "-" [(XInt (1)%Z)])))] []);
 (SIf (XOp ">" [(XVar "hostnameLen"); (XOp "-" [(XOp "+" [(XInt (64)%Z); (XInt (2)%Z)]); (XInt (2)%Z)])]) [(SExpr (XCall "snprintf" [(XParam 0); (XParam 1); (XStr "INTERNAL ERROR: Got too long hostname, length: %d"); (XVar "hostnameLen")]));
 (SReturn (Some (XOp "-" [(XInt (1)%Z)])))] []);
 (SAssign (XIndex (XVar "hostname") (XVar "hostnameLen")) (XInt (46)%Z));
 (SAssign (XIndex (XVar "hostname") (XOp "+" [(XVar "hostnameLen"); (XInt (1)%Z)])) (XInt (0)%Z));
 (SAssign (XVar "fp") (XCall "fopen" [(XStr "/etc/hosts"); (XStr "r")]));
 (SIf (XOp "==" [(XCast (XInt (0)%Z)); (XVar "fp")]) [(SExpr (XCall "snprintf" [(XParam 0); (XParam 1); (XStr "Unable to open file for reading: %s"); (XStr "/etc/hosts")]));
 (SReturn (Some (XOp "-" [(XInt (1)%Z)])))] []);
 (SDecl "linePtr" false None);
 (SDecl "hashPtr" false None);
 (SDecl "lineEntryPtr" false None);
 (SDecl "savePtr" false None);
 (SDecl "domainPtr" false (Some (XCast (XInt (0)%Z))));
 (SLoop (XOp "!=" [(XCast (XInt (0)%Z)); (XOp "=" [(XVar "linePtr"); (XCall "fgets" [(XVar "line"); (XOp "sizeof" []); (XVar "fp")])])]) [(SAssign (XVar "hashPtr") (XCall "strchr" [(XVar "linePtr"); (XInt (35)%Z)]));
 (SIf (XOp "!=" [(XCast (XInt (0)%Z)); (XVar "hashPtr")]) [(SAssign (XDeref (XVar "hashPtr")) (XInt (0)%Z))] []);
 (SAssign (XVar "lineEntryPtr") (XCall "strcasestr" [(XVar "linePtr"); (XVar "hostname")]));
 (SIf (XOp "!=" [(XCast (XInt (0)%Z)); (XVar "lineEntryPtr")]) [(SExpr (XCall "strtok_r" [(XVar "lineEntryPtr"); (XStr "<literal with non-printable bytes #31c8958dea>"); (XAddr (XVar "savePtr"))]));
 (SAssign (XVar "domainPtr") (XOp "+" [(XVar "lineEntryPtr"); (XCall "strlen" [(XVar "hostname")])]));
 SBreak] [])]);
 (SExpr (XCall "fclose" [(XVar "fp")]));
 (SIf (XOp "!=" [(XCast (XInt (0)%Z)); (XVar "domainPtr")]) [(SReturn (Some (XCall "snprintf" [(XParam 0); (XParam 1); (XStr "%s"); (XVar "domainPtr")])))] [(SReturn (Some (XCall "snprintf" [(XParam 0); (XParam 1); (XStr "(none)")])))])] |}.

Definition rf_112 : fn_skel := {| sk_name := "snoopy_datasource_egroup"; sk_nparams := 3; sk_body :=
 [(SDecl "gr" false None);
 (SDecl "gr_gid" false (Some (XCast (XInt (0)%Z))));
 (SDecl "buffgr_gid" false (Some (XCast (XInt (0)%Z))));
 (SDecl "buffgrsize_gid" false (Some (XInt (0)%Z)));
 (SDecl "messageLength" false (Some (XInt (0)%Z)));
 (SAssign (XVar "buffgrsize_gid") (XCall "sysconf" [(XVar "_SC_GETGR_R_SIZE_MAX")]));
 (SIf (XOp "==" [(XOp "-" [(XInt (1)%Z)]); (XVar "buffgrsize_gid")]) [(SAssign (XVar "buffgrsize_gid") (XInt (16384)%Z))] []);
 (SAssign (XVar "buffgr_gid") (XCall "malloc" [(XVar "buffgrsize_gid")]));
 (SIf (XOp "==" [(XCast (XInt (0)%Z)); (XVar "buffgr_gid")]) [(SReturn (Some (XCall "snprintf" [(XParam 0); (XParam 1); (XStr "ERROR(malloc)")])))] []);
 (SIf (XOp "!=" [(XInt (0)%Z); (XCall "getgrgid_r" [(XCall "getegid" []); (XAddr (XVar "gr")); (XVar "buffgr_gid"); (XVar "buffgrsize_gid"); (XAddr (XVar "gr_gid"))])]) [(SAssign (XVar "messageLength") (XCall "snprintf" [(XParam 0); (XParam 1); (XStr "ERROR(getgrgid_r)")]))] [(SIf (XOp "==" [(XCast (XInt (0)%Z)); (XVar "gr_gid")]) [(SAssign (XVar "messageLength") (XCall "snprintf" [(XParam 0); (XParam 1); (XStr "(undefined)")]))] [(SAssign (XVar "messageLength") (XCall "snprintf" [(XParam 0); (XParam 1); (XStr "%s"); (XMember (XVar "gr_gid") "gr_name")]))])]);
 (SExpr (XCall "free" [(XVar "buffgr_gid")]));
 (SReturn (Some (XVar "messageLength")))] |}.

Definition rf_116 : fn_skel := {| sk_name := "snoopy_datasource_eusername"; sk_nparams := 3; sk_body :=
 [(SDecl "pwd" false None);
 (SDecl "pwd_uid" false (Some (XCast (XInt (0)%Z))));
 (SDecl "buffpwd_uid" false (Some (XCast (XInt (0)%Z))));
 (SDecl "buffpwdsize_uid" false (Some (XInt (0)%Z)));
 (SDecl "messageLength" false (Some (XInt (0)%Z)));
 (SAssign (XVar "buffpwdsize_uid") (XCall "sysconf" [(XVar "_SC_GETPW_R_SIZE_MAX")]));
 (SIf (XOp "==" [(XOp "-" [(XInt (1)%Z)]); (XVar "buffpwdsize_uid")]) [(SAssign (XVar "buffpwdsize_uid") (XInt (16384)%Z))] []);
 (SAssign (XVar "buffpwd_uid") (XCall "malloc" [(XVar "buffpwdsize_uid")]));
 (SIf (XOp "==" [(XCast (XInt (0)%Z)); (XVar "buffpwd_uid")]) [(SReturn (Some (XCall "snprintf" [(XParam 0); (XParam 1); (XStr "ERROR(malloc)")])))] []);
 (SIf (XOp "!=" [(XInt (0)%Z); (XCall "getpwuid_r" [(XCall "geteuid" []); (XAddr (XVar "pwd")); (XVar "buffpwd_uid"); (XVar "buffpwdsize_uid"); (XAddr (XVar "pwd_uid"))])]) [(SAssign (XVar "messageLength") (XCall "snprintf" [(XParam 0); (XParam 1); (XStr "ERROR(getpwuid_r)")]))] [(SIf (XOp "==" [(XCast (XInt (0)%Z)); (XVar "pwd_uid")]) [(SAssign (XVar "messageLength") (XCall "snprintf" [(XParam 0); (XParam 1); (XStr "(undefined)")]))] [(SAssign (XVar "messageLength") (XCall "snprintf" [(XParam 0); (XParam 1); (XStr "%s"); (XMember (XVar "pwd_uid") "pw_name")]))])]);
 (SExpr (XCall "free" [(XVar "buffpwd_uid")]));
 (SReturn (Some (XVar "messageLength")))] |}.

Definition rf_120 : fn_skel := {| sk_name := "snoopy_datasource_group"; sk_nparams := 3; sk_body :=
 [(SDecl "gr" false None);
 (SDecl "gr_gid" false (Some (XCast (XInt (0)%Z))));
 (SDecl "buffgr_gid" false (Some (XCast (XInt (0)%Z))));
 (SDecl "buffgrsize_gid" false (Some (XInt (0)%Z)));
 (SDecl "messageLength" false (Some (XInt (0)%Z)));
 (SAssign (XVar "buffgrsize_gid") (XCall "sysconf" [(XVar "_SC_GETGR_R_SIZE_MAX")]));
 (SIf (XOp "==" [(XOp "-" [(XInt (1)%Z)]); (XVar "buffgrsize_gid")]) [(SAssign (XVar "buffgrsize_gid") (XInt (16384)%Z))] []);
 (SAssign (XVar "buffgr_gid") (XCall "malloc" [(XVar "buffgrsize_gid")]));
 (SIf (XOp "==" [(XCast (XInt (0)%Z)); (XVar "buffgr_gid")]) [(SReturn (Some (XCall "snprintf" [(XParam 0); (XParam 1); (XStr "ERROR(malloc)")])))] []);
 (SIf (XOp "!=" [(XInt (0)%Z); (XCall "getgrgid_r" [(XCall "getgid" []); (XAddr (XVar "gr")); (XVar "buffgr_gid"); (XVar "buffgrsize_gid"); (XAddr (XVar "gr_gid"))])]) [(SAssign (XVar "messageLength") (XCall "snprintf" [(XParam 0); (XParam 1); (XStr "ERROR(getgrgid_r)")]))] [(SIf (XOp "==" [(XCast (XInt (0)%Z)); (XVar "gr_gid")]) [(SAssign (XVar "messageLength") (XCall "snprintf" [(XParam 0); (XParam 1); (XStr "(undefined)")]))] [(SAssign (XVar "messageLength") (XCall "snprintf" [(XParam 0); (XParam 1); (XStr "%s"); (XMember (XVar "gr_gid") "gr_name")]))])]);
 (SExpr (XCall "free" [(XVar "buffgr_gid")]));
 (SReturn (Some (XVar "messageLength")))] |}.

Definition rf_123 : fn_skel := {| sk_name := "snoopy_tsrm_getutline"; sk_nparams := 3; sk_body :=
 [(SDecl "retVal" false None);
 (SExpr (XCall "pthread_mutex_lock" [(XAddr (XVar "snoopy_tsrm_threadRepo_mutex"))]));
 (SExpr (XCall "setutent" []));
 (SAssign (XVar "retVal") (XCall "getutline_r" [(XParam 0); (XParam 1); (XParam 2)]));
 (SExpr (XCall "endutent" []));
 (SExpr (XCall "pthread_mutex_unlock" [(XAddr (XVar "snoopy_tsrm_threadRepo_mutex"))]));
 (SReturn (Some (XVar "retVal")))] |}.

Definition rf_124 : fn_skel := {| sk_name := "snoopy_util_utmp_findUtmpEntryByLine"; sk_nparams := 2; sk_body :=
 [(SDecl "searchEntry" false None);
 (SDecl "resultEntry" false None);
 (SDecl "retVal" false None);
 (SExpr (XCall "strncpy" [(XMember (XVar "searchEntry") "ut_line"); (XParam 0); (XInt (32)%Z)]));
 (SAssign (XIndex (XMember (XVar "searchEntry") "ut_line") (XOp "-" [(XInt (32)%Z); (XInt (1)%Z)])) (XInt (0)%Z));
 (SAssign (XVar "retVal") (XCall "snoopy_tsrm_getutline" [(XAddr (XVar "searchEntry")); (XParam 1); (XAddr (XVar "resultEntry"))]));
 (SIf (XOp "!=" [(XVar "retVal"); (XInt (0)%Z)]) [(SReturn (Some (XInt (0)%Z)))] []);
 (SReturn (Some (XInt (1)%Z)))] |}.

Definition rf_125 : fn_skel := {| sk_name := "snoopy_util_utmp_findUtmpEntryByPath"; sk_nparams := 2; sk_body :=
 [(SDecl "ttyLine" false None);
 (SIf (XOp "!=" [(XInt (0)%Z); (XCall "strncmp" [(XParam 0); (XStr "/dev/"); (XCall "strlen" [(XStr "/dev/")])])]) [(SReturn (Some (XInt (0)%Z)))] []);
 (SAssign (XVar "ttyLine") (XOp "+" [(XParam 0); (XCall "strlen" [(XStr "/dev/")])]));
 (SReturn (Some (XCall "snoopy_util_utmp_findUtmpEntryByLine" [(XVar "ttyLine"); (XParam 1)])))] |}.

Definition rf_127 : fn_skel := {| sk_name := "snoopy_datasource_ipaddr"; sk_nparams := 3; sk_body :=
 [(SDecl "ttyPathBuf" false None);
 (SDecl "utmpEntryBuf" false None);
 (SDecl "utmpEntry" false (Some (XAddr (XVar "utmpEntryBuf"))));
 (SDecl "retVal" false None);
 (SAssign (XIndex (XVar "ttyPathBuf") (XInt (0)%Z)) (XInt (0)%Z));
 (SAssign (XVar "retVal") (XCall "ttyname_r" [(XInt (0)%Z); (XVar "ttyPathBuf"); (XOp "+" [(XInt (32)%Z); (XInt (5)%Z)])]));
 (SIf (XOp "!=" [(XInt (0)%Z); (XVar "retVal")]) [(SReturn (Some (XCall "snprintf" [(XParam 0); (XParam 1); (XStr "-")])))] []);
 (SAssign (XIndex (XVar "ttyPathBuf") (XOp "-" [(XOp "+" [(XInt (32)%Z); (XInt (5)%Z)]); (XInt (1)%Z)])) (XInt (0)%Z));
 (SIf (XOp "!=" [(XInt (1)%Z); (XCall "snoopy_util_utmp_findUtmpEntryByPath" [(XVar "ttyPathBuf"); (XVar "utmpEntry")])]) [(SReturn (Some (XCall "snprintf" [(XParam 0); (XParam 1); (XStr "-")])))] []);
 (SIf (XOp "!=" [(XInt (1)%Z); (XCall "snoopy_util_utmp_doesEntryContainIpAddr" [(XVar "utmpEntry")])]) [(SReturn (Some (XCall "snprintf" [(XParam 0); (XParam 1); (XStr "-")])))] []);
 (SExpr (XCall "snoopy_util_utmp_getUtmpIpAddrAsString" [(XVar "utmpEntry"); (XParam 0); (XParam 1)]));
 (SReturn (Some (XCast (XCall "strlen" [(XParam 0)]))))] |}.

Definition rf_132 : fn_skel := {| sk_name := "snoopy_datasource_rpname"; sk_nparams := 3; sk_body :=
 [(SReturn (Some (XCall "get_rpname" [(XCall "getpid" []); (XParam 0); (XParam 1)])))] |}.

Definition rf_139 : fn_skel := {| sk_name := "snoopy_util_pwd_convertUidToUsername"; sk_nparams := 1; sk_body :=
 [(SDecl "pwd" false None);
 (SDecl "pwd_uid" false (Some (XCast (XInt (0)%Z))));
 (SDecl "buffpwd_uid" false (Some (XCast (XInt (0)%Z))));
 (SDecl "buffpwdsize_uid" false (Some (XInt (0)%Z)));
 (SDecl "username" false (Some (XCast (XInt (0)%Z))));
 (SAssign (XVar "buffpwdsize_uid") (XCall "sysconf" [(XVar "_SC_GETPW_R_SIZE_MAX")]));
 (SIf (XOp "==" [(XOp "-" [(XInt (1)%Z)]); (XVar "buffpwdsize_uid")]) [(SAssign (XVar "buffpwdsize_uid") (XInt (16384)%Z))] []);
 (SAssign (XVar "buffpwd_uid") (XCall "malloc" [(XVar "buffpwdsize_uid")]));
 (SIf (XOp "==" [(XCast (XInt (0)%Z)); (XVar "buffpwd_uid")]) [(SReturn (Some (XCast (XInt (0)%Z))))] []);
 (SAssign (XVar "username") (XCall "malloc" [(XOp "+" [(XInt (256)%Z); (XInt (1)%Z)])]));
 (SIf (XOp "==" [(XCast (XInt (0)%Z)); (XVar "username")]) [(SExpr (XCall "free" [(XVar "buffpwd_uid")]));
 (SReturn (Some (XCast (XInt (0)%Z))))] []);
 (SAssign (XIndex (XVar "username") (XInt (0)%Z)) (XInt (0)%Z));
 (SIf (XOp "!=" [(XInt (0)%Z); (XCall "getpwuid_r" [(XParam 0); (XAddr (XVar "pwd")); (XVar "buffpwd_uid"); (XVar "buffpwdsize_uid"); (XAddr (XVar "pwd_uid"))])]) [(SExpr (XCall "free" [(XVar "buffpwd_uid")]));
 (SExpr (XCall "free" [(XVar "username")]));
 (SReturn (Some (XCast (XInt (0)%Z))))] []);
 (SIf (XOp "==" [(XCast (XInt (0)%Z)); (XVar "pwd_uid")]) [(SExpr (XCall "snprintf" [(XVar "username"); (XInt (256)%Z); (XStr "user-%u"); (XCast (XParam 0))]))] [(SExpr (XCall "snprintf" [(XVar "username"); (XInt (256)%Z); (XStr "%s"); (XMember (XVar "pwd_uid") "pw_name")]))]);
 (SAssign (XIndex (XVar "username") (XInt (256)%Z)) (XInt (0)%Z));
 (SExpr (XCall "free" [(XVar "buffpwd_uid")]));
 (SReturn (Some (XVar "username")))] |}.

Definition rf_140 : fn_skel := {| sk_name := "snoopy_util_systemd_convertUserSliceInfoToUsername"; sk_nparams := 1; sk_body :=
 [(SDecl "matchPtr" false (Some (XParam 0)));
 (SDecl "dotPtr" false (Some (XCast (XInt (0)%Z))));
 (SDecl "uid" false None);
 (SIf (XOp "!=" [(XInt (0)%Z); (XCall "strncmp" [(XVar "matchPtr"); (XStr "user-"); (XInt (5)%Z)])]) [(SReturn (Some (XCast (XInt (0)%Z))))] []);
 (SExpr (XOp "+=" [(XVar "matchPtr"); (XInt (5)%Z)]));
 (SAssign (XVar "dotPtr") (XCall "strchr" [(XVar "matchPtr"); (XInt (46)%Z)]));
 (SIf (XOp "==" [(XVar "dotPtr"); (XCast (XInt (0)%Z))]) [(SReturn (Some (XCast (XInt (0)%Z))))] []);
 (SAssign (XDeref (XVar "dotPtr")) (XInt (0)%Z));
 (SAssign (XVar "uid") (XCall "atoi" [(XVar "matchPtr")]));
 (SReturn (Some (XCall "snoopy_util_pwd_convertUidToUsername" [(XVar "uid")])))] |}.

Definition rf_141 : fn_skel := {| sk_name := "snoopy_util_systemd_convertCgroupEntryToUnitName"; sk_nparams := 1; sk_body :=
 [(SDecl "matchPtr" false (Some (XCast (XInt (0)%Z))));
 (SDecl "dotPtr" false (Some (XCast (XInt (0)%Z))));
 (SAssign (XVar "matchPtr") (XCall "cgroupEntry_movePastInitialChaff" [(XParam 0)]));
 (SIf (XOp "!" [(XVar "matchPtr")]) [(SReturn (Some (XCast (XInt (0)%Z))))] []);
 (SIf (XOp "==" [(XDeref (XVar "matchPtr")); (XInt (0)%Z)]) [(SReturn (Some (XCall "strdup" [(XStr "-")])))] [(SIf (XOp "==" [(XInt (0)%Z); (XCall "strncmp" [(XVar "matchPtr"); (XStr "init.scope"); (XCall "strlen" [(XStr "init.scope")])])]) [(SReturn (Some (XCall "strdup" [(XStr "init")])))] [(SIf (XOp "==" [(XInt (0)%Z); (XCall "strncmp" [(XVar "matchPtr"); (XStr "system.slice/"); (XCall "strlen" [(XStr "system.slice/")])])]) [(SExpr (XOp "+=" [(XVar "matchPtr"); (XCall "strlen" [(XStr "system.slice/")])]));
 (SAssign (XVar "dotPtr") (XCall "strchr" [(XVar "matchPtr"); (XInt (46)%Z)]));
 (SIf (XOp "&&" [(XOp "!=" [(XVar "dotPtr"); (XCast (XInt (0)%Z))]); (XOp "==" [(XInt (0)%Z); (XCall "strcmp" [(XVar "dotPtr"); (XStr ".service")])])]) [(SReturn (Some (XCall "strndup" [(XVar "matchPtr"); (XOp "-" [(XVar "dotPtr"); (XVar "matchPtr")])])))] [(SReturn (Some (XCall "strdup" [(XVar "matchPtr")])))])] [(SIf (XOp "==" [(XInt (0)%Z); (XCall "strncmp" [(XVar "matchPtr"); (XStr "user.slice/"); (XCall "strlen" [(XStr "user.slice/")])])]) [(SExpr (XOp "+=" [(XVar "matchPtr"); (XCall "strlen" [(XStr "user.slice/")])]));
 (SReturn (Some (XCall "snoopy_util_systemd_convertUserSliceInfoToUsername" [(XVar "matchPtr")])))] [])])])]);
 (SReturn (Some (XCast (XInt (0)%Z))))] |}.

Definition rf_142 : fn_skel := {| sk_name := "snoopy_datasource_systemd_unit_name"; sk_nparams := 3; sk_body :=
 [(SDecl "cgroupEntry" false (Some (XCast (XInt (0)%Z))));
 (SDecl "cgroupDsRetVal" false None);
 (SDecl "unitName" false (Some (XCast (XInt (0)%Z))));
 (SDecl "retMsgLen" false None);
 (SAssign (XVar "cgroupEntry") (XCall "malloc" [(XParam 1)]));
 (SAssign (XVar "cgroupDsRetVal") (XCall "snoopy_datasource_cgroup" [(XVar "cgroupEntry"); (XParam 1); (XStr "name=systemd")]));
 (SIf (XOp "||" [(XOp "==" [(XVar "cgroupDsRetVal"); (XOp "-" [(XInt (1)%Z)])]); (XOp "==" [(XInt (0)%Z); (XCall "strcmp" [(XVar "cgroupEntry"); (XStr "(none)")])])]) [(SExpr (XCall "snprintf" [(XParam 0); (XParam 1); (XStr "Cgroup entry 'name=systemd' not found")]));
 (SExpr (XCall "free" [(XVar "cgroupEntry")]));
 (SReturn (Some (XOp "-" [(XInt (1)%Z)])))] []);
 (SAssign (XVar "unitName") (XCall "snoopy_util_systemd_convertCgroupEntryToUnitName" [(XVar "cgroupEntry")]));
 (SIf (XOp "!" [(XVar "unitName")]) [(SAssign (XVar "retMsgLen") (XCall "snprintf" [(XParam 0); (XParam 1); (XStr "%s"); (XOp "+" [(XVar "cgroupEntry"); (XCall "strlen" [(XStr "1:name=systemd:/")])])]));
 (SExpr (XCall "free" [(XVar "cgroupEntry")]));
 (SReturn (Some (XVar "retMsgLen")))] []);
 (SExpr (XCall "free" [(XVar "cgroupEntry")]));
 (SAssign (XVar "retMsgLen") (XCall "snprintf" [(XParam 0); (XParam 1); (XStr "%s"); (XVar "unitName")]));
 (SExpr (XCall "free" [(XVar "unitName")]));
 (SReturn (Some (XVar "retMsgLen")))] |}.

Definition rf_151 : fn_skel := {| sk_name := "snoopy_datasource_tty_username"; sk_nparams := 3; sk_body :=
 [(SDecl "retVal" false None);
 (SDecl "ttyUid" false None);
 (SDecl "username" false (Some (XCast (XInt (0)%Z))));
 (SDecl "retMsgLen" false (Some (XInt (0)%Z)));
 (SAssign (XVar "retVal") (XCall "snoopy_datasource_tty__get_tty_uid" [(XAddr (XVar "ttyUid")); (XParam 0); (XParam 1)]));
 (SIf (XOp ">" [(XVar "retVal"); (XInt (0)%Z)]) [(SReturn (Some (XVar "retVal")))] []);
 (SAssign (XVar "username") (XCall "snoopy_util_pwd_convertUidToUsername" [(XVar "ttyUid")]));
 (SIf (XOp "==" [(XVar "username"); (XCast (XInt (0)%Z))]) [(SReturn (Some (XCall "snprintf" [(XParam 0); (XParam 1); (XStr "Unable to convert UID to username")])))] []);
 (SAssign (XVar "retMsgLen") (XCall "snprintf" [(XParam 0); (XParam 1); (XStr "%s"); (XVar "username")]));
 (SExpr (XCall "free" [(XVar "username")]));
 (SReturn (Some (XVar "retMsgLen")))] |}.

Definition rf_153 : fn_skel := {| sk_name := "snoopy_datasource_username"; sk_nparams := 3; sk_body :=
 [(SDecl "username" false (Some (XCast (XInt (0)%Z))));
 (SDecl "retMsgLen" false (Some (XInt (0)%Z)));
 (SAssign (XVar "username") (XCall "snoopy_util_pwd_convertUidToUsername" [(XCall "getuid" [])]));
 (SIf (XOp "==" [(XVar "username"); (XCast (XInt (0)%Z))]) [(SReturn (Some (XCall "snprintf" [(XParam 0); (XParam 1); (XStr "Unable to convert UID to username")])))] []);
 (SAssign (XVar "retMsgLen") (XCall "snprintf" [(XParam 0); (XParam 1); (XStr "%s"); (XVar "username")]));
 (SExpr (XCall "free" [(XVar "username")]));
 (SReturn (Some (XVar "retMsgLen")))] |}.

Definition rf_161 : fn_skel := {| sk_name := "snoopy_entrypoint_cli_exit"; sk_nparams := 0; sk_body :=
 [(SExpr (XCall "snoopy_cleanup" []))] |}.

Definition rf_162 : fn_skel := {| sk_name := "snoopy_entrypoint_cli_init"; sk_nparams := 0; sk_body :=
 [(SExpr (XCall "snoopy_init" []));
 (SExpr (XCall "snoopy_inputdatastorage_store_filename" [(XStr "snoopy-cli")]));
 (SDecl "argv" false (Some (XOp "initlist" [(XCast (XInt (0)%Z))])));
 (SExpr (XCall "snoopy_inputdatastorage_store_argv" [(XVar "argv")]));
 (SDecl "envp" false (Some (XOp "initlist" [(XCast (XInt (0)%Z))])));
 (SExpr (XCall "snoopy_inputdatastorage_store_envp" [(XVar "envp")]))] |}.

Definition rf_163 : fn_skel := {| sk_name := "string_to_token_array"; sk_nparams := 1; sk_body :=
 [(SDecl "p" false None);
 (SDecl "sepcount" false (Some (XInt (0)%Z)));
 (SDecl "token_count" false None);
 (SDecl "token_array" false None);
 (SDecl "saveptr" false (Some (XCast (XInt (0)%Z))));
 (SIf (XOp "||" [(XOp "==" [(XParam 0); (XCast (XInt (0)%Z))]); (XOp "==" [(XDeref (XParam 0)); (XInt (0)%Z)])]) [(SReturn (Some (XCast (XInt (0)%Z))))] []);
 (SAssign (XVar "p") (XCall "strchr" [(XParam 0); (XInt (44)%Z)]));
 (SLoop (XOp "!=" [(XVar "p"); (XCast (XInt (0)%Z))]) [(SExpr (XOp "++" [(XVar "sepcount")]));
 (SAssign (XVar "p") (XCall "strchr" [(XOp "+" [(XVar "p"); (XInt (1)%Z)]); (XInt (44)%Z)]))]);
 (SAssign (XVar "token_count") (XOp "+" [(XVar "sepcount"); (XInt (1)%Z)]));
 (SAssign (XVar "token_array") (XCall "calloc" [(XOp "+" [(XVar "token_count"); (XInt (1)%Z)]); (XOp "sizeof" [])]));
 (SIf (XOp "==" [(XVar "token_array"); (XCast (XInt (0)%Z))]) [(SReturn (Some (XCast (XInt (0)%Z))))] []);
 (SDecl "delim" false (Some (XOp "initlist" [(XInt (44)%Z); (XInt (0)%Z)])));
 (SAssign (XVar "p") (XParam 0));
 (SSeq [(SDecl "i" false (Some (XInt (0)%Z))); (SLoop (XOp "<" [(XVar "i"); (XVar "token_count")]) [(SAssign (XIndex (XVar "token_array") (XVar "i")) (XCall "strtok_r" [(XVar "p"); (XVar "delim"); (XAddr (XVar "saveptr"))]));
 (SAssign (XVar "p") (XCast (XInt (0)%Z))); (SExpr (XOp "++" [(XVar "i")]))])]);
 (SAssign (XIndex (XVar "token_array") (XVar "token_count")) (XCast (XInt (0)%Z)));
 (SReturn (Some (XVar "token_array")))] |}.

Definition rf_164 : fn_skel := {| sk_name := "snoopy_filter_exclude_spawns_of"; sk_nparams := 1; sk_body :=
 [(SDecl "argDup" false None);
 (SDecl "losp" false None);
 (SDecl "is_ancestor_in_list" false (Some (XInt (0)%Z)));
 (SAssign (XVar "argDup") (XCall "strdup" [(XParam 0)]));
 (SAssign (XVar "losp") (XCall "string_to_token_array" [(XVar "argDup")]));
 (SIf (XOp "==" [(XVar "losp"); (XCast (XInt (0)%Z))]) [(SExpr (XCall "free" [(XVar "argDup")]));
 (SReturn (Some (XInt (1)%Z)))] []);
 (SAssign (XVar "is_ancestor_in_list") (XCall "find_ancestor_in_list" [(XVar "losp")]));
 (SExpr (XCall "free" [(XVar "losp")]));
 (SExpr (XCall "free" [(XVar "argDup")]));
 (SReturn (Some (XOp "?:" [(XOp "==" [(XVar "is_ancestor_in_list"); (XInt (1)%Z)]); (XInt (0)%Z); (XInt (1)%Z)])))] |}.

Definition rf_166 : fn_skel := {| sk_name := "snoopy_util_parser_csvToArgList"; sk_nparams := 2; sk_body :=
 [(SDecl "commaCount" false None);
 (SDecl "argCount" false None);
 (SDecl "argListParsedPtr" false None);
 (SDecl "argListRaw_charCount" false None);
 (SDecl "argListRaw_pos" false None);
 (SDecl "nextCommaPtr" false None);
 (SDecl "i" false None);
 (SAssign (XVar "argListRaw_charCount") (XCast (XCall "strlen" [(XParam 0)])));
 (SAssign (XVar "commaCount") (XCall "snoopy_util_string_countChars" [(XParam 0); (XInt (44)%Z)]));
 (SAssign (XVar "argCount") (XOp "+" [(XVar "commaCount"); (XInt (1)%Z)]));
 (SAssign (XVar "argListParsedPtr") (XCall "malloc" [(XOp "*" [(XOp "sizeof" []); (XOp "+" [(XVar "argCount"); (XInt (1)%Z)])])]));
 (SIf (XOp "==" [(XInt (0)%Z); (XVar "argListRaw_charCount")]) [(SAssign (XVar "argCount") (XInt (0)%Z));
 (SAssign (XVar "i") (XInt (0)%Z))] [(SAssign (XIndex (XVar "argListParsedPtr") (XInt (0)%Z)) (XParam 0));
 (SAssign (XVar "i") (XInt (1)%Z))]);
 (SIf (XOp ">" [(XVar "commaCount"); (XInt (0)%Z)]) [(SAssign (XVar "argListRaw_pos") (XParam 0));
 (SLoop (XOp "!=" [(XCast (XInt (0)%Z)); (XOp "=" [(XVar "nextCommaPtr"); (XCall "strchr" [(XVar "argListRaw_pos"); (XInt (44)%Z)])])]) [(SAssign (XDeref (XVar "nextCommaPtr")) (XInt (0)%Z));
 (SAssign (XVar "argListRaw_pos") (XOp "+" [(XVar "nextCommaPtr"); (XInt (1)%Z)]));
 (SAssign (XIndex (XVar "argListParsedPtr") (XVar "i")) (XVar "argListRaw_pos"));
 (SExpr (XOp "++" [(XVar "i")]))])] []);
 (SAssign (XIndex (XVar "argListParsedPtr") (XVar "i")) (XOp "+" [(XOp "+" [(XParam 0); (XVar "argListRaw_charCount")]); (XInt (1)%Z)]));
 (SAssign (XDeref (XParam 1)) (XVar "argListParsedPtr"));
 (SReturn (Some (XVar "argCount")))] |}.

Definition rf_167 : fn_skel := {| sk_name := "snoopy_filter_exclude_uid"; sk_nparams := 1; sk_body :=
 [(SDecl "curUid" false None);
 (SDecl "argDup" false (Some (XCast (XInt (0)%Z))));
 (SDecl "argParsed" false (Some (XCast (XInt (0)%Z))));
 (SDecl "argCount" false (Some (XInt (0)%Z)));
 (SDecl "retVal" false (Some (XOp "-" [(XInt (1)%Z)])));
 (SAssign (XVar "curUid") (XCall "getuid" []));
 (SAssign (XVar "argDup") (XCall "strdup" [(XParam 0)]));
 (SAssign (XVar "argCount") (XCall "snoopy_util_parser_csvToArgList" [(XVar "argDup"); (XAddr (XVar "argParsed"))]));
 (SSeq [(SDecl "i" false (Some (XInt (0)%Z))); (SLoop (XOp "<" [(XVar "i"); (XVar "argCount")]) [(SDecl "argCurUid" false None);
 (SAssign (XVar "argCurUid") (XCast (XCall "atol" [(XIndex (XVar "argParsed") (XVar "i"))])));
 (SIf (XOp "==" [(XVar "argCurUid"); (XVar "curUid")]) [(SAssign (XVar "retVal") (XInt (0)%Z));
 (SSeq [(SSeq [(SExpr (XCall "free" [(XVar "argDup")]))]);
 (SExpr (XCall "free" [(XVar "argParsed")]));
 (SReturn (Some (XVar "retVal")))])] []); (SExpr (XOp "++" [(XVar "i")]))])]);
 (SAssign (XVar "retVal") (XInt (1)%Z));
 (SSeq [(SSeq [(SExpr (XCall "free" [(XVar "argDup")]))]);
 (SExpr (XCall "free" [(XVar "argParsed")]));
 (SReturn (Some (XVar "retVal")))]);
 (SSeq [(SExpr (XCall "free" [(XVar "argDup")]))]);
 (SExpr (XCall "free" [(XVar "argParsed")]));
 (SReturn (Some (XVar "retVal")))] |}.

Definition rf_171 : fn_skel := {| sk_name := "snoopy_filter_only_uid"; sk_nparams := 1; sk_body :=
 [(SDecl "curUid" false None);
 (SDecl "argDup" false (Some (XCast (XInt (0)%Z))));
 (SDecl "argParsed" false (Some (XCast (XInt (0)%Z))));
 (SDecl "argCount" false (Some (XInt (0)%Z)));
 (SDecl "retVal" false (Some (XOp "-" [(XInt (1)%Z)])));
 (SAssign (XVar "curUid") (XCall "getuid" []));
 (SAssign (XVar "argDup") (XCall "strdup" [(XParam 0)]));
 (SAssign (XVar "argCount") (XCall "snoopy_util_parser_csvToArgList" [(XVar "argDup"); (XAddr (XVar "argParsed"))]));
 (SSeq [(SDecl "i" false (Some (XInt (0)%Z))); (SLoop (XOp "<" [(XVar "i"); (XVar "argCount")]) [(SDecl "argCurUid" false None);
 (SAssign (XVar "argCurUid") (XCast (XCall "atol" [(XIndex (XVar "argParsed") (XVar "i"))])));
 (SIf (XOp "==" [(XVar "argCurUid"); (XVar "curUid")]) [(SAssign (XVar "retVal") (XInt (1)%Z));
 (SSeq [(SSeq [(SExpr (XCall "free" [(XVar "argDup")]))]);
 (SExpr (XCall "free" [(XVar "argParsed")]));
 (SReturn (Some (XVar "retVal")))])] []); (SExpr (XOp "++" [(XVar "i")]))])]);
 (SAssign (XVar "retVal") (XInt (0)%Z));
 (SSeq [(SSeq [(SExpr (XCall "free" [(XVar "argDup")]))]);
 (SExpr (XCall "free" [(XVar "argParsed")]));
 (SReturn (Some (XVar "retVal")))]);
 (SSeq [(SExpr (XCall "free" [(XVar "argDup")]))]);
 (SExpr (XCall "free" [(XVar "argParsed")]));
 (SReturn (Some (XVar "retVal")))] |}.

Definition rf_177 : fn_skel := {| sk_name := "snoopy_output_socketoutput"; sk_nparams := 2; sk_body :=
 [(SDecl "s" false None);
 (SDecl "remote" false None);
 (SDecl "remoteLength" false None);
 (SIf (XOp "==" [(XInt (0)%Z); (XCall "strlen" [(XParam 0)])]) [(SReturn (Some (XInt (0)%Z)))] []);
 (SIf (XOp "==" [(XOp "=" [(XVar "s"); (XCall "socket" [(XInt (1)%Z); (XOp "|" [(XOp "|" [(XVar "SOCK_DGRAM"); (XVar "SOCK_CLOEXEC")]); (XVar "SOCK_NONBLOCK")]); (XInt (0)%Z)])]); (XOp "-" [(XInt (1)%Z)])]) [(SReturn (Some (XOp "-" [(XInt (1)%Z)])))] []);
 (SAssign (XMember (XVar "remote") "sun_family") (XInt (1)%Z));
 (SExpr (XCall "strncpy" [(XMember (XVar "remote") "sun_path"); (XParam 1); (XInt (107)%Z)]));
 (SIf (XOp ">" [(XCall "strlen" [(XParam 1)]); (XInt (107)%Z)]) [(SAssign (XIndex (XMember (XVar "remote") "sun_path") (XInt (107)%Z)) (XInt (0)%Z))] []);
 (SAssign (XVar "remoteLength") (XOp "+" [(XCast (XCall "strnlen" [(XMember (XVar "remote") "sun_path"); (XInt (107)%Z)])); (XCast (XOp "sizeof" []))]));
 (SIf (XOp "==" [(XCall "connect" [(XVar "s"); (XCast (XAddr (XVar "remote"))); (XVar "remoteLength")]); (XOp "-" [(XInt (1)%Z)])]) [(SExpr (XCall "close" [(XVar "s")]));
 (SReturn (Some (XOp "-" [(XInt (1)%Z)])))] []);
 (SIf (XOp "==" [(XCall "send" [(XVar "s"); (XParam 0); (XCall "strlen" [(XParam 0)]); (XOp "|" [(XVar "MSG_DONTWAIT"); (XVar "MSG_NOSIGNAL")])]); (XOp "-" [(XInt (1)%Z)])]) [(SExpr (XCall "close" [(XVar "s")]));
 (SReturn (Some (XOp "-" [(XInt (1)%Z)])))] []);
 (SExpr (XCall "close" [(XVar "s")]));
 (SReturn (Some (XCast (XCall "strlen" [(XParam 0)]))))] |}.

Definition rf_178 : fn_skel := {| sk_name := "snoopy_output_devlogoutput"; sk_nparams := 2; sk_body :=
 [(SIf (XOp "==" [(XInt (0)%Z); (XCall "strlen" [(XParam 0)])]) [(SReturn (Some (XInt (0)%Z)))] []);
 (SDecl "CFG" false (Some (XCall "snoopy_configuration_get" [])));
 (SDecl "syslogIdent" false (Some (XOp "initlist" [])));
 (SExpr (XCall "snoopy_message_generateFromFormat" [(XVar "syslogIdent"); (XInt (256)%Z); (XInt (256)%Z); (XMember (XVar "CFG") "syslog_ident_format")]));
 (SDecl "logMessageWithPrefixSize" false (Some (XOp "+" [(XOp "+" [(XCall "strlen" [(XParam 0)]); (XInt (256)%Z)]); (XInt (100)%Z)])));
 (SDecl "logMessageWithPrefix" false (Some (XCall "malloc" [(XVar "logMessageWithPrefixSize")])));
 (SAssign (XIndex (XVar "logMessageWithPrefix") (XInt (0)%Z)) (XInt (0)%Z));
 (SExpr (XCall "snprintf" [(XVar "logMessageWithPrefix"); (XVar "logMessageWithPrefixSize"); (XStr "<%d>%.*s[%d]: %s"); (XOp "|" [(XMember (XVar "CFG") "syslog_facility"); (XMember (XVar "CFG") "syslog_level")]); (XOp "-" [(XInt (256)%Z); (XInt (1)%Z)]); (XVar "syslogIdent"); (XCall "getpid" []); (XParam 0)]));
 (SDecl "bytesWritten" false (Some (XCall "snoopy_output_socketoutput" [(XVar "logMessageWithPrefix"); (XStr "/dev/log")])));
 (SExpr (XCall "free" [(XVar "logMessageWithPrefix")]));
 (SReturn (Some (XVar "bytesWritten")))] |}.

Definition rf_179 : fn_skel := {| sk_name := "snoopy_output_fileoutput"; sk_nparams := 2; sk_body :=
 [(SDecl "filePathBuf" false (Some (XOp "initlist" [])));
 (SDecl "filePath" false (Some (XVar "filePathBuf")));
 (SDecl "fd" false None);
 (SDecl "lineBuf" false None);
 (SDecl "lineLen" false None);
 (SDecl "charCount" false None);
 (SIf (XOp "==" [(XInt (0)%Z); (XCall "strcmp" [(XParam 1); (XStr "")])]) [(SReturn (Some (XOp "-" [(XInt (1)%Z)])))] []);
 (SExpr (XCall "snoopy_message_generateFromFormat" [(XVar "filePath"); (XInt (4096)%Z); (XInt (4096)%Z); (XParam 1)]));
 (SAssign (XVar "fd") (XCall "open" [(XVar "filePath"); (XOp "|" [(XOp "|" [(XInt (1)%Z); (XInt (64)%Z)]); (XInt (1024)%Z)]); (XInt (438)%Z)]));
 (SIf (XOp "==" [(XOp "-" [(XInt (1)%Z)]); (XVar "fd")]) [(SReturn (Some (XOp "-" [(XInt (1)%Z)])))] []);
 (SAssign (XVar "lineLen") (XOp "+" [(XCall "strlen" [(XParam 0)]); (XInt (1)%Z)]));
 (SAssign (XVar "lineBuf") (XCall "malloc" [(XVar "lineLen")]));
 (SExpr (XCall "memcpy" [(XVar "lineBuf"); (XParam 0); (XOp "-" [(XVar "lineLen"); (XInt (1)%Z)])]));
 (SAssign (XIndex (XVar "lineBuf") (XOp "-" [(XVar "lineLen"); (XInt (1)%Z)])) (XInt (10)%Z));
 (SAssign (XVar "charCount") (XCast (XCall "write" [(XVar "fd"); (XVar "lineBuf"); (XVar "lineLen")])));
 (SExpr (XCall "free" [(XVar "lineBuf")]));
 (SExpr (XCall "close" [(XVar "fd")]));
 (SReturn (Some (XVar "charCount")))] |}.

Definition rf_180 : fn_skel := {| sk_name := "snoopy_output_devnulloutput"; sk_nparams := 2; sk_body :=
 [(SReturn (Some (XCall "snoopy_output_fileoutput" [(XParam 0); (XStr "/dev/null")])))] |}.

Definition rf_181 : fn_skel := {| sk_name := "snoopy_output_devttyoutput"; sk_nparams := 2; sk_body :=
 [(SReturn (Some (XCall "snoopy_output_fileoutput" [(XParam 0); (XStr "/dev/tty")])))] |}.

Definition rf_185 : fn_skel := {| sk_name := "snoopy_output_syslogoutput"; sk_nparams := 2; sk_body :=
 [(SIf (XOp "==" [(XInt (0)%Z); (XCall "strlen" [(XParam 0)])]) [(SReturn (Some (XInt (0)%Z)))] []);
 (SDecl "CFG" false (Some (XCall "snoopy_configuration_get" [])));
 (SDecl "syslogIdent" false (Some (XOp "initlist" [])));
 (SExpr (XCall "snoopy_message_generateFromFormat" [(XVar "syslogIdent"); (XInt (256)%Z); (XInt (256)%Z); (XMember (XVar "CFG") "syslog_ident_format")]));
 (SExpr (XCall "openlog" [(XVar "syslogIdent"); (XInt (1)%Z); (XMember (XVar "CFG") "syslog_facility")]));
 (SExpr (XCall "syslog" [(XMember (XVar "CFG") "syslog_level"); (XStr "%s"); (XParam 0)]));
 (SExpr (XCall "closelog" []));
 (SReturn (Some (XCast (XCall "strlen" [(XParam 0)]))))] |}.

Definition rf_190 : fn_skel := {| sk_name := "snoopy_tsrm_atfork_child"; sk_nparams := 0; sk_body :=
 [(SDecl "curNode" false None);
 (SDecl "nextNode" false None);
 (SDecl "tData" false None);
 (SExpr (XCall "pthread_mutex_init" [(XAddr (XVar "snoopy_tsrm_threadRepo_mutex")); (XAddr (XVar "snoopy_tsrm_threadRepo_mutexAttr"))]));
 (SAssign (XVar "curNode") (XMember (XVar "snoopy_tsrm_threadRepo") "first"));
 (SLoop (XOp "!=" [(XCast (XInt (0)%Z)); (XVar "curNode")]) [(SAssign (XVar "nextNode") (XMember (XVar "curNode") "next"));
 (SAssign (XVar "tData") (XMember (XVar "curNode") "value"));
 (SIf (XOp "!=" [(XCast (XInt (0)%Z)); (XVar "tData")]) [(SExpr (XCall "free" [(XMember (XVar "tData") "inputdatastorage")]));
 (SExpr (XCall "free" [(XMember (XVar "tData") "configuration")]));
 (SExpr (XCall "free" [(XVar "tData")]))] []);
 (SExpr (XCall "free" [(XVar "curNode")]));
 (SAssign (XVar "curNode") (XVar "nextNode"))]);
 (SAssign (XMember (XVar "snoopy_tsrm_threadRepo") "first") (XCast (XInt (0)%Z)));
 (SAssign (XMember (XVar "snoopy_tsrm_threadRepo") "last") (XCast (XInt (0)%Z)));
 (SAssign (XMember (XVar "snoopy_tsrm_threadRepo") "count") (XInt (0)%Z))] |}.

Definition rf_196 : fn_skel := {| sk_name := "snoopy_util_string_copyLineFromContent"; sk_nparams := 1; sk_body :=
 [(SDecl "lineLen" false (Some (XInt (0)%Z)));
 (SDecl "copiedLine" false (Some (XCast (XInt (0)%Z))));
 (SAssign (XVar "lineLen") (XCall "snoopy_util_string_getLineLength" [(XParam 0)]));
 (SAssign (XVar "copiedLine") (XCall "malloc" [(XOp "+" [(XVar "lineLen"); (XInt (1)%Z)])]));
 (SExpr (XCall "strncpy" [(XVar "copiedLine"); (XParam 0); (XVar "lineLen")]));
 (SAssign (XIndex (XVar "copiedLine") (XVar "lineLen")) (XInt (0)%Z));
 (SReturn (Some (XVar "copiedLine")))] |}.

From Snoopy Require Import Residue.Model.
Definition lib_fns : list libfn :=
  [{| lf_name := "cgroupEntry_movePastInitialChaff"; lf_calls := ["strchr"]; lf_indirect := false; lf_skel := None |};
   {| lf_name := "doesCgroupEntryContainController"; lf_calls := ["strchr"; "strcmp"]; lf_indirect := false; lf_skel := None |};
   {| lf_name := "snoopy_configuration_setDefaults"; lf_calls := []; lf_indirect := false; lf_skel := None |};
   {| lf_name := "snoopy_tsrm_getCurrentThreadId"; lf_calls := ["pthread_self"]; lf_indirect := false; lf_skel := None |};
   {| lf_name := "snoopy_util_list_fetchNextNode"; lf_calls := []; lf_indirect := false; lf_skel := None |};
   {| lf_name := "snoopy_tsrm_getCurrentThreadRepoEntry"; lf_calls := ["pthread_equal"; "pthread_mutex_lock"; "pthread_mutex_unlock"; "snoopy_tsrm_getCurrentThreadId"; "snoopy_util_list_fetchNextNode"]; lf_indirect := false; lf_skel := None |};
   {| lf_name := "snoopy_tsrm_getCurrentThreadData"; lf_calls := ["snoopy_tsrm_getCurrentThreadRepoEntry"]; lf_indirect := false; lf_skel := None |};
   {| lf_name := "snoopy_tsrm_get_configuration"; lf_calls := ["snoopy_tsrm_getCurrentThreadData"]; lf_indirect := false; lf_skel := None |};
   {| lf_name := "snoopy_configuration_get"; lf_calls := ["snoopy_configuration_setDefaults"; "snoopy_tsrm_get_configuration"]; lf_indirect := false; lf_skel := None |};
   {| lf_name := "snoopy_genericregistry_getIdFromName"; lf_calls := ["strcmp"]; lf_indirect := false; lf_skel := None |};
   {| lf_name := "snoopy_outputregistry_getIdFromName"; lf_calls := ["snoopy_genericregistry_getIdFromName"]; lf_indirect := false; lf_skel := None |};
   {| lf_name := "snoopy_outputregistry_callByName"; lf_calls := ["snoopy_outputregistry_getIdFromName"]; lf_indirect := true; lf_skel := None |};
   {| lf_name := "snoopy_outputregistry_dispatch"; lf_calls := ["snoopy_configuration_get"; "snoopy_outputregistry_callByName"]; lf_indirect := false; lf_skel := None |};
   {| lf_name := "snoopy_action_log_message_dispatch"; lf_calls := ["snoopy_outputregistry_dispatch"; "strlen"]; lf_indirect := false; lf_skel := None |};
   {| lf_name := "snoopy_filterregistry_getIdFromName"; lf_calls := ["snoopy_genericregistry_getIdFromName"]; lf_indirect := false; lf_skel := None |};
   {| lf_name := "snoopy_filterregistry_callByName"; lf_calls := ["snoopy_filterregistry_getIdFromName"]; lf_indirect := true; lf_skel := None |};
   {| lf_name := "snoopy_genericregistry_doesNameExist"; lf_calls := ["snoopy_genericregistry_getIdFromName"]; lf_indirect := false; lf_skel := None |};
   {| lf_name := "snoopy_filterregistry_doesNameExist"; lf_calls := ["snoopy_genericregistry_doesNameExist"]; lf_indirect := false; lf_skel := None |};
   {| lf_name := "snoopy_filtering_check_chain"; lf_calls := ["snoopy_filterregistry_callByName"; "snoopy_filterregistry_doesNameExist"; "strncpy"; "strstr"; "strtok_r"]; lf_indirect := false; lf_skel := None |};
   {| lf_name := "snoopy_datasourceregistry_getIdFromName"; lf_calls := ["snoopy_genericregistry_getIdFromName"]; lf_indirect := false; lf_skel := None |};
   {| lf_name := "snoopy_datasourceregistry_callByName"; lf_calls := ["snoopy_datasourceregistry_getIdFromName"]; lf_indirect := true; lf_skel := None |};
   {| lf_name := "snoopy_datasourceregistry_doesNameExist"; lf_calls := ["snoopy_genericregistry_doesNameExist"]; lf_indirect := false; lf_skel := None |};
   {| lf_name := "snoopy_error_handler"; lf_calls := ["snoopy_action_log_message_dispatch"; "snoopy_configuration_get"; "snprintf"]; lf_indirect := false; lf_skel := None |};
   {| lf_name := "snoopy_util_string_append"; lf_calls := ["strcat"; "strlen"]; lf_indirect := false; lf_skel := None |};
   {| lf_name := "snoopy_message_append"; lf_calls := ["snoopy_error_handler"; "snoopy_util_string_append"]; lf_indirect := false; lf_skel := None |};
   {| lf_name := "snoopy_message_generateFromFormat"; lf_calls := ["free"; "malloc"; "snoopy_datasourceregistry_callByName"; "snoopy_datasourceregistry_doesNameExist"; "snoopy_message_append"; "strlen"; "strndup"; "strstr"]; lf_indirect := false; lf_skel := (Some rf_25) |};
   {| lf_name := "snoopy_action_log_syscall_exec"; lf_calls := ["free"; "malloc"; "snoopy_action_log_message_dispatch"; "snoopy_configuration_get"; "snoopy_filtering_check_chain"; "snoopy_message_generateFromFormat"]; lf_indirect := false; lf_skel := (Some rf_26) |};
   {| lf_name := "snoopy_configuration_dtor"; lf_calls := ["free"; "snoopy_configuration_get"; "snoopy_configuration_setDefaults"]; lf_indirect := false; lf_skel := (Some rf_27) |};
   {| lf_name := "snoopy_inputdatastorage_setDefaults"; lf_calls := []; lf_indirect := false; lf_skel := None |};
   {| lf_name := "snoopy_tsrm_get_inputdatastorage"; lf_calls := ["snoopy_tsrm_getCurrentThreadData"]; lf_indirect := false; lf_skel := None |};
   {| lf_name := "snoopy_inputdatastorage_get"; lf_calls := ["snoopy_inputdatastorage_setDefaults"; "snoopy_tsrm_get_inputdatastorage"]; lf_indirect := false; lf_skel := None |};
   {| lf_name := "snoopy_inputdatastorage_dtor"; lf_calls := ["snoopy_inputdatastorage_get"; "snoopy_inputdatastorage_setDefaults"]; lf_indirect := false; lf_skel := None |};
   {| lf_name := "snoopy_util_list_remove"; lf_calls := ["free"; "snoopy_error_handler"]; lf_indirect := false; lf_skel := (Some rf_32) |};
   {| lf_name := "snoopy_tsrm_dtor"; lf_calls := ["free"; "pthread_mutex_lock"; "pthread_mutex_unlock"; "snoopy_tsrm_getCurrentThreadRepoEntry"; "snoopy_util_list_remove"]; lf_indirect := false; lf_skel := (Some rf_33) |};
   {| lf_name := "snoopy_cleanup"; lf_calls := ["snoopy_configuration_dtor"; "snoopy_inputdatastorage_dtor"; "snoopy_tsrm_dtor"]; lf_indirect := false; lf_skel := (Some rf_34) |};
   {| lf_name := "snoopy_entrypoint_execve_wrapper_exit"; lf_calls := ["snoopy_cleanup"]; lf_indirect := false; lf_skel := (Some rf_35) |};
   {| lf_name := "find_chars_or_comment"; lf_calls := ["__ctype_b_loc"; "strchr"]; lf_indirect := false; lf_skel := None |};
   {| lf_name := "lskip"; lf_calls := ["__ctype_b_loc"]; lf_indirect := false; lf_skel := None |};
   {| lf_name := "rstrip"; lf_calls := ["__ctype_b_loc"; "strlen"]; lf_indirect := false; lf_skel := None |};
   {| lf_name := "strncpy0"; lf_calls := []; lf_indirect := false; lf_skel := None |};
   {| lf_name := "snoopy_ini_parse_stream"; lf_calls := ["find_chars_or_comment"; "lskip"; "rstrip"; "strchr"; "strlen"; "strncpy0"]; lf_indirect := true; lf_skel := None |};
   {| lf_name := "snoopy_ini_parse_file"; lf_calls := ["snoopy_ini_parse_stream"]; lf_indirect := false; lf_skel := None |};
   {| lf_name := "snoopy_ini_parse"; lf_calls := ["fclose"; "fopen"; "snoopy_ini_parse_file"]; lf_indirect := false; lf_skel := (Some rf_42) |};
   {| lf_name := "snoopy_configfile_load"; lf_calls := ["snoopy_configuration_get"; "snoopy_ini_parse"]; lf_indirect := false; lf_skel := (Some rf_43) |};
   {| lf_name := "snoopy_configuration_ctor"; lf_calls := ["snoopy_configfile_load"; "snoopy_configuration_get"]; lf_indirect := false; lf_skel := (Some rf_44) |};
   {| lf_name := "snoopy_inputdatastorage_ctor"; lf_calls := ["snoopy_inputdatastorage_get"; "snoopy_inputdatastorage_setDefaults"]; lf_indirect := false; lf_skel := None |};
   {| lf_name := "snoopy_configuration_setUninitialized"; lf_calls := []; lf_indirect := false; lf_skel := None |};
   {| lf_name := "snoopy_inputdatastorage_setUninitialized"; lf_calls := []; lf_indirect := false; lf_skel := None |};
   {| lf_name := "snoopy_tsrm_createNewThreadData"; lf_calls := ["malloc"; "snoopy_configuration_setUninitialized"; "snoopy_inputdatastorage_setUninitialized"]; lf_indirect := false; lf_skel := (Some rf_48) |};
   {| lf_name := "snoopy_tsrm_doesThreadRepoEntryExist"; lf_calls := ["pthread_equal"; "pthread_mutex_lock"; "pthread_mutex_unlock"; "snoopy_util_list_fetchNextNode"]; lf_indirect := false; lf_skel := None |};
   {| lf_name := "snoopy_util_list_push"; lf_calls := ["calloc"; "snoopy_error_handler"]; lf_indirect := false; lf_skel := (Some rf_50) |};
   {| lf_name := "snoopy_tsrm_ctor"; lf_calls := ["pthread_mutex_lock"; "pthread_mutex_unlock"; "pthread_once"; "snoopy_tsrm_createNewThreadData"; "snoopy_tsrm_doesThreadRepoEntryExist"; "snoopy_tsrm_getCurrentThreadId"; "snoopy_util_list_push"]; lf_indirect := false; lf_skel := (Some rf_51) |};
   {| lf_name := "snoopy_init"; lf_calls := ["snoopy_configuration_ctor"; "snoopy_inputdatastorage_ctor"; "snoopy_tsrm_ctor"]; lf_indirect := false; lf_skel := (Some rf_52) |};
   {| lf_name := "snoopy_inputdatastorage_store_argv"; lf_calls := ["snoopy_inputdatastorage_get"]; lf_indirect := false; lf_skel := None |};
   {| lf_name := "snoopy_inputdatastorage_store_envp"; lf_calls := ["snoopy_inputdatastorage_get"]; lf_indirect := false; lf_skel := None |};
   {| lf_name := "snoopy_inputdatastorage_store_filename"; lf_calls := ["snoopy_inputdatastorage_get"]; lf_indirect := false; lf_skel := None |};
   {| lf_name := "snoopy_entrypoint_execve_wrapper_init"; lf_calls := ["snoopy_init"; "snoopy_inputdatastorage_store_argv"; "snoopy_inputdatastorage_store_envp"; "snoopy_inputdatastorage_store_filename"]; lf_indirect := false; lf_skel := (Some rf_56) |};
   {| lf_name := "execv"; lf_calls := ["dlsym"; "snoopy_action_log_syscall_exec"; "snoopy_entrypoint_execve_wrapper_exit"; "snoopy_entrypoint_execve_wrapper_init"]; lf_indirect := true; lf_skel := (Some rf_57) |};
   {| lf_name := "execve"; lf_calls := ["dlsym"; "snoopy_action_log_syscall_exec"; "snoopy_entrypoint_execve_wrapper_exit"; "snoopy_entrypoint_execve_wrapper_init"]; lf_indirect := true; lf_skel := (Some rf_58) |};
   {| lf_name := "find_string_in_array"; lf_calls := ["strcmp"]; lf_indirect := false; lf_skel := None |};
   {| lf_name := "find_ancestor_in_list"; lf_calls := ["fclose"; "find_string_in_array"; "fopen"; "fread"; "getppid"; "memcpy"; "snprintf"; "sscanf"; "strchr"; "strrchr"]; lf_indirect := false; lf_skel := (Some rf_60) |};
   {| lf_name := "read_proc_property"; lf_calls := ["fclose"; "fopen"; "free"; "getline"; "snprintf"; "strchr"; "strcmp"; "strdup"; "strlen"; "strncpy"; "strstr"]; lf_indirect := false; lf_skel := (Some rf_61) |};
   {| lf_name := "get_parent_pid"; lf_calls := ["atoi"; "free"; "read_proc_property"]; lf_indirect := false; lf_skel := (Some rf_62) |};
   {| lf_name := "get_rpname"; lf_calls := ["free"; "get_parent_pid"; "get_rpname"; "read_proc_property"; "snprintf"]; lf_indirect := false; lf_skel := (Some rf_63) |};
   {| lf_name := "ini_reader_string"; lf_calls := []; lf_indirect := false; lf_skel := None |};
   {| lf_name := "snoopy_configfile_getOptionValueAsString_datasource_message_max_length"; lf_calls := ["malloc"; "snoopy_configuration_get"; "snprintf"]; lf_indirect := false; lf_skel := (Some rf_65) |};
   {| lf_name := "snoopy_configfile_getOptionValueAsString_error_logging"; lf_calls := ["snoopy_configuration_get"; "strdup"]; lf_indirect := false; lf_skel := (Some rf_66) |};
   {| lf_name := "snoopy_configfile_getOptionValueAsString_filter_chain"; lf_calls := ["snoopy_configuration_get"; "strdup"]; lf_indirect := false; lf_skel := (Some rf_67) |};
   {| lf_name := "snoopy_configfile_getOptionValueAsString_log_message_max_length"; lf_calls := ["malloc"; "snoopy_configuration_get"; "snprintf"]; lf_indirect := false; lf_skel := (Some rf_68) |};
   {| lf_name := "snoopy_configfile_getOptionValueAsString_message_format"; lf_calls := ["snoopy_configuration_get"; "strdup"]; lf_indirect := false; lf_skel := (Some rf_69) |};
   {| lf_name := "snoopy_configfile_getOptionValueAsString_output"; lf_calls := ["malloc"; "snoopy_configuration_get"; "snprintf"; "strcmp"; "strdup"; "strlen"]; lf_indirect := false; lf_skel := (Some rf_70) |};
   {| lf_name := "snoopy_util_syslog_convertFacilityToStr"; lf_calls := []; lf_indirect := false; lf_skel := None |};
   {| lf_name := "snoopy_configfile_getOptionValueAsString_syslog_facility"; lf_calls := ["snoopy_configuration_get"; "snoopy_util_syslog_convertFacilityToStr"; "strdup"]; lf_indirect := false; lf_skel := (Some rf_72) |};
   {| lf_name := "snoopy_configfile_getOptionValueAsString_syslog_ident"; lf_calls := ["snoopy_configuration_get"; "strdup"]; lf_indirect := false; lf_skel := (Some rf_73) |};
   {| lf_name := "snoopy_util_syslog_convertLevelToStr"; lf_calls := []; lf_indirect := false; lf_skel := None |};
   {| lf_name := "snoopy_configfile_getOptionValueAsString_syslog_level"; lf_calls := ["snoopy_configuration_get"; "snoopy_util_syslog_convertLevelToStr"; "strdup"]; lf_indirect := false; lf_skel := (Some rf_75) |};
   {| lf_name := "snoopy_configfile_getboolean"; lf_calls := []; lf_indirect := false; lf_skel := None |};
   {| lf_name := "snoopy_configfile_optionRegistry_getIdFromName"; lf_calls := ["strcmp"]; lf_indirect := false; lf_skel := None |};
   {| lf_name := "snoopy_configfile_iniParser_callback"; lf_calls := ["snoopy_configfile_optionRegistry_getIdFromName"; "strcmp"]; lf_indirect := true; lf_skel := None |};
   {| lf_name := "snoopy_configfile_optionRegistry_getAll"; lf_calls := []; lf_indirect := false; lf_skel := None |};
   {| lf_name := "snoopy_configfile_optionRegistry_getOptionValueAsString"; lf_calls := ["strcmp"]; lf_indirect := true; lf_skel := None |};
   {| lf_name := "snoopy_util_parser_strByteLength"; lf_calls := ["__ctype_b_loc"]; lf_indirect := false; lf_skel := None |};
   {| lf_name := "snoopy_configfile_parseValue_datasource_message_max_length"; lf_calls := ["snoopy_util_parser_strByteLength"]; lf_indirect := false; lf_skel := None |};
   {| lf_name := "snoopy_configfile_parseValue_error_logging"; lf_calls := ["snoopy_configfile_getboolean"]; lf_indirect := false; lf_skel := None |};
   {| lf_name := "snoopy_configfile_parseValue_filter_chain"; lf_calls := ["free"; "strdup"]; lf_indirect := false; lf_skel := (Some rf_84) |};
   {| lf_name := "snoopy_configfile_parseValue_log_message_max_length"; lf_calls := ["snoopy_util_parser_strByteLength"]; lf_indirect := false; lf_skel := None |};
   {| lf_name := "snoopy_configfile_parseValue_message_format"; lf_calls := ["free"; "strdup"]; lf_indirect := false; lf_skel := (Some rf_86) |};
   {| lf_name := "snoopy_outputregistry_doesNameExist"; lf_calls := ["snoopy_genericregistry_doesNameExist"]; lf_indirect := false; lf_skel := None |};
   {| lf_name := "snoopy_configfile_parseValue_output"; lf_calls := ["free"; "snoopy_outputregistry_doesNameExist"; "strchr"; "strdup"]; lf_indirect := false; lf_skel := (Some rf_88) |};
   {| lf_name := "snoopy_util_string_toUpper"; lf_calls := []; lf_indirect := false; lf_skel := None |};
   {| lf_name := "snoopy_configfile_syslog_value_cleanup"; lf_calls := ["snoopy_util_string_toUpper"]; lf_indirect := false; lf_skel := None |};
   {| lf_name := "snoopy_util_syslog_convertFacilityToInt"; lf_calls := ["strcmp"; "strncmp"]; lf_indirect := false; lf_skel := None |};
   {| lf_name := "snoopy_configfile_parseValue_syslog_facility"; lf_calls := ["free"; "snoopy_configfile_syslog_value_cleanup"; "snoopy_util_syslog_convertFacilityToInt"; "strdup"]; lf_indirect := false; lf_skel := (Some rf_92) |};
   {| lf_name := "snoopy_configfile_parseValue_syslog_ident"; lf_calls := ["free"; "strdup"]; lf_indirect := false; lf_skel := (Some rf_93) |};
   {| lf_name := "snoopy_util_syslog_convertLevelToInt"; lf_calls := ["strcmp"; "strncmp"]; lf_indirect := false; lf_skel := None |};
   {| lf_name := "snoopy_configfile_parseValue_syslog_level"; lf_calls := ["free"; "snoopy_configfile_syslog_value_cleanup"; "snoopy_util_syslog_convertLevelToInt"; "strdup"]; lf_indirect := false; lf_skel := (Some rf_95) |};
   {| lf_name := "snoopy_configfile_syslog_value_remove_prefix"; lf_calls := ["strncmp"]; lf_indirect := false; lf_skel := None |};
   {| lf_name := "snoopy_configuration_preinit_disableConfigFileParsing"; lf_calls := []; lf_indirect := false; lf_skel := None |};
   {| lf_name := "snoopy_configuration_preinit_enableAltConfigFileParsing"; lf_calls := []; lf_indirect := false; lf_skel := None |};
   {| lf_name := "snoopy_configuration_preinit_setConfigFilePathFromEnv"; lf_calls := ["access"; "getenv"; "snoopy_configuration_preinit_enableAltConfigFileParsing"; "strncpy"]; lf_indirect := false; lf_skel := None |};
   {| lf_name := "snoopy_util_file_getSmallTextFileContent"; lf_calls := ["__errno_location"; "clearerr"; "fclose"; "feof"; "ferror"; "fopen"; "fread"; "free"; "malloc"; "snprintf"; "strerror_r"]; lf_indirect := false; lf_skel := (Some rf_100) |};
   {| lf_name := "snoopy_util_string_containsOnlyDigits"; lf_calls := ["__ctype_b_loc"]; lf_indirect := false; lf_skel := None |};
   {| lf_name := "snoopy_util_string_findLineStartingWith"; lf_calls := ["strlen"; "strstr"]; lf_indirect := false; lf_skel := None |};
   {| lf_name := "snoopy_util_string_nullTerminateLine"; lf_calls := ["strchr"]; lf_indirect := false; lf_skel := None |};
   {| lf_name := "snoopy_datasource_cgroup"; lf_calls := ["doesCgroupEntryContainController"; "free"; "getpid"; "malloc"; "snoopy_util_file_getSmallTextFileContent"; "snoopy_util_string_containsOnlyDigits"; "snoopy_util_string_findLineStartingWith"; "snoopy_util_string_nullTerminateLine"; "snprintf"; "strcmp"; "strlen"; "strtok_r"]; lf_indirect := false; lf_skel := (Some rf_104) |};
   {| lf_name := "snoopy_datasource_cmdline"; lf_calls := ["snoopy_inputdatastorage_get"; "snprintf"]; lf_indirect := false; lf_skel := None |};
   {| lf_name := "snoopy_datasource_cwd"; lf_calls := ["getcwd"; "snprintf"]; lf_indirect := false; lf_skel := None |};
   {| lf_name := "snoopy_tsrm_localtime_r"; lf_calls := ["localtime_r"; "pthread_mutex_lock"; "pthread_mutex_unlock"]; lf_indirect := false; lf_skel := None |};
   {| lf_name := "snoopy_tsrm_strftime"; lf_calls := ["pthread_mutex_lock"; "pthread_mutex_unlock"; "strftime"]; lf_indirect := false; lf_skel := None |};
   {| lf_name := "snoopy_datasource_datetime"; lf_calls := ["__errno_location"; "snoopy_tsrm_localtime_r"; "snoopy_tsrm_strftime"; "snprintf"; "time"]; lf_indirect := false; lf_skel := None |};
   {| lf_name := "snoopy_datasource_domain"; lf_calls := ["__errno_location"; "fclose"; "fgets"; "fopen"; "gethostname"; "snprintf"; "strcasestr"; "strchr"; "strlen"; "strtok_r"]; lf_indirect := false; lf_skel := (Some rf_110) |};
   {| lf_name := "snoopy_datasource_egid"; lf_calls := ["getegid"; "snprintf"]; lf_indirect := false; lf_skel := None |};
   {| lf_name := "snoopy_datasource_egroup"; lf_calls := ["free"; "getegid"; "getgrgid_r"; "malloc"; "snprintf"; "sysconf"]; lf_indirect := false; lf_skel := (Some rf_112) |};
   {| lf_name := "snoopy_datasource_env"; lf_calls := ["getenv"; "snprintf"]; lf_indirect := false; lf_skel := None |};
   {| lf_name := "snoopy_datasource_env_all"; lf_calls := ["snprintf"; "strlen"]; lf_indirect := false; lf_skel := None |};
   {| lf_name := "snoopy_datasource_euid"; lf_calls := ["geteuid"; "snprintf"]; lf_indirect := false; lf_skel := None |};
   {| lf_name := "snoopy_datasource_eusername"; lf_calls := ["free"; "geteuid"; "getpwuid_r"; "malloc"; "snprintf"; "sysconf"]; lf_indirect := false; lf_skel := (Some rf_116) |};
   {| lf_name := "snoopy_datasource_failure"; lf_calls := ["snprintf"]; lf_indirect := false; lf_skel := None |};
   {| lf_name := "snoopy_datasource_filename"; lf_calls := ["snoopy_inputdatastorage_get"; "snprintf"]; lf_indirect := false; lf_skel := None |};
   {| lf_name := "snoopy_datasource_gid"; lf_calls := ["getgid"; "snprintf"]; lf_indirect := false; lf_skel := None |};
   {| lf_name := "snoopy_datasource_group"; lf_calls := ["free"; "getgid"; "getgrgid_r"; "malloc"; "snprintf"; "sysconf"]; lf_indirect := false; lf_skel := (Some rf_120) |};
   {| lf_name := "snoopy_datasource_hostname"; lf_calls := ["__errno_location"; "gethostname"; "snprintf"; "strlen"]; lf_indirect := false; lf_skel := None |};
   {| lf_name := "snoopy_util_utmp_doesEntryContainIpAddr"; lf_calls := []; lf_indirect := false; lf_skel := None |};
   {| lf_name := "snoopy_tsrm_getutline"; lf_calls := ["endutent"; "getutline_r"; "pthread_mutex_lock"; "pthread_mutex_unlock"; "setutent"]; lf_indirect := false; lf_skel := (Some rf_123) |};
   {| lf_name := "snoopy_util_utmp_findUtmpEntryByLine"; lf_calls := ["snoopy_tsrm_getutline"; "strncpy"]; lf_indirect := false; lf_skel := (Some rf_124) |};
   {| lf_name := "snoopy_util_utmp_findUtmpEntryByPath"; lf_calls := ["snoopy_util_utmp_findUtmpEntryByLine"; "strlen"; "strncmp"]; lf_indirect := false; lf_skel := (Some rf_125) |};
   {| lf_name := "snoopy_util_utmp_getUtmpIpAddrAsString"; lf_calls := ["inet_ntop"]; lf_indirect := false; lf_skel := None |};
   {| lf_name := "snoopy_datasource_ipaddr"; lf_calls := ["snoopy_util_utmp_doesEntryContainIpAddr"; "snoopy_util_utmp_findUtmpEntryByPath"; "snoopy_util_utmp_getUtmpIpAddrAsString"; "snprintf"; "strlen"; "ttyname_r"]; lf_indirect := false; lf_skel := (Some rf_127) |};
   {| lf_name := "snoopy_datasource_login"; lf_calls := ["getenv"; "getlogin_r"; "snprintf"; "strcpy"; "strlen"; "strncpy"]; lf_indirect := false; lf_skel := None |};
   {| lf_name := "snoopy_datasource_noop"; lf_calls := []; lf_indirect := false; lf_skel := None |};
   {| lf_name := "snoopy_datasource_pid"; lf_calls := ["getpid"; "snprintf"]; lf_indirect := false; lf_skel := None |};
   {| lf_name := "snoopy_datasource_ppid"; lf_calls := ["getppid"; "snprintf"]; lf_indirect := false; lf_skel := None |};
   {| lf_name := "snoopy_datasource_rpname"; lf_calls := ["get_rpname"; "getpid"]; lf_indirect := false; lf_skel := (Some rf_132) |};
   {| lf_name := "snoopy_datasource_sid"; lf_calls := ["getsid"; "snprintf"]; lf_indirect := false; lf_skel := None |};
   {| lf_name := "snoopy_datasource_snoopy_configure_command"; lf_calls := ["snprintf"]; lf_indirect := false; lf_skel := None |};
   {| lf_name := "snoopy_datasource_snoopy_literal"; lf_calls := ["snprintf"]; lf_indirect := false; lf_skel := None |};
   {| lf_name := "snoopy_tsrm_get_threadCount"; lf_calls := ["pthread_mutex_lock"; "pthread_mutex_unlock"]; lf_indirect := false; lf_skel := None |};
   {| lf_name := "snoopy_datasource_snoopy_threads"; lf_calls := ["snoopy_tsrm_get_threadCount"; "snprintf"]; lf_indirect := false; lf_skel := None |};
   {| lf_name := "snoopy_datasource_snoopy_version"; lf_calls := ["snprintf"]; lf_indirect := false; lf_skel := None |};
   {| lf_name := "snoopy_util_pwd_convertUidToUsername"; lf_calls := ["free"; "getpwuid_r"; "malloc"; "snprintf"; "sysconf"]; lf_indirect := false; lf_skel := (Some rf_139) |};
   {| lf_name := "snoopy_util_systemd_convertUserSliceInfoToUsername"; lf_calls := ["atoi"; "snoopy_util_pwd_convertUidToUsername"; "strchr"; "strncmp"]; lf_indirect := false; lf_skel := (Some rf_140) |};
   {| lf_name := "snoopy_util_systemd_convertCgroupEntryToUnitName"; lf_calls := ["cgroupEntry_movePastInitialChaff"; "snoopy_util_systemd_convertUserSliceInfoToUsername"; "strchr"; "strcmp"; "strdup"; "strlen"; "strncmp"; "strndup"]; lf_indirect := false; lf_skel := (Some rf_141) |};
   {| lf_name := "snoopy_datasource_systemd_unit_name"; lf_calls := ["free"; "malloc"; "snoopy_datasource_cgroup"; "snoopy_util_systemd_convertCgroupEntryToUnitName"; "snprintf"; "strcmp"; "strlen"]; lf_indirect := false; lf_skel := (Some rf_142) |};
   {| lf_name := "snoopy_datasource_tid"; lf_calls := ["pthread_self"; "snprintf"]; lf_indirect := false; lf_skel := None |};
   {| lf_name := "snoopy_datasource_tid_kernel"; lf_calls := ["snprintf"; "syscall"]; lf_indirect := false; lf_skel := None |};
   {| lf_name := "snoopy_datasource_timestamp"; lf_calls := ["__errno_location"; "gettimeofday"; "snprintf"]; lf_indirect := false; lf_skel := None |};
   {| lf_name := "snoopy_datasource_timestamp_ms"; lf_calls := ["__errno_location"; "gettimeofday"; "snprintf"]; lf_indirect := false; lf_skel := None |};
   {| lf_name := "snoopy_datasource_timestamp_us"; lf_calls := ["__errno_location"; "gettimeofday"; "snprintf"]; lf_indirect := false; lf_skel := None |};
   {| lf_name := "snoopy_datasource_tty"; lf_calls := ["snprintf"; "ttyname_r"]; lf_indirect := false; lf_skel := None |};
   {| lf_name := "snoopy_datasource_tty__get_tty_uid"; lf_calls := ["snprintf"; "stat"; "ttyname_r"]; lf_indirect := false; lf_skel := None |};
   {| lf_name := "snoopy_datasource_tty_uid"; lf_calls := ["snoopy_datasource_tty__get_tty_uid"; "snprintf"]; lf_indirect := false; lf_skel := None |};
   {| lf_name := "snoopy_datasource_tty_username"; lf_calls := ["free"; "snoopy_datasource_tty__get_tty_uid"; "snoopy_util_pwd_convertUidToUsername"; "snprintf"]; lf_indirect := false; lf_skel := (Some rf_151) |};
   {| lf_name := "snoopy_datasource_uid"; lf_calls := ["getuid"; "snprintf"]; lf_indirect := false; lf_skel := None |};
   {| lf_name := "snoopy_datasource_username"; lf_calls := ["free"; "getuid"; "snoopy_util_pwd_convertUidToUsername"; "snprintf"]; lf_indirect := false; lf_skel := (Some rf_153) |};
   {| lf_name := "snoopy_genericregistry_getCount"; lf_calls := ["strcmp"]; lf_indirect := false; lf_skel := None |};
   {| lf_name := "snoopy_genericregistry_doesIdExist"; lf_calls := ["snoopy_genericregistry_getCount"]; lf_indirect := false; lf_skel := None |};
   {| lf_name := "snoopy_datasourceregistry_doesIdExist"; lf_calls := ["snoopy_genericregistry_doesIdExist"]; lf_indirect := false; lf_skel := None |};
   {| lf_name := "snoopy_datasourceregistry_callById"; lf_calls := ["snoopy_datasourceregistry_doesIdExist"]; lf_indirect := true; lf_skel := None |};
   {| lf_name := "snoopy_datasourceregistry_getCount"; lf_calls := ["snoopy_genericregistry_getCount"]; lf_indirect := false; lf_skel := None |};
   {| lf_name := "snoopy_genericregistry_getName"; lf_calls := ["snoopy_genericregistry_doesIdExist"]; lf_indirect := false; lf_skel := None |};
   {| lf_name := "snoopy_datasourceregistry_getName"; lf_calls := ["snoopy_genericregistry_getName"]; lf_indirect := false; lf_skel := None |};
   {| lf_name := "snoopy_entrypoint_cli_exit"; lf_calls := ["snoopy_cleanup"]; lf_indirect := false; lf_skel := (Some rf_161) |};
   {| lf_name := "snoopy_entrypoint_cli_init"; lf_calls := ["snoopy_init"; "snoopy_inputdatastorage_store_argv"; "snoopy_inputdatastorage_store_envp"; "snoopy_inputdatastorage_store_filename"]; lf_indirect := false; lf_skel := (Some rf_162) |};
   {| lf_name := "string_to_token_array"; lf_calls := ["calloc"; "strchr"; "strtok_r"]; lf_indirect := false; lf_skel := (Some rf_163) |};
   {| lf_name := "snoopy_filter_exclude_spawns_of"; lf_calls := ["find_ancestor_in_list"; "free"; "strdup"; "string_to_token_array"]; lf_indirect := false; lf_skel := (Some rf_164) |};
   {| lf_name := "snoopy_util_string_countChars"; lf_calls := []; lf_indirect := false; lf_skel := None |};
   {| lf_name := "snoopy_util_parser_csvToArgList"; lf_calls := ["malloc"; "snoopy_util_string_countChars"; "strchr"; "strlen"]; lf_indirect := false; lf_skel := (Some rf_166) |};
   {| lf_name := "snoopy_filter_exclude_uid"; lf_calls := ["atol"; "free"; "getuid"; "snoopy_util_parser_csvToArgList"; "strdup"]; lf_indirect := false; lf_skel := (Some rf_167) |};
   {| lf_name := "snoopy_filter_noop"; lf_calls := []; lf_indirect := false; lf_skel := None |};
   {| lf_name := "snoopy_filter_only_root"; lf_calls := ["getuid"]; lf_indirect := false; lf_skel := None |};
   {| lf_name := "snoopy_filter_only_tty"; lf_calls := ["ttyname_r"]; lf_indirect := false; lf_skel := None |};
   {| lf_name := "snoopy_filter_only_uid"; lf_calls := ["atol"; "free"; "getuid"; "snoopy_util_parser_csvToArgList"; "strdup"]; lf_indirect := false; lf_skel := (Some rf_171) |};
   {| lf_name := "snoopy_filterregistry_doesIdExist"; lf_calls := ["snoopy_genericregistry_doesIdExist"]; lf_indirect := false; lf_skel := None |};
   {| lf_name := "snoopy_filterregistry_callById"; lf_calls := ["snoopy_filterregistry_doesIdExist"]; lf_indirect := true; lf_skel := None |};
   {| lf_name := "snoopy_filterregistry_getCount"; lf_calls := ["snoopy_genericregistry_getCount"]; lf_indirect := false; lf_skel := None |};
   {| lf_name := "snoopy_filterregistry_getName"; lf_calls := ["snoopy_genericregistry_getName"]; lf_indirect := false; lf_skel := None |};
   {| lf_name := "snoopy_ini_parse_string"; lf_calls := ["snoopy_ini_parse_stream"; "strlen"]; lf_indirect := false; lf_skel := None |};
   {| lf_name := "snoopy_output_socketoutput"; lf_calls := ["close"; "connect"; "send"; "socket"; "strlen"; "strncpy"; "strnlen"]; lf_indirect := false; lf_skel := (Some rf_177) |};
   {| lf_name := "snoopy_output_devlogoutput"; lf_calls := ["free"; "getpid"; "malloc"; "snoopy_configuration_get"; "snoopy_message_generateFromFormat"; "snoopy_output_socketoutput"; "snprintf"; "strlen"]; lf_indirect := false; lf_skel := (Some rf_178) |};
   {| lf_name := "snoopy_output_fileoutput"; lf_calls := ["close"; "free"; "malloc"; "memcpy"; "open"; "snoopy_message_generateFromFormat"; "strcmp"; "strlen"; "write"]; lf_indirect := false; lf_skel := (Some rf_179) |};
   {| lf_name := "snoopy_output_devnulloutput"; lf_calls := ["snoopy_output_fileoutput"]; lf_indirect := false; lf_skel := (Some rf_180) |};
   {| lf_name := "snoopy_output_devttyoutput"; lf_calls := ["snoopy_output_fileoutput"]; lf_indirect := false; lf_skel := (Some rf_181) |};
   {| lf_name := "snoopy_output_noopoutput"; lf_calls := []; lf_indirect := false; lf_skel := None |};
   {| lf_name := "snoopy_output_stderroutput"; lf_calls := ["fprintf"]; lf_indirect := false; lf_skel := None |};
   {| lf_name := "snoopy_output_stdoutoutput"; lf_calls := ["dprintf"]; lf_indirect := false; lf_skel := None |};
   {| lf_name := "snoopy_output_syslogoutput"; lf_calls := ["closelog"; "openlog"; "snoopy_configuration_get"; "snoopy_message_generateFromFormat"; "strlen"; "syslog"]; lf_indirect := false; lf_skel := (Some rf_185) |};
   {| lf_name := "snoopy_outputregistry_doesIdExist"; lf_calls := ["snoopy_genericregistry_doesIdExist"]; lf_indirect := false; lf_skel := None |};
   {| lf_name := "snoopy_outputregistry_callById"; lf_calls := ["snoopy_outputregistry_doesIdExist"]; lf_indirect := true; lf_skel := None |};
   {| lf_name := "snoopy_outputregistry_getCount"; lf_calls := ["snoopy_genericregistry_getCount"]; lf_indirect := false; lf_skel := None |};
   {| lf_name := "snoopy_outputregistry_getName"; lf_calls := ["snoopy_genericregistry_getName"]; lf_indirect := false; lf_skel := None |};
   {| lf_name := "snoopy_tsrm_atfork_child"; lf_calls := ["free"; "pthread_mutex_init"]; lf_indirect := false; lf_skel := (Some rf_190) |};
   {| lf_name := "snoopy_tsrm_atfork_parent"; lf_calls := ["pthread_mutex_unlock"]; lf_indirect := false; lf_skel := None |};
   {| lf_name := "snoopy_tsrm_atfork_prepare"; lf_calls := ["pthread_mutex_lock"]; lf_indirect := false; lf_skel := None |};
   {| lf_name := "snoopy_tsrm_init"; lf_calls := ["pthread_atfork"; "pthread_mutex_init"; "pthread_mutexattr_init"; "pthread_mutexattr_settype"]; lf_indirect := false; lf_skel := None |};
   {| lf_name := "snoopy_tsrm_onLoad"; lf_calls := ["pthread_once"]; lf_indirect := false; lf_skel := None |};
   {| lf_name := "snoopy_util_string_getLineLength"; lf_calls := ["strchr"; "strlen"]; lf_indirect := false; lf_skel := None |};
   {| lf_name := "snoopy_util_string_copyLineFromContent"; lf_calls := ["malloc"; "snoopy_util_string_getLineLength"; "strncpy"]; lf_indirect := false; lf_skel := (Some rf_196) |};
   {| lf_name := "snoopy_util_utmp_test_setAlternateUtmpFilePath"; lf_calls := ["utmpname"]; lf_indirect := false; lf_skel := None |}].

Definition address_taken : list string :=
  ["ini_reader_string"; "snoopy_configfile_getOptionValueAsString_datasource_message_max_length"; "snoopy_configfile_getOptionValueAsString_error_logging"; "snoopy_configfile_getOptionValueAsString_filter_chain"; "snoopy_configfile_getOptionValueAsString_log_message_max_length"; "snoopy_configfile_getOptionValueAsString_message_format"; "snoopy_configfile_getOptionValueAsString_output"; "snoopy_configfile_getOptionValueAsString_syslog_facility"; "snoopy_configfile_getOptionValueAsString_syslog_ident"; "snoopy_configfile_getOptionValueAsString_syslog_level"; "snoopy_configfile_iniParser_callback"; "snoopy_configfile_parseValue_datasource_message_max_length"; "snoopy_configfile_parseValue_error_logging"; "snoopy_configfile_parseValue_filter_chain"; "snoopy_configfile_parseValue_log_message_max_length"; "snoopy_configfile_parseValue_message_format"; "snoopy_configfile_parseValue_output"; "snoopy_configfile_parseValue_syslog_facility"; "snoopy_configfile_parseValue_syslog_ident"; "snoopy_configfile_parseValue_syslog_level"; "snoopy_datasource_cgroup"; "snoopy_datasource_cmdline"; "snoopy_datasource_cwd"; "snoopy_datasource_datetime"; "snoopy_datasource_domain"; "snoopy_datasource_egid"; "snoopy_datasource_egroup"; "snoopy_datasource_env"; "snoopy_datasource_env_all"; "snoopy_datasource_euid"; "snoopy_datasource_eusername"; "snoopy_datasource_failure"; "snoopy_datasource_filename"; "snoopy_datasource_gid"; "snoopy_datasource_group"; "snoopy_datasource_hostname"; "snoopy_datasource_ipaddr"; "snoopy_datasource_login"; "snoopy_datasource_noop"; "snoopy_datasource_pid"; "snoopy_datasource_ppid"; "snoopy_datasource_rpname"; "snoopy_datasource_sid"; "snoopy_datasource_snoopy_configure_command"; "snoopy_datasource_snoopy_literal"; "snoopy_datasource_snoopy_threads"; "snoopy_datasource_snoopy_version"; "snoopy_datasource_systemd_unit_name"; "snoopy_datasource_tid"; "snoopy_datasource_tid_kernel"; "snoopy_datasource_timestamp"; "snoopy_datasource_timestamp_ms"; "snoopy_datasource_timestamp_us"; "snoopy_datasource_tty"; "snoopy_datasource_tty_uid"; "snoopy_datasource_tty_username"; "snoopy_datasource_uid"; "snoopy_datasource_username"; "snoopy_filter_exclude_spawns_of"; "snoopy_filter_exclude_uid"; "snoopy_filter_noop"; "snoopy_filter_only_root"; "snoopy_filter_only_tty"; "snoopy_filter_only_uid"; "snoopy_output_devlogoutput"; "snoopy_output_devnulloutput"; "snoopy_output_devttyoutput"; "snoopy_output_fileoutput"; "snoopy_output_noopoutput"; "snoopy_output_socketoutput"; "snoopy_output_stderroutput"; "snoopy_output_stdoutoutput"; "snoopy_tsrm_atfork_child"; "snoopy_tsrm_atfork_parent"; "snoopy_tsrm_atfork_prepare"; "snoopy_tsrm_init"].

Definition call_cycles : list string :=
  [].

Definition static_objects : list string :=
  ["snoopy_configfile_optionRegistry"; "snoopy_configuration_altConfigFilePath"; "snoopy_configuration_altConfigFilePathBuf"; "snoopy_configuration_configFileParsingEnabled"; "snoopy_datasourceregistry_names"; "snoopy_datasourceregistry_ptrs"; "snoopy_filterregistry_names"; "snoopy_filterregistry_ptrs"; "snoopy_inputdatastorage_setDefaults:empty_string"; "snoopy_inputdatastorage_setDefaults:empty_string_array"; "snoopy_outputregistry_names"; "snoopy_outputregistry_ptrs"; "snoopy_tsrm_init_onceControl"; "snoopy_tsrm_threadRepo"; "snoopy_tsrm_threadRepo_data"; "snoopy_tsrm_threadRepo_mutex"; "snoopy_tsrm_threadRepo_mutexAttr"].

Definition ast_externals : list string :=
  ["__ctype_b_loc"; "__errno_location"; "access"; "atoi"; "atol"; "calloc"; "clearerr"; "close"; "closelog"; "connect"; "dlsym"; "dprintf"; "endutent"; "fclose"; "feof"; "ferror"; "fgets"; "fopen"; "fprintf"; "fread"; "free"; "getcwd"; "getegid"; "getenv"; "geteuid"; "getgid"; "getgrgid_r"; "gethostname"; "getline"; "getlogin_r"; "getpid"; "getppid"; "getpwuid_r"; "getsid"; "gettimeofday"; "getuid"; "getutline_r"; "inet_ntop"; "localtime_r"; "malloc"; "memcpy"; "open"; "openlog"; "pthread_atfork"; "pthread_equal"; "pthread_mutex_init"; "pthread_mutex_lock"; "pthread_mutex_unlock"; "pthread_mutexattr_init"; "pthread_mutexattr_settype"; "pthread_once"; "pthread_self"; "send"; "setutent"; "snprintf"; "socket"; "sscanf"; "stat"; "strcasestr"; "strcat"; "strchr"; "strcmp"; "strcpy"; "strdup"; "strerror_r"; "strftime"; "strlen"; "strncmp"; "strncpy"; "strndup"; "strnlen"; "strrchr"; "strstr"; "strtok_r"; "syscall"; "sysconf"; "syslog"; "time"; "ttyname_r"; "utmpname"; "write"].
