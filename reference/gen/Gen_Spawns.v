(* GENERATED from the current working tree (src/filter/exclude_spawns_of.c) by vlib/tr_spawns.py -- do not edit *)
From Coq Require Import ZArith.
From Snoopy Require Import Lib.CStr Spawns.Model.
Definition consts : spawns_consts :=
  {| sp_sep := x2c;
     sp_strtok_delim_is_sep := true;
     sp_comm_max := 32%N;
     sp_buf_size := 78%N;
     sp_read_adj := 1%N;
     sp_size_min := 8%N;
     sp_path_max := 32%N;
     sp_path_fmt := [x2f; x70; x72; x6f; x63; x2f; x25; x64; x2f; x73; x74; x61; x74];
     sp_scan_fmt := [x20; x25; x63; x20; x25; x64];
     sp_lparen := x28;
     sp_rparen := x29;
     sp_left_first := true;
     sp_right_last := true;
     sp_reject_empty := false;
     sp_start_parent := true;
     sp_loop_while_nonzero := true;
     sp_cmp_exact := true;
     sp_drop_iff_found := true;
     sp_pass := (1)%Z;
     sp_drop := (0)%Z |}.
