(* GENERATED from the current /repo working tree by vlib/sysmodel.py -- do not edit *)
From Snoopy Require Import Lib.CStr Expand.Exec.
Definition dsc : ds_consts := {| env_undefined := [x28; x75; x6e; x64; x65; x66; x69; x6e; x65; x64; x29]; failure_text := [x41; x72; x74; x69; x66; x69; x63; x69; x61; x6c; x20; x64; x61; x74; x61; x73; x6f; x75; x72; x63; x65; x20; x66; x61; x69; x6c; x75; x72; x65; x20; x74; x72; x69; x67; x67; x65; x72; x65; x64] |}.
Definition filtering_compiled : bool := true.
