(* GENERATED from the current /repo working tree by vlib/skel.py -- do not edit *)
From Coq Require Import String ZArith List.
From Snoopy Require Import Lib.Skel.
Import ListNotations.
Local Open Scope string_scope.

Definition sk_execv : fn_skel := {| sk_name := "execv"; sk_nparams := 2; sk_body :=
 [(SDecl "func" false None);
 (SAssign (XVar "func") (XCast (XCall "dlsym" [(XCast (XOp "-" [(XInt (1)%Z)])); (XStr "execv")])));
 (SDecl "envp" false (Some (XOp "initlist" [(XCast (XInt (0)%Z))])));
 (SExpr (XCall "snoopy_entrypoint_execve_wrapper_init" [(XParam 0); (XParam 1); (XVar "envp")]));
 (SExpr (XCall "snoopy_action_log_syscall_exec" []));
 (SExpr (XCall "snoopy_entrypoint_execve_wrapper_exit" []));
 (SReturn (Some (XCallPtr (XVar "func") [(XParam 0); (XParam 1)])))] |}.

Definition sk_execve : fn_skel := {| sk_name := "execve"; sk_nparams := 3; sk_body :=
 [(SDecl "func" false None);
 (SAssign (XVar "func") (XCast (XCall "dlsym" [(XCast (XOp "-" [(XInt (1)%Z)])); (XStr "execve")])));
 (SExpr (XCall "snoopy_entrypoint_execve_wrapper_init" [(XParam 0); (XParam 1); (XParam 2)]));
 (SExpr (XCall "snoopy_action_log_syscall_exec" []));
 (SExpr (XCall "snoopy_entrypoint_execve_wrapper_exit" []));
 (SReturn (Some (XCallPtr (XVar "func") [(XParam 0); (XParam 1); (XParam 2)])))] |}.

Definition sk_wrapper_init : fn_skel := {| sk_name := "snoopy_entrypoint_execve_wrapper_init"; sk_nparams := 3; sk_body :=
 [(SExpr (XCall "snoopy_init" []));
 (SExpr (XCall "snoopy_inputdatastorage_store_filename" [(XParam 0)]));
 (SExpr (XCall "snoopy_inputdatastorage_store_argv" [(XParam 1)]));
 (SExpr (XCall "snoopy_inputdatastorage_store_envp" [(XParam 2)]))] |}.

Definition sk_wrapper_exit : fn_skel := {| sk_name := "snoopy_entrypoint_execve_wrapper_exit"; sk_nparams := 0; sk_body :=
 [(SExpr (XCall "snoopy_cleanup" []))] |}.

Definition sk_init : fn_skel := {| sk_name := "snoopy_init"; sk_nparams := 0; sk_body :=
 [(SExpr (XCall "snoopy_tsrm_ctor" []));
 (SExpr (XCall "snoopy_configuration_ctor" []));
 (SExpr (XCall "snoopy_inputdatastorage_ctor" []))] |}.

Definition sk_cleanup : fn_skel := {| sk_name := "snoopy_cleanup"; sk_nparams := 0; sk_body :=
 [(SExpr (XCall "snoopy_inputdatastorage_dtor" []));
 (SExpr (XCall "snoopy_configuration_dtor" []));
 (SExpr (XCall "snoopy_tsrm_dtor" []))] |}.

Definition sk_action : fn_skel := {| sk_name := "snoopy_action_log_syscall_exec"; sk_nparams := 0; sk_body :=
 [(SDecl "CFG" false None);
 (SDecl "logMessage" false (Some (XCast (XInt (0)%Z))));
 (SAssign (XVar "CFG") (XCall "snoopy_configuration_get" []));
 (SIf (XOp "&&" [(XOp "==" [(XInt (1)%Z); (XMember (XVar "CFG") "filtering_enabled")]); (XOp "==" [(XInt (0)%Z); (XCall "snoopy_filtering_check_chain" [(XMember (XVar "CFG") "filter_chain")])])]) [(SReturn None)] []);
 (SAssign (XVar "logMessage") (XCall "malloc" [(XOp "+" [(XMember (XVar "CFG") "log_message_max_length"); (XInt (1)%Z)])]));
 (SAssign (XIndex (XVar "logMessage") (XInt (0)%Z)) (XInt (0)%Z));
 (SExpr (XCall "snoopy_message_generateFromFormat" [(XVar "logMessage"); (XOp "+" [(XMember (XVar "CFG") "log_message_max_length"); (XInt (1)%Z)]); (XOp "+" [(XMember (XVar "CFG") "datasource_message_max_length"); (XInt (1)%Z)]); (XMember (XVar "CFG") "message_format")]));
 (SExpr (XCall "snoopy_action_log_message_dispatch" [(XVar "logMessage")]));
 (SExpr (XCall "free" [(XVar "logMessage")]))] |}.

Definition sk_dispatch : fn_skel := {| sk_name := "snoopy_action_log_message_dispatch"; sk_nparams := 1; sk_body :=
 [(SIf (XOp "==" [(XInt (0)%Z); (XCall "strlen" [(XParam 0)])]) [(SReturn (Some (XInt (0)%Z)))] []);
 (SReturn (Some (XCall "snoopy_outputregistry_dispatch" [(XParam 0)])))] |}.

Definition sk_ids_ctor : fn_skel := {| sk_name := "snoopy_inputdatastorage_ctor"; sk_nparams := 0; sk_body :=
 [(SDecl "IDS" false (Some (XCall "snoopy_inputdatastorage_get" [])));
 (SExpr (XCall "snoopy_inputdatastorage_setDefaults" [(XVar "IDS")]))] |}.

Definition sk_ids_dtor : fn_skel := {| sk_name := "snoopy_inputdatastorage_dtor"; sk_nparams := 0; sk_body :=
 [(SDecl "IDS" false (Some (XCall "snoopy_inputdatastorage_get" [])));
 (SExpr (XCall "snoopy_inputdatastorage_setDefaults" [(XVar "IDS")]))] |}.

Definition sk_ids_defaults : fn_skel := {| sk_name := "snoopy_inputdatastorage_setDefaults"; sk_nparams := 1; sk_body :=
 [(SDecl "empty_string" true (Some (XStr "")));
 (SDecl "empty_string_array" true (Some (XOp "initlist" [(XCast (XInt (0)%Z))])));
 (SAssign (XMember (XParam 0) "initialized") (XInt (1)%Z));
 (SAssign (XMember (XParam 0) "filename") (XVar "empty_string"));
 (SAssign (XMember (XParam 0) "argv") (XVar "empty_string_array"));
 (SAssign (XMember (XParam 0) "envp") (XVar "empty_string_array"))] |}.

Definition sk_store_filename : fn_skel := {| sk_name := "snoopy_inputdatastorage_store_filename"; sk_nparams := 1; sk_body :=
 [(SDecl "IDS" false (Some (XCall "snoopy_inputdatastorage_get" [])));
 (SAssign (XMember (XVar "IDS") "filename") (XParam 0))] |}.

Definition sk_store_argv : fn_skel := {| sk_name := "snoopy_inputdatastorage_store_argv"; sk_nparams := 1; sk_body :=
 [(SDecl "IDS" false (Some (XCall "snoopy_inputdatastorage_get" [])));
 (SAssign (XMember (XVar "IDS") "argv") (XParam 0))] |}.

Definition sk_store_envp : fn_skel := {| sk_name := "snoopy_inputdatastorage_store_envp"; sk_nparams := 1; sk_body :=
 [(SDecl "IDS" false (Some (XCall "snoopy_inputdatastorage_get" [])));
 (SAssign (XMember (XVar "IDS") "envp") (XParam 0))] |}.

Definition ids_fields_const : bool := true.
