#!/bin/bash
# MANIFEST.setup_cmd: build the repo-independent parts of the framework, offline.
#   1. the Coq theories (full .vo build, no -vos)        -> coq/theories/**/*.vo
#   2. extraction of every area's executable model        -> build/ocaml/drv_<area>
#   3. repo-independent harness pieces (interposers)      -> build/harness/
set -e
cd "$(dirname "$0")"
V=$(pwd)
mkdir -p build/ocaml build/harness
cd coq
{ echo "-Q theories Snoopy"; find theories -name '*.v' | sort; } > _CoqProject
coq_makefile -f _CoqProject -o Makefile.coq > /dev/null
timeout 3000 make -f Makefile.coq -j16 2>&1 | tail -40
test ${PIPESTATUS[0]} -eq 0
cd "$V"
for ex in coq/extract/Extract_*.v; do
  area=$(basename "$ex" .v); area=${area#Extract_}
  d=build/ocaml/x_$area; rm -rf "$d"; mkdir -p "$d"
  ( cd "$d" && timeout 600 coqc -q -Q "$V/coq/theories" Snoopy "$V/$ex" > extract.log 2>&1 \
    && { echo "open Model_$area"; cat "$V/ocaml/common.ml" "$V/ocaml/drv_$area.ml"; } > main.ml \
    && ocamlfind ocamlopt -w -a -O3 -package str,unix -linkpkg model_$area.mli model_$area.ml main.ml -o "$V/build/ocaml/drv_$area" ) || { echo "extraction/driver build failed for $area"; cat "$d/extract.log"; exit 1; }
done
for c in harness/lib*.c; do
  [ -e "$c" ] || continue
  so=build/harness/$(basename "$c" .c).so
  gcc -O1 -g -fPIC -shared -Iharness -o "$so" "$c" -ldl -lpthread
done
for c in harness/tool_*.c; do
  [ -e "$c" ] || continue
  gcc -O1 -g -rdynamic -Iharness -o build/harness/$(basename "$c" .c) "$c" -lpthread -ldl -lutil
done
# hygiene: nothing admitted, no axioms of our own
if grep -rnE '\b(Admitted|admit|Axiom|Parameter|Conjecture|Unset Guard|bypass_check)\b' coq/theories coq/props coq/extract --include=*.v | grep -v '^\S*:[0-9]*:\s*(\*' ; then
  echo "forbidden vernacular found"; exit 1
fi
echo "setup ok"
