#!/usr/bin/env python3
"""Regenerates /verif/MANIFEST.json from the table below (kept valid at all times)."""
import json, os, sys
V = os.path.dirname(os.path.dirname(os.path.abspath(__file__)))

CLAIMED = {
 "C05": dict(
    text="Coq theorems (C05_bounded, C05_ds_bounded, C05_exact_when_fits and the ident/path variants, C05_full_is_documented, C05_error_markers: every error text is bracketed \"[ERROR: ...]\") over a path-by-path model of "
         "message.c/string.c for ALL formats, registries and limits, instantiated with constants regenerated from the source on every run; "
         "the hand-written model is tied to the code by a differential run of its extraction against snoopy_message_generateFromFormat "
         "built from the working tree under ASan+UBSan on boundary-directed formats, and the extracted spec is evaluated on every implementation output.",
    ref="DESIGN.md section 7 C05",
    note="Trusted: Coq kernel + vm_compute; regex translator (tr_expand); ExtrOcamlBasic extraction + OCaml/C drivers; libc string semantics as modelled in Lib/CStr.v; "
         "data sources other than the six deterministic ones enter only through the contract len(out) < size.",
    technique="Coq proof over regenerated constants + extracted-model differential correspondence"),

 "C01": dict(
    text="Coq theorems over the exec wrappers' bodies regenerated from clang's AST on every run (T2): for every world, every behaviour of "
         "every callee and of the real function, the wrapper calls the real execv/execve exactly once, last, with its own parameters, and returns its result "
         "(C01_execve_once_last, C01_execv_once_last); the library's whole external call set and every indirect call site are regenerated (nm -u, AST) and "
         "proved free of exec-family, non-returning, static-result (getpwuid, strtok, localtime, ... : C01_no_shared_static_results) and unknown indirect calls (the wrappers' final call is identified by where its pointer comes from: dlsym of the wrapper's own name). Tied and searched by a system-level correspondence: production libsnoopy.so from the "
         "working tree preloaded into a scripted caller with a recording 'real exec' behind it (pointer identity, deep content, ret/errno, call count, nothing written after return).",
    ref="DESIGN.md section 7 C01",
    note="Trusted: Coq kernel + vm_compute; vlib/skel.py (clang AST -> skeleton); nm; harness (tool_caller, librecorder). The skeleton semantics treats named callees as arbitrary "
         "returning state transformers that receive parameters by value; write-through via the stored pointers is covered by const-qualification check + deep-content comparison only.",
    technique="Coq proof over clang-AST-regenerated wrapper skeletons + recorder-based system-level correspondence"),

 "C06": dict(
    text="Coq theorems for the running-offset loop of cmdline.c (C06_cmdline_join: equals the first size-1 bytes of the space-joined argv for EVERY argv and size; "
         "C06_fallback, C06_both_missing, C06_filename, C06_fits) and for the input-data life cycle over ALL call histories in both build variants (C06_no_leftover, C06_record_is_own), "
         "the life-cycle facts being computed from skeletons regenerated from clang's AST; tied by function-level differential runs (ASan+UBSan) and by histories of "
         "2..30 calls in one process through the production wrapper in thread-safe and non-thread-safe builds.",
    ref="DESIGN.md section 7 C06",
    note="Trusted: Coq kernel + vm_compute; tr_expand/skel translators; extraction + drivers; snprintf semantics. NULL path (execv(NULL,..)) is outside the domain.",
    technique="Coq proof (loop invariant, induction over histories) + function-level and history correspondence"),

 "C04": dict(
    text="Coq theorems over the output/dispatch/action model with constants (modes, flags, printf formats) regenerated from src/output/*.c and the action/dispatch "
         "skeletons regenerated from clang's AST: C04_one_record (exactly one record, at the configured sink, equal to the documented frame, for every message, output, "
         "argument, ident, priority, pid), C04_devlog_frame, C04_fixed_destinations, C04_none_when_dropped/_empty, C04_at_most_one; with error logging on, C04_error_records (exactly n1+n2 separate whole framed records of the error text - one per refused append while the message resp. the output's own path/ident template was formatted, Expand.Errors - followed by the ONE record of the message), C04_fits_no_error_record, C04_error_logging_off. Tied by a system-level correspondence in which the harness owns "
         "all seven sinks and the recorder drains them at exec entry (also with a simulated successful exec), compared with the extracted models' prediction.",
    ref="DESIGN.md section 7 C04",
    note="Trusted: Coq kernel + vm_compute; tr_output/tr_expand/skel translators; extraction + drivers; harness. Assumes the sink accepts the operations (C03 covers failures); "
         "stderr unbuffered; kernel datagram size limits outside the model.",
    technique="Coq proof over regenerated output constants/skeletons + sink-sampling system-level correspondence"),
 "C17": dict(
    text="Coq theorems C17_one_write (append-mode open without truncation, exactly one write(2) per framed record, from the regenerated open flags / write pattern of "
         "fileoutput.c) and C17_whole_records (for any initial content, any number of writers, any record sizes and EVERY interleaving of their write calls the file is the old "
         "content followed by a permutation of whole records; by induction over the merge). Tied by strace of the real output for sizes around every block boundary up to 1 MiB "
         "over pre-existing contents; concurrent writer stress as search.",
    ref="DESIGN.md section 7 C17",
    note="Trusted: Coq kernel; tr_output; strace. ASSUMED, not proved: the kernel executes each O_APPEND write to a local regular file as one indivisible append; short writes outside the model (partial).",
    technique="Coq proof (permutation under interleaving) + strace syscall-pattern correspondence"),
}

# properties built by the round-2 builders deliver their manifest text as notes/manifest-Cxx.json
import glob as _glob
for _f in sorted(_glob.glob(os.path.join(V, "notes", "manifest-C*.json"))):
    _p = os.path.basename(_f)[len("manifest-"):-len(".json")]
    if os.path.exists(os.path.join(V, "checks", _p.lower() + ".py")):
        CLAIMED[_p] = json.load(open(_f))

# lead's additions on top of the builders' texts
EXTRA = {
 "C11": " Joined with C08 and the end-to-end model (System/History.v, props/Properties_C11sys.v): with the REAL file -> settings function (Config.Model.load over the regenerated option tables) "
        "C11_effective_settings (for every history of file contents, both variants: the settings in force for call k = defaults overlaid with file k) and "
        "C11_records_depend_on_current_file_only (what call k hands to the sinks = log_exec file_k); tied by a model-based history stream: the composed model predicts every call "
        "of histories with the file rewritten between calls, in both builds.",
 "C04": " End to end (System/Compose.v, props/Properties_C04sys.v): C04_sys_dropped_silent / C04_sys_one_record / C04_sys_ideal_is_documented state the same for the records as a function "
        "of the configuration FILE (Config.load -> Filter.check_chain -> Expand.log_message -> Output.action_el), tied by a whole-run stream: generated snoopy.ini files x calls through the "
        "production wrapper compared with the per-run extraction of the composed model (which contains the regenerated constants).",
}
for _p, _t in EXTRA.items():
    if _p in CLAIMED:
        CLAIMED[_p] = dict(CLAIMED[_p], text=CLAIMED[_p]["text"] + _t)

PENDING_REASON = "not claimed yet: the Coq model and its tie for this property are not built at this commit (planned, see DESIGN.md section 12)"


def main():
    props = [json.loads(l)["id"] for l in open(os.path.join(V, "properties.jsonl"))]
    checks = []
    for p in props:
        if p in CLAIMED:
            c = CLAIMED[p]
            checks.append({
                "property_id": p,
                "quick_cmd": "./check %s quick" % p,
                "thorough_cmd": "./check %s thorough" % p,
                "evidence_file": "evidence/%s.json" % p,
                "replay_cmd_template": "./check %s --replay {path}" % p,
                "engine": "coq-proof+correspondence",
                "level_claimed": {"category": "proof", "text": c["text"], "design_ref": c["ref"]},
                "level_note": c["note"],
                "technique": c["technique"]})
    man = {
        "version": 1,
        "setup_cmd": "./setup.sh",
        "hooks": {"guard": "A2O_SNOOPY_VERIF",
                  "enable": "checks compile the snapshot of /repo with -DA2O_SNOOPY_VERIF (vlib/core.py cflags); no hook is present in the source at this commit",
                  "baseline_off_cmd": "/verif/tools/run_baseline.sh",
                  "source_commits": [], "add_only": True},
        "engines": [{"name": "coq-proof+correspondence", "path": "check",
                     "serves_properties": sorted(CLAIMED),
                     "kind_free_text": "Coq 8.16.1 theorems over hand-written models parametrised by constants regenerated from /repo (T1) and call skeletons (T2); "
                                       "extraction to OCaml and differential correspondence against the code built from the working tree (T3)"}],
        "checks": checks,
        "notes": "See DESIGN.md. known-findings.txt lists known:/fixed: entries. Replay files are written under replays/.",
        "not_applicable": [{"property_id": p, "reason": PENDING_REASON} for p in props if p not in CLAIMED],
    }
    json.dump(man, open(os.path.join(V, "MANIFEST.json"), "w"), indent=1)
    try:
        import jsonschema
        jsonschema.validate(man, json.load(open("/root/.vp/MANIFEST.schema.json")))
        print("MANIFEST.json valid;", len(checks), "checks")
    except ImportError:
        print("MANIFEST.json written (jsonschema not available)")


if __name__ == "__main__":
    main()
