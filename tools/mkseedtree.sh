#!/bin/bash
# usage: mkseedtree.sh <dir>   -- scratch git worktree of /repo HEAD plus the (untracked) configured/built state, ready for make / make check
set -e
d=$1
git -C /repo worktree add --detach "$d" HEAD >/dev/null 2>&1
rsync -a --exclude=.git --ignore-existing /repo/ "$d"/
# make sure make does not think the sources are older than the objects of /repo: rebuild lazily is fine
echo "$d ready"
