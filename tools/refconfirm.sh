#!/bin/bash
# usage: refconfirm.sh <refactors/<id>>  -- confirms a behaviour-preserving refactoring in a scratch worktree of /repo HEAD: the patch applies,
# the tree builds, the repository's suite still passes (172 stable tests; one retry, because one timing test of the suite is load-sensitive).
set -u
S=$(readlink -f "$1"); V=$(cd "$(dirname "$0")/.." && pwd)
d=$(mktemp -d /tmp/refconfirm.XXXXXX); rmdir "$d"
"$V/tools/mkseedtree.sh" "$d" >/dev/null || exit 2
trap 'git -C /repo worktree remove --force "$d" 2>/dev/null; rm -rf "$d"' EXIT
git -C "$d" apply "$S/patch.diff" 2>/dev/null || { echo "patch does not apply"; exit 2; }
( cd "$d" && make -j8 >/dev/null 2>&1 ) || { echo "DOES NOT BUILD"; exit 1; }
b=$("$V/tools/run_baseline.sh" "$d" 2>&1 | grep '^baseline' | cut -c1-70)
case "$b" in *"172 of 172"*) ;; *) b=$("$V/tools/run_baseline.sh" "$d" 2>&1 | grep '^baseline' | cut -c1-70);; esac
echo "$b"
python3 - "$S/meta.json" "$b" <<'PY'
import json, sys
p, b = sys.argv[1], sys.argv[2]
m = json.load(open(p)); m["confirmed"] = {"by": "tools/refconfirm.sh (scratch worktree of /repo HEAD)", "builds": True, "baseline": b[:60], "ok": "172 of 172" in b}
json.dump(m, open(p, "w"), indent=1)
PY
