#!/usr/bin/env python3
"""usage: refmatrix.py [--glob '*'] [--jobs N]
Behaviour-preserving refactorings under /verif/refactors/<id>/ (patch.diff, README.md): for each one, run the quick check of every
property whose anchored files the patch touches (properties.jsonl anchors; a directory anchor matches everything below it) against
a scratch worktree with the patch applied, and record in meta.json which checks stay quiet and which raise an alarm (and of what
kind).  An alarm on a harmless rewrite is allowed by the brief (reported with no-failing-input-found) but is what we try to keep rare."""
import argparse, glob, json, os, re, subprocess
from concurrent.futures import ThreadPoolExecutor
V = os.path.dirname(os.path.dirname(os.path.abspath(__file__)))
PROPS = [json.loads(l) for l in open(os.path.join(V, "properties.jsonl"))]


def touched(patch):
    return sorted(set(re.findall(r"^\+\+\+ b/(\S+)", open(patch).read(), re.M)))


def props_for(files):
    out = []
    for p in PROPS:
        anchors = p["anchors"]["files"]
        if any(f == a or f.startswith(a.rstrip("/") + "/") for f in files for a in anchors):
            out.append(p["id"])
    return out


def run_one(d):
    patch = os.path.join(d, "patch.diff")
    files = touched(patch)
    props = props_for(files)
    if not props:
        return d, files, {}
    p = subprocess.run([os.path.join(V, "tools", "seedtest.sh"), patch, "quick"] + props, stdout=subprocess.PIPE, stderr=subprocess.STDOUT, text=True)
    res, cur = {}, None
    for line in p.stdout.splitlines():
        m = re.match(r"(C\d\d) exit=(\d+) (\d+) violation line\(s\): (.*)", line)
        if m:
            cur = m.group(1)
            res[cur] = {"exit": int(m.group(2)), "violations": int(m.group(3)), "nfi": "no-failing-input-found" in m.group(4), "sigs": []}
            continue
        m = re.match(r"\s+sig=(\S+) kind=(\S+) detail=(.*)", line)
        if m and cur:
            res[cur]["sigs"].append({"sig": m.group(1), "kind": m.group(2), "detail": m.group(3)[:240]})
    return d, files, res


def main():
    ap = argparse.ArgumentParser()
    ap.add_argument("--glob", default="*"); ap.add_argument("--jobs", type=int, default=3)
    a = ap.parse_args()
    dirs = sorted(x for x in glob.glob(os.path.join(V, "refactors", a.glob)) if os.path.exists(os.path.join(x, "patch.diff")))
    with ThreadPoolExecutor(a.jobs) as ex:
        out = list(ex.map(run_one, dirs))
    for d, files, res in out:
        mp = os.path.join(d, "meta.json")
        meta = json.load(open(mp)) if os.path.exists(mp) else {"id": os.path.basename(d)}
        meta["files"] = files
        meta.setdefault("checks", {}).update(res)
        json.dump(meta, open(mp, "w"), indent=1)
        print("%-34s %s" % (os.path.basename(d), "  ".join("%s:%s" % (p, "quiet" if r["exit"] == 0 else ("ALARM(%s)" % (r["sigs"][0]["sig"] if r["sigs"] else "?") if r["exit"] == 1 else "ERR%d" % r["exit"])) for p, r in sorted(res.items()))))


if __name__ == "__main__":
    main()
