#!/usr/bin/env python3
"""usage: refprompts.py <tag> <n> [Cxx ...]  -- writes /tmp/refprompt-<tag>-Cxx.txt from notes/REFACTOR_PROMPT.tmpl: the property text, the files it is
anchored in (properties.jsonl), and the titles of the refactorings already kept for those files (refactors/*/README.md first line), which a new
batch must differ from.  Nothing else from /verif goes into the prompt."""
import glob, json, os, re, sys
V = os.path.dirname(os.path.dirname(os.path.abspath(__file__)))
tag, n = sys.argv[1], int(sys.argv[2])
want = sys.argv[3:]
tmpl = open(os.path.join(V, "notes", "REFACTOR_PROMPT.tmpl")).read()
done = {}
for d in sorted(glob.glob(os.path.join(V, "refactors", "*"))):
    try:
        meta = json.load(open(os.path.join(d, "meta.json")))
        title = open(os.path.join(d, "README.md")).readline().strip().lstrip("# ").strip()
    except Exception:
        continue
    for f in meta.get("files", []):
        done.setdefault(f, []).append(title)
for l in open(os.path.join(V, "properties.jsonl")):
    p = json.loads(l)
    if want and p["id"] not in want:
        continue
    files = []
    for a in p["anchors"]["files"]:
        full = os.path.join("/repo", a)
        if os.path.isdir(full):
            files += sorted(os.path.relpath(x, "/repo") for x in glob.glob(full.rstrip("/") + "/*.c"))
        else:
            files.append(a)
    d = "/tmp/ref-%s" % p["id"]
    s = tmpl.format(dir=d, n=n, files=", ".join("`%s`" % f for f in files), title=p["title"], statement=p["statement"])
    tried = sorted(set(t for f in files for t in done.get(f, [])))
    if tried:
        s += ("\nRefactorings of the following kinds have ALREADY been made to these files by others; yours must be different (other functions, other kinds "
              "of clean-up: e.g. change a loop's exit from goto to break or vice versa, turn an if-chain into a switch or back, replace a ternary by if/else, "
              "introduce or remove a local alias pointer, swap the operands of a commutative comparison, move a declaration to first use, replace an index loop by a "
              "pointer loop, wrap a repeated expression in a file-local macro or static inline function, reorder functions/includes, split a long function in two):\n"
              + "\n".join("- " + t for t in tried) + "\n")
    open("/tmp/refprompt-%s-%s.txt" % (tag, p["id"]), "w").write(s)
    print(p["id"], len(files), "files;", len(tried), "already done")
