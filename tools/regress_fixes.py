#!/usr/bin/env python3
"""usage: regress_fixes.py [--tier quick] [--jobs N] [--only <commit-prefix>,...]
For every `fixed: property=<id> <commit> ...` line of known-findings.txt: re-introduce the defect (git revert -n of the commit, together
with the later commits that build on it) in a scratch worktree of /repo HEAD, run the property's check against it and report whether
the check fires (exit 1) with a concrete replay.  "a fixed entry suppresses nothing: the check reports the violation again if it returns"."""
import argparse, os, re, subprocess, sys, tempfile, json, shutil
from concurrent.futures import ThreadPoolExecutor
V = os.path.dirname(os.path.dirname(os.path.abspath(__file__)))
# commits that must be reverted together with the key (later repairs that touch the same lines / complete the repair)
ALSO = {"6a78d5f": ["be92640"], "0a00abe": ["462e02a"], "f0b72c2": ["d884ce3"], "f502b28": ["2195440"], "2e13e9e": ["e70bb2b"], "8c79d1e": []}


def sh(cmd, **kw):
    return subprocess.run(cmd, stdout=subprocess.PIPE, stderr=subprocess.STDOUT, text=True, **kw)


def one(job):
    commit, props, tier = job
    d = tempfile.mkdtemp(prefix="regress.", dir="/tmp"); os.rmdir(d)
    out = tempfile.mkdtemp(prefix="regress-out.", dir="/tmp")
    res = {}
    try:
        sh([os.path.join(V, "tools", "mkseedtree.sh"), d])
        for c in ALSO.get(commit, [])[::-1] + [commit]:
            p = sh(["git", "-C", d, "revert", "-n", c])
            if p.returncode != 0:
                sh(["git", "-C", d, "revert", "--abort"])
                return commit, {p_: {"exit": None, "note": "revert of %s does not apply: %s" % (c, p.stdout[-200:])} for p_ in props}

        def run(prop):
            env = dict(os.environ, VERIF_REPO=d, VERIF_ALT_OUT=out)
            p = sh(["timeout", "2400", "./check", prop, tier], cwd=V, env=env)
            vio = [l for l in p.stdout.splitlines() if l.startswith("VIOLATION")]
            sigs = []
            for l in vio[:3]:
                m = re.search(r"replay=(\S+)", l)
                if m and os.path.exists(m.group(1)):
                    r = json.load(open(m.group(1)))
                    sigs.append("%s%s" % (r.get("sig"), " (nfi)" if "no-failing-input-found" in l else ""))
            return prop, {"exit": p.returncode, "violations": len(vio), "concrete": any("no-failing-input-found" not in l for l in vio), "sigs": sigs}
        with ThreadPoolExecutor(3) as ex:
            for prop, r in ex.map(run, props):
                res[prop] = r
    finally:
        sh(["git", "-C", "/repo", "worktree", "remove", "--force", d])
        shutil.rmtree(d, ignore_errors=True); shutil.rmtree(out, ignore_errors=True)
    return commit, res


def main():
    ap = argparse.ArgumentParser()
    ap.add_argument("--tier", default="quick"); ap.add_argument("--jobs", type=int, default=3); ap.add_argument("--only", default="")
    a = ap.parse_args()
    by_commit, what = {}, {}
    for line in open(os.path.join(V, "known-findings.txt")):
        m = re.match(r"fixed:\s+property=(C\d\d)\s+([0-9a-f]{7,})\s+(.*)", line)
        if m:
            by_commit.setdefault(m.group(2), []).append(m.group(1)); what[m.group(2)] = m.group(3)[:90]
    claimed = set(c["property_id"] for c in json.load(open(os.path.join(V, "MANIFEST.json")))["checks"])
    jobs = [(c, [p for p in ps if p in claimed], a.tier) for c, ps in by_commit.items() if not a.only or any(c.startswith(o) for o in a.only.split(","))]
    with ThreadPoolExecutor(a.jobs) as ex:
        results = list(ex.map(one, jobs))
    summary = {}
    for commit, res in results:
        for prop, r in sorted(res.items()):
            ok = r.get("exit") == 1 and r.get("violations")
            print("%s %s %-8s %s  %s | %s" % (commit, prop, "FIRES" + ("" if r.get("concrete") else "(nfi)") if ok else "MISSED(exit=%s)" % r.get("exit"),
                                             ",".join(r.get("sigs", []))[:110], r.get("note", ""), what[commit]))
            summary["%s:%s" % (commit, prop)] = r
    json.dump(summary, open(os.path.join(V, "notes", "regress-fixes.json"), "w"), indent=1)


if __name__ == "__main__":
    main()
