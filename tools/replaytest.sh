#!/bin/bash
# usage: replaytest.sh <seeded/<id>> <Cxx>  -- run the check on the seeded tree, then --replay the produced file on the seeded tree (must fail) and on /repo (must pass)
S=$(readlink -f "$1"); P=$2; V=$(cd "$(dirname "$0")/.." && pwd); cd "$V"
d=$(mktemp -d /tmp/replaytest.XXXXXX); rmdir "$d"; out=$(mktemp -d /tmp/replaytest-out.XXXXXX)
tools/mkseedtree.sh "$d" >/dev/null; trap 'git -C /repo worktree remove --force "$d" 2>/dev/null; rm -rf "$d" "$out"' EXIT
git -C "$d" apply "$S/patch.diff" || exit 2
VERIF_REPO="$d" VERIF_ALT_OUT="$out" ./check "$P" quick > "$out/run.log" 2>&1; e=$?
r=$(grep -o 'replay=[^ ]*' "$out/run.log" | head -1 | cut -d= -f2)
echo "$P on $(basename $S): exit=$e replay=$(basename "$r")"
[ -n "$r" ] || exit 1
VERIF_REPO="$d" VERIF_ALT_OUT="$out" ./check "$P" --replay "$r" > "$out/rep1.log" 2>&1; echo "  replay on the changed tree: exit=$? ($(tail -1 "$out/rep1.log" | cut -c1-100))"
cp "$r" "$out/keep.json"
./check "$P" --replay "$out/keep.json" > "$out/rep2.log" 2>&1; echo "  replay on /repo:            exit=$? ($(tail -1 "$out/rep2.log" | cut -c1-100))"
