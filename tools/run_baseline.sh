#!/bin/bash
# usage: run_baseline.sh [repo_dir]
# Runs the repository's own test suite (guard A2O_SNOOPY_VERIF off: the normal build never defines it)
# and compares the PASS set with /root/.vp/BASELINE.json stable_pass.
R=${1:-/repo}
export R
L=$(mktemp -d /tmp/snoopy_baseline.XXXXXX)
export L
trap 'rm -rf "$L"' EXIT
cd "$R" && make -j16 > $L/make.log 2>&1 || { echo "build failed"; tail -20 $L/make.log; exit 1; }
make -k check > $L/check.log 2>&1
python3 - <<'PY'
import json,re
base=json.load(open('/root/.vp/BASELINE.json'))
want=set(base['stable_pass'])
log=open(__import__('os').environ['L']+'/check.log').read()
# automake prints "PASS: name.sh" per test within "Entering directory '/repo/tests/<dir>'"
cur=None; got=set(); fail=set()
for line in log.splitlines():
    m=re.search(r"Entering directory '"+re.escape(__import__('os').environ['R'])+r"/tests/([a-z]+)'",line)
    if m: cur=m.group(1)
    m=re.match(r"(PASS|FAIL|XFAIL|ERROR): (\S+)",line)
    if m and cur:
        (got if m.group(1)=='PASS' else fail).add("tests/%s/%s"%(cur,m.group(2)))
missing=sorted(want-got)
print("baseline: %d of %d stable tests pass; not passing: %s; other non-pass: %s"%(len(want&got),len(want),missing,sorted(fail-set(base.get('always_fail',[])))))
raise SystemExit(0 if not missing else 1)
PY
