#!/bin/bash
# usage: runall.sh [quick|thorough] [jobs]   -- every check registered in MANIFEST.json, in parallel; one summary line each
tier=${1:-quick}; jobs=${2:-6}
V=$(cd "$(dirname "$0")/.." && pwd); cd "$V"
L=$(mktemp -d /tmp/runall.XXXXXX)
python3 -c "import json;print('\n'.join(c['property_id'] for c in json.load(open('MANIFEST.json'))['checks']))" > $L/props
cat $L/props | xargs -P "$jobs" -I{} bash -c "s=\$(date +%s); ./check {} $tier > $L/{}.log 2>&1; e=\$?; echo \"{} exit=\$e \$((\$(date +%s)-s))s \$(grep -c '^VIOLATION' $L/{}.log) VIOLATION \$(grep -c '^KNOWN-FINDING' $L/{}.log) KNOWN\""
echo "logs: $L"
