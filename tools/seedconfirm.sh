#!/bin/bash
# usage: seedconfirm.sh <dir with patch.diff and demo.sh>
# Confirms a seeded change in a scratch worktree of /repo HEAD: (1) demo passes on the clean tree, (2) the patch applies and the
# tree builds, (3) the repository's suite still passes (172 stable tests), (4) the demo fails with the change.  Prints one line each.
set -u
S=$(readlink -f "$1")
V=$(cd "$(dirname "$0")/.." && pwd)
d=$(mktemp -d /tmp/seedconfirm.XXXXXX); rmdir "$d"
"$V/tools/mkseedtree.sh" "$d" >/dev/null || exit 2
trap 'git -C /repo worktree remove --force "$d" 2>/dev/null; rm -rf "$d"' EXIT
( cd "$d" && make -j8 >/dev/null 2>&1 ) || { echo "clean tree does not build"; exit 2; }
( cd "$S" && timeout 1200 bash ./demo.sh "$d" >/tmp/seedconfirm.$$.clean 2>&1 ); c=$?
echo "demo on clean tree: exit=$c ($([ $c -eq 0 ] && echo passes || echo FAILS))"
git -C "$d" apply "$S/patch.diff" 2>/dev/null || ( cd "$d" && patch -p1 --fuzz=3 -s < "$S/patch.diff" >/dev/null 2>&1 ) || { echo "patch does not apply"; exit 2; }
( cd "$d" && make -j8 >/tmp/seedconfirm.$$.make 2>&1 ) && echo "with change: builds" || { echo "with change: DOES NOT BUILD"; tail -5 /tmp/seedconfirm.$$.make; exit 1; }
b=$("$V/tools/run_baseline.sh" "$d" 2>&1 | grep '^baseline' | cut -c1-80); echo "$b"
rm -f "$d"/tests/output/*.sock.out
( cd "$S" && timeout 1200 bash ./demo.sh "$d" >/tmp/seedconfirm.$$.mut 2>&1 ); m=$?
echo "demo with change: exit=$m ($([ $m -ne 0 ] && echo fails || echo PASSES))"
if [ -f "$S/meta.json" ]; then
python3 - "$S/meta.json" "$c" "$m" "$b" <<'PY'
import json, sys
p, c, m, b = sys.argv[1], int(sys.argv[2]), int(sys.argv[3]), sys.argv[4]
meta = json.load(open(p))
meta["confirmed"] = {"by": "tools/seedconfirm.sh (scratch worktree of /repo HEAD)", "demo_on_clean_tree": "exit=%d" % c, "builds": True,
                     "baseline": b[:60], "demo_with_change": "exit=%d" % m, "ok": c == 0 and m != 0 and "172 of 172" in b}
json.dump(meta, open(p, "w"), indent=1)
PY
fi
rm -f /tmp/seedconfirm.$$.*
