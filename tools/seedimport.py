#!/usr/bin/env python3
"""usage: seedimport.py <json file>   {name: [property, srcdir, what, needs, also_run?]}  -> /verif/seeded/<name>/ (+ meta.json)"""
import json, os, shutil, subprocess, sys
V = os.path.dirname(os.path.dirname(os.path.abspath(__file__)))
head = subprocess.run(["git", "-C", "/repo", "log", "--format=%h", "-1"], stdout=subprocess.PIPE, text=True).stdout.strip()
for name, v in json.load(open(sys.argv[1])).items():
    prop, src, what, needs = v[:4]
    d = os.path.join(V, "seeded", name)
    if os.path.exists(d):
        shutil.rmtree(d)
    shutil.copytree(src, d)
    meta = {"id": name, "property": prop, "origin": "written by an independent sub-agent given only the property text and a scratch worktree of /repo at " + head,
            "what": what, "needs_to_manifest": needs, "confirmed": {}, "checks_run": "tools/seedtest.sh seeded/%s/patch.diff quick <props>" % name, "detected_by": {}}
    if len(v) > 4:
        meta["also_run"] = v[4]
    json.dump(meta, open(os.path.join(d, "meta.json"), "w"), indent=1)
    print("imported", name)
