#!/usr/bin/env python3
"""usage: seedmatrix.py [--tier quick] [--seeds glob] [--props C01,C04,...] [--jobs N]
Runs the named checks (default: the seed's own property) against every seeded change under /verif/seeded/ in a scratch
worktree each (tools/seedtest.sh), records the outcome in seeded/<id>/meta.json ("detected_by") and prints the matrix."""
import argparse, glob, json, os, re, subprocess, sys
from concurrent.futures import ThreadPoolExecutor
V = os.path.dirname(os.path.dirname(os.path.abspath(__file__)))


def run_one(seed, props, tier):
    p = subprocess.run([os.path.join(V, "tools", "seedtest.sh"), os.path.join(seed, "patch.diff"), tier] + props,
                       stdout=subprocess.PIPE, stderr=subprocess.STDOUT, text=True)
    res, cur = {}, None
    for line in p.stdout.splitlines():
        m = re.match(r"(C\d\d) exit=(\d+) (\d+) violation line\(s\): (.*)", line)
        if m:
            cur = m.group(1)
            res[cur] = {"exit": int(m.group(2)), "violations": int(m.group(3)),
                        "concrete_replay": int(m.group(3)) > 0 and "no-failing-input-found" not in m.group(4).split("VIOLATION")[1] if int(m.group(3)) else False,
                        "sigs": []}
            continue
        m = re.match(r"\s+sig=(\S+) kind=(\S+) detail=(.*)", line)
        if m and cur:
            res[cur]["sigs"].append({"sig": m.group(1), "kind": m.group(2), "detail": m.group(3)[:200]})
    return seed, res


def main():
    ap = argparse.ArgumentParser()
    ap.add_argument("--tier", default="quick")
    ap.add_argument("--seeds", default="*")
    ap.add_argument("--props", default="")
    ap.add_argument("--jobs", type=int, default=3)
    a = ap.parse_args()
    seeds = sorted(d for d in glob.glob(os.path.join(V, "seeded", a.seeds)) if os.path.exists(os.path.join(d, "patch.diff")))
    jobs = []
    for s in seeds:
        meta = json.load(open(os.path.join(s, "meta.json")))
        props = a.props.split(",") if a.props else [meta["property"]] + meta.get("also_run", [])
        jobs.append((s, props))
    with ThreadPoolExecutor(a.jobs) as ex:
        out = list(ex.map(lambda j: run_one(j[0], j[1], a.tier), jobs))
    for s, res in out:
        mp = os.path.join(s, "meta.json")
        meta = json.load(open(mp))
        meta.setdefault("detected_by", {})
        for prop, r in res.items():
            meta["detected_by"][prop] = {"tier": a.tier, "exit": r["exit"], "violation_lines": r["violations"], "concrete_replay": r["concrete_replay"],
                                         "sigs": r["sigs"][:3]}
        json.dump(meta, open(mp, "w"), indent=1)
        print("%-40s %s" % (os.path.basename(s), "  ".join("%s:%s" % (p, "CAUGHT" + ("" if r["concrete_replay"] else "(nfi)") if r["exit"] == 1 and r["violations"] else ("quiet" if r["exit"] == 0 else "ERR%d" % r["exit"])) for p, r in sorted(res.items()))))


if __name__ == "__main__":
    main()
