#!/bin/bash
# usage: seedpipeline.sh '<glob under seeded/>' [jobs]   -- confirm each seeded change (records into meta.json), then run the check matrix on the confirmed ones
V=$(cd "$(dirname "$0")/.." && pwd); cd "$V"
for m in seeded/$1; do
  [ -f "$m/patch.diff" ] || continue
  ok=$(python3 -c "import json;print(json.load(open('$m/meta.json')).get('confirmed',{}).get('ok',False))")
  [ "$ok" = "True" ] && continue
  echo "== confirm $m"; tools/seedconfirm.sh "$m" 2>&1 | grep -v WARNING
done
tools/seedmatrix.py --seeds "$1" --jobs "${2:-3}" 2>&1 | grep -v WARNING
