#!/usr/bin/env python3
"""usage: seedprompts.py <round-tag> <n> [Cxx ...]   -- writes /tmp/seedprompt-<tag>-Cxx.txt from notes/SEED_PROMPT.tmpl: the property text
(properties.jsonl) and the list of seeded changes already kept for that property (seeded/*/meta.json "what"), which a new round must differ from.
The prompt contains nothing else from /verif."""
import glob, json, os, sys
V = os.path.dirname(os.path.dirname(os.path.abspath(__file__)))
tag, n = sys.argv[1], int(sys.argv[2])
want = sys.argv[3:]
tmpl = open(os.path.join(V, "notes", "SEED_PROMPT.tmpl")).read()
for l in open(os.path.join(V, "properties.jsonl")):
    p = json.loads(l)
    if want and p["id"] not in want:
        continue
    d = "/tmp/seed-%s" % p["id"]
    s = tmpl.format(dir=d, title=p["title"], statement=p["statement"], quant=p["quantifier"]["text"], n=n)
    tried = []
    for m in sorted(glob.glob(os.path.join(V, "seeded", "*", "meta.json"))):
        meta = json.load(open(m))
        if meta.get("property") == p["id"] and meta.get("what"):
            tried.append("- " + meta["what"])
    if tried:
        s += "\nChanges of the following kinds have ALREADY been tried by others; yours must be different in mechanism (another function, another failure mode, another trigger), not variations of these:\n" + "\n".join(tried) + "\n"
    open("/tmp/seedprompt-%s-%s.txt" % (tag, p["id"]), "w").write(s)
    print(p["id"], len(tried), "already tried")
