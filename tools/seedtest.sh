#!/bin/bash
# usage: seedtest.sh <patch.diff> <tier> <Cxx> [Cyy ...]
# Applies a seeded change to a scratch worktree of /repo HEAD (never to /repo), runs the named checks against it
# (VERIF_REPO=<worktree>; evidence/replays go to an alternate output dir, /verif's own evidence is not touched),
# prints one line per check, removes the worktree.
set -u
patch=$(readlink -f "$1"); tier=$2; shift 2
V=$(cd "$(dirname "$0")/.." && pwd)
d=$(mktemp -d /tmp/seedtest.XXXXXX); rmdir "$d"
"$V/tools/mkseedtree.sh" "$d" >/dev/null || exit 2
trap 'git -C /repo worktree remove --force "$d" 2>/dev/null; rm -rf "$d" "$out"' EXIT
out=$(mktemp -d /tmp/seedtest-out.XXXXXX)
# the change was written against an earlier HEAD: fall back to patch(1) with fuzz, when later fix commits moved the context
if ! git -C "$d" apply "$patch" 2>/dev/null && ! ( cd "$d" && patch -p1 --fuzz=3 -s < "$patch" >/dev/null 2>&1 ); then echo "patch does not apply"; exit 2; fi
for p in "$@"; do
  ( cd "$V" && VERIF_REPO="$d" VERIF_ALT_OUT="$out" timeout 3000 ./check "$p" "$tier" > "$out/$p.log" 2>&1; echo "$p exit=$? $(grep -c '^VIOLATION' "$out/$p.log") violation line(s): $(grep '^VIOLATION' "$out/$p.log" | head -3 | tr '\n' ' ')"
    for r in $(grep -o 'replay=[^ ]*' "$out/$p.log" | cut -d= -f2 | head -2); do python3 - "$r" <<'PY'
import json,sys
r=json.load(open(sys.argv[1]))
print("   sig=%s kind=%s detail=%s" % (r.get("sig"), r.get("kind"), str(r.get("detail"))[:300].replace("\n"," | ")))
PY
    done ) &
done
wait
