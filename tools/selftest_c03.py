#!/usr/bin/env python3
"""Self-test of the C03 check: hand-made property-breaking changes (and harmless ones) applied to a PRIVATE copy of the tree.
usage: tools/selftest_c03.py <private repo copy> [name ...]      (never point it at /repo)
For each mutation: apply the textual edit, run ./check C03 quick, print exit code + VIOLATION lines + the first detail, `git checkout -- .`"""
import json, os, re, subprocess, sys, glob

VERIF = os.path.dirname(os.path.dirname(os.path.abspath(__file__)))

MUT = [
    # (name, file, old, new, expect_exit)
    ("drop-SOCK_NONBLOCK", "src/output/socketoutput.c", "SOCK_DGRAM|SOCK_CLOEXEC|SOCK_NONBLOCK", "SOCK_DGRAM|SOCK_CLOEXEC", 1),
    ("drop-MSG_DONTWAIT", "src/output/socketoutput.c", "MSG_DONTWAIT|MSG_NOSIGNAL", "MSG_NOSIGNAL", 1),
    ("drop-MSG_NOSIGNAL", "src/output/socketoutput.c", "MSG_DONTWAIT|MSG_NOSIGNAL", "MSG_DONTWAIT", 1),
    ("blocking-socket-and-send", "src/output/socketoutput.c", [("SOCK_DGRAM|SOCK_CLOEXEC|SOCK_NONBLOCK", "SOCK_DGRAM|SOCK_CLOEXEC"), ("MSG_DONTWAIT|MSG_NOSIGNAL", "MSG_NOSIGNAL")], None, 1),
    ("retry-loop-on-EAGAIN", "src/output/socketoutput.c",
     "    if (send(s, logMessage, strlen(logMessage), MSG_DONTWAIT|MSG_NOSIGNAL) == -1) {",
     "    ssize_t sent;\n    do { sent = send(s, logMessage, strlen(logMessage), MSG_DONTWAIT|MSG_NOSIGNAL); } while (sent == -1 && errno == EAGAIN);\n    if (sent == -1) {", 1),
    ("missing-close-on-connect-failure", "src/output/socketoutput.c",
     "    if (connect(s, (struct sockaddr *)&remote, remoteLength) == -1) {\n        close(s);", "    if (connect(s, (struct sockaddr *)&remote, remoteLength) == -1) {", 1),
    ("exit-on-output-failure", "src/output/fileoutput.c", "    if (-1 == fd) {\n        return SNOOPY_OUTPUT_FAILURE;", "    if (-1 == fd) {\n        exit(1);", 1),
    ("wrapper-skips-exec-when-config-unreadable", "src/entrypoint/execve-wrapper.c",
     [("#include \"execve-wrapper.h\"", "#include \"execve-wrapper.h\"\n#include \"configuration.h\""),
      ("    snoopy_action_log_syscall_exec();\n    snoopy_entrypoint_execve_wrapper_exit();\n\n    return (*func) (filename, argv, envp);",
     "    snoopy_action_log_syscall_exec();\n    if (SNOOPY_TRUE != snoopy_configuration_get()->configfile_found) { snoopy_entrypoint_execve_wrapper_exit(); return -1; }\n"
     "    snoopy_entrypoint_execve_wrapper_exit();\n\n    return (*func) (filename, argv, envp);")], None, 1),
    ("reader-returns-early-without-close", "src/filter/exclude_spawns_of.c",
     "        rc = (int) fread(st_buf, 1, ST_BUF_SIZE - 1, statf);\n        st_buf[rc] = '\\0';\n        fclose(statf);",
     "        rc = (int) fread(st_buf, 1, ST_BUF_SIZE - 1, statf);\n        if (rc <= 0) { return -1; }\n        st_buf[rc] = '\\0';\n        fclose(statf);", 1),
    ("file-read-loop-retries-on-error", "src/util/file.c", "        if (ferror(fileHandle)) {", "        if (ferror(fileHandle) && errno == EINTR) { clearerr(fileHandle); continue; }\n        if (ferror(fileHandle)) {", 1),
    ("open-file-sink-O_NONBLOCK-dropped-O_APPEND", "src/output/fileoutput.c", "O_WRONLY|O_CREAT|O_APPEND", "O_WRONLY|O_CREAT|O_TRUNC", 1),
    ("sleep-before-send", "src/output/socketoutput.c", "    /* Send message - returns -1 on error, chars sent on success */", "    usleep(10);", 1),
    ("error-handler-guard-removed", "src/error.c", "    CFG->error_logging_enabled = SNOOPY_FALSE;\n", "", 1),
    # ---- harmless refactorings: the check must stay silent
    ("HARMLESS-strlen-hoisted", "src/output/socketoutput.c",
     "    if (send(s, logMessage, strlen(logMessage), MSG_DONTWAIT|MSG_NOSIGNAL) == -1) {",
     "    size_t msgLen = strlen(logMessage);\n    if (send(s, logMessage, msgLen, MSG_DONTWAIT | MSG_NOSIGNAL) == -1) {", 0),
    ("HARMLESS-flag-order-and-comment", "src/output/socketoutput.c", "SOCK_DGRAM|SOCK_CLOEXEC|SOCK_NONBLOCK", "SOCK_NONBLOCK | SOCK_DGRAM | SOCK_CLOEXEC /* same word */", 0),
    ("HARMLESS-rpname-local-renamed", "src/datasource/rpname.c", [("ppid_int", "parentPidValue")], None, 0),
]


def sh(cmd, **kw):
    return subprocess.run(cmd, stdout=subprocess.PIPE, stderr=subprocess.STDOUT, text=True, **kw)


def main():
    repo = os.path.realpath(sys.argv[1])
    if repo == "/repo":
        sys.exit("refusing to mutate /repo")
    only = sys.argv[2:]
    out = "/tmp/verif-alt-out" + repo.replace("/", "_")
    results = []
    for (name, rel, old, new, expect) in MUT:
        if only and name not in only:
            continue
        sh(["git", "-C", repo, "checkout", "--", "."])
        p = os.path.join(repo, rel)
        text = open(p).read()
        edits = old if isinstance(old, list) else [(old, new)]
        okedit = True
        for (a, b) in edits:
            if a not in text:
                okedit = False
            text = text.replace(a, b)
        if not okedit:
            print("== %s: pattern not found in %s (mutation not applied)" % (name, rel)); continue
        if "errno" in text and "#include <errno.h>" not in text:
            text = text.replace("#include <stdio.h>", "#include <errno.h>\n#include <stdio.h>", 1)
        open(p, "w").write(text)
        env = dict(os.environ, VERIF_REPO=repo)
        r = sh([os.path.join(VERIF, "check"), "C03", "quick"], env=env, cwd=VERIF)
        viol = [l for l in r.stdout.splitlines() if l.startswith("VIOLATION")]
        details = []
        for l in viol[:3]:
            m = re.search(r"replay=(\S+)", l)
            if m and os.path.exists(m.group(1)):
                rep = json.load(open(m.group(1)))
                details.append("%s | %s | %s" % (rep.get("kind"), rep.get("sig"), rep.get("detail", "").split("\n")[0][:230]))
        verdict = "as expected" if r.returncode == expect else "UNEXPECTED"
        print("== %s: exit %d (%s), %d VIOLATION line(s)%s" % (name, r.returncode, verdict, len(viol), " [no-failing-input-found]" if viol and all("no-failing-input-found" in v for v in viol) else ""))
        for d in details:
            print("     " + d)
        if r.returncode == 2:
            print(r.stdout[-600:])
        results.append((name, r.returncode, expect))
        sh(["git", "-C", repo, "checkout", "--", "."])
    r = sh([os.path.join(VERIF, "check"), "C03", "quick"], env=dict(os.environ, VERIF_REPO=repo), cwd=VERIF)
    print("== restored tree: exit %d" % r.returncode)
    bad = [x for x in results if x[1] != x[2]]
    print("SELFTEST %s (%d mutations, %d unexpected)" % ("OK" if not bad and r.returncode == 0 else "FAILED", len(results), len(bad)))
    return 0 if not bad and r.returncode == 0 else 1


if __name__ == "__main__":
    sys.exit(main())
