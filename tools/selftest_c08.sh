#!/bin/bash
# Self-test of the C08 check on a private copy of the repository:
#   usage: tools/selftest_c08.sh <repo-copy>      (the copy must be a clean git checkout; it is restored after every step)
# 1. each fix commit concerning C08 is reverted in turn: the check must exit 1 with a concrete failing input;
# 2. property-breaking mutations that still compile: same;
# 3. a harmless refactoring: the check must stay silent.
R=${1:?repo copy}
V=$(cd "$(dirname "$0")/.." && pwd)
export VERIF_REPO=$R
run() {  # label
  out=$(cd "$V" && ./check C08 quick 2>&1); rc=$?
  viol=$(echo "$out" | grep -c '^VIOLATION')
  nofail=$(echo "$out" | grep -c 'no-failing-input-found')
  sigs=""
  for f in $(echo "$out" | sed -n 's/^VIOLATION property=C08 replay=\([^ ]*\).*/\1/p'); do
    sigs="$sigs $(python3 -c "import json,sys; r=json.load(open('$f')); print(r['sig'] + ('[' + bytes.fromhex(r['failing_input'].split(chr(9))[-1].replace('-','')).decode('latin1')[:40].replace(chr(10),'\\\\n') + ']' if r.get('failing_input') else ''))" 2>/dev/null)"
  done
  echo "| $1 | $rc | $viol | $nofail |$sigs |"
}
restore() { (cd "$R" && git checkout -q -- . ); }
echo "| change | exit | VIOLATION lines | without failing input | signatures [failing input] |"
echo "|---|---|---|---|---|"
restore; run "unchanged tree"
# D5 (f0b72c2) and the later leak fix D11 (d884ce3) touch the same lines of parseValue_output: both are taken out, newest first
(cd "$R" && git show d884ce3 -- src | git apply -R && git show f0b72c2 -- src | git apply -R) && { run "revert f0b72c2 (D5) [with d884ce3]"; } || echo "| revert D5 | could not revert |"
restore
for c in 8c79d1e:D6 3c9b29d:D7 2e13e9e:D17; do
  h=${c%%:*}; d=${c##*:}
  (cd "$R" && git show "$h" -- src lib | git apply -R) || { echo "| revert $d | could not revert |"; continue; }
  run "revert $h ($d)"; restore
done
mut() { # label file sed-expr
  (cd "$R" && sed -i "$3" "$2") ; if (cd "$R" && git diff --quiet); then echo "| $1 | mutation did not apply |"; return; fi
  run "$1"; restore
}
mut "syslog.c: AUTH row returns LOG_CRON (table row swapped)" src/util/syslog.c 's/"AUTH")     == 0) { facilityInt = LOG_AUTH; /"AUTH")     == 0) { facilityInt = LOG_CRON; /'
mut "syslog.c: ToStr rows DAEMON/FTP swapped" src/util/syslog.c 's/(LOG_DAEMON   == facilityInt) { facilityStr = "DAEMON"; /(LOG_DAEMON   == facilityInt) { facilityStr = "FTP"; /'
mut "parser.c: k = 1000" src/util/parser.c 's/factor = 1024;/factor = 1000;/'
mut "parser.c: clamp after min only (max clamp removed)" src/util/parser.c 's/    if (result > valMax) result = valMax;//'
mut "configfile.c: first occurrence wins (message_format)" src/configfile.c 's/    if (SNOOPY_TRUE == CFG->message_format_malloced) {\n/&/; /int snoopy_configfile_parseValue_message_format/,/^}/ s/    if (SNOOPY_TRUE == CFG->message_format_malloced) {/    if (SNOOPY_TRUE == CFG->message_format_malloced) { return SNOOPY_CONFIGFILE_PARSEVALUE_SUCCESS; }\n    if (0) {/'
mut "configfile.c: section check removed" src/configfile.c 's/    if (0 != strcmp(section, "snoopy")) {/    if (0) {/'
mut "ini.c: quote strip on one side only" lib/inih/src/ini.c "s/if ((\*value == '\"') \&\& (value\[strlen(value) - 1\] == '\"')) {/if (value[0] \&\& value[strlen(value) - 1] == '\"') { value[strlen(value) - 1] = '\\\\0'; } else if (0) {/"
mut "configfile.c: registry rows swapped (syslog_level parser under syslog_facility)" src/configfile.c 's/{ "syslog_facility",               { SNOOPY_CONFIGFILE_OPTION_TYPE_STRING, \&snoopy_configfile_parseValue_syslog_facility, /{ "syslog_facility",               { SNOOPY_CONFIGFILE_OPTION_TYPE_STRING, \&snoopy_configfile_parseValue_syslog_level, /'
mut "configfile.c: boolean by first letter loses 't'/'T'" src/configfile.c "s/ || c\[0\]=='t' || c\[0\]=='T'//"
mut "configfile.c: output split at the last ':'" src/configfile.c "s/colonPtr = strchr(confVal, ':');/colonPtr = strrchr(confVal, ':');/"
# not property-breaking: the line buffer size is a parameter of the supported grammar (T1 follows it, model and code agree)
mut "Makefile.am: INI_MAX_LINE=512 (harmless for C08: constant followed by T1)" lib/inih/src/Makefile.am 's/-DINI_MAX_LINE=1024/-DINI_MAX_LINE=512/'
mut "action-conf.c: strings printed bare again" src/cli/action-conf.c 's/printf("%s = \\"%s\\"\\n", optionRegistry\[i\].name, optionValue);/printf("%s = %s\\n", optionRegistry[i].name, optionValue);/'
mut "snoopy.h: log HARDMAX lowered to 65535" src/snoopy.h 's/#define SNOOPY_LOG_MESSAGE_MAX_LENGTH_HARDMAX 1048575/#define SNOOPY_LOG_MESSAGE_MAX_LENGTH_HARDMAX 65535/'
# harmless refactoring: the digit loop written with a for statement and a helper variable (behaviour unchanged)
(cd "$R" && python3 - <<'PY'
p='src/util/syslog.c'
s=open(p).read()
s=s.replace('''    // If there is LOG_ prefix, loose it.
    if (0 == strncmp(facilityStr, "LOG_", 4)) {
        facilityStrAdj = &facilityStr[4];
    }''','''    // If there is LOG_ prefix, loose it.
    if (0 == strncmp(facilityStr, "LOG_", 4)) {
        facilityStrAdj = &facilityStr[4];
    }
    /* harmless refactoring: an unused local and a reordered, equivalent test */
    { int unusedLocal = 0; (void) unusedLocal; }''',1)
open(p,'w').write(s)
p='src/configfile.c'
s=open(p).read()
s=s.replace('''    if (c[0]=='y' || c[0]=='Y' || c[0]=='1' || c[0]=='t' || c[0]=='T') {''','''    if (c[0]=='Y' || c[0]=='y' || c[0]=='T' || c[0]=='t' || c[0]=='1') {''')
open(p,'w').write(s)
PY
)
run "harmless refactoring (letters of getboolean reordered, dead local in syslog.c)"; restore
