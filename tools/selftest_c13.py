#!/usr/bin/env python3
"""Self-test of the C13 check: apply property-breaking (and harmless) edits to a PRIVATE copy of the tree, run the check,
report exit code / VIOLATION line / replay verdict, restore the tree.   usage: tools/selftest_c13.py <repo-copy> [name...]"""
import os, re, subprocess, sys, json
V = os.path.dirname(os.path.dirname(os.path.abspath(__file__)))
R = sys.argv[1]
assert os.path.realpath(R) != "/repo"


def sub(path, old, new, count=1, nth=None):
    p = os.path.join(R, path)
    s = open(p).read()
    if nth is not None:
        idx = -1
        for _ in range(nth):
            idx = s.index(old, idx + 1)
        s = s[:idx] + new + s[idx + len(old):]
    else:
        assert old in s, (path, old)
        s = s.replace(old, new, count)
    open(p, "w").write(s)


def swap_blocks(path, a, b, nth):
    """swap the nth occurrences of two text blocks"""
    p = os.path.join(R, path)
    s = open(p).read()
    ia = ib = -1
    for _ in range(nth):
        ia = s.index(a, ia + 1)
        ib = s.index(b, ib + 1)
    assert ia < ib
    s = s[:ia] + b + s[ia + len(a):ib] + a + s[ib + len(b):]
    open(p, "w").write(s)


DS, FL, OUT, GEN = "src/datasourceregistry.c", "src/filterregistry.c", "src/outputregistry.c", "src/genericregistry.c"
blk = lambda kind, K, n, item: "#ifdef SNOOPY_CONF_%s_ENABLED_%s\n    %s,\n#endif\n" % (K, n, item)
MUT = {
    # --- property-breaking
    "row-in-names-only": lambda: sub(DS, '    "failure",\n', '    "extra",\n    "failure",\n'),
    "row-in-ptrs-only": lambda: sub(FL, "    snoopy_filter_noop,\n};", "    snoopy_filter_noop,\n    snoopy_filter_noop,\n};") or sub(FL, '#ifdef SNOOPY_CONF_FILTER_ENABLED_only_root\n    snoopy_filter_only_root,\n#endif\n', '#ifdef SNOOPY_CONF_FILTER_ENABLED_only_root\n    snoopy_filter_only_root,\n    snoopy_filter_only_root,\n#endif\n'),
    "guard-mismatch": lambda: sub(DS, "#ifdef SNOOPY_CONF_DATASOURCE_ENABLED_egid\n    snoopy_datasource_egid,", "#ifdef SNOOPY_CONF_DATASOURCE_ENABLED_egroup\n    snoopy_datasource_egid,"),
    "rows-reordered-in-ptrs": lambda: swap_blocks(DS, blk("datasource", "DATASOURCE", "cwd", "snoopy_datasource_cwd"), blk("datasource", "DATASOURCE", "datetime", "snoopy_datasource_datetime"), 1),
    "pointer-swapped": lambda: (sub(DS, "    snoopy_datasource_uid,\n", "    snoopy_datasource_TMP,\n"), sub(DS, "    snoopy_datasource_username,\n", "    snoopy_datasource_uid,\n"), sub(DS, "    snoopy_datasource_TMP,\n", "    snoopy_datasource_username,\n")),
    "guard-misspelt-ptrs": lambda: sub(FL, "#ifdef SNOOPY_CONF_FILTER_ENABLED_only_tty\n    snoopy_filter_only_tty,", "#ifdef SNOOPY_CONF_FILTER_ENABLED_only_tyy\n    snoopy_filter_only_tty,"),
    "guard-misspelt-both": lambda: (sub(OUT, '#ifdef SNOOPY_CONF_OUTPUT_ENABLED_stderr\n    "stderr",', '#ifdef SNOOPY_CONF_OUTPUT_ENABLED_stder\n    "stderr",'),
                                    sub(OUT, "#ifdef SNOOPY_CONF_OUTPUT_ENABLED_stderr\n    snoopy_output_stderroutput,", "#ifdef SNOOPY_CONF_OUTPUT_ENABLED_stder\n    snoopy_output_stderroutput,")),
    "guards-swapped-both": lambda: (sub(FL, '#ifdef SNOOPY_CONF_FILTER_ENABLED_only_root\n    "only_root",', '#ifdef SNOOPY_CONF_FILTER_ENABLED_only_uid\n    "only_root",'),
                                    sub(FL, "#ifdef SNOOPY_CONF_FILTER_ENABLED_only_root\n    snoopy_filter_only_root,", "#ifdef SNOOPY_CONF_FILTER_ENABLED_only_uid\n    snoopy_filter_only_root,"),
                                    sub(FL, '#ifdef SNOOPY_CONF_FILTER_ENABLED_only_uid\n    "only_uid",', '#ifdef SNOOPY_CONF_FILTER_ENABLED_only_root\n    "only_uid",'),
                                    sub(FL, "#ifdef SNOOPY_CONF_FILTER_ENABLED_only_uid\n    snoopy_filter_only_uid,", "#ifdef SNOOPY_CONF_FILTER_ENABLED_only_root\n    snoopy_filter_only_uid,")),
    "nesting-dropped-in-names": lambda: sub(DS, '#ifdef SNOOPY_CONF_THREAD_SAFETY_ENABLED\n#ifdef SNOOPY_CONF_DATASOURCE_ENABLED_snoopy_threads\n    "snoopy_threads",\n#endif\n#endif\n', '#ifdef SNOOPY_CONF_DATASOURCE_ENABLED_snoopy_threads\n    "snoopy_threads",\n#endif\n'),
    "duplicate-name": lambda: (sub(OUT, '    "noop",\n', '    "file",\n    "noop",\n'), sub(OUT, "    snoopy_output_noopoutput,\n", "    snoopy_output_devnulloutput,\n    snoopy_output_noopoutput,\n")),
    "lookup-prefix-match": lambda: sub(GEN, "if (strcmp(regArray[i], itemName) == 0) {", "if (strncmp(regArray[i], itemName, strlen(regArray[i])) == 0) {"),
    "lookup-count-off-by-one": lambda: sub(GEN, "(itemId < snoopy_genericregistry_getCount(regArray))", "(itemId <= snoopy_genericregistry_getCount(regArray))"),
    "call-through-wrong-array": lambda: sub(FL, "    return snoopy_filterregistry_ptrs[filterId](filterArg);\n}\n\n\n\n/*\n * callByName", "    return snoopy_filterregistry_ptrs[filterId + 1](filterArg);\n}\n\n\n\n/*\n * callByName"),
    "configure-switch-renamed": lambda: sub("configure.ac", "SNOOPY_CONFIGURE_FILTER_ENABLE( [only_tty],", "SNOOPY_CONFIGURE_FILTER_ENABLE( [only_ttys],"),
    "else-branch-in-names": lambda: sub(DS, '#ifdef SNOOPY_CONF_DATASOURCE_ENABLED_cwd\n    "cwd",\n#endif\n', '#ifdef SNOOPY_CONF_DATASOURCE_ENABLED_cwd\n    "cwd",\n#else\n    "cwd_disabled",\n#endif\n'),
    "lookup-loop-rewritten-wrongly": lambda: sub(GEN, "    for (int i=0 ; 0 != strcmp(regArray[i], \"\") ; i++) {\n        if (strcmp(regArray[i], itemName) == 0) {\n            return i;\n        }\n    }\n\n    /* Not found */\n    return -1;",
                                                 "    int found = -1;\n    for (int i=0 ; 0 != strcmp(regArray[i], \"\") ; i++) {\n        if (strcmp(regArray[i], itemName) == 0) {\n            found = i;\n        }\n    }\n    return found;"),
    "dispatch-fallback-slot0": lambda: sub(OUT, "    return snoopy_outputregistry_callByName(CFG->output, logMessage, CFG->output_arg);",
                                           "    int outputId = snoopy_outputregistry_getIdFromName(CFG->output);\n    if (outputId == -1) {\n        outputId = 0;\n    }\n    return snoopy_outputregistry_callById(outputId, logMessage, CFG->output_arg);"),
    "extra-entry-point": lambda: sub(FL, "/*\n * getCount()\n", "int snoopy_filterregistry_callFirst (char const * const filterArg)\n{\n    return snoopy_filterregistry_ptrs[0](filterArg);\n}\n\n/*\n * getCount()\n"),
    "ext-option-parser-swapped": lambda: (sub("src/configfile.c", '{ "syslog_ident",                  { SNOOPY_CONFIGFILE_OPTION_TYPE_STRING, &snoopy_configfile_parseValue_syslog_ident, ', '{ "syslog_ident",                  { SNOOPY_CONFIGFILE_OPTION_TYPE_STRING, &snoopy_configfile_parseValue_syslog_level, ')),
    # --- harmless
    "harmless-callbyname-inverted": lambda: sub(OUT, "    if (outputId == -1) {\n        return -1;\n    }\n\n    return snoopy_outputregistry_ptrs[outputId](logMessage, outputArg);",
                                                "    if (outputId != -1) {\n        return snoopy_outputregistry_ptrs[outputId](logMessage, outputArg);\n    }\n\n    /* No output with this name */\n    return -1;"),
    "harmless-lookup-restyled": lambda: (
        sub(FL, "    int filterId;\n\n    filterId = snoopy_filterregistry_getIdFromName(filterName);\n    if (filterId == -1) {\n        return -1;\n    }\n\n    return snoopy_filterregistry_ptrs[filterId](filterArg);",
                "    const int id = snoopy_filterregistry_getIdFromName(filterName);\n    if (-1 == id)\n        return -1;\n    else\n        return snoopy_filterregistry_ptrs[id](filterArg);"),
        sub(DS, "    if (SNOOPY_FALSE == snoopy_datasourceregistry_doesIdExist(datasourceId)) {\n        return -1;\n    }\n\n    return snoopy_datasourceregistry_ptrs[datasourceId](resultBuf, resultBufSize, datasourceArg);",
                "    return snoopy_datasourceregistry_doesIdExist(datasourceId) ? snoopy_datasourceregistry_ptrs[datasourceId](resultBuf, resultBufSize, datasourceArg) : -1;"),
        sub(GEN, "    for (int i=0 ; 0 != strcmp(regArray[i], \"\") ; i++) {\n        if (strcmp(regArray[i], itemName) == 0) {\n            return i;\n        }\n    }",
                 "    int i = 0;\n    while (strcmp(regArray[i], \"\") != 0) {\n        if (0 == strcmp(regArray[i], itemName))\n            return i;\n        i++;\n    }"),
        sub(GEN, "    if (snoopy_genericregistry_getIdFromName(regArray, itemName) == -1) {\n        return SNOOPY_FALSE;\n    } else {\n        return SNOOPY_TRUE;\n    }",
                 "    int id = snoopy_genericregistry_getIdFromName(regArray, itemName);\n    return (id < 0) ? SNOOPY_FALSE : SNOOPY_TRUE;"),
        sub(OUT, "    const snoopy_configuration_t *CFG;\n\n    /* Get config pointer */\n    CFG = snoopy_configuration_get();", "    const snoopy_configuration_t * const CFG = snoopy_configuration_get();")),
    "harmless-nested-as-conjunction": lambda: (sub(DS, '#ifdef SNOOPY_CONF_THREAD_SAFETY_ENABLED\n#ifdef SNOOPY_CONF_DATASOURCE_ENABLED_snoopy_threads\n    "snoopy_threads",\n#endif\n#endif\n', '#if defined(SNOOPY_CONF_THREAD_SAFETY_ENABLED) && defined(SNOOPY_CONF_DATASOURCE_ENABLED_snoopy_threads)\n    "snoopy_threads",\n#endif\n'),
                                               sub(DS, '#ifdef SNOOPY_CONF_THREAD_SAFETY_ENABLED\n#ifdef SNOOPY_CONF_DATASOURCE_ENABLED_snoopy_threads\n    snoopy_datasource_snoopy_threads,\n#endif\n#endif\n', '#if defined(SNOOPY_CONF_THREAD_SAFETY_ENABLED) && defined(SNOOPY_CONF_DATASOURCE_ENABLED_snoopy_threads)\n    snoopy_datasource_snoopy_threads,\n#endif\n')),
    "harmless-pair-moved": lambda: (sub(DS, '#ifdef SNOOPY_CONF_DATASOURCE_ENABLED_uid\n    "uid",\n#endif\n', ''), sub(DS, "#ifdef SNOOPY_CONF_DATASOURCE_ENABLED_uid\n    snoopy_datasource_uid,\n#endif\n", ""),
                                    sub(DS, 'char* snoopy_datasourceregistry_names[] = {\n', 'char* snoopy_datasourceregistry_names[] = {\n#ifdef SNOOPY_CONF_DATASOURCE_ENABLED_uid\n    "uid",\n#endif\n'),
                                    sub(DS, 'char const * const arg) = {\n', 'char const * const arg) = {\n#ifdef SNOOPY_CONF_DATASOURCE_ENABLED_uid\n    snoopy_datasource_uid,\n#endif\n')),
    "harmless-if-defined": lambda: (sub(FL, '#ifdef SNOOPY_CONF_FILTER_ENABLED_only_tty\n    "only_tty",', '#if defined(SNOOPY_CONF_FILTER_ENABLED_only_tty)\n    "only_tty",  /* same guard, other spelling */'),
                                    sub(FL, "#ifdef SNOOPY_CONF_FILTER_ENABLED_only_tty\n    snoopy_filter_only_tty,", "#if defined SNOOPY_CONF_FILTER_ENABLED_only_tty\n    snoopy_filter_only_tty,")),
}


def main():
    names = sys.argv[2:] or list(MUT)
    env = dict(os.environ, VERIF_REPO=R)
    for n in names:
        subprocess.run(["git", "-C", R, "checkout", "-q", "--", "."], check=True)
        MUT[n]()
        p = subprocess.run([os.path.join(V, "check"), "C13", "quick"], env=env, stdout=subprocess.PIPE, stderr=subprocess.STDOUT, text=True)
        vio = [l for l in p.stdout.split("\n") if l.startswith("VIOLATION")]
        detail = ""
        rp = ""
        if vio:
            path = re.search(r"replay=(\S+)", vio[0]).group(1)
            rep = json.load(open(path))
            detail = "%s | %s" % (rep["sig"], rep["detail"][:260].replace("\n", " "))
            q = subprocess.run([os.path.join(V, "check"), "C13", "--replay", path], env=env, stdout=subprocess.PIPE, stderr=subprocess.STDOUT, text=True)
            rp = "replay exit %d: %s" % (q.returncode, " / ".join(l.strip() for l in q.stdout.split("\n") if l.strip().startswith("->"))[:200])
        print("== %-26s exit=%d  %s\n     %s\n     %s" % (n, p.returncode, ("; ".join(v.split("replay=")[1].split("/")[-1] for v in vio)), detail, rp))
        if p.returncode == 2:
            print(p.stdout[-1500:])
        sys.stdout.flush()
    subprocess.run(["git", "-C", R, "checkout", "-q", "--", "."], check=True)
    p = subprocess.run([os.path.join(V, "check"), "C13", "quick"], env=env, stdout=subprocess.PIPE, stderr=subprocess.STDOUT, text=True)
    print("== restored tree: exit=%d %s" % (p.returncode, p.stdout.strip()[-300:]))


main()
