import subprocess, json, sys, os, re
REPO=os.environ.get("VERIF_REPO","/tmp/wk-spawn/repo"); F=REPO+"/src/filter/exclude_spawns_of.c"   # a PRIVATE copy of /repo (it is modified and restored with git checkout)
MUTS = {
 "M1-start-at-getpid": [("ppid = getppid(); // We start with the parent", "ppid = getpid(); // We start with the parent")],
 "M2-first-rparen": [("right = strrchr(st_buf, ')');", "right = strchr(st_buf, ')');")],
 "M3-strncmp-prefix": [("if (strcmp(str, *p) == 0) {", "if (strncmp(str, *p, strlen(*p)) == 0) {")],
 "M4-error-drops": [("return (is_ancestor_in_list == 1) ? SNOOPY_FILTER_DROP : SNOOPY_FILTER_PASS;", "return (is_ancestor_in_list != 0) ? SNOOPY_FILTER_DROP : SNOOPY_FILTER_PASS;")],
 "M5-stop-after-first": [("        if (found) {\n            return 1;\n        }\n", "        if (found) {\n            return 1;\n        }\n        break;\n")],
 "M5b-if-instead-of-while": [("while (ppid != 0) {", "if (ppid != 0) {")],
 "M6-short-buffer": [("#define   ST_BUF_SIZE               (46 + ST_COMM_SIZE_MAX)", "#define   ST_BUF_SIZE               (8 + ST_COMM_SIZE_MAX)")],
 "M7-last-token-lost": [("token_count = sepcount +1;", "token_count = sepcount;")],
 "M8-strncmp-15": [("if (strcmp(str, *p) == 0) {", "if (strncmp(str, *p, 4) == 0) {")],
 "M9-first-lparen-last": [("left = strchr(st_buf, '(');", "left = strrchr(st_buf, '(');")],
 "M10-scan-without-state": [('sscanf(right + 1, " %c %d", &st_state, &ppid);\n        if (rc != 2) {', 'sscanf(right + 1, " %d", &ppid); st_state = 0;\n        if (rc != 1) {')],
 "M11-stop-at-pid-1": [("while (ppid != 0) {", "while (ppid > 1) {")],
 "H1-bigger-buffers": [("#define   ST_COMM_SIZE_MAX           32", "#define   ST_COMM_SIZE_MAX           64")],
 "H2-strdup-by-hand": [("    argDup = strdup(arg);", "    argDup = malloc(strlen(arg) + 1);\n    if (argDup != NULL) { memcpy(argDup, arg, strlen(arg) + 1); }")],
}
which = sys.argv[1:] or list(MUTS)
for name in which:
    subprocess.run(["git","-C",REPO,"checkout","--","."],check=True)
    s=open(F).read()
    for a,b in MUTS[name]:
        assert a in s, (name, a)
        s=s.replace(a,b)
    open(F,"w").write(s)
    p=subprocess.run(["./check","C15","quick"],cwd=os.path.dirname(os.path.dirname(os.path.abspath(__file__))),env=dict(os.environ,VERIF_REPO=REPO),stdout=subprocess.PIPE,stderr=subprocess.STDOUT,text=True)
    out=p.stdout.strip().splitlines()
    print("==", name, "exit", p.returncode)
    for l in out:
        if l.startswith("VIOLATION") or l.startswith("CHECK-ERROR") or l.startswith("KNOWN"):
            print("  ", l[:200])
            m=re.search(r"replay=(\S+)", l)
            if m:
                r=json.load(open(m.group(1)))
                print("     sig=%s kind=%s stream=%s" % (r["sig"], r["kind"], r.get("stream")))
                print("     detail:", r["detail"][:300].replace("\n"," "))
                print("     failing_input:", str(r.get("failing_input"))[:160])
    ev=json.load(open(""+os.environ.get("VERIF_ALT_OUT", "/tmp/verif-alt-out"+os.path.realpath(REPO).replace("/","_"))+"/evidence/C15.json"))
    print("   obligations %d/%d notes=%s wall=%s" % (ev["coverage"]["discharged"], ev["coverage"]["obligations"], ev["notes"][:2], ev["wall_s"]))
subprocess.run(["git","-C",REPO,"checkout","--","."],check=True)
