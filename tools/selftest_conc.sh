#!/bin/bash
# Self-test of the C09 / C10 checks: applies each mutation of notes/selftest-conc/ to a private copy of the repository,
# runs the check, prints exit code, VIOLATION lines and the signatures of the replay files, restores the copy.
#   usage: tools/selftest_conc.sh <private repo copy> [pattern]
R=${1:?repo copy}; PAT=${2:-}
V=$(cd "$(dirname "$0")/.." && pwd)
OUT=/tmp/verif-alt-out$(realpath "$R" | tr / _)
for p in "$V"/notes/selftest-conc/*${PAT}*.patch; do
  n=$(basename "$p" .patch); prop=${n%%-*}
  git -C "$R" checkout -q -- . && git -C "$R" apply "$p" || { echo "$n: patch does not apply"; continue; }
  rm -f "$OUT"/replays/$prop-quick-1-*.json
  s=$(date +%s)
  out=$(cd "$V" && VERIF_REPO="$R" ./check $prop quick 2>&1); rc=$?
  e=$(( $(date +%s) - s ))
  echo "== $n: exit $rc (${e}s)"
  echo "$out" | grep -E '^(VIOLATION|KNOWN-FINDING|CHECK-ERROR)' | cut -c1-160
  for f in "$OUT"/replays/$prop-quick-1-*.json; do [ -e "$f" ] && python3 -c "
import json,sys
r=json.load(open('$f')); print('   ', r['sig'], '|', r['kind'], '|', str(r.get('failing_input'))[:140])"; done
  git -C "$R" checkout -q -- .
done
