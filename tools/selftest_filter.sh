#!/bin/bash
# Self-test of the C07 / C14 checks: applies each patch of notes/selftest/filter/ to a PRIVATE copy of the repository,
# runs the check of the property the patch is named after (and, with ALSO_OTHER=1, the other one), prints exit code,
# VIOLATION lines, the detail of the first replay and the exit code of replaying it; restores the copy afterwards.
#   tools/selftest_filter.sh /tmp/wk-filt/repo [pattern]
set -u
REPO=${1:?private repo copy}
PAT=${2:-}
V=$(cd "$(dirname "$0")/.." && pwd)
[ "$(realpath "$REPO")" = "/repo" ] && { echo "refusing to touch /repo"; exit 2; }
cd "$V"
for p in notes/selftest/filter/*${PAT}*.patch; do
  name=$(basename "$p" .patch)
  prop=$(echo "$name" | cut -c1-3 | tr a-z A-Z)
  git -C "$REPO" checkout -q -- . && git -C "$REPO" apply "$V/$p" || { echo "$name: patch does not apply"; continue; }
  props="$prop"; [ -n "${ALSO_OTHER:-}" ] && props="C07 C14"
  for q in $props; do
    t0=$(date +%s)
    out=$(VERIF_REPO="$REPO" ./check "$q" quick 2>&1); rc=$?
    t1=$(date +%s)
    echo "== $name  check=$q  exit=$rc  ($((t1-t0)) s)"
    echo "$out" | grep -E "^(VIOLATION|KNOWN-FINDING|CHECK-ERROR)" | sed 's/^/   /' | head -6
    first=$(echo "$out" | grep -m1 '^VIOLATION' | sed 's/.*replay=\([^ ]*\).*/\1/')
    if [ -n "$first" ] && [ -f "$first" ]; then
      python3 - "$first" <<'PY'
import json, sys
r = json.load(open(sys.argv[1]))
print("   kind=%s sig=%s" % (r.get("kind"), r.get("sig")))
print("   detail: " + str(r.get("detail"))[:400].replace("\n", " "))
print("   failing_input: " + json.dumps(r.get("failing_input"))[:300])
PY
      VERIF_REPO="$REPO" ./check "$q" --replay "$first" > /tmp/selftest-replay.$$ 2>&1; rrc=$?
      echo "   replay exit=$rrc: $(grep -v WARNING /tmp/selftest-replay.$$ | tail -2 | tr '\n' ' ' | cut -c1-300)"
      rm -f /tmp/selftest-replay.$$
    fi
  done
  git -C "$REPO" checkout -q -- .
done
for q in C07 C14; do
  VERIF_REPO="$REPO" ./check "$q" quick > /dev/null 2>&1; echo "== restored tree  check=$q  exit=$?"
done
