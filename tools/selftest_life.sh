#!/bin/bash
# Self-test of the C11 / C16 checks: applies each property-breaking (…-m*/-n*) and harmless (…-h*) patch of notes/selftest-life/ and each
# reverted fix to a PRIVATE copy of the repository, runs the check, prints exit code, VIOLATION lines and the first replay's signature.
#   tools/selftest_life.sh <private repo copy> [pattern]
R=${1:?usage: selftest_life.sh <private repo copy> [pattern]}
V=$(cd "$(dirname "$0")/.." && pwd)
OUT=/tmp/verif-alt-out$(realpath "$R" | tr / _)
cd "$V"
run() {   # label property
  rm -f "$OUT"/replays/$2-quick-1-*.json
  s=$(date +%s)
  out=$(VERIF_REPO=$R ./check $2 quick 2>&1); rc=$?
  e=$(( $(date +%s) - s ))
  echo "## $1 -> $2 exit=$rc (${e}s)"
  echo "$out" | grep -E "VIOLATION|CHECK-ERROR|KNOWN" | sed "s#$OUT/##"
  for f in "$OUT"/replays/$2-quick-1-*.json; do [ -e "$f" ] && python3 - "$f" <<'PY'
import json, sys
d = json.load(open(sys.argv[1]))
fi = d.get("failing_input")
print("   sig=%s kind=%s" % (d["sig"], d["kind"]))
print("   " + d["detail"].replace("\n", " ")[:330])
if fi: print("   failing_input: " + json.dumps(fi)[:260])
PY
  done
}
for p in notes/selftest-life/*${2:-}*.patch; do
  n=$(basename "$p" .patch); prop=$(echo "$n" | cut -c1-3 | tr a-z A-Z)
  (cd "$R" && git checkout -q -- . && git apply "$V/$p") || { echo "## $n: patch does not apply"; continue; }
  run "$n" "$prop"
  (cd "$R" && git checkout -q -- .)
done
if [ -z "${2:-}" ]; then
  for c in 193355e:C11 d884ce3:C11 d884ce3:C16 3892b7f:C16; do
    h=${c%%:*}; prop=${c##*:}
    (cd "$R" && git checkout -q -- . && git show "$h" | git apply -R) || { echo "## revert $h failed"; continue; }
    run "revert-$h" "$prop"
    (cd "$R" && git checkout -q -- .)
  done
  run "unchanged-tree" C11
  run "unchanged-tree" C16
fi
