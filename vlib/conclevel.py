"""System-level harness pieces for C09 / C10: the multi-threaded caller under libsched.so (harness/libsched.c,
harness/tool_mtcaller.c) with the production libsnoopy.so built from the snapshot."""
import os, re, subprocess, shutil
from .core import BUILD, CheckError, sh
from .syslevel import build_prod

MTCALLER = os.path.join(BUILD, "harness", "tool_mtcaller")
LIBSCHED = os.path.join(BUILD, "harness", "libsched.so")
VERIF_HARNESS = os.path.join(os.path.dirname(BUILD), "harness")

TSAN_FLAGS = ("-fsanitize=thread", "-fno-omit-frame-pointer")


def build_tsan(run):
    """thread-safe production library compiled with ThreadSanitizer + a TSan-linked caller (so that libtsan follows
    libsched.so in the search order and libsched's dlsym(RTLD_NEXT) reaches TSan's interceptors)."""
    so = os.path.join(run.scratch, "lib-prod-ts-tsan.so")
    exe = os.path.join(run.scratch, "tool_mtcaller_tsan")
    if not os.path.exists(so):
        objs = run.build_objs("prod-ts-tsan", san=False, entry=True, extra=TSAN_FLAGS)
        sh(["gcc", "-shared", "-fsanitize=thread"] + objs + ["-o", so, "-lpthread", "-ldl"])
    if not os.path.exists(exe):
        sh(["gcc", "-O1", "-g", "-fsanitize=thread", "-rdynamic", "-I" + VERIF_HARNESS, os.path.join(VERIF_HARNESS, "tool_mtcaller.c"),
            "-o", exe, "-lpthread", "-ldl"])
    return so, exe


def call_strings(i, j):
    """what thread i's call j passes (mirrors tool_mtcaller.c one_call)"""
    path = "/nonexistent/T%dC%d" % (i, j)
    argv = ["T%dC%d" % (i, j), "a%d" % i, "x" * min(j + 1, 60)]
    return path, argv


def parse_trace(path):
    out = {"tid": {}, "sync": [], "acq": [], "real": [], "ret": [], "other": [], "raw": []}
    if not os.path.exists(path):
        return out
    for line in open(path, errors="replace"):
        f = line.rstrip("\n").split("\t")
        if not f or not f[0]:
            continue
        out["raw"].append(f)
        if f[0] == "tid":
            out["tid"][int(f[1])] = f[2]
        elif f[0] == "sync":
            out["sync"].append((int(f[1]), int(f[2]), f[3], f[4] if len(f) > 4 else ""))
        elif f[0] == "acq":
            out["acq"].append((int(f[1]), int(f[2]), f[3], f[4] if len(f) > 4 else ""))
        elif f[0] == "real":
            out["real"].append((int(f[1]), int(f[2]), f[3], f[4], f[5] if len(f) > 5 else ""))
        elif f[0] == "ret":
            out["ret"].append((int(f[1]), int(f[2]), int(f[3]), int(f[4])))
        else:
            out["other"].append(f)
    out["sync"].sort()
    out["acq"].sort()
    return out


def run_mt(run, lib, mode, nthreads, ncalls, arg, ini_text, tag, exe=None, timeout=90, env=None, pty_stdin=False):
    """one run of the multi-threaded caller. Returns dict(status, stderr, trace(parsed), out(lines of the file sink), dir)."""
    d = os.path.join(run.scratch, "mt-" + tag)
    if os.path.isdir(d):
        shutil.rmtree(d)
    os.makedirs(d)
    ini = os.path.join(d, "snoopy.ini")
    open(ini, "wb").write(ini_text.replace(b"@D@", d.encode()))
    trace = os.path.join(d, "trace.txt")
    e = {"PATH": "/usr/bin:/bin", "HOME": "/root", "LD_PRELOAD": "%s %s" % (lib, LIBSCHED), "LOGNAME": "verif", "TZ": "UTC"}
    if env:
        e.update(env)
    fds = None
    if pty_stdin:       # a terminal on stdin (data sources that look at the controlling terminal, e.g. ipaddr -> utmp)
        import pty
        fds = pty.openpty()
    try:
        p = subprocess.run([exe or MTCALLER, mode, ini, trace, str(nthreads), str(ncalls), arg], env=e, cwd=d, timeout=timeout,
                           stdin=fds[1] if fds else subprocess.DEVNULL, stdout=subprocess.PIPE, stderr=subprocess.PIPE)
        status, err = p.returncode, p.stderr.decode(errors="replace")
    except subprocess.TimeoutExpired as ex:
        status, err = "timeout", (ex.stderr or b"").decode(errors="replace")
    finally:
        if fds:
            os.close(fds[0]); os.close(fds[1])
    outp = os.path.join(d, "out.log")
    lines = open(outp, "rb").read().split(b"\n")[:-1] if os.path.exists(outp) else []
    return {"status": status, "stderr": err, "trace": parse_trace(trace), "out": lines, "dir": d}


class CalibrationMismatch(CheckError):
    """the traced lock sequence of a wrapped call is not what the model's per-call program can express: a deviation from the model, not a machinery failure"""


SITE_KIND = {"snoopy_tsrm_ctor": "c", "snoopy_tsrm_dtor": "d", "snoopy_tsrm_getCurrentThreadRepoEntry": "e",
             "snoopy_tsrm_get_threadCount": "n", "snoopy_tsrm_doesThreadRepoEntryExist": "x",
             # a libc call made with the mutex held (lock; private work; unlock): the same lock boundaries as an entry lookup
             "snoopy_tsrm_localtime_r": "e", "snoopy_tsrm_strftime": "e", "snoopy_tsrm_getutline": "e"}


def calibrate(run, lib, ini_text, tag="calib"):
    """per-call program of the model for this configuration, from a traced single-thread run of TWO calls (the second
    call shows the steady state: pthread_once already done).  Returns (ops string, windows per call, raw site list).
    ops string: one letter per accessor call between constructor and destructor: 'e' (entry lookup) or 'n' (thread count)."""
    r = run_mt(run, lib, "trace", 1, 2, "-", ini_text, tag)
    if r["status"] != 0:
        raise CheckError("calibration run failed: status %s %s" % (r["status"], r["stderr"][-500:]))
    calls, cur = [], None
    for (_, t, kind, site) in r["trace"]["sync"]:
        if kind == "S":
            cur = []
            calls.append(cur)
        elif cur is not None:
            cur.append((kind, site))
    if len(calls) != 2:
        raise CheckError("calibration: expected 2 calls, saw %d" % len(calls))
    progs = []
    for c in calls:
        locks = [SITE_KIND.get(site, "?") for (kind, site) in c if kind == "L"]
        # shape: c  (e|n)*  e d      (ctor's lock, accessors, the destructor's own lookup, the destructor's remove)
        if len(locks) < 3 or locks[0] != "c" or locks[-1] != "d" or locks[-2] != "e" or "?" in locks or "x" in locks:
            raise CalibrationMismatch("calibration: unexpected lock-site sequence %s (expected: constructor, accessors, the destructor's lookup, the destructor's remove)" % "".join(locks))
        nu = len([1 for (kind, _) in c if kind == "U"])
        no = len([1 for (kind, _) in c if kind == "O"])
        if nu != len(locks) or no != 1:
            raise CalibrationMismatch("calibration: %d locks, %d unlocks, %d once calls in one wrapped call" % (len(locks), nu, no))
        progs.append("".join(locks[1:-2]))
    if progs[0] != progs[1]:
        raise CalibrationMismatch("two consecutive wrapped calls of one thread take the repository mutex differently: accessor sequence %s in the first call, %s in the second "
                                  "(the model: every call goes through constructor, the same accessors, destructor; nothing is carried over from call to call)" % (progs[0], progs[1]))
    return progs[0], len(progs[0]) + 3, calls[0]


def observed_locks(run, lib, ini_text, tag="locks"):
    """every lock acquisition (repository mutex 'm', any other pthread mutex 'M', rwlock 'r'/'w', flock 'f') a thread makes inside ONE
    wrapped call - the first of the process, as in the fork runs - in the order observed: [(kind, call site)]"""
    r = run_mt(run, lib, "trace", 1, 1, "-", ini_text, tag)
    if r["status"] != 0:
        raise CheckError("lock observation run failed: status %s %s" % (r["status"], r["stderr"][-500:]))
    return [(kind, site) for (_, t, kind, site) in r["trace"]["acq"]]
