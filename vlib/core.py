"""Framework core for the snoopy verification checks (see /verif/DESIGN.md sections 2, 5, 6).

Every check run:  snapshot /repo -> translate (Gen_*.v) -> compile props/Properties_<id>.v
against the prebuilt theories -> build the implementation pieces from the snapshot ->
run generated cases through the extracted model and the implementation -> classify ->
write evidence/<id>.json -> remove the scratch directory.
"""
import json, os, re, shutil, subprocess, sys, tempfile, time, hashlib, random, glob
from concurrent.futures import ThreadPoolExecutor

VERIF = os.path.dirname(os.path.dirname(os.path.abspath(__file__)))
REPO = os.environ.get("VERIF_REPO", "/repo")
BUILD = os.path.join(VERIF, "build")            # produced by setup_cmd (untracked)
THEORIES = os.path.join(VERIF, "coq", "theories")
# runs against another tree than /repo (mutation self-tests, agents' private copies) must not overwrite the evidence of /repo
OUTDIR = VERIF if os.path.realpath(REPO) == "/repo" else os.environ.get("VERIF_ALT_OUT", os.path.join("/tmp", "verif-alt-out" + os.path.realpath(REPO).replace("/", "_")))
GUARD = "A2O_SNOOPY_VERIF"
NCPU = os.cpu_count() or 4

ASAN_FLAGS = ["-O1", "-g", "-fno-omit-frame-pointer", "-fsanitize=address,undefined", "-fno-sanitize-recover=all"]
PLAIN_FLAGS = ["-O1", "-g"]


class CheckError(Exception):
    """The machinery itself could not run (not a verdict about the property)."""


def sh(cmd, cwd=None, timeout=600, env=None, check=True, input=None):
    p = subprocess.run(cmd, cwd=cwd, timeout=timeout, env=env, input=input,
                       stdout=subprocess.PIPE, stderr=subprocess.STDOUT, text=True, errors="replace")
    if check and p.returncode != 0:
        raise CheckError("command failed (%d): %s\n%s" % (p.returncode, " ".join(map(str, cmd)), p.stdout[-4000:]))
    return p


def hexs(b):
    if b is None:
        return "~"
    return b.hex() if len(b) else "-"


def unhex(s):
    if s == "~":
        return None
    if s == "-":
        return b""
    return bytes.fromhex(s)


def hexlist(l):
    if l is None:
        return "~"
    if not l:
        return "[]"
    return ",".join(hexs(x) for x in l)


def coq_bytes(b):
    """Coq term of type list byte for a Python bytes value."""
    return "[" + "; ".join("x%02x" % x for x in b) + "]"


class Run:
    def __init__(self, prop, tier, seed):
        self.prop, self.tier, self.seed = prop, tier, seed
        self.t0 = time.time()
        base = os.environ.get("VERIF_SCRATCH") or ("/dev/shm" if os.path.isdir("/dev/shm") and os.access("/dev/shm", os.W_OK) else "/var/tmp")
        self.scratch = tempfile.mkdtemp(prefix="sv-%s-" % prop, dir=base)
        self.tree = os.path.join(self.scratch, "tree")
        self.gen = os.path.join(self.scratch, "gen")
        os.makedirs(self.gen)
        self.gen_models = self.gen          # Gen_*.v used for per-run extracted models (switched to the reference on a broken obligation)
        self.using_reference = False
        self.violations = []      # dicts: {sig, kind, detail, replay(dict)}
        self.known_hits = []
        self.obligations = []     # (name, discharged bool)
        self.assumptions_seen = []
        self.coverage = {}
        self.notes = []
        self.consts = {}
        self.rng = random.Random(seed)

    # ---------------------------------------------------------------- snapshot
    def snapshot(self):
        """Copy the current working tree of /repo (sources only) to the scratch dir."""
        os.makedirs(self.tree)
        inc = ["--include=*/", "--include=*.c", "--include=*.h", "--include=*.am", "--include=*.ac",
               "--include=*.in", "--include=*.ini", "--include=*.md", "--exclude=*"]
        sh(["rsync", "-a", "--prune-empty-dirs", "--exclude=.git", "--exclude=autom4te.cache", "--exclude=.libs", "--exclude=.deps"]
           + inc + [REPO + "/", self.tree + "/"])
        if not os.path.exists(os.path.join(self.tree, "config.h")):
            raise CheckError("no config.h in %s (the tree must be configured)" % REPO)
        h = hashlib.sha256()
        for root, _, files in sorted(os.walk(os.path.join(self.tree, "src"))):
            for f in sorted(files):
                h.update(open(os.path.join(root, f), "rb").read())
        self.tree_hash = h.hexdigest()[:16]
        return self.tree

    def src(self, rel):
        return open(os.path.join(self.tree, rel), encoding="utf-8", errors="replace").read()

    # ---------------------------------------------------------------- build of the implementation
    def lib_sources(self, entry=False):
        t = self.tree
        pats = ["src/*.c", "src/action/*.c", "src/datasource/*.c", "src/filter/*.c", "src/output/*.c", "src/util/*.c", "lib/inih/src/ini.c"]
        srcs = []
        for p in pats:
            srcs += sorted(glob.glob(os.path.join(t, p)))
        if entry:
            srcs += [os.path.join(t, "src/entrypoint/execve-wrapper.c"), os.path.join(t, "src/entrypoint/cli.c")]
        return srcs

    def inih_defs(self):
        """-D flags of lib/inih/src/Makefile.am (T1: the compiled INI limits)."""
        am = self.src("lib/inih/src/Makefile.am")
        defs = re.findall(r"-D(INI_[A-Z_]+=\d+)", am)
        return ["-D" + d for d in defs]

    def cflags(self, san=True, extra=()):
        return (["-std=c99", "-fPIC", "-DHAVE_CONFIG_H", "-D" + GUARD, "-w",
                 "-I" + self.tree, "-I" + os.path.join(self.tree, "src")] + self.inih_defs()
                + (ASAN_FLAGS if san else PLAIN_FLAGS) + list(extra))

    def build_objs(self, name, san=True, extra=(), entry=False, config_edit=None):
        """Compile the library sources of the snapshot into objects (parallel). Returns list of .o."""
        out = os.path.join(self.scratch, "obj-" + name)
        os.makedirs(out, exist_ok=True)
        flags = self.cflags(san, extra)
        incdir = self.tree
        if config_edit:
            # alternative config.h in a shadow include dir that precedes the tree
            shadow = os.path.join(out, "cfg")
            os.makedirs(shadow, exist_ok=True)
            cfg = config_edit(self.src("config.h"))
            open(os.path.join(shadow, "config.h"), "w").write(cfg)
            flags = ["-I" + shadow] + flags
        srcs = self.lib_sources(entry)

        def one(s):
            o = os.path.join(out, os.path.relpath(s, self.tree).replace("/", "__")[:-2] + ".o")
            p = subprocess.run(["gcc"] + flags + ["-c", s, "-o", o], stdout=subprocess.PIPE, stderr=subprocess.STDOUT, text=True)
            return (s, o, p.returncode, p.stdout)
        with ThreadPoolExecutor(NCPU) as ex:
            res = list(ex.map(one, srcs))
        bad = [r for r in res if r[2] != 0]
        if bad:
            raise CheckError("the tree does not compile: %s\n%s" % (bad[0][0], bad[0][3][-3000:]))
        return [r[1] for r in res]

    def link(self, out, sources, objs, san=True, extra=(), shared=False):
        cmd = ["gcc"] + self.cflags(san) + (["-shared"] if shared else []) + list(sources) + list(objs) + ["-o", out, "-lpthread", "-ldl"] + list(extra)
        sh(cmd)
        return out

    # ---------------------------------------------------------------- Coq
    def write_gen(self, name, text):
        open(os.path.join(self.gen, name), "w").write(text)

    def coq_props(self, files, timeout=600):
        """Compile the generated Gen_*.v (all in self.gen) and then the property files (copied from
        /verif/coq/props).  Records one obligation per Theorem/Lemma/Example in the property files.
        Returns (ok, first_failed_obligation, log)."""
        props_dir = os.path.join(self.scratch, "props")
        os.makedirs(props_dir, exist_ok=True)
        base = ["coqc", "-q", "-Q", THEORIES, "Snoopy", "-Q", self.gen, "Gen", "-Q", props_dir, "Props"]
        log = ""
        allok = True
        first_failed = None
        # Gen files, in dependency-free order
        for g in sorted(glob.glob(os.path.join(self.gen, "*.v"))):
            p = sh(["timeout", str(timeout)] + base + [g], check=False, timeout=timeout + 30)
            log += p.stdout
            if p.returncode != 0:
                allok = False
                first_failed = first_failed or ("Gen:" + os.path.basename(g))
        for f in files:
            src = os.path.join(VERIF, "coq", "props", f)
            dst = os.path.join(props_dir, f)
            shutil.copy(src, dst)
            text = open(dst).read()
            names = [(m.start(), m.group(2)) for m in re.finditer(r"^\s*(Theorem|Lemma|Example|Corollary)\s+([A-Za-z0-9_']+)", text, re.M)]
            if not allok:
                for _, n in names:
                    self.obligations.append((n, False))
                continue
            p = sh(["timeout", str(timeout)] + base + [dst], check=False, timeout=timeout + 30)
            log += p.stdout
            if p.returncode == 0:
                for _, n in names:
                    self.obligations.append((n, True))
                for m in re.finditer(r"^(Closed under the global context|Axioms:\n(?:.+\n)+?)(?=\S|\Z)", p.stdout, re.M):
                    pass
                # collect axioms reported by Print Assumptions
                ax = re.findall(r"^Axioms:\n((?:[^\n]+\n(?:\s+[^\n]+\n)*)+)", p.stdout, re.M)
                for a in ax:
                    for line in a.splitlines():
                        mm = re.match(r"^([A-Za-z0-9_.']+)\s*:", line)
                        if mm and mm.group(1) not in self.assumptions_seen:
                            self.assumptions_seen.append(mm.group(1))
            else:
                allok = False
                # find the failing obligation from the error position
                mm = re.search(r'line (\d+), characters', p.stdout)
                failed = None
                if mm:
                    line = int(mm.group(1))
                    offs = 0
                    pos = sum(len(l) + 1 for l in text.split("\n")[:line - 1])
                    for st, n in names:
                        if st <= pos:
                            failed = n
                for _, n in names:
                    good = failed is not None and [x for x, nn in names if nn == n][0] < [x for x, nn in names if nn == failed][0]
                    self.obligations.append((n, bool(good)))
                first_failed = first_failed or ("%s:%s" % (f, failed or "?"))
        self.coq_log = log
        self._props = (props_dir, list(files), allok)
        if allok and os.environ.get("VERIF_MKREF") and os.path.realpath(REPO) == "/repo":
            self.save_reference()
        if not allok:
            self.fallback_to_reference()
        if allok and self.tier == "thorough" and not os.environ.get("VERIF_NO_COQCHK"):
            ok2, msg = self.coqchk()
            if not ok2:
                allok, first_failed = False, "coqchk:" + (files[0] if files else "?")
                log += "\n" + msg
        return allok, first_failed, log

    # ---------------------------------------------------------------- reference constants (search after a broken obligation)
    # When an obligation over the regenerated constants breaks, the regenerated constants are no longer known to describe a tree on
    # which the theorems hold (the translator may simply not have recognised a rewritten statement).  Predictions made with them are
    # then not evidence of anything.  For the SEARCH the model is therefore instantiated with the reference constants: the ones
    # regenerated from the tree on which every obligation was last discharged (reference/, refreshed by VERIF_MKREF=1 on /repo).  A
    # concrete violation reported in that situation means: the implementation deviates from the verified model / violates the spec
    # instantiated with the constants the theorems were proved for - never: "the translator misread the source".
    def save_reference(self):
        ref = os.path.join(VERIF, "reference")
        os.makedirs(os.path.join(ref, "gen"), exist_ok=True)
        for f in glob.glob(os.path.join(self.scratch, "consts_*.tsv")) + glob.glob(os.path.join(self.scratch, "consts_*.json")):
            shutil.copy(f, os.path.join(ref, os.path.basename(f)))
        for f in glob.glob(os.path.join(self.gen, "*.v")):
            shutil.copy(f, os.path.join(ref, "gen", os.path.basename(f)))
        json.dump(dict((k, v) for k, v in self.consts.items() if isinstance(v, (dict, list, str, int, bool))), open(os.path.join(ref, "run_consts_%s.json" % self.prop), "w"), indent=1, default=str)

    def fallback_to_reference(self):
        ref = os.path.join(VERIF, "reference")
        self.using_reference = True
        if not os.path.isdir(ref):
            self.notes.append("an obligation is broken and no reference constants are stored: model-side predictions use the regenerated constants")
            return
        n = 0
        for f in glob.glob(os.path.join(ref, "consts_*.tsv")) + glob.glob(os.path.join(ref, "consts_*.json")):
            if os.path.exists(os.path.join(self.scratch, os.path.basename(f))):     # only areas this run uses
                shutil.copy(f, os.path.join(self.scratch, os.path.basename(f)))
                n += 1
        rc = os.path.join(ref, "run_consts_%s.json" % self.prop)
        if os.path.exists(rc):
            for area, val in json.load(open(rc)).items():
                cur = self.consts.get(area)
                if isinstance(cur, dict) and isinstance(val, dict):
                    cur.clear(); cur.update(val)          # in place: checks hold on to the dict the translator returned
                elif area in self.consts and not isinstance(cur, dict):
                    self.consts[area] = val
        # Gen_*.v for per-run extracted models (system, registry)
        gref = os.path.join(self.scratch, "gen_ref")
        os.makedirs(gref, exist_ok=True)
        for f in glob.glob(os.path.join(ref, "gen", "*.v")):
            if os.path.exists(os.path.join(self.gen, os.path.basename(f))):
                shutil.copy(f, os.path.join(gref, os.path.basename(f)))
        self.gen_models = gref
        self.notes.append("an obligation over the regenerated constants is broken: the search instantiates the model with the reference constants "
                          "(reference/, %d sidecar files), so a concrete violation means a deviation from the verified model, not a translator miss" % n)

    def coqchk(self, timeout=1500):
        """thorough tier: re-check the compiled property files and everything they depend on with Coq's independent checker;
        `-o` lists the axioms of the whole loaded context (recorded in the evidence)."""
        props_dir, files, _ = self._props
        mods = ["Props." + f[:-2] for f in files]
        p = sh(["timeout", str(timeout), "coqchk", "-silent", "-o", "-Q", THEORIES, "Snoopy", "-Q", self.gen, "Gen", "-Q", props_dir, "Props"] + mods,
               check=False, timeout=timeout + 30)
        out = p.stdout
        m = re.search(r"\* Axioms:(.*?)\n\s*\n\* Constants/Inductives relying on type-in-type:(.*?)\n\s*\n\* Constants/Inductives relying on unsafe \(co\)fixpoints:(.*?)\n\s*\n\* Inductives whose positivity is assumed:(.*?)\n", out, re.S)
        summ = {"exit": p.returncode}
        if m:
            summ.update({"axioms": " ".join(m.group(1).split()), "type_in_type": " ".join(m.group(2).split()),
                         "unsafe_fixpoints": " ".join(m.group(3).split()), "assumed_positivity": " ".join(m.group(4).split())})
        self.coverage["coqchk"] = summ
        good = p.returncode == 0 and m is not None and all(summ[k] == "<none>" for k in ("type_in_type", "unsafe_fixpoints", "assumed_positivity"))
        return good, out[-1500:]

    # ---------------------------------------------------------------- drivers
    def run_model(self, area, cases_path, out_path, timeout=1800):
        drv = os.path.join(BUILD, "ocaml", "drv_" + area)
        if not os.path.exists(drv):
            raise CheckError("model driver %s missing: run MANIFEST.setup_cmd" % drv)
        with open(cases_path) as fin, open(out_path, "w") as fout:
            p = subprocess.run(["bash", "-c", "ulimit -s unlimited 2>/dev/null || ulimit -s 1000000; exec \"$0\" \"$@\"", drv] + self.model_args(area),
                               stdin=fin, stdout=fout, stderr=subprocess.PIPE, timeout=timeout)
        if p.returncode != 0:
            raise CheckError("model driver failed: " + p.stderr.decode(errors="replace")[-2000:])
        return [l.rstrip("\n") for l in open(out_path)]

    def model_args(self, area):
        cj = os.path.join(self.scratch, "consts_%s.tsv" % area)
        return [cj] if os.path.exists(cj) else []

    def run_impl(self, exe, cases_path, out_path, env=None, timeout=3600, args=()):
        e = dict(os.environ)
        e.update({"ASAN_OPTIONS": "detect_leaks=0:exitcode=77:abort_on_error=0:allocator_may_return_null=1",
                  "UBSAN_OPTIONS": "halt_on_error=1:exitcode=78:print_stacktrace=1"})
        e.pop("LD_PRELOAD", None)
        if env:
            e.update(env)
        with open(cases_path) as fin, open(out_path, "w") as fout:
            p = subprocess.run([exe] + list(args), stdin=fin, stdout=fout, stderr=subprocess.PIPE, env=e, timeout=timeout)
        if p.returncode != 0:
            raise CheckError("implementation driver failed (%d): %s" % (p.returncode, p.stderr.decode(errors="replace")[-2000:]))
        return [l.rstrip("\n") for l in open(out_path)]

    # ---------------------------------------------------------------- verdicts
    def violation(self, sig, kind, detail, replay):
        self.violations.append({"sig": sig, "kind": kind, "detail": detail, "replay": replay})

    def load_known(self):
        known, fixed = [], []
        p = os.path.join(VERIF, "known-findings.txt")
        if os.path.exists(p):
            for line in open(p):
                line = line.strip()
                m = re.match(r"known:\s+property=(\S+)\s+sig=(\S+)\s*(.*)", line)
                if m:
                    known.append((m.group(1), m.group(2), m.group(3)))
        return known

    def finish(self, level="proof", checker_cmd=None, trusted_base=None, assumptions=None, extra_cov=None):
        known = self.load_known()
        new = []
        printed = set()
        for v in self.violations:
            hit = [k for k in known if k[0] == self.prop and re.fullmatch(k[1], v["sig"])]
            if hit:
                key = (hit[0][1])
                if key not in printed:
                    printed.add(key)
                    print("KNOWN-FINDING: property=%s %s (%s)" % (self.prop, hit[0][2], v["sig"]))
            else:
                new.append(v)
        # replay files, one per distinct signature (first occurrence)
        lines = []
        seen = set()
        os.makedirs(os.path.join(OUTDIR, "replays"), exist_ok=True)
        for old in glob.glob(os.path.join(OUTDIR, "replays", "%s-%s-%d-*.json" % (self.prop, self.tier, self.seed))):
            os.unlink(old)
        for v in new:
            if v["sig"] in seen:
                continue
            seen.add(v["sig"])
            name = "%s-%s-%d-%d.json" % (self.prop, self.tier, self.seed, len(seen))
            path = os.path.join(OUTDIR, "replays", name)
            rep = dict(v["replay"] or {})
            rep.update({"property": self.prop, "kind": v["kind"], "sig": v["sig"], "detail": v["detail"],
                        "tree_hash": getattr(self, "tree_hash", None),
                        "command": "./check %s --replay %s" % (self.prop, path)})
            json.dump(rep, open(path, "w"), indent=1)
            tail = " no-failing-input-found" if v["kind"] in ("proof", "correspondence") and not rep.get("failing_input") else ""
            lines.append("VIOLATION property=%s replay=%s%s" % (self.prop, path, tail))
        nob = len(self.obligations)
        ndis = len([o for o in self.obligations if o[1]])
        cov = {"obligations": nob, "discharged": ndis,
               "checker_cmd": checker_cmd or "coqc (Coq 8.16.1) on props/Properties_%s.v against Gen_*.v regenerated from /repo" % self.prop,
               "trusted_base": (trusted_base or []) + (["Print Assumptions: " + (", ".join(self.assumptions_seen) if self.assumptions_seen else "Closed under the global context (no axioms)")]),
               "obligation_names": [o[0] for o in self.obligations],
               "tree_hash": getattr(self, "tree_hash", None)}
        cov.update(self.coverage)
        if extra_cov:
            cov.update(extra_cov)
        cov.setdefault("evaluations", 0)
        cov.setdefault("distinct_nontrivial", 0)
        cov.setdefault("rule", "")
        cov.setdefault("samples", [])
        ev = {"property_id": self.prop, "tier": self.tier, "seed": self.seed, "level": level, "coverage": cov,
              "assumptions": assumptions or [], "wall_s": round(time.time() - self.t0, 2),
              "violations": len(new), "known_findings": sorted(printed), "notes": self.notes}
        os.makedirs(os.path.join(OUTDIR, "evidence"), exist_ok=True)
        json.dump(ev, open(os.path.join(OUTDIR, "evidence", self.prop + ".json"), "w"), indent=1)
        for l in lines:
            print(l)
        self.cleanup()
        return 1 if new else 0

    def cleanup(self):
        if os.environ.get("VERIF_KEEP"):
            print("scratch kept:", self.scratch, file=sys.stderr)
            return
        shutil.rmtree(self.scratch, ignore_errors=True)


def diff_results(cases, model_out, impl_out):
    """Line-by-line comparison. Returns list of (index, case, model, impl)."""
    bad = []
    n = len(cases)
    if len(model_out) != n or len(impl_out) != n:
        raise CheckError("driver output length mismatch: cases=%d model=%d impl=%d" % (n, len(model_out), len(impl_out)))
    for i in range(n):
        if model_out[i] != impl_out[i]:
            bad.append((i, cases[i], model_out[i], impl_out[i]))
    return bad


def corr_stream(run, area, impl_exe, cases, spec_line=None, stream="main", impl_env=None):
    """Differential run of one stream of case lines through the extracted model and the implementation.
    spec_line(case_fields, impl_result_fields) -> a 'spec' case line for the model driver, or None.
    Returns dict with lists: mismatch [(i, case, model, impl)], spec_bad [(i, case, impl)], faults [(i, case, impl)]."""
    d = os.path.join(run.scratch, "corr-%s-%s" % (area, stream))
    os.makedirs(d, exist_ok=True)
    cp = os.path.join(d, "cases.txt")
    open(cp, "w").write("".join(c + "\n" for c in cases))
    mo = run.run_model(area, cp, os.path.join(d, "model.out"))
    io = run.run_impl(impl_exe, cp, os.path.join(d, "impl.out"), env=impl_env)
    mism = diff_results(cases, mo, io)
    faults = [(i, cases[i], io[i]) for i in range(len(cases)) if re.match(r"(crash|san|timeout|exit|unterminated)", io[i])]
    spec_bad = []
    if spec_line:
        idx, lines = [], []
        for i, c in enumerate(cases):
            if io[i].startswith("ok"):
                sl = spec_line(c.split("\t"), io[i].split("\t"))
                if sl:
                    idx.append(i)
                    lines.append(sl)
        sp = os.path.join(d, "spec.txt")
        open(sp, "w").write("".join(l + "\n" for l in lines))
        so = run.run_model(area, sp, os.path.join(d, "spec.out"))
        for k, i in enumerate(idx):
            if so[k] != "ok":
                spec_bad.append((i, cases[i], io[i], so[k]))
    bad_model = [m for m in mo if m.startswith("driver-error")]
    if bad_model:
        raise CheckError("model driver error: %s" % bad_model[0])
    return {"mismatch": mism, "spec_bad": spec_bad, "faults": faults, "model": mo, "impl": io}
