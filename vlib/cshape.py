"""Shape equivalence of small loop-free C functions by symbolic execution (used by vlib/tr_registry.py).

`paths(src, name)` parses the DEFINITION of function `name` in the comment-stripped text `src` (declarations, assignments
to locals, if/else, return, ?:, &&, ||, !, comparisons, calls, indexing, ->), executes it symbolically and returns the
set of its paths:  frozenset of (frozenset(condition literals), (effects...), returned expression), every expression printed
in a canonical form with the parameters renamed positionally ($0, $1, ...) and locals substituted away.

Two functions with the same path set compute the same result from the same calls: braces, `else` after `return`, inverted
conditions, constant-first comparisons, a local for an intermediate value, merged declaration+initialisation, `?:` instead of
`if` all leave the set unchanged.  Anything outside the fragment (loops, goto, switch, assignment through a pointer,
compound assignment, a local assigned on one path and read after the join only where both paths still agree is handled by
forking, i.e. is fine) raises Unsupported: the caller then treats the function as not recognised.

Normalisations that rely on facts established elsewhere are explicit parameters:
  bool_calls : names of functions known to return only SNOOPY_TRUE / SNOOPY_FALSE  (E == SNOOPY_TRUE  ~  E)
  id_calls   : names of functions known to return -1 or a non-negative id          (E < 0  ~  E == -1)
"""
import re


class Unsupported(Exception):
    pass


TOK = re.compile(r'\s*(?:(?P<id>[A-Za-z_]\w*)|(?P<num>\d+)|(?P<str>"(?:\\.|[^"\\])*")|(?P<chr>\'(?:\\.|[^\'\\])*\')|(?P<op>->|\+\+|--|==|!=|<=|>=|&&|\|\||[-+*/%<>=!&|^~?:;,.(){}\[\]]))')
TYPEWORDS = {"const", "int", "char", "size_t", "unsigned", "long", "short", "void", "static", "signed", "struct", "volatile", "register"}


def tokenize(s):
    out, i = [], 0
    s = s.rstrip()
    while i < len(s):
        m = TOK.match(s, i)
        if not m or m.end() == i:
            if s[i:].strip() == "":
                break
            raise Unsupported("cannot tokenise at: %r" % s[i:i + 20])
        i = m.end()
        for k in ("id", "num", "str", "chr", "op"):
            if m.group(k) is not None:
                out.append((k, m.group(k)))
                break
    return out


class P:
    def __init__(self, toks):
        self.t, self.i = toks, 0

    def peek(self, k=0):
        return self.t[self.i + k] if self.i + k < len(self.t) else ("eof", "")

    def next(self):
        x = self.peek()
        self.i += 1
        return x

    def accept(self, v):
        if self.peek()[1] == v and self.peek()[0] in ("op", "id"):
            self.i += 1
            return True
        return False

    def expect(self, v):
        if not self.accept(v):
            raise Unsupported("expected %r, found %r" % (v, self.peek()[1]))

    # ---- expressions: tuples ("id",x) ("num",n) ("str",s) ("call",f,args) ("idx",a,i) ("arrow",a,f) ("dot",a,f) ("un",op,a) ("bin",op,a,b) ("cond",c,a,b)
    def expr(self):
        return self.ternary()

    def ternary(self):
        c = self.binary(0)
        if self.accept("?"):
            a = self.expr()
            self.expect(":")
            b = self.ternary()
            return ("cond", c, a, b)
        return c

    LEVELS = [["||"], ["&&"], ["|"], ["^"], ["&"], ["==", "!="], ["<", "<=", ">", ">="], ["+", "-"], ["*", "/", "%"]]

    def binary(self, lvl):
        if lvl == len(self.LEVELS):
            return self.unary()
        a = self.binary(lvl + 1)
        while self.peek()[0] == "op" and self.peek()[1] in self.LEVELS[lvl]:
            op = self.next()[1]
            b = self.binary(lvl + 1)
            a = ("bin", op, a, b)
        return a

    def unary(self):
        k, v = self.peek()
        if k == "op" and v in ("!", "-", "*", "&", "~", "+"):
            self.next()
            return ("un", v, self.unary())
        if k == "op" and v in ("++", "--"):
            raise Unsupported("increment")
        return self.postfix()

    def postfix(self):
        k, v = self.next()
        if k == "id":
            e = ("id", v)
        elif k == "num":
            e = ("num", v)
        elif k in ("str", "chr"):
            e = ("str", v)
        elif (k, v) == ("op", "("):
            # cast or parenthesised expression
            save = self.i
            if self.peek()[0] == "id" and (self.peek()[1] in TYPEWORDS or self.peek()[1].endswith("_t")):
                depth = 1
                while depth and self.peek()[0] != "eof":
                    x = self.next()[1]
                    depth += (x == "(") - (x == ")")
                return ("cast", self.unary())
            self.i = save
            e = self.expr()
            self.expect(")")
        else:
            raise Unsupported("unexpected token %r" % v)
        while True:
            if self.accept("("):
                args = []
                if not self.accept(")"):
                    while True:
                        args.append(self.expr())
                        if self.accept(")"):
                            break
                        self.expect(",")
                e = ("call", e, tuple(args))
            elif self.accept("["):
                i = self.expr()
                self.expect("]")
                e = ("idx", e, i)
            elif self.accept("->"):
                e = ("arrow", e, self.next()[1])
            elif self.accept("."):
                e = ("dot", e, self.next()[1])
            elif self.peek() in (("op", "++"), ("op", "--")):
                raise Unsupported("increment")
            else:
                return e

    # ---- statements: ("block",[s]) ("if",c,s,s|None) ("ret",e|None) ("decl",name,e|None) ("assign",name,e) ("expr",e)
    def stmt(self):
        k, v = self.peek()
        if self.accept("{"):
            b = []
            while not self.accept("}"):
                if self.peek()[0] == "eof":
                    raise Unsupported("unclosed block")
                b.append(self.stmt())
            return ("block", b)
        if k == "id" and v == "if":
            self.next()
            self.expect("(")
            c = self.expr()
            self.expect(")")
            a = self.stmt()
            b = self.stmt() if self.accept("else") else None
            return ("if", c, a, b)
        if k == "id" and v == "return":
            self.next()
            if self.accept(";"):
                return ("ret", None)
            e = self.expr()
            self.expect(";")
            return ("ret", e)
        if k == "id" and v in ("for", "while", "do", "goto", "switch", "break", "continue"):
            raise Unsupported("statement '%s'" % v)
        if self.accept(";"):
            return ("block", [])
        if k == "id" and (v in TYPEWORDS or (v.endswith("_t") and (self.peek(1)[0] == "id" or self.peek(1) == ("op", "*")))):
            # declaration: type words / stars ... name [= init] ;
            name = None
            while True:
                kk, vv = self.peek()
                if kk == "id" or (kk, vv) == ("op", "*"):
                    if kk == "id":
                        name = vv
                    self.next()
                    continue
                break
            if name is None or name in TYPEWORDS:
                raise Unsupported("declaration")
            init = None
            if self.accept("="):
                init = self.expr()
            if self.peek()[1] == ",":
                raise Unsupported("multiple declarators")
            self.expect(";")
            return ("decl", name, init)
        e = self.expr()
        if self.accept("="):
            if e[0] != "id":
                raise Unsupported("assignment to a non-local")
            r = self.expr()
            self.expect(";")
            return ("assign", e[1], r)
        self.expect(";")
        return ("expr", e)


def find_def(src, name):
    """(parameter names, body text) of the definition of `name`, or None"""
    m = re.search(r"^[A-Za-z_][\w \t\*]*?\b" + re.escape(name) + r"\s*\(([^;{}]*)\)\s*\{", src, re.M)
    if not m:
        return None
    params = []
    ptxt = m.group(1).strip()
    if ptxt and ptxt != "void":
        for p in ptxt.split(","):
            ids = re.findall(r"[A-Za-z_]\w*", re.sub(r"\[[^\]]*\]", "", p))
            if not ids:
                return None
            params.append(ids[-1])
    i = m.end()
    depth, j = 1, i
    while j < len(src) and depth:
        c = src[j]
        if c == '"':
            j += 1
            while j < len(src) and src[j] != '"':
                j += 2 if src[j] == "\\" else 1
        elif c == "{":
            depth += 1
        elif c == "}":
            depth -= 1
        j += 1
    return params, src[i:j - 1]


# ------------------------------------------------------------------------------------ canonical printing
FLIP = {"<": ">", ">": "<", "<=": ">=", ">=": "<=", "==": "==", "!=": "!="}
NEG = {"<": ">=", ">": "<=", "<=": ">", ">=": "<", "==": "!=", "!=": "=="}


def is_const(e):
    return e[0] in ("num", "str") or (e[0] == "id" and (e[1].isupper() or e[1] in ("NULL",) or re.fullmatch(r"[A-Z][A-Z0-9_]*", e[1]))) or (e[0] == "un" and e[1] == "-" and e[2][0] == "num")


def show(e):
    k = e[0]
    if k in ("id", "num", "str"):
        return e[1]
    if k == "call":
        return "%s(%s)" % (show(e[1]), ",".join(show(a) for a in e[2]))
    if k == "idx":
        return "%s[%s]" % (show(e[1]), show(e[2]))
    if k == "arrow":
        return "%s->%s" % (show(e[1]), e[2])
    if k == "dot":
        return "%s.%s" % (show(e[1]), e[2])
    if k == "un":
        return "%s(%s)" % (e[1], show(e[2])) if e[2][0] in ("bin", "cond") else "%s%s" % (e[1], show(e[2]))
    if k == "cast":
        return show(e[1])
    if k == "bin":
        return "(%s%s%s)" % (show(e[2]), e[1], show(e[3]))
    if k == "cond":
        return "(%s?%s:%s)" % (show(e[1]), show(e[2]), show(e[3]))
    raise Unsupported("expression kind " + k)


def subst(e, env):
    k = e[0]
    if k == "id":
        return env.get(e[1], e)
    if k in ("num", "str"):
        return e
    if k == "call":
        return ("call", subst(e[1], env), tuple(subst(a, env) for a in e[2]))
    if k == "idx":
        return ("idx", subst(e[1], env), subst(e[2], env))
    if k in ("arrow", "dot"):
        return (k, subst(e[1], env), e[2])
    if k == "un":
        return ("un", e[1], subst(e[2], env))
    if k == "cast":
        return subst(e[1], env)
    if k == "bin":
        return ("bin", e[1], subst(e[2], env), subst(e[3], env))
    if k == "cond":
        return ("cond", subst(e[1], env), subst(e[2], env), subst(e[3], env))
    raise Unsupported("expression kind " + k)


class Exec:
    def __init__(self, bool_calls=(), id_calls=(), inline=None, exists_of_id=()):
        self.bool_calls, self.id_calls = set(bool_calls), set(id_calls)
        self.inline = inline or {}          # name -> (params, ast): `return f(args)` continues inside f (depth-limited)
        self.exists_of_id = dict(exists_of_id)   # doesIdExist-like name -> getIdFromName-like name:  exists(getid(x)) ~ getid(x) != -1
        self.paths = set()
        self.depth = 0

    def callee(self, e):
        return e[1][1] if e[0] == "call" and e[1][0] == "id" else None

    def branches(self, c, pos):
        """condition expression -> list of literal lists (disjunction of conjunctions) under which c has truth value `pos`"""
        k = c[0]
        if k == "un" and c[1] == "!":
            return self.branches(c[2], not pos)
        if k == "bin" and c[1] in ("&&", "||"):
            conj = (c[1] == "&&") == pos     # (a&&b) true / (a||b) false: both;  otherwise: first, or second after the first went the other way
            a_t, a_f = self.branches(c[2], pos), self.branches(c[2], not pos)
            b_t = self.branches(c[3], pos)
            if conj:
                return [x + y for x in a_t for y in b_t]
            return a_t + [x + y for x in a_f for y in b_t]
        if k == "bin" and c[1] in FLIP:
            op, a, b = c[1], c[2], c[3]
            if is_const(a) and not is_const(b):
                op, a, b = FLIP[op], b, a
            if not pos:
                op = NEG[op]
            sb = show(b)
            if self.callee(a) in self.bool_calls and op in ("==", "!=") and sb in ("SNOOPY_TRUE", "SNOOPY_FALSE"):
                truth = (op == "==") == (sb == "SNOOPY_TRUE")
                return self.branches(a, truth)
            if self.callee(a) in self.id_calls and sb in ("0", "-1"):
                if (op, sb) in (("<", "0"), ("<=", "-1"), ("==", "-1")):
                    return [[show(a) + "==-1"]]
                if (op, sb) in ((">=", "0"), (">", "-1"), ("!=", "-1")):
                    return [["!" + show(a) + "==-1"]]
            if op == "!=":
                return [["!" + show(a) + "==" + sb]]
            if op in (">", ">="):        # one spelling per relation:  a>b ~ !(a<=b),  a>=b ~ !(a<b)
                return [["!" + show(a) + NEG[op] + sb]]
            return [[show(a) + op + sb]]
        # exists(getIdFromName(x)): the id a lookup returns exists iff the lookup did not answer -1 (genericregistry semantics, Model.v)
        if k == "call" and self.callee(c) in self.exists_of_id and len(c[2]) >= 1:
            inner = c[2][-1]
            if self.callee(inner) == self.exists_of_id[self.callee(c)]:
                return [[("!" if pos else "") + show(inner) + "==-1"]]
        # plain truth value
        return [[("" if pos else "!") + show(c)]]

    def ret(self, e, conds, eff):
        if e is not None and e[0] == "cond":
            for lits in self.branches(e[1], True):
                self.ret(e[2], conds + lits, eff)
            for lits in self.branches(e[1], False):
                self.ret(e[3], conds + lits, eff)
            return
        f = self.callee(e) if e is not None else None
        if f in self.inline and self.depth < 3:
            params, ast = self.inline[f]
            if len(params) == len(e[2]):
                self.depth += 1
                self.run([ast], dict(zip(params, e[2])), list(conds), list(eff), [])
                self.depth -= 1
                return
        cs = set(conds)
        if any(("!" + c) in cs for c in cs):
            return                                   # contradictory path
        self.paths.add((frozenset(cs), tuple(eff), show(e) if e is not None else ""))

    def run(self, stmts, env, conds, eff, rest):
        """execute stmts then the continuation `rest` (list of statement lists)"""
        if not stmts:
            if rest:
                return self.run(rest[0], env, conds, eff, rest[1:])
            return self.ret(None, conds, eff)        # fell off the end
        s, tail = stmts[0], stmts[1:]
        k = s[0]
        if k == "block":
            return self.run(s[1], env, conds, eff, [tail] + rest)
        if k == "decl":
            env = dict(env)
            if s[2] is not None:
                env[s[1]] = subst(s[2], env)
            else:
                env[s[1]] = ("id", "?uninit:" + s[1])
            return self.run(tail, env, conds, eff, rest)
        if k == "assign":
            if s[1] not in env:
                raise Unsupported("assignment to %s (not a local)" % s[1])
            env = dict(env)
            env[s[1]] = subst(s[2], env)
            return self.run(tail, env, conds, eff, rest)
        if k == "expr":
            return self.run(tail, env, conds, eff + [show(subst(s[1], env))], rest)
        if k == "ret":
            return self.ret(subst(s[1], env) if s[1] is not None else None, conds, eff)
        if k == "if":
            c = subst(s[1], env)
            for lits in self.branches(c, True):
                self.run([s[2]], env, conds + lits, eff, [tail] + rest)
            for lits in self.branches(c, False):
                self.run([s[3]] if s[3] is not None else [], env, conds + lits, eff, [tail] + rest)
            return
        raise Unsupported("statement kind " + k)


def parse_def(src, name):
    d = find_def(src, name)
    if d is None:
        raise Unsupported("definition of %s not found" % name)
    params, body = d
    p = P(tokenize("{" + body + "}"))
    ast = p.stmt()
    if p.peek()[0] != "eof":
        raise Unsupported("trailing text")
    return params, ast


def paths(src, name, bool_calls=(), id_calls=(), inline_names=(), exists_of_id=()):
    """inline_names: functions of `src` that may be entered when they are called in return position (`return f(args);`)"""
    params, ast = parse_def(src, name)
    inline = {}
    for f in inline_names:
        if f != name:
            try:
                inline[f] = parse_def(src, f)
            except Unsupported:
                pass
    env = dict((n, ("id", "$%d" % i)) for i, n in enumerate(params))
    ex = Exec(bool_calls, id_calls, inline, exists_of_id)
    ex.run([ast], env, [], [], [])
    return frozenset(ex.paths)


def same_shape(src, name, reference_src, **kw):
    """-> (True, None) or (False, reason)"""
    try:
        a = paths(src, name, **kw)
    except Unsupported as e:
        return False, "%s: outside the recognised fragment (%s)" % (name, e)
    b = paths(reference_src, name, **kw)
    if a == b:
        return True, None
    extra = sorted(a - b)
    miss = sorted(b - a)
    def fmt(p):
        return "[%s] => %s%s" % (" && ".join(sorted(p[0])) or "always", (";".join(p[1]) + "; ") if p[1] else "", p[2] or "(no value)")
    return False, "%s: behaves differently from the modelled shape: %s" % (name, "; ".join(["has path " + fmt(p) for p in extra[:2]] + ["lacks path " + fmt(p) for p in miss[:2]]))
