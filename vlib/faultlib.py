"""C03 harness side: scripted runs of the production library under libfault.so (harness/libfault.c) with tool_fcaller,
parsing of the record file, the reference reading of the (harness-generated) configuration files, plausible errnos."""
import errno as E, os, re, subprocess
from .core import BUILD, hexs, hexlist

FCALLER = os.path.join(BUILD, "harness", "tool_fcaller")
LIBFAULT = os.path.join(BUILD, "harness", "libfault.so")
RECORDER = os.path.join(BUILD, "harness", "librecorder.so")

# errno values a failing call of each function can plausibly report (first entries are used by the quick tier)
PLAUSIBLE = {
    "fopen": [E.ENOENT, E.EACCES, E.EMFILE, E.ENOMEM, E.EINTR, E.ENFILE],
    "fread": [E.EIO, E.EINTR, E.EAGAIN, E.EISDIR],
    "fgets": [E.EIO, E.EINTR, E.EAGAIN],
    "getline": [E.EIO, E.ENOMEM, E.EINTR],
    "fclose": [E.EIO, E.EINTR, E.ENOSPC],
    "open": [E.ENOENT, E.EACCES, E.ENOSPC, E.EMFILE, E.EINTR, E.ENXIO, E.EROFS, E.EISDIR, E.ENFILE, E.ELOOP],
    "write": [E.ENOSPC, E.EIO, E.EINTR, E.EAGAIN, E.EPIPE, E.EDQUOT, E.EFBIG, E.EBADF],
    "close": [E.EIO, E.EINTR, E.EBADF],
    "socket": [E.EMFILE, E.ENFILE, E.ENOBUFS, E.EAFNOSUPPORT, E.EACCES, E.ENOMEM],
    "connect": [E.ENOENT, E.ECONNREFUSED, E.EACCES, E.EAGAIN, E.EINTR, E.EPROTOTYPE, E.EINPROGRESS],
    "send": [E.EAGAIN, E.ENOBUFS, E.ECONNREFUSED, E.EPIPE, E.EMSGSIZE, E.EINTR, E.ENOTCONN, E.ECONNRESET],
    "stat": [E.ENOENT, E.EACCES, E.ELOOP],
    "getcwd": [E.ENOENT, E.ERANGE, E.EACCES],
    "ttyname_r": [E.EBADF, E.ENOTTY, E.ERANGE, E.ENODEV],
    "gethostname": [E.ENAMETOOLONG, E.EFAULT],
    "getpwuid_r": [E.EIO, E.ERANGE, E.ENOMEM, E.ENOENT, E.EMFILE, E.EINTR],
    "getgrgid_r": [E.EIO, E.ERANGE, E.ENOMEM, E.ENOENT, E.EMFILE, E.EINTR],
    "getlogin_r": [E.ENXIO, E.ENOTTY, E.ERANGE, E.ENOENT],
    "time": [E.EFAULT], "localtime_r": [E.EOVERFLOW], "gettimeofday": [E.EFAULT, E.EINVAL],
    "getutline_r": [E.ESRCH, E.EIO, E.EACCES],
    "dprintf": [E.EIO, E.ENOSPC, E.EAGAIN, E.EBADF, E.EINTR],
    "fprintf": [E.EIO, E.ENOSPC, E.EAGAIN, E.EBADF, E.EINTR],
}
SHORT_COUNT = 9999          # libfault: a short write()/send() instead of an error
SHORT_FNS = ("write", "send")
# functions whose every plausible errno is tried in the quick tier as well (few positions, error paths that differ by errno)
ALL_ERRNOS_ALWAYS = ("getpwuid_r", "getgrgid_r", "getlogin_r", "write", "send", "connect", "open")
NEVER_FAIL = ("getpid", "getppid", "setutent", "endutent", "openlog", "syslog", "closelog")


def run_fscript(run, lib, script_lines, tag, timeout=120, strace=None):
    d = os.path.join(run.scratch, "f-" + tag)
    os.makedirs(d, exist_ok=True)
    os.chmod(d, 0o755)
    script, rec, ini = os.path.join(d, "script.txt"), os.path.join(d, "rec.txt"), os.path.join(d, "snoopy.ini")
    open(script, "w").write("".join(l + "\n" for l in script_lines))
    if os.path.exists(rec):
        os.unlink(rec)
    e = {"PATH": "/usr/bin:/bin", "HOME": "/root", "LD_PRELOAD": " ".join([lib, LIBFAULT, RECORDER])}
    cmd = [FCALLER, script, rec, ini]
    if strace:
        envargs = []
        for k, v in e.items():
            envargs += ["-E", "%s=%s" % (k, v)]
        cmd = ["strace"] + strace + envargs + cmd
        e = {"PATH": "/usr/bin:/bin"}
    try:
        p = subprocess.run(cmd, env=e, cwd=d, timeout=timeout, stdin=subprocess.DEVNULL, stdout=subprocess.PIPE, stderr=subprocess.PIPE)
        status, err = p.returncode, p.stderr.decode(errors="replace")
    except subprocess.TimeoutExpired as ex:
        status, err = "timeout", (ex.stderr or b"").decode(errors="replace")
    calls = parse_frec(rec) if os.path.exists(rec) else []
    return {"status": status, "stderr": err, "calls": calls, "dir": d}


def parse_frec(path):
    """-> list of per-call dicts: {idx, io: [[idx, fn, a1, a2, ret, errno, data, injected]], exec_mark, real: [...], ret: [...]|None, fatal}"""
    calls, cur = [], None
    for line in open(path, errors="replace"):
        f = line.rstrip("\n").split("\t")
        if f[0] == "callbegin":
            cur = {"idx": int(f[1]), "io": [], "exec_mark": False, "noexec_mark": False, "real": [], "ret": None, "fatal": None}
            calls.append(cur)
        elif cur is None:
            continue
        elif f[0] == "io" and len(f) >= 9:
            cur["io"].append(f[1:])
        elif f[0] == "mark":
            if f[1] == "exec":
                cur["exec_mark"] = True
            elif f[1].startswith("end-without"):
                cur["noexec_mark"] = True
        elif f[0] == "real":
            cur["real"].append(f)
        elif f[0] == "ret":
            cur["ret"] = f
        elif f[0] == "fatal":
            cur["fatal"] = f[2] if len(f) > 2 else "?"
    return calls


def call_line(api, path, argv, envp, ret, err, plan, how=None):
    return "\t".join(["call", api, hexs(path), hexlist(argv), hexlist(envp), str(ret), str(err), plan or "-"] + ([how] if how else []))


# ------------------------------------------------------------------------------------------ configuration reference
def effective_config(defaults, lines, outputs_enabled):
    """What the library's configuration is after reading `lines` (a prefix of the harness-generated file: one simple
    `key = value` per line, values optionally in double quotes).  Only the options the C03 model looks at."""
    cf = {"filtering": defaults["filtering"], "chain": defaults["filter_chain"], "format": defaults["message_format"], "logmax": defaults["logmax"],
          "dsmax": defaults["dsmax"], "output": defaults["output"], "arg": defaults["output_arg"], "ident": defaults["syslog_ident"], "errlog": defaults["errlog"]}
    insect = False
    for raw in lines:
        l = raw.strip()
        if l.startswith(b"["):
            insect = (l == b"[snoopy]")
            continue
        if not insect or b"=" not in l or l[:1] in (b";", b"#"):
            continue
        k, val = l.split(b"=", 1)
        k, val = k.strip(), val.strip()
        if len(val) >= 2 and val[:1] == b'"' and val[-1:] == b'"':
            val = val[1:-1]
        if k == b"output":
            name, _, arg = val.partition(b":")
            if name in outputs_enabled:
                cf["output"] = name
                cf["arg"] = arg if b":" in val else b""
            else:
                cf["output"], cf["arg"] = defaults["output"], defaults["output_arg"]
        elif k == b"message_format":
            cf["format"] = val
        elif k == b"filter_chain":
            cf["chain"] = val
        elif k == b"syslog_ident":
            cf["ident"] = val
        elif k == b"error_logging":
            cf["errlog"] = val.lower() in (b"yes", b"y", b"true", b"on", b"1")
        elif k == b"log_message_max_length":
            cf["logmax"] = max(defaults["hardmin"], min(defaults["hardmax"], int(val)))
        elif k == b"datasource_message_max_length":
            cf["dsmax"] = max(defaults["hardmin"], min(defaults["hardmax"], int(val)))
    return cf


def cfg_fields(cf):
    return ["1" if cf["filtering"] else "0", hexs(cf["chain"]), hexs(cf["format"]), str(cf["logmax"]), str(cf["dsmax"]), hexs(cf["output"]), hexs(cf["arg"]),
            hexs(cf["ident"]), "1" if cf["errlog"] else "0"]


def obs_fields(io, with_exec):
    out = []
    for r in io:
        out += [r[1], r[2], r[3], r[4], r[5], r[6]]
    if with_exec:
        out += ["REALEXEC", "-", "-", "0", "0", "-"]
    return out
