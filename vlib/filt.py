"""Shared pieces of the C07 / C14 checks: implementation driver build, chain alphabet and generators,
measurement of single-filter verdicts, end-to-end runs through the production wrapper under another uid / tty."""
import os, re, shutil, subprocess
from .core import BUILD, VERIF, CheckError, hexs, hexlist, unhex
from .syslevel import parse_rec

AREA = "filter"
UIDS = [0, 1, 999, 65534, 65535, 65536, 2 ** 31 - 1, 2 ** 31, 2 ** 32 - 2]
# sanitizer reports are only counted, never read: no symbolisation (a crashing tree would otherwise take minutes)
FAST_ASAN = {"ASAN_OPTIONS": "detect_leaks=0:exitcode=77:abort_on_error=0:allocator_may_return_null=1:symbolize=0",
             "UBSAN_OPTIONS": "halt_on_error=1:exitcode=78:print_stacktrace=0:symbolize=0"}
DRIVER_COMM = b"impl_filter"        # kernel process name of the implementation driver: the worker's parent


def build_impl(run):
    objs = run.build_objs("asan", san=True)
    exe = os.path.join(run.scratch, "impl_filter")
    if not os.path.exists(exe):
        run.link(exe, [os.path.join(VERIF, "harness", "impl_filter.c")], objs, san=True, extra=["-I" + os.path.join(VERIF, "harness"), "-lutil"])
    return exe


def probe(run, exe):
    """can the driver change uids, and is there a pty?  -> (uid_ok, pty_ok)"""
    r = measure_singles(run, exe, {(1000, 7, 0, b"noop", b""), (0, 0, 1, b"noop", b"")}, "probe")
    a, b = r[(1000, 7, 0, b"noop", b"")], r[(0, 0, 1, b"noop", b"")]
    if a.startswith("driver-error"):
        raise CheckError("the implementation driver cannot change its uid (%s): this check must run as root" % a)
    return True, b != "nopty"


def alphabet(uid_a=1000, anc=DRIVER_COMM):
    """~19 filter specs: known passing / dropping (depending on the state), unknown, empty, with / without arguments;
    anc = kernel process name of an ancestor common to the implementation driver's workers and the scripted caller"""
    u = b"%d" % uid_a
    return [b"only_root", b"only_uid:" + u, b"exclude_uid:" + u, b"only_uid:0," + u, b"only_tty", b"noop",
            b"exclude_spawns_of:" + anc, b"exclude_spawns_of:nosuchproc", b"nosuchfilter", b"nosuchfilter:arg",
            b"", b"only_root:ignored", b":arg", b"exclude_uid:", b"only_uid",
            # every registered name also WITH an argument; arguments with blanks inside (a blank is not a delimiter)
            b"only_tty:x", b"noop:arg", b"exclude_spawns_of:my shell," + anc, b"only_uid:7, " + u]


def chains_upto(alpha, n):
    out = [[]]
    level = [[]]
    for _ in range(n):
        level = [c + [a] for c in level for a in alpha]
        out += level
    return [b";".join(c) for c in out]


def random_chain(rng, alpha, limit, wild=False):
    """up to 20 elements, stray semicolons, long arguments; total length below `limit`"""
    n = rng.choice([0, 1, 2, 3, 5, 8, 13, 20])
    parts = []
    for _ in range(n):
        r = rng.random()
        if r < 0.6:
            e = rng.choice(alpha)
        elif r < 0.75:
            name = rng.choice([b"only_uid", b"exclude_uid", b"nosuch", b"noop", b"only_root", b"only_tty", b"x" * rng.choice([1, 30, 200])])
            L = rng.choice([0, 1, 10, 100, 300, 700])
            arg = bytes(rng.choice(b"0123456789,") for _ in range(L)) if name.endswith(b"uid") else bytes(rng.choice(b"abc,:=/.") for _ in range(L))
            e = name + b":" + arg
        elif r < 0.85:
            e = bytes(rng.choice(b"abcdefghijklmnopqrstuvwxyz_:") for _ in range(rng.choice([1, 4, 9, 17])))
        elif r < 0.93:
            e = rng.choice([b"only_root", b"only_uid", b"noop", b"exclude_uid"])[: rng.choice([3, 5, 8])] + rng.choice([b"", b":0", b"x"])   # prefixes / near names
        elif r < 0.97 or not wild:
            e = rng.choice([b":", b"::", b":only_root", b"only_root:", b"ONLY_ROOT", b"only_root:only_uid:0"])
        else:
            # bytes outside the grammar: blanks, control and 8-bit bytes next to / inside known names (all are unknown names)
            e = rng.choice([b" only_root", b"only_root ", b"\tonly_tty", b"only_uid :0", b"only_uid: 0", b"only\xffroot", b"\xc3\xb6nly_root", b"\x01", b"only_root\r",
                            b"exclude_uid:\xff", b"noop:\x80\x81", b"# only_root", b"\"only_root\""])
        parts.append(e)
    s = b""
    for i, e in enumerate(parts):
        s += e
        if i + 1 < len(parts) or rng.random() < 0.3:
            s += b";" * rng.choice([1, 1, 1, 2, 3])
    if rng.random() < 0.3:
        s = b";" * rng.choice([1, 2]) + s
    while len(s) >= limit:
        s = s[: s.rfind(b";")] if b";" in s else s[: limit - 1]
    return s


def measure_singles(run, exe, wanted, tag):
    """wanted: set of (ruid, euid, tty, name, arg) -> dict to 'u' | 'p' | 'd' | other status, measured on the implementation"""
    keys = sorted(wanted)
    d = os.path.join(run.scratch, "singles-" + tag)
    os.makedirs(d, exist_ok=True)
    cp = os.path.join(d, "cases.txt")
    open(cp, "w").write("".join("single\t%d\t%d\t%d\t%s\t%s\n" % (r, e, t, hexs(n), hexs(a)) for (r, e, t, n, a) in keys))
    out = run.run_impl(exe, cp, os.path.join(d, "impl.out"), env=FAST_ASAN)
    if len(out) != len(keys):
        raise CheckError("singles: driver output length mismatch")
    res = {}
    for k, o in zip(keys, out):
        f = o.split("\t")
        res[k] = f[1] if f[0] == "ok" and len(f) > 1 else o
    return res


def parse_elems(line):
    """model 'elems' result -> [(name, arg, tag)]"""
    f = line.split("\t")
    if f[0] != "ok":
        raise CheckError("model elems failed: " + line)
    out = []
    for e in f[1:]:
        n, a, t = e.split("/")
        out.append((unhex(n), unhex(a), t))
    return out


def table_of(elems, verdict_of):
    """table field for the model driver from the measured verdicts of the known elements"""
    seen, ent = set(), []
    for (n, a, t) in elems:
        if t == "u" or (t, a) in seen:
            continue
        seen.add((t, a))
        v = verdict_of(n, a)
        ent.append("%s/%s/%s" % (t, hexs(a), "d" if v == "d" else "p"))
    return ",".join(ent) or "[]"


# ---------------------------------------------------------------------------------------------- end to end
def stage_tools(run):
    """copies of the caller, the recorder and tool_runas in a world-readable place inside the scratch directory"""
    d = os.path.join(run.scratch, "tools")
    if not os.path.isdir(d):
        os.makedirs(d)
        for f in ("tool_caller", "tool_runas", "tool_uidhist", "tool_named", "librecorder.so"):
            src = os.path.join(BUILD, "harness", f)
            if not os.path.exists(src):
                raise CheckError("%s missing: run MANIFEST.setup_cmd" % src)
            shutil.copy(src, os.path.join(d, f))
            os.chmod(os.path.join(d, f), 0o755)
        os.chmod(d, 0o755)
        os.chmod(run.scratch, 0o755)
    return d


def run_script_as(run, lib, script_lines, tag, uid, tty, timeout=120, ancestors=()):
    """tool_caller under LD_PRELOAD='lib recorder', running as `uid` with a pty (tty=1) or /dev/null on stdin"""
    tools = stage_tools(run)
    os.chmod(lib, 0o755)
    d = os.path.join(run.scratch, "sys-" + tag)
    os.makedirs(d, exist_ok=True)
    os.chmod(d, 0o777)
    script, rec, ini = (os.path.join(d, x) for x in ("script.txt", "rec.txt", "snoopy.ini"))
    open(script, "w").write("".join(l + "\n" for l in script_lines))
    os.chmod(script, 0o644)
    if os.path.exists(rec):
        os.unlink(rec)
    pre = "%s %s" % (lib, os.path.join(tools, "librecorder.so"))
    cmd = [os.path.join(tools, "tool_runas"), str(uid), "1" if tty else "0", pre, os.path.join(tools, "tool_caller"), script, rec, ini]
    for name in reversed(list(ancestors)):          # outermost first: each stays alive as a process with that kernel name
        cmd = [os.path.join(tools, "tool_named"), name] + cmd
    e = {"PATH": "/usr/bin:/bin", "HOME": "/"}
    try:
        p = subprocess.run(cmd, env=e, cwd=d, timeout=timeout, stdin=subprocess.DEVNULL, stdout=subprocess.PIPE, stderr=subprocess.PIPE)
        status, err = p.returncode, p.stderr.decode(errors="replace")
    except subprocess.TimeoutExpired as ex:
        status, err = "timeout", (ex.stderr or b"").decode(errors="replace")
    recs = parse_rec(rec) if os.path.exists(rec) else []
    return {"status": status, "stderr": err, "records": recs, "dir": d}


# ---------------------------------------------------------------------------------------------- uid lists (C14)
def near_misses(uid):
    s = str(uid)
    out = {uid + 1, uid - 1 if uid > 0 else 1, uid + 10, uid * 10, uid * 10 + 1}
    for k in range(1, len(s)):
        out.add(int(s[:k]))           # decimal prefixes
        out.add(int(s[k:]))           # decimal suffixes
    for d in "0159":
        out.add(int(s + d))           # the uid's decimal text extended by one digit ...
        out.add(int(d + s) if d != "0" else int("10" + s))   # ... or preceded by one
    out.add(int(s + s))
    out.add(uid // 10)
    out.add(int("1" + s))
    if uid < 2 ** 31:
        out.add(uid + 2 ** 31)
    return sorted(x for x in out if 0 <= x < 2 ** 32 and x != uid)


def numeral(rng, v):
    z = rng.choice([0, 0, 0, 1, 2, 5, 30])
    return b"0" * z + b"%d" % v


def uid_list(rng, uid, n, include):
    """well-formed list of n numerals; contains (a numeral of) uid iff include"""
    nm = near_misses(uid)
    vals = []
    for _ in range(n):
        r = rng.random()
        if r < 0.5:
            vals.append(rng.choice(nm))
        elif r < 0.8:
            vals.append(rng.choice([0, 1, 999, 1000, 4242, 65534, 65535, 65536, 2 ** 31 - 1, 2 ** 31, 2 ** 32 - 2, 2 ** 32 - 1]))     # 4242 = the harness's gid
        else:
            vals.append(rng.randrange(0, 2 ** 32))
    vals = [v for v in vals if v != uid] or [uid + 1]
    if include:
        for _ in range(rng.choice([1, 1, 2])):
            vals.insert(rng.randrange(len(vals) + 1), uid)
        if rng.random() < 0.2:
            vals = [uid] + [v for v in vals if v != uid]           # first
        elif rng.random() < 0.2:
            vals = [v for v in vals if v != uid] + [uid]           # last
    return b",".join(numeral(rng, v) for v in vals)


def malformed_list(rng, uid):
    s = str(uid).encode()
    return rng.choice([b"", b",", b",,", s + b",", b"," + s, s + b",," + s, b" " + s, s + b" ", b"+" + s, b"-" + s, b"-1", s + b"x", b"x" + s, b"0x10",
                       b"%d" % (uid + 2 ** 32), b"%d" % (uid + 2 ** 33), b"4294967296", b"99999999999999999999", b"-99999999999999999999",
                       b"9223372036854775807", b"9223372036854775808", b"1e3", b"1.0", b"abc", b"\t" + s, s + b";", b"0" * 400 + s, bytes(rng.choice(b"0123456789,-+ x") for _ in range(rng.choice([1, 5, 40])))])


# ---------------------------------------------------------------------------------------------- helpers for the checks


def shrink_list(items, still_fails, budget=48):
    """greedy delta debugging over a list: drop halves, quarters, ..., single items while still_fails(items) holds"""
    n = 2
    used = 0
    while len(items) >= 2 and used < budget:
        chunk = max(1, len(items) // n)
        reduced = False
        for i in range(0, len(items), chunk):
            cand = items[:i] + items[i + chunk:]
            if not cand:
                continue
            used += 1
            if still_fails(cand):
                items, n, reduced = cand, max(n - 1, 2), True
                break
            if used >= budget:
                break
        if not reduced:
            if chunk == 1:
                break
            n = min(len(items), n * 2)
    return items


def boundary_chains(limit, uid_pass, uid_drop):
    """chains whose deciding element sits at the very end of a chain of exactly L bytes, L around powers of two and the
    configuration-line limit: many short elements, one long argument, one long unknown name; a long uid list whose last entry decides"""
    out = []
    Ls = sorted(set(x for x in [16, 63, 64, 65, 100, 127, 128, 129, 255, 256, 257, 500, 511, 512, 513, 767, 1000, limit - 24, limit - 3, limit - 2, limit - 1] if 14 < x < limit))
    for L in Ls:
        for tail in (b"only_uid:%d" % uid_drop, b"exclude_uid:%d" % uid_pass):       # both drop for a process with real uid uid_pass
            room = L - len(tail) - 1
            if room < 0:
                continue
            out.append((b"noop;" * (room // 5 + 1))[:room] + b";" + tail)                       # many short elements
            if room >= 6:
                out.append(b"noop:" + b"a" * (room - 5) + b";" + tail)                          # one long argument
                out.append(b"q" * room + b";" + tail)                                           # one long unknown name without colon
                out.append(b"q" * (room - 2) + b":z;" + tail)                                   # one long unknown name with colon
        # the whole list must be read: the only matching entry is the last one
        for head in (b"only_uid:", b"exclude_uid:"):                                           # passes / drops
            room = L - len(head) - len(b"%d" % uid_pass) - 1
            if room >= 1:
                filler = ((b"%d," % uid_drop) * (room // (len(b"%d" % uid_drop) + 1) + 1))[:room].rstrip(b",")
                out.append(head + filler + b"," + b"%d" % uid_pass)
    return out


def run_uidhist(run, lib, ini_bytes, seq, tag, timeout=25):
    """one process image (root, LD_PRELOAD = lib + recorder), one exec call per entry of seq = [(uid, gid)], the real uid/gid changed
    in between; file output to <dir>/out.log.  Returns [(uid, gid, bytes appended, ret, errno)] or an error string."""
    tools = stage_tools(run)
    os.chmod(lib, 0o755)
    d = os.path.join(run.scratch, "hist-" + tag)
    os.makedirs(d, exist_ok=True)
    os.chmod(d, 0o777)
    ini, log = os.path.join(d, "snoopy.ini"), os.path.join(d, "out.log")
    open(ini, "wb").write(ini_bytes.replace(b"@D@", d.encode()))
    os.chmod(ini, 0o644)
    open(log, "wb").close()
    os.chmod(log, 0o666)
    e = {"PATH": "/usr/bin:/bin", "HOME": "/", "LD_PRELOAD": "%s %s" % (lib, os.path.join(tools, "librecorder.so"))}
    try:
        p = subprocess.run([os.path.join(tools, "tool_uidhist"), ini, log, ",".join("%d:%d" % x[:2] + (":t" if len(x) > 2 and x[2] else "") for x in seq)], env=e, cwd=d, timeout=timeout,
                           stdin=subprocess.DEVNULL, stdout=subprocess.PIPE, stderr=subprocess.PIPE)
    except subprocess.TimeoutExpired:
        return "timeout"
    if p.returncode != 0:
        return "exit %d: %s" % (p.returncode, p.stderr.decode(errors="replace")[-200:])
    out = []
    for line in p.stdout.decode().splitlines():
        f = line.split("\t")
        out.append(tuple(int(x) for x in f))
    return out
