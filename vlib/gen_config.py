"""Generators for the configuration area (C08): INI files from the grammar AST (Config/Grammar.v), byte-level
mutations of rendered files, option values (well-formed and garbage), numbers 0..10^15 and beyond with every suffix."""
from .core import hexs

WS_CHOICES = [b"", b"", b"", b" ", b" ", b"\t", b"  ", b" \t ", b"\x0b", b"\x0c", b"\r"]
TEXT = b"abcXYZ019 _-%{}:;=#[]\"'/.,\\\t\x7f\x80\xff"


def rtext(rng, n, alphabet=TEXT):
    return bytes(rng.choice(alphabet) for _ in range(n))


def ws(rng, nonempty=False):
    w = rng.choice(WS_CHOICES)
    if nonempty and not w:
        w = rng.choice([b" ", b"\t", b"    "])
    return w


def numbers(rng):
    r = rng.random()
    if r < 0.25:
        n = rng.choice([0, 1, 2, 9, 10, 254, 255, 256, 1000, 1023, 1024, 1025, 2047, 2048, 16383, 65535, 65536, 1048574, 1048575, 1048576, 1048577,
                        2147483647, 2147483648, 4294967295, 4294967296, 4294967297, 10 ** 15, 10 ** 15 + 1, 2 ** 63 - 1, 2 ** 63, 2 ** 64, 2 ** 64 + 255])
    elif r < 0.5:
        n = 10 ** rng.randrange(0, 26) + rng.choice([-1, 0, 0, 1])
    elif r < 0.8:
        n = rng.randrange(0, 10 ** rng.choice([1, 3, 4, 6, 7, 10, 15, 16, 19, 20, 30]))
    else:
        n = rng.randrange(200, 1200)
    n = max(n, 0)
    s = str(n).encode()
    if rng.random() < 0.1:
        s = b"0" * rng.choice([1, 2, 20]) + s
    return s


def len_value(rng):
    r = rng.random()
    if r < 0.8:
        return numbers(rng) + rng.choice([b"", b"", b"k", b"K", b"m", b"M", b"g", b"kb", b"Mi", b" k", b"kk", b"x", b".5k"])
    return rng.choice([b"", b"asdf", b"-1", b"+5", b" 300", b"0x100", b"k", b"m", b"1e6", b"0", b"00", b"000k", b"1 000", b"\xb2", b"7k", b"1m"])


def casing(rng, s):
    r = rng.random()
    if r < 0.4:
        return s
    if r < 0.7:
        return s.lower()
    return bytes(c ^ 0x20 if (65 <= c <= 90 or 97 <= c <= 122) and rng.random() < 0.5 else c for c in s)


def syslog_value(rng, names):
    r = rng.random()
    n = rng.choice(names)
    if r < 0.35:
        return casing(rng, n)
    if r < 0.65:
        return casing(rng, b"LOG_" + n)
    if r < 0.72:
        return casing(rng, b"LOG_LOG_" + n)
    if r < 0.8:
        # LOG_ anywhere but at the start is not a prefix
        return rng.choice([b"XYZ_", b"LOG", b"LOG-", b"_", b"LOG_ ", b" ", b"SYSLOG_", b"xLOG_", b"local0,log_", b"LOG_x LOG_", b"A_LOG_", b"_LOG_"]) + casing(rng, n)
    if r < 0.9:
        return rng.choice([b"", b"A", b"LO", b"LOG", b"LOG_", b"LOG_LOG_", b"log_", b"0", b"6", b"(invalid)", b"AUTH ", b"AUTHX", b"AUT", b"LOCAL8", b"LOCAL", b"INFORMATION", b"\xff"])
    return n + rtext(rng, rng.choice([1, 3]))


def output_value(rng, names):
    r = rng.random()
    n = rng.choice(names)
    arg = rng.choice([b"", b"/var/log/snoopy.log", b"/x:y", b":", b"/a b", b"/tmp/%{datetime:%Y-%m-%d}", b"a:b:c", b" /lead", b"/trail "]) if rng.random() < 0.7 else rtext(rng, rng.choice([1, 5, 30]))
    if r < 0.3:
        return n
    if r < 0.65:
        return n + b":" + arg
    if r < 0.75:
        return rng.choice([b":", b":x", b"::", b"", b":file:/x", b"file", b"file:", b"FILE:/x", b"File", b"nosuch", b"nosuch:/x", b"file /x", b" file:/x", b"fil", b"filee:/x", b"noop:"])
    if r < 0.85:
        return casing(rng, n) + b":" + arg
    return rtext(rng, rng.choice([1, 4, 12]))


def bool_value(rng):
    if rng.random() < 0.7:
        return rng.choice([b"yes", b"no", b"Yes", b"NO", b"true", b"false", b"True", b"FALSE", b"1", b"0", b"y", b"n", b"t", b"f", b"on", b"off", b"", b"2", b"maybe", b" yes", b"Nope", b"10", b"01"])
    return rtext(rng, rng.choice([1, 2, 6]))


def string_value(rng):
    r = rng.random()
    if r < 0.3:
        return rng.choice([b"", b"%{cmdline}", b"uid=%{uid} tty=%{tty} cmdline=%{cmdline}", b"only_uid:0", b"exclude_uid:1,2,3", b"filter1:arg11;filter2:arg21,arg22",
                           b"a;b", b"a ;b", b"a\t;b", b"a ; b ; c", b"a\x0b;b", b"a\x0c;b", b"a\r;b", b"a\x0c#b", b"x\r; y\x0b;", b";lead", b"#lead", b"\"", b"'", b"\"\"", b"a\"b", b"\"a\"", b"'a'", b"\"a'", b" x ", b"x=y", b"x:y", b"[x]", b"snoopy"])
    return rtext(rng, rng.choice([1, 3, 8, 20, 60]))


def option_value(rng, kind, consts):
    fac = [n.encode("latin1") for n, _ in consts["fac_to_int"]] or [b"AUTH"]
    lvl = [n.encode("latin1") for n, _ in consts["lvl_to_int"]] or [b"INFO"]
    outs = [n.encode("latin1") for n in consts["output_names"]] or [b"file"]
    if kind == "OErrorLogging":
        return bool_value(rng)
    if kind == "OFacility":
        return syslog_value(rng, fac if rng.random() < 0.9 else lvl)
    if kind == "OLevel":
        return syslog_value(rng, lvl if rng.random() < 0.9 else fac)
    if kind == "OOutput":
        return output_value(rng, outs)
    if kind in ("ODsLen", "OLogLen"):
        return len_value(rng)
    return string_value(rng)


# ------------------------------------------------------------------------------------------------ AST
def has_inline(v):
    return any(v[i] in b" \t\n\x0b\x0c\r" and v[i + 1] == 0x3b for i in range(len(v) - 1))


def strip_ws(v):
    return v.strip(b" \t\n\x0b\x0c\r")


def clean(v):
    return v.replace(b"\n", b"n").replace(b"\x00", b"0")


def render_item(it):
    k = it[0]
    if k == "B":
        return it[1]
    if k == "C":
        return it[1] + it[2] + it[3]
    if k == "S":
        return it[1] + b"[" + it[2] + b"]" + it[3]
    if k == "K":
        _, w1, key, w2, sep, w3, q, v, w4, cm = it
        qv = v if q == 0 else (b'"' + v + b'"' if q == 1 else b"'" + v + b"'")
        return w1 + key + w2 + sep + w3 + qv + w4 + (b";" + cm if cm is not None else b"")
    return it[1] + it[2]


EOL = {"n": b"\n", "r": b"\r\n", "e": b""}


def enc_item(it, e):
    k = it[0]
    if k == "K":
        _, w1, key, w2, sep, w3, q, v, w4, cm = it
        f = ["K", hexs(w1), hexs(key), hexs(w2), hexs(sep), hexs(w3), str(q), hexs(v), hexs(w4), "~" if cm is None else hexs(cm), e]
    else:
        f = [k] + [hexs(x) for x in it[1:]] + [e]
    return ";".join(f)


def gen_item(rng, consts, prev_set, wellformed):
    """One item; mostly well-formed in the context (prev_set), occasionally not (the model's wf says so)."""
    rows = consts["options"]
    r = rng.random()
    sloppy = not wellformed and rng.random() < 0.5
    if r < 0.08:
        return ("B", ws(rng))
    if r < 0.2:
        return ("C", ws(rng), rng.choice([b";", b"#"]), clean(rtext(rng, rng.choice([0, 5, 30]))) if rng.random() < 0.7 else b" message_format = hidden")
    if r < 0.35:
        name = rng.choice([b"snoopy", b"snoopy", b"snoopy", b"other", b"Snoopy", b"snoopy ", b" snoopy", b"", b"sno;opy", b"a=b", b"x" * rng.choice([48, 49, 50, 51, 60]), b"snoopy" + b"\t" * 44])
        if sloppy:
            name = rng.choice([b"sno]opy", b"a ;b", b"snoopy\tx ;"])
        w = b"" if (prev_set and not sloppy) else ws(rng)
        return ("S", w, name, rng.choice([b"", b"", b" ", b" ; comment", b"trailing", b"]", b" [other]"]))
    if r < 0.45 and (prev_set or sloppy):
        v = strip_ws(clean(string_value(rng))) or b"cont"
        if v[:1] in (b";", b"#") and not sloppy:
            v = b"c" + v
        return ("N", ws(rng, True), v)
    # key = value
    if rng.random() < 0.85 and rows:
        row = rng.choice(rows)
        key = row["name"].encode("latin1")
        v = option_value(rng, row["parse"], consts)
    else:
        key = rng.choice([b"unknown_key", b"", b"message format", b"Message_Format", b"output2", b"k" * rng.choice([48, 49, 50, 70]), b"x.y", b"key with spaces"])
        v = string_value(rng)
    v = clean(v)
    q = rng.choice([0, 0, 0, 1, 1, 2])
    w1 = b"" if (prev_set and not sloppy) else ws(rng)
    w2, w3, w4 = ws(rng), ws(rng), ws(rng)
    if not key:
        w2 = b""
    sep = rng.choice([b"=", b"=", b":"])
    cm = None
    if rng.random() < 0.25:
        cm = clean(rtext(rng, rng.choice([0, 4, 20])))
        if not w4:
            w4 = b" "
    if not sloppy:
        if q == 0:
            v = strip_ws(v)
            if len(v) >= 1 and v[:1] in (b'"', b"'") and v[-1:] == v[:1]:
                q = 1 if v[:1] == b"'" else 2
        if has_inline(w3 + (v if q == 0 else b'"' + v + b'"')):
            v = v.replace(b";", b",")
    return ("K", w1, key, w2, sep, w3, q, v, w4, cm)


def prev_after(prev_set, it):
    if it[0] == "S":
        return False
    if it[0] == "K":
        return len(it[2]) > 0
    return prev_set


def gen_ast(rng, consts, maxline):
    """Returns (bom, [(item, eol)]).  Starts in [snoopy] most of the time; some lines are padded to the fgets boundary."""
    items = []
    bom = rng.random() < 0.15
    prev_set = False
    wellformed = rng.random() < 0.85
    if rng.random() < 0.85:
        items.append((("S", b"", b"snoopy", b""), "n"))
    n = rng.choice([0, 1, 2, 3, 4, 6, 9, 14])
    for i in range(n):
        it = gen_item(rng, consts, prev_set, wellformed)
        e = rng.choice(["n", "n", "n", "r"])
        if rng.random() < 0.12:
            # pad to the buffer boundary: physical line (with its line end) of maxline-3 .. maxline+2 bytes
            want = maxline - 1 + rng.choice([-2, -1, 0, 0, 1, 2, 3])
            cur = len(render_item(it)) + len(EOL[e]) + (3 if bom and not items else 0)
            pad = want - cur
            if pad > 0:
                if it[0] == "C":
                    it = (it[0], it[1], it[2], it[3] + b"p" * pad)
                elif it[0] == "K":
                    it = it[:7] + (it[7] + b"v" * pad,) + it[8:]
                elif it[0] == "N":
                    it = (it[0], it[1], it[2] + b"v" * pad)
                elif it[0] == "B":
                    it = (it[0], it[1] + b" " * pad)
        items.append((it, e))
        prev_set = prev_after(prev_set, it)
    if items and rng.random() < 0.2:
        items[-1] = (items[-1][0], "e")
    return bom, items


def enc_ast(bom, items):
    return "ast\t%d\t%s" % (1 if bom else 0, "|".join(enc_item(it, e) for it, e in items) or "-")


MUT_BYTES = b" =:;#[]\"'\n\r\t\x00\xef\xbb\xbfab\\"


def mutate(rng, data, maxline):
    d = bytearray(data)
    for _ in range(rng.choice([1, 1, 2, 4])):
        r = rng.random()
        if r < 0.3 and d:
            d[rng.randrange(len(d))] = rng.choice(MUT_BYTES)
        elif r < 0.5:
            d.insert(rng.randrange(len(d) + 1), rng.choice(MUT_BYTES))
        elif r < 0.65 and d:
            del d[rng.randrange(len(d))]
        elif r < 0.75:
            d[0:0] = b"\xef\xbb\xbf"
        elif r < 0.85:
            # a long line: key=value of boundary length, or a long comment hiding an assignment after the buffer boundary
            L = maxline - 1 + rng.choice([-2, -1, 0, 1, 2, 10])
            pos = rng.choice([0, len(d)]) if rng.random() < 0.5 or b"\n" not in d else d.index(b"\n") + 1
            line = rng.choice([b"message_format=" + b"M" * max(0, L - 16), b"; " + b"c" * max(0, L - 24) + b" output = file:/x",
                               b"output = file:/" + b"o" * max(0, L - 16), b" " * max(0, L - 8) + b"\toutput=noop"]) + b"\n"
            d[pos:pos] = line
        elif r < 0.92 and d:
            # duplicate a line (duplicate keys)
            lines = bytes(d).split(b"\n")
            i = rng.randrange(len(lines))
            lines.insert(rng.randrange(len(lines) + 1), lines[i])
            d = bytearray(b"\n".join(lines))
        else:
            d = bytearray(bytes(d).replace(b"\n", b"\r\n", rng.choice([1, 100])))
    return bytes(d)
