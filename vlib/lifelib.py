"""Shared pieces of the life-cycle checks C11 (configuration histories) and C16 (residue):
production libraries in both thread-safety variants, runs under liballoc / libfaultlite, parsing of the sampled phases,
configuration generator covering every option."""
import os, re, subprocess
from concurrent.futures import ThreadPoolExecutor
from .core import BUILD, CheckError, hexs, hexlist
from .syslevel import build_prod, run_script, RECORDER, call_line

ALLOC = os.path.join(BUILD, "harness", "liballoc.so")
FAULT = os.path.join(BUILD, "harness", "libfaultlite.so")


def build_both(run):
    """thread-safe and non-thread-safe production libraries from the snapshot, built concurrently"""
    for so in (ALLOC, FAULT, RECORDER):
        if not os.path.exists(so):
            raise CheckError("%s missing: run MANIFEST.setup_cmd" % so)
    with ThreadPoolExecutor(2) as ex:
        a = ex.submit(build_prod, run, True)
        b = ex.submit(build_prod, run, False)
        return {"ts": a.result(), "nts": b.result()}


def compiled_ini_path(run):
    m = re.search(r'^#define\s+SNOOPY_CONF_CONFIGFILE_PATH\s+"([^"]*)"', run.src("config.h"), re.M)
    return m.group(1) if m else "/usr/local/etc/snoopy.ini"


def run_life(run, lib, script, tag, fault=None, trace=False, timeout=120, extra_env=None, prod=False):
    """prod: the library reads its COMPILED-IN configuration path (served from the run's snoopy.ini by libfaultlite's fopen redirection) and the
    test hook for an alternative path is shadowed: the production branch of the configuration ctor runs"""
    env = {"LD_PRELOAD": " ".join([ALLOC, FAULT, lib, RECORDER]), "VERIF_ALLOC_OBJ": os.path.basename(lib), "VERIF_FAULT_OBJ": os.path.basename(lib), "VERIF_ALLOC_QUARANTINE": "1"}
    if fault:
        env["VERIF_FAULT"] = fault
    if trace:
        env["VERIF_FAULT_TRACE"] = "1"
    if prod:
        env["VERIF_PROD_INI"] = "%s=%s" % (compiled_ini_path(run), os.path.join(run.scratch, "sys-" + tag, "snoopy.ini"))
    if extra_env:
        env.update(extra_env)
    return run_script(run, lib, script, tag, timeout=timeout, env=env)


LIFEMT = os.path.join(BUILD, "harness", "tool_lifemt")
LIFEGATE = os.path.join(BUILD, "harness", "liblifegate.so")


def run_lifemt(run, lib, tag, rounds, order, extra_ini=b"", timeout=120):
    """three overlapping wrapped calls per round (tool_lifemt / liblifegate); -> {"status", "stderr", "marks": [(label, n, alloc-dict)]}"""
    from .syslevel import parse_rec
    d = os.path.join(run.scratch, "mt-" + tag)
    os.makedirs(d, exist_ok=True)
    ini, rec = os.path.join(d, "snoopy.ini"), os.path.join(d, "rec.txt")
    open(ini, "wb").write(b"[snoopy]\noutput = file:" + os.path.join(d, "gate.log").encode() + b"\n" + extra_ini)
    if os.path.exists(rec):
        os.unlink(rec)
    env = {"PATH": "/usr/bin:/bin", "HOME": "/root", "LD_PRELOAD": " ".join([ALLOC, lib, LIFEGATE]), "VERIF_ALLOC_OBJ": os.path.basename(lib), "VERIF_ALLOC_QUARANTINE": "1"}
    try:
        p = subprocess.run([LIFEMT, rec, ini, str(rounds), order], env=env, cwd=d, timeout=timeout, stdin=subprocess.DEVNULL, stdout=subprocess.PIPE, stderr=subprocess.PIPE)
        status, err = p.returncode, p.stderr.decode(errors="replace")
    except subprocess.TimeoutExpired as ex:
        status, err = "timeout", (ex.stderr or b"").decode(errors="replace")
    marks, cur, errs, masks = [], None, [], []
    for f in (parse_rec(rec) if os.path.exists(rec) else []):
        if f[0] == "mask" and len(f) > 4:
            masks.append((int(f[1]), int(f[2]), f[3], f[4]))
        elif f[0] == "mark":
            cur = (f[1], int(f[2]))
        elif f[0] == "alloc" and cur:
            dd = kv(f[1:])
            marks.append((cur[0], cur[1], {"lib": sites(dd.get("lib")), "other": sites(dd.get("other"))}))
            cur = None
        elif f[0] == "allocerr":
            errs.append((f[1], f[2] if len(f) > 2 else "?"))
    return {"status": status, "stderr": err, "marks": marks, "errs": errs, "masks": masks, "dir": d}


import threading
_stage_lock = threading.Lock()


def stage_life_tools(run):
    import shutil
    with _stage_lock:
        tools = os.path.join(run.scratch, "life-tools")
        if not os.path.isdir(tools):
            tmp = tools + ".tmp"
            os.makedirs(tmp, exist_ok=True)
            for f in ("tool_caller", "tool_runas", "librecorder.so", "liballoc.so", "libfaultlite.so"):
                src = os.path.join(BUILD, "harness", f)
                if not os.path.exists(src):
                    raise CheckError("%s missing: run MANIFEST.setup_cmd" % src)
                shutil.copy(src, os.path.join(tmp, f))
                os.chmod(os.path.join(tmp, f), 0o755)
            os.chmod(tmp, 0o755)
            os.chmod(run.scratch, 0o755)
            os.rename(tmp, tools)
        return tools


def run_life_as(run, lib, script, tag, uid, tty, fault=None, timeout=120):
    """like run_life, but the caller runs as `uid` (real = effective = saved; 0 = stay root) with a pty (tty) or /dev/null on stdin (harness/tool_runas.c);
    every file the run needs is staged world-readable inside the scratch directory"""
    import shutil
    from .syslevel import parse_rec
    tools = stage_life_tools(run)
    os.chmod(lib, 0o755)
    d = os.path.join(run.scratch, "sys-" + tag)
    os.makedirs(d, exist_ok=True)
    os.chmod(d, 0o777)
    sp, rec, ini = (os.path.join(d, x) for x in ("script.txt", "rec.txt", "snoopy.ini"))
    open(sp, "w").write("".join(l + "\n" for l in script))
    os.chmod(sp, 0o644)
    if os.path.exists(rec):
        os.unlink(rec)
    pre = " ".join([os.path.join(tools, "liballoc.so"), os.path.join(tools, "libfaultlite.so"), lib, os.path.join(tools, "librecorder.so")])
    env = {"PATH": "/usr/bin:/bin", "HOME": "/", "VERIF_ALLOC_OBJ": os.path.basename(lib), "VERIF_FAULT_OBJ": os.path.basename(lib), "VERIF_ALLOC_QUARANTINE": "1"}
    if fault:
        env["VERIF_FAULT"] = fault
    if tty:                                  # a utmp file that exists and has no record for the run's terminal
        up = os.path.join(d, "utmp")
        open(up, "wb").write(b"\0" * 384)    # one empty (EMPTY type) record
        os.chmod(up, 0o644)
        env["VERIF_UTMP"] = up
    cmd = [os.path.join(tools, "tool_runas"), str(uid), "1" if tty else "0", pre, os.path.join(tools, "tool_caller"), sp, rec, ini]
    try:
        p = subprocess.run(cmd, env=env, cwd=d, timeout=timeout, stdin=subprocess.DEVNULL, stdout=subprocess.PIPE, stderr=subprocess.PIPE)
        status, err = p.returncode, p.stderr.decode(errors="replace")
    except subprocess.TimeoutExpired as ex:
        status, err = "timeout", (ex.stderr or b"").decode(errors="replace")
    return {"status": status, "stderr": err, "records": parse_rec(rec) if os.path.exists(rec) else [], "dir": d, "ini": ini}


def coq_query(run, name, text, timeout=120):
    """compile a throw-away query file against the run's Gen files; returns coqc's output (diagnosis of a broken obligation)"""
    from .core import THEORIES, sh
    d = os.path.join(run.scratch, "props")
    os.makedirs(d, exist_ok=True)
    f = os.path.join(d, name + ".v")
    open(f, "w").write(text)
    p = sh(["timeout", str(timeout), "coqc", "-q", "-Q", THEORIES, "Snoopy", "-Q", run.gen, "Gen", "-Q", d, "Props", f], check=False, timeout=timeout + 30)
    return re.sub(r"\s+", " ", p.stdout).strip()


def kv(fields):
    d = {}
    for f in fields:
        if "=" in f:
            k, v = f.split("=", 1)
            d[k] = v
    return d


def sites(s):
    """'obj+off:count:bytes,...' -> {site: (count, bytes)}"""
    out = {}
    if s and s != "-":
        for it in s.split(","):
            p = it.rsplit(":", 2)
            if len(p) == 3:
                out[p[0]] = (int(p[1]), int(p[2]))
    return out


def phases(records):
    """per call index: {phase: {"state": {...}, "lib": {site: (n, bytes)}, "other": {...}, "live": n}}, plus the event lists"""
    calls, errs, faults, trace = {}, [], [], {}
    allsites = set()
    pending = None
    for f in records:
        if f[0] == "alloc":
            d = kv(f[1:])
            pending = {"live": int(d.get("live", 0)), "lib": sites(d.get("lib")), "other": sites(d.get("other"))}
        elif f[0] == "state":
            st = kv(f[3:])
            e = {"state": st}
            if pending:
                e.update(pending)
                pending = None
            calls.setdefault(int(f[2]), {})[f[1]] = e
        elif f[0] == "allocerr":
            errs.append((f[1], f[2] if len(f) > 2 else "?"))
        elif f[0] == "fault":
            faults.append((int(f[1]), f[2], int(f[3]), int(f[4])))
        elif f[0] == "ftrace":
            trace.setdefault(int(f[1]), []).append((f[2], int(f[3])))
            if len(f) > 4:
                allsites.add((f[2], f[4]))
        elif f[0] == "allocsites" and len(f) > 1:
            for st in f[1].split(","):
                if st:
                    allsites.add(("alloc", st))
    phases.last_sites = allsites
    return calls, errs, faults, trace


def site_functions(lib, site_list):
    """{site: function name} for 'obj+0xoff' call sites inside `lib` (one addr2line run)"""
    addrs, keys = [], []
    for st in site_list:
        m = re.match(r".*\+0x([0-9a-f]+)$", st)
        if m:
            addrs.append("0x%x" % (int(m.group(1), 16) - 1))
            keys.append(st)
    if not addrs:
        return {}
    p = subprocess.run(["addr2line", "-f", "-e", lib] + addrs, stdout=subprocess.PIPE, text=True, timeout=60)
    l = p.stdout.strip().splitlines()
    return {k: l[2 * i] for i, k in enumerate(keys) if 2 * i < len(l)}


def addr2line(lib, site):
    m = re.match(r".*\+0x([0-9a-f]+)$", site)
    if not m:
        return site
    try:
        p = subprocess.run(["addr2line", "-f", "-e", lib, "0x%x" % (int(m.group(1), 16) - 1)], stdout=subprocess.PIPE, text=True, timeout=20)
        l = p.stdout.strip().splitlines()
        if len(l) >= 2:
            return "%s (%s)" % (re.sub(r"^.*/tree/", "", l[1]), l[0])
    except Exception:
        pass
    return site


# ------------------------------------------------------------------------------------------------ configuration generator

DET_SOURCES = ["%{cmdline}", "%{filename}", "%{uid}", "%{euid}", "%{gid}", "%{egid}", "%{username}", "%{eusername}", "%{group}", "%{egroup}", "%{cwd}",
               "%{hostname}", "%{domain}", "%{env:HOME}", "%{env:NL}", "%{env:NOSUCH}", "%{env_all}", "%{login}", "%{tty}", "%{tty_uid}", "%{tty_username}", "%{rpname}",
               "%{cgroup:name=systemd}", "%{cgroup:1}", "%{cgroup}", "%{systemd_unit_name}", "%{snoopy_version}", "%{snoopy_literal:lit}", "%{snoopy_threads}",
               "%{snoopy_configure_command}", "%{sid}", "%{ipaddr}"]
VOLATILE_SOURCES = ["%{pid}", "%{ppid}", "%{tid}", "%{tid_kernel}", "%{timestamp}", "%{timestamp_ms}", "%{timestamp_us}", "%{datetime}", "%{datetime:%Y-%m-%d}"]
BAD_SOURCES = ["%{nosuch}", "%{nosuch:arg}", "%{", "%{cmdline", "%{env}", "%{}", "%{:}", "}%{"]
FILTERS = ["", "only_uid:0", "exclude_uid:0", "only_root", "only_tty", "exclude_spawns_of:nosuchprog,alsonot", "exclude_spawns_of:", "exclude_spawns_of:python3,sh",
           "only_uid:0;only_root", "nosuchfilter:x", "only_uid:1,2,0;exclude_uid:5", "only_uid:", "exclude_uid:abc", "only_root;nosuch"]
OUTPUTS = ["file:@D@/a.log", "file:@D@/b.log", "file:@D@/%{username}.log", "file", "file:/nonexistent/dir/x.log", "socket:@D@/s.sock", "socket:/nonexistent/s.sock", "socket",
           "devlog", "devnull", "devtty", "stdout", "stderr", "nosuch", "nosuch:arg", ":x", ""]
BOOLS = ["yes", "no", "1", "0", "true", "FALSE", "maybe", ""]
FACILITIES = ["LOG_AUTH", "local3", "DAEMON", "log_user", "AUTHPRIV", "garbage", "", "LOG_"]
LEVELS = ["debug", "LOG_ERR", "warning", "NOTICE", "emerg", "garbage", ""]
IDENTS = ["snoopy", "id-%{username}", "x" * 300, "%{nosuch}", ""]
LIMITS = ["255", "256", "300", "2047", "1k", "1m", "0", "abc", "99999999999", "16383", "1048575", "2000000", "-5", ""]
OPTION_NAMES = ["error_logging", "filter_chain", "message_format", "output", "syslog_facility", "syslog_ident", "syslog_level",
                "datasource_message_max_length", "log_message_max_length"]


def gen_format(rng, volatile=False):
    pool = DET_SOURCES + (VOLATILE_SOURCES if volatile else [])
    n = rng.choice([1, 1, 2, 3, 5])
    parts = []
    for _ in range(n):
        r = rng.random()
        parts.append(rng.choice(BAD_SOURCES) if r < 0.08 else rng.choice(pool))
        if rng.random() < 0.5:
            parts.append(rng.choice([" ", "|", "lit ", ":"]))
    return "".join(parts)


def option_line(rng, name, volatile=False):
    if name == "message_format":
        v = gen_format(rng, volatile)
        return 'message_format = "%s"' % v if rng.random() < 0.7 else "message_format = " + v
    if name == "filter_chain":
        v = rng.choice(FILTERS)
        return 'filter_chain = "%s"' % v if rng.random() < 0.6 else "filter_chain = " + v
    if name == "output":
        return "output = " + rng.choice(OUTPUTS)
    if name == "error_logging":
        return "error_logging = " + rng.choice(BOOLS)
    if name == "syslog_facility":
        return "syslog_facility = " + rng.choice(FACILITIES)
    if name == "syslog_level":
        return "syslog_level = " + rng.choice(LEVELS)
    if name == "syslog_ident":
        return 'syslog_ident = "%s"' % rng.choice(IDENTS)
    return "%s = %s" % (name, rng.choice(LIMITS))


def gen_config(rng, volatile=False, force=None):
    """-> (bytes or None, label).  None = file removed.  `force`: list of option names that must occur."""
    r = rng.random()
    if force is None:
        if r < 0.10:
            return None, "removed"
        if r < 0.17:
            return b"", "empty"
        if r < 0.24:
            return bytes(rng.randrange(256) for _ in range(rng.choice([5, 60, 400]))), "binary-garbage"
    lines = []
    kind = "plain"
    if force is None and rng.random() < 0.08:
        kind = "no-section-header"
    else:
        lines.append("[snoopy]")
    names = list(force or [])
    names += [rng.choice(OPTION_NAMES) for _ in range(rng.choice([0, 1, 2, 3, 5, 8]))]
    if rng.random() < 0.35:
        kind = "duplicates"
        names += [rng.choice(names)] * rng.choice([1, 2]) if names else []
    rng.shuffle(names)
    if "output" not in names and rng.random() < 0.7:
        names.append("output")
    for n in names:
        lines.append(option_line(rng, n, volatile))
        r = rng.random()
        if r < 0.06:
            lines.append("; a comment")
        elif r < 0.10:
            lines.append("unknown_option = 1")
        elif r < 0.13:
            lines.append("[other]")
            lines.append(option_line(rng, rng.choice(OPTION_NAMES), volatile))
            lines.append("[snoopy]")
        elif r < 0.16:
            kind = "corrupted"
            lines.append(rng.choice(["= = =", "no equals sign here", "[unterminated", "\x01\x02\xff", "x" * 1500 + " = 1"]))
    return ("\n".join(lines) + ("\n" if rng.random() < 0.9 else "")).encode("latin-1"), kind


SINKS = ["sink\tfile\ta\t@D@/a.log", "sink\tfile\tb\t@D@/b.log", "sink\tfile\tu\t@D@/root.log", "sink\tpipe\tso\t1", "sink\tpipe\tse\t2",
         "sink\tdgram\tsock\t@D@/s.sock", "sink\tdevlog\tdevlog\t@D@/devlog.sock"]
ENVLINE = "env\t" + hexlist([b"HOME=/root", b"PATH=/bin", b"X=from-environ", b"NL=line one\nline two\r\nline three"])
