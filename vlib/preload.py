"""Shared machinery of the C18/C19/C20 checks: the real snoopyctl built from the snapshot, driven on scripted
ld.so.preload contents (harness/tool_preload.c), against the extracted model (ocaml/drv_preload.ml)."""
import itertools, os, re, subprocess, glob, json
from concurrent.futures import ThreadPoolExecutor
from .core import VERIF, BUILD, CheckError, hexs, unhex, NCPU, ASAN_FLAGS, PLAIN_FLAGS

TOOL = os.path.join(BUILD, "harness", "tool_preload")
P_MAIN = b"lib/libsnoopy.so"      # relative: created under each worker's directory, identical in model and implementation cases
P_PLAIN = b"l/x.so"               # a test path that does not mention the library name
WORKERS = max(2, min(8, NCPU // 2))

# what the user reads in `snoopyctl status` (fixed vocabulary of the property, not taken from the source)
STATUS_WORDS = [(b"NOT OK - Snoopy is not enabled", "absent"), (b"but not with the expected path", "alien"), (b" OK - Snoopy is enabled", "present")]


def build_ctl(run, san=False):
    """snoopyctl exactly from the snapshot's src/cli/*.c + src/util/*.c (what Makefile.am links: cli-subroutines + libsnoopy-utils)."""
    out = os.path.join(run.scratch, "snoopyctl-" + ("asan" if san else "plain"))
    if os.path.exists(out):
        return out
    srcs = sorted(glob.glob(os.path.join(run.tree, "src/cli/*.c"))) + sorted(glob.glob(os.path.join(run.tree, "src/util/*.c")))
    flags = ["-std=c99", "-DHAVE_CONFIG_H", "-w", "-ffunction-sections", "-fdata-sections", "-I" + run.tree, "-I" + os.path.join(run.tree, "src")] \
        + (ASAN_FLAGS if san else PLAIN_FLAGS)
    objdir = os.path.join(run.scratch, "obj-ctl-" + ("asan" if san else "plain"))
    os.makedirs(objdir, exist_ok=True)

    def one(s):
        o = os.path.join(objdir, os.path.relpath(s, run.tree).replace("/", "__")[:-2] + ".o")
        p = subprocess.run(["gcc"] + flags + ["-c", s, "-o", o], stdout=subprocess.PIPE, stderr=subprocess.STDOUT, text=True)
        return (s, o, p.returncode, p.stdout)
    with ThreadPoolExecutor(8) as ex:
        res = list(ex.map(one, srcs))
    bad = [r for r in res if r[2] != 0]
    if bad:
        raise CheckError("the tree does not compile: %s\n%s" % (bad[0][0], bad[0][3][-3000:]))
    p = subprocess.run(["gcc"] + flags + [r[1] for r in res] + ["-o", out, "-ldl", "-Wl,--gc-sections"], stdout=subprocess.PIPE, stderr=subprocess.STDOUT, text=True)
    if p.returncode != 0:
        raise CheckError("snoopyctl does not link: " + p.stdout[-3000:])
    return out


def canon_status(field):
    """rc:<hex of the status line>  ->  rc:word"""
    rc, _, hx = field.rpartition(":")          # rc may itself be "crash:<signal>"
    if rc == "127":
        return rc + ":multiple" if hx == "-" else rc + ":?"
    line = unhex(hx) or b""
    for sub, word in STATUS_WORDS:
        if sub in line:
            return rc + ":" + word
    return rc + ":?"


def canon(case, result):
    f = case.split("\t")
    r = result.split("\t")
    if r[0] != "ok" or len(f) < 4:
        return result
    ops = f[3]
    out = ["ok"]
    for op, fld in zip(ops, r[1:]):
        out.append(canon_status(fld) if op == "s" else fld)
    return "\t".join(out)


def run_impl(run, exe, cases, tag, workers=None):
    """parallel: the case list is cut into chunks, one tool_preload process and work directory per chunk"""
    if not os.path.exists(TOOL):
        raise CheckError("%s missing: run MANIFEST.setup_cmd" % TOOL)
    workers = workers or WORKERS
    n = len(cases)
    if n == 0:
        return []
    k = min(workers, max(1, n // 20))
    bounds = [(i * n // k, (i + 1) * n // k) for i in range(k)]

    def one(ib):
        i, (a, b) = ib
        wd = os.path.join(run.scratch, "w-%s-%d" % (tag, i))
        os.makedirs(wd, exist_ok=True)
        env = {"PATH": "/usr/bin:/bin"}
        p = subprocess.run([TOOL, exe, wd], input="".join(c + "\n" for c in cases[a:b]), env=env, stdout=subprocess.PIPE, stderr=subprocess.PIPE, text=True, timeout=3600)
        if p.returncode != 0:
            raise CheckError("tool_preload failed (%d): %s" % (p.returncode, p.stderr[-2000:]))
        lines = p.stdout.split("\n")[:-1]
        if len(lines) != b - a:
            raise CheckError("tool_preload printed %d results for %d cases" % (len(lines), b - a))
        return lines
    with ThreadPoolExecutor(k) as ex:
        parts = list(ex.map(one, enumerate(bounds)))
    res = [l for part in parts for l in part]
    return [canon(c, r) for c, r in zip(cases, res)]


def run_model(run, lines, tag):
    d = os.path.join(run.scratch, "m-" + tag)
    os.makedirs(d, exist_ok=True)
    cp = os.path.join(d, "in.txt")
    open(cp, "w").write("".join(l + "\n" for l in lines))
    out = run.run_model("preload", cp, os.path.join(d, "out.txt"))
    if len(out) != len(lines):
        raise CheckError("model driver printed %d results for %d cases" % (len(out), len(lines)))
    bad = [o for o in out if o.startswith("driver-error")]
    if bad:
        raise CheckError("model driver error: " + bad[0])
    return out


# ------------------------------------------------------------------------------------------------ contents
def alphabet18(P):
    return [b"/lib/foreign.so", b"# comment", b"# uses libsnoopy.so", b"# libsnoopy.so and libsnoopy.so", b"",
            P, P + b" ", P + b"\t# c", P + b"#c", P + b" /lib/other.so", b"/opt/x/libsnoopy.so", P + b".bak", b"/pre/" + P,
            b"/lib/a.so # needs libsnoopy.so", b"  # indented libsnoopy.so", P + b"\r"]


def near_miss():
    """lines that a changed search needle (shorter, longer, other case) would classify differently"""
    return [b"/opt/mysnoopy.so", b"/lib/libsnoopy-extra.so", b"/lib/libsnoopy.s", b"/lib/LIBSNOOPY.SO", b"/lib/libsnoopy.so.1",
            b"libsnoopy.so", P_MAIN + b".0.0.0",        # a bare entry without any '/', the path followed by non-blank characters
            P_MAIN + b"\r", P_MAIN + b"\x0b", P_MAIN + b"\x0c /lib/b.so", b"\t" + P_MAIN, b"  " + P_MAIN + b" /lib/b.so",   # CR / VT / FF after the entry, indented entries
            P_MAIN + b" # c\r", P_MAIN + b"\t\r", P_MAIN + b" /lib/b.so\r", P_MAIN + b"#\r"]       # the entry's line ends in CR (LF): CR is part of the line


def adjacent(P):
    """lines in which a rejected candidate of a search is directly followed by the next candidate (the case split "candidate rejected,
    search continues right behind it" of find_entry_spec / noncomment_spec): copies of the path / of the needle back to back"""
    L = b"libsnoopy.so"
    return [P + P, b"#" + P + P, b"x" + P + P, P + b" " + P, P + P + b" " + P, P + b".bak" + P, b"#" + P + P + b" /b.so", P + b"x" + P + b"\t" + P,
            b"#" + L + L, b"# x" + L + L + b" " + L, b"/b.so", b"", b"# c"]


def percent(P):
    """lines with printf directives (never %n): kept lines must come out byte for byte, whatever function writes them"""
    return [b"/lib/50%done.so", b"# 100% sure", b"%s%s%s", b"/x/%d-%u/%5c.so", b"%%", P + b" /lib/50%done.so", P + b" # 100% sure %s", P, b"/lib/foreign.so", b""]


def alphabet19(P):
    return [b"/lib/foreign.so", b"# libsnoopy.so x libsnoopy.so x libsnoopy.so", b"", P, P + b" \t", P + b" # c " + P, P + b"#", P + b" /lib/other.so",
            P + b"\t/lib/b.so  /lib/c.so # c", b"/lib/other.so " + P, b"/opt/x/libsnoopy.so", P + b"x", P + b"\r", b" " + P, b"#" + P, P + b" " + P]


def files(alpha, maxlines):
    """every file of <= maxlines lines over the alphabet, with and without final newline; plus the absent file"""
    yield None
    yield b""
    for k in range(1, maxlines + 1):
        for combo in itertools.product(alpha, repeat=k):
            body = b"\n".join(combo)
            yield body + b"\n"
            if combo[-1] != b"":            # a blank last line without newline is the previous file with newline
                yield body


def random_files(rng, P, n, alpha):
    frag = [b"%s", b"%d", b"%%", b"50%", b"%5c", b"libsnoopy.so", b"libsnoopy.s", b"snoopy.so", b"libsnoopy", b"libsnoopy.solibsnoopy.so", P, P, P + P, b"#" + P + P, P[:-1], b"#", b" ", b"\t", b"\r", b"/", b"a", b"lib", b".so", b":", b"\xc3\xa9", b"\x01", b"\xff"]
    out = []
    for _ in range(n):
        nl = rng.choice([1, 2, 5, 8, 13, 40])
        ls = []
        for _ in range(nl):
            r = rng.random()
            if r < 0.10:
                ls.append(rng.choice(adjacent(P)))
            elif r < 0.18:
                ls.append(rng.choice(percent(P)))
            elif r < 0.7:
                ls.append(rng.choice(alpha))
            else:
                ls.append(b"".join(rng.choice(frag) for _ in range(rng.randrange(0, 9))))
        body = b"\n".join(ls)
        out.append(body + (b"\n" if rng.random() < 0.6 else b""))
    return out


def long_line_files(P):
    """entry lines and foreign lines whose length sits at the usual fixed-buffer sizes (PATH_MAX 4096, stdio 4096/8192, 64 KiB is left to thorough):
    the entry followed by a long comment, by many blanks, by many other libraries; a long foreign line and a long comment around a short entry"""
    out = []
    words = b"/opt/vendor/hook.so deployed by config management, do not remove "

    def fill(n):
        return (words * (n // len(words) + 1))[:n]
    for total in (4094, 4095, 4096, 4097, 4100, 6000, 8191, 8192, 8193):
        n = total - len(P)
        out.append(P + b" # " + fill(n - 3) + b"\n/lib/after.so\n")                  # entry + trailing comment, line of `total` bytes
        if total in (4096, 8192):
            out.append(b"/lib/before.so\n" + P + b" " * n)                              # entry + blanks, last line without newline
            out.append(P + b" " + fill(n - 1).replace(b",", b" ") + b"\n# end\n")        # entry shares a long line with other tokens
            out.append(fill(total) + b"\n" + P + b"\n")                                 # long foreign line before the entry
            out.append(b"# " + fill(total - 2) + b"\n" + P + b"#c\n")                    # long comment before the entry
    return out


def case(P, content, ops):
    return "\t".join(["run", hexs(P), hexs(content), ops])


def outcome(before, field):
    """(file state before, 'rc:after') -> U | R | W:<hex> | B:<why>"""
    rc, _, after = field.rpartition(":")
    if rc not in ("0", "127"):
        return "B"
    if after == before:
        return "U" if rc == "0" else "R"
    if rc == "0" and after != "~":
        return "W:" + after
    return "B"


def spec_lines(case_line, impl_line, kinds="EDR"):
    """spec case lines for one implementation result (the spec is evaluated on what the implementation did)"""
    f = case_line.split("\t")
    r = impl_line.split("\t")
    if r[0] != "ok":
        return []
    P, content, ops = f[1], f[2], f[3]
    if any(not fld.rpartition(":")[0].isdigit() for fld in r[1:]):
        return []           # snoopyctl crashed / sanitizer report in this case: reported as a fault, no spec line
    st = [content]
    for fld, op in zip(r[1:], ops):
        st.append(st[-1] if op == "s" else fld.rpartition(":")[2])
    if ops == "ees" and "E" in kinds:
        return ["\t".join(["specE", P, content, outcome(st[0], r[1]), outcome(st[1], r[2]), r[3].rpartition(":")[2]])]
    if ops.startswith("d") and "D" in kinds:
        return ["\t".join(["specD", P, content, outcome(st[0], r[1])])]
    if ops == "ed" and "R" in kinds:
        return ["\t".join(["specR", P, content, outcome(st[0], r[1]), outcome(st[1], r[2])])]
    return []


def evaluate(run, exe, cases, tag, kinds="EDR"):
    """model vs implementation vs spec on one stream.  Returns dict(mismatch, spec_bad, faults, model, impl)."""
    mo = run_model(run, cases, tag)
    io = run_impl(run, exe, cases, tag)
    mism = [(i, cases[i], mo[i], io[i]) for i in range(len(cases)) if mo[i] != io[i]]
    faults = [(i, cases[i], io[i]) for i in range(len(cases)) if re.search(r"(crash:\d+|san):", io[i]) or not io[i].startswith("ok")]
    idx, sl = [], []
    for i, c in enumerate(cases):
        for l in spec_lines(c, io[i], kinds):
            idx.append(i)
            sl.append(l)
    so = run_model(run, sl, tag + "-spec") if sl else []
    spec_bad = [(idx[k], cases[idx[k]], io[idx[k]], so[k], sl[k]) for k in range(len(sl)) if so[k] != "ok"]
    return {"mismatch": mism, "spec_bad": spec_bad, "faults": faults, "model": mo, "impl": io, "nspec": len(sl)}


def fails(run, exe, c, tag, kinds="EDR"):
    r = evaluate(run, exe, [c], tag, kinds)
    return bool(r["spec_bad"] or r["faults"])


def shrink(run, exe, c, tag="shrink", kinds="EDR"):
    """greedy line deletion while the case still fails its spec (keeps the ops and the path)"""
    f = c.split("\t")
    content = unhex(f[2])
    if content is None:
        return c
    lines = content.split(b"\n")
    changed = True
    budget = 60
    while changed and budget > 0:
        changed = False
        for i in range(len(lines)):
            cand = lines[:i] + lines[i + 1:]
            cc = "\t".join([f[0], f[1], hexs(b"\n".join(cand)), f[3]])
            budget -= 1
            if fails(run, exe, cc, tag, kinds):
                lines = cand
                changed = True
                break
            if budget <= 0:
                break
    return "\t".join([f[0], f[1], hexs(b"\n".join(lines)), f[3]])


def corpus_cases(prop):
    d = os.path.join(VERIF, "corpus", prop)
    out = []
    if os.path.isdir(d):
        for fn in sorted(os.listdir(d)):
            if not fn.endswith(".txt"):
                continue
            for line in open(os.path.join(d, fn)):
                line = line.rstrip("\n")
                if line and not line.startswith("#"):
                    out.append(line)
    return out


def show(c):
    f = c.split("\t")
    cont = unhex(f[2])
    return "path=%r content=%r ops=%s" % (unhex(f[1]), cont, f[3])


def report(run, prop, res, stream, exe, kinds="EDR"):
    """turn an evaluation into violations; returns number of concrete ones"""
    n = 0
    seen = set()
    for (i, c, impl, verdict, sl) in res["spec_bad"]:
        sig = "spec:" + verdict.partition(":")[2]
        if sig in seen:
            continue
        seen.add(sig)
        small = shrink(run, exe, c, kinds=kinds)
        run.violation(sig, "spec_violation", "snoopyctl's observed behaviour violates the %s specification (%s): %s" % (prop, verdict, show(small)),
                      {"stream": stream, "failing_input": small, "original_case": c, "impl_output": impl, "model_output": res["model"][i], "spec_line": sl, "cases": [small, c]})
        n += 1
    for (i, c, impl) in res["faults"]:
        if "fault" in seen:
            continue
        seen.add("fault")
        run.violation("fault:snoopyctl", "sanitizer", "snoopyctl crashed or raised a sanitizer report: %s on %s" % (impl[:200], show(c)),
                      {"stream": stream, "failing_input": c, "impl_output": impl, "model_output": res["model"][i], "cases": [c]})
        n += 1
    return n


def replay_cases(run, prop, path, kinds="EDR"):
    from .tr_preload import tr_preload
    rep = json.load(open(path))
    run.snapshot()
    tr_preload(run)
    exe = build_ctl(run, san=True)
    cases = rep.get("cases") or []
    res = evaluate(run, exe, cases, "replay", kinds)
    for i, c in enumerate(cases):
        print("case: ", show(c))
        print(" model:", res["model"][i][:300])
        print(" impl: ", res["impl"][i][:300])
    for (i, c, impl, verdict, sl) in res["spec_bad"]:
        print(" spec: %s on case %d" % (verdict, i))
    print("spec failures: %d, faults: %d, mismatches: %d" % (len(res["spec_bad"]), len(res["faults"]), len(res["mismatch"])))
    run.cleanup()
    return 1 if (res["spec_bad"] or res["faults"]) else 0
